/-
Property C11 (semantic version) — a linear-relation literal MEANS its relation.

Properties/C11.lean says what `newRel` (C++ `lra_theory::new_lt / new_leq / new_geq / new_gt`) returns: a constant,
or the control literal of an assertion `slack ≤ c` / `slack ≥ c`.  Here the answer is related to the rational
solutions `σ : Nat → Rat` of the tableau (`Lra.RowsHoldAt t σ`, Properties/C09Bridge.lean) and to the value
`Lin.eval e σ` of an expression (Properties/C15.lean):

  1. a non-constant answer is the literal of a registered assertion that, in every solution of the new tableau,
     says exactly the requested relation; every solution of the old tableau extends to one of the new tableau;
  2. a constant answer TRUE / FALSE is right for every solution of the tableau within the bounds;
  3. the bound `propagateLit` asserts for a FALSE literal says exactly the negation of the relation;
  4. the literal of `newEq` is, in every model of the SAT clauses, the conjunction of the `≥` and `≤` literals,
     hence true exactly when the two sides are equal;
  5. a later request with the same printed key gets the same literal, and two requests answered by the same
     literal are equivalent.

Vocabulary (definitions in Lemmas/LraRelSemDefs.lean, Lemmas/LraRelSemFinal.lean; spelled out in the first section):
`IRBelow b y` / `IRAbove b y` compare a rational `y` with an `inf_rational` bound `b = q + k·ε` lexicographically;
`InBounds t σ`; `RelHolds r x y`; `AsrtSays a σ` is what the assertion `a` says; `NegSays a σ` what the bound
asserted for its negation says; `SemState s t` collects the invariants assumed of a state, all of which hold
initially and are kept by `new_var()`, `new_lt … new_gt` (section "invariants").

Statements only; the proofs are in OratioProofs/Lemmas/LraRelSem*.lean.
-/
import OratioModel
import OratioProofs.Properties.C09Bridge
import OratioProofs.Properties.C11
import OratioProofs.Properties.C13
import OratioProofs.Lemmas.LraRelSemFinal
import OratioProofs.Lemmas.LraRelSemNoZero
import OratioProofs.Lemmas.LraRelSemExample

namespace Oratio
open Lra

/-! ## vocabulary, spelled out -/

/-- a finite bound `b = q + k·ε`: `y ≤ b` is `y < q` when `k < 0` and `y ≤ q` otherwise; `b ≤ y` is `q < y` when
    `k > 0` and `q ≤ y` otherwise -/
theorem C11S_bound_reading (b : IR) (hb : b.rat.WF ∧ b.rat.den ≠ 0) (y : Rat) :
    (Lra.IRAbove b y ↔ (if b.inf.toRat < 0 then y < b.rat.toRat else y ≤ b.rat.toRat)) ∧
    (Lra.IRBelow b y ↔ (if 0 < b.inf.toRat then b.rat.toRat < y else b.rat.toRat ≤ y)) := by
  exact ⟨Lra.irAbove_reading hb y, Lra.irBelow_reading hb y⟩

/-- infinite bounds do not constrain -/
theorem C11S_bound_infinite (k : R) (y : Rat) : Lra.IRBelow ⟨R.ninf, k⟩ y ∧ Lra.IRAbove ⟨R.pinf, k⟩ y := by
  exact ⟨Or.inl rfl, Or.inl rfl⟩

/-- "σ within the bounds of t" -/
theorem C11S_inBounds_def (t : Lra) (σ : Nat → Rat) :
    Lra.InBounds t σ ↔ ∀ x, x < t.vals.length → Lra.IRBelow (t.lb x) (σ x) ∧ Lra.IRAbove (t.ub x) (σ x) := by
  exact Iff.rfl

/-- what an assertion says, and what the bound asserted for its negation says -/
theorem C11S_asrtSays_def (a : LAsrt) (σ : Nat → Rat) :
    (a.o = .leq → (Lra.AsrtSays a σ ↔ Lra.IRAbove a.v (σ a.x)) ∧
      (Lra.NegSays a σ ↔ Lra.IRBelow (IR.add a.v ⟨R.zero, R.one⟩) (σ a.x))) ∧
    (a.o = .geq → (Lra.AsrtSays a σ ↔ Lra.IRBelow a.v (σ a.x)) ∧
      (Lra.NegSays a σ ↔ Lra.IRAbove (IR.sub a.v ⟨R.zero, R.one⟩) (σ a.x))) := by
  constructor <;> intro h <;> simp only [Lra.AsrtSays, Lra.NegSays, h] <;> exact ⟨trivial, trivial⟩

/-- the invariants assumed of a state: the tableau invariant of C09 (bridge), the registry invariant of C11, the
    semantic invariant of the caches `exprs` / `s_asrts` (`Lra.SemInv`, Lemmas/LraRelSemDefs.lean) and canonical
    bounds (lower bounds finite or `-∞`, upper bounds finite or `+∞`, finite ε parts) -/
theorem C11S_semState_def (s : Sat) (t : Lra) :
    Lra.SemState s t ↔ Lra.TabWF t ∧ Lra.RelInv s t ∧ Lra.SemInv t ∧ Lra.BndWF t := by
  exact ⟨fun h => ⟨h.tab, h.rel, h.sem, h.bnd⟩, fun ⟨h1, h2, h3, h4⟩ => ⟨h1, h2, h3, h4⟩⟩

/-- the semantic invariant of the caches: a name in `exprs` that prints a canonical expression names a variable
    that has the value of that expression in every solution; a key in `s_asrts` that prints `x (≤|≥) c` is bound
    to the control literal of that very assertion in `v_asrts` -/
theorem C11S_semInv_def (t : Lra) :
    Lra.SemInv t ↔
      (∀ e ∈ t.exprs, ∀ l : Lin, l.WF → Lin.toStr l = e.1 → ∀ σ, Lra.RowsHoldAt t σ → σ e.2 = Lin.eval l σ) ∧
      (∀ e ∈ t.sAsrts, ∀ (up : Bool) (x : Nat) (c : IR), Lra.SimpleC c → Lra.relKey up x c = e.1 →
        t.asrtOf e.2.var = some ⟨if up then .leq else .geq, e.2, x, c⟩) := by
  exact ⟨fun h => ⟨h.exprs_sem, h.sAsrts_sem⟩, fun ⟨h1, h2⟩ => ⟨h1, h2⟩⟩

/-! ## the invariants hold initially and are kept -/

theorem C11S_invariant_init : Lra.SemState Sat.init Lra.init := by exact Lra.SemState.init

theorem C11S_invariant_new_var (s : Sat) (t : Lra) (h : Lra.SemState s t) : Lra.SemState s t.newVar.2 := by
  exact h.newVar

/-- `newRel` keeps the tableau, registry and cache invariants (no hypothesis on coefficients) … -/
theorem C11S_invariant_new_rel (s : Sat) (t : Lra) (r : LRel) (left right : Lin) (l : Lit) (s' : Sat) (t' : Lra)
    (b : Option Nat) (ht : Lra.TabWF t) (ri : Lra.RelInv s t) (si : Lra.SemInv t) (hl : left.WF) (hr : right.WF)
    (hlv : ∀ p ∈ left.vars, p.1 < t.vals.length) (hrv : ∀ p ∈ right.vars, p.1 < t.vals.length)
    (h : newRel s t r left right = some (l, s', t', b)) :
    Lra.TabWF t' ∧ Lra.RelInv s' t' ∧ Lra.SemInv t' ∧ t.vals.length ≤ t'.vals.length := by
  exact Lra.newRel_keeps ht ri si hl hr hlv hrv h

/-- … and canonical bounds, when the rewritten difference has no zero coefficient (see `C11S_no_zero_invariant`) -/
theorem C11S_invariant_new_rel_bounds (s : Sat) (t : Lra) (r : LRel) (left right : Lin) (l : Lit) (s' : Sat)
    (t' : Lra) (b : Option Nat) (hs : Lra.SemState s t) (hl : left.WF) (hr : right.WF)
    (hlv : ∀ p ∈ left.vars, p.1 < t.vals.length) (hrv : ∀ p ∈ right.vars, p.1 < t.vals.length)
    (hnz : Lra.NoZero (t.relExpr left right)) (h : newRel s t r left right = some (l, s', t', b)) :
    Lra.SemState s' t' := by
  exact hs.newRel hl hr hlv hrv hnz h

/-- writing a finite bound (what `assert_lower` / `assert_upper` do to `c_bounds`) keeps them -/
theorem C11S_invariant_set_bound (s : Sat) (t : Lra) (hs : Lra.SemState s t) (i : Nat) (b : LBound)
    (hb : Lra.FinIR_s b.value) : Lra.SemState s (t.setBound i b) := by
  exact hs.setBound i hb

/-- `check()` (any number of pivots) keeps the cache invariant: it keeps the caches and the solutions -/
theorem C11S_invariant_check (t t' : Lra) (si : Lra.SemInv t) (ht : Lra.TabWF t) (fuel : Nat) (c : Option (List Lit))
    (h : t.check fuel = some (c, t')) : Lra.SemInv t' := by
  exact si.check ht h

/-- "no zero coefficient" is an invariant: the rewritten difference of two expressions without zero coefficients
    over rows without zero coefficients has none, and `newRel` keeps the rows free of them (`pivot` is not covered) -/
theorem C11S_no_zero_invariant (s : Sat) (t : Lra) (r : LRel) (left right : Lin) (l : Lit) (s' : Sat) (t' : Lra)
    (b : Option Nat) (ht : Lra.TabWF t) (hrz : Lra.RowsNoZero t) (hl : left.WF) (hr : right.WF)
    (hnl : Lra.NoZero left) (hnr : Lra.NoZero right)
    (hlv : ∀ p ∈ left.vars, p.1 < t.vals.length) (hrv : ∀ p ∈ right.vars, p.1 < t.vals.length) :
    Lra.RowsNoZero Lra.init ∧ Lra.RowsNoZero t.newVar.2 ∧ Lra.NoZero (t.relExpr left right) ∧
    (newRel s t r left right = some (l, s', t', b) → Lra.RowsNoZero t') := by
  exact ⟨Lra.RowsNoZero.init, hrz.newVar, Lra.relE_nz ht hrz hl hr hnl hnr,
    fun h => hrz.newRel ht hl hr hnl hnr hlv hrv h⟩

/-! ## 1. a non-constant answer means the relation -/

/-- `newRel` returns a non-constant literal `l`: an assertion `a = ⟨o, l, x, v⟩` is registered for `l`'s variable in
    the new theory, on an existing variable `x`, with `o` the direction of the request and `v` a constant
    `c`, `c + ε` or `c - ε`; and for EVERY solution `σ` of the new tableau the relation holds iff `σ x` satisfies the
    assertion.  This covers the slack variable being new, reused through the print-out of the rewritten
    difference, and being an existing variable named by `exprs`. -/
theorem C11S_rel_literal_meaning (s : Sat) (t : Lra) (r : LRel) (left right : Lin) (l : Lit) (s' : Sat) (t' : Lra)
    (b : Option Nat) (ht : Lra.TabWF t) (ri : Lra.RelInv s t) (si : Lra.SemInv t) (hl : left.WF) (hr : right.WF)
    (hlv : ∀ p ∈ left.vars, p.1 < t.vals.length) (hrv : ∀ p ∈ right.vars, p.1 < t.vals.length)
    (h : newRel s t r left right = some (l, s', t', b)) (hc : l ≠ Lit.trueLit ∧ l ≠ Lit.falseLit) :
    ∃ a : LAsrt, t'.asrtOf l.var = some a ∧ a.b = l ∧ a.o = (if r.upper then .leq else .geq) ∧
      a.x < t'.vals.length ∧ Lra.SimpleC a.v ∧
      ∀ σ, Lra.RowsHoldAt t' σ → (Lra.RelHolds r (Lin.eval left σ) (Lin.eval right σ) ↔ Lra.AsrtSays a σ) := by
  exact Lra.newRel_meaning ht ri si hl hr hlv hrv h hc

/-- conservativity (whatever the answer): the solutions of the new tableau are solutions of the old one, and every
    solution of the old tableau extends, changing no existing variable, to a solution of the new one -/
theorem C11S_conservative (s : Sat) (t : Lra) (r : LRel) (left right : Lin) (l : Lit) (s' : Sat) (t' : Lra)
    (b : Option Nat) (ht : Lra.TabWF t) (si : Lra.SemInv t) (hl : left.WF) (hr : right.WF)
    (hlv : ∀ p ∈ left.vars, p.1 < t.vals.length) (hrv : ∀ p ∈ right.vars, p.1 < t.vals.length)
    (h : newRel s t r left right = some (l, s', t', b)) :
    (∀ σ, Lra.RowsHoldAt t' σ → Lra.RowsHoldAt t σ) ∧
    (∀ σ, Lra.RowsHoldAt t σ → ∃ σ', Lra.RowsHoldAt t' σ' ∧ ∀ x, x < t.vals.length → σ' x = σ x) := by
  exact Lra.newRel_conservative ht si hl hr hlv hrv h

/-! ## 2. a constant answer is sound -/

/-- TRUE: the relation holds for every solution of the tableau within the bounds; FALSE: for none.
    (Soundness of the interval evaluation `lbLin` / `ubLin`, infinities and ε parts included:
    `Lra.lbLin_below`, `Lra.ubLin_above` in Lemmas/LraRelSemIval.lean.) -/
-- CORRECTED: hypothesis `hnz` added - the rewritten difference has no zero coefficient.  The model (as the C++)
-- multiplies an infinite bound by a zero coefficient and gets `+∞` (`rational::operator*` has no case for
-- `0·∞`; the C++ `assert`s it away in debug builds), so `0·x0 ≥ 1` with `x0` unbounded is answered TRUE: the
-- counterexample is proved below.  `hnz` follows from `left`, `right` and the rows having no zero coefficient, which
-- `newRel` maintains (`C11S_no_zero_invariant`).
theorem C11S_constant_sound (s : Sat) (t : Lra) (r : LRel) (left right : Lin) (l : Lit) (s' : Sat) (t' : Lra)
    (b : Option Nat) (hs : Lra.SemState s t) (hl : left.WF) (hr : right.WF)
    (hlv : ∀ p ∈ left.vars, p.1 < t.vals.length) (hrv : ∀ p ∈ right.vars, p.1 < t.vals.length)
    (hnz : Lra.NoZero (t.relExpr left right)) (h : newRel s t r left right = some (l, s', t', b)) :
    (l = Lit.trueLit → ∀ σ, Lra.RowsHoldAt t σ → Lra.InBounds t σ →
      Lra.RelHolds r (Lin.eval left σ) (Lin.eval right σ)) ∧
    (l = Lit.falseLit → ∀ σ, Lra.RowsHoldAt t σ → Lra.InBounds t σ →
      ¬ Lra.RelHolds r (Lin.eval left σ) (Lin.eval right σ)) := by
  exact Lra.newRel_constant_sound hs.tab hs.rel hs.sem hs.bnd hl hr hlv hrv hnz h

/-- the counterexample to the statement without `hnz`: in the state with two unbounded variables every other
    hypothesis holds, `0·x0 ≥ 1` is answered TRUE, and it holds for no valuation (all of which satisfy the empty
    tableau, and e.g. the zero valuation is within the bounds) -/
theorem C11S_constant_unsound_with_zero_coefficient :
    Lra.SemState Sat.init Lra.exT2 ∧ Lra.exZ0.WF ∧ Lra.exK1.WF ∧
    (∀ p ∈ Lra.exZ0.vars, p.1 < Lra.exT2.vals.length) ∧ (∀ p ∈ Lra.exK1.vars, p.1 < Lra.exT2.vals.length) ∧
    (∃ s' t' b, newRel Sat.init Lra.exT2 .geq Lra.exZ0 Lra.exK1 = some (Lit.trueLit, s', t', b)) ∧
    Lra.RowsHoldAt Lra.exT2 (fun _ => 0) ∧ Lra.InBounds Lra.exT2 (fun _ => 0) ∧
    ∀ σ, ¬ Lra.RelHolds .geq (Lin.eval Lra.exZ0 σ) (Lin.eval Lra.exK1 σ) := by
  exact ⟨Lra.exT2_state, Lra.exZ0_wf, Lra.exK1_wf, Lra.vars1_lt _ _ _ _ (by decide), Lra.vars0_lt _ _,
    ⟨_, _, _, Lra.ex6_some⟩, Lra.exT2_rows (fun _ => 0), Lra.exT2_inBounds (fun _ => 0), Lra.exZ0_never⟩

/-! ## 3. the negation -/

/-- for the assertion `a` behind a non-constant answer: `propagate(p)` with `a`'s control literal FALSE asserts
    the lower bound `v + ε` (for `x ≤ v`) / the upper bound `v - ε` (for `x ≥ v`), and in every solution of the
    tableau `σ x` satisfies that bound iff the relation does NOT hold -/
theorem C11S_negation (s : Sat) (t : Lra) (r : LRel) (left right : Lin) (l : Lit) (s' : Sat) (t' : Lra)
    (b : Option Nat) (ht : Lra.TabWF t) (ri : Lra.RelInv s t) (si : Lra.SemInv t) (hl : left.WF) (hr : right.WF)
    (hlv : ∀ p ∈ left.vars, p.1 < t.vals.length) (hrv : ∀ p ∈ right.vars, p.1 < t.vals.length)
    (h : newRel s t r left right = some (l, s', t', b)) (hc : l ≠ Lit.trueLit ∧ l ≠ Lit.falseLit) :
    ∃ a : LAsrt, t'.asrtOf l.var = some a ∧
      (∀ (s2 : Sat) (p : Lit), p.var = l.var → s2.value a.b = some false →
        propagateLit s2 t' p = (if a.o = .leq then assertLower s2 t' a.x (IR.add a.v ⟨R.zero, R.one⟩) p
          else assertUpper s2 t' a.x (IR.sub a.v ⟨R.zero, R.one⟩) p)) ∧
      ∀ σ, Lra.RowsHoldAt t' σ →
        (¬ Lra.RelHolds r (Lin.eval left σ) (Lin.eval right σ) ↔ Lra.NegSays a σ) := by
  obtain ⟨a, ha, -, -, -, hv, hm⟩ := Lra.newRel_meaning ht ri si hl hr hlv hrv h hc
  exact ⟨a, ha, fun s2 p hp hval => Lra.propagate_false s2 t' p a (hp ▸ ha) hval,
    fun σ hσ => (not_congr (hm σ hσ)).trans (Lra.negSays_iff hv σ).symm⟩

/-! ## 4. `newEq` -/

/-- `newEq` asks `≥` then `≤` and returns `new_conj` of the two literals `l1`, `l2`.  In every model `α` of the
    clauses of the SAT core returned, `l` is the conjunction of `l1` and `l2` (by C13, through the root-level view
    `Sat.toEnc`); so if `α` agrees with a solution `σ` of the tableau on the two inequalities, `l` is true exactly
    when the two sides are equal.  (What `l1`, `l2` mean is `C11S_rel_literal_meaning` / `C11S_constant_sound`.) -/
theorem C11S_eq_meaning (s : Sat) (t : Lra) (left right : Lin) (l : Lit) (s' : Sat) (t' : Lra) (bs : List Nat)
    (ht : Lra.TabWF t) (ri : Lra.RelInv s t) (si : Lra.SemInv t) (hE : s.toEnc.Inv) (hl : left.WF) (hr : right.WF)
    (hlv : ∀ p ∈ left.vars, p.1 < t.vals.length) (hrv : ∀ p ∈ right.vars, p.1 < t.vals.length)
    (h : newEq s t left right = some (l, s', t', bs)) :
    ∃ l1 s1 t1 b1 l2 s2 b2, newRel s t .geq left right = some (l1, s1, t1, b1) ∧
      newRel s1 t1 .leq left right = some (l2, s2, t', b2) ∧ (l, s') = s2.newConj [l1, l2] ∧
      (∀ α, Enc.Sat α s'.toEnc → α.lit l = (α.lit l1 && α.lit l2)) ∧
      -- no model of the clauses is lost
      s.toEnc.Extends s'.toEnc ∧
      ∀ α σ, Enc.Sat α s'.toEnc →
        (α.lit l1 = true ↔ Lin.eval left σ ≥ Lin.eval right σ) →
        (α.lit l2 = true ↔ Lin.eval left σ ≤ Lin.eval right σ) →
        (α.lit l = true ↔ Lin.eval left σ = Lin.eval right σ) := by
  obtain ⟨l1, s1, t1, b1, l2, s2, b2, h1, h2, h3, -, h5, h6⟩ := Lra.newEq_conj ht ri si hE hl hr hlv hrv h
  refine ⟨l1, s1, t1, b1, l2, s2, b2, h1, h2, h3, h5, h6, ?_⟩
  intro α σ hα a1 a2
  rw [h5 α hα, Bool.and_eq_true, a1, a2]
  exact ⟨fun ⟨x, y⟩ => le_antisymm y x, fun e => ⟨ge_of_eq e, le_of_eq e⟩⟩

/-! ## 5. sharing -/

/-- a later request whose rewritten difference prints the same, in the same direction, with a constant that prints
    the same (i.e. the same key `"x<slack> <= c"`), gets the SAME literal - unless the bounds decide it -/
theorem C11S_sharing_same_literal (s : Sat) (t : Lra) (r : LRel) (left right : Lin) (l : Lit) (s1 : Sat) (t1 : Lra)
    (b1 : Option Nat) (r' : LRel) (left' right' : Lin) (l' : Lit) (s2 : Sat) (t2 : Lra) (b2 : Option Nat)
    (h1 : newRel s t r left right = some (l, s1, t1, b1)) (hc : l ≠ Lit.trueLit ∧ l ≠ Lit.falseLit)
    (h2 : newRel s1 t1 r' left' right' = some (l', s2, t2, b2)) (hc' : l' ≠ Lit.trueLit ∧ l' ≠ Lit.falseLit)
    (hkey : Lin.toStr (t.relExpr left right) = Lin.toStr (t1.relExpr left' right')) (hup : r.upper = r'.upper)
    (hcst : irToStr (t.relConst r left right) = irToStr (t1.relConst r' left' right')) : l' = l := by
  exact Lra.newRel_same_key h1 hc h2 hc' hkey hup hcst

/-- two requests answered by the same non-constant literal are equivalent in every solution of the tableau -/
theorem C11S_sharing_equivalent (s : Sat) (t : Lra) (r : LRel) (left right : Lin) (l : Lit) (s1 : Sat) (t1 : Lra)
    (b1 : Option Nat) (r' : LRel) (left' right' : Lin) (s2 : Sat) (t2 : Lra) (b2 : Option Nat)
    (ht : Lra.TabWF t) (ri : Lra.RelInv s t) (si : Lra.SemInv t) (hl : left.WF) (hr : right.WF)
    (hlv : ∀ p ∈ left.vars, p.1 < t.vals.length) (hrv : ∀ p ∈ right.vars, p.1 < t.vals.length)
    (h1 : newRel s t r left right = some (l, s1, t1, b1)) (hc : l ≠ Lit.trueLit ∧ l ≠ Lit.falseLit)
    (hl' : left'.WF) (hr' : right'.WF)
    (hlv' : ∀ p ∈ left'.vars, p.1 < t1.vals.length) (hrv' : ∀ p ∈ right'.vars, p.1 < t1.vals.length)
    (h2 : newRel s1 t1 r' left' right' = some (l, s2, t2, b2)) :
    ∀ σ, Lra.RowsHoldAt t2 σ → (Lra.RelHolds r (Lin.eval left σ) (Lin.eval right σ) ↔
      Lra.RelHolds r' (Lin.eval left' σ) (Lin.eval right' σ)) := by
  exact Lra.newRel_shared ht ri si hl hr hlv hrv h1 hc hl' hr' hlv' hrv' h2

/-! ## printing is injective (what makes the string-keyed caches sound) -/

theorem C11S_print_injective :
    (∀ a b : Lin, a.WF → b.WF → Lin.toStr a = Lin.toStr b → a = b) ∧
    (∀ (up up' : Bool) (x x' : Nat) (c c' : IR), Lra.SimpleC c → Lra.SimpleC c' →
      Lra.relKey up x c = Lra.relKey up' x' c' → up = up' ∧ x = x' ∧ c = c') ∧
    (∀ v : Nat, Lin.toStr ⟨[(v, R.one)], R.zero⟩ = "x" ++ toString v) := by
  exact ⟨Lra.linInj, Lra.keyInj, Lra.varName⟩

/-! ## non-vacuity (the states are built by running the model: Lemmas/LraRelSemExample.lean)

`exT2`: two variables `x0`, `x1`.  `ex1`: `x0 + 2·x1 ≤ 3` there (new slack `x2`, new literal `b1`).  `ex2`: then
`x0 + 2·x1 + 1 ≤ 4` (same key, same literal).  `ex3`: then `2·x0 + 4·x1 < 6` (slack `x3`, literal `b2`, constant
`6 - ε`).  `exTB`: the state after `ex1` with the upper bound `x2 ≤ 3` written.  `exSigA = (1, 1, 3, 6)`,
`exSigB = (2, 1, 4, 8)` are solutions of all these tableaux. -/

/-- 1 (new slack variable): all hypotheses hold for `ex1`; the assertion is `x2 ≤ 3`, and the conclusion reads
    `σ0 + 2·σ1 ≤ 3 ↔ σ2 ≤ 3` on the solutions of `x2 = x0 + 2·x1`, of which one satisfies it and one does not -/
example : ∃ a : LAsrt, (lraOf ex1).asrtOf 1 = some a ∧ a.o = .leq ∧ a.x = 2 ∧ a.v = ⟨⟨3, 1⟩, ⟨0, 1⟩⟩ ∧
    (∀ σ, Lra.RowsHoldAt (lraOf ex1) σ → (σ 0 + 2 * σ 1 ≤ 3 ↔ σ 2 ≤ 3)) ∧
    Lra.RowsHoldAt (lraOf ex1) exSigA ∧ exSigA 2 ≤ 3 ∧ Lra.RowsHoldAt (lraOf ex1) exSigB ∧ ¬ exSigB 2 ≤ 3 := by
  obtain ⟨a, ha, -, -, -, -, hm⟩ := C11S_rel_literal_meaning Sat.init exT2 .leq exL1 exK3 _ _ _ _
    exT2_state.tab exT2_state.rel exT2_state.sem exL1_wf exK3_wf
    (vars2_lt _ _ _ _ _ _ (by decide) (by decide)) (vars0_lt _ _) ex1_some (by decide)
  have hf := ex1_asrt
  rw [ha] at hf
  obtain ⟨o, b, x, v⟩ := a
  simp only [Option.map_some, Option.some.injEq, Prod.mk.injEq] at hf
  obtain ⟨rfl, rfl, rfl⟩ := hf
  refine ⟨_, ha, rfl, rfl, rfl, ?_, (ex1_rows _).2 (by norm_num [exSigA]), by norm_num [exSigA],
    (ex1_rows _).2 (by norm_num [exSigB]), by norm_num [exSigB]⟩
  intro σ hσ
  have h := hm σ hσ
  have e1 : Lin.eval exL1 σ = σ 0 + 2 * σ 1 := by norm_num [Lin.eval, exL1, R.toRat]
  have e2 : Lin.eval exK3 σ = 3 := by norm_num [Lin.eval, exK3, R.toRat]
  rw [e1, e2] at h
  rw [show Lra.RelHolds .leq (σ 0 + 2 * σ 1) 3 = (σ 0 + 2 * σ 1 ≤ 3) from rfl] at h
  rw [h]
  show Lra.IRAbove (⟨⟨3, 1⟩, ⟨0, 1⟩⟩ : IR) (σ 2) ↔ _
  rw [Lra.irAbove_reading (b := ⟨⟨3, 1⟩, ⟨0, 1⟩⟩) fin3]
  norm_num [R.toRat]

/-- 1 (strict relation) and 3: for `ex3` the assertion is `x3 ≤ 6 - ε`, it reads `2·σ0 + 4·σ1 < 6 ↔ σ3 < 6`, and the
    bound asserted for the FALSE literal, `x3 ≥ 6`, reads `¬ 2·σ0 + 4·σ1 < 6 ↔ 6 ≤ σ3` -/
example : ∃ a : LAsrt, (lraOf ex3).asrtOf 2 = some a ∧ a.o = .leq ∧ a.x = 3 ∧ a.v = ⟨⟨6, 1⟩, ⟨-1, 1⟩⟩ ∧
    (∀ σ, Lra.RowsHoldAt (lraOf ex3) σ → (2 * σ 0 + 4 * σ 1 < 6 ↔ σ 3 < 6)) ∧
    (∀ σ, Lra.RowsHoldAt (lraOf ex3) σ → (¬ 2 * σ 0 + 4 * σ 1 < 6 ↔ 6 ≤ σ 3)) ∧
    Lra.RowsHoldAt (lraOf ex3) exSigA ∧ ¬ exSigA 3 < 6 ∧ Lra.RowsHoldAt (lraOf ex3) (fun _ => 0) := by
  have hyp := C11S_negation (satOf ex2) (lraOf ex2) .lt exL3 exK6 _ _ _ _
    ex2_state.tab ex2_state.rel ex2_state.sem exL3_wf exK6_wf
    (vars2_lt _ _ _ _ _ _ (by rw [ex2_len]; decide) (by rw [ex2_len]; decide)) (vars0_lt _ _) ex3_some (by decide)
  obtain ⟨a', ha', -, hn⟩ := hyp
  obtain ⟨a, ha, -, -, -, -, hm⟩ := C11S_rel_literal_meaning (satOf ex2) (lraOf ex2) .lt exL3 exK6 _ _ _ _
    ex2_state.tab ex2_state.rel ex2_state.sem exL3_wf exK6_wf
    (vars2_lt _ _ _ _ _ _ (by rw [ex2_len]; decide) (by rw [ex2_len]; decide)) (vars0_lt _ _) ex3_some (by decide)
  have haa : a' = a := Option.some.inj (ha'.symm.trans ha)
  subst haa
  have hf := ex3_asrt
  rw [ha] at hf
  obtain ⟨o, b, x, v⟩ := a'
  simp only [Option.map_some, Option.some.injEq, Prod.mk.injEq] at hf
  obtain ⟨rfl, rfl, rfl⟩ := hf
  have fin6 : R.FinWF (⟨6, 1⟩ : R) := ⟨by decide, by decide⟩
  have e1 : ∀ σ : Nat → Rat, Lin.eval exL3 σ = 2 * σ 0 + 4 * σ 1 := fun σ => by
    norm_num [Lin.eval, exL3, R.toRat]
  have e2 : ∀ σ : Nat → Rat, Lin.eval exK6 σ = 6 := fun σ => by norm_num [Lin.eval, exK6, R.toRat]
  refine ⟨_, ha, rfl, rfl, rfl, ?_, ?_, (ex3_rows _).2 (by norm_num [exSigA]), by norm_num [exSigA],
    (ex3_rows (fun _ => 0)).2 (by norm_num)⟩
  · intro σ hσ
    have h := hm σ hσ
    rw [e1, e2] at h
    rw [show Lra.RelHolds .lt (2 * σ 0 + 4 * σ 1) 6 = (2 * σ 0 + 4 * σ 1 < 6) from rfl] at h
    rw [h]
    show Lra.IRAbove (⟨⟨6, 1⟩, ⟨-1, 1⟩⟩ : IR) (σ 3) ↔ _
    rw [Lra.irAbove_reading (b := ⟨⟨6, 1⟩, ⟨-1, 1⟩⟩) fin6]
    norm_num [R.toRat]
  · intro σ hσ
    have h := hn σ hσ
    rw [e1, e2] at h
    rw [show Lra.RelHolds .lt (2 * σ 0 + 4 * σ 1) 6 = (2 * σ 0 + 4 * σ 1 < 6) from rfl] at h
    rw [h]
    show Lra.IRBelow (IR.add (⟨⟨6, 1⟩, ⟨-1, 1⟩⟩ : IR) ⟨R.zero, R.one⟩) (σ 3) ↔ _
    have hadd : IR.add (⟨⟨6, 1⟩, ⟨-1, 1⟩⟩ : IR) ⟨R.zero, R.one⟩ = ⟨⟨6, 1⟩, ⟨0, 1⟩⟩ := by decide
    rw [hadd, Lra.irBelow_reading (b := ⟨⟨6, 1⟩, ⟨0, 1⟩⟩) fin6]
    norm_num [R.toRat]

/-- 1 (the rewritten difference is an existing variable): `x0 ≤ 3` creates no slack variable and no row; the
    assertion is on `x0` itself -/
example : ∃ a : LAsrt, (lraOf ex8).asrtOf 1 = some a ∧ a.o = .leq ∧ a.x = 0 ∧ a.v = ⟨⟨3, 1⟩, ⟨0, 1⟩⟩ ∧
    (lraOf ex8).tableau = [] ∧ (lraOf ex8).vals.length = 2 ∧
    (∀ σ, Lra.RowsHoldAt (lraOf ex8) σ → (Lra.RelHolds .leq (Lin.eval exX0 σ) (Lin.eval exK3 σ) ↔ σ 0 ≤ 3)) := by
  obtain ⟨a, ha, -, -, -, -, hm⟩ := C11S_rel_literal_meaning Sat.init exT2 .leq exX0 exK3 _ _ _ _
    exT2_state.tab exT2_state.rel exT2_state.sem exX0_wf exK3_wf
    (vars1_lt _ _ _ _ (by decide)) (vars0_lt _ _) ex8_some (by decide)
  have hf := ex8_asrt
  rw [ha] at hf
  obtain ⟨o, b, x, v⟩ := a
  simp only [Option.map_some, Option.some.injEq, Prod.mk.injEq] at hf
  obtain ⟨rfl, rfl, rfl⟩ := hf
  refine ⟨_, ha, rfl, rfl, rfl, ex8_tableau, by decide +kernel, ?_⟩
  intro σ hσ
  rw [hm σ hσ]
  show Lra.IRAbove (⟨⟨3, 1⟩, ⟨0, 1⟩⟩ : IR) (σ 0) ↔ _
  rw [Lra.irAbove_reading (b := ⟨⟨3, 1⟩, ⟨0, 1⟩⟩) fin3]
  norm_num [R.toRat]

/-- 1 (a basic variable in the request): after `ex1`, `x2 - x0 ≥ 0` is rewritten to `2·x1 ≥ 0`; the assertion is
    `x3 ≥ 0` on the new slack `x3 = 2·x1`, and it reads `σ2 - σ0 ≥ 0 ↔ σ3 ≥ 0` -/
example : ∃ a : LAsrt, (lraOf ex9).asrtOf 2 = some a ∧ a.o = .geq ∧ a.x = 3 ∧ a.v = ⟨⟨0, 1⟩, ⟨0, 1⟩⟩ ∧
    (∀ σ, Lra.RowsHoldAt (lraOf ex9) σ → (σ 2 - σ 0 ≥ 0 ↔ σ 3 ≥ 0)) ∧
    Lra.RowsHoldAt (lraOf ex9) exSigC := by
  have hlen := ex1_len
  obtain ⟨a, ha, -, -, -, -, hm⟩ := C11S_rel_literal_meaning (satOf ex1) (lraOf ex1) .geq exS2m0 exK0 _ _ _ _
    ex1_state.tab ex1_state.rel ex1_state.sem exS2m0_wf exK0_wf
    (vars2_lt _ _ _ _ _ _ (by rw [hlen]; decide) (by rw [hlen]; decide)) (vars0_lt _ _) ex9_some (by decide)
  have hf := ex9_asrt
  rw [ha] at hf
  obtain ⟨o, b, x, v⟩ := a
  simp only [Option.map_some, Option.some.injEq, Prod.mk.injEq] at hf
  obtain ⟨rfl, rfl, rfl⟩ := hf
  refine ⟨_, ha, rfl, rfl, rfl, ?_, (ex9_rows exSigC).2 (by norm_num [exSigC])⟩
  intro σ hσ
  have h := hm σ hσ
  have e1 : Lin.eval exS2m0 σ = σ 2 - σ 0 := by norm_num [Lin.eval, exS2m0, R.toRat]; ring
  have e2 : Lin.eval exK0 σ = 0 := by norm_num [Lin.eval, exK0, R.toRat]
  rw [e1, e2] at h
  rw [show Lra.RelHolds .geq (σ 2 - σ 0) 0 = (σ 2 - σ 0 ≥ 0) from rfl] at h
  rw [h]
  show Lra.IRBelow (⟨⟨0, 1⟩, ⟨0, 1⟩⟩ : IR) (σ 3) ↔ _
  rw [Lra.irBelow_reading (b := ⟨⟨0, 1⟩, ⟨0, 1⟩⟩) ⟨by decide, by decide⟩]
  norm_num [R.toRat]

/-- 2 (decided by the bounds of the reused slack variable): in `exTB` (`x2 = x0 + 2·x1`, `x2 ≤ 3`) the request
    `x0 + 2·x1 ≤ 5` is answered TRUE and `x0 + 2·x1 > 5` FALSE; all hypotheses hold, `exSigA` is a solution within the
    bounds, so the conclusions say `1 + 2·1 ≤ 5` and `¬ 1 + 2·1 > 5` -/
example : Lra.RowsHoldAt exTB exSigA ∧ Lra.InBounds exTB exSigA ∧
    Lra.RelHolds .leq (Lin.eval exL1 exSigA) (Lin.eval exK5 exSigA) ∧
    ¬ Lra.RelHolds .gt (Lin.eval exL1 exSigA) (Lin.eval exK5 exSigA) := by
  have hlv := vars2_lt 0 1 (⟨1, 1⟩ : R) ⟨2, 1⟩ ⟨0, 1⟩ exTB.vals.length (by rw [exTB_len]; decide) (by rw [exTB_len]; decide)
  have hr : Lra.RowsHoldAt exTB exSigA := (exTB_rows _).2 (by norm_num [exSigA])
  have hb : Lra.InBounds exTB exSigA := (exTB_inBounds _).2 (by norm_num [exSigA])
  have h1 := (C11S_constant_sound (satOf ex1) exTB .leq exL1 exK5 _ _ _ _ exTB_state exL1_wf exK5_wf hlv
    (vars0_lt _ _) (by show ∀ p ∈ (Lra.relE exTB exL1 exK5).vars, p.2.num ≠ 0; decide +kernel) ex4_some).1 rfl
  have h2 := (C11S_constant_sound (satOf ex1) exTB .gt exL1 exK5 _ _ _ _ exTB_state exL1_wf exK5_wf hlv
    (vars0_lt _ _) (by show ∀ p ∈ (Lra.relE exTB exL1 exK5).vars, p.2.num ≠ 0; decide +kernel) ex4f_some).2 rfl
  exact ⟨hr, hb, h1 _ hr hb, h2 _ hr hb⟩

/-- 2 (decided by the rewritten difference): `x0 + 1 ≤ x0 + 2` is answered TRUE, `x0 + 2 ≤ x0 + 1` FALSE, and the
    conclusions hold of every valuation -/
example : ∀ σ : Nat → Rat, Lra.RelHolds .leq (Lin.eval exX0p1 σ) (Lin.eval exX0p2 σ) ∧
    ¬ Lra.RelHolds .leq (Lin.eval exX0p2 σ) (Lin.eval exX0p1 σ) := by
  intro σ
  have h1 := (C11S_constant_sound Sat.init exT2 .leq exX0p1 exX0p2 _ _ _ _ exT2_state exX0p1_wf exX0p2_wf
    (vars1_lt _ _ _ _ (by decide)) (vars1_lt _ _ _ _ (by decide))
    (by show ∀ p ∈ (Lra.relE exT2 exX0p1 exX0p2).vars, p.2.num ≠ 0; decide +kernel) ex5_some).1 rfl
  have h2 := (C11S_constant_sound Sat.init exT2 .leq exX0p2 exX0p1 _ _ _ _ exT2_state exX0p2_wf exX0p1_wf
    (vars1_lt _ _ _ _ (by decide)) (vars1_lt _ _ _ _ (by decide))
    (by show ∀ p ∈ (Lra.relE exT2 exX0p2 exX0p1).vars, p.2.num ≠ 0; decide +kernel) ex5f_some).2 rfl
  exact ⟨h1 σ (exT2_rows σ) (exT2_inBounds σ), h2 σ (exT2_rows σ) (exT2_inBounds σ)⟩

/-- the invariants of section "invariants" hold along the whole run (so the hypotheses above are those of reachable
    states), rows without zero coefficients included -/
example : Lra.SemState Sat.init exT2 ∧ Lra.SemState (satOf ex1) (lraOf ex1) ∧ Lra.SemState (satOf ex2) (lraOf ex2) ∧
    Lra.SemState (satOf ex1) exTB ∧ Lra.RowsNoZero (lraOf ex1) :=
  ⟨exT2_state, ex1_state, ex2_state, exTB_state,
    (C11S_no_zero_invariant Sat.init exT2 .leq exL1 exK3 _ _ _ _ exT2_state.tab
      (fun _ he => absurd he List.not_mem_nil) exL1_wf exK3_wf
      (by show ∀ p ∈ exL1.vars, p.2.num ≠ 0; decide) (fun _ hp => absurd hp List.not_mem_nil)
      (vars2_lt _ _ _ _ _ _ (by decide) (by decide)) (vars0_lt _ _)).2.2.2 ex1_some⟩

/-- 5: `x0 + 2·x1 + 1 ≤ 4` after `x0 + 2·x1 ≤ 3`: the keys coincide, so (first theorem) the literal is the same, and
    (second theorem) the two relations are equivalent on the solutions of the tableau -/
example : litOf ex2 = litOf ex1 ∧
    ∀ σ, Lra.RowsHoldAt (lraOf ex2) σ → (σ 0 + 2 * σ 1 ≤ 3 ↔ σ 0 + 2 * σ 1 + 1 ≤ 4) := by
  have hlv := vars2_lt 0 1 (⟨1, 1⟩ : R) ⟨2, 1⟩ ⟨1, 1⟩ (lraOf ex1).vals.length (by rw [ex1_len]; decide)
    (by rw [ex1_len]; decide)
  have h1 : (⟨1, true⟩ : Lit) = ⟨1, true⟩ :=
    C11S_sharing_same_literal Sat.init exT2 .leq exL1 exK3 ⟨1, true⟩ _ _ _ .leq exL2 exK4 ⟨1, true⟩ _ _ _
      ex1_some (by decide) ex2_some (by decide) (by decide +kernel) rfl (by decide +kernel)
  have h2 := C11S_sharing_equivalent Sat.init exT2 .leq exL1 exK3 ⟨1, true⟩ _ _ _ .leq exL2 exK4 _ _ _
    exT2_state.tab exT2_state.rel exT2_state.sem exL1_wf exK3_wf
    (vars2_lt _ _ _ _ _ _ (by decide) (by decide)) (vars0_lt _ _) ex1_some (by decide)
    exL2_wf exK4_wf hlv (vars0_lt _ _) ex2_some
  refine ⟨by decide +kernel, ?_⟩
  intro σ hσ
  have h := h2 σ hσ
  have e1 : Lin.eval exL1 σ = σ 0 + 2 * σ 1 := by norm_num [Lin.eval, exL1, R.toRat]
  have e2 : Lin.eval exK3 σ = 3 := by norm_num [Lin.eval, exK3, R.toRat]
  have e3 : Lin.eval exL2 σ = σ 0 + 2 * σ 1 + 1 := by norm_num [Lin.eval, exL2, R.toRat]
  have e4 : Lin.eval exK4 σ = 4 := by norm_num [Lin.eval, exK4, R.toRat]
  rw [e1, e2, e3, e4] at h
  exact h

/-- 4: `x0 = x1` from the state with two variables: all hypotheses hold, the literal is `b3`, every model of the
    initial SAT core extends to a model of the clauses, and the conclusion reads `α(b3) ↔ σ0 = σ1` -/
example : ∃ s' t' bs, newEq Sat.init exT2 exX0 exX1 = some (⟨3, true⟩, s', t', bs) ∧ Sat.init.toEnc.Inv ∧
    Sat.init.toEnc.Extends s'.toEnc ∧
    ∃ l1 l2, ∀ (α : Asg) (σ : Nat → Rat), Enc.Sat α s'.toEnc → (α.lit l1 = true ↔ σ 0 ≥ σ 1) → (α.lit l2 = true ↔ σ 0 ≤ σ 1) →
      (α.lit ⟨3, true⟩ = true ↔ σ 0 = σ 1) := by
  obtain ⟨s', t', bs, h7⟩ := ex7_some
  have hE : Sat.init.toEnc.Inv := C13_init_inv
  obtain ⟨l1, s1, t1, b1, l2, s2, b2, -, -, -, -, hext, hm⟩ := C11S_eq_meaning Sat.init exT2 exX0 exX1 _ s' t' bs
    exT2_state.tab exT2_state.rel exT2_state.sem hE exX0_wf exX1_wf
    (vars1_lt _ _ _ _ (by decide)) (vars1_lt _ _ _ _ (by decide)) h7
  refine ⟨s', t', bs, h7, hE, hext, l1, l2, ?_⟩
  intro α σ hα a1 a2
  have e1 : Lin.eval exX0 σ = σ 0 := by norm_num [Lin.eval, exX0, R.toRat]
  have e2 : Lin.eval exX1 σ = σ 1 := by norm_num [Lin.eval, exX1, R.toRat]
  have := hm α σ hα (by rw [e1, e2]; exact a1) (by rw [e1, e2]; exact a2)
  rw [e1, e2] at this
  exact this

end Oratio
