/-
Property C13 — reified boolean constructs are equivalent to the formula they stand for.

`Enc` (OratioModel/Sat/Enc.lean) models the root-level part of `smt::sat_core`: clause
creation, the five reified constructors with their simplifications, shortcuts and expression
cache, and root-level propagation.  `Models α s` says the total assignment `α` satisfies
every clause and every root value of state `s` (variable 0 is the false constant).

For every constructor the theorems give, for ALL argument lists (any length, signs,
duplicates, complements, constants) and ALL states reachable from `Enc.init`:
  * `…_inv`          the state invariant (well-formedness + soundness of every cached
                     expression) is preserved;
  * `…_equiv/_forces` the meaning of the returned literal in every model of the new state;
  * `…_conservative`  no model of the old state is lost: each extends to a model of the new
                     state that agrees on every old variable (auxiliary ones included);
  * `…_complete`      (at-most-one / exactly-one) an assignment satisfying the cardinality
                     constraint can make the literal true, whenever the expression is built
                     rather than fetched from the cache.
-/
import OratioModel
import OratioProofs.Lemmas.Enc
import OratioProofs.Lemmas.EncTop

namespace Oratio
open Enc

/-! ## vocabulary -/

/-- `α` satisfies state `s` -/
def Enc.Sat (α : Asg) (s : Enc) : Prop := α 0 = false ∧ Enc.Models α s

/-- at most one *distinct* true literal (duplicates have set semantics, as in the code) -/
def AtMostOne (α : Asg) (ls : List Lit) : Prop := ∀ a ∈ ls, ∀ b ∈ ls, α.lit a = true → α.lit b = true → a = b
def ExactlyOne (α : Asg) (ls : List Lit) : Prop := AtMostOne α ls ∧ ∃ a ∈ ls, α.lit a = true

/-- meaning of a cached expression -/
def KeySem (α : Asg) : Key → Lit → Prop
  | .eq a b, l => α.lit l = (α.lit a == α.lit b)
  | .conj ls, l => α.lit l = ls.all α.lit
  | .disj ls, l => α.lit l = ls.any α.lit
  | .amo ls, l => α.lit l = true → AtMostOne α ls
  | .exo ls, l => α.lit l = true → ExactlyOne α ls

def Key.lits : Key → List Lit
  | .eq a b => [a, b]
  | .conj ls => ls
  | .disj ls => ls
  | .amo ls => ls
  | .exo ls => ls

/-- structural well-formedness -/
def Enc.WF (s : Enc) : Prop :=
  s.vals.head? = some (some false) ∧
  (∀ c ∈ s.clauses, ∀ l ∈ c, l.var < s.nvars) ∧
  (∀ e ∈ s.exprs, e.2.var < s.nvars ∧ ∀ l ∈ e.1.lits, l.var < s.nvars)

/-- the invariant: well-formed, and every cached expression means what its key says -/
def Enc.Inv (s : Enc) : Prop := s.WF ∧ ∀ e ∈ s.exprs, ∀ α, Enc.Sat α s → KeySem α e.1 e.2

/-- every model of `s` extends to a model of `s'` that agrees on all variables of `s` -/
def Enc.Extends (s s' : Enc) : Prop :=
  ∀ α, Enc.Sat α s → ∃ α', Enc.Sat α' s' ∧ ∀ v, v < s.nvars → α' v = α v
/-- `s'` only adds constraints and variables -/
def Enc.Refines (s s' : Enc) : Prop := s.nvars ≤ s'.nvars ∧ ∀ α, Enc.Sat α s' → Enc.Sat α s

def InRange (s : Enc) (ls : List Lit) : Prop := ∀ l ∈ ls, l.var < s.nvars

/-! ## the invariant holds initially and is kept by every operation -/

theorem C13_init_inv : Enc.init.Inv := by exact EncL.init_inv

theorem C13_newVar_inv (s : Enc) (h : s.Inv) : (s.newVar).2.Inv ∧ s.Extends (s.newVar).2 ∧ s.Refines (s.newVar).2 := by exact EncL.newVar_spec h

/-- `new_clause`: on success the new state means "old state and the clause"; failure means
    the old state already contradicts the clause -/
theorem C13_new_clause_sem (s : Enc) (c : List Lit) (h : s.Inv) (hc : InRange s c) :
    (s.newClause c).2.Inv ∧
    ((s.newClause c).1 = true → ∀ α, Enc.Sat α (s.newClause c).2 ↔ (Enc.Sat α s ∧ α.clause c = true)) ∧
    ((s.newClause c).1 = false → ∀ α, Enc.Sat α s → α.clause c = false) := by exact EncL.new_clause_sem h hc

/-- root-level propagation keeps the set of models; failure means there is none -/
theorem C13_propagate_sem (s : Enc) (h : s.Inv) :
    (s.propagate).2.Inv ∧
    ((s.propagate).1 = true → ∀ α, Enc.Sat α (s.propagate).2 ↔ Enc.Sat α s) ∧
    ((s.propagate).1 = false → ∀ α, ¬ Enc.Sat α s) := by exact EncL.propagate_spec h

/-! ## equality, conjunction, disjunction: the literal is equivalent to the formula -/

theorem C13_eq_equiv (s : Enc) (a b : Lit) (h : s.Inv) (ha : a.var < s.nvars) (hb : b.var < s.nvars) :
    (s.newEq a b).2.Inv ∧ (s.newEq a b).1.var < (s.newEq a b).2.nvars ∧
    (∀ α, Enc.Sat α (s.newEq a b).2 → α.lit (s.newEq a b).1 = (α.lit a == α.lit b)) ∧
    s.Extends (s.newEq a b).2 ∧ s.Refines (s.newEq a b).2 := by exact EncL.eq_spec h ha hb

theorem C13_conj_equiv (s : Enc) (ls : List Lit) (h : s.Inv) (hl : InRange s ls) :
    (s.newConj ls).2.Inv ∧ (s.newConj ls).1.var < (s.newConj ls).2.nvars ∧
    (∀ α, Enc.Sat α (s.newConj ls).2 → α.lit (s.newConj ls).1 = ls.all α.lit) ∧
    s.Extends (s.newConj ls).2 ∧ s.Refines (s.newConj ls).2 := by
  obtain ⟨c1, c2, c3, c4, c5, _⟩ := EncL.conj_spec h hl
  exact ⟨c1, c2, c3, c4, c5⟩

theorem C13_disj_equiv (s : Enc) (ls : List Lit) (h : s.Inv) (hl : InRange s ls) :
    (s.newDisj ls).2.Inv ∧ (s.newDisj ls).1.var < (s.newDisj ls).2.nvars ∧
    (∀ α, Enc.Sat α (s.newDisj ls).2 → α.lit (s.newDisj ls).1 = ls.any α.lit) ∧
    s.Extends (s.newDisj ls).2 ∧ s.Refines (s.newDisj ls).2 := by exact EncL.disj_spec h hl

/-! ## at-most-one / exactly-one: pairwise and product encodings, any length -/

/-- the recursion of the product encoding terminates within the fuel `newAtMostOne` passes:
    the result does not depend on extra fuel -/
theorem C13_amo_fuel_enough (s : Enc) (ls : List Lit) (k : Nat) :
    Enc.amoCore (ls.length + k) s ls = Enc.amoCore ls.length s ls := by
  exact EncL.amoCore_fuel _ _ s ls (Nat.le_add_right _ _) (Nat.le_refl _)

theorem C13_amo_forces (s : Enc) (ls : List Lit) (h : s.Inv) (hl : InRange s ls) :
    (s.newAtMostOne ls).2.Inv ∧ (s.newAtMostOne ls).1.var < (s.newAtMostOne ls).2.nvars ∧
    (∀ α, Enc.Sat α (s.newAtMostOne ls).2 → α.lit (s.newAtMostOne ls).1 = true → AtMostOne α ls) ∧
    s.Extends (s.newAtMostOne ls).2 ∧ s.Refines (s.newAtMostOne ls).2 := by exact EncL.amo_spec h hl

/-- the top-level at-most-one expression of this request is already in the cache -/
def Enc.amoCached (s : Enc) (ls : List Lit) : Bool :=
  match Enc.scanCard s (Enc.sortDedup ls) none [] with
  | .open ls' => decide (1 < ls'.length) && (s.lookup (.amo ls')).isSome
  | _ => false

/-- a freshly built at-most-one excludes no assignment that satisfies the constraint;
    a cached one leaves the state untouched -/
theorem C13_amo_complete (s : Enc) (ls : List Lit) (h : s.Inv) (hl : InRange s ls) :
    (s.amoCached ls = false →
      ∀ α, Enc.Sat α s → AtMostOne α ls →
        ∃ α', Enc.Sat α' (s.newAtMostOne ls).2 ∧ (∀ v, v < s.nvars → α' v = α v) ∧ α'.lit (s.newAtMostOne ls).1 = true) ∧
    (s.amoCached ls = true → (s.newAtMostOne ls).2 = s) := by exact EncL.amo_complete h hl

theorem C13_exo_forces (s : Enc) (ls : List Lit) (h : s.Inv) (hl : InRange s ls) :
    (s.newExctOne ls).2.Inv ∧ (s.newExctOne ls).1.var < (s.newExctOne ls).2.nvars ∧
    (∀ α, Enc.Sat α (s.newExctOne ls).2 → α.lit (s.newExctOne ls).1 = true → ExactlyOne α ls) ∧
    s.Extends (s.newExctOne ls).2 ∧ s.Refines (s.newExctOne ls).2 := by exact EncL.exo_spec h hl

/-- neither the exactly-one expression nor its inner at-most-one is in the cache -/
def Enc.exoFresh (s : Enc) (ls : List Lit) : Bool :=
  match Enc.scanCard s (Enc.sortDedup ls) none [] with
  | .open ls' => (s.lookup (.exo ls')).isNone && (s.lookup (.amo ls')).isNone
  | _ => true

theorem C13_exo_complete (s : Enc) (ls : List Lit) (h : s.Inv) (hl : InRange s ls) (hf : s.exoFresh ls = true) :
    ∀ α, Enc.Sat α s → ExactlyOne α ls →
      ∃ α', Enc.Sat α' (s.newExctOne ls).2 ∧ (∀ v, v < s.nvars → α' v = α v) ∧ α'.lit (s.newExctOne ls).1 = true := by
  exact EncL.exo_complete h hl hf

/-! ## all histories -/

/-- the operations of the root-level API -/
inductive EncOp where
  | newVar
  | clause (c : List Lit)
  | eq (a b : Lit)
  | conj (ls : List Lit)
  | disj (ls : List Lit)
  | amo (ls : List Lit)
  | exo (ls : List Lit)
  | propagate

def EncOp.lits : EncOp → List Lit
  | .newVar => [] | .clause c => c | .eq a b => [a, b] | .conj ls => ls | .disj ls => ls
  | .amo ls => ls | .exo ls => ls | .propagate => []

def Enc.step (s : Enc) : EncOp → Enc
  | .newVar => (s.newVar).2
  | .clause c => (s.newClause c).2
  | .eq a b => (s.newEq a b).2
  | .conj ls => (s.newConj ls).2
  | .disj ls => (s.newDisj ls).2
  | .amo ls => (s.newAtMostOne ls).2
  | .exo ls => (s.newExctOne ls).2
  | .propagate => (s.propagate).2

/-- a history is valid when every operation only mentions variables that exist when it is issued -/
def ValidHistory : Enc → List EncOp → Prop
  | _, [] => True
  | s, op :: ops => InRange s op.lits ∧ ValidHistory (s.step op) ops

/-- after any valid history the invariant holds: in particular every expression ever
    returned from the cache still means what it was built to mean, whatever was added since -/
theorem C13_inv_reachable (ops : List EncOp) (hv : ValidHistory Enc.init ops) :
    (ops.foldl Enc.step Enc.init).Inv := by
  have key : ∀ (ops : List EncOp) (s : Enc), s.Inv → ValidHistory s ops → (ops.foldl Enc.step s).Inv := by
    intro ops
    induction ops with
    | nil => intro s h _; exact h
    | cons op ops ih =>
      intro s h hv
      obtain ⟨hr, hv'⟩ := hv
      refine ih _ ?_ hv'
      cases op with
      | newVar => exact (C13_newVar_inv s h).1
      | clause c => exact (C13_new_clause_sem s c h hr).1
      | eq a b =>
        exact (C13_eq_equiv s a b h (hr a (by simp [EncOp.lits])) (hr b (by simp [EncOp.lits]))).1
      | conj ls => exact (C13_conj_equiv s ls h hr).1
      | disj ls => exact (C13_disj_equiv s ls h hr).1
      | amo ls => exact (C13_amo_forces s ls h hr).1
      | exo ls => exact (C13_exo_forces s ls h hr).1
      | propagate => exact (C13_propagate_sem s h).1
  exact key ops _ C13_init_inv hv

/-- a cache hit returns a literal with the meaning of the requested expression -/
theorem C13_cache_hit_valid (s : Enc) (k : Key) (l : Lit) (h : s.Inv) (hk : s.lookup k = some l) :
    l.var < s.nvars ∧ ∀ α, Enc.Sat α s → KeySem α k l := by exact EncL.cache_hit h hk

/-! ## non-vacuity -/

example : ValidHistory Enc.init [.newVar, .newVar, .newVar, .eq ⟨1, true⟩ ⟨2, false⟩, .amo [⟨1, true⟩, ⟨2, true⟩, ⟨3, true⟩],
    .clause [⟨1, true⟩], .exo [⟨1, true⟩, ⟨2, true⟩, ⟨3, false⟩], .propagate] := by
  simp only [ValidHistory, InRange, EncOp.lits]
  decide

example : (Enc.init.newVar.2.newVar.2.newEq ⟨1, true⟩ ⟨2, false⟩).1 = ⟨3, true⟩ := by decide

end Oratio
