/-
Property C14 — object variables take exactly one allowed value; equality means same value.

`Ov` (OratioModel/Sat/Ov.lean) models `smt::ov_theory` on top of the root-level encoder model
`Enc` of C13: each object variable is an association list value ↦ guard literal.  Histories
of assume/pop over the guard literals are the business of C07/C08; the statements below hold
for every state reachable by `newVar / newVarLits / newEq` and every total assignment of the
guard literals that satisfies the network's clauses, which is what such a history ends in.
-/
import OratioModel
import OratioProofs.Properties.C13
import OratioProofs.Lemmas.Ov
import OratioProofs.Lemmas.OvVar
import OratioProofs.Lemmas.OvEq

namespace Oratio
open Enc

/-! ## vocabulary -/

/-- in assignment `α`, object variable `v` takes value `k` and no other value -/
def Ov.Takes (α : Asg) (s : Ov) (v k : Nat) : Prop :=
  (∃ l, Ov.lookupVal (s.dom v) k = some l ∧ α.lit l = true) ∧
  ∀ e ∈ s.dom v, e.1 ≠ k → α.lit e.2 = false

/-- `v` takes exactly one of its values -/
def Ov.OneValue (α : Asg) (s : Ov) (v : Nat) : Prop := ∃ k, Ov.Takes α s v k

def Ov.WF (s : Ov) : Prop :=
  s.enc.Inv ∧
  (∀ d ∈ s.doms, (d.map (·.1)).Nodup ∧ d ≠ [] ∧ ∀ e ∈ d, e.2.var < s.enc.nvars) ∧
  (∀ e ∈ s.eqs, e.1.1 < e.1.2 ∧ e.1.2 < s.doms.length ∧ e.2.var < s.enc.nvars ∧
     ∃ k, (Ov.lookupVal (s.dom e.1.1) k).isSome ∧ (Ov.lookupVal (s.dom e.1.2) k).isSome)

/-- meaning of an equality literal between `a` and `b` -/
def Ov.EqMeans (s : Ov) (a b : Nat) (l : Lit) : Prop :=
  ∀ α, Enc.Sat α s.enc → ∀ ka kb, Ov.Takes α s a ka → Ov.Takes α s b kb → (α.lit l = true ↔ ka = kb)

/-- the invariant: well-formed, and every cached equality literal means equality -/
def Ov.Inv (s : Ov) : Prop := s.WF ∧ ∀ e ∈ s.eqs, Ov.EqMeans s e.1.1 e.1.2 e.2

/-! ## creation: exactly one value -/

theorem C14_init_inv : Ov.init.Inv := by exact OvL.init_inv

/-- a variable created with the exactly-one clause takes exactly one of its values in every
    model; nothing that was satisfiable before is lost -/
theorem C14_exactly_one (s : Ov) (items : List Nat) (h : s.Inv) (hn : items.Nodup) (hl : 2 ≤ items.length) :
    let r := s.newVar items true
    r.2.Inv ∧ r.1 = s.doms.length ∧ (r.2.dom r.1).map (·.1) = items ∧
    (∀ α, Enc.Sat α r.2.enc → Ov.OneValue α r.2 r.1) ∧
    s.enc.Extends r.2.enc ∧ s.enc.Refines r.2.enc ∧
    (∀ α k, Enc.Sat α s.enc → k ∈ items → ∃ α', Enc.Sat α' r.2.enc ∧ (∀ v, v < s.enc.nvars → α' v = α v) ∧ Ov.Takes α' r.2 r.1 k) := by exact OvL.exactly_one s items h hn hl

/-- the planner's variant (no exactly-one clause): the variable has one fresh guard per value and
    the network is otherwise unchanged, so that ANY clause over the guards (the enum flaw's
    exactly-one clause) decides how many values are taken -/
theorem C14_unenforced (s : Ov) (items : List Nat) (h : s.Inv) (hn : items.Nodup) (hl : 2 ≤ items.length) :
    let r := s.newVar items false
    r.2.Inv ∧ (r.2.dom r.1).map (·.1) = items ∧ r.2.enc.clauses = s.enc.clauses ∧
    (∀ e ∈ r.2.dom r.1, s.enc.nvars ≤ e.2.var ∧ e.2.sign = true) ∧ ((r.2.dom r.1).map (·.2)).Nodup ∧
    s.enc.Extends r.2.enc ∧ s.enc.Refines r.2.enc := by exact OvL.unenforced s items h hn hl

/-- a singleton domain is represented by the constant TRUE: the variable always takes its value -/
theorem C14_singleton (s : Ov) (i : Nat) (h : s.Inv) :
    let r := s.newVar [i] true
    r.2.Inv ∧ r.2.enc = s.enc ∧ r.2.dom r.1 = [(i, Lit.trueLit)] ∧ ∀ α, Enc.Sat α r.2.enc → Ov.Takes α r.2 r.1 i := by exact OvL.singleton s i h

/-- a derived variable (`new_var(lits, vals)`) adds nothing to the network -/
theorem C14_newVarLits (s : Ov) (lits : List Lit) (vals : List Nat) (h : s.Inv)
    (hl : lits.length = vals.length) (hne : lits ≠ []) (hr : ∀ l ∈ lits, l.var < s.enc.nvars) :
    let r := s.newVarLits lits vals
    r.2.Inv ∧ r.2.enc = s.enc ∧ ∀ k l, Ov.lookupVal (r.2.dom r.1) k = some l → (k, l) ∈ vals.zip lits := by exact OvL.newVarLits_spec s lits vals h hl hne hr

/-! ## the reported domain -/

/-- `value(v)` is exactly the set of values whose guard is not false, and it contains the value
    taken in any model that extends the current root values -/
theorem C14_value_is_not_excluded (s : Ov) (v : Nat) :
    (∀ k, k ∈ s.value v ↔ ∃ l, (k, l) ∈ s.dom v ∧ s.enc.value l ≠ some false) ∧
    (s.Inv → ∀ α k, Enc.Sat α s.enc → Ov.Takes α s v k → k ∈ s.value v) := by
  exact ⟨(OvL.value_spec s v).1, fun _ => (OvL.value_spec s v).2⟩

/-- `allows(v, k)` is the guard of `k`, or FALSE when `k` is not in the domain -/
theorem C14_allows (s : Ov) (v k : Nat) :
    (∀ l, Ov.lookupVal (s.dom v) k = some l → s.allows v k = l) ∧
    (Ov.lookupVal (s.dom v) k = none → s.allows v k = Lit.falseLit) := by exact OvL.allows_spec s v k

/-! ## equality -/

/-- `v` takes at most one VALUE (two entries whose guards are both true carry the same value) -/
def Ov.AtMostOneValue (α : Asg) (s : Ov) (v : Nat) : Prop :=
  ∀ e ∈ s.dom v, ∀ f ∈ s.dom v, α.lit e.2 = true → α.lit f.2 = true → e.1 = f.1

/-- the equality literal is true exactly when both variables take the same value and false
    exactly when they take different ones; requesting it loses no model in which neither
    variable takes two values at once (a variable created without the exactly-one clause admits
    such assignments until the enum flaw's clause is posted; those are the only ones a request
    may exclude) -/
theorem C14_eq_iff_same (s : Ov) (a b : Nat) (h : s.Inv) (ha : a < s.doms.length) (hb : b < s.doms.length) :
    let r := s.newEq a b
    r.2.Inv ∧ r.1.var < r.2.enc.nvars ∧ r.2.doms = s.doms ∧
    Ov.EqMeans r.2 a b r.1 ∧
    (∀ α, Enc.Sat α s.enc → Ov.AtMostOneValue α s a → Ov.AtMostOneValue α s b →
       ∃ α', Enc.Sat α' r.2.enc ∧ ∀ v, v < s.enc.nvars → α' v = α v) ∧
    s.enc.Refines r.2.enc := by exact OvL.eq_iff_same s a b h ha hb

/-- variables with disjoint domains are never equal: the literal is the constant FALSE and
    nothing is added -/
theorem C14_disjoint_never_equal (s : Ov) (a b : Nat) (h : s.Inv) (hab : a ≠ b)
    (hd : ∀ e ∈ s.dom a, ∀ f ∈ s.dom b, e.1 ≠ f.1) :
    s.newEq a b = (Lit.falseLit, s) := by exact OvL.disjoint_never_equal s a b h hab hd

/-- the equality of a variable with itself is TRUE; a repeated request (either order) returns
    the same literal and leaves the network unchanged -/
theorem C14_eq_cache (s : Ov) (a b : Nat) (h : s.Inv) (ha : a < s.doms.length) (hb : b < s.doms.length) :
    s.newEq a a = (Lit.trueLit, s) ∧
    (let r := s.newEq a b; r.2.newEq a b = (r.1, r.2) ∧ r.2.newEq b a = (r.1, r.2)) := by
  -- the hypotheses are not needed: the cache behaviour holds in every state
  exact (fun _ _ _ => OvL.eq_cache s a b) h ha hb

/-! ## non-vacuity -/
example : ∃ r, r = ((Ov.init.newVar [1, 2, 3] true).2.newVar [2, 3, 4] true).2.newEq 0 1 ∧ r.1.var ≠ 0 := by exact ⟨_, rfl, by decide⟩

end Oratio
