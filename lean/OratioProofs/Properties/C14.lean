import OratioModel
namespace Oratio
theorem C14_placeholder : Ov.init.doms.length = 0 := by decide
end Oratio
