/-
Definitions for property C11 (semantic version): how a rational valuation is compared with an
`inf_rational` bound, "within the bounds", well-formed bounds, the shape of the constants of the
assertions created by `newRel`, and the semantic invariant of `exprs` / `s_asrts`.
-/
import OratioModel
import OratioProofs.Lemmas.Lin
import OratioProofs.Lemmas.Rational
import OratioProofs.Lemmas.LraRel

namespace Oratio
namespace Lra

/-- `b ≤ y` for a bound `b = q + k·ε` and a rational `y`: `(q, k) ≤ (y, 0)` lexicographically, i.e.
    `q < y`, or `q = y` and `k ≤ 0`; `-∞` is below every rational, `+∞` below none -/
def IRBelow (b : IR) (y : Rat) : Prop :=
  b.rat = R.ninf ∨ (b.rat.den ≠ 0 ∧ (b.rat.toRat < y ∨ (b.rat.toRat = y ∧ b.inf.toRat ≤ 0)))

/-- `y ≤ b`: `(y, 0) ≤ (q, k)` lexicographically; `+∞` is above every rational, `-∞` above none -/
def IRAbove (b : IR) (y : Rat) : Prop :=
  b.rat = R.pinf ∨ (b.rat.den ≠ 0 ∧ (y < b.rat.toRat ∨ (y = b.rat.toRat ∧ 0 ≤ b.inf.toRat)))

/-- a lower bound is canonical: finite infinitesimal part, rational part finite or `-∞` -/
def LowOK (b : IR) : Prop := R.FinWF b.inf ∧ (R.FinWF b.rat ∨ b.rat = R.ninf)
/-- an upper bound is canonical: finite infinitesimal part, rational part finite or `+∞` -/
def UpOK (b : IR) : Prop := R.FinWF b.inf ∧ (R.FinWF b.rat ∨ b.rat = R.pinf)
/-- both parts canonical and finite -/
def FinIR_s (b : IR) : Prop := R.FinWF b.rat ∧ R.FinWF b.inf

/-- the bounds of every existing variable are canonical -/
def BndWF (t : Lra) : Prop := ∀ x, x < t.vals.length → LowOK (t.lb x) ∧ UpOK (t.ub x)

/-- the valuation lies within the bounds of every existing variable -/
def InBounds (t : Lra) (σ : Nat → Rat) : Prop :=
  ∀ x, x < t.vals.length → IRBelow (t.lb x) (σ x) ∧ IRAbove (t.ub x) (σ x)

/-- the requested relation between two rationals -/
def RelHolds (r : LRel) (x y : Rat) : Prop :=
  match r with
  | .lt => x < y
  | .leq => x ≤ y
  | .geq => x ≥ y
  | .gt => x > y

/-- what the assertion `x ≤ v` / `x ≥ v` says of a rational valuation -/
def AsrtSays (a : LAsrt) (σ : Nat → Rat) : Prop :=
  match a.o with
  | .leq => IRAbove a.v (σ a.x)
  | .geq => IRBelow a.v (σ a.x)

/-- the constants of the assertions `newRel` creates: `c`, `c - ε`, `c + ε` with `c` canonical and finite -/
def SimpleC (c : IR) : Prop := R.FinWF c.rat ∧ (c.inf = R.zero ∨ c.inf = R.one ∨ c.inf = R.neg R.one)

/-- no zero coefficient -/
def NoZero (l : Lin) : Prop := ∀ p ∈ l.vars, p.2.num ≠ 0

/-- the rows hold (copy of `Lra.RowsHoldAt` of Properties/C09Bridge.lean on `Lin.evalS`) -/
def RowsS (t : Lra) (σ : Nat → Rat) : Prop := ∀ e ∈ t.tableau, σ e.1 = Lin.evalS e.2 σ

/-- Semantic invariant of the two string-keyed caches of the theory:
    * a name in `exprs` that is the print-out of a canonical expression names a variable that has the value of
      that expression in every solution of the tableau;
    * a key in `s_asrts` that is the print-out of `x (≤|≥) c` is bound to the control literal of the assertion
      `x (≤|≥) c` registered in `v_asrts`. -/
structure SemInv (t : Lra) : Prop where
  exprs_sem : ∀ e ∈ t.exprs, ∀ l : Lin, l.WF → Lin.toStr l = e.1 → ∀ σ, RowsS t σ → σ e.2 = Lin.evalS l σ
  sAsrts_sem : ∀ e ∈ t.sAsrts, ∀ (up : Bool) (x : Nat) (c : IR), SimpleC c → relKey up x c = e.1 →
    t.asrtOf e.2.var = some ⟨if up then .leq else .geq, e.2, x, c⟩

end Lra
end Oratio
