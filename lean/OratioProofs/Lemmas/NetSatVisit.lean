/-
C07N: `clausePropagate` and `visitWatchers` keep the weak well-formedness `WfS` and the semantic
invariant `Ent orig K`; a reported conflict is a stored clause containing `¬p` all of whose literals
are false.
-/
import OratioProofs.Lemmas.NetSatWf
import OratioProofs.Lemmas.DlPathWalk

set_option linter.unusedSimpArgs false
set_option linter.unusedVariables false

namespace Oratio
namespace Sat

/-! ### permutations performed on a clause -/

theorem swap1_perm (c : Clause) (k : Nat) : (swap1 c k).Perm c := by
  unfold swap1
  split
  · next a b h1 hk =>
    match c, h1, hk with
    | h :: a' :: t, h1, hk =>
      simp only [List.getElem?_cons_succ, List.getElem?_cons_zero, Option.some.injEq] at h1
      subst h1
      match k, hk with
      | 0, hk =>
        simp only [List.getElem?_cons_zero, Option.some.injEq] at hk
        subst hk
        simp only [List.set_cons_succ, List.set_cons_zero]
        exact List.Perm.swap _ _ _
      | 1, hk =>
        simp only [List.getElem?_cons_succ, List.getElem?_cons_zero, Option.some.injEq] at hk
        subst hk
        simp only [List.set_cons_succ, List.set_cons_zero]
        exact List.Perm.refl _
      | k + 2, hk =>
        simp only [List.getElem?_cons_succ] at hk
        simp only [List.set_cons_succ, List.set_cons_zero]
        exact (perm_set_swap t k hk).cons h
  · exact List.Perm.refl _

theorem swap1_head (c : Clause) (k : Nat) (hk : 1 ≤ k) (l : Lit) (r : List Lit) (hc : c = l :: r) :
    ∃ r', swap1 c k = l :: r' := by
  subst hc
  unfold swap1
  split
  · next a b h1 hk' =>
    match r, h1 with
    | a' :: t, h1 =>
      match k, hk, hk' with
      | k + 1, _, hk' =>
        simp only [List.set_cons_succ]
        exact ⟨_, rfl⟩
  · exact ⟨r, rfl⟩

/-- the clause after the normalisation `if (variable(lits[0]) == variable(p)) swap(lits[0], lits[1])` -/
def normCl (c : Clause) (p : Lit) : Clause :=
  match c with
  | l0 :: l1 :: rest => if l0.var == p.var then l1 :: l0 :: rest else c
  | _ => c

theorem normCl_perm (c : Clause) (p : Lit) : (normCl c p).Perm c := by
  unfold normCl
  split
  · split
    · exact List.Perm.swap _ _ _
    · exact List.Perm.refl _
  · exact List.Perm.refl _

theorem clausePropagate_eq_norm (s : Sat) (id : Nat) (p : Lit) :
    s.clausePropagate id p = cpTail s id p (normCl (s.clauseOf id) p) := by
  rw [clausePropagate_eq_tail]
  congr 1

/-! ### what one step keeps, for the caller -/

structure StepS (p : Lit) (s s' : Sat) : Prop where
  frame : Frame s s'
  le : Dl.SatLe s s'
  trail : s.trail <:+ s'.trail
  pw : ∀ id', (∃ c, (id', c) ∈ s.cls ∧ p.neg ∈ c) → ∃ c, (id', c) ∈ s'.cls ∧ p.neg ∈ c
  lvl : ∀ x ∈ s.trail, s'.lvl x = s.lvl x

theorem StepS.refl (p : Lit) (s : Sat) : StepS p s s :=
  ⟨Frame.refl s, Dl.SatLe.refl s, List.suffix_refl _, fun _ h => h, fun _ _ => rfl⟩

theorem StepS.trans {p : Lit} {a b c : Sat} (h1 : StepS p a b) (h2 : StepS p b c) : StepS p a c :=
  ⟨h1.frame.trans h2.frame, Dl.SatLe.trans h1.le h2.le, h1.trail.trans h2.trail, fun id h => h2.pw id (h1.pw id h),
    fun x hx => (h2.lvl x (h1.trail.subset hx)).trans (h1.lvl x hx)⟩

theorem StepS.of_same {p : Lit} {s t : Sat} (hv : t.vals = s.vals) (hlv : t.level = s.level) (ht : t.trail = s.trail) (hc : t.cls = s.cls)
    (hd : t.dead = s.dead) (hdec : t.decisions = s.decisions) (hl : t.trailLim = s.trailLim) (hlog : t.log = s.log)
    (he : t.exprs = s.exprs) : StepS p s t :=
  ⟨⟨hd, hdec, hl, hlog, by rw [hv], he⟩, fun v b h => hv ▸ h, by rw [ht],
    fun id h => by rw [hc]; exact h, fun x _ => by show t.level.getD x.var 0 = s.level.getD x.var 0; rw [hlv]⟩

theorem stepS_setClause {p : Lit} {s : Sat} (hnd : (s.cls.map (·.1)).Nodup) {id : Nat} {c c' : Clause}
    (hm : (id, c) ∈ s.cls) (hp : c'.Perm c) : StepS p s (s.setClause id c') := by
  refine ⟨⟨rfl, rfl, rfl, rfl, rfl, rfl⟩, Dl.SatLe.refl _, List.suffix_refl _, ?_, fun _ _ => rfl⟩
  rintro id' ⟨d, hd, hpd⟩
  by_cases hid : id' = id
  · subst hid
    have e : d = c := mem_unique' hnd hd hm
    exact ⟨c', (mem_setClause' hm).2 (Or.inr rfl), hp.mem_iff.2 (e ▸ hpd)⟩
  · exact ⟨d, (mem_setClause' hm).2 (Or.inl ⟨hd, hid⟩), hpd⟩

/-- one permutation step: invariants, membership of the new clause -/
theorem setClause_step {orig K : Cnf} {p : Lit} {s : Sat} (hw : s.WfS) (he : s.Ent orig K) {id : Nat} {c c' : Clause}
    (hm : (id, c) ∈ s.cls) (hp : c'.Perm c)
    (hh : ∀ l r, c = l :: r → l ∈ s.trail → s.reason.getD l.var none = some id → ∃ r', c' = l :: r') :
    (s.setClause id c').WfS ∧ (s.setClause id c').Ent orig K ∧ StepS p s (s.setClause id c') ∧
      (id, c') ∈ (s.setClause id c').cls :=
  ⟨hw.setClause hm hp hh, he.setClause' hw.ids hm hp, stepS_setClause hw.ids hm hp, (mem_setClause' hm).2 (Or.inr rfl)⟩

/-- a clause visited for `p` is not the reason of `p` -/
theorem not_reason_of_watched {s : Sat} (hw : s.WfS) {p : Lit} (hpt : p ∈ s.trail) {id : Nat} {c : Clause}
    (hm : (id, c) ∈ s.cls) (hpc : p.neg ∈ c) : s.reason.getD p.var none ≠ some id := by
  intro hr
  obtain ⟨b, hs⟩ := an_suffix_of_mem hpt
  obtain ⟨rest, hmr, hb⟩ := hw.r p b hs id hr
  have e : c = p :: rest := mem_unique' hw.ids hm hmr
  rw [e] at hpc
  rcases List.mem_cons.1 hpc with h | h
  · exact Lit.neg_ne p h
  · rcases hb _ h with h' | h'
    · rw [Lit.neg_neg] at h'
      have hnd : ((p :: b).map Lit.var).Nodup := hw.a.trailNodup.sublist (hs.sublist.map _)
      simp only [List.map_cons, List.nodup_cons] at hnd
      exact hnd.1 (List.mem_map.2 ⟨p, h', rfl⟩)
    · have h0 : p.var = 0 := by
        have := congrArg Lit.var h'
        simpa [Lit.neg, Lit.falseLit] using this
      exact (hw.a.trailVal p hpt).2 h0

theorem value_falseLit {s : Sat} (ha : s.WfA) : s.value Lit.falseLit = some false :=
  ha.value_false.2 (Or.inr rfl)

/-! ### `clause::propagate` -/

theorem clausePropagate_sound {orig K : Cnf} {s : Sat} {p : Lit} {id : Nat} (hw : s.WfS) (he : s.Ent orig K)
    (hpt : p ∈ s.trail) (hid : ∃ c, (id, c) ∈ s.cls ∧ p.neg ∈ c) :
    (s.clausePropagate id p).2.WfS ∧ (s.clausePropagate id p).2.Ent orig K ∧ StepS p s (s.clausePropagate id p).2 ∧
    ((s.clausePropagate id p).1 = false →
      ∃ c, (id, c) ∈ (s.clausePropagate id p).2.cls ∧ p.neg ∈ c ∧ ∀ l ∈ c, (s.clausePropagate id p).2.value l = some false) := by
  obtain ⟨c0, hm0, hpc0⟩ := hid
  rw [clausePropagate_eq_norm, clauseOf_of_mem' hw.ids hm0]
  have hperm := normCl_perm c0 p
  generalize hc : normCl c0 p = c at hperm
  -- the normalisation keeps the head of a reason clause
  have hh0 : ∀ l r, c0 = l :: r → l ∈ s.trail → s.reason.getD l.var none = some id → ∃ r', c = l :: r' := by
    intro l r e hl hr
    rw [← hc]
    unfold normCl
    subst e
    match r with
    | [] => exact ⟨[], rfl⟩
    | l1 :: rest =>
      simp only
      split
      · rename_i hv
        have hv' : l.var = p.var := by simpa using hv
        have : l = p := hw.a.trail_var_inj hl hpt hv'
        subst this
        exact absurd hr (not_reason_of_watched hw hpt hm0 hpc0)
      · exact ⟨_, rfl⟩
  obtain ⟨w1, e1, st1, m1⟩ := setClause_step (p := p) hw he hm0 hperm hh0
  have hpc : p.neg ∈ c := hperm.mem_iff.2 hpc0
  unfold cpTail
  simp only
  generalize hs1 : s.setClause id c = s1 at w1 e1 st1 m1
  have hpt1 : p ∈ s1.trail := by rw [← hs1]; exact hpt
  split
  · -- head true
    refine ⟨w1.watch m1 hpc, ?_, st1.trans (StepS.of_same rfl rfl rfl rfl rfl rfl rfl rfl rfl), fun h => by cases h⟩
    exact e1.of_eq rfl rfl rfl rfl rfl rfl
  · split
    · -- a non-false literal is moved to position 1
      rename_i k hk
      obtain ⟨k1, k2, _⟩ := findNonFalse_some hk
      have hp2 := swap1_perm c k
      have hh2 : ∀ l r, c = l :: r → l ∈ s1.trail → s1.reason.getD l.var none = some id → ∃ r', swap1 c k = l :: r' :=
        fun l r e _ _ => swap1_head c k k1 l r e
      obtain ⟨w2, e2, st2, m2⟩ := setClause_step (p := p) w1 e1 m1 hp2 hh2
      have hlen : 1 < (swap1 c k).length := by rw [hp2.length_eq]; omega
      have hmem : ((swap1 c k).getD 1 Lit.falseLit).neg.neg ∈ swap1 c k := by
        rw [Lit.neg_neg, List.getD_eq_getElem?_getD, List.getElem?_eq_getElem hlen]
        exact List.getElem_mem _
      refine ⟨w2.watch m2 hmem, ?_, (st1.trans st2).trans (StepS.of_same rfl rfl rfl rfl rfl rfl rfl rfl rfl),
        fun h => by cases h⟩
      exact e2.of_eq rfl rfl rfl rfl rfl rfl
    · -- unit or conflicting
      rename_i hnone
      have hfalse := findNonFalse_none hnone
      have ww : (s1.watch p id).WfS := w1.watch m1 hpc
      have ew : (s1.watch p id).Ent orig K := e1.of_eq rfl rfl rfl rfl rfl rfl
      have stw : StepS p s (s1.watch p id) := st1.trans (StepS.of_same rfl rfl rfl rfl rfl rfl rfl rfl rfl)
      have mw : (id, c) ∈ (s1.watch p id).cls := m1
      have hrest : ∀ l r, c = l :: r → ∀ x ∈ r, s1.value x = some false := by
        intro l r e x hx
        obtain ⟨j, hj, rfl⟩ := List.getElem_of_mem hx
        have := hfalse (j + 1) (by omega) (by rw [e]; simp; omega)
        rw [e] at this
        simpa [List.getD_eq_getElem?_getD, hj] using this
      cases hv : (s1.watch p id).value (c.headD Lit.falseLit) with
      | some b =>
        rw [enqueue_some _ hv]
        refine ⟨ww, ew, stw, fun hb => ⟨c, mw, hpc, ?_⟩⟩
        simp only at hb
        subst hb
        intro l hl
        match c, hl, hv, hrest with
        | h :: t, hl, hv, hrest =>
          rcases List.mem_cons.1 hl with rfl | hl
          · exact hv
          · exact hrest _ _ rfl l hl
      | none =>
        rw [enqueue_none _ hv]
        match c, hv, hrest, mw, hpc with
        | [], hv, _, _, _ =>
          exact absurd (value_falseLit ww.a) (by simp only [List.headD_nil] at hv; rw [hv]; simp)
        | h :: t, hv, hrest, mw, hpc =>
          simp only [List.headD_cons] at hv ⊢
          have ht : ∀ r ∈ t, r.neg ∈ (s1.watch p id).trail ∨ r = Lit.falseLit :=
            fun r hr => ww.a.value_false.1 (hrest h t rfl r hr)
          have hlt : h.var < (s1.watch p id).vals.length := ww.rng _ mw h (List.mem_cons_self ..)
          refine ⟨ww.enq hv hlt (fun e => by cases e) (fun id' e => ?_), ?_, ?_, fun hb => by cases hb⟩
          · simp only [Option.some.injEq] at e; subst e
            exact ⟨t, mw, ht⟩
          · exact ew.enq ww.a hv hlt (ents_unitN ww.a ew (ew.clauses _ mw) ht)
          · refine stw.trans ⟨⟨rfl, rfl, rfl, rfl, by simp [enq], rfl⟩, ?_, List.suffix_cons _ _, fun _ hx => hx,
              fun x hx => enq_lvl_ne (ww.a.trail_var_ne hx hv)⟩
            have := Dl.enqueue_le (s1.watch p id) h (some id)
            rw [enqueue_none _ hv] at this
            exact this

/-! ### the loop over the watchers -/

theorem WfS.setWatchesQ {s : Sat} (h : s.WfS) (ws : List (List Nat)) (q : List Lit) (hq : ∀ x ∈ q, x ∈ s.queue)
    (hws : ∀ i id, id ∈ ws.getD i [] → ∃ c, (id, c) ∈ s.cls ∧ ∃ l ∈ c, l.neg.idx = i) :
    ({ s with watches := ws, queue := q } : Sat).WfS :=
  ⟨(h.a.queue_sub q hq).of_eq rfl rfl rfl rfl rfl rfl rfl rfl, h.lvl0, h.idlt, h.ids, h.rng, h.r, hws⟩

theorem visit_sound {orig K : Cnf} {p : Lit} : ∀ (tmp : List Nat) (s : Sat), s.WfS → s.Ent orig K → p ∈ s.trail →
    (∀ id ∈ tmp, ∃ c, (id, c) ∈ s.cls ∧ p.neg ∈ c) →
    (visitWatchers s p tmp).1.WfS ∧ (visitWatchers s p tmp).1.Ent orig K ∧ StepS p s (visitWatchers s p tmp).1 ∧
    ∀ id, (visitWatchers s p tmp).2 = some id → (visitWatchers s p tmp).1.queue = [] ∧
      ∃ c, (id, c) ∈ (visitWatchers s p tmp).1.cls ∧ p.neg ∈ c ∧ ∀ l ∈ c, (visitWatchers s p tmp).1.value l = some false
  | [], s, hw, he, _, _ => ⟨hw, he, StepS.refl p s, fun id h => by cases h⟩
  | id :: rest, s, hw, he, hpt, htmp => by
    unfold visitWatchers
    obtain ⟨c1, c2, c3, c4⟩ := clausePropagate_sound hw he hpt (htmp id (List.mem_cons_self ..))
    rcases hcp : s.clausePropagate id p with ⟨b, s'⟩
    rw [hcp] at c1 c2 c3 c4
    simp only at c1 c2 c3 c4
    have hrest : ∀ id' ∈ rest, ∃ c, (id', c) ∈ s'.cls ∧ p.neg ∈ c :=
      fun id' h' => c3.pw id' (htmp id' (List.mem_cons_of_mem _ h'))
    cases b with
    | true =>
      simp only
      obtain ⟨d1, d2, d3, d4⟩ := visit_sound rest s' c1 c2 (c3.trail.subset hpt) hrest
      exact ⟨d1, d2, c3.trans d3, d4⟩
    | false =>
      simp only
      obtain ⟨c, hc, hpc, hf⟩ := c4 rfl
      refine ⟨?_, c2.of_eq rfl rfl rfl rfl rfl rfl, c3.trans (StepS.of_same rfl rfl rfl rfl rfl rfl rfl rfl rfl), ?_⟩
      · apply c1.setWatchesQ _ [] (fun x hx => by cases hx)
        intro i id' hid'
        rw [getD_set] at hid'
        split at hid'
        · rename_i hi
          rcases List.mem_append.1 hid' with h | h
          · exact c1.w i id' (hi.1 ▸ h)
          · obtain ⟨d, hd, hpd⟩ := hrest id' h
            exact ⟨d, hd, p.neg, hpd, by rw [Lit.neg_neg]; exact hi.1⟩
        · exact c1.w i id' hid'
      · intro id' e
        simp only [Option.some.injEq] at e; subst e
        exact ⟨trivial, c, hc, hpc, hf⟩

end Sat
end Oratio
