/-
C07N: soundness of the interval evaluation `Lra.lbLin` / `Lra.ubLin` in the ε-RATIONAL semantics of
`Lra.BoundsJust` (valuations `(σr x, σi x)` compared lexicographically with the bounds `(q, k)`); port of
Lemmas/LraRelSemIval.lean (which is for rational valuations `(σ x, 0)`).
-/
import OratioModel
import OratioProofs.Lemmas.LraRelSemIval
import OratioProofs.Lemmas.LraExplArith
import OratioProofs.Lemmas.LraReachDefs

namespace Oratio
namespace Lra

/-- `b ≤ (y, y')`: `(q, k) ≤ (y, y')` lexicographically; `-∞` is below everything -/
def PBelow (b : IR) (y y' : Rat) : Prop :=
  b.rat = R.ninf ∨ (b.rat.den ≠ 0 ∧ (b.rat.toRat < y ∨ (b.rat.toRat = y ∧ b.inf.toRat ≤ y')))

/-- `(y, y') ≤ b` -/
def PAbove (b : IR) (y y' : Rat) : Prop :=
  b.rat = R.pinf ∨ (b.rat.den ≠ 0 ∧ (y < b.rat.toRat ∨ (y = b.rat.toRat ∧ y' ≤ b.inf.toRat)))

/-- the valuation lies within the bounds of every existing variable -/
def InBoundsP (t : Lra) (σr σi : Nat → Rat) : Prop :=
  ∀ x, x < t.vals.length → PBelow (t.lb x) (σr x) (σi x) ∧ PAbove (t.ub x) (σr x) (σi x)

theorem mulP_low_pos {b : IR} {c : R} (hb : LowOK b) (hc : R.FinWF c) (hp : 0 < c.num) :
    LowOK (IR.mulR b c) ∧ ∀ y y', PBelow b y y' → PBelow (IR.mulR b c) (c.toRat * y) (c.toRat * y') := by
  have hcp : 0 < c.toRat := (R.toRat_pos_iff hc).mpr hp
  obtain ⟨hbi, hbr⟩ := hb
  obtain ⟨hi1, hi2⟩ := R.mul_fin hbi hc
  rcases hbr with hbr | hbr
  · obtain ⟨hr1, hr2⟩ := R.mul_fin hbr hc
    refine ⟨⟨hi1, Or.inl hr1⟩, fun y y' hy => ?_⟩
    rcases hy with hy | ⟨_, hy⟩
    · exact absurd (by rw [hy]; rfl) hbr.2
    · refine Or.inr ⟨hr1.2, ?_⟩
      show (R.mul b.rat c).toRat < c.toRat * y ∨
        ((R.mul b.rat c).toRat = c.toRat * y ∧ (R.mul b.inf c).toRat ≤ c.toRat * y')
      rw [hr2, hi2]
      rcases hy with hy | ⟨hy1, hy2⟩
      · left; nlinarith
      · right; rw [hy1]; exact ⟨mul_comm _ _, by nlinarith⟩
  · have e : R.mul b.rat c = R.ninf := by rw [hbr]; exact mul_ninf_pos hc.1 hp
    exact ⟨⟨hi1, Or.inr e⟩, fun y y' _ => Or.inl e⟩

theorem mulP_up_neg {b : IR} {c : R} (hb : UpOK b) (hc : R.FinWF c) (hn : c.num < 0) :
    LowOK (IR.mulR b c) ∧ ∀ y y', PAbove b y y' → PBelow (IR.mulR b c) (c.toRat * y) (c.toRat * y') := by
  have hcp : c.toRat < 0 := (R.toRat_neg_iff hc).mpr hn
  obtain ⟨hbi, hbr⟩ := hb
  obtain ⟨hi1, hi2⟩ := R.mul_fin hbi hc
  rcases hbr with hbr | hbr
  · obtain ⟨hr1, hr2⟩ := R.mul_fin hbr hc
    refine ⟨⟨hi1, Or.inl hr1⟩, fun y y' hy => ?_⟩
    rcases hy with hy | ⟨_, hy⟩
    · exact absurd (by rw [hy]; rfl) hbr.2
    · refine Or.inr ⟨hr1.2, ?_⟩
      show (R.mul b.rat c).toRat < c.toRat * y ∨
        ((R.mul b.rat c).toRat = c.toRat * y ∧ (R.mul b.inf c).toRat ≤ c.toRat * y')
      rw [hr2, hi2]
      rcases hy with hy | ⟨hy1, hy2⟩
      · left; nlinarith
      · right; rw [hy1]; exact ⟨mul_comm _ _, by nlinarith⟩
  · have e : R.mul b.rat c = R.ninf := by rw [hbr]; exact mul_pinf_neg hc.1 hn
    exact ⟨⟨hi1, Or.inr e⟩, fun y y' _ => Or.inl e⟩

theorem mulP_up_pos {b : IR} {c : R} (hb : UpOK b) (hc : R.FinWF c) (hp : 0 < c.num) :
    UpOK (IR.mulR b c) ∧ ∀ y y', PAbove b y y' → PAbove (IR.mulR b c) (c.toRat * y) (c.toRat * y') := by
  have hcp : 0 < c.toRat := (R.toRat_pos_iff hc).mpr hp
  obtain ⟨hbi, hbr⟩ := hb
  obtain ⟨hi1, hi2⟩ := R.mul_fin hbi hc
  rcases hbr with hbr | hbr
  · obtain ⟨hr1, hr2⟩ := R.mul_fin hbr hc
    refine ⟨⟨hi1, Or.inl hr1⟩, fun y y' hy => ?_⟩
    rcases hy with hy | ⟨_, hy⟩
    · exact absurd (by rw [hy]; rfl) hbr.2
    · refine Or.inr ⟨hr1.2, ?_⟩
      show c.toRat * y < (R.mul b.rat c).toRat ∨
        (c.toRat * y = (R.mul b.rat c).toRat ∧ c.toRat * y' ≤ (R.mul b.inf c).toRat)
      rw [hr2, hi2]
      rcases hy with hy | ⟨hy1, hy2⟩
      · left; nlinarith
      · right; rw [hy1]; exact ⟨mul_comm _ _, by nlinarith⟩
  · have e : R.mul b.rat c = R.pinf := by rw [hbr]; exact mul_pinf_pos hc.1 hp
    exact ⟨⟨hi1, Or.inr e⟩, fun y y' _ => Or.inl e⟩

theorem mulP_low_neg {b : IR} {c : R} (hb : LowOK b) (hc : R.FinWF c) (hn : c.num < 0) :
    UpOK (IR.mulR b c) ∧ ∀ y y', PBelow b y y' → PAbove (IR.mulR b c) (c.toRat * y) (c.toRat * y') := by
  have hcp : c.toRat < 0 := (R.toRat_neg_iff hc).mpr hn
  obtain ⟨hbi, hbr⟩ := hb
  obtain ⟨hi1, hi2⟩ := R.mul_fin hbi hc
  rcases hbr with hbr | hbr
  · obtain ⟨hr1, hr2⟩ := R.mul_fin hbr hc
    refine ⟨⟨hi1, Or.inl hr1⟩, fun y y' hy => ?_⟩
    rcases hy with hy | ⟨_, hy⟩
    · exact absurd (by rw [hy]; rfl) hbr.2
    · refine Or.inr ⟨hr1.2, ?_⟩
      show c.toRat * y < (R.mul b.rat c).toRat ∨
        (c.toRat * y = (R.mul b.rat c).toRat ∧ c.toRat * y' ≤ (R.mul b.inf c).toRat)
      rw [hr2, hi2]
      rcases hy with hy | ⟨hy1, hy2⟩
      · left; nlinarith
      · right; rw [hy1]; exact ⟨mul_comm _ _, by nlinarith⟩
  · have e : R.mul b.rat c = R.pinf := by rw [hbr]; exact mul_ninf_neg hc.1 hn
    exact ⟨⟨hi1, Or.inr e⟩, fun y y' _ => Or.inl e⟩

theorem addP_low {a b : IR} (ha : LowOK a) (hb : LowOK b) :
    LowOK (IR.addAssign a b) ∧
      ∀ y y' z z', PBelow a y y' → PBelow b z z' → PBelow (IR.addAssign a b) (y + z) (y' + z') := by
  obtain ⟨hai, har⟩ := ha
  obtain ⟨hbi, hbr⟩ := hb
  have hi : R.FinWF (R.addAssign a.inf b.inf) := R.finWF_addAssign hai hbi
  have hiv := R.toRat_addAssign hai hbi
  rcases hbr with hbr | hbr
  · rcases har with har | har
    · have hr : R.FinWF (R.addAssign a.rat b.rat) := R.finWF_addAssign har hbr
      have hrv := R.toRat_addAssign har hbr
      refine ⟨⟨hi, Or.inl hr⟩, fun y y' z z' hy hz => ?_⟩
      rcases hy with hy | ⟨_, hy⟩
      · exact absurd (by rw [hy]; rfl) har.2
      rcases hz with hz | ⟨_, hz⟩
      · exact absurd (by rw [hz]; rfl) hbr.2
      refine Or.inr ⟨hr.2, ?_⟩
      show (R.addAssign a.rat b.rat).toRat < y + z ∨
        ((R.addAssign a.rat b.rat).toRat = y + z ∧ (R.addAssign a.inf b.inf).toRat ≤ y' + z')
      rw [hrv, hiv]
      rcases hy with hy | ⟨hy1, hy2⟩ <;> rcases hz with hz | ⟨hz1, hz2⟩
      · left; linarith
      · left; linarith
      · left; linarith
      · right; exact ⟨by rw [hy1, hz1], by linarith⟩
    · have e : R.addAssign a.rat b.rat = R.ninf := by
        rw [R.addAssign_eq_add, har]; exact add_ninf_fin hbr.2
      exact ⟨⟨hi, Or.inr e⟩, fun _ _ _ _ _ _ => Or.inl e⟩
  · have e : R.addAssign a.rat b.rat = R.ninf := by
      rw [R.addAssign_eq_add, hbr]; exact add_inf_right _ rfl
    exact ⟨⟨hi, Or.inr e⟩, fun _ _ _ _ _ _ => Or.inl e⟩

theorem addP_up {a b : IR} (ha : UpOK a) (hb : UpOK b) :
    UpOK (IR.addAssign a b) ∧
      ∀ y y' z z', PAbove a y y' → PAbove b z z' → PAbove (IR.addAssign a b) (y + z) (y' + z') := by
  obtain ⟨hai, har⟩ := ha
  obtain ⟨hbi, hbr⟩ := hb
  have hi : R.FinWF (R.addAssign a.inf b.inf) := R.finWF_addAssign hai hbi
  have hiv := R.toRat_addAssign hai hbi
  rcases hbr with hbr | hbr
  · rcases har with har | har
    · have hr : R.FinWF (R.addAssign a.rat b.rat) := R.finWF_addAssign har hbr
      have hrv := R.toRat_addAssign har hbr
      refine ⟨⟨hi, Or.inl hr⟩, fun y y' z z' hy hz => ?_⟩
      rcases hy with hy | ⟨_, hy⟩
      · exact absurd (by rw [hy]; rfl) har.2
      rcases hz with hz | ⟨_, hz⟩
      · exact absurd (by rw [hz]; rfl) hbr.2
      refine Or.inr ⟨hr.2, ?_⟩
      show y + z < (R.addAssign a.rat b.rat).toRat ∨
        (y + z = (R.addAssign a.rat b.rat).toRat ∧ y' + z' ≤ (R.addAssign a.inf b.inf).toRat)
      rw [hrv, hiv]
      rcases hy with hy | ⟨hy1, hy2⟩ <;> rcases hz with hz | ⟨hz1, hz2⟩
      · left; linarith
      · left; linarith
      · left; linarith
      · right; exact ⟨by rw [hy1, hz1], by linarith⟩
    · have e : R.addAssign a.rat b.rat = R.pinf := by
        rw [R.addAssign_eq_add, har]; exact add_pinf_fin hbr.2
      exact ⟨⟨hi, Or.inr e⟩, fun _ _ _ _ _ _ => Or.inl e⟩
  · have e : R.addAssign a.rat b.rat = R.pinf := by
      rw [R.addAssign_eq_add, hbr]; exact add_inf_right _ rfl
    exact ⟨⟨hi, Or.inr e⟩, fun _ _ _ _ _ _ => Or.inl e⟩

theorem termP_low {t : Lra} (hb : BndWF t) {e : Nat × R} (hc : R.FinWF e.2) (hz : e.2.num ≠ 0)
    (hv : e.1 < t.vals.length) :
    LowOK (IR.mulR (if e.2.isPositive then t.lb e.1 else t.ub e.1) e.2) ∧
      ∀ σr σi, InBoundsP t σr σi →
        PBelow (IR.mulR (if e.2.isPositive then t.lb e.1 else t.ub e.1) e.2) (e.2.toRat * σr e.1) (e.2.toRat * σi e.1) := by
  by_cases hp : e.2.isPositive = true
  · rw [if_pos hp]
    obtain ⟨h1, h2⟩ := mulP_low_pos (hb e.1 hv).1 hc (pos_of_isPositive hp)
    exact ⟨h1, fun σr σi hσ => h2 _ _ (hσ e.1 hv).1⟩
  · rw [if_neg hp]
    obtain ⟨h1, h2⟩ := mulP_up_neg (hb e.1 hv).2 hc (neg_of_not_isPositive hz hp)
    exact ⟨h1, fun σr σi hσ => h2 _ _ (hσ e.1 hv).2⟩

theorem termP_up {t : Lra} (hb : BndWF t) {e : Nat × R} (hc : R.FinWF e.2) (hz : e.2.num ≠ 0)
    (hv : e.1 < t.vals.length) :
    UpOK (IR.mulR (if e.2.isPositive then t.ub e.1 else t.lb e.1) e.2) ∧
      ∀ σr σi, InBoundsP t σr σi →
        PAbove (IR.mulR (if e.2.isPositive then t.ub e.1 else t.lb e.1) e.2) (e.2.toRat * σr e.1) (e.2.toRat * σi e.1) := by
  by_cases hp : e.2.isPositive = true
  · rw [if_pos hp]
    obtain ⟨h1, h2⟩ := mulP_up_pos (hb e.1 hv).2 hc (pos_of_isPositive hp)
    exact ⟨h1, fun σr σi hσ => h2 _ _ (hσ e.1 hv).2⟩
  · rw [if_neg hp]
    obtain ⟨h1, h2⟩ := mulP_low_neg (hb e.1 hv).1 hc (neg_of_not_isPositive hz hp)
    exact ⟨h1, fun σr σi hσ => h2 _ _ (hσ e.1 hv).1⟩

theorem foldP_low {t : Lra} (hb : BndWF t) : ∀ (vs : List (Nat × R)) (acc : IR),
    Lin.CoefWF vs → (∀ p ∈ vs, p.2.num ≠ 0) → (∀ p ∈ vs, p.1 < t.vals.length) → LowOK acc →
    LowOK (vs.foldl (fun b e => IR.addAssign b
        (IR.mulR (if e.2.isPositive then t.lb e.1 else t.ub e.1) e.2)) acc) ∧
      ∀ σr σi, InBoundsP t σr σi → ∀ s s', PBelow acc s s' →
        PBelow (vs.foldl (fun b e => IR.addAssign b
          (IR.mulR (if e.2.isPositive then t.lb e.1 else t.ub e.1) e.2)) acc)
          (s + Lin.sumS σr vs) (s' + Lin.sumS σi vs)
  | [], acc, _, _, _, ha => by
    refine ⟨ha, fun σr σi _ s s' hs => ?_⟩
    rw [Lin.sumS_nil, Lin.sumS_nil, add_zero, add_zero]; exact hs
  | e :: vs, acc, hw, hz, hv, ha => by
    obtain ⟨k, c⟩ := e
    obtain ⟨hw1, hw2⟩ := Lin.coefWF_cons.mp hw
    obtain ⟨t1, t2⟩ := termP_low hb (e := (k, c)) hw1 (hz _ List.mem_cons_self)
      (hv _ List.mem_cons_self)
    obtain ⟨a1, a2⟩ := addP_low ha t1
    obtain ⟨r1, r2⟩ := foldP_low hb vs _ hw2 (fun p hp => hz p (List.mem_cons_of_mem _ hp))
      (fun p hp => hv p (List.mem_cons_of_mem _ hp)) a1
    rw [List.foldl_cons]
    refine ⟨r1, fun σr σi hσ s s' hs => ?_⟩
    have := r2 σr σi hσ _ _ (a2 _ _ _ _ hs (t2 σr σi hσ))
    rw [Lin.sumS_cons, Lin.sumS_cons, ← add_assoc, ← add_assoc]; exact this

theorem foldP_up {t : Lra} (hb : BndWF t) : ∀ (vs : List (Nat × R)) (acc : IR),
    Lin.CoefWF vs → (∀ p ∈ vs, p.2.num ≠ 0) → (∀ p ∈ vs, p.1 < t.vals.length) → UpOK acc →
    UpOK (vs.foldl (fun b e => IR.addAssign b
        (IR.mulR (if e.2.isPositive then t.ub e.1 else t.lb e.1) e.2)) acc) ∧
      ∀ σr σi, InBoundsP t σr σi → ∀ s s', PAbove acc s s' →
        PAbove (vs.foldl (fun b e => IR.addAssign b
          (IR.mulR (if e.2.isPositive then t.ub e.1 else t.lb e.1) e.2)) acc)
          (s + Lin.sumS σr vs) (s' + Lin.sumS σi vs)
  | [], acc, _, _, _, ha => by
    refine ⟨ha, fun σr σi _ s s' hs => ?_⟩
    rw [Lin.sumS_nil, Lin.sumS_nil, add_zero, add_zero]; exact hs
  | e :: vs, acc, hw, hz, hv, ha => by
    obtain ⟨k, c⟩ := e
    obtain ⟨hw1, hw2⟩ := Lin.coefWF_cons.mp hw
    obtain ⟨t1, t2⟩ := termP_up hb (e := (k, c)) hw1 (hz _ List.mem_cons_self)
      (hv _ List.mem_cons_self)
    obtain ⟨a1, a2⟩ := addP_up ha t1
    obtain ⟨r1, r2⟩ := foldP_up hb vs _ hw2 (fun p hp => hz p (List.mem_cons_of_mem _ hp))
      (fun p hp => hv p (List.mem_cons_of_mem _ hp)) a1
    rw [List.foldl_cons]
    refine ⟨r1, fun σr σi hσ s s' hs => ?_⟩
    have := r2 σr σi hσ _ _ (a2 _ _ _ _ hs (t2 σr σi hσ))
    rw [Lin.sumS_cons, Lin.sumS_cons, ← add_assoc, ← add_assoc]; exact this

theorem ofR_lowP {k : R} (hk : R.FinWF k) : PBelow (IR.ofR k) k.toRat 0 :=
  Or.inr ⟨hk.2, Or.inr ⟨rfl, by
    show R.zero.toRat ≤ 0
    rw [R.toRat_zero]⟩⟩

theorem ofR_upP {k : R} (hk : R.FinWF k) : PAbove (IR.ofR k) k.toRat 0 :=
  Or.inr ⟨hk.2, Or.inr ⟨rfl, by
    show 0 ≤ R.zero.toRat
    rw [R.toRat_zero]⟩⟩

/-- **`lb(lin)` is below the value of the expression** in the ε-rational semantics: the rational parts
    evaluate the expression, the infinitesimal parts evaluate it without its known term -/
theorem lbLin_belowP {t : Lra} (hb : BndWF t) {l : Lin} (hl : l.WF) (hnz : NoZero l)
    (hlv : ∀ p ∈ l.vars, p.1 < t.vals.length) {σr σi : Nat → Rat} (hσ : InBoundsP t σr σi) :
    PBelow (t.lbLin l) (Lin.evalS l σr) (Lin.evalS { l with known := R.zero } σi) := by
  obtain ⟨_, hw, hk⟩ := (Lin.wf_iff l).mp hl
  have := (foldP_low hb l.vars _ hw hnz hlv (ofR_low hk).1).2 σr σi hσ _ _ (ofR_lowP hk)
  rw [Lin.evalS_eq, Lin.evalS_eq, add_comm (Lin.sumS σr l.vars), add_comm (Lin.sumS σi _)]
  show PBelow (t.lbLin l) (l.known.toRat + Lin.sumS σr l.vars) (R.zero.toRat + Lin.sumS σi l.vars)
  rw [R.toRat_zero]; exact this

theorem ubLin_aboveP {t : Lra} (hb : BndWF t) {l : Lin} (hl : l.WF) (hnz : NoZero l)
    (hlv : ∀ p ∈ l.vars, p.1 < t.vals.length) {σr σi : Nat → Rat} (hσ : InBoundsP t σr σi) :
    PAbove (t.ubLin l) (Lin.evalS l σr) (Lin.evalS { l with known := R.zero } σi) := by
  obtain ⟨_, hw, hk⟩ := (Lin.wf_iff l).mp hl
  have := (foldP_up hb l.vars _ hw hnz hlv (ofR_up hk).1).2 σr σi hσ _ _ (ofR_upP hk)
  rw [Lin.evalS_eq, Lin.evalS_eq, add_comm (Lin.sumS σr l.vars), add_comm (Lin.sumS σi _)]
  show PAbove (t.ubLin l) (l.known.toRat + Lin.sumS σr l.vars) (R.zero.toRat + Lin.sumS σi l.vars)
  rw [R.toRat_zero]; exact this

/-! ### the bridge to `BLe` / `VLe` of C09X and to the bound invariant of C09R -/

theorem lowOK_of_lowerOK {b : IR} (h : LowerOK b) : LowOK b := by
  obtain ⟨h1, h2, h3⟩ := h
  refine ⟨h3, ?_⟩
  by_cases hd : b.rat.den = 0
  · rcases R.wf_inf h1 hd with e | e
    · exact absurd e h2
    · exact Or.inr e
  · exact Or.inl ⟨h1, hd⟩

theorem upOK_of_upperOK {b : IR} (h : UpperOK b) : UpOK b := by
  obtain ⟨h1, h2, h3⟩ := h
  refine ⟨h3, ?_⟩
  by_cases hd : b.rat.den = 0
  · rcases R.wf_inf h1 hd with e | e
    · exact Or.inr e
    · exact absurd e h2
  · exact Or.inl ⟨h1, hd⟩

theorem bndWF_of_good {t : Lra} (g : GoodState t) : BndWF t :=
  fun x hx => ⟨lowOK_of_lowerOK (g.bwf x hx).1, upOK_of_upperOK (g.bwf x hx).2.1⟩

theorem pbelow_of_ble {b : IR} (hb : LowOK b) {y y' : Rat} (h : BLe b (toLex (y, y'))) : PBelow b y y' := by
  rcases hb.2 with hf | hn
  · unfold BLe at h
    rw [if_neg hf.2] at h
    exact Or.inr ⟨hf.2, (QV.le_iff _ _ _ _).1 h⟩
  · exact Or.inl hn

theorem pabove_of_vle {b : IR} (hb : UpOK b) {y y' : Rat} (h : VLe (toLex (y, y')) b) : PAbove b y y' := by
  rcases hb.2 with hf | hn
  · unfold VLe at h
    rw [if_neg hf.2] at h
    exact Or.inr ⟨hf.2, (QV.le_iff _ _ _ _).1 h⟩
  · exact Or.inl hn

theorem ble_of_pbelow {b : IR} {y y' : Rat} (h : PBelow b y y') : BLe b (toLex (y, y')) := by
  rcases h with h | ⟨hd, h⟩
  · exact BLe.ninf h
  · unfold BLe
    rw [if_neg hd]
    exact (QV.le_iff _ _ _ _).2 h

theorem vle_of_pabove {b : IR} {y y' : Rat} (h : PAbove b y y') : VLe (toLex (y, y')) b := by
  rcases h with h | ⟨hd, h⟩
  · exact VLe.pinf h
  · unfold VLe
    rw [if_neg hd]
    exact (QV.le_iff _ _ _ _).2 h

/-- **soundness of the interval evaluation in the semantics of `BoundsJust`**: if the ε-rational valuation
    `(σr, σi)` is within the bounds of every existing variable, then `lb(lin) ≤ value of lin ≤ ub(lin)`, the value
    being `(lin(σr), lin₀(σi))` (`lin₀` = `lin` without its known term) -/
theorem interval_eps {t : Lra} (g : GoodState t) {l : Lin} (hl : LinOK t l) {σr σi : Nat → Rat}
    (h : ∀ x, x < t.vals.length → BLe (t.lb x) (nu σr σi x) ∧ VLe (nu σr σi x) (t.ub x)) :
    BLe (t.lbLin l) (toLex (Lin.evalS l σr, Lin.evalS { l with known := R.zero } σi)) ∧
    VLe (toLex (Lin.evalS l σr, Lin.evalS { l with known := R.zero } σi)) (t.ubLin l) := by
  have hb := bndWF_of_good g
  have hin : InBoundsP t σr σi := fun x hx =>
    ⟨pbelow_of_ble (hb x hx).1 (h x hx).1, pabove_of_vle (hb x hx).2 (h x hx).2⟩
  exact ⟨ble_of_pbelow (lbLin_belowP hb hl.1 (fun p hp => (hl.2 p hp).2) (fun p hp => (hl.2 p hp).1) hin),
    vle_of_pabove (ubLin_aboveP hb hl.1 (fun p hp => (hl.2 p hp).2) (fun p hp => (hl.2 p hp).1) hin)⟩

end Lra
end Oratio
