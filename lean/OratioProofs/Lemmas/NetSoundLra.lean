/-
C07N, linear arithmetic: `propagate(lit)` and `check()` under `Net.LraBase` (instances of C09X).
-/
import OratioProofs.Lemmas.NetSoundDefs

namespace Oratio
namespace Net
open Lra

/-! ### `propagate(lit)`: the obligation of the bound assertion is discharged by `AsrtAgrees` whatever
    the value of the literal under `α` (variant of `Lra.propagateLit_valid` without `α.lit p = true`) -/

theorem propagateLit_valid' {t : Lra} (inv : ExplInv t) (hkey : AsrtKey t) (hvars : AsrtVars t) (s : Sat) (p : Lit)
    (hsp : s.value p = some true) {α : Asg} {σr σi : Nat → Rat}
    (hs : Solves t σr σi) (hj : BoundsJust α σr σi t) (ha : AsrtAgrees α σr σi t) :
    OutOK (Tr α) s ((propagateLit s t p).cnfl, (propagateLit s t p).sat) ∧
    BoundsJust α σr σi (propagateLit s t p).th := by
  unfold propagateLit
  cases hab : t.asrtOf p.var with
  | none => exact ⟨okN α s, hj⟩
  | some a =>
    have hm := asrtOf_mem hab
    have hb : a.b = ⟨p.var, true⟩ := hkey _ hm
    have hfin : IR.Fin a.v := inv.aok _ hm
    have hxi : ubIdx a.x < t.bounds.length := asrt_inrange inv.blen hvars hm
    have hsv : s.value a.b = some p.sign := by rw [hb]; exact value_of_var hsp
    have hαb : α.lit p = true → α.lit a.b = p.sign := fun hαp => by rw [hb]; exact alpha_of_var hαp
    have hag := ha _ hm
    simp only [hsv]
    cases hsg : p.sign
    · rw [hsg] at hαb
      simp only
      cases ho : a.o
      · simp only [ho] at hag
        rw [if_pos rfl]
        obtain ⟨f1, f2⟩ := IR.fin_add_eps hfin
        have := assertLower_valid inv s p f1 hxi hs hj ha (fun hp => by rw [f2]; exact hag.2 (hαb hp))
        exact ⟨this.1, this.2.1⟩
      · simp only [ho] at hag
        rw [if_neg (by intro h; cases h)]
        obtain ⟨f1, f2⟩ := IR.fin_sub_eps hfin
        have := assertUpper_valid inv s p f1 hxi hs hj ha (fun hp => by rw [f2]; exact hag.2 (hαb hp))
        exact ⟨this.1, this.2.1⟩
    · rw [hsg] at hαb
      simp only
      cases ho : a.o
      · simp only [ho] at hag
        rw [if_pos rfl]
        have := assertUpper_valid inv s p hfin hxi hs hj ha (fun hp => hag.1 (hαb hp))
        exact ⟨this.1, this.2.1⟩
      · simp only [ho] at hag
        rw [if_neg (by intro h; cases h)]
        have := assertLower_valid inv s p hfin hxi hs hj ha (fun hp => hag.1 (hαb hp))
        exact ⟨this.1, this.2.1⟩

theorem assertLower_tableau (s : Sat) (t : Lra) (xi : Nat) (val : IR) (p : Lit) :
    (assertLower s t xi val p).th.tableau = t.tableau := by
  rcases assertLower_th s t xi val p with e | e <;> rw [e]
  exact (boundSet_al t xi val p).tableau

theorem assertUpper_tableau (s : Sat) (t : Lra) (xi : Nat) (val : IR) (p : Lit) :
    (assertUpper s t xi val p).th.tableau = t.tableau := by
  rcases assertUpper_th s t xi val p with e | e <;> rw [e]
  exact (boundSet_au t xi val p).tableau

theorem propagateLit_tableau (s : Sat) (t : Lra) (p : Lit) : (propagateLit s t p).th.tableau = t.tableau := by
  unfold propagateLit
  cases hab : t.asrtOf p.var with
  | none => rfl
  | some a =>
    simp only
    rcases hsv : s.value a.b with _ | _ | _
    · rfl
    · simp only
      split
      · exact assertLower_tableau _ _ _ _ _
      · exact assertUpper_tableau _ _ _ _ _
    · simp only
      split
      · exact assertUpper_tableau _ _ _ _ _
      · exact assertLower_tableau _ _ _ _ _

theorem solves_congr {t u : Lra} (h : u.tableau = t.tableau) (σr σi : Nat → Rat) : Solves u σr σi ↔ Solves t σr σi := by
  unfold Solves; rw [h]

theorem asrtAgrees_congr {t u : Lra} (h : u.vAsrts = t.vAsrts) (α : Asg) (σr σi : Nat → Rat) :
    AsrtAgrees α σr σi u ↔ AsrtAgrees α σr σi t := by
  unfold AsrtAgrees; rw [h]

theorem LraSame.refl (t : Lra) : LraSame t t := ⟨fun _ _ => Iff.rfl, rfl, rfl⟩

theorem LraSame.trans {a b c : Lra} (h1 : LraSame a b) (h2 : LraSame b c) : LraSame a c :=
  ⟨fun σr σi => (h1.1 σr σi).trans (h2.1 σr σi), h2.2.1.trans h1.2.1, h2.2.2.trans h1.2.2⟩

theorem LraSame.of_eq {t u : Lra} (h1 : u.tableau = t.tableau) (h2 : u.vAsrts = t.vAsrts)
    (h3 : u.vals.length = t.vals.length) : LraSame t u :=
  ⟨fun σr σi => (solves_congr h1 σr σi).symm, h2, h3⟩

theorem LraJ.same {orig : Cnf} {t u : Lra} (h : LraJ orig t) (hs : LraSame t u)
    (hb : ∀ α σr σi, BoundsJust α σr σi t → BoundsJust α σr σi u) : LraJ orig u := by
  intro α σr σi h0 ho hsol hag
  exact hb α σr σi (h α σr σi h0 ho ((hs.1 σr σi).2 hsol) ((asrtAgrees_congr hs.2.1 α σr σi).1 hag))

/-- one call of `propagate(p)` for a literal true in the SAT core -/
theorem lra_propagate {orig : Cnf} {s : Sat} {t : Lra} (h : LraBase orig s t) (p : Lit) (hp : s.value p = some true) :
    LraBase orig (propagateLit s t p).sat (propagateLit s t p).th ∧
    Dl.SatLe s (propagateLit s t p).sat ∧ LraSame t (propagateLit s t p).th ∧
    (∀ B, C09PopInv B t → C09PopInv B (propagateLit s t p).th) ∧
    (∀ c, (propagateLit s t p).cnfl = some c → ∀ l ∈ c, (propagateLit s t p).sat.value l = some false) ∧
    (∀ (α : Asg) (σr σi : Nat → Rat), α 0 = false → α.cnf orig = true → Solves t σr σi → AsrtAgrees α σr σi t →
      (∀ c, (propagateLit s t p).cnfl = some c → α.clause c = true) ∧
      (∀ c ∈ (propagateLit s t p).sat.log, c ∈ s.log ∨ α.clause c = true)) := by
  obtain ⟨f1, f2⟩ := propagateLit_F h.reasons hp
  have hreg := propagateLit_registry s t p
  have hsame : LraSame t (propagateLit s t p).th := LraSame.of_eq (propagateLit_tableau s t p) hreg.1 hreg.2
  have hinv := explInv_propagateLit h.inv h.vars s p
  refine ⟨⟨hinv, valsOK_propagateLit h.inv.tab h.vals h.inv.aok h.vars s p, ?_, ?_, ?_, f2⟩, f1.1, hsame, ?_, f1.2, ?_⟩
  · intro e he; rw [hreg.1] at he; exact h.key e he
  · intro e he; rw [hreg.1] at he; rw [hreg.2]; exact h.vars e he
  · intro α σr σi h0 ho hsol hag
    have hs := (hsame.1 σr σi).2 hsol
    have ha := (asrtAgrees_congr hreg.1 α σr σi).1 hag
    exact (propagateLit_valid' h.inv h.key h.vars s p hp hs (h.just α σr σi h0 ho hs ha) ha).2
  · intro B hB
    apply popInv_propagateLit hB _ s p
    intro e he
    have := asrt_inrange h.inv.blen h.vars he
    obtain ⟨l, _, hlen, _⟩ := hB
    omega
  · intro α σr σi h0 ho hs ha
    have hj := h.just α σr σi h0 ho hs ha
    obtain ⟨⟨v1, new, v2, v3⟩, _⟩ := propagateLit_valid' h.inv h.key h.vars s p hp hs hj ha
    refine ⟨v1, fun c hc => ?_⟩
    simp only at v2
    rw [v2] at hc
    rcases List.mem_append.1 hc with hc | hc
    · exact Or.inl hc
    · exact Or.inr (v3 c hc)

/-! ### `check()` -/

theorem mem_foldl_reasons (t : Lra) (f g : Nat → Lit) (hf : ∀ x, ∃ y, f x = (t.lbReason y).neg ∨ f x = (t.ubReason y).neg)
    (hg : ∀ x, ∃ y, g x = (t.lbReason y).neg ∨ g x = (t.ubReason y).neg) (vars : List (Nat × R)) :
    ∀ l ∈ vars.foldl (fun (c : List Lit) (e : Nat × R) =>
        if e.2.isPositive then c ++ [f e.1] else if e.2.isNegative then c ++ [g e.1] else c) [],
      ∃ y, l = (t.lbReason y).neg ∨ l = (t.ubReason y).neg := by
  refine C09_foldl_inv (fun (c : List Lit) => ∀ l ∈ c, ∃ y, l = (t.lbReason y).neg ∨ l = (t.ubReason y).neg) _ ?_ vars []
    (fun l hl => by cases hl)
  intro c e hc l hl
  split at hl
  · rcases List.mem_append.1 hl with hl | hl
    · exact hc l hl
    · rw [List.mem_singleton.1 hl]; exact hf e.1
  · split at hl
    · rcases List.mem_append.1 hl with hl | hl
      · exact hc l hl
      · rw [List.mem_singleton.1 hl]; exact hg e.1
    · exact hc l hl

/-- every literal of the conflict clause of `check` is the negation of the reason of a bound -/
theorem check_conflict_reasons : ∀ (fuel : Nat) (t t' : Lra) (cl : List Lit), t.check fuel = some (some cl, t') →
    ∀ l ∈ cl, ∃ y, l = (t'.lbReason y).neg ∨ l = (t'.ubReason y).neg := by
  intro fuel
  induction fuel with
  | zero => intro t t' cl h; simp [Lra.check] at h
  | succ n ih =>
    intro t t' cl h
    simp only [Lra.check] at h
    split at h
    · simp at h
    · next xi fl hf =>
      split at h
      · split at h
        · exact ih _ _ _ h
        · simp only [Option.some.injEq, Prod.mk.injEq] at h
          obtain ⟨h1, h2⟩ := h
          subst h1 h2
          intro l hl
          rcases List.mem_append.1 hl with hl | hl
          · exact mem_foldl_reasons t (fun x => (t.ubReason x).neg) (fun x => (t.lbReason x).neg)
              (fun x => ⟨x, Or.inr rfl⟩) (fun x => ⟨x, Or.inl rfl⟩) fl.vars l hl
          · rw [List.mem_singleton.1 hl]; exact ⟨xi, Or.inl rfl⟩
      · split at h
        · split at h
          · exact ih _ _ _ h
          · simp only [Option.some.injEq, Prod.mk.injEq] at h
            obtain ⟨h1, h2⟩ := h
            subst h1 h2
            intro l hl
            rcases List.mem_append.1 hl with hl | hl
            · exact mem_foldl_reasons t (fun x => (t.lbReason x).neg) (fun x => (t.ubReason x).neg)
                (fun x => ⟨x, Or.inl rfl⟩) (fun x => ⟨x, Or.inr rfl⟩) fl.vars l hl
            · rw [List.mem_singleton.1 hl]; exact ⟨xi, Or.inr rfl⟩
        · exact ih _ _ _ h

theorem lra_check {orig : Cnf} {s : Sat} {t t' : Lra} (h : LraBase orig s t) {fuel : Nat} {c : Option (List Lit)}
    (hc : t.check fuel = some (c, t')) :
    LraBase orig s t' ∧ LraSame t t' ∧ (∀ B, C09PopInv B t → C09PopInv B t') ∧
    ∀ cl, c = some cl → (∀ l ∈ cl, s.value l = some false) ∧
      ∀ (α : Asg) (σr σi : Nat → Rat), α 0 = false → α.cnf orig = true → Solves t σr σi → AsrtAgrees α σr σi t →
        α.clause cl = true := by
  have hss := sameSol_check fuel t t' c h.inv.tab hc
  have hcore := (C09_core_iff t t').1 (C09_core_check fuel t t' c hc)
  have hlen := check_vals_length h.inv.tab hc
  have hsame : LraSame t t' := ⟨fun σr σi => hss.solves σr σi, hcore.2.1, hlen⟩
  have hrt : ReasonsTrue s t' := by
    intro x
    rw [lbReason_congr hcore.1, ubReason_congr hcore.1]
    exact h.reasons x
  refine ⟨⟨explInv_check h.inv hc, valsOK_check fuel t t' c h.inv.tab h.inv.bok h.vals hc, ?_, ?_, ?_, hrt⟩, hsame,
    fun B hB => popInv_check hB hc, ?_⟩
  · intro e he; rw [hcore.2.1] at he; exact h.key e he
  · intro e he; rw [hcore.2.1] at he; rw [hlen]; exact h.vars e he
  · exact h.just.same hsame (fun α σr σi hj => boundsJust_congr hcore.1 hj)
  · intro cl hcl
    subst hcl
    refine ⟨fun l hl => ?_, fun α σr σi h0 ho hs ha => ?_⟩
    · obtain ⟨y, hy | hy⟩ := check_conflict_reasons fuel t t' cl hc l hl <;> rw [hy, Sat.value_neg_false]
      · exact (hrt y).1
      · exact (hrt y).2
    · exact check_conflict_valid h.inv.tab h.inv.bok h.inv.blen h.vals hc α σr σi hs (h.just α σr σi h0 ho hs ha)

end Net
end Oratio
