/-
Lemmas on the pulse sweep, part 3: timelines, usage of a reusable resource.
-/
import OratioProofs.Lemmas.SweepInv
import Mathlib.Data.List.Nodup

namespace Oratio.Sweep

/-! ### the timelines -/

theorem svTimeline_spec {as : List TAtom} (hnd : (as.map (·.id)).Nodup)
    (hle : ∀ a ∈ as, tle a.start a.stop = true) (o hz : Time) :
    ∀ s ∈ svTimeline as o hz, tlt s.lo s.hi = true ∧ After as s.atoms s.lo ∧ Gap as s.lo s.hi ∧
      s.atoms.Nodup := by
  intro s hs
  unfold svTimeline at hs
  split at hs
  · cases hs
  · rename_i p0 rest hp
    simp only [svTimeline_fold, List.nil_append] at hs
    have := segs_spec hnd hle _ [o, hz] p0 rest hp s hs
    exact ⟨this.1, this.2.1, this.2.2.1, this.2.2.2.1⟩

theorem rrTimeline_spec {as : List TAtom} (hnd : (as.map (·.id)).Nodup)
    (hle : ∀ a ∈ as, tle a.start a.stop = true) (o hz : Time) :
    ∀ s ∈ rrTimeline as o hz, tlt s.lo s.hi = true ∧ After as s.atoms s.lo ∧ Gap as s.lo s.hi ∧
      s.atoms.Nodup ∧ s.usage = usageOf as s.atoms := by
  intro s hs
  unfold rrTimeline at hs
  split at hs
  · cases hs
  · rename_i p0 rest hp
    simp only [rrTimeline_fold, List.nil_append] at hs
    exact segs_spec hnd hle _ [o, hz] p0 rest hp s hs

/-- membership of an atom (rather than an id) in the set after pulse `p` -/
theorem After.mem_iff {as : List TAtom} (hnd : (as.map (·.id)).Nodup) {cur : List Nat} {p : Time}
    (h : After as cur p) {a : TAtom} (ha : a ∈ as) : a.id ∈ cur ↔ covers a p = true := by
  rw [h a.id]
  constructor
  · rintro ⟨b, hb, hi, hc⟩
    rwa [id_inj hnd hb ha hi] at hc
  · intro hc; exact ⟨a, ha, rfl, hc⟩

/-- in a segment without inner pulse an atom covers the left end iff it spans the segment -/
theorem covers_lo_iff {as : List TAtom} {lo hi : Time} (hg : Gap as lo hi) (hlt : tlt lo hi = true)
    {a : TAtom} (ha : a ∈ as) :
    covers a lo = true ↔ (tle a.start lo = true ∧ tle hi a.stop = true ∧ tlt a.start a.stop = true) := by
  obtain ⟨_, h2⟩ := hg a ha
  constructor
  · intro hc
    refine ⟨by torder, ?_, by torder⟩
    rcases h2 with h2 | h2
    · torder
    · exact h2
  · rintro ⟨h3, h4, _⟩
    exact covers_iff.2 ⟨h3, by torder⟩

/-- all instants of a segment without inner pulse are covered by the same atoms -/
theorem covers_eq_of_gap {as : List TAtom} {lo hi t : Time} (hg : Gap as lo hi)
    (h1 : tle lo t = true) (h2 : tlt t hi = true) {a : TAtom} (ha : a ∈ as) :
    covers a t = covers a lo := by
  obtain ⟨g1, g2⟩ := hg a ha
  rw [Bool.eq_iff_iff]
  constructor
  · intro hc
    refine covers_iff.2 ⟨?_, by torder⟩
    rcases g1 with g1 | g1
    · exact g1
    · torder
  · intro hc
    refine covers_iff.2 ⟨by torder, ?_⟩
    rcases g2 with g2 | g2
    · torder
    · torder

theorem length_le_one_of_nodup : ∀ {l : List Nat}, l.Nodup → (∀ i ∈ l, ∀ j ∈ l, i = j) → l.length ≤ 1
  | [], _, _ => by simp
  | [_], _, _ => by simp
  | x :: y :: t, hn, h => by
    exfalso
    have hxy : x = y := h x List.mem_cons_self y (List.mem_cons_of_mem _ List.mem_cons_self)
    subst hxy
    exact (List.nodup_cons.1 hn).1 List.mem_cons_self

/-! ### peaks of a state variable -/

/-- every pair the sweep reports really overlaps -/
theorem svPeaks_sound {as : List TAtom} (hnd : (as.map (·.id)).Nodup)
    (hle : ∀ a ∈ as, tle a.start a.stop = true) {i j : Nat} (hp : (i, j) ∈ svPeaks as) :
    ∃ a ∈ as, ∃ b ∈ as, a.id = i ∧ b.id = j ∧ i ≠ j ∧ overlaps a b = true := by
  obtain ⟨s, hs, hx⟩ := mem_svPeaks.1 hp
  obtain ⟨hA, hN⟩ := states_spec hnd hle [] s hs
  obtain ⟨hi, hj, hij⟩ := of_mem_pairsOf _ hN hx
  obtain ⟨a, ha, hai, hca⟩ := (hA i).1 hi
  obtain ⟨b, hb, hbj, hcb⟩ := (hA j).1 hj
  exact ⟨a, ha, b, hb, hai, hbj, hij, overlaps_of_covers hca hcb⟩

/-- every overlapping pair is reported (at the later of the two starts) -/
theorem svPeaks_reports {as : List TAtom} (hnd : (as.map (·.id)).Nodup)
    (hle : ∀ a ∈ as, tle a.start a.stop = true) {a b : TAtom} (ha : a ∈ as) (hb : b ∈ as)
    (hab : a.id ≠ b.id) (ho : overlaps a b = true) :
    (a.id, b.id) ∈ svPeaks as ∨ (b.id, a.id) ∈ svPeaks as := by
  obtain ⟨t, ht, hca, hcb⟩ := covers_of_overlaps ho
  have htp : t ∈ pulsesOf as [] := by
    refine mem_pulsesOf.2 (Or.inl ?_)
    rcases ht with rfl | rfl
    · exact ⟨a, ha, Or.inl rfl⟩
    · exact ⟨b, hb, Or.inl rfl⟩
  have : t ∈ (states as [] (pulsesOf as [])).map Prod.fst := by rw [states_map_fst]; exact htp
  obtain ⟨s, hs, hst⟩ := List.mem_map.1 this
  obtain ⟨hA, hN⟩ := states_spec hnd hle [] s hs
  rw [hst] at hA
  have hia : a.id ∈ s.2 := (hA.mem_iff hnd ha).2 hca
  have hib : b.id ∈ s.2 := (hA.mem_iff hnd hb).2 hcb
  rcases mem_pairsOf_of_mem s.2 hia hib hab with h | h
  · exact Or.inl (mem_svPeaks.2 ⟨s, hs, h⟩)
  · exact Or.inr (mem_svPeaks.2 ⟨s, hs, h⟩)

/-! ### usage -/

/-- the amounts of the atoms covering `t`, summed (the body of `usageAt`) -/
def usageSum (as : List TAtom) (t : Time) : Time :=
  (as.filter (fun a => covers a t)).foldl (fun u a => tadd u a.amount) (0, 0)

theorem usageSum_congr {as : List TAtom} {t t' : Time} (h : ∀ a ∈ as, covers a t = covers a t') :
    usageSum as t = usageSum as t' := by
  unfold usageSum
  rw [List.filter_congr h]

theorem usageSum_eq_zero {as : List TAtom} {t : Time} (h : ∀ a ∈ as, covers a t = false) :
    usageSum as t = (0, 0) := by
  unfold usageSum
  rw [List.filter_eq_nil_iff.2 (fun a ha => by simp [h a ha])]
  rfl

theorem usageOf_foldl (as : List TAtom) : ∀ (cur : List Nat) (u0 : Time),
    cur.foldl (fun u i => match as.find? (fun a => a.id == i) with
      | some a => tadd u a.amount
      | none => u) u0
    = (cur.filterMap (fun i => as.find? (fun a => a.id == i))).foldl (fun u a => tadd u a.amount) u0 := by
  intro cur
  induction cur with
  | nil => intro u0; rfl
  | cons i r ih =>
    intro u0
    rw [List.foldl_cons, ih]
    cases h : as.find? (fun a => a.id == i) with
    | none => simp [h]
    | some a => simp [h]

theorem find?_id_eq_some_iff {as : List TAtom} (hnd : (as.map (·.id)).Nodup) {i : Nat} {b : TAtom} :
    as.find? (fun a => a.id == i) = some b ↔ b ∈ as ∧ b.id = i := by
  constructor
  · intro h
    exact ⟨List.mem_of_find?_eq_some h, by simpa using List.find?_some h⟩
  · rintro ⟨hb, hi⟩
    cases h : as.find? (fun a => a.id == i) with
    | none =>
      have := List.find?_eq_none.1 h b hb
      simp [hi] at this
    | some c =>
      have hc : c ∈ as := List.mem_of_find?_eq_some h
      have hci : c.id = i := by simpa using List.find?_some h
      rw [id_inj hnd hc hb (hci.trans hi.symm)]

/-- the usage computed by the sweep after pulse `p` is the sum over the atoms covering `p` -/
theorem usageOf_eq_usageSum {as : List TAtom} (hnd : (as.map (·.id)).Nodup) {cur : List Nat} {p : Time}
    (hA : After as cur p) (hN : cur.Nodup) : usageOf as cur = usageSum as p := by
  unfold usageOf usageSum
  refine (usageOf_foldl as cur (0, 0)).trans ?_
  apply List.Perm.foldl_eq' _ (fun x _ y _ z => tadd_right_comm z x.amount y.amount)
  rw [List.perm_ext_iff_of_nodup]
  · intro b
    simp only [List.mem_filterMap, List.mem_filter, find?_id_eq_some_iff hnd]
    constructor
    · rintro ⟨i, hi, hb, rfl⟩
      exact ⟨hb, (hA.mem_iff hnd hb).1 hi⟩
    · rintro ⟨hb, hc⟩
      exact ⟨b.id, (hA.mem_iff hnd hb).2 hc, hb, rfl⟩
  · refine List.Nodup.filterMap ?_ hN
    intro i i' b hb hb'
    rw [Option.mem_def, find?_id_eq_some_iff hnd] at hb hb'
    exact hb.2.symm.trans hb'.2
  · exact (List.Nodup.of_map _ hnd).filter _

/-! ### peaks of a reusable resource -/

theorem states_of_pulse {as : List TAtom} (hnd : (as.map (·.id)).Nodup)
    (hle : ∀ a ∈ as, tle a.start a.stop = true) {p : Time} (hp : p ∈ pulsesOf as []) :
    ∃ s ∈ states as [] (pulsesOf as []), s.1 = p ∧ After as s.2 p ∧ s.2.Nodup := by
  have : p ∈ (states as [] (pulsesOf as [])).map Prod.fst := by rw [states_map_fst]; exact hp
  obtain ⟨s, hs, hst⟩ := List.mem_map.1 this
  obtain ⟨hA, hN⟩ := states_spec hnd hle [] s hs
  exact ⟨s, hs, hst, hst ▸ hA, hN⟩

/-- a reported peak is a pulse at which the capacity is exceeded -/
theorem peak_exceeds {as : List TAtom} (hnd : (as.map (·.id)).Nodup)
    (hle : ∀ a ∈ as, tle a.start a.stop = true) {cap p : Time} (hp : p ∈ rrPeaks as cap) :
    p ∈ pulsesOf as [] ∧ tlt cap (usageSum as p) = true := by
  obtain ⟨s, hs, hsp, hc⟩ := mem_rrPeaks.1 hp
  obtain ⟨hA, hN⟩ := states_spec hnd hle [] s hs
  rw [usageOf_eq_usageSum hnd hA hN, hsp] at hc
  refine ⟨?_, hc⟩
  rw [← hsp, ← states_map_fst as (pulsesOf as []) []]
  exact List.mem_map.2 ⟨s, hs, rfl⟩

/-- a pulse at which the capacity is exceeded is reported -/
theorem peak_reported {as : List TAtom} (hnd : (as.map (·.id)).Nodup)
    (hle : ∀ a ∈ as, tle a.start a.stop = true) {cap p : Time} (hp : p ∈ pulsesOf as [])
    (hc : tlt cap (usageSum as p) = true) : p ∈ rrPeaks as cap := by
  obtain ⟨s, hs, hsp, hA, hN⟩ := states_of_pulse hnd hle hp
  refine mem_rrPeaks.2 ⟨s, hs, hsp, ?_⟩
  rw [usageOf_eq_usageSum hnd hA hN]; exact hc

theorem exists_greatest_le (ps : List Time) (t : Time) (h : ∃ q ∈ ps, tle q t = true) :
    ∃ p ∈ ps, tle p t = true ∧ ∀ q ∈ ps, tle q p = true ∨ tlt t q = true := by
  induction ps with
  | nil => obtain ⟨q, hq, _⟩ := h; cases hq
  | cons x r ih =>
    by_cases hr : ∃ q ∈ r, tle q t = true
    · obtain ⟨p, hp, hpt, hmax⟩ := ih hr
      by_cases hx : tle x t = true ∧ tlt p x = true
      · refine ⟨x, List.mem_cons_self, hx.1, ?_⟩
        intro q hq
        rcases List.mem_cons.1 hq with rfl | hq
        · left; torder
        · rcases hmax q hq with h1 | h1
          · left; have := hx.2; torder
          · exact Or.inr h1
      · refine ⟨p, List.mem_cons_of_mem _ hp, hpt, ?_⟩
        intro q hq
        rcases List.mem_cons.1 hq with rfl | hq
        · by_cases h1 : tle q t = true
          · left
            have : ¬ tlt p q = true := fun h2 => hx ⟨h1, h2⟩
            torder
          · right; torder
        · exact hmax q hq
    · obtain ⟨q, hq, hqt⟩ := h
      have hxq : q = x := by
        rcases List.mem_cons.1 hq with rfl | hq
        · rfl
        · exact absurd ⟨q, hq, hqt⟩ hr
      subst hxq
      refine ⟨q, List.mem_cons_self, hqt, ?_⟩
      intro q' hq'
      rcases List.mem_cons.1 hq' with rfl | hq'
      · left; torder
      · right
        have : ¬ tle q' t = true := fun h1 => hr ⟨q', hq', h1⟩
        torder

theorem exists_max (ps : List Time) (h : ps ≠ []) : ∃ m ∈ ps, ∀ q ∈ ps, tle q m = true := by
  induction ps with
  | nil => exact absurd rfl h
  | cons x r ih =>
    cases r with
    | nil =>
      refine ⟨x, List.mem_cons_self, ?_⟩
      intro q hq
      have : q = x := by simpa using hq
      subst this; torder
    | cons y r' =>
      obtain ⟨m, hm, hmax⟩ := ih (by simp)
      by_cases hx : tlt m x = true
      · refine ⟨x, List.mem_cons_self, ?_⟩
        intro q hq
        rcases List.mem_cons.1 hq with rfl | hq
        · torder
        · have := hmax q hq; torder
      · refine ⟨m, List.mem_cons_of_mem _ hm, ?_⟩
        intro q hq
        rcases List.mem_cons.1 hq with rfl | hq
        · torder
        · exact hmax q hq

/-- usage is piecewise constant: an instant has the usage of the greatest pulse before it, or no usage -/
theorem usageSum_eq_pulse_or_zero (as : List TAtom) (t : Time) :
    (∃ p ∈ pulsesOf as [], usageSum as t = usageSum as p) ∨ usageSum as t = (0, 0) := by
  by_cases h : ∃ q ∈ pulsesOf as [], tle q t = true
  · left
    obtain ⟨p, hp, hpt, hmax⟩ := exists_greatest_le _ t h
    refine ⟨p, hp, usageSum_congr ?_⟩
    intro a ha
    have h1 := hmax a.start (mem_pulsesOf.2 (Or.inl ⟨a, ha, Or.inl rfl⟩))
    have h2 := hmax a.stop (mem_pulsesOf.2 (Or.inl ⟨a, ha, Or.inr rfl⟩))
    rw [Bool.eq_iff_iff]
    constructor
    · intro hc
      refine covers_iff.2 ⟨?_, by torder⟩
      rcases h1 with h1 | h1
      · exact h1
      · torder
    · intro hc
      refine covers_iff.2 ⟨by torder, ?_⟩
      rcases h2 with h2 | h2
      · torder
      · exact h2
  · right
    apply usageSum_eq_zero
    intro a ha
    have : ¬ tle a.start t = true :=
      fun h1 => h ⟨a.start, mem_pulsesOf.2 (Or.inl ⟨a, ha, Or.inl rfl⟩), h1⟩
    cases hc : covers a t with
    | false => rfl
    | true => exact absurd (covers_iff.1 hc).1 this

/-- when there are atoms the last pulse has no usage -/
theorem exists_pulse_usage_zero {as : List TAtom} (hne : as ≠ []) :
    ∃ p ∈ pulsesOf as [], usageSum as p = (0, 0) := by
  obtain ⟨a0, ha0⟩ := List.exists_mem_of_ne_nil as hne
  have hps : pulsesOf as [] ≠ [] :=
    List.ne_nil_of_mem (mem_pulsesOf.2 (Or.inl ⟨a0, ha0, Or.inl rfl⟩))
  obtain ⟨m, hm, hmax⟩ := exists_max _ hps
  refine ⟨m, hm, usageSum_eq_zero ?_⟩
  intro a ha
  have := hmax a.stop (mem_pulsesOf.2 (Or.inl ⟨a, ha, Or.inr rfl⟩))
  cases hc : covers a m with
  | false => rfl
  | true => exfalso; torder

/-- CORRECTED form of `C05_no_peak_iff_within_capacity`: "no peak at any pulse" is "within capacity at
    every instant" provided there is an atom or the capacity is not negative -/
theorem no_peak_iff_within_capacity {as : List TAtom} (hnd : (as.map (·.id)).Nodup)
    (hle : ∀ a ∈ as, tle a.start a.stop = true) (cap : Time)
    (h0 : as ≠ [] ∨ tle ((0, 0) : Time) cap = true) :
    rrPeaks as cap = [] ↔ ∀ t : Time, tle (usageSum as t) cap = true := by
  constructor
  · intro hnil
    have hpulse : ∀ p ∈ pulsesOf as [], tle (usageSum as p) cap = true := by
      intro p hp
      cases hc : tlt cap (usageSum as p) with
      | false => torder
      | true =>
        have := peak_reported hnd hle hp hc
        rw [hnil] at this; cases this
    have hzero : tle ((0, 0) : Time) cap = true := by
      rcases h0 with h0 | h0
      · obtain ⟨p, hp, hz⟩ := exists_pulse_usage_zero h0
        rw [← hz]; exact hpulse p hp
      · exact h0
    intro t
    rcases usageSum_eq_pulse_or_zero as t with ⟨p, hp, he⟩ | he
    · rw [he]; exact hpulse p hp
    · rw [he]; exact hzero
  · intro hall
    rw [List.eq_nil_iff_forall_not_mem]
    intro p hp
    have h1 := (peak_exceeds hnd hle hp).2
    have h2 := hall p
    torder

/-- the uncorrected statement fails for no atoms and a negative capacity -/
theorem no_peak_iff_within_capacity_counterexample :
    ¬ (rrPeaks [] (-1, 0) = [] ↔ ∀ t : Time, tle (usageSum [] t) (-1, 0) = true) := by
  intro h
  have := h.1 (by decide +kernel) (0, 0)
  revert this
  decide +kernel

end Oratio.Sweep
