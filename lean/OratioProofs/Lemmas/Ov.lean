/-
Lemmas for property C14, part 1: vocabulary (copies of the definitions of
`OratioProofs/Properties/C14.lean`, which imports this file – the copies are definitionally
equal to the originals, stated over the `EncL` vocabulary of the C13 lemma library),
association lists (`lookupVal`, `emplace`), `mkGuards`, preservation of the invariant.
Core Lean only.
-/
import OratioModel.Sat.Ov
import OratioProofs.Lemmas.EncOps
import OratioProofs.Lemmas.EncTop

namespace Oratio
namespace OvL
open Enc EncL

/-! ## vocabulary (same text as in Properties/C14.lean) -/

def Takes (α : Asg) (s : Ov) (v k : Nat) : Prop :=
  (∃ l, Ov.lookupVal (s.dom v) k = some l ∧ α.lit l = true) ∧
  ∀ e ∈ s.dom v, e.1 ≠ k → α.lit e.2 = false

def OneValue (α : Asg) (s : Ov) (v : Nat) : Prop := ∃ k, Takes α s v k

def WF (s : Ov) : Prop :=
  EncL.Inv s.enc ∧
  (∀ d ∈ s.doms, (d.map (·.1)).Nodup ∧ d ≠ [] ∧ ∀ e ∈ d, e.2.var < s.enc.nvars) ∧
  (∀ e ∈ s.eqs, e.1.1 < e.1.2 ∧ e.1.2 < s.doms.length ∧ e.2.var < s.enc.nvars ∧
     ∃ k, (Ov.lookupVal (s.dom e.1.1) k).isSome ∧ (Ov.lookupVal (s.dom e.1.2) k).isSome)

def EqMeans (s : Ov) (a b : Nat) (l : Lit) : Prop :=
  ∀ α, EncL.Sat α s.enc → ∀ ka kb, Takes α s a ka → Takes α s b kb → (α.lit l = true ↔ ka = kb)

def Inv (s : Ov) : Prop := WF s ∧ ∀ e ∈ s.eqs, EqMeans s e.1.1 e.1.2 e.2

/-! ## association lists -/

theorem lookupVal_some_mem {d : List (Nat × Lit)} {k : Nat} {l : Lit}
    (h : Ov.lookupVal d k = some l) : (k, l) ∈ d := by
  unfold Ov.lookupVal at h
  cases hf : d.find? (fun e => e.1 == k) with
  | none => rw [hf] at h; cases h
  | some e =>
    rw [hf] at h
    simp only [Option.map_some, Option.some.injEq] at h
    have h1 := List.find?_some hf
    have h2 := List.mem_of_find?_eq_some hf
    have h3 : e.1 = k := by simpa using h1
    rw [← h3, ← h]; exact h2

theorem lookupVal_none {d : List (Nat × Lit)} {k : Nat}
    (h : Ov.lookupVal d k = none) : ∀ e ∈ d, e.1 ≠ k := by
  unfold Ov.lookupVal at h
  simp only [Option.map_eq_none_iff, List.find?_eq_none] at h
  intro e he hk
  exact h e he (by simp [hk])

theorem lookupVal_of_mem {d : List (Nat × Lit)} (hnd : (d.map (·.1)).Nodup) {k : Nat} {l : Lit}
    (h : (k, l) ∈ d) : Ov.lookupVal d k = some l := by
  induction d with
  | nil => cases h
  | cons e t ih =>
    simp only [List.map_cons, List.nodup_cons] at hnd
    rcases List.mem_cons.1 h with h | h
    · subst h; simp [Ov.lookupVal]
    · have hne : e.1 ≠ k := by
        intro he
        apply hnd.1
        rw [he]
        exact List.mem_map.2 ⟨(k, l), h, rfl⟩
      have := ih hnd.2 h
      unfold Ov.lookupVal at this ⊢
      rw [List.find?_cons_of_neg (by simpa using hne)]
      exact this

/-- a key that occurs has an entry -/
theorem lookupVal_isSome_of_mem {d : List (Nat × Lit)} {e : Nat × Lit} (h : e ∈ d) :
    ∃ l, Ov.lookupVal d e.1 = some l := by
  cases hl : Ov.lookupVal d e.1 with
  | none => exact absurd rfl (lookupVal_none hl e h)
  | some l => exact ⟨l, rfl⟩

theorem eq_of_nodup_map {α β : Type} {f : α → β} : ∀ {l : List α}, (l.map f).Nodup →
    ∀ {a b : α}, a ∈ l → b ∈ l → f a = f b → a = b := by
  intro l
  induction l with
  | nil => intro _ a b ha; cases ha
  | cons x t ih =>
    intro hnd a b ha hb hab
    simp only [List.map_cons, List.nodup_cons, List.mem_map, not_exists, not_and] at hnd
    rcases List.mem_cons.1 ha with ha' | ha' <;> rcases List.mem_cons.1 hb with hb' | hb'
    · rw [ha', hb']
    · rw [ha'] at hab; exact absurd hab.symm (hnd.1 b hb')
    · rw [hb'] at hab; exact absurd hab (hnd.1 a ha')
    · exact ih hnd.2 ha' hb' hab

/-! ## `Takes` -/

theorem dom_push_lt (doms : List (List (Nat × Lit))) (ds : List (List (Nat × Lit))) {v : Nat}
    (hv : v < doms.length) : (doms ++ ds).getD v [] = doms.getD v [] := by
  simp only [List.getD_eq_getElem?_getD]
  rw [List.getElem?_append_left hv]

theorem dom_push_new (doms : List (List (Nat × Lit))) (d : List (Nat × Lit)) :
    (doms ++ [d]).getD doms.length [] = d := by
  simp [List.getD_eq_getElem?_getD]

theorem takes_congr {α : Asg} {s s' : Ov} {v k : Nat} (h : s'.dom v = s.dom v) :
    Takes α s' v k ↔ Takes α s v k := by
  unfold Takes; rw [h]

/-- a variable takes at most one value -/
theorem takes_unique {α : Asg} {s : Ov} {v ka kb : Nat} (ha : Takes α s v ka) (hb : Takes α s v kb) :
    ka = kb := by
  refine Classical.byContradiction fun hne => ?_
  obtain ⟨⟨l, hl, hlt⟩, _⟩ := hb
  have := ha.2 (kb, l) (lookupVal_some_mem hl) (fun h => hne h.symm)
  rw [hlt] at this; cases this

theorem takes_mem {α : Asg} {s : Ov} {v k : Nat} (h : Takes α s v k) :
    ∃ l, (k, l) ∈ s.dom v ∧ α.lit l = true := by
  obtain ⟨⟨l, hl, hlt⟩, _⟩ := h
  exact ⟨l, lookupVal_some_mem hl, hlt⟩

/-! ## posting clauses -/

theorem newClause_full {s : Enc} {c : List Lit} (h : EncL.Inv s) (hc : InRange s c) :
    EncL.Inv (s.newClause c).2 ∧ (s.newClause c).2.nvars = s.nvars ∧
    (∀ α, Sat α (s.newClause c).2 → Sat α s) ∧
    (∀ α, Sat α s → α.clause c = true → Sat α (s.newClause c).2 ∧ (s.newClause c).1 = true) ∧
    ((s.newClause c).1 = true → ∀ α, Sat α (s.newClause c).2 → α.clause c = true) := by
  obtain ⟨_, _, k3, _, k5⟩ := newClause_spec h.1 hc
  obtain ⟨n1, n2, n3⟩ := new_clause_sem h hc
  refine ⟨n1, k3, fun α hα => ?_, fun α hα hcl => ?_, fun ht α hα => ((n2 ht α).1 hα).2⟩
  · cases hb : (s.newClause c).1 with
    | true => exact ((n2 hb α).1 hα).1
    | false => rw [(k5 hb).1] at hα; exact hα
  · cases hb : (s.newClause c).1 with
    | true => exact ⟨(n2 hb α).2 ⟨hα, hcl⟩, rfl⟩
    | false => have := n3 hb α hα; rw [hcl] at this; cases this

/-- post all the clauses of a list, ignoring the results (the loop of `ov_theory::new_eq`) -/
theorem postAll_spec : ∀ (cs : List (List Lit)) {s : Enc}, EncL.Inv s → (∀ c ∈ cs, InRange s c) →
    EncL.Inv (cs.foldl (fun e c => (e.newClause c).2) s) ∧
    (cs.foldl (fun e c => (e.newClause c).2) s).nvars = s.nvars ∧
    (∀ α, Sat α (cs.foldl (fun e c => (e.newClause c).2) s) → Sat α s) ∧
    (∀ α, Sat α s → α.cnf cs = true → Sat α (cs.foldl (fun e c => (e.newClause c).2) s)) ∧
    ((∃ β, Sat β s ∧ β.cnf cs = true) →
      ∀ α, Sat α (cs.foldl (fun e c => (e.newClause c).2) s) → α.cnf cs = true)
  | [], s, h, _ => ⟨h, rfl, fun _ hα => hα, fun _ hα _ => hα, fun _ _ _ => rfl⟩
  | c :: cs, s, h, hc => by
    obtain ⟨k1, k2, k3, k4, k5⟩ := newClause_full h (hc c (by simp))
    have hc' : ∀ c' ∈ cs, InRange (s.newClause c).2 c' := fun c' hc' l hl => by
      rw [k2]; exact hc c' (by simp [hc']) l hl
    obtain ⟨i1, i2, i3, i4, i5⟩ := postAll_spec cs k1 hc'
    simp only [List.foldl_cons]
    refine ⟨i1, i2.trans k2, fun α hα => k3 α (i3 α hα), fun α hα hcs => ?_, fun hβ α hα => ?_⟩
    · simp only [Asg.cnf, List.all_cons, Bool.and_eq_true] at hcs
      exact i4 α (k4 α hα hcs.1).1 hcs.2
    · obtain ⟨β, hβ, hβc⟩ := hβ
      simp only [Asg.cnf, List.all_cons, Bool.and_eq_true] at hβc ⊢
      obtain ⟨b1, b2⟩ := k4 β hβ hβc.1
      exact ⟨k5 b2 α (i3 α hα), i5 ⟨β, b1, hβc.2⟩ α hα⟩

/-! ## fresh literals -/

theorem value_none_of_ge {s : Enc} {l : Lit} (h : s.nvars ≤ l.var) : s.value l = none := by
  rw [value_none_iff]
  simp only [List.getD_eq_getElem?_getD]
  rw [List.getElem?_eq_none h]
  rfl

theorem lookup_none_of {s : Enc} {k : Key} (h : ∀ x ∈ s.exprs, x.1 ≠ k) : s.lookup k = none := by
  unfold Enc.lookup
  simp only [Option.map_eq_none_iff, List.find?_eq_none]
  intro x hx
  simpa using h x hx

theorem lit_ext_pos {a b : Lit} (ha : a.sign = true) (hb : b.sign = true) (h : a.var = b.var) : a = b := by
  cases a; cases b; simp_all

/-- an exactly-one over a list containing an undecided literal newer than the cache is fresh -/
theorem exoFresh_of_fresh {e : Enc} {n : Nat} (hex : ∀ x ∈ e.exprs, ∀ l ∈ keyLits x.1, l.var < n)
    {ls : List Lit} {g : Lit} (hg : g ∈ ls) (hgv : e.value g = none) (hgn : n ≤ g.var) :
    exoFresh e ls = true := by
  unfold exoFresh
  cases hsc : scanCard e (sortDedup ls) none [] with
  | twoTrue => rfl
  | oneTrue _ => rfl
  | «open» ls' =>
    obtain ⟨_, _, _, o4, _⟩ := scanCard_open (sortDedup ls) none [] (by simp) ls' hsc
    have hg' : g ∈ ls' := by
      rcases o4 g (mem_sortDedup.2 hg) with h | h
      · exact h
      · rw [hgv] at h; cases h
    simp only [Bool.and_eq_true, Option.isNone_iff_eq_none]
    constructor
    · refine lookup_none_of fun x hx hk => ?_
      have := hex x hx g (by rw [hk]; exact hg')
      omega
    · refine lookup_none_of fun x hx hk => ?_
      have := hex x hx g (by rw [hk]; exact hg')
      omega

/-! ## the invariant under growth of the network -/

/-- refine the network and append new domains -/
theorem inv_update {s : Ov} (h : Inv s) {e' : Enc} (hi : EncL.Inv e') (hr : Refines s.enc e')
    (ds : List (List (Nat × Lit)))
    (hds : ∀ d ∈ ds, (d.map (·.1)).Nodup ∧ d ≠ [] ∧ ∀ e ∈ d, e.2.var < e'.nvars) :
    Inv ⟨e', s.doms ++ ds, s.eqs⟩ := by
  obtain ⟨⟨_, w2, w3⟩, h2⟩ := h
  refine ⟨⟨hi, fun d hd => ?_, fun e he => ?_⟩, fun e he α hα ka kb hka hkb => ?_⟩
  · rcases List.mem_append.1 hd with hd | hd
    · obtain ⟨d1, d2, d3⟩ := w2 d hd
      exact ⟨d1, d2, fun e he => Nat.lt_of_lt_of_le (d3 e he) hr.1⟩
    · exact hds d hd
  · obtain ⟨e1, e2, e3, e4⟩ := w3 e he
    have hd1 : (Ov.mk e' (s.doms ++ ds) s.eqs).dom e.1.1 = s.dom e.1.1 :=
      dom_push_lt s.doms ds (Nat.lt_trans e1 e2)
    have hd2 : (Ov.mk e' (s.doms ++ ds) s.eqs).dom e.1.2 = s.dom e.1.2 :=
      dom_push_lt s.doms ds e2
    refine ⟨e1, ?_, Nat.lt_of_lt_of_le e3 hr.1, ?_⟩
    · simp only [List.length_append]; omega
    · rw [hd1, hd2]; exact e4
  · obtain ⟨e1, e2, _⟩ := w3 e he
    have hd1 : (Ov.mk e' (s.doms ++ ds) s.eqs).dom e.1.1 = s.dom e.1.1 :=
      dom_push_lt s.doms ds (Nat.lt_trans e1 e2)
    have hd2 : (Ov.mk e' (s.doms ++ ds) s.eqs).dom e.1.2 = s.dom e.1.2 :=
      dom_push_lt s.doms ds e2
    exact h2 e he α (hr.2 α hα) ka kb ((takes_congr hd1).1 hka) ((takes_congr hd2).1 hkb)

theorem inv_update_nil {s : Ov} (h : Inv s) {e' : Enc} (hi : EncL.Inv e') (hr : Refines s.enc e') :
    Inv ⟨e', s.doms, s.eqs⟩ := by
  have := inv_update h hi hr [] (fun d hd => by cases hd)
  simpa using this

theorem init_inv : Inv Ov.init := by
  refine ⟨⟨EncL.init_inv, ?_, ?_⟩, ?_⟩
  · intro d hd; cases hd
  · intro e he; cases he
  · intro e he; cases he

end OvL
end Oratio
