/-
Helper lemmas for `Properties/C09Reach.lean`, part 2: the sums `lb(lin)`, `ub(lin)`, `value(lin)`
of the LRA model - over finite values they are exact; over bounds that may be infinite they give
a lower bound that is never `+inf`, an upper bound that is never `-inf`, and lower ≤ upper.
-/
import OratioModel
import OratioProofs.Lemmas.LraReachOrd
import Mathlib.Tactic.Linarith
import Mathlib.Tactic.Ring

namespace Oratio
namespace R

/-! ### `+=` and `*` with one infinity excluded -/

theorem addAssign_of_inf_right {a b : R} (hb : b.den = 0) : addAssign a b = b := by
  unfold addAssign
  simp [isInfinite, hb]

theorem addAssign_of_inf_left {a b : R} (ha : a.WF) (hda : a.den = 0) (hb : b.den ≠ 0) : addAssign a b = a := by
  have hn : a.num ≠ 0 := by
    rcases wf_inf ha hda with rfl | rfl <;> decide
  unfold addAssign
  simp [isInfinite, hda, hb, hn]

/-- `a += b` where neither is the infinity `bad`: the result is canonical, is not `bad`, and is
    finite iff both are -/
theorem addAssign_ok {bad a b : R} (hbad : bad.den = 0) (ha : a.WF) (hna : a ≠ bad) (hb : b.WF) (hnb : b ≠ bad) :
    (addAssign a b).WF ∧ addAssign a b ≠ bad ∧ ((addAssign a b).den ≠ 0 ↔ a.den ≠ 0 ∧ b.den ≠ 0) := by
  by_cases hdb : b.den = 0
  · rw [addAssign_of_inf_right hdb]
    exact ⟨hb, hnb, fun h => absurd hdb h, fun h => absurd hdb h.2⟩
  · by_cases hda : a.den = 0
    · rw [addAssign_of_inf_left ha hda hdb]
      exact ⟨ha, hna, fun h => absurd hda h, fun h => absurd hda h.1⟩
    · have hf := finWF_addAssign ⟨ha, hda⟩ ⟨hb, hdb⟩
      refine ⟨hf.1, ?_, fun _ => ⟨hda, hdb⟩, fun _ => hf.2⟩
      intro h
      exact hf.2 (h ▸ hbad)

theorem mul_pinf_pos {c : R} (hc : c.WF) (hp : 0 < c.num) : mul pinf c = pinf := by
  rw [mul_inf wf_pinf hc (Or.inl rfl)]
  have : infSign pinf.num c.num = 1 := by
    unfold infSign pinf
    simp; omega
  rw [if_pos this]

theorem mul_pinf_neg {c : R} (hc : c.WF) (hp : c.num < 0) : mul pinf c = ninf := by
  rw [mul_inf wf_pinf hc (Or.inl rfl)]
  have : infSign pinf.num c.num ≠ 1 := by
    unfold infSign pinf
    simp; omega
  rw [if_neg this]

theorem mul_ninf_pos {c : R} (hc : c.WF) (hp : 0 < c.num) : mul ninf c = ninf := by
  rw [mul_inf wf_ninf hc (Or.inl rfl)]
  have : infSign ninf.num c.num ≠ 1 := by
    unfold infSign ninf
    simp; omega
  rw [if_neg this]

theorem mul_ninf_neg {c : R} (hc : c.WF) (hp : c.num < 0) : mul ninf c = pinf := by
  rw [mul_inf wf_ninf hc (Or.inl rfl)]
  have : infSign ninf.num c.num = 1 := by
    unfold infSign ninf
    simp; omega
  rw [if_pos this]

end R

namespace Lra
open R Lin

/-! ### one term `bound * coefficient` -/

theorem pinf_ne_ninf : R.pinf ≠ R.ninf := by decide

/-- a positive coefficient keeps the kind of a bound -/
theorem term_pos {bad : R} (hbad : bad = R.pinf ∨ bad = R.ninf) {b : IR} {c : R} (hb : OKs bad b)
    (hc : R.FinWF c) (hp : 0 < c.num) :
    OKs bad (IR.mulR b c) ∧ ((IR.mulR b c).rat.den ≠ 0 ↔ b.rat.den ≠ 0) := by
  obtain ⟨b1, b2, b3⟩ := hb
  have hinf : R.FinWF (R.mul b.inf c) := (R.mul_fin b3 hc).1
  by_cases hd : b.rat.den = 0
  · rcases R.wf_inf b1 hd with h | h
    · have e : (IR.mulR b c).rat = R.pinf := by show R.mul b.rat c = _; rw [h]; exact R.mul_pinf_pos hc.1 hp
      refine ⟨⟨e ▸ R.wf_pinf, by rw [e, ← h]; exact b2, hinf⟩, ?_⟩
      rw [e]; exact ⟨fun h' => absurd rfl h', fun h' => absurd hd h'⟩
    · have e : (IR.mulR b c).rat = R.ninf := by show R.mul b.rat c = _; rw [h]; exact R.mul_ninf_pos hc.1 hp
      refine ⟨⟨e ▸ R.wf_ninf, by rw [e, ← h]; exact b2, hinf⟩, ?_⟩
      rw [e]; exact ⟨fun h' => absurd rfl h', fun h' => absurd hd h'⟩
  · have hf : R.FinWF (R.mul b.rat c) := (R.mul_fin ⟨b1, hd⟩ hc).1
    refine ⟨⟨hf.1, ?_, hinf⟩, fun _ => hd, fun _ => hf.2⟩
    rcases hbad with rfl | rfl
    · exact R.finWF_ne_pinf hf
    · exact R.finWF_ne_ninf hf

/-- a negative coefficient turns an upper bound into a lower bound and conversely -/
theorem term_neg_lower {b : IR} {c : R} (hb : UpperOK b) (hc : R.FinWF c) (hp : c.num < 0) :
    LowerOK (IR.mulR b c) ∧ ((IR.mulR b c).rat.den ≠ 0 ↔ b.rat.den ≠ 0) := by
  obtain ⟨b1, b2, b3⟩ := hb
  have hinf : R.FinWF (R.mul b.inf c) := (R.mul_fin b3 hc).1
  by_cases hd : b.rat.den = 0
  · rcases R.wf_inf b1 hd with h | h
    · have e : (IR.mulR b c).rat = R.ninf := by show R.mul b.rat c = _; rw [h]; exact R.mul_pinf_neg hc.1 hp
      refine ⟨⟨e ▸ R.wf_ninf, by rw [e]; exact fun h => pinf_ne_ninf h.symm, hinf⟩, ?_⟩
      rw [e]; exact ⟨fun h' => absurd rfl h', fun h' => absurd hd h'⟩
    · exact absurd h b2
  · have hf : R.FinWF (R.mul b.rat c) := (R.mul_fin ⟨b1, hd⟩ hc).1
    exact ⟨⟨hf.1, R.finWF_ne_pinf hf, hinf⟩, fun _ => hd, fun _ => hf.2⟩

theorem term_neg_upper {b : IR} {c : R} (hb : LowerOK b) (hc : R.FinWF c) (hp : c.num < 0) :
    UpperOK (IR.mulR b c) ∧ ((IR.mulR b c).rat.den ≠ 0 ↔ b.rat.den ≠ 0) := by
  obtain ⟨b1, b2, b3⟩ := hb
  have hinf : R.FinWF (R.mul b.inf c) := (R.mul_fin b3 hc).1
  by_cases hd : b.rat.den = 0
  · rcases R.wf_inf b1 hd with h | h
    · exact absurd h b2
    · have e : (IR.mulR b c).rat = R.pinf := by show R.mul b.rat c = _; rw [h]; exact R.mul_ninf_neg hc.1 hp
      refine ⟨⟨e ▸ R.wf_pinf, by rw [e]; exact pinf_ne_ninf, hinf⟩, ?_⟩
      rw [e]; exact ⟨fun h' => absurd rfl h', fun h' => absurd hd h'⟩
  · have hf : R.FinWF (R.mul b.rat c) := (R.mul_fin ⟨b1, hd⟩ hc).1
    exact ⟨⟨hf.1, R.finWF_ne_ninf hf, hinf⟩, fun _ => hd, fun _ => hf.2⟩

/-! ### the sums -/

/-- the common shape of `lb(lin)`, `ub(lin)`, `value(lin)` -/
def linSum (pick : Nat × R → IR) (vars : List (Nat × R)) (init : IR) : IR :=
  vars.foldl (fun b e => IR.addAssign b (IR.mulR (pick e) e.2)) init

theorem lbLin_eq (t : Lra) (l : Lin) :
    t.lbLin l = linSum (fun e => if e.2.isPositive then t.lb e.1 else t.ub e.1) l.vars (IR.ofR l.known) := rfl
theorem ubLin_eq (t : Lra) (l : Lin) :
    t.ubLin l = linSum (fun e => if e.2.isPositive then t.ub e.1 else t.lb e.1) l.vars (IR.ofR l.known) := rfl
theorem valueLin_eq (t : Lra) (l : Lin) :
    t.valueLin l = linSum (fun e => t.value e.1) l.vars (IR.ofR l.known) := rfl

theorem linSum_cons (pick : Nat × R → IR) (e : Nat × R) (vars : List (Nat × R)) (init : IR) :
    linSum pick (e :: vars) init = linSum pick vars (IR.addAssign init (IR.mulR (pick e) e.2)) := rfl

theorem linSum_congr {pick pick' : Nat × R → IR} : ∀ (vars : List (Nat × R)) (init : IR),
    (∀ e ∈ vars, pick e = pick' e) → linSum pick vars init = linSum pick' vars init := by
  intro vars
  induction vars with
  | nil => intro _ _; rfl
  | cons e vars ih =>
    intro init h
    rw [linSum_cons, linSum_cons, h e List.mem_cons_self]
    exact ih _ (fun e' he' => h e' (List.mem_cons_of_mem _ he'))

/-- weighted sum of a function of the terms -/
def wsum (f : Nat × R → Rat) (m : List (Nat × R)) : Rat := (m.map (fun e => e.2.toRat * f e)).sum

theorem wsum_cons (f : Nat × R → Rat) (e : Nat × R) (m : List (Nat × R)) :
    wsum f (e :: m) = e.2.toRat * f e + wsum f m := by
  simp [wsum]

theorem wsum_var (σ : Nat → Rat) (m : List (Nat × R)) : wsum (fun e => σ e.1) m = sumS σ m := rfl

/-- over finite values the sum is finite and exact, component by component -/
theorem linSum_fin (pick : Nat × R → IR) : ∀ (vars : List (Nat × R)) (init : IR), FinIR init → CoefWF vars →
    (∀ e ∈ vars, FinIR (pick e)) →
    FinIR (linSum pick vars init) ∧
    (linSum pick vars init).rat.toRat = init.rat.toRat + wsum (fun e => (pick e).rat.toRat) vars ∧
    (linSum pick vars init).inf.toRat = init.inf.toRat + wsum (fun e => (pick e).inf.toRat) vars := by
  intro vars
  induction vars with
  | nil => intro init hi _ _; exact ⟨hi, by simp [linSum, wsum], by simp [linSum, wsum]⟩
  | cons e vars ih =>
    intro init hi hw hp
    obtain ⟨hwe, hwr⟩ := coefWF_cons.1 hw
    have hpe := hp e List.mem_cons_self
    have m1 := R.mul_fin hpe.1 hwe
    have m2 := R.mul_fin hpe.2 hwe
    have hnew : FinIR (IR.addAssign init (IR.mulR (pick e) e.2)) :=
      ⟨R.finWF_addAssign hi.1 m1.1, R.finWF_addAssign hi.2 m2.1⟩
    obtain ⟨i1, i2, i3⟩ := ih _ hnew hwr (fun e' he' => hp e' (List.mem_cons_of_mem _ he'))
    rw [linSum_cons]
    refine ⟨i1, ?_, ?_⟩
    · rw [i2, wsum_cons]
      show (R.addAssign init.rat (R.mul (pick e).rat e.2)).toRat + _ = _
      rw [R.toRat_addAssign hi.1 m1.1, m1.2]; ring
    · rw [i3, wsum_cons]
      show (R.addAssign init.inf (R.mul (pick e).inf e.2)).toRat + _ = _
      rw [R.toRat_addAssign hi.2 m2.1, m2.2]; ring

/-- over terms none of which is the infinity `bad` the sum is not `bad` either, and it is finite
    only if every term is -/
theorem linSum_ok {bad : R} (hbad : bad.den = 0) (pick : Nat × R → IR) : ∀ (vars : List (Nat × R)) (init : IR), OKs bad init →
    (∀ e ∈ vars, OKs bad (IR.mulR (pick e) e.2)) →
    OKs bad (linSum pick vars init) ∧
    ((linSum pick vars init).rat.den ≠ 0 → init.rat.den ≠ 0 ∧ ∀ e ∈ vars, (IR.mulR (pick e) e.2).rat.den ≠ 0) := by
  intro vars
  induction vars with
  | nil => intro init hi _; exact ⟨hi, fun h => ⟨h, fun e he => by cases he⟩⟩
  | cons e vars ih =>
    intro init hi hp
    have hpe := hp e List.mem_cons_self
    obtain ⟨a1, a2, a3⟩ := R.addAssign_ok hbad hi.1 hi.2.1 hpe.1 hpe.2.1
    have hnew : OKs bad (IR.addAssign init (IR.mulR (pick e) e.2)) :=
      ⟨a1, a2, R.finWF_addAssign hi.2.2 hpe.2.2⟩
    obtain ⟨i1, i2⟩ := ih _ hnew (fun e' he' => hp e' (List.mem_cons_of_mem _ he'))
    rw [linSum_cons]
    refine ⟨i1, ?_⟩
    intro h
    obtain ⟨j1, j2⟩ := i2 h
    have := a3.1 j1
    refine ⟨this.1, ?_⟩
    intro e' he'
    rcases List.mem_cons.1 he' with rfl | he'
    · exact this.2
    · exact j2 e' he'

/-! ### the lexicographic order on pairs of rationals -/

def QLe (a b : Rat × Rat) : Prop := a.1 < b.1 ∨ (a.1 = b.1 ∧ a.2 ≤ b.2)

theorem QLe.add {a b c d : Rat × Rat} (h1 : QLe a b) (h2 : QLe c d) : QLe (a.1 + c.1, a.2 + c.2) (b.1 + d.1, b.2 + d.2) := by
  rcases h1 with h1 | ⟨e1, h1⟩ <;> rcases h2 with h2 | ⟨e2, h2⟩
  · left; show a.1 + c.1 < b.1 + d.1; linarith
  · left; show a.1 + c.1 < b.1 + d.1; linarith
  · left; show a.1 + c.1 < b.1 + d.1; linarith
  · right; exact ⟨by show a.1 + c.1 = b.1 + d.1; rw [e1, e2], by show a.2 + c.2 ≤ b.2 + d.2; linarith⟩

theorem QLe.smul_pos {a b : Rat × Rat} {k : Rat} (hk : 0 < k) (h : QLe a b) : QLe (k * a.1, k * a.2) (k * b.1, k * b.2) := by
  rcases h with h | ⟨e, h⟩
  · left; exact mul_lt_mul_of_pos_left h hk
  · right; exact ⟨by show k * a.1 = k * b.1; rw [e], mul_le_mul_of_nonneg_left h (le_of_lt hk)⟩

theorem QLe.smul_neg {a b : Rat × Rat} {k : Rat} (hk : k < 0) (h : QLe a b) : QLe (k * b.1, k * b.2) (k * a.1, k * a.2) := by
  rcases h with h | ⟨e, h⟩
  · left; exact mul_lt_mul_of_neg_left h hk
  · right; exact ⟨by show k * b.1 = k * a.1; rw [e], mul_le_mul_of_nonpos_left h (le_of_lt hk)⟩

theorem le_iff_qle {a b : IR} (ha : FinIR a) (hb : FinIR b) :
    IR.le a b = true ↔ QLe (a.rat.toRat, a.inf.toRat) (b.rat.toRat, b.inf.toRat) := by
  rw [IR.le_iff, R.le_fin hb.1 ha.1, R.le_fin ha.2 hb.2]
  unfold QLe
  simp only [decide_eq_false_iff_not, not_le, decide_eq_true_iff]
  constructor
  · rintro (h | ⟨e, h⟩)
    · exact Or.inl h
    · exact Or.inr ⟨by rw [e], h⟩
  · rintro (h | ⟨e, h⟩)
    · exact Or.inl h
    · exact Or.inr ⟨R.FinWF.ext ha.1 hb.1 e, h⟩

theorem wsum_mono (f1 f2 g1 g2 : Nat × R → Rat) : ∀ (vars : List (Nat × R)),
    (∀ e ∈ vars, QLe (e.2.toRat * f1 e, e.2.toRat * f2 e) (e.2.toRat * g1 e, e.2.toRat * g2 e)) →
    ∀ k : Rat, QLe (k + wsum f1 vars, 0 + wsum f2 vars) (k + wsum g1 vars, 0 + wsum g2 vars) := by
  intro vars
  induction vars with
  | nil => intro _ k; right; exact ⟨rfl, le_refl _⟩
  | cons e vars ih =>
    intro h k
    have h1 := h e List.mem_cons_self
    have h2 := ih (fun e' he' => h e' (List.mem_cons_of_mem _ he')) k
    have := QLe.add h1 h2
    simp only [wsum_cons]
    rcases this with h | ⟨e1, h⟩
    · left; simp only at h ⊢; linarith
    · right; simp only at e1 h ⊢; exact ⟨by linarith, by linarith⟩

/-- one term of `lb(lin)` against the same term of `ub(lin)` -/
theorem term_mono {lo hi : IR} {c : R} (hc : R.FinWF c) (hnz : c.num ≠ 0) (hlo : FinIR lo) (hhi : FinIR hi)
    (hle : IR.le lo hi = true) :
    QLe (c.toRat * (if c.isPositive then lo else hi).rat.toRat, c.toRat * (if c.isPositive then lo else hi).inf.toRat)
      (c.toRat * (if c.isPositive then hi else lo).rat.toRat, c.toRat * (if c.isPositive then hi else lo).inf.toRat) := by
  have hq := (le_iff_qle hlo hhi).1 hle
  by_cases hp : c.isPositive = true
  · rw [if_pos hp, if_pos hp]
    have : 0 < c.num := by unfold R.isPositive at hp; simpa using hp
    exact QLe.smul_pos (a := (lo.rat.toRat, lo.inf.toRat)) (b := (hi.rat.toRat, hi.inf.toRat)) ((R.toRat_pos_iff hc).2 this) hq
  · rw [if_neg hp, if_neg hp]
    have hn : c.num < 0 := by
      have h2 : ¬ 0 < c.num := fun h => hp (by unfold R.isPositive; simpa using h)
      omega
    exact QLe.smul_neg (a := (lo.rat.toRat, lo.inf.toRat)) (b := (hi.rat.toRat, hi.inf.toRat)) ((R.toRat_neg_iff hc).2 hn) hq

/-! ### `lb(lin) ≤ ub(lin)` -/

theorem isPositive_iff (c : R) : c.isPositive = true ↔ 0 < c.num := by
  unfold R.isPositive; simp

/-- `lb(l)` is a lower bound value, `ub(l)` an upper bound value, and `lb(l) ≤ ub(l)`, for a
    canonical expression without zero coefficients over variables with well-formed bounds -/
theorem lbLin_ubLin_ok (t : Lra) {l : Lin} (hl : l.WF) (hnz : ∀ p ∈ l.vars, p.2.num ≠ 0)
    (hb : ∀ p ∈ l.vars, LowerOK (t.lb p.1) ∧ UpperOK (t.ub p.1) ∧ IR.le (t.lb p.1) (t.ub p.1) = true) :
    LowerOK (t.lbLin l) ∧ UpperOK (t.ubLin l) ∧ IR.le (t.lbLin l) (t.ubLin l) = true := by
  obtain ⟨ls, lw, lk⟩ := (wf_iff l).1 hl
  have hk : FinIR (IR.ofR l.known) := ⟨lk, R.finWF_zero⟩
  -- the terms of the two sums
  have hlo : ∀ e ∈ l.vars, LowerOK (IR.mulR (if e.2.isPositive then t.lb e.1 else t.ub e.1) e.2) ∧
      ((IR.mulR (if e.2.isPositive then t.lb e.1 else t.ub e.1) e.2).rat.den ≠ 0 ↔
        (if e.2.isPositive then t.lb e.1 else t.ub e.1).rat.den ≠ 0) := by
    intro e he
    by_cases hp : e.2.isPositive = true
    · rw [if_pos hp]
      exact term_pos (Or.inl rfl) (hb e he).1 (lw e he) ((isPositive_iff _).1 hp)
    · rw [if_neg hp]
      have hn : e.2.num < 0 := by
        have := hnz e he
        have h2 : ¬ 0 < e.2.num := fun h => hp ((isPositive_iff _).2 h)
        omega
      exact term_neg_lower (hb e he).2.1 (lw e he) hn
  have hup : ∀ e ∈ l.vars, UpperOK (IR.mulR (if e.2.isPositive then t.ub e.1 else t.lb e.1) e.2) ∧
      ((IR.mulR (if e.2.isPositive then t.ub e.1 else t.lb e.1) e.2).rat.den ≠ 0 ↔
        (if e.2.isPositive then t.ub e.1 else t.lb e.1).rat.den ≠ 0) := by
    intro e he
    by_cases hp : e.2.isPositive = true
    · rw [if_pos hp]
      exact term_pos (Or.inr rfl) (hb e he).2.1 (lw e he) ((isPositive_iff _).1 hp)
    · rw [if_neg hp]
      have hn : e.2.num < 0 := by
        have := hnz e he
        have h2 : ¬ 0 < e.2.num := fun h => hp ((isPositive_iff _).2 h)
        omega
      exact term_neg_upper (hb e he).1 (lw e he) hn
  obtain ⟨L1, L2⟩ := linSum_ok (bad := R.pinf) rfl (fun e => if e.2.isPositive then t.lb e.1 else t.ub e.1)
    l.vars (IR.ofR l.known) hk.lower (fun e he => (hlo e he).1)
  obtain ⟨U1, U2⟩ := linSum_ok (bad := R.ninf) rfl (fun e => if e.2.isPositive then t.ub e.1 else t.lb e.1)
    l.vars (IR.ofR l.known) hk.upper (fun e he => (hup e he).1)
  rw [← lbLin_eq] at L1 L2
  rw [← ubLin_eq] at U1 U2
  refine ⟨L1, U1, ?_⟩
  by_cases hdl : (t.lbLin l).rat.den = 0
  · -- the lower bound is `-inf`
    rcases R.wf_inf L1.1 hdl with h | h
    · exact absurd h L1.2.1
    · exact le_of_rat_ninf U1.wf h U1.2.1
  by_cases hdu : (t.ubLin l).rat.den = 0
  · rcases R.wf_inf U1.1 hdu with h | h
    · exact le_of_rat_pinf L1.wf h L1.2.1
    · exact absurd h U1.2.1
  -- both finite: every bound used is finite
  have hfl : ∀ e ∈ l.vars, FinIR (if e.2.isPositive then t.lb e.1 else t.ub e.1) := by
    intro e he
    have h1 := ((hlo e he).2).1 ((L2 hdl).2 e he)
    by_cases hp : e.2.isPositive = true
    · rw [if_pos hp] at h1 ⊢
      exact ⟨⟨(hb e he).1.1, h1⟩, (hb e he).1.2.2⟩
    · rw [if_neg hp] at h1 ⊢
      exact ⟨⟨(hb e he).2.1.1, h1⟩, (hb e he).2.1.2.2⟩
  have hfu : ∀ e ∈ l.vars, FinIR (if e.2.isPositive then t.ub e.1 else t.lb e.1) := by
    intro e he
    have h1 := ((hup e he).2).1 ((U2 hdu).2 e he)
    by_cases hp : e.2.isPositive = true
    · rw [if_pos hp] at h1 ⊢
      exact ⟨⟨(hb e he).2.1.1, h1⟩, (hb e he).2.1.2.2⟩
    · rw [if_neg hp] at h1 ⊢
      exact ⟨⟨(hb e he).1.1, h1⟩, (hb e he).1.2.2⟩
  obtain ⟨fl1, fl2, fl3⟩ := linSum_fin _ l.vars _ hk lw hfl
  obtain ⟨fu1, fu2, fu3⟩ := linSum_fin _ l.vars _ hk lw hfu
  rw [← lbLin_eq] at fl1 fl2 fl3
  rw [← ubLin_eq] at fu1 fu2 fu3
  rw [le_iff_qle fl1 fu1, fl2, fl3, fu2, fu3]
  have hz : (IR.ofR l.known).inf.toRat = 0 := R.toRat_zero
  rw [hz]
  refine wsum_mono
    (fun e => (if e.2.isPositive then t.lb e.1 else t.ub e.1).rat.toRat)
    (fun e => (if e.2.isPositive then t.lb e.1 else t.ub e.1).inf.toRat)
    (fun e => (if e.2.isPositive then t.ub e.1 else t.lb e.1).rat.toRat)
    (fun e => (if e.2.isPositive then t.ub e.1 else t.lb e.1).inf.toRat)
    l.vars ?_ _
  intro e he
  have hlf : FinIR (t.lb e.1) := by
    have h1 := hfl e he
    have h2 := hfu e he
    by_cases hp : e.2.isPositive = true
    · rw [if_pos hp] at h1; exact h1
    · rw [if_neg hp] at h2; exact h2
  have huf : FinIR (t.ub e.1) := by
    have h1 := hfl e he
    have h2 := hfu e he
    by_cases hp : e.2.isPositive = true
    · rw [if_pos hp] at h2; exact h2
    · rw [if_neg hp] at h1; exact h1
  exact term_mono (lw e he) (hnz e he) hlf huf (hb e he).2.2

/-! ### `value(lin)` -/

/-- `value(l)` over finite values: finite, and the two components are the values of `l` (with
    and without its known term) under the two components of the assignment -/
theorem valueLin_fin (t : Lra) {l : Lin} (hl : l.WF) (hv : ∀ x, FinIR (t.value x)) :
    FinIR (t.valueLin l) ∧ (t.valueLin l).rat.toRat = Lin.evalS l t.ratAssign ∧
    (t.valueLin l).inf.toRat = Lin.evalS { l with known := R.zero } t.infAssign := by
  obtain ⟨-, lw, lk⟩ := (wf_iff l).1 hl
  obtain ⟨f1, f2, f3⟩ := linSum_fin (fun e => t.value e.1) l.vars (IR.ofR l.known) ⟨lk, R.finWF_zero⟩ lw
    (fun e _ => hv e.1)
  rw [← valueLin_eq] at f1 f2 f3
  refine ⟨f1, ?_, ?_⟩
  · rw [f2, evalS_eq]
    show l.known.toRat + sumS t.ratAssign l.vars = _
    ring
  · rw [f3, evalS_eq]
    show R.zero.toRat + sumS t.infAssign l.vars = sumS t.infAssign l.vars + R.zero.toRat
    ring

end Lra
end Oratio
