/-
Definitions for property C12, real-valued instance (`rdlOps : DOps IR`): how rational and
ε-rational valuations are compared with `inf_rational` weights and bounds.
-/
import OratioModel
import OratioProofs.Properties.C12
import OratioProofs.Properties.C10Rdl

namespace Oratio

/-- a rational valuation of the time points, read as an ε-rational one (ε part 0) -/
def embQ (σ : Nat → ℚ) : Nat → QV := fun v => toLex (σ v, 0)

/-- the distance constraint `x_dst - x_src ≤ w` (`w = q + e·ε`) under a RATIONAL valuation: the
    constraint of C10Rdl (`QEdge.holds`) at the embedded valuation, i.e. `(σ dst - σ src, 0) ≤ (q, e)`
    lexicographically (`C12R_edge_reading`: `<` for `e = -1`, `≤` for `e = 0`) -/
def edgeHoldsR (σ : Nat → ℚ) (src dst : Nat) (w : IR) : Prop := QEdge.holds (embQ σ) (src, dst, w)

/-- the request is rejected (the C++ throws `std::invalid_argument`) -/
def RelOut.isInvalid {α : Type} : RelOut α → Prop
  | .invalid => True
  | _ => False

/-- multiplication of an ε-rational by a rational scalar -/
def QV.smul (c : ℚ) (v : QV) : QV := toLex (c * (ofLex v).1, c * (ofLex v).2)

/-- a rational constant as an ε-rational -/
def QV.ofQ (k : ℚ) : QV := toLex (k, 0)

/-- value of a linear expression under an ε-rational valuation -/
def Lin.evalQV (l : Lin) (σ : Nat → QV) : QV :=
  (l.vars.map (fun t => QV.smul t.2.toRat (σ t.1))).sum + QV.ofQ l.known.toRat

/-- `lo ≤ v` for a lower bound returned by a query: `-∞` is below everything, `+∞` below nothing -/
def IR.lbHolds (lo : IR) (v : QV) : Prop := lo.rat = R.ninf ∨ (lo.rat.den ≠ 0 ∧ IR.val lo ≤ v)

/-- `v ≤ hi` for an upper bound returned by a query: `+∞` is above everything, `-∞` above nothing -/
def IR.ubHolds (hi : IR) (v : QV) : Prop := hi.rat = R.pinf ∨ (hi.rat.den ≠ 0 ∧ v ≤ IR.val hi)

/-- a well-formed LOWER bound: canonical, never `+∞`, finite ε part (the mirror image of the
    well-formed matrix entries / upper bounds `IR.Good`: canonical, never `-∞`, finite ε part) -/
def IR.GoodL (x : IR) : Prop := x.rat.WF ∧ x.rat ≠ R.pinf ∧ R.FinWF x.inf

/-- the ε-rational valuation respects the distance matrix on the listed time points: every FINITE
    entry `d i j` bounds `σ j - σ i` (an infinite entry bounds nothing) -/
def Dl.RespectsOn (t : Dl IR) (σ : Nat → QV) (vs : List Nat) : Prop :=
  ∀ i ∈ vs, ∀ j ∈ vs, ∀ x, t.rdist? i j = some x → σ j - σ i ≤ x

/-- the entries between the listed time points are well-formed matrix entries -/
def Dl.GoodOn (t : Dl IR) (vs : List Nat) : Prop :=
  ∀ i ∈ vs, ∀ j ∈ vs, IR.Good (Dl.d rdlOps t i j)

end Oratio
