/-
C09X, part 1: arithmetic of `inf_rational` bounds read as ε-rationals (`QV`), comparisons with
infinite bounds, and the row sums `Σ cᵢ·ν(xᵢ)` over `QV`.
-/
import OratioProofs.Lemmas.LraExplDefs
import OratioProofs.Lemmas.C09Algebra
import Mathlib.Tactic.Abel

namespace Oratio

open C09A in
theorem QV.smul_mk (c a b : ℚ) : c • (toLex (a, b) : QV) = toLex (c * a, c * b) := rfl

theorem QV.add_mk (a b c d : ℚ) : (toLex (a, b) : QV) + toLex (c, d) = toLex (a + c, b + d) := rfl

theorem QV.smul_le_of_nonneg {c : ℚ} (hc : 0 ≤ c) {a b : QV} (h : a ≤ b) : c • a ≤ c • b :=
  smul_le_smul_of_nonneg_left h hc

theorem QV.smul_le_of_nonpos {c : ℚ} (hc : c ≤ 0) {a b : QV} (h : a ≤ b) : c • b ≤ c • a :=
  C09A.Val.smul_le_smul_of_nonpos hc h

namespace IR
open R

theorem fin_ofR {k : R} (hk : FinWF k) : Fin (IR.ofR k) ∧ val (IR.ofR k) = toLex (k.toRat, 0) := by
  refine ⟨⟨hk, finWF_zero⟩, ?_⟩
  show (toLex (k.toRat, zero.toRat) : QV) = _
  rw [toRat_zero]

theorem fin_rMul {c : R} {b : IR} (hc : FinWF c) (hb : Fin b) :
    Fin (IR.rMul c b) ∧ val (IR.rMul c b) = c.toRat • val b := by
  obtain ⟨a1, a2⟩ := mul_fin hc hb.1
  obtain ⟨b1, b2⟩ := mul_fin hc hb.2
  refine ⟨⟨a1, b1⟩, ?_⟩
  show (toLex ((R.mul c b.rat).toRat, (R.mul c b.inf).toRat) : QV) = _
  rw [a2, b2]; rfl

theorem fin_mulR {c : R} {b : IR} (hc : FinWF c) (hb : Fin b) :
    Fin (IR.mulR b c) ∧ val (IR.mulR b c) = c.toRat • val b := by
  obtain ⟨a1, a2⟩ := mul_fin hb.1 hc
  obtain ⟨b1, b2⟩ := mul_fin hb.2 hc
  refine ⟨⟨a1, b1⟩, ?_⟩
  show (toLex ((R.mul b.rat c).toRat, (R.mul b.inf c).toRat) : QV) = _
  rw [a2, b2, mul_comm b.rat.toRat, mul_comm b.inf.toRat]; rfl

theorem fin_addAssign {x y : IR} (hx : Fin x) (hy : Fin y) :
    Fin (IR.addAssign x y) ∧ val (IR.addAssign x y) = val x + val y := by
  refine ⟨⟨finWF_addAssign hx.1 hy.1, finWF_addAssign hx.2 hy.2⟩, ?_⟩
  show (toLex ((R.addAssign x.rat y.rat).toRat, (R.addAssign x.inf y.inf).toRat) : QV) = _
  rw [toRat_addAssign hx.1 hy.1, toRat_addAssign hx.2 hy.2]; rfl

theorem fin_sub {x y : IR} (hx : Fin x) (hy : Fin y) :
    Fin (IR.sub x y) ∧ val (IR.sub x y) = val x - val y := by
  have e1 : R.sub x.rat y.rat = R.subAssign x.rat y.rat := (subAssign_eq_sub _ _).symm
  have e2 : R.sub x.inf y.inf = R.subAssign x.inf y.inf := (subAssign_eq_sub _ _).symm
  refine ⟨⟨?_, ?_⟩, ?_⟩
  · show FinWF (R.sub x.rat y.rat)
    rw [e1]; exact finWF_subAssign hx.1 hy.1
  · show FinWF (R.sub x.inf y.inf)
    rw [e2]; exact finWF_subAssign hx.2 hy.2
  show (toLex ((R.sub x.rat y.rat).toRat, (R.sub x.inf y.inf).toRat) : QV) = _
  rw [e1, e2, toRat_subAssign hx.1 hy.1, toRat_subAssign hx.2 hy.2]; rfl

theorem fin_divR {x : IR} {c : R} (hx : Fin x) (hc : FinWF c) (nz : c.num ≠ 0) :
    Fin (IR.divR x c) ∧ val (IR.divR x c) = (c.toRat)⁻¹ • val x := by
  obtain ⟨a1, a2⟩ := div_fin hx.1 hc nz
  obtain ⟨b1, b2⟩ := div_fin hx.2 hc nz
  refine ⟨⟨a1, b1⟩, ?_⟩
  show (toLex ((R.div x.rat c).toRat, (R.div x.inf c).toRat) : QV) = _
  rw [a2, b2, div_eq_inv_mul, div_eq_inv_mul]; rfl

theorem fin_eps : Fin (⟨R.zero, R.one⟩ : IR) ∧ val (⟨R.zero, R.one⟩ : IR) = QV.eps := by
  refine ⟨⟨finWF_zero, by decide, by decide⟩, ?_⟩
  show (toLex (zero.toRat, one.toRat) : QV) = toLex (0, 1)
  rw [toRat_zero, toRat_one]

theorem fin_add_eps {v : IR} (hv : Fin v) :
    Fin (IR.add v ⟨R.zero, R.one⟩) ∧ val (IR.add v ⟨R.zero, R.one⟩) = val v + QV.eps := by
  obtain ⟨h1, h2⟩ := val_add_fin hv fin_eps.1
  exact ⟨h1, by rw [h2, fin_eps.2]⟩

theorem fin_sub_eps {v : IR} (hv : Fin v) :
    Fin (IR.sub v ⟨R.zero, R.one⟩) ∧ val (IR.sub v ⟨R.zero, R.one⟩) = val v - QV.eps := by
  obtain ⟨h1, h2⟩ := fin_sub hv fin_eps.1
  exact ⟨h1, by rw [h2, fin_eps.2]⟩

/-! ### comparisons -/

theorem gt_eq_lt (a b : IR) : IR.gt a b = IR.lt b a := by
  unfold IR.gt IR.lt
  rw [R.gt_eq_lt, R.gt_eq_lt, eq_eq_decide, eq_eq_decide]
  congr 2
  exact decide_eq_decide.2 ⟨fun h => h.symm, fun h => h.symm⟩

theorem ge_eq_le (a b : IR) : IR.ge a b = IR.le b a := by
  unfold IR.ge IR.le
  rw [R.gt_eq_lt, R.ge_eq_le, eq_eq_decide, eq_eq_decide]
  congr 2
  exact decide_eq_decide.2 ⟨fun h => h.symm, fun h => h.symm⟩

theorem lt_false_val {x y : IR} (hx : Fin x) (hy : Fin y) : IR.lt x y = false ↔ val y ≤ val x := by
  rw [← not_lt, ← lt_val hx hy]; simp

theorem le_false_val {x y : IR} (hx : Fin x) (hy : Fin y) : IR.le x y = false ↔ val y < val x := by
  rw [← not_le, ← le_val hx hy]; simp

/-- a finite value against `+∞` -/
theorem lt_fin_pinf' {x y : IR} (hx : Fin x) (hy : y.rat = pinf) : IR.lt x y = true := by
  unfold IR.lt; rw [hy, lt_fin_pinf hx.1]; rfl

theorem le_fin_pinf' {x y : IR} (hx : Fin x) (hy : y.rat = pinf) : IR.le x y = true := by
  unfold IR.le; rw [hy, lt_fin_pinf hx.1]; rfl

theorem lt_ninf_fin {a : R} (ha : FinWF a) : R.lt ninf a = true := by
  rw [lt_spec (by decide) ha.1, ha.toE, toE_ninf]; rfl

theorem lt_fin_ninf {a : R} (ha : FinWF a) : R.lt a ninf = false := by
  rw [lt_spec ha.1 (by decide), ha.toE, toE_ninf]; rfl

theorem lt_pinf_fin {a : R} (ha : FinWF a) : R.lt pinf a = false := lt_pinf_any ha.1

theorem eq_ninf_fin {b : R} (hb : FinWF b) : R.eq ninf b = false := by
  rw [eq_eq_decide, decide_eq_false_iff_not]
  intro e; exact hb.2 (by rw [← e]; rfl)

theorem eq_fin_ninf {a : R} (ha : FinWF a) : R.eq a ninf = false := by
  rw [eq_eq_decide, decide_eq_false_iff_not]
  intro e; exact ha.2 (by rw [e]; rfl)

theorem lt_ninf_fin' {x y : IR} (hx : x.rat = ninf) (hy : Fin y) : IR.lt x y = true := by
  unfold IR.lt; rw [hx, lt_ninf_fin hy.1]; rfl

theorem le_ninf_fin' {x y : IR} (hx : x.rat = ninf) (hy : Fin y) : IR.le x y = true := by
  unfold IR.le; rw [hx, lt_ninf_fin hy.1]; rfl

theorem lt_fin_ninf' {x y : IR} (hx : Fin x) (hy : y.rat = ninf) : IR.lt x y = false := by
  unfold IR.lt; rw [hy, lt_fin_ninf hx.1, eq_fin_ninf hx.1]; rfl

theorem le_fin_ninf' {x y : IR} (hx : Fin x) (hy : y.rat = ninf) : IR.le x y = false := by
  unfold IR.le; rw [hy, lt_fin_ninf hx.1, eq_fin_ninf hx.1]; rfl

theorem lt_pinf_fin' {x y : IR} (hx : x.rat = pinf) (hy : Fin y) : IR.lt x y = false := by
  unfold IR.lt; rw [hx, lt_pinf_fin hy.1, eq_pinf_fin hy.1]; rfl

theorem le_pinf_fin' {x y : IR} (hx : x.rat = pinf) (hy : Fin y) : IR.le x y = false := by
  unfold IR.le; rw [hx, lt_pinf_fin hy.1, eq_pinf_fin hy.1]; rfl

end IR

namespace Lra
open IR

/-! ### bounds against finite values -/

theorem LbOk.of_fin {b : IR} (h : IR.Fin b) : LbOk b := Or.inl h
theorem UbOk.of_fin {b : IR} (h : IR.Fin b) : UbOk b := Or.inl h

theorem fin_not_ninf {b : IR} (h : IR.Fin b) : b.rat ≠ R.ninf := fun e => h.1.2 (by rw [e]; rfl)
theorem fin_not_pinf {b : IR} (h : IR.Fin b) : b.rat ≠ R.pinf := fun e => h.1.2 (by rw [e]; rfl)

/-- `BLe` on a finite bound -/
theorem BLe.fin {b : IR} {v : QV} (hb : IR.Fin b) : BLe b v ↔ IR.val b ≤ v := by
  unfold BLe; rw [if_neg hb.1.2]

theorem VLe.fin {b : IR} {v : QV} (hb : IR.Fin b) : VLe v b ↔ v ≤ IR.val b := by
  unfold VLe; rw [if_neg hb.1.2]

theorem BLe.ninf {b : IR} {v : QV} (hb : b.rat = R.ninf) : BLe b v := by
  unfold BLe; rw [hb, if_pos (show R.ninf.den = 0 from rfl)]; decide

theorem VLe.pinf {b : IR} {v : QV} (hb : b.rat = R.pinf) : VLe v b := by
  unfold VLe; rw [hb, if_pos (show R.pinf.den = 0 from rfl)]; decide

/-- `v < ub` fails for a finite value `v`: the bound is finite and at most `v` -/
theorem ub_of_not_lt {v b : IR} (hv : IR.Fin v) (hb : UbOk b) (h : IR.lt v b = false) :
    IR.Fin b ∧ IR.val b ≤ IR.val v := by
  rcases hb with hb | hb
  · exact ⟨hb, (lt_false_val hv hb).1 h⟩
  · rw [lt_fin_pinf' hv hb] at h; cases h

/-- `v > lb` fails for a finite value `v`: the bound is finite and at least `v` -/
theorem lb_of_not_gt {v b : IR} (hv : IR.Fin v) (hb : LbOk b) (h : IR.gt v b = false) :
    IR.Fin b ∧ IR.val v ≤ IR.val b := by
  rw [gt_eq_lt] at h
  rcases hb with hb | hb
  · exact ⟨hb, (lt_false_val hb hv).1 h⟩
  · rw [lt_ninf_fin' hb hv] at h; cases h

/-- `v < lb` holds for a finite `v`: the bound is finite and above `v` -/
theorem lb_of_lt {v b : IR} (hv : IR.Fin v) (hb : LbOk b) (h : IR.lt v b = true) :
    IR.Fin b ∧ IR.val v < IR.val b := by
  rcases hb with hb | hb
  · exact ⟨hb, (lt_val hv hb).1 h⟩
  · rw [lt_fin_ninf' hv hb] at h; cases h

/-- `v > ub` holds for a finite `v`: the bound is finite and below `v` -/
theorem ub_of_gt {v b : IR} (hv : IR.Fin v) (hb : UbOk b) (h : IR.gt v b = true) :
    IR.Fin b ∧ IR.val b < IR.val v := by
  rw [gt_eq_lt] at h
  rcases hb with hb | hb
  · exact ⟨hb, (lt_val hb hv).1 h⟩
  · rw [lt_pinf_fin' hb hv] at h; cases h

/-- `lb > v` / `lb ≥ v` hold for a finite `v`: the lower bound is finite -/
theorem lb_of_gt {v b : IR} (hv : IR.Fin v) (hb : LbOk b) (h : IR.gt b v = true) :
    IR.Fin b ∧ IR.val v < IR.val b := by
  rw [gt_eq_lt] at h
  exact lb_of_lt hv hb h

theorem lb_of_ge {v b : IR} (hv : IR.Fin v) (hb : LbOk b) (h : IR.ge b v = true) :
    IR.Fin b ∧ IR.val v ≤ IR.val b := by
  rw [ge_eq_le] at h
  rcases hb with hb | hb
  · exact ⟨hb, (le_val hv hb).1 h⟩
  · rw [le_fin_ninf' hv hb] at h; cases h

/-- `ub ≤ v` / `ub < v` hold for a finite `v`: the upper bound is finite -/
theorem ub_of_le {v b : IR} (hv : IR.Fin v) (hb : UbOk b) (h : IR.le b v = true) :
    IR.Fin b ∧ IR.val b ≤ IR.val v := by
  rcases hb with hb | hb
  · exact ⟨hb, (le_val hb hv).1 h⟩
  · rw [le_pinf_fin' hb hv] at h; cases h

theorem ub_of_lt {v b : IR} (hv : IR.Fin v) (hb : UbOk b) (h : IR.lt b v = true) :
    IR.Fin b ∧ IR.val b < IR.val v := by
  rcases hb with hb | hb
  · exact ⟨hb, (lt_val hb hv).1 h⟩
  · rw [lt_pinf_fin' hb hv] at h; cases h

/-- the model's tests for infinite bounds -/
theorem lb_of_not_isNegInf {b : IR} (hb : LbOk b) (h : isNegInf b = false) : IR.Fin b := by
  rcases hb with hb | hb
  · exact hb
  · exfalso
    have : isNegInf b = true := by
      unfold isNegInf IR.isNegative IR.isInfinite
      rw [hb]; rfl
    rw [this] at h; cases h

theorem ub_of_not_isPosInf {b : IR} (hb : UbOk b) (h : isPosInf b = false) : IR.Fin b := by
  rcases hb with hb | hb
  · exact hb
  · exfalso
    have : isPosInf b = true := by
      unfold isPosInf IR.isPositive IR.isInfinite
      rw [hb]; rfl
    rw [this] at h; cases h

/-! ### signs of coefficients -/

theorem pos_toRat {c : R} (hc : R.FinWF c) (h : c.isPositive = true) : 0 < c.toRat :=
  (R.toRat_pos_iff hc).2 (by simpa [R.isPositive] using h)

theorem neg_toRat {c : R} (hc : R.FinWF c) (h : c.isNegative = true) : c.toRat < 0 :=
  (R.toRat_neg_iff hc).2 (by simpa [R.isNegative] using h)

theorem zero_toRat {c : R} (hc : R.FinWF c) (h1 : c.isPositive = false) (h2 : c.isNegative = false) :
    c.toRat = 0 := by
  have a1 : ¬ 0 < c.toRat := fun h => by
    have := (R.toRat_pos_iff hc).1 h
    simp [R.isPositive] at h1; omega
  have a2 : ¬ c.toRat < 0 := fun h => by
    have := (R.toRat_neg_iff hc).1 h
    simp [R.isNegative] at h2; omega
  exact le_antisymm (not_lt.1 a1) (not_lt.1 a2)

/-! ### row sums over `QV` -/

/-- `Σ cᵢ·ν(xᵢ)` -/
def sumQ (ν : Nat → QV) (m : List (Nat × R)) : QV := (m.map (fun t => t.2.toRat • ν t.1)).sum

/-- the value of a row under an ε-rational valuation -/
def evalQ (l : Lin) (ν : Nat → QV) : QV := sumQ ν l.vars + toLex (l.known.toRat, 0)

@[simp] theorem sumQ_nil (ν : Nat → QV) : sumQ ν [] = 0 := rfl
@[simp] theorem sumQ_cons (ν : Nat → QV) (k : Nat) (c : R) (m : List (Nat × R)) :
    sumQ ν ((k, c) :: m) = c.toRat • ν k + sumQ ν m := by
  simp [sumQ]

theorem sumQ_nu (σr σi : Nat → Rat) (m : List (Nat × R)) :
    sumQ (nu σr σi) m = toLex (Lin.sumS σr m, Lin.sumS σi m) := by
  induction m with
  | nil => rfl
  | cons a m ih =>
    obtain ⟨k, c⟩ := a
    rw [sumQ_cons, ih, Lin.sumS_cons, Lin.sumS_cons]
    rfl

theorem evalQ_nu (σr σi : Nat → Rat) (l : Lin) :
    evalQ l (nu σr σi) = toLex (Lin.evalS l σr, Lin.evalS { l with known := R.zero } σi) := by
  unfold evalQ
  rw [sumQ_nu, Lin.evalS_eq, Lin.evalS_eq]
  show _ = toLex (_, Lin.sumS σi l.vars + R.zero.toRat)
  rw [R.toRat_zero, QV.add_mk, add_zero]

/-- a solution of the tableau satisfies every row as an equation between ε-rationals -/
theorem Solves.row {t : Lra} {σr σi : Nat → Rat} (h : Solves t σr σi) {e : Nat × Lin} (he : e ∈ t.tableau) :
    nu σr σi e.1 = evalQ e.2 (nu σr σi) := by
  rw [evalQ_nu, ← h.1 e he, ← h.2 e he]
  rfl

/-- termwise comparison of two valuations along a row -/
theorem sumQ_le {ν μ : Nat → QV} {m : List (Nat × R)}
    (h : ∀ p ∈ m, p.2.toRat • ν p.1 ≤ p.2.toRat • μ p.1) : sumQ ν m ≤ sumQ μ m := by
  induction m with
  | nil => exact le_refl _
  | cons a m ih =>
    obtain ⟨k, c⟩ := a
    rw [sumQ_cons, sumQ_cons]
    exact add_le_add (h (k, c) List.mem_cons_self) (ih (fun p hp => h p (List.mem_cons_of_mem _ hp)))

theorem evalQ_le {ν μ : Nat → QV} {l : Lin}
    (h : ∀ p ∈ l.vars, p.2.toRat • ν p.1 ≤ p.2.toRat • μ p.1) : evalQ l ν ≤ evalQ l μ := by
  unfold evalQ
  exact add_le_add (sumQ_le h) (le_refl _)

/-- the current assignment as an ε-rational valuation -/
theorem nu_assign (t : Lra) (x : Nat) : nu t.ratAssign t.infAssign x = IR.val (t.value x) := rfl

end Lra
end Oratio
