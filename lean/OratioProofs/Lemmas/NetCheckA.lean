/-
C07NC (soundness of `Net.check`), part A: the network invariant with the BOUNDED decision component
`Sat.DecOK m` (the standing decisions of the first `m` levels are the first literals of their levels;
nothing is said about the decisions above level `m`), and `Net.propagate` under it.

`NetInv` (Lemmas/NetInvA.lean) carries `∀ m, DecOK m`, which is false inside the loop of `check(lits)` as
soon as a literal is already true when it is assumed (the level is opened, nothing is put on the trail).
No step of `propagate` uses that component - it is only carried - so the lemmas of NetSatRecord /
NetSatRecs / NetInvA / NetInvB are restated here for a fixed bound `m` (`SInvB`, `NetInvB`); the underlying
SAT lemmas (`wfs_popTo`, `record_wfs`, `DecOK.step`) are already stated for a fixed `m`.
-/
import OratioProofs.Lemmas.NetBj

set_option linter.unusedSimpArgs false
set_option linter.unusedVariables false

namespace Oratio
namespace NetCheck
open Sat Net

/-- `Sat.SInv` with the decision component bounded by `m` -/
structure SInvB (m : Nat) (orig K : Cnf) (s : Sat) : Prop where
  wf : s.WfS
  ent : s.Ent orig K
  dec : s.DecOK m

theorem SInvB.ofS {m : Nat} {orig K : Cnf} {s : Sat} (h : SInv orig K s) : SInvB m orig K s := ⟨h.wf, h.ent, h.dec m⟩

/-- when no decision stands above level `m` the bounded invariant is the full one -/
theorem SInvB.toS {m : Nat} {orig K : Cnf} {s : Sat} (h : SInvB m orig K s) (hm : s.decisions.length ≤ m) : SInv orig K s :=
  ⟨h.wf, h.ent, fun m' => h.dec.of_len hm m'⟩

theorem SInvB.mono_orig {m : Nat} {orig orig' K : Cnf} {s : Sat} (h : SInvB m orig K s) (hs : ∀ d ∈ orig, d ∈ orig') :
    SInvB m orig' K s := ⟨h.wf, h.ent.mono_orig hs, h.dec⟩

/-- analyze + backjump + record under `SInvB` (`Sat.learnS`) -/
theorem SInvB.learnS {m : Nat} {orig K : Cnf} {s : Sat} (h : SInvB m orig K s) (hq : s.queue = [])
    (hL : 0 < s.decisionLevel) (cnfl : Clause) (hcE : Ents orig cnfl)
    (hcF : ∀ l ∈ cnfl, l.neg ∈ s.trail ∨ l = Lit.falseLit)
    (hcL : ∃ l ∈ cnfl, l.neg ∈ s.trail ∧ s.lvl l = s.decisionLevel) (noGood : List Lit) (bt : Nat) (s3 : Sat)
    (han : s.analyze cnfl = some (noGood, bt, s3)) :
    SInvB m orig K ((s3.popTo bt).record noGood) ∧ Ents orig noGood ∧
    ((s3.popTo bt).record noGood).log = s.log ++ [noGood] ∧ ((s3.popTo bt).record noGood).dead = s.dead ∧
    ((s3.popTo bt).record noGood).decisions <:+ s.decisions ∧ ((s3.popTo bt).record noGood).decisionLevel = bt ∧
    bt < s.decisionLevel ∧ ((s3.popTo bt).record noGood).vals.length = s.vals.length ∧
    ((s3.popTo bt).record noGood).exprs = s.exprs ∧
    (∃ l0, ((s3.popTo bt).record noGood).queue = [l0]) ∧ s3.decisionLevel = s.decisionLevel ∧
    (s3.popTo bt).record noGood = (s.popTo bt).record noGood ∧ (s.popTo bt).WfS ∧
    (∀ x ∈ (s.popTo bt).trail, ((s.popTo bt).record noGood).lvl x = (s.popTo bt).lvl x) ∧
    (s.popTo bt).queue = [] := by
  obtain ⟨p', learnt, k, hlits, hpt, hpl, hent, hlearnt, hbt, hbt0, hbtx, hnd, hs3, hk⟩ :=
    analyze_specS orig K s h.wf h.wf.lvl0 h.ent hL cnfl hcE hcF hcL noGood bt s3 han
  subst hs3 hlits
  have hdl3 : (s.popN k).decisionLevel = s.decisionLevel := an_popN_decisionLevel k s
  rw [popN_popTo s k bt hbt hk]
  obtain ⟨hTw, hTe, hTd, hrel, hlev⟩ := wfs_popTo (m := m) h.wf h.ent h.dec hq bt hbt
  have hpv : (s.popTo bt).value p'.neg = none := by
    have := hrel.gone p' hpt (by rw [hlev, hpl]; exact hbt)
    rw [value_eq_none] at this ⊢; exact this
  have hplt : p'.neg.var < (s.popTo bt).vals.length := by
    rw [hrel.lenVals]; exact h.wf.a.trail_lt (l := p') hpt
  have hrest : ∀ x ∈ learnt, x.neg ∈ (s.popTo bt).trail ∨ x = Lit.falseLit := by
    intro x hx
    obtain ⟨h1, _, h3⟩ := hlearnt x hx
    exact Or.inl (hrel.kept _ h1 (by rw [hlev]; simpa using h3))
  have hrec := record_wfs (m := m) hTw hTe hTd p'.neg learnt hpv hplt hrest
    (fun e => Or.inl (by rw [hlev]; exact hbt0 e)) hent
  obtain ⟨r1, r2, r3, rr⟩ := hrec
  refine ⟨⟨r1, r2, r3⟩, hent, ?_, ?_, ?_, ?_, hbt, ?_, ?_, ⟨p'.neg, ?_⟩, hdl3, rfl, hTw, rr.lvl,
    by rw [hrel.queue]; exact hq⟩
  · rw [rr.log, hrel.log]
  · rw [rr.dead, hrel.dead]
  · rw [rr.decisions, hrel.decisions]; exact List.drop_suffix _ _
  · show ((s.popTo bt).record (p'.neg :: learnt)).trailLim.length = bt
    rw [rr.trailLim]; exact hlev
  · rw [rr.lenVals, hrel.lenVals]
  · rw [rr.exprs, hrel.exprs]
  · rw [rr.queue, hrel.queue, hq]; rfl

/-- `Sat.SInv.recs` -/
theorem SInvB.recs {m : Nat} {orig K : Cnf} {s s' : Sat} {new : List Clause} (h : SInvB m orig K s) (hr : Recs s new s')
    (hent : ∀ c ∈ new, Ents orig c) : SInvB m orig K s' ∧ RecsRel s s' new := by
  induction hr with
  | refl => exact ⟨h, by simp, rfl, rfl, rfl, rfl, rfl, List.suffix_refl _, AssignedKeep.refl _, List.prefix_refl _⟩
  | @step s1 new c hr1 hg ih =>
    obtain ⟨h1, r1⟩ := ih (fun c hc => hent c (List.mem_append_left _ hc))
    obtain ⟨l0, rest, rfl, hv, hlt, hf, hne⟩ := hg
    have hrest : ∀ x ∈ rest, x.neg ∈ s1.trail ∨ x = Lit.falseLit := fun x hx => h1.wf.a.value_false.1 (hf x hx)
    have hE := hent (l0 :: rest) (List.mem_append_right _ (List.mem_singleton.2 rfl))
    have hrec := record_wfs (m := m) h1.wf h1.ent h1.dec l0 rest hv hlt hrest (fun e => absurd e hne) hE
    obtain ⟨w, e, d, rr⟩ := hrec
    refine ⟨⟨w, e, d⟩, ?_, ?_, ?_, ?_, ?_, ?_, ?_, ?_, ?_⟩
    · rw [rr.log, r1.log, List.append_assoc]
    · rw [rr.dead, r1.dead]
    · rw [rr.decisions, r1.decisions]
    · rw [rr.trailLim, r1.trailLim]
    · rw [rr.lenVals, r1.lenVals]
    · rw [rr.exprs, r1.exprs]
    · rw [rr.trail]; exact r1.trail.trans (List.suffix_cons _ _)
    · exact r1.keep.trans (assignedKeep_of_trail h1.wf w.lvl0 (Dl.record_le _ _) rr.lvl)
    · rw [rr.queue]; exact r1.queue.trans (List.prefix_append _ _)

/-- `Sat.uns_of_false_clause` (only `WfS` and `Ent` are used) -/
theorem uns_of_false_clauseB {orig K : Cnf} {s : Sat} (hw : s.WfS) (he : s.Ent orig K) {c : Clause} (hc : Ents orig c)
    (hf : ∀ l ∈ c, s.value l = some false) : Uns (orig ++ units s.decisions) := by
  intro α h0
  cases hF : α.cnf (orig ++ units s.decisions) with
  | false => rfl
  | true =>
    exfalso
    have hF' := hF
    rw [Asg.cnf_append] at hF'
    simp only [Bool.and_eq_true] at hF'
    have h1 := hc α h0 hF'.1
    simp only [Asg.clause, List.any_eq_true] at h1
    obtain ⟨l, hl, hv⟩ := h1
    rcases hw.a.value_false.1 (hf l hl) with ht | rfl
    · have := he.trail _ ht α h0 (by
        rw [Asg.cnf_append]
        simp only [Bool.and_eq_true]
        refine ⟨hF'.1, ?_⟩
        have h2 := hF'.2
        rw [Asg.cnf_units, List.all_eq_true] at h2 ⊢
        exact fun d hd => h2 d (decsUpTo_sub _ _ d hd))
      simp only [Asg.clause, List.any_cons, List.any_nil, Bool.or_false] at this
      rw [Asg.lit_neg] at this
      simp [hv] at this
    · simp [Asg.lit, Lit.falseLit, h0] at hv

theorem SInvB.setDead {m : Nat} {orig K K' : Cnf} {s : Sat} (h : SInvB m orig K s) (hu : Uns orig) :
    SInvB m orig K' { s with dead := true } :=
  ⟨h.wf.of_eq rfl rfl rfl rfl rfl rfl rfl rfl rfl rfl rfl,
    ⟨h.ent.clauses, h.ent.trail, h.ent.log, fun _ => hu, fun hd => by cases hd⟩, h.dec⟩

/-! ### the invariant of the network, bounded -/

/-- `NetInv` with the decision component bounded by `m` -/
structure NetInvB (m : Nat) (n : Net) (orig L : Cnf) (fr : List Frame) : Prop where
  sat : SInvB m (orig ++ L) orig n.sat
  lemmas : ∀ c ∈ L, TEntails n orig c
  th : ThInv n (orig ++ L) fr
  flv : FramesLv n.sat fr
  flen : fr.length = n.sat.decisionLevel
  reg : NetReg n

theorem NetInvB.ofInv {m : Nat} {n : Net} {orig L : Cnf} {fr : List Frame} (h : NetInv n orig L fr) : NetInvB m n orig L fr :=
  ⟨SInvB.ofS h.sat, h.lemmas, h.th, h.flv, h.flen, h.reg⟩

theorem NetInvB.toInv {m : Nat} {n : Net} {orig L : Cnf} {fr : List Frame} (h : NetInvB m n orig L fr)
    (hm : n.sat.decisionLevel ≤ m) : NetInv n orig L fr :=
  ⟨h.sat.toS (by rw [h.sat.wf.a.decLen]; exact hm), h.lemmas, h.th, h.flv, h.flen, h.reg⟩

/-- soundness needs no decision component at all -/
theorem NetInvB.sound {m : Nat} {n : Net} {orig L : Cnf} {fr : List Frame} (h : NetInvB m n orig L fr) : NetSound n orig := by
  refine ⟨fun e he => tentails_of_ents' h.lemmas (h.sat.ent.clauses e he),
    fun c hc => tentails_of_ents' h.lemmas (h.sat.ent.log c hc),
    fun l hl => tentails_of_ents h.lemmas ((h.sat.ent.trail l hl).mono (Sat.units_mono (List.drop_suffix _ _))), ?_⟩
  intro hd α h0 hm
  cases ho : α.cnf orig with
  | false => rfl
  | true =>
    have := h.sat.ent.dead hd α h0
    rw [Asg.cnf_append, ho, Bool.true_and] at this
    have hL : α.cnf L = true := by
      simp only [Asg.cnf, List.all_eq_true]
      exact fun d hd' => h.lemmas d hd' α h0 ho hm
    rw [hL] at this; cases this

theorem NetInvB.addLemma {m : Nat} {n : Net} {orig L : Cnf} {fr : List Frame} (h : NetInvB m n orig L fr) (c : Clause)
    (hc : TEntails n orig c) : NetInvB m n orig (L ++ [c]) fr :=
  ⟨h.sat.mono_orig (fun d hd => by
      rcases List.mem_append.1 hd with hd | hd
      · exact List.mem_append_left _ hd
      · exact List.mem_append_right _ (List.mem_append_left _ hd)),
    fun d hd => by
      rcases List.mem_append.1 hd with hd | hd
      · exact h.lemmas d hd
      · rw [List.mem_singleton.1 hd]; exact hc,
    h.th.mono_origN (fun d hd => by
      rcases List.mem_append.1 hd with hd | hd
      · exact List.mem_append_left _ hd
      · exact List.mem_append_right _ (List.mem_append_left _ hd)), h.flv, h.flen, h.reg⟩

theorem NetInvB.rootConflict {m : Nat} {n : Net} {orig L : Cnf} {fr : List Frame} (h : NetInvB m n orig L fr) {c : Clause}
    (hT : TEntails n orig c) (hf : ∀ l ∈ c, n.sat.value l = some false) (hroot : n.sat.trailLim = []) :
    NetInvB m { n with sat := { n.sat with dead := true } } orig (L ++ [c]) fr := by
  have h1 := h.addLemma c hT
  have hdec : n.sat.decisions = [] := by
    have := h.sat.wf.a.decLen; rw [hroot] at this; simpa using this
  have hU : Uns (orig ++ (L ++ [c])) := by
    have := uns_of_false_clauseB h1.sat.wf h1.sat.ent (ents_last c) hf
    rw [hdec] at this
    exact Uns.mono this (fun d hd => by simpa [units] using hd)
  exact ⟨h1.sat.setDead hU, h1.lemmas, h1.th.assign _ (Dl.SatLe.refl _),
    FramesLv.keep (s := n.sat) (s' := { n.sat with dead := true }) (fun v b hv => ⟨hv, rfl⟩) fr h1.flv, h1.flen, h1.reg⟩

/-- conflict analysis keeps the bounded invariant (`NetInv.learn`) -/
theorem NetInvB.learn {m : Nat} {n n' : Net} {orig L : Cnf} {fr : List Frame} {cnfl : Clause} (h : NetInvB m n orig L fr)
    (hq : n.sat.queue = []) (hL : 0 < n.sat.decisionLevel) (hT : TEntails n orig cnfl)
    (hcF : ∀ l ∈ cnfl, n.sat.value l = some false)
    (hcL : ∃ l ∈ cnfl, l.neg ∈ n.sat.trail ∧ n.sat.lvl l = n.sat.decisionLevel)
    (hl : learnFrom n cnfl = some n') :
    ∃ fr', NetInvB m n' orig (L ++ [cnfl]) fr' ∧ n'.sat.dead = n.sat.dead ∧ (∀ α, TModel n' α ↔ TModel n α) ∧
      n'.sat.decisionLevel < n.sat.decisionLevel := by
  have h1 := h.addLemma cnfl hT
  unfold learnFrom at hl
  split at hl
  · cases hl
  · rename_i noGood bt s3 han
    obtain ⟨r1, r2, r3, r4, r5, r6, r7, r8, r9, r10, r11, r12, r13, r14, r15⟩ :=
      h1.sat.learnS hq hL cnfl (ents_last cnfl) (fun l hl' => h.sat.wf.a.value_false.1 (hcF l hl')) hcL noGood bt s3 han
    have heq := learnFrom_eq r11 hl
    rw [r12] at heq r1 r3 r4 r5 r6 r8 r9 r10
    have hcongr : ∀ α, TModel n' α ↔ TModel n α := by
      intro α
      rw [heq]
      exact (TModel.congr (n := Net.popTo n bt) (n' := { Net.popTo n bt with sat := (n.sat.popTo bt).record noGood })
        (LraSame.refl _) rfl rfl α).trans (TModel.popTo n bt α)
    have hsat : n'.sat = (n.sat.popTo bt).record noGood := by rw [heq]
    obtain ⟨fr', t1, t2, t3⟩ := ThInv.popTo_goLv bt n.sat.decisionLevel n fr h1.th h.sat.wf hq h.flv h.flen
    have hps : (Net.popTo n bt).sat = n.sat.popTo bt := popTo_sat n bt
    have hkeep : AssignedKeep (n.sat.popTo bt) ((n.sat.popTo bt).record noGood) :=
      assignedKeep_of_trail r13 r1.wf.lvl0 (Dl.record_le _ _) r14
    refine ⟨fr', ⟨by rw [hsat]; exact r1, fun c hc => TEntails.congr (fun α hm => (hcongr α).1 hm) (h1.lemmas c hc),
      ?_, ?_, ?_, ?_⟩, by rw [hsat]; exact r4, hcongr, by rw [hsat, r6]; exact r7⟩
    · rw [heq]
      exact ThInv.assign (n := Net.popTo n bt) t1 _ (by
        show Dl.SatLe (Net.popTo n bt).sat _
        rw [hps]; exact Dl.record_le _ _)
    · rw [hsat]
      exact FramesLv.keep hkeep fr' (by
        have : FramesLv (Net.popTo n bt).sat fr' := t2
        rw [hps] at this; exact this)
    · rw [hsat, r6]
      have : fr'.length = (Net.popTo n bt).sat.decisionLevel := t3
      rw [this, hps, Sat.popTo_level]; omega
    · rw [heq]
      show ThReg ((n.sat.popTo bt).record noGood).vals.length (Net.popTo n bt).lra (Net.popTo n bt).idl (Net.popTo n bt).rdl
      rw [r8]
      exact ThReg.popTo_go bt _ n h.reg

theorem NetInvB.setSat {m : Nat} {n : Net} {orig L : Cnf} {fr : List Frame} (h : NetInvB m n orig L fr) (s' : Sat)
    (hs : SInvB m (orig ++ L) orig s') (hk : AssignedKeep n.sat s') (hl : s'.trailLim = n.sat.trailLim)
    (hlen : s'.vals.length = n.sat.vals.length) :
    NetInvB m { n with sat := s' } orig L fr :=
  ⟨hs, h.lemmas, h.th.assign s' hk.le, FramesLv.keep hk fr h.flv, by
    show fr.length = s'.trailLim.length
    rw [hl]; exact h.flen, by
    show ThReg s'.vals.length n.lra n.idl n.rdl
    rw [hlen]; exact h.reg⟩

/-- what `propagate` guarantees, bounded; also: the decision level does not grow -/
structure PropOutB (m : Nat) (n n' : Net) (orig : Cnf) (b : Bool) : Prop where
  inv : ∃ L' fr', NetInvB m n' orig L' fr'
  queue : n'.sat.queue = []
  dead : n'.sat.dead = !b
  root : b = false → n'.sat.trailLim = []
  tm : ∀ α, TModel n' α ↔ TModel n α

theorem PropOutB.trans {m : Nat} {n n1 n' : Net} {orig : Cnf} {b : Bool} (h : PropOutB m n1 n' orig b)
    (ht : ∀ α, TModel n1 α ↔ TModel n α) : PropOutB m n n' orig b :=
  ⟨h.inv, h.queue, h.dead, h.root, fun α => (h.tm α).trans (ht α)⟩

/-- `Net.propagate` keeps the bounded invariant (`propagate_inv`) -/
theorem propagate_invB {m : Nat} {orig : Cnf} : ∀ (fuel : Nat) (n : Net) (L : Cnf) (fr : List Frame),
    NetInvB m n orig L fr → n.sat.dead = false → ConflictsCurrent n fuel → ∀ b n', propagate n fuel = some (b, n') →
    PropOutB m n n' orig b
  | 0, n, L, fr, _, _, _, b, n', he => by simp [Net.propagate] at he
  | fuel + 1, n, L, fr, h, hd, hg, b, n', he => by
    unfold Net.propagate at he
    unfold ConflictsCurrent at hg
    cases hq : n.sat.queue with
    | nil =>
      rw [hq] at he hg
      simp only at he hg
      cases hchk : n.lra.check fuel with
      | none => rw [hchk] at he; simp at he
      | some res =>
        obtain ⟨c, t⟩ := res
        rw [hchk] at he hg
        obtain ⟨k1, k2, k3⟩ := lraCheck_spec h.th hchk
        have hinv1 : NetInvB m { n with lra := t } orig L fr :=
          ⟨h.sat, fun d hd' => TEntails.congr (fun α hm => (k2 α).1 hm) (h.lemmas d hd'), k1, h.flv, h.flen,
            ⟨by
              show ∀ e ∈ t.vAsrts, e.1 < n.sat.vals.length
              rw [((Lra.C09_core_iff n.lra t).1 (Lra.C09_core_check fuel n.lra t c hchk)).2.1]; exact h.reg.lra,
             h.reg.idl, h.reg.rdl, Lra.check_good fuel n.lra t c h.reg.good hchk,
             by rw [Lra.check_aWatches h.th.base.lra.inv.tab hchk]; exact h.reg.aw,
             by rw [((Lra.C09_core_iff n.lra t).1 (Lra.C09_core_check fuel n.lra t c hchk)).2.2.2.2]; exact h.reg.sa⟩⟩
        cases c with
        | none =>
          simp only [Option.some.injEq, Prod.mk.injEq] at he
          obtain ⟨rfl, rfl⟩ := he
          exact ⟨⟨L, fr, hinv1⟩, hq, by simpa using hd, (fun e => by cases e), k2⟩
        | some cnfl =>
          simp only at he hg
          obtain ⟨c1, c2⟩ := k3 cnfl rfl
          by_cases hroot : n.sat.rootLevel = true
          · rw [if_pos hroot] at he
            simp only [Option.some.injEq, Prod.mk.injEq] at he
            obtain ⟨rfl, rfl⟩ := he
            have := hinv1.rootConflict (TEntails.cut hinv1.lemmas c1) c2 ((rootLevel_iff _).1 hroot)
            exact ⟨⟨_, _, this⟩, hq, rfl, fun _ => (rootLevel_iff _).1 hroot, k2⟩
          · rw [if_neg hroot] at he hg
            obtain ⟨g1, g2⟩ := hg
            cases hlf : learnFrom { n with lra := t } cnfl with
            | none => rw [hlf] at he; simp at he
            | some n1 =>
              rw [hlf] at he g2
              simp only at he g2
              obtain ⟨fr', l1, l2, l3, _⟩ := hinv1.learn hq (dl_pos_of_not_root hroot) (TEntails.cut hinv1.lemmas c1) c2 g1 hlf
              exact (propagate_invB fuel n1 _ fr' l1 (by rw [l2]; exact hd) g2 b n' he).trans
                (fun α => (l3 α).trans (k2 α))
    | cons p q =>
      rw [hq] at he hg
      simp only at he hg
      have hpq := h.sat.wf.a.queueOK p (by rw [hq]; exact List.mem_cons_self ..)
      -- the state with the watch list of `p` detached
      have hs0 : SInvB m (orig ++ L) orig { n.sat with queue := q, watches := n.sat.watches.set p.idx [] } := by
        refine ⟨h.sat.wf.setWatchesQ _ q (fun x hx => by rw [hq]; exact List.mem_cons_of_mem _ hx) ?_,
          h.sat.ent.of_eq rfl rfl rfl rfl rfl rfl, h.sat.dec⟩
        intro i id hid
        rw [getD_set] at hid
        split at hid
        · cases hid
        · exact h.sat.wf.w i id hid
      have htmp : ∀ id ∈ n.sat.watches.getD p.idx [], ∃ c, (id, c) ∈ n.sat.cls ∧ p.neg ∈ c := by
        intro id hid
        obtain ⟨c, hc, l, hl, hi⟩ := h.sat.wf.w _ id hid
        have : l.neg = p := Lit.idx_inj hi
        exact ⟨c, hc, by rw [← this, Lit.neg_neg]; exact hl⟩
      obtain ⟨v1, v2, v3, v4⟩ := visit_sound (orig := orig ++ L) (K := orig) (p := p) _ _ hs0.wf hs0.ent hpq.1 htmp
      rcases hvw : Sat.visitWatchers { n.sat with queue := q, watches := n.sat.watches.set p.idx [] } p
        (n.sat.watches.getD p.idx []) with ⟨s1, oid⟩
      rw [hvw] at he hg v1 v2 v3 v4
      simp only at v1 v2 v3 v4
      have hs1 : SInvB m (orig ++ L) orig s1 := ⟨v1, v2, hs0.dec.step v3⟩
      have hk1 : AssignedKeep n.sat s1 := assignedKeep_of_trail h.sat.wf v1.lvl0 v3.le v3.lvl
      have hinv1 : NetInvB m { n with sat := s1 } orig L fr := h.setSat s1 hs1 hk1 v3.frame.trailLim v3.frame.lenVals
      have hd1 : s1.dead = false := by rw [v3.frame.dead]; exact hd
      have hp1 : p ∈ s1.trail := v3.trail.subset hpq.1
      have hpl1 : s1.lvl p = s1.decisionLevel := by
        have e1 : s1.lvl p = n.sat.lvl p := v3.lvl p hpq.1
        rw [e1, hpq.2]
        show n.sat.trailLim.length = s1.trailLim.length
        rw [v3.frame.trailLim]
      cases oid with
      | some id =>
        simp only at he hg
        obtain ⟨w1, c, w2, w3, w4⟩ := v4 id rfl
        have hcl : s1.clauseOf id = c := clauseOf_of_mem' v1.ids w2
        have hT : TEntails { n with sat := s1 } orig c := tentails_of_ents' hinv1.lemmas (v2.clauses _ w2)
        by_cases hroot : s1.rootLevel = true
        · rw [if_pos hroot] at he
          simp only [Option.some.injEq, Prod.mk.injEq] at he
          obtain ⟨rfl, rfl⟩ := he
          have := hinv1.rootConflict hT w4 ((rootLevel_iff _).1 hroot)
          exact ⟨⟨_, _, this⟩, w1, rfl, fun _ => (rootLevel_iff _).1 hroot, fun _ => Iff.rfl⟩
        · rw [if_neg hroot, hcl] at he hg
          cases hlf : learnFrom { n with sat := s1 } c with
          | none => rw [hlf] at he; simp at he
          | some n1 =>
            rw [hlf] at he hg
            simp only at he hg
            obtain ⟨fr', l1, l2, l3, _⟩ := hinv1.learn w1 (dl_pos_of_not_root hroot) hT w4
              ⟨p.neg, w3, by rw [Lit.neg_neg]; exact hp1, hpl1⟩ hlf
            exact (propagate_invB fuel n1 _ fr' l1 (by rw [l2]; exact hd1) hg b n' he).trans (fun α => l3 α)
      | none =>
        simp only at he hg
        have hpv : ({ n with sat := s1 } : Net).sat.value p = some true := v1.a.value_true.2 (Or.inl hp1)
        obtain ⟨t1, t2, t3, t4, t5⟩ := theoryPropagate_spec hinv1.th p hpv
        obtain ⟨⟨new, hrecs⟩, hpc, hreg2⟩ := theoryPropagate_recs hinv1.th hinv1.reg p hpv
        rcases htp : theoryPropagate { n with sat := s1 } p with ⟨oc, n2⟩
        rw [htp] at he hg t1 t2 t3 t4 t5 hrecs hpc hreg2
        simp only at t1 t2 t3 t4 t5 hrecs hpc hreg2
        -- the SAT core after the records
        have hs1' : SInvB m (orig ++ (L ++ new)) orig s1 := hs1.mono_orig (fun d hd' => by
          rcases List.mem_append.1 hd' with hd' | hd'
          · exact List.mem_append_left _ hd'
          · exact List.mem_append_right _ (List.mem_append_left _ hd'))
        obtain ⟨r1, r2⟩ := hs1'.recs hrecs (fun c hc =>
          Ents.of_mem (List.mem_append_right _ (List.mem_append_right _ hc)))
        have hlemL : ∀ c ∈ L, TEntails n2 orig c := fun c hc =>
          TEntails.congr (fun α hm => (t3 α).1 hm) (hinv1.lemmas c hc)
        have hlem2 : ∀ c ∈ L ++ new, TEntails n2 orig c := by
          intro c hc
          rcases List.mem_append.1 hc with hc | hc
          · exact hlemL c hc
          · rcases t4 c (by rw [r2.log]; exact List.mem_append_right _ hc) with h' | h'
            · exact TEntails.congr (fun α hm => (t3 α).1 hm) (tentails_of_ents' hinv1.lemmas (v2.log c h'))
            · exact TEntails.cut hlemL h'
        have hinv2 : NetInvB m n2 orig (L ++ new) fr :=
          ⟨r1, hlem2, t1.mono_origN (fun d hd' => by
              rcases List.mem_append.1 hd' with hd' | hd'
              · exact List.mem_append_left _ hd'
              · exact List.mem_append_right _ (List.mem_append_left _ hd')), FramesLv.keep r2.keep fr hinv1.flv, by
            show fr.length = n2.sat.trailLim.length
            rw [r2.trailLim]; exact hinv1.flen, hreg2⟩
        have hd2 : n2.sat.dead = false := by rw [r2.dead]; exact hd1
        cases oc with
        | none =>
          simp only at he hg
          exact (propagate_invB fuel n2 _ fr hinv2 hd2 hg b n' he).trans (fun α => t3 α)
        | some cnfl =>
          simp only at he hg
          obtain ⟨u1, u2⟩ := t5 cnfl rfl
          have hs3 : SInvB m (orig ++ (L ++ new)) orig { n2.sat with queue := [] } :=
            ⟨r1.wf.queue_sub [] (fun x hx => by cases hx), r1.ent.of_eq rfl rfl rfl rfl rfl rfl, r1.dec⟩
          have hinv3 : NetInvB m { n2 with sat := { n2.sat with queue := [] } } orig (L ++ new) fr :=
            hinv2.setSat _ hs3 (fun v b hv => ⟨hv, rfl⟩) rfl rfl
          split at he
          · rename_i hroot'
            have hroot : n2.sat.rootLevel = true := hroot'
            simp only [Option.some.injEq, Prod.mk.injEq] at he
            obtain ⟨rfl, rfl⟩ := he
            have := hinv3.rootConflict (c := cnfl) (TEntails.cut hlemL u1) u2 ((rootLevel_iff _).1 hroot)
            exact ⟨⟨_, _, this⟩, rfl, rfl, fun _ => (rootLevel_iff _).1 hroot, fun α => t3 α⟩
          · rename_i hroot'
            have hroot : ¬ n2.sat.rootLevel = true := hroot'
            rw [if_neg hroot] at hg
            have g2 := hg
            have g1 : HasCurrent ({ n2 with sat := { n2.sat with queue := [] } } : Net).sat cnfl := by
              refine ⟨p.neg, hpc cnfl rfl, ?_, ?_⟩
              · rw [Lit.neg_neg]; exact r2.trail.subset hp1
              · have hpa : s1.vals.getD p.var none = some p.sign := value_eq_true.1 hpv
                have hk := (r2.keep p.var p.sign hpa).2
                show n2.sat.level.getD p.neg.var 0 = n2.sat.trailLim.length
                rw [show p.neg.var = p.var from rfl, hk, r2.trailLim]
                exact hpl1
            cases hlf : learnFrom { n2 with sat := { n2.sat with queue := [] } } cnfl with
            | none => rw [hlf] at he; simp at he
            | some n3 =>
              rw [hlf] at he g2
              simp only at he g2
              obtain ⟨fr', l1, l2, l3, _⟩ := hinv3.learn rfl (dl_pos_of_not_root hroot) (TEntails.cut hlemL u1) u2 g1 hlf
              exact (propagate_invB fuel n3 _ fr' l1 (by rw [l2]; exact hd2) g2 b n' he).trans
                (fun α => (l3 α).trans (t3 α))

end NetCheck
end Oratio
