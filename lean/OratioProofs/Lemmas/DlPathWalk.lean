/-
C10X: the explanation walk reads off a justified path (so the clauses built from it are theory
lemmas), the SAT side of `propagate` (`record` only adds values and appends to the log), and the
preservation of `PathInv` by `init`, `new_var`, `new_distance`, `propagate(lit)`.
-/
import OratioProofs.Lemmas.DlPathInv

set_option linter.unusedSectionVars false
set_option linter.unusedVariables false

namespace Oratio
namespace Dl

/-! ### small facts -/

theorem constrOf_spec {t : Dl Int} {bb : Nat} {c : DConstr Int} (h : constrOf t bb = some c) :
    c ∈ t.varDists ∧ c.b = bb := by
  unfold constrOf at h
  refine ⟨List.mem_of_find?_eq_some h, ?_⟩
  have := List.find?_some h
  simpa using this

theorem value_neg {s : Sat} {v : Nat} {b : Bool} (h : s.value ⟨v, true⟩ = some b) : s.value ⟨v, false⟩ = some (!b) := by
  unfold Sat.value litValue at h ⊢
  cases hv : s.vals.getD v none with
  | none => simp only [hv] at h; cases h
  | some b0 =>
    simp only [hv] at h ⊢
    simp only [if_true] at h
    cases h
    simp

theorem walk_root (s : Sat) (t : Dl Int) (i fuel : Nat) (acc : List Lit) : walk s t i fuel i acc = acc := by
  cases fuel with
  | zero => rfl
  | succ n => rw [walk, if_pos rfl]

theorem walk_step (s : Sat) (t : Dl Int) {i cur bb : Nat} {v : Bool} (fuel : Nat) (acc : List Lit) (hne : cur ≠ i)
    (hl : lookupPair t.distConstr (p t i cur, cur) = some bb) (hv : s.value ⟨bb, true⟩ = some v) :
    walk s t i (fuel + 1) cur acc = walk s t i fuel (p t i cur) (acc ++ [⟨bb, !v⟩]) := by
  rw [walk, if_neg hne]
  simp only [hl, hv]
  cases v <;> rfl

/-! ### the walk reads off a justified path -/

theorem walk_spec {s : Sat} {t : Dl Int} (hP : PathInv s t) (hdiag : ∀ i, i < t.nVars → d idlOps t i i = 0)
    {i : Nat} (hi : i < t.nVars) :
    ∀ {m j : Nat}, ChainN t i m j → j < t.nVars → d idlOps t i j ≠ idlInf → ∀ fuel, m ≤ fuel → ∀ acc : List Lit,
      ∃ L, walk s t i fuel j acc = acc ++ L ∧ (∀ l ∈ L, s.value l = some false) ∧
        (∀ (σ : Nat → Int) (α : Asg), Agrees t σ α → (∀ l ∈ L, α.lit l = false) → σ j - σ i ≤ d idlOps t i j) := by
  intro m j h
  induction h with
  | root =>
    intro _ _ fuel _ acc
    refine ⟨[], by rw [walk_root]; simp, by simp, ?_⟩
    intro σ α _ _
    rw [hdiag i hi]; omega
  | step hne hch ih =>
    rename_i m0 j0
    intro hjn hfin fuel hfuel acc
    obtain ⟨t1, t2, t3, bb, w0, t4, t5⟩ := hP.tree i j0 hi hjn (Ne.symm hne) hfin
    obtain ⟨hl, c, hc, hr⟩ := t4
    obtain ⟨hmem, hcb⟩ := constrOf_spec hc
    cases fuel with
    | zero => omega
    | succ fuel =>
      rcases hr with ⟨v1, a1, a2, a3⟩ | ⟨v1, a1, a2, a3⟩
      · rw [walk_step s t fuel acc hne hl v1]
        obtain ⟨L, e, fl, val⟩ := ih t1 t3 fuel (by omega) (acc ++ [⟨bb, !true⟩])
        refine ⟨⟨bb, false⟩ :: L, by rw [e]; simp, ?_, ?_⟩
        · intro l hlm
          rcases List.mem_cons.mp hlm with rfl | hlm
          · exact value_neg v1
          · exact fl l hlm
        · intro σ α hag hall
          have h1 := val σ α hag (fun l hlm => hall l (List.mem_cons_of_mem _ hlm))
          have h2 := hall ⟨bb, false⟩ List.mem_cons_self
          have h3 : α c.b = true := by
            rw [hcb]; simpa [Asg.lit] using h2
          have h4 := (hag c hmem).1 h3
          rw [a1, a2] at h4
          omega
      · rw [walk_step s t fuel acc hne hl v1]
        obtain ⟨L, e, fl, val⟩ := ih t1 t3 fuel (by omega) (acc ++ [⟨bb, !false⟩])
        refine ⟨⟨bb, true⟩ :: L, by rw [e]; simp, ?_, ?_⟩
        · intro l hlm
          rcases List.mem_cons.mp hlm with rfl | hlm
          · exact v1
          · exact fl l hlm
        · intro σ α hag hall
          have h1 := val σ α hag (fun l hlm => hall l (List.mem_cons_of_mem _ hlm))
          have h2 := hall ⟨bb, true⟩ List.mem_cons_self
          have h3 : α c.b = false := by
            rw [hcb]; simpa [Asg.lit] using h2
          have h4 := (hag c hmem).2 h3
          rw [a1, a2] at h4
          omega

/-- the explanation of a finite entry `d i j`: the walk with the fuel the model gives it
    (`nVars`) returns literals that are all false, and whose falsity under any agreeing `(σ, α)`
    forces `σ j - σ i ≤ d i j` -/
theorem explain {s : Sat} {t : Dl Int} (hP : PathInv s t) (hdiag : ∀ i, i < t.nVars → d idlOps t i i = 0)
    {i j : Nat} (hi : i < t.nVars) (hj : j < t.nVars) (hfin : d idlOps t i j ≠ idlInf) (acc : List Lit) :
    ∃ L, walk s t i t.nVars j acc = acc ++ L ∧ (∀ l ∈ L, s.value l = some false) ∧
      (∀ (σ : Nat → Int) (α : Asg), Agrees t σ α → (∀ l ∈ L, α.lit l = false) → σ j - σ i ≤ d idlOps t i j) := by
  obtain ⟨m, hm, hch⟩ := hP.chain i j hi hj hfin
  exact walk_spec hP hdiag hi hch hj hfin t.nVars (by omega) acc

theorem clause_true_of {α : Asg} {cl : List Lit} (h : (∀ l ∈ cl, α.lit l = false) → False) : α.clause cl = true := by
  by_contra hc
  apply h
  intro l hl
  have : α.clause cl = false := by simpa using hc
  unfold Asg.clause at this
  rw [List.any_eq_false] at this
  simpa using this l hl

/-! ### the SAT side: `record` -/

theorem enqueue_le (s : Sat) (l : Lit) (c : Option Nat) : SatLe s (s.enqueue l c).2 := by
  unfold Sat.enqueue
  cases hv : s.value l with
  | some b => exact SatLe.refl s
  | none =>
    intro v b hvb
    show (s.vals.set l.var (some l.sign)).getD v none = some b
    rw [List.getD_eq_getElem?_getD, List.getElem?_set]
    by_cases he : l.var = v
    · exfalso
      unfold Sat.value litValue at hv
      rw [he, hvb] at hv
      cases hv
    · rw [if_neg he, ← List.getD_eq_getElem?_getD]; exact hvb

theorem enqueue_log (s : Sat) (l : Lit) (c : Option Nat) : (s.enqueue l c).2.log = s.log := by
  unfold Sat.enqueue
  cases s.value l <;> rfl

theorem addClause_same (s : Sat) (lits : Clause) : (s.addClause lits).2.vals = s.vals ∧ (s.addClause lits).2.log = s.log := by
  unfold Sat.addClause
  dsimp only
  split <;> exact ⟨rfl, rfl⟩

theorem record_le (s : Sat) (lits : List Lit) : SatLe s (s.record lits) := by
  unfold Sat.record
  dsimp only
  split
  · exact SatLe.refl _
  · exact enqueue_le { s with log := s.log ++ [_] } _ _
  · refine SatLe.trans (b := (Sat.addClause { s with log := s.log ++ [_] } _).2) ?_ (enqueue_le _ _ _)
    intro v b h
    rw [(addClause_same _ _).1]; exact h

theorem record_log (s : Sat) (lits : List Lit) : (s.record lits).log = s.log ++ [lits] := by
  unfold Sat.record
  dsimp only
  split
  · rfl
  · rw [enqueue_log]
  · rw [enqueue_log, (addClause_same _ _).2]

/-! ### the scan of the undecided constraints -/

/-- one step of the inner loop of `scanUpdates` -/
def scanStep (t : Dl Int) (s : Sat) (b : Nat) : Sat :=
  match constrOf t b with
  | none => s
  | some c =>
    if s.value ⟨c.b, true⟩ ≠ none then s
    else if idlOps.lt (d idlOps t c.dst c.src) (idlOps.neg c.dist) then
      s.record (walk s t c.dst t.nVars c.src [⟨c.b, false⟩])
    else if idlOps.le (d idlOps t c.src c.dst) c.dist then
      s.record (walk s t c.src t.nVars c.dst [⟨c.b, true⟩])
    else s

theorem scanUpdates_cons (s : Sat) (t : Dl Int) (pr : Nat × Nat) (rest : List (Nat × Nat)) :
    scanUpdates idlOps s t (pr :: rest) =
      scanUpdates idlOps (((lookupPair t.distConstrs pr).getD []).foldl (scanStep t) s) t rest := by
  rw [scanUpdates]
  congr 1
  congr 1
  funext s' b
  unfold scanStep
  cases constrOf t b <;> rfl

/-- anything preserved by every step of the scan is preserved by the scan -/
theorem scan_inv (t : Dl Int) (Q : Sat → Prop) (hQ : ∀ s b, Q s → Q (scanStep t s b)) :
    ∀ (ups : List (Nat × Nat)) (s : Sat), Q s → Q (scanUpdates idlOps s t ups) := by
  intro ups
  induction ups with
  | nil => intro s h; exact h
  | cons pr rest ih =>
    intro s h
    rw [scanUpdates_cons]
    exact ih _ (Undo.foldl_inv Q (scanStep t) hQ _ s h)

theorem scanStep_le (t : Dl Int) (s : Sat) (b : Nat) : SatLe s (scanStep t s b) := by
  unfold scanStep
  split
  · exact SatLe.refl s
  · split
    · exact SatLe.refl s
    · split
      · exact record_le _ _
      · split
        · exact record_le _ _
        · exact SatLe.refl s

theorem scan_le (t : Dl Int) (s0 : Sat) (ups : List (Nat × Nat)) : SatLe s0 (scanUpdates idlOps s0 t ups) :=
  scan_inv t (fun s => SatLe s0 s) (fun s b h => SatLe.trans h (scanStep_le t s b)) ups s0 (SatLe.refl s0)

/-- a clause is a theory lemma of the constraint table of `t` -/
def TheoryValid (t : Dl Int) (cl : List Lit) : Prop := ∀ (σ : Nat → Int) (α : Asg), Agrees t σ α → α.clause cl = true

/-- what is known about the clauses logged since `s0` -/
def LogGood (t : Dl Int) (s0 s : Sat) : Prop :=
  ∃ new, s.log = s0.log ++ new ∧ ∀ cl ∈ new, TheoryValid t cl ∧ ∀ l ∈ cl.tail, s.value l = some false

theorem LogGood.step {t : Dl Int} {s0 s : Sat} (h : LogGood t s0 s) (cl : List Lit) (hv : TheoryValid t cl)
    (hf : ∀ l ∈ cl.tail, s.value l = some false) : LogGood t s0 (s.record cl) := by
  obtain ⟨new, h1, h2⟩ := h
  refine ⟨new ++ [cl], by rw [record_log, h1, List.append_assoc], ?_⟩
  intro cl' hcl'
  rcases List.mem_append.mp hcl' with hm | hm
  · obtain ⟨a1, a2⟩ := h2 cl' hm
    exact ⟨a1, fun l hl => value_mono (record_le s cl) _ _ (a2 l hl)⟩
  · have : cl' = cl := by simpa using hm
    subst this
    exact ⟨hv, fun l hl => value_mono (record_le s _) _ _ (hf l hl)⟩

theorem scanStep_good {K : Int} {t : Dl Int} (hK : K < idlInf)
    (hdiag : ∀ i, i < t.nVars → d idlOps t i i = 0) (hok : ConstrsOk K t)
    (s0 s : Sat) (b : Nat) (h : PathInv s t ∧ LogGood t s0 s) : PathInv (scanStep t s b) t ∧ LogGood t s0 (scanStep t s b) := by
  obtain ⟨hP, hG⟩ := h
  refine ⟨hP.mono (scanStep_le t s b) rfl rfl rfl rfl (fun _ _ h => h), ?_⟩
  unfold scanStep
  split
  · exact hG
  · rename_i c hc
    obtain ⟨hmem, hcb⟩ := constrOf_spec hc
    obtain ⟨o1, o2, o3, o4, o5⟩ := hok c hmem
    have e1 : (idlOps.lt (d idlOps t c.dst c.src) (idlOps.neg c.dist) = true) = (d idlOps t c.dst c.src < -c.dist) := by
      simp [idlOps]
    have e2 : (idlOps.le (d idlOps t c.src c.dst) c.dist = true) = (d idlOps t c.src c.dst ≤ c.dist) := by
      simp [idlOps]
    simp only [e1, e2]
    split
    · exact hG
    · split
      · rename_i hlt
        obtain ⟨L, e, fl, val⟩ := explain hP hdiag o2 o1 (by omega) [⟨c.b, false⟩]
        rw [e]
        refine hG.step _ ?_ (by simpa using fl)
        intro σ α hag
        apply clause_true_of
        intro hall
        have h1 := val σ α hag (fun l hl => hall l (List.mem_append_right _ hl))
        have h2 := hall ⟨c.b, false⟩ (by simp)
        have h3 : α c.b = true := by simpa [Asg.lit] using h2
        have h4 := (hag c hmem).1 h3
        omega
      · split
        · rename_i hle
          obtain ⟨L, e, fl, val⟩ := explain hP hdiag o1 o2 (by omega) [⟨c.b, true⟩]
          rw [e]
          refine hG.step _ ?_ (by simpa using fl)
          intro σ α hag
          apply clause_true_of
          intro hall
          have h1 := val σ α hag (fun l hl => hall l (List.mem_append_right _ hl))
          have h2 := hall ⟨c.b, true⟩ (by simp)
          have h3 : α c.b = false := by simpa [Asg.lit] using h2
          have h4 := (hag c hmem).2 h3
          omega
        · exact hG

theorem scan_good {K : Int} {t : Dl Int} (hK : K < idlInf)
    (hdiag : ∀ i, i < t.nVars → d idlOps t i i = 0) (hok : ConstrsOk K t)
    (s0 : Sat) (hP : PathInv s0 t) (ups : List (Nat × Nat)) :
    PathInv (scanUpdates idlOps s0 t ups) t ∧ LogGood t s0 (scanUpdates idlOps s0 t ups) :=
  scan_inv t (fun s => PathInv s t ∧ LogGood t s0 s) (fun s b h => scanStep_good hK hdiag hok s0 s b h) ups s0
    ⟨hP, [], by simp, by simp⟩

theorem propagateEdge_fst (s : Sat) (t : Dl Int) (f g : Nat) (w : Int) :
    ∃ ups, (propagateEdge idlOps s t f g w).1 = scanUpdates idlOps s (propagateEdge idlOps s t f g w).2 ups :=
  ⟨_, rfl⟩

end Dl
end Oratio
