/-
C09X, part 4: the conflict clause returned by `check()` is a theory lemma, for every state that
satisfies the invariants (the pivots `check` performs keep them).
-/
import OratioProofs.Lemmas.LraExplCheck
import OratioProofs.Lemmas.LraExplPivot
import OratioProofs.Properties.C09

namespace Oratio
namespace Lra

theorem boundsJust_congr {t u : Lra} (h : u.bounds = t.bounds) {α : Asg} {σr σi : Nat → Rat}
    (hj : BoundsJust α σr σi t) : BoundsJust α σr σi u := by
  intro x hx
  rw [lb_congr h, ub_congr h, lbReason_congr h, ubReason_congr h]
  exact hj x (h ▸ hx)

theorem check_conflict_valid {t t' : Lra} {fuel : Nat} {cl : List Lit} (ht : TabWF t) (hb : BoundsOK t)
    (hl : BoundsLen t) (hv : ValsOK t) (h : t.check fuel = some (some cl, t'))
    (α : Asg) (σr σi : Nat → Rat) (hs : Solves t σr σi) (hj : BoundsJust α σr σi t) :
    α.clause cl = true := by
  have hss := sameSol_check fuel t t' _ ht h
  have hv' := valsOK_check fuel t t' _ ht hb hv h
  have hcore := (C09_core_iff t t').1 (C09_core_check fuel t t' _ h)
  have hb' : BoundsOK t' := boundsOK_congr hcore.1 hb
  have hj' : BoundsJust α σr σi t' := boundsJust_congr hcore.1 hj
  have hs' : Solves t' σr σi := (hss.solves σr σi).1 hs
  have hlen : t'.vals.length = t.vals.length := check_vals_length ht h
  have hl' : BoundsLen t' := by unfold BoundsLen; rw [hcore.1, hlen]; exact hl
  obtain ⟨xi, fl, hmem, hcase | hcase⟩ := C09_check_conflict_shape t t' fuel cl h
  · obtain ⟨hlt, hblock, hc⟩ := hcase
    rw [hc]
    exact farkas_lower hss.1 hb' hl' hv' hmem hlt hblock α σr σi hs' hj'
  · obtain ⟨hgt, hblock, hc⟩ := hcase
    rw [hc]
    exact farkas_upper hss.1 hb' hl' hv' hmem hgt hblock α σr σi hs' hj'

end Lra
end Oratio
