/-
Lemmas about the model of `smt::lin` (`OratioModel/Arith/Lin.lean`): association-list
operations, the loop bodies `addTerm` / `subTerm`, and the specifications of every operator.
The results are stated with `Lin.evalS`, a copy of `Lin.eval` of `Properties/C15.lean`.
-/
import OratioModel
import OratioProofs.Lemmas.Rational
import Mathlib.Tactic.Ring
import Mathlib.Tactic.Linarith
import Mathlib.Algebra.Order.Field.Rat

namespace Oratio
namespace Lin

-- NEEDED FROM RATIONAL: (proved here, by unfolding `R.eq`)
theorem R_eq_zero {c : R} (h : R.eq c R.zero = true) : c = R.zero := by
  cases c with
  | mk n d =>
    simp [R.eq, R.zero] at h
    obtain ⟨rfl, rfl⟩ := h
    rfl

/-! ### definitions of the specification side -/

/-- keys strictly increasing, as `List.Pairwise` -/
def Sorted (m : List (Nat × R)) : Prop := m.Pairwise (fun a b => a.1 < b.1)
/-- all coefficients canonical and finite -/
def CoefWF (m : List (Nat × R)) : Prop := ∀ t ∈ m, R.FinWF t.2
/-- `Σ cᵢ·σ(xᵢ)` -/
def sumS (σ : Nat → Rat) (m : List (Nat × R)) : Rat := (m.map (fun t => t.2.toRat * σ t.1)).sum
/-- coefficient in an association list -/
def coeffL (m : List (Nat × R)) (v : Nat) : R := (find m v).getD R.zero
/-- copy of `Lin.eval` -/
def evalS (l : Lin) (σ : Nat → Rat) : Rat :=
  (l.vars.map (fun t => t.2.toRat * σ t.1)).sum + l.known.toRat
/-- map on the coefficients -/
def mapC (f : R → R) (m : List (Nat × R)) : List (Nat × R) := m.map (fun t => (t.1, f t.2))

theorem evalS_eq (l : Lin) (σ : Nat → Rat) : evalS l σ = sumS σ l.vars + l.known.toRat := rfl

theorem sortedKeys_iff (m : List (Nat × R)) : SortedKeys m ↔ Sorted m := by
  induction m with
  | nil => simp [SortedKeys, Sorted]
  | cons a t ih =>
    cases t with
    | nil => simp [SortedKeys, Sorted]
    | cons b t' =>
      obtain ⟨a1, a2⟩ := a
      obtain ⟨b1, b2⟩ := b
      simp only [SortedKeys]
      rw [ih]
      unfold Sorted
      rw [List.pairwise_cons (a := (a1, a2))]
      constructor
      · rintro ⟨hab, hs⟩
        refine ⟨?_, hs⟩
        intro x hx
        rcases List.mem_cons.1 hx with rfl | hx
        · exact hab
        · exact Nat.lt_trans hab ((List.pairwise_cons.1 hs).1 x hx)
      · rintro ⟨h1, hs⟩
        exact ⟨h1 _ List.mem_cons_self, hs⟩

theorem wf_iff (l : Lin) : l.WF ↔ Sorted l.vars ∧ CoefWF l.vars ∧ R.FinWF l.known := by
  unfold WF
  rw [sortedKeys_iff]
  rfl

/-! ### unfolding lemmas with propositional `if` -/

@[simp] theorem find_nil (v : Nat) : find [] v = none := rfl
theorem find_cons (k : Nat) (c : R) (t : List (Nat × R)) (v : Nat) :
    find ((k, c) :: t) v = if k = v then some c else find t v := by
  show (if k == v then some c else find t v) = _
  by_cases h : k = v <;> simp [h]

@[simp] theorem insert_nil (v : Nat) (c : R) : insert [] v c = [(v, c)] := rfl
theorem insert_cons (k : Nat) (d : R) (t : List (Nat × R)) (v : Nat) (c : R) :
    insert ((k, d) :: t) v c =
      if v < k then (v, c) :: (k, d) :: t else if v = k then (k, d) :: t else (k, d) :: insert t v c := by
  show (if v < k then (v, c) :: (k, d) :: t else if v == k then (k, d) :: t
    else (k, d) :: insert t v c) = _
  by_cases h : v = k <;> simp [h]

@[simp] theorem set_nil (v : Nat) (c : R) : set [] v c = [] := rfl
theorem set_cons (k : Nat) (d : R) (t : List (Nat × R)) (v : Nat) (c : R) :
    set ((k, d) :: t) v c = if k = v then (k, c) :: t else (k, d) :: set t v c := by
  show (if k == v then (k, c) :: t else (k, d) :: set t v c) = _
  by_cases h : k = v <;> simp [h]

@[simp] theorem erase_nil (v : Nat) : erase [] v = [] := rfl
theorem erase_cons (k : Nat) (d : R) (t : List (Nat × R)) (v : Nat) :
    erase ((k, d) :: t) v = if k = v then t else (k, d) :: erase t v := by
  show (if k == v then t else (k, d) :: erase t v) = _
  by_cases h : k = v <;> simp [h]

@[simp] theorem sumS_nil (σ : Nat → Rat) : sumS σ [] = 0 := rfl
@[simp] theorem sumS_cons (σ : Nat → Rat) (k : Nat) (c : R) (t : List (Nat × R)) :
    sumS σ ((k, c) :: t) = c.toRat * σ k + sumS σ t := by
  simp [sumS]

theorem sumS_append (σ : Nat → Rat) (a b : List (Nat × R)) :
    sumS σ (a ++ b) = sumS σ a + sumS σ b := by
  induction a with
  | nil => simp
  | cons x t ih =>
    obtain ⟨k, c⟩ := x
    simp only [List.cons_append, sumS_cons, ih]
    ring

theorem sorted_cons {a : Nat × R} {t : List (Nat × R)} :
    Sorted (a :: t) ↔ (∀ x ∈ t, a.1 < x.1) ∧ Sorted t := List.pairwise_cons

theorem coefWF_nil : CoefWF [] := by simp [CoefWF]

theorem coefWF_cons {a : Nat × R} {t : List (Nat × R)} :
    CoefWF (a :: t) ↔ R.FinWF a.2 ∧ CoefWF t := by
  simp [CoefWF]

/-! ### find -/

theorem find_none_of_ne {m : List (Nat × R)} {v : Nat} (h : ∀ t ∈ m, t.1 ≠ v) : find m v = none := by
  induction m with
  | nil => rfl
  | cons a t ih =>
    obtain ⟨k, c⟩ := a
    rw [find_cons, if_neg (h (k, c) List.mem_cons_self)]
    exact ih (fun x hx => h x (List.mem_cons_of_mem _ hx))

theorem find_mem {m : List (Nat × R)} {v : Nat} {c : R} (h : find m v = some c) : (v, c) ∈ m := by
  induction m with
  | nil => simp at h
  | cons a t ih =>
    obtain ⟨k, d⟩ := a
    rw [find_cons] at h
    by_cases hk : k = v
    · rw [if_pos hk] at h
      cases h
      subst hk
      exact List.mem_cons_self
    · rw [if_neg hk] at h
      exact List.mem_cons_of_mem _ (ih h)

theorem find_of_mem {m : List (Nat × R)} {v : Nat} {c : R} (hs : Sorted m) (h : (v, c) ∈ m) :
    find m v = some c := by
  induction m with
  | nil => simp at h
  | cons a t ih =>
    obtain ⟨k, d⟩ := a
    rw [sorted_cons] at hs
    rw [find_cons]
    rcases List.mem_cons.1 h with h | h
    · cases h
      simp
    · have := hs.1 _ h
      rw [if_neg (by simpa using Nat.ne_of_lt this)]
      exact ih hs.2 h

theorem coefWF_find {m : List (Nat × R)} {v : Nat} {c : R} (hw : CoefWF m) (h : find m v = some c) :
    R.FinWF c := hw _ (find_mem h)

/-! ### insert -/

theorem find_insert {m : List (Nat × R)} {v : Nat} (c : R) (w : Nat) (h : find m v = none) :
    find (insert m v c) w = if w = v then some c else find m w := by
  induction m with
  | nil =>
    simp only [insert_nil, find_cons, find_nil]
    by_cases hw : w = v
    · simp [hw]
    · rw [if_neg hw, if_neg (fun e => hw e.symm)]
  | cons a t ih =>
    obtain ⟨k, d⟩ := a
    rw [find_cons] at h
    by_cases hk : k = v
    · rw [if_pos hk] at h
      cases h
    rw [if_neg hk] at h
    rw [insert_cons]
    by_cases h1 : v < k
    · rw [if_pos h1, find_cons]
      by_cases hw : w = v
      · simp [hw]
      · rw [if_neg hw, if_neg (fun e => hw e.symm)]
    · rw [if_neg h1, if_neg (fun e => hk e.symm), find_cons, find_cons, ih h]
      by_cases hkw : k = w
      · rw [if_pos hkw, if_pos hkw, if_neg]
        rintro rfl
        exact hk hkw
      · rw [if_neg hkw, if_neg hkw]

theorem mem_insert {m : List (Nat × R)} {v : Nat} {c : R} {x : Nat × R} (h : x ∈ insert m v c) :
    x ∈ m ∨ x = (v, c) := by
  induction m with
  | nil => simpa using h
  | cons a t ih =>
    obtain ⟨k, d⟩ := a
    rw [insert_cons] at h
    by_cases h1 : v < k
    · rw [if_pos h1] at h
      rcases List.mem_cons.1 h with h | h
      · exact Or.inr h
      · exact Or.inl h
    · rw [if_neg h1] at h
      by_cases h2 : v = k
      · rw [if_pos h2] at h
        exact Or.inl h
      · rw [if_neg h2] at h
        rcases List.mem_cons.1 h with h | h
        · exact Or.inl (h ▸ List.mem_cons_self)
        · rcases ih h with h | h
          · exact Or.inl (List.mem_cons_of_mem _ h)
          · exact Or.inr h

theorem sorted_insert {m : List (Nat × R)} (v : Nat) (c : R) (hs : Sorted m) : Sorted (insert m v c) := by
  induction m with
  | nil => simp [Sorted]
  | cons a t ih =>
    obtain ⟨k, d⟩ := a
    rw [insert_cons]
    by_cases h1 : v < k
    · rw [if_pos h1, sorted_cons]
      refine ⟨?_, hs⟩
      intro x hx
      rcases List.mem_cons.1 hx with rfl | hx
      · exact h1
      · exact Nat.lt_trans h1 ((sorted_cons.1 hs).1 x hx)
    · rw [if_neg h1]
      by_cases h2 : v = k
      · rw [if_pos h2]
        exact hs
      · rw [if_neg h2, sorted_cons]
        refine ⟨?_, ih (sorted_cons.1 hs).2⟩
        intro x hx
        rcases mem_insert hx with hx | rfl
        · exact (sorted_cons.1 hs).1 x hx
        · show k < v
          omega

theorem coefWF_insert {m : List (Nat × R)} {v : Nat} {c : R} (hw : CoefWF m) (hc : R.FinWF c) :
    CoefWF (insert m v c) := by
  intro x hx
  rcases mem_insert hx with hx | rfl
  · exact hw x hx
  · exact hc

theorem sumS_insert {m : List (Nat × R)} {v : Nat} (c : R) (σ : Nat → Rat) (h : find m v = none) :
    sumS σ (insert m v c) = sumS σ m + c.toRat * σ v := by
  induction m with
  | nil => simp
  | cons a t ih =>
    obtain ⟨k, d⟩ := a
    rw [find_cons] at h
    by_cases hk : k = v
    · rw [if_pos hk] at h
      cases h
    rw [if_neg hk] at h
    rw [insert_cons]
    by_cases h1 : v < k
    · rw [if_pos h1]
      simp only [sumS_cons]
      ring
    · rw [if_neg h1, if_neg (fun e => hk e.symm)]
      simp only [sumS_cons, ih h]
      ring

theorem insert_append_of_lt {m : List (Nat × R)} {v : Nat} (c : R) (h : ∀ x ∈ m, x.1 < v) :
    insert m v c = m ++ [(v, c)] := by
  induction m with
  | nil => rfl
  | cons a t ih =>
    obtain ⟨k, d⟩ := a
    have hk : k < v := h (k, d) List.mem_cons_self
    rw [insert_cons, if_neg (by omega), if_neg (by omega),
      ih (fun x hx => h x (List.mem_cons_of_mem _ hx))]
    rfl

/-! ### set -/

theorem find_set {m : List (Nat × R)} (v : Nat) (c : R) (w : Nat) {d : R} (h : find m v = some d) :
    find (set m v c) w = if w = v then some c else find m w := by
  induction m with
  | nil => simp at h
  | cons a t ih =>
    obtain ⟨k, e⟩ := a
    rw [find_cons] at h
    rw [set_cons]
    by_cases hk : k = v
    · rw [if_pos hk, find_cons, find_cons]
      subst hk
      by_cases hw : w = k
      · simp [hw]
      · rw [if_neg hw, if_neg (fun e => hw e.symm), if_neg (fun e => hw e.symm)]
    · rw [if_neg hk] at h
      rw [if_neg hk, find_cons, find_cons, ih h]
      by_cases hkw : k = w
      · rw [if_pos hkw, if_pos hkw, if_neg]
        rintro rfl
        exact hk hkw
      · rw [if_neg hkw, if_neg hkw]

theorem mem_set {m : List (Nat × R)} {v : Nat} {c : R} {x : Nat × R} (h : x ∈ set m v c) :
    x ∈ m ∨ x = (v, c) := by
  induction m with
  | nil => simp at h
  | cons a t ih =>
    obtain ⟨k, d⟩ := a
    rw [set_cons] at h
    by_cases hk : k = v
    · rw [if_pos hk] at h
      subst hk
      rcases List.mem_cons.1 h with h | h
      · exact Or.inr h
      · exact Or.inl (List.mem_cons_of_mem _ h)
    · rw [if_neg hk] at h
      rcases List.mem_cons.1 h with h | h
      · exact Or.inl (h ▸ List.mem_cons_self)
      · rcases ih h with h | h
        · exact Or.inl (List.mem_cons_of_mem _ h)
        · exact Or.inr h

theorem keys_set (m : List (Nat × R)) (v : Nat) (c : R) :
    (set m v c).map Prod.fst = m.map Prod.fst := by
  induction m with
  | nil => rfl
  | cons a t ih =>
    obtain ⟨k, d⟩ := a
    rw [set_cons]
    by_cases hk : k = v
    · rw [if_pos hk]
      rfl
    · rw [if_neg hk]
      simp [ih]

theorem sorted_iff_keys (m : List (Nat × R)) : Sorted m ↔ (m.map Prod.fst).Pairwise (· < ·) := by
  unfold Sorted
  rw [List.pairwise_map]

theorem sorted_set {m : List (Nat × R)} (v : Nat) (c : R) (hs : Sorted m) : Sorted (set m v c) := by
  rw [sorted_iff_keys] at hs ⊢
  rw [keys_set]
  exact hs

theorem coefWF_set {m : List (Nat × R)} {v : Nat} {c : R} (hw : CoefWF m) (hc : R.FinWF c) :
    CoefWF (set m v c) := by
  intro x hx
  rcases mem_set hx with hx | rfl
  · exact hw x hx
  · exact hc

theorem sumS_set {m : List (Nat × R)} (v : Nat) (c : R) (σ : Nat → Rat) {d : R} (h : find m v = some d) :
    sumS σ (set m v c) = sumS σ m - d.toRat * σ v + c.toRat * σ v := by
  induction m with
  | nil => simp at h
  | cons a t ih =>
    obtain ⟨k, e⟩ := a
    rw [find_cons] at h
    rw [set_cons]
    by_cases hk : k = v
    · rw [if_pos hk] at h
      cases h
      subst hk
      rw [if_pos rfl]
      simp only [sumS_cons]
      ring
    · rw [if_neg hk] at h
      rw [if_neg hk]
      simp only [sumS_cons, ih h]
      ring

/-! ### erase -/

theorem erase_sublist (m : List (Nat × R)) (v : Nat) : (erase m v).Sublist m := by
  induction m with
  | nil => exact List.Sublist.refl _
  | cons a t ih =>
    obtain ⟨k, d⟩ := a
    rw [erase_cons]
    by_cases hk : k = v
    · rw [if_pos hk]
      exact List.sublist_cons_self _ _
    · rw [if_neg hk]
      exact ih.cons_cons _

theorem mem_erase {m : List (Nat × R)} {v : Nat} {x : Nat × R} (h : x ∈ erase m v) : x ∈ m :=
  (erase_sublist m v).subset h

theorem sorted_erase {m : List (Nat × R)} (v : Nat) (hs : Sorted m) : Sorted (erase m v) :=
  List.Pairwise.sublist (erase_sublist m v) hs

theorem coefWF_erase {m : List (Nat × R)} {v : Nat} (hw : CoefWF m) : CoefWF (erase m v) :=
  fun x hx => hw x (mem_erase hx)

theorem find_erase {m : List (Nat × R)} (v w : Nat) (hs : Sorted m) :
    find (erase m v) w = if w = v then none else find m w := by
  induction m with
  | nil => simp
  | cons a t ih =>
    obtain ⟨k, d⟩ := a
    rw [sorted_cons] at hs
    rw [erase_cons]
    by_cases hk : k = v
    · rw [if_pos hk]
      subst hk
      rw [find_cons]
      by_cases hw : w = k
      · rw [if_pos hw]
        apply find_none_of_ne
        intro x hx
        have := hs.1 x hx
        simp only at this
        omega
      · rw [if_neg hw, if_neg (fun e => hw e.symm)]
    · rw [if_neg hk, find_cons, find_cons, ih hs.2]
      by_cases hkw : k = w
      · rw [if_pos hkw, if_pos hkw, if_neg]
        rintro rfl
        exact hk hkw
      · rw [if_neg hkw, if_neg hkw]

theorem sumS_erase {m : List (Nat × R)} (v : Nat) (σ : Nat → Rat) {d : R} (h : find m v = some d) :
    sumS σ (erase m v) = sumS σ m - d.toRat * σ v := by
  induction m with
  | nil => simp at h
  | cons a t ih =>
    obtain ⟨k, e⟩ := a
    rw [find_cons] at h
    rw [erase_cons]
    by_cases hk : k = v
    · rw [if_pos hk] at h
      cases h
      subst hk
      rw [if_pos rfl]
      simp only [sumS_cons]
      ring
    · rw [if_neg hk] at h
      rw [if_neg hk]
      simp only [sumS_cons, ih h]
      ring

/-! ### the loop body `addTerm` -/

theorem addTerm_spec {m : List (Nat × R)} {t : Nat × R} (hs : Sorted m) (hw : CoefWF m)
    (ht : R.FinWF t.2) :
    Sorted (addTerm m t) ∧ CoefWF (addTerm m t) ∧
    (∀ v, (coeffL (addTerm m t) v).toRat =
      (coeffL m v).toRat + if v = t.1 then t.2.toRat else 0) ∧
    (∀ σ, sumS σ (addTerm m t) = sumS σ m + t.2.toRat * σ t.1) := by
  unfold addTerm
  cases hf : find m t.1 with
  | none =>
    refine ⟨sorted_insert _ _ hs, coefWF_insert hw ht, ?_, fun σ => sumS_insert _ σ hf⟩
    intro v
    simp only [coeffL]
    rw [find_insert _ _ hf]
    by_cases hv : v = t.1
    · subst hv
      simp [hf, R.toRat_zero]
    · simp [hv]
  | some c =>
    have hc : R.FinWF c := coefWF_find hw hf
    have hsum : (R.addAssign c t.2).toRat = c.toRat + t.2.toRat := R.toRat_addAssign hc ht
    simp only
    cases hz : R.eq (R.addAssign c t.2) R.zero with
    | true =>
      have h0 : c.toRat + t.2.toRat = 0 := by
        rw [← hsum, R_eq_zero hz, R.toRat_zero]
      simp only [if_true]
      refine ⟨sorted_erase _ hs, coefWF_erase hw, ?_, ?_⟩
      · intro v
        simp only [coeffL]
        rw [find_erase _ _ hs]
        by_cases hv : v = t.1
        · subst hv
          simp [hf, R.toRat_zero, h0]
        · simp [hv]
      · intro σ
        rw [sumS_erase _ σ hf]
        have : t.2.toRat = - c.toRat := by linarith
        rw [this]
        ring
    | false =>
      simp only [Bool.false_eq_true, if_false]
      refine ⟨sorted_set _ _ hs, coefWF_set hw (R.finWF_addAssign hc ht), ?_, ?_⟩
      · intro v
        simp only [coeffL]
        rw [find_set _ _ _ hf]
        by_cases hv : v = t.1
        · subst hv
          simp [hf, hsum]
        · simp [hv]
      · intro σ
        rw [sumS_set _ _ σ hf, hsum]
        ring

theorem coeffL_cons_sorted {k : Nat} {c : R} {t : List (Nat × R)} (hs : Sorted ((k, c) :: t)) (v : Nat) :
    (coeffL ((k, c) :: t) v).toRat = (if v = k then c.toRat else 0) + (coeffL t v).toRat := by
  simp only [coeffL]
  rw [find_cons]
  by_cases hv : v = k
  · subst hv
    have : find t v = none := by
      apply find_none_of_ne
      intro x hx
      have := (sorted_cons.1 hs).1 x hx
      simp only at this
      omega
    simp [this, R.toRat_zero]
  · rw [if_neg (fun e => hv e.symm), if_neg hv]
    simp

theorem foldl_addTerm_spec (r : List (Nat × R)) : ∀ m : List (Nat × R),
    Sorted m → CoefWF m → Sorted r → CoefWF r →
    Sorted (r.foldl addTerm m) ∧ CoefWF (r.foldl addTerm m) ∧
    (∀ v, (coeffL (r.foldl addTerm m) v).toRat = (coeffL m v).toRat + (coeffL r v).toRat) ∧
    (∀ σ, sumS σ (r.foldl addTerm m) = sumS σ m + sumS σ r) := by
  induction r with
  | nil =>
    intro m hs hw _ _
    refine ⟨hs, hw, ?_, ?_⟩
    · intro v
      simp [coeffL, R.toRat_zero]
    · intro σ
      simp
  | cons a t ih =>
    intro m hs hw hsr hwr
    obtain ⟨k, c⟩ := a
    obtain ⟨h1, h2, h3, h4⟩ := addTerm_spec (t := (k, c)) hs hw (coefWF_cons.1 hwr).1
    obtain ⟨i1, i2, i3, i4⟩ := ih (addTerm m (k, c)) h1 h2 (sorted_cons.1 hsr).2 (coefWF_cons.1 hwr).2
    rw [List.foldl_cons]
    refine ⟨i1, i2, ?_, ?_⟩
    · intro v
      rw [i3, h3, coeffL_cons_sorted hsr]
      ring
    · intro σ
      rw [i4, h4, sumS_cons]
      ring

/-! ### map on coefficients -/

theorem find_mapC (f : R → R) (m : List (Nat × R)) (v : Nat) :
    find (mapC f m) v = (find m v).map f := by
  induction m with
  | nil => rfl
  | cons a t ih =>
    obtain ⟨k, c⟩ := a
    show find ((k, f c) :: mapC f t) v = _
    rw [find_cons, find_cons, ih]
    by_cases hk : k = v <;> simp [hk]

theorem sorted_mapC (f : R → R) {m : List (Nat × R)} (hs : Sorted m) : Sorted (mapC f m) := by
  unfold Sorted mapC
  rw [List.pairwise_map]
  exact hs

theorem coefWF_mapC {f : R → R} {m : List (Nat × R)} (hf : ∀ c, R.FinWF c → R.FinWF (f c))
    (hw : CoefWF m) : CoefWF (mapC f m) := by
  intro x hx
  obtain ⟨y, hy, rfl⟩ := List.mem_map.1 hx
  exact hf _ (hw y hy)

theorem sumS_mapC {f : R → R} {m : List (Nat × R)} (a : Rat)
    (hf : ∀ t ∈ m, (f t.2).toRat = t.2.toRat * a) (σ : Nat → Rat) :
    sumS σ (mapC f m) = sumS σ m * a := by
  induction m with
  | nil => simp [mapC]
  | cons x t ih =>
    obtain ⟨k, c⟩ := x
    show sumS σ ((k, f c) :: mapC f t) = _
    rw [sumS_cons, sumS_cons, ih (fun y hy => hf y (List.mem_cons_of_mem _ hy)),
      hf (k, c) List.mem_cons_self]
    ring

theorem coeffL_mapC {f : R → R} {m : List (Nat × R)} (a : Rat)
    (hf : ∀ t ∈ m, (f t.2).toRat = t.2.toRat * a) (v : Nat) :
    (coeffL (mapC f m) v).toRat = (coeffL m v).toRat * a := by
  simp only [coeffL]
  rw [find_mapC]
  cases h : find m v with
  | none => simp [R.toRat_zero]
  | some c => simpa using hf _ (find_mem h)

/-! ### subTerm, neg -/

def negT (t : Nat × R) : Nat × R := (t.1, R.neg t.2)

theorem subTerm_eq (m : List (Nat × R)) (t : Nat × R) : subTerm m t = addTerm m (negT t) := rfl

theorem foldl_subTerm (r m : List (Nat × R)) :
    r.foldl subTerm m = (mapC R.neg r).foldl addTerm m := by
  unfold mapC
  rw [List.foldl_map]
  rfl

theorem neg_toRat_mem {m : List (Nat × R)} (hw : CoefWF m) :
    ∀ t ∈ m, (R.neg t.2).toRat = t.2.toRat * (-1) := by
  intro t ht
  rw [R.toRat_neg (hw t ht)]
  ring

theorem foldl_neg_insert (l : List (Nat × R)) : ∀ acc : List (Nat × R), Sorted (acc ++ l) →
    l.foldl (fun m t => insert m t.1 (R.neg t.2)) acc = acc ++ mapC R.neg l := by
  induction l with
  | nil =>
    intro acc _
    simp [mapC]
  | cons a t ih =>
    intro acc hs
    obtain ⟨k, c⟩ := a
    rw [List.foldl_cons]
    have hlt : ∀ x ∈ acc, x.1 < k := by
      intro x hx
      have := (List.pairwise_append.1 hs).2.2 x hx (k, c) List.mem_cons_self
      exact this
    simp only
    rw [insert_append_of_lt _ hlt]
    have hs' : Sorted ((acc ++ [(k, c)]) ++ t) := by
      simpa using hs
    have hs'' : Sorted ((acc ++ [(k, R.neg c)]) ++ t) := by
      rw [sorted_iff_keys] at hs' ⊢
      simpa using hs'
    rw [ih _ hs'']
    simp [mapC]

theorem neg_vars {l : Lin} (hs : Sorted l.vars) : (neg l).vars = mapC R.neg l.vars := by
  show l.vars.foldl (fun m t => insert m t.1 (R.neg t.2)) [] = _
  rw [foldl_neg_insert l.vars [] (by simpa using hs)]
  rfl

/-! ### specifications of the operators -/

theorem coeff_eq (l : Lin) (v : Nat) : l.coeff v = coeffL l.vars v := rfl

theorem eval_coeff_spec (l : Lin) (hl : l.WF) (σ τ : Nat → Rat)
    (h : ∀ v, (l.coeff v).toRat ≠ 0 → σ v = τ v) : evalS l σ = evalS l τ := by
  obtain ⟨hs, -, -⟩ := (wf_iff l).1 hl
  have hm : ∀ t ∈ l.vars, t.2.toRat ≠ 0 → σ t.1 = τ t.1 := by
    intro t ht hne
    apply h
    rw [coeff_eq, coeffL, find_of_mem hs (show (t.1, t.2) ∈ l.vars from ht)]
    exact hne
  rw [evalS_eq, evalS_eq]
  congr 1
  generalize l.vars = m at hm
  induction m with
  | nil => rfl
  | cons a t ih =>
    obtain ⟨k, c⟩ := a
    rw [sumS_cons, sumS_cons, ih (fun x hx => hm x (List.mem_cons_of_mem _ hx))]
    by_cases hc : c.toRat = 0
    · rw [hc, zero_mul, zero_mul]
    · rw [hm (k, c) List.mem_cons_self hc]

theorem add_spec (l r : Lin) (hl : l.WF) (hr : r.WF) :
    (add l r).WF ∧ (∀ v, ((add l r).coeff v).toRat = (l.coeff v).toRat + (r.coeff v).toRat) ∧
    (add l r).known.toRat = l.known.toRat + r.known.toRat ∧
    (∀ σ, evalS (add l r) σ = evalS l σ + evalS r σ) ∧ addAssign l r = add l r := by
  obtain ⟨hs, hw, hk⟩ := (wf_iff l).1 hl
  obtain ⟨hs', hw', hk'⟩ := (wf_iff r).1 hr
  obtain ⟨f1, f2, f3, f4⟩ := foldl_addTerm_spec r.vars l.vars hs hw hs' hw'
  have hkn : (R.addAssign l.known r.known).toRat = l.known.toRat + r.known.toRat :=
    R.toRat_addAssign hk hk'
  refine ⟨(wf_iff _).2 ⟨f1, f2, R.finWF_addAssign hk hk'⟩, f3, hkn, ?_, rfl⟩
  intro σ
  rw [evalS_eq, evalS_eq, evalS_eq]
  show sumS σ (r.vars.foldl addTerm l.vars) + (R.addAssign l.known r.known).toRat = _
  rw [f4, hkn]
  ring

theorem sub_spec (l r : Lin) (hl : l.WF) (hr : r.WF) :
    (sub l r).WF ∧ (∀ v, ((sub l r).coeff v).toRat = (l.coeff v).toRat - (r.coeff v).toRat) ∧
    (sub l r).known.toRat = l.known.toRat - r.known.toRat ∧
    (∀ σ, evalS (sub l r) σ = evalS l σ - evalS r σ) ∧ subAssign l r = sub l r := by
  obtain ⟨hs, hw, hk⟩ := (wf_iff l).1 hl
  obtain ⟨hs', hw', hk'⟩ := (wf_iff r).1 hr
  have hv : (sub l r).vars = (mapC R.neg r.vars).foldl addTerm l.vars := foldl_subTerm _ _
  obtain ⟨f1, f2, f3, f4⟩ := foldl_addTerm_spec (mapC R.neg r.vars) l.vars hs hw
    (sorted_mapC _ hs') (coefWF_mapC (fun c hc => R.finWF_neg hc) hw')
  have hkn : (R.subAssign l.known r.known).toRat = l.known.toRat - r.known.toRat :=
    R.toRat_subAssign hk hk'
  refine ⟨(wf_iff _).2 ⟨hv ▸ f1, hv ▸ f2, R.finWF_subAssign hk hk'⟩, ?_, hkn, ?_, rfl⟩
  · intro v
    rw [coeff_eq, hv, f3, coeffL_mapC (-1) (neg_toRat_mem hw'), coeff_eq, coeff_eq]
    ring
  · intro σ
    rw [evalS_eq, evalS_eq, evalS_eq, hv, f4, sumS_mapC (-1) (neg_toRat_mem hw')]
    show _ + (R.subAssign l.known r.known).toRat = _
    rw [hkn]
    ring

theorem neg_spec (l : Lin) (hl : l.WF) :
    (neg l).WF ∧ (∀ v, ((neg l).coeff v).toRat = - (l.coeff v).toRat) ∧
    (neg l).known.toRat = - l.known.toRat ∧ (∀ σ, evalS (neg l) σ = - evalS l σ) := by
  obtain ⟨hs, hw, hk⟩ := (wf_iff l).1 hl
  have hv := neg_vars hs
  have hkn : (R.neg l.known).toRat = - l.known.toRat := R.toRat_neg hk
  refine ⟨(wf_iff _).2 ⟨hv ▸ sorted_mapC _ hs,
    hv ▸ coefWF_mapC (fun c hc => R.finWF_neg hc) hw, R.finWF_neg hk⟩, ?_, hkn, ?_⟩
  · intro v
    rw [coeff_eq, hv, coeffL_mapC (-1) (neg_toRat_mem hw), coeff_eq]
    ring
  · intro σ
    rw [evalS_eq, evalS_eq, hv, sumS_mapC (-1) (neg_toRat_mem hw)]
    show _ + (R.neg l.known).toRat = _
    rw [hkn]
    ring

theorem scalar_add_spec (l : Lin) (c : R) (hl : l.WF) (hc : c.WF) (fc : c.den ≠ 0) :
    (addR l c).WF ∧ (∀ σ, evalS (addR l c) σ = evalS l σ + c.toRat) ∧
    (∀ v, (addR l c).coeff v = l.coeff v) ∧
    rAdd c l = addR l c ∧ addAssignR l c = addR l c ∧
    (subR l c).WF ∧ (∀ σ, evalS (subR l c) σ = evalS l σ - c.toRat) ∧
    (∀ v, (subR l c).coeff v = l.coeff v) ∧ subAssignR l c = subR l c ∧
    (rSub c l).WF ∧ (∀ σ, evalS (rSub c l) σ = c.toRat - evalS l σ) := by
  obtain ⟨hs, hw, hk⟩ := (wf_iff l).1 hl
  have hcf : R.FinWF c := ⟨hc, fc⟩
  obtain ⟨n1, -, n3, n4⟩ := neg_spec l hl
  obtain ⟨ns, nw, nk⟩ := (wf_iff _).1 n1
  refine ⟨(wf_iff _).2 ⟨hs, hw, R.finWF_addAssign hk hcf⟩, ?_, fun _ => rfl, rfl, rfl,
    (wf_iff _).2 ⟨hs, hw, R.finWF_subAssign hk hcf⟩, ?_, fun _ => rfl, rfl,
    (wf_iff _).2 ⟨ns, nw, R.finWF_addAssign nk hcf⟩, ?_⟩
  · intro σ
    rw [evalS_eq, evalS_eq]
    show sumS σ l.vars + (R.addAssign l.known c).toRat = _
    rw [R.toRat_addAssign hk hcf]
    ring
  · intro σ
    rw [evalS_eq, evalS_eq]
    show sumS σ l.vars + (R.subAssign l.known c).toRat = _
    rw [R.toRat_subAssign hk hcf]
    ring
  · intro σ
    have h := n4 σ
    rw [evalS_eq] at h ⊢
    show sumS σ (neg l).vars + (R.addAssign (neg l).known c).toRat = _
    rw [R.toRat_addAssign nk hcf]
    linarith

theorem mulR_spec (l : Lin) (c : R) (hl : l.WF) (hcf : R.FinWF c) :
    (mulR l c).WF ∧ (∀ v, ((mulR l c).coeff v).toRat = (l.coeff v).toRat * c.toRat) ∧
    (mulR l c).known.toRat = l.known.toRat * c.toRat ∧
    (∀ σ, evalS (mulR l c) σ = evalS l σ * c.toRat) := by
  obtain ⟨hs, hw, hk⟩ := (wf_iff l).1 hl
  have hv : (mulR l c).vars = mapC (fun x => R.mulAssign x c) l.vars := rfl
  have hm : ∀ t ∈ l.vars, ((fun x => R.mulAssign x c) t.2).toRat = t.2.toRat * c.toRat :=
    fun t ht => R.toRat_mulAssign (hw t ht) hcf
  have hkn : (R.mulAssign l.known c).toRat = l.known.toRat * c.toRat := R.toRat_mulAssign hk hcf
  refine ⟨(wf_iff _).2 ⟨hv ▸ sorted_mapC _ hs,
    hv ▸ coefWF_mapC (fun x hx => R.finWF_mulAssign hx hcf) hw, R.finWF_mulAssign hk hcf⟩,
    ?_, hkn, ?_⟩
  · intro v
    rw [coeff_eq, hv, coeffL_mapC _ hm, coeff_eq]
  · intro σ
    rw [evalS_eq, evalS_eq, hv, sumS_mapC _ hm]
    show _ + (R.mulAssign l.known c).toRat = _
    rw [hkn]
    ring

theorem scalar_mul_spec (l : Lin) (c : R) (hl : l.WF) (hc : c.WF) (fc : c.den ≠ 0) :
    (mulR l c).WF ∧ (∀ v, ((mulR l c).coeff v).toRat = (l.coeff v).toRat * c.toRat) ∧
    (mulR l c).known.toRat = l.known.toRat * c.toRat ∧
    (∀ σ, evalS (mulR l c) σ = evalS l σ * c.toRat) ∧ rMul c l = mulR l c ∧
    (mulAssignR l c).WF ∧ (∀ v, ((mulAssignR l c).coeff v).toRat = (l.coeff v).toRat * c.toRat) ∧
    (mulAssignR l c).known.toRat = l.known.toRat * c.toRat ∧
    (∀ σ, evalS (mulAssignR l c) σ = evalS l σ * c.toRat) := by
  have hcf : R.FinWF c := ⟨hc, fc⟩
  obtain ⟨m1, m2, m3, m4⟩ := mulR_spec l c hl hcf
  refine ⟨m1, m2, m3, m4, rfl, ?_⟩
  cases hz : R.eq c R.zero with
  | false =>
    have : mulAssignR l c = mulR l c := by
      unfold mulAssignR mulR
      rw [hz]
      rfl
    rw [this]
    exact ⟨m1, m2, m3, m4⟩
  | true =>
    have h0 : c.toRat = 0 := by rw [R_eq_zero hz, R.toRat_zero]
    have : mulAssignR l c = ⟨[], R.zero⟩ := by
      unfold mulAssignR
      rw [hz]
      rfl
    rw [this, h0]
    refine ⟨(wf_iff _).2 ⟨List.Pairwise.nil, coefWF_nil, R.finWF_zero⟩, ?_, ?_, ?_⟩
    · intro v
      show R.zero.toRat = _
      rw [R.toRat_zero]
      ring
    · show R.zero.toRat = _
      rw [R.toRat_zero]
      ring
    · intro σ
      rw [evalS_eq]
      show sumS σ [] + R.zero.toRat = _
      rw [R.toRat_zero, sumS_nil]
      ring

theorem scalar_div_spec (l : Lin) (c : R) (hl : l.WF) (hc : c.WF) (fc : c.den ≠ 0) (nz : c.num ≠ 0) :
    (divR l c).WF ∧ (∀ v, ((divR l c).coeff v).toRat = (l.coeff v).toRat / c.toRat) ∧
    (divR l c).known.toRat = l.known.toRat / c.toRat ∧
    (∀ σ, evalS (divR l c) σ = evalS l σ / c.toRat) ∧ divAssignR l c = divR l c := by
  obtain ⟨hs, hw, hk⟩ := (wf_iff l).1 hl
  have hcf : R.FinWF c := ⟨hc, fc⟩
  have hv : (divR l c).vars = mapC (fun x => R.divAssign x c) l.vars := rfl
  have hm : ∀ t ∈ l.vars, ((fun x => R.divAssign x c) t.2).toRat = t.2.toRat * (c.toRat)⁻¹ :=
    fun t ht => by
      show (R.divAssign t.2 c).toRat = _
      rw [R.toRat_divAssign (hw t ht) hcf nz, div_eq_mul_inv]
  have hkn : (R.divAssign l.known c).toRat = l.known.toRat / c.toRat :=
    R.toRat_divAssign hk hcf nz
  refine ⟨(wf_iff _).2 ⟨hv ▸ sorted_mapC _ hs,
    hv ▸ coefWF_mapC (fun x hx => R.finWF_divAssign hx hcf nz) hw, R.finWF_divAssign hk hcf nz⟩,
    ?_, hkn, ?_, ?_⟩
  · intro v
    rw [coeff_eq, hv, coeffL_mapC _ hm, coeff_eq, div_eq_mul_inv]
  · intro σ
    rw [evalS_eq, evalS_eq, hv, sumS_mapC _ hm]
    show _ + (R.divAssign l.known c).toRat = _
    rw [hkn, div_eq_mul_inv, div_eq_mul_inv]
    ring
  · have hi : c.isInfinite = false := by
      simp [R.isInfinite, fc]
    unfold divAssignR divR
    rw [hi]
    rfl

end Lin
end Oratio
