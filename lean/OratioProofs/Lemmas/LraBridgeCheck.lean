/-
Helper lemmas for `Properties/C09Bridge.lean`, part 11: `pivotAndUpdate` and `check` keep the
invariant and the solutions of the tableau (every pivot `check` performs meets the hypotheses of
the pivot theorems).
-/
import OratioModel
import OratioProofs.Lemmas.LraBridgeFinal

namespace Oratio
namespace Lra
open Lin

/-- the relation "same solutions, invariant kept" between two states -/
def SameSol (t t' : Lra) : Prop :=
  TabWF t' ∧ ∀ σ : Nat → Rat, (∀ e ∈ t.tableau, σ e.1 = Lin.evalS e.2 σ) ↔ (∀ e ∈ t'.tableau, σ e.1 = Lin.evalS e.2 σ)

theorem SameSol.refl {t : Lra} (ht : TabWF t) : SameSol t t := ⟨ht, fun _ => Iff.rfl⟩

theorem SameSol.trans {t u w : Lra} (h1 : SameSol t u) (h2 : SameSol u w) : SameSol t w :=
  ⟨h2.1, fun σ => (h1.2 σ).trans (h2.2 σ)⟩

/-- the state `pivotAndUpdate` pivots: `t` with the values moved -/
def pauPre (t : Lra) (xi xj : Nat) (v : IR) : Lra :=
  let aij := (Lin.find ((t.rowOf xi).getD Lin.empty).vars xj).getD R.zero
  let theta := IR.divR (IR.sub v (t.value xi)) aij
  let t := t.setVal xi v
  let t := t.setVal xj (IR.addAssign (t.value xj) theta)
  (t.tWatches.getD xj []).foldl (fun t x =>
    if x != xi then
      let a := (Lin.find ((t.rowOf x).getD Lin.empty).vars xj).getD R.zero
      t.setVal x (IR.addAssign (t.value x) (IR.rMul a theta))
    else t) t

theorem pivotAndUpdate_def (t : Lra) (xi xj : Nat) (v : IR) :
    t.pivotAndUpdate xi xj v = (pauPre t xi xj v).pivot xi xj := rfl

theorem pivotAndUpdate_eq (t : Lra) (xi xj : Nat) (v : IR) :
    ∃ u : Lra, u.tableau = t.tableau ∧ u.tWatches = t.tWatches ∧ u.vals.length = t.vals.length ∧
      t.pivotAndUpdate xi xj v = u.pivot xi xj := by
  have key : (pauPre t xi xj v).tableau = t.tableau ∧ (pauPre t xi xj v).tWatches = t.tWatches ∧
      (pauPre t xi xj v).vals.length = t.vals.length := by
    unfold pauPre
    refine C09_foldl_inv
      (fun (u : Lra) => u.tableau = t.tableau ∧ u.tWatches = t.tWatches ∧ u.vals.length = t.vals.length)
      _ ?_ _ _ ?_
    · intro u x hu
      dsimp only
      split
      · refine ⟨hu.1, hu.2.1, ?_⟩
        show (u.vals.set _ _).length = _
        rw [List.length_set]
        exact hu.2.2
      · exact hu
    · refine ⟨rfl, rfl, ?_⟩
      show ((t.vals.set _ _).set _ _).length = _
      rw [List.length_set, List.length_set]
  exact ⟨_, key.1, key.2.1, key.2.2, pivotAndUpdate_def t xi xj v⟩

theorem sameSol_pivotAndUpdate {t : Lra} (ht : TabWF t) {xi xj : Nat} {l : Lin} (hl : t.rowOf xi = some l)
    (hxj : (l.coeff xj).num ≠ 0) (v : IR) : SameSol t (t.pivotAndUpdate xi xj v) := by
  obtain ⟨u, u1, u2, u3, u4⟩ := pivotAndUpdate_eq t xi xj v
  have hu : TabWF u := tabWF_congr u1 u2 u3 ht
  have hlu : u.rowOf xi = some l := by rw [rowOf_eq, u1, ← rowOf_eq]; exact hl
  rw [u4]
  refine ⟨tabWF_pivot hu hlu hxj, fun σ => ?_⟩
  rw [← pivot_holds hu hlu hxj σ, u1]

/-- a row found by `check` and a variable found in it with a positive or negative coefficient -/
theorem check_pivot_hyps {t : Lra} (ht : TabWF t) {p : Nat × Lin → Bool} {xi : Nat} {fl : Lin}
    (hf : t.tableau.find? p = some (xi, fl)) {q : Nat × R → Bool} {xj : Nat} {c : R}
    (hq : fl.vars.find? q = some (xj, c)) (hsign : ∀ e, q e = true → e.2.isPositive = true ∨ e.2.isNegative = true) :
    t.rowOf xi = some fl ∧ (fl.coeff xj).num ≠ 0 := by
  have hmem := List.mem_of_find?_eq_some hf
  have hrow : t.rowOf xi = some fl := tabFind_of_mem ht.keys hmem
  refine ⟨hrow, ?_⟩
  have hcm := List.mem_of_find?_eq_some hq
  have hs : Sorted fl.vars := ((wf_iff fl).1 (ht.rows _ hmem)).1
  have hc : fl.coeff xj = c := by
    unfold Lin.coeff
    rw [find_of_mem hs hcm]
    rfl
  rw [hc]
  rcases hsign _ (List.find?_some hq) with h | h
  · simp only [R.isPositive, decide_eq_true_eq] at h
    show c.num ≠ 0
    omega
  · simp only [R.isNegative, decide_eq_true_eq] at h
    show c.num ≠ 0
    omega

theorem sameSol_check (fuel : Nat) : ∀ (t t' : Lra) (c : Option (List Lit)), TabWF t →
    t.check fuel = some (c, t') → SameSol t t' := by
  induction fuel with
  | zero => intro t t' c _ h; simp [check] at h
  | succ n ih =>
    intro t t' c ht h
    simp only [check] at h
    split at h
    · simp only [Option.some.injEq, Prod.mk.injEq] at h
      rw [← h.2]
      exact SameSol.refl ht
    · next xi fl hf =>
      split at h
      · split at h
        · next xj cj hq =>
          obtain ⟨hrow, hne⟩ := check_pivot_hyps ht hf hq (by
            intro e he
            simp only [Bool.or_eq_true, Bool.and_eq_true] at he
            rcases he with he | he
            · exact Or.inl he.1
            · exact Or.inr he.1)
          have hs := sameSol_pivotAndUpdate ht hrow hne (t.lb xi)
          exact hs.trans (ih _ _ _ hs.1 h)
        · simp only [Option.some.injEq, Prod.mk.injEq] at h
          rw [← h.2]
          exact SameSol.refl ht
      · split at h
        · split at h
          · next xj cj hq =>
            obtain ⟨hrow, hne⟩ := check_pivot_hyps ht hf hq (by
              intro e he
              simp only [Bool.or_eq_true, Bool.and_eq_true] at he
              rcases he with he | he
              · exact Or.inr he.1
              · exact Or.inl he.1)
            have hs := sameSol_pivotAndUpdate ht hrow hne (t.ub xi)
            exact hs.trans (ih _ _ _ hs.1 h)
          · simp only [Option.some.injEq, Prod.mk.injEq] at h
            rw [← h.2]
            exact SameSol.refl ht
        · exact ih _ _ _ ht h

end Lra
end Oratio
