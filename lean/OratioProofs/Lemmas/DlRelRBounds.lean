/-
Lemmas for property C12, real-valued instance, part 2: the expression queries `bounds`,
`distance`, `equates` of `rdl_theory`.  `x * c + k` on `inf_rational` bounds is exact on finite
bounds and keeps infinite ones infinite with the right sign (for `c ≠ 0`), so the interval returned
for `c·x + k` / `c·(x - y) + k` is exactly the image of the variable-level interval.
-/
import OratioProofs.Lemmas.DlRelRDefs
import OratioProofs.Lemmas.DlRel
import OratioProofs.Lemmas.DlRelR
import Mathlib.Tactic.Ring
import Mathlib.Tactic.Linarith
import Mathlib.Algebra.Order.Field.Rat

namespace Oratio
namespace DlRelR
open Dl DlRel R

/-! ### ε-rationals: scaling and translating preserve / reverse the order -/

theorem smul_le_pos {c : ℚ} (hc : 0 < c) (a b : QV) : QV.smul c a ≤ QV.smul c b ↔ a ≤ b := by
  show (toLex (c * (ofLex a).1, c * (ofLex a).2) : QV) ≤ toLex (c * (ofLex b).1, c * (ofLex b).2) ↔
    (toLex ((ofLex a).1, (ofLex a).2) : QV) ≤ toLex ((ofLex b).1, (ofLex b).2)
  rw [QV.le_iff, QV.le_iff]
  generalize (ofLex a).1 = a1
  generalize (ofLex a).2 = a2
  generalize (ofLex b).1 = b1
  generalize (ofLex b).2 = b2
  have h1 : c * a1 < c * b1 ↔ a1 < b1 := ⟨fun h => by nlinarith, fun h => by nlinarith⟩
  have h2 : c * a1 = c * b1 ↔ a1 = b1 := ⟨fun h => mul_left_cancel₀ hc.ne' h, fun h => by rw [h]⟩
  have h3 : c * a2 ≤ c * b2 ↔ a2 ≤ b2 := ⟨fun h => by nlinarith, fun h => by nlinarith⟩
  rw [h1, h2, h3]

theorem smul_le_neg {c : ℚ} (hc : c < 0) (a b : QV) : QV.smul c a ≤ QV.smul c b ↔ b ≤ a := by
  show (toLex (c * (ofLex a).1, c * (ofLex a).2) : QV) ≤ toLex (c * (ofLex b).1, c * (ofLex b).2) ↔
    (toLex ((ofLex b).1, (ofLex b).2) : QV) ≤ toLex ((ofLex a).1, (ofLex a).2)
  rw [QV.le_iff, QV.le_iff]
  generalize (ofLex a).1 = a1
  generalize (ofLex a).2 = a2
  generalize (ofLex b).1 = b1
  generalize (ofLex b).2 = b2
  have h1 : c * a1 < c * b1 ↔ b1 < a1 := ⟨fun h => by nlinarith, fun h => by nlinarith⟩
  have h2 : c * a1 = c * b1 ↔ b1 = a1 := ⟨fun h => (mul_left_cancel₀ hc.ne h).symm, fun h => by rw [h]⟩
  have h3 : c * a2 ≤ c * b2 ↔ b2 ≤ a2 := ⟨fun h => by nlinarith, fun h => by nlinarith⟩
  rw [h1, h2, h3]

theorem smul_sub_neg (c : ℚ) (a b : QV) : QV.smul c a + QV.smul (-c) b = QV.smul c (a - b) := by
  show (toLex (c * (ofLex a).1 + -c * (ofLex b).1, c * (ofLex a).2 + -c * (ofLex b).2) : QV) =
    toLex (c * ((ofLex a).1 - (ofLex b).1), c * ((ofLex a).2 - (ofLex b).2))
  congr 1
  ext <;> (dsimp only; ring)

theorem smul_embed (c q : ℚ) : QV.smul c (toLex (q, 0)) = toLex (c * q, 0) := by
  show (toLex (c * q, c * 0) : QV) = _
  rw [mul_zero]

/-! ### `x * c + k` on bounds -/

/-- `x * c + k` as the query computes it -/
def sA (x : IR) (c k : R) : IR := rdlOps.addK (rdlOps.scale x c) k

theorem sA_eq (x : IR) (c k : R) : sA x c k = ⟨R.add (R.mul x.rat c) k, R.mul x.inf c⟩ := rfl

/-- exact on finite bounds -/
theorem sA_fin {x : IR} {c k : R} (hx : IR.Fin x) (hc : FinWF c) (hk : FinWF k) :
    IR.Fin (sA x c k) ∧ IR.val (sA x c k) = QV.smul c.toRat (IR.val x) + QV.ofQ k.toRat := by
  obtain ⟨m1, m2⟩ := mul_fin hx.1 hc
  obtain ⟨n1, n2⟩ := mul_fin hx.2 hc
  obtain ⟨a1, a2⟩ := add_fin m1 hk
  refine ⟨⟨a1, n1⟩, ?_⟩
  show (toLex ((R.add (R.mul x.rat c) k).toRat, (R.mul x.inf c).toRat) : QV) =
    toLex (c.toRat * x.rat.toRat + k.toRat, c.toRat * x.inf.toRat + 0)
  rw [a2, m2, n2, add_zero, mul_comm x.rat.toRat, mul_comm x.inf.toRat]

theorem add_ninf_left {b : R} (hb : b.den ≠ 0) : R.add ninf b = ninf := by
  unfold R.add; simp [ninf, R.isInfinite, hb]

theorem mul_pinf_pos {c : R} (hc : FinWF c) (hp : 0 < c.num) : R.mul pinf c = pinf := by
  rw [R.mul_inf (by decide) hc.1 (Or.inl rfl)]
  have : infSign pinf.num c.num = 1 := by
    have h1 : pinf.num = 1 := rfl
    unfold infSign; rw [h1]; simp; omega
  rw [if_pos this]

theorem mul_pinf_neg {c : R} (hc : FinWF c) (hp : c.num < 0) : R.mul pinf c = ninf := by
  rw [R.mul_inf (by decide) hc.1 (Or.inl rfl)]
  have : infSign pinf.num c.num = -1 := by
    have h1 : pinf.num = 1 := rfl
    unfold infSign; rw [h1]; simp; omega
  rw [if_neg (by rw [this]; decide)]

theorem mul_ninf_pos {c : R} (hc : FinWF c) (hp : 0 < c.num) : R.mul ninf c = ninf := by
  rw [R.mul_inf (by decide) hc.1 (Or.inl rfl)]
  have : infSign ninf.num c.num = -1 := by
    have h1 : ninf.num = -1 := rfl
    unfold infSign; rw [h1]; simp; omega
  rw [if_neg (by rw [this]; decide)]

theorem mul_ninf_neg {c : R} (hc : FinWF c) (hp : c.num < 0) : R.mul ninf c = pinf := by
  rw [R.mul_inf (by decide) hc.1 (Or.inl rfl)]
  have : infSign ninf.num c.num = 1 := by
    have h1 : ninf.num = -1 := rfl
    unfold infSign; rw [h1]; simp; omega
  rw [if_pos this]

theorem sA_rat_pinf_pos {x : IR} {c k : R} (hx : x.rat = pinf) (hc : FinWF c) (hp : 0 < c.num) (hk : FinWF k) :
    (sA x c k).rat = pinf := by
  show R.add (R.mul x.rat c) k = pinf
  rw [hx, mul_pinf_pos hc hp, IR.add_pinf_left hk.2]

theorem sA_rat_pinf_neg {x : IR} {c k : R} (hx : x.rat = pinf) (hc : FinWF c) (hp : c.num < 0) (hk : FinWF k) :
    (sA x c k).rat = ninf := by
  show R.add (R.mul x.rat c) k = ninf
  rw [hx, mul_pinf_neg hc hp, add_ninf_left hk.2]

theorem sA_rat_ninf_pos {x : IR} {c k : R} (hx : x.rat = ninf) (hc : FinWF c) (hp : 0 < c.num) (hk : FinWF k) :
    (sA x c k).rat = ninf := by
  show R.add (R.mul x.rat c) k = ninf
  rw [hx, mul_ninf_pos hc hp, add_ninf_left hk.2]

theorem sA_rat_ninf_neg {x : IR} {c k : R} (hx : x.rat = ninf) (hc : FinWF c) (hp : c.num < 0) (hk : FinWF k) :
    (sA x c k).rat = pinf := by
  show R.add (R.mul x.rat c) k = pinf
  rw [hx, mul_ninf_neg hc hp, IR.add_pinf_left hk.2]

/-! ### bounds as predicates -/

theorem _root_.Oratio.IR.GoodL.rat_cases {x : IR} (h : IR.GoodL x) : FinWF x.rat ∨ x.rat = ninf := by
  by_cases hd : x.rat.den = 0
  · rcases wf_inf h.1 hd with e | e
    · exact absurd e h.2.1
    · right; exact e
  · left; exact ⟨h.1, hd⟩

theorem goodL_neg {x : IR} (h : IR.Good x) : IR.GoodL (rdlOps.neg x) := by
  refine ⟨wf_neg h.1, ?_, finWF_neg h.2.2⟩
  intro e
  apply h.2.1
  have e' : R.neg x.rat = pinf := e
  have hd : x.rat.den = 0 := by
    have : (R.neg x.rat).den = 0 := by rw [e']; rfl
    exact this
  rcases wf_inf h.1 hd with e1 | e1
  · rw [e1] at e'; exact absurd e' (by decide)
  · exact e1

theorem ubHolds_fin {x : IR} (h : IR.Fin x) (v : QV) : IR.ubHolds x v ↔ v ≤ IR.val x := by
  unfold IR.ubHolds
  constructor
  · rintro (hp | ⟨-, hv⟩)
    · exact absurd (by rw [hp]; rfl) h.1.2
    · exact hv
  · intro hv; exact Or.inr ⟨h.1.2, hv⟩

theorem lbHolds_fin {x : IR} (h : IR.Fin x) (v : QV) : IR.lbHolds x v ↔ IR.val x ≤ v := by
  unfold IR.lbHolds
  constructor
  · rintro (hp | ⟨-, hv⟩)
    · exact absurd (by rw [hp]; rfl) h.1.2
    · exact hv
  · intro hv; exact Or.inr ⟨h.1.2, hv⟩

theorem pos_of {c : R} (hc : FinWF c) (hp : 0 < c.num) : 0 < c.toRat := (toRat_pos_iff hc).2 hp
theorem neg_of {c : R} (hc : FinWF c) (hp : c.num < 0) : c.toRat < 0 := (toRat_neg_iff hc).2 hp

/-- the four transfer lemmas: `v ↦ c·v + k` maps the half-line below / above a bound onto the
    half-line below / above (for `c < 0`: above / below) the scaled bound -/
theorem ub_pos {hi : IR} {c k : R} (hh : IR.Good hi) (hc : FinWF c) (hp : 0 < c.num) (hk : FinWF k) (v : QV) :
    IR.ubHolds (sA hi c k) (QV.smul c.toRat v + QV.ofQ k.toRat) ↔ IR.ubHolds hi v := by
  rcases hh.rat_cases with hf | hi'
  · obtain ⟨f1, f2⟩ := sA_fin ⟨hf, hh.2.2⟩ hc hk
    rw [ubHolds_fin f1, ubHolds_fin ⟨hf, hh.2.2⟩, f2, add_le_add_iff_right, smul_le_pos (pos_of hc hp)]
  · exact ⟨fun _ => Or.inl hi', fun _ => Or.inl (sA_rat_pinf_pos hi' hc hp hk)⟩

theorem lb_pos {lo : IR} {c k : R} (hh : IR.GoodL lo) (hc : FinWF c) (hp : 0 < c.num) (hk : FinWF k) (v : QV) :
    IR.lbHolds (sA lo c k) (QV.smul c.toRat v + QV.ofQ k.toRat) ↔ IR.lbHolds lo v := by
  rcases hh.rat_cases with hf | hi'
  · obtain ⟨f1, f2⟩ := sA_fin ⟨hf, hh.2.2⟩ hc hk
    rw [lbHolds_fin f1, lbHolds_fin ⟨hf, hh.2.2⟩, f2, add_le_add_iff_right, smul_le_pos (pos_of hc hp)]
  · exact ⟨fun _ => Or.inl hi', fun _ => Or.inl (sA_rat_ninf_pos hi' hc hp hk)⟩

theorem ub_neg {hi : IR} {c k : R} (hh : IR.Good hi) (hc : FinWF c) (hp : c.num < 0) (hk : FinWF k) (v : QV) :
    IR.lbHolds (sA hi c k) (QV.smul c.toRat v + QV.ofQ k.toRat) ↔ IR.ubHolds hi v := by
  rcases hh.rat_cases with hf | hi'
  · obtain ⟨f1, f2⟩ := sA_fin ⟨hf, hh.2.2⟩ hc hk
    rw [lbHolds_fin f1, ubHolds_fin ⟨hf, hh.2.2⟩, f2, add_le_add_iff_right, smul_le_neg (neg_of hc hp)]
  · exact ⟨fun _ => Or.inl hi', fun _ => Or.inl (sA_rat_pinf_neg hi' hc hp hk)⟩

theorem lb_neg {lo : IR} {c k : R} (hh : IR.GoodL lo) (hc : FinWF c) (hp : c.num < 0) (hk : FinWF k) (v : QV) :
    IR.ubHolds (sA lo c k) (QV.smul c.toRat v + QV.ofQ k.toRat) ↔ IR.lbHolds lo v := by
  rcases hh.rat_cases with hf | hi'
  · obtain ⟨f1, f2⟩ := sA_fin ⟨hf, hh.2.2⟩ hc hk
    rw [ubHolds_fin f1, lbHolds_fin ⟨hf, hh.2.2⟩, f2, add_le_add_iff_right, smul_le_neg (neg_of hc hp)]
  · exact ⟨fun _ => Or.inl hi', fun _ => Or.inl (sA_rat_ninf_neg hi' hc hp hk)⟩

/-- the interval `[sA lo, sA hi]` (swapped for `c < 0`) is the image of `[lo, hi]` -/
theorem image_pair {lo hi : IR} {c k : R} (hl : IR.GoodL lo) (hh : IR.Good hi) (hc : FinWF c) (hcn : c.num ≠ 0)
    (hk : FinWF k) (v : QV) :
    let p := if c.isPositive then (sA lo c k, sA hi c k) else (sA hi c k, sA lo c k)
    (IR.lbHolds p.1 (QV.smul c.toRat v + QV.ofQ k.toRat) ∧ IR.ubHolds p.2 (QV.smul c.toRat v + QV.ofQ k.toRat)) ↔
      (IR.lbHolds lo v ∧ IR.ubHolds hi v) := by
  intro p
  by_cases hp : 0 < c.num
  · have e : c.isPositive = true := by simp [R.isPositive, hp]
    have ep : p = (sA lo c k, sA hi c k) := by simp only [p, e, if_true]
    rw [ep]
    show (IR.lbHolds (sA lo c k) _ ∧ IR.ubHolds (sA hi c k) _) ↔ _
    rw [lb_pos hl hc hp hk, ub_pos hh hc hp hk]
  · have hn : c.num < 0 := by omega
    have e : c.isPositive = false := by simp [R.isPositive]; omega
    have ep : p = (sA hi c k, sA lo c k) := by simp only [p, e, Bool.false_eq_true, if_false]
    rw [ep]
    show (IR.lbHolds (sA hi c k) _ ∧ IR.ubHolds (sA lo c k) _) ↔ _
    rw [ub_neg hh hc hn hk, lb_neg hl hc hn hk]
    exact And.comm

/-! ### the shape of `boundsLin rdlOps` -/

theorem boundsLin_nil (t : Dl IR) (k : R) : boundsLin rdlOps t ⟨[], k⟩ = some (⟨k, R.zero⟩, ⟨k, R.zero⟩) := rfl

theorem boundsLin_one (t : Dl IR) (x : Nat) (c k : R) :
    boundsLin rdlOps t ⟨[(x, c)], k⟩ =
      some (if c.isPositive then (sA (lb rdlOps t x) c k, sA (ub rdlOps t x) c k)
            else (sA (ub rdlOps t x) c k, sA (lb rdlOps t x) c k)) := by
  unfold boundsLin
  show (if (!(true && true)) = true then none else _) = _
  rw [if_neg (by decide)]
  split <;> rfl

theorem boundsLin_two (t : Dl IR) (v0 v1 : Nat) (c c1 k : R) (hne : v0 ≠ v1) :
    boundsLin rdlOps t ⟨[(v0, c), (v1, c1)], k⟩ =
      if R.ne (R.divAssign c1 c) (R.neg R.one) = true then none
      else some (if c.isPositive then (sA (distance rdlOps t v1 v0).1 c k, sA (distance rdlOps t v1 v0).2 c k)
            else (sA (distance rdlOps t v1 v0).2 c k, sA (distance rdlOps t v1 v0).1 c k)) := by
  unfold boundsLin
  dsimp only
  rw [find_div2 v0 v1 c c1 k hne]
  show (if (R.ne (R.divAssign c1 c) (R.neg R.one) || !(true && true)) = true then none else _) = _
  by_cases h : R.ne (R.divAssign c1 c) (R.neg R.one) = true
  · rw [if_pos (by rw [h]; rfl), if_pos h]
  · have h' : R.ne (R.divAssign c1 c) (R.neg R.one) = false := by simpa using h
    rw [if_neg (by rw [h']; decide), if_neg h]
    split <;> rfl

/-! ### exact image -/

/-- one variable: the interval of `c·x + k` is the image of `[lb x, ub x]` -/
theorem boundsLin_rdl_image1 (t : Dl IR) (x : Nat) (c k : R) (hc : FinWF c) (hcn : c.num ≠ 0) (hk : FinWF k)
    (hg : IR.Good (Dl.d rdlOps t 0 x) ∧ IR.Good (Dl.d rdlOps t x 0)) :
    ∃ lo hi, boundsLin rdlOps t ⟨[(x, c)], k⟩ = some (lo, hi) ∧
      ∀ v : QV, (IR.lbHolds lo (QV.smul c.toRat v + QV.ofQ k.toRat) ∧ IR.ubHolds hi (QV.smul c.toRat v + QV.ofQ k.toRat)) ↔
        (IR.lbHolds (lb rdlOps t x) v ∧ IR.ubHolds (ub rdlOps t x) v) := by
  refine ⟨_, _, boundsLin_one t x c k, ?_⟩
  intro v
  exact image_pair (goodL_neg hg.2) hg.1 hc hcn hk v

/-- two variables: the interval of `c·(x - y) + k` is the image of `distance(y, x)` -/
theorem boundsLin_rdl_image2 (t : Dl IR) (x y : Nat) (c c1 k : R) (hxy : x < y) (hc : FinWF c) (hc1 : FinWF c1)
    (hcn : c.toRat ≠ 0) (hopp : c1.toRat = - c.toRat) (hk : FinWF k)
    (hg : IR.Good (Dl.d rdlOps t y x) ∧ IR.Good (Dl.d rdlOps t x y)) :
    ∃ lo hi, boundsLin rdlOps t ⟨[(x, c), (y, c1)], k⟩ = some (lo, hi) ∧
      ∀ v : QV, (IR.lbHolds lo (QV.smul c.toRat v + QV.ofQ k.toRat) ∧ IR.ubHolds hi (QV.smul c.toRat v + QV.ofQ k.toRat)) ↔
        (IR.lbHolds (distance rdlOps t y x).1 v ∧ IR.ubHolds (distance rdlOps t y x).2 v) := by
  have hne : ¬ R.ne (R.divAssign c1 c) (R.neg R.one) = true := by
    rw [R.divAssign_eq_div, ne_negOne_iff hc hc1]
    exact fun h => h ⟨hcn, hopp⟩
  have hnum : c.num ≠ 0 := (ne_negOne hc hc1 hne).1
  refine ⟨_, _, by rw [boundsLin_two t x y c c1 k (Nat.ne_of_lt hxy), if_neg hne], ?_⟩
  intro v
  exact image_pair (goodL_neg hg.2) hg.1 hc hnum hk v

end DlRelR
end Oratio
