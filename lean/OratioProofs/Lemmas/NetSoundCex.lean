/-
C07N, counterexample: a theory lemma recorded by LRA bound propagation that is NOT a pure theory
lemma and that contains FALSE_lit (variable 0), along a run of the network's own API.

  x0 ≥ 1 (b1), x1 ≥ 1 (b2), x2 ≥ -10 (b3) added as unit clauses and propagated at root level;
  b4 : x0 + x1 ≤ 5 creates the slack variable x3 = x0 + x1 with lower bound 2 and reason TRUE;
  b5 : x0 + x1 ≥ 4;  b6 : x2 - x0 - x1 ≥ 0 (slack x4);  b7 : x2 ≤ 1.
  `assume b5` makes `check` pivot x3 against x0; `pop`; `assume b7`: bound propagation through the
  row x4 = x2 - x3 derives x4 ≤ 1 - 2 and records `[¬b6, ¬b7, FALSE_lit]`: the explanation cites
  `¬TRUE` for the bound x3 ≥ 2, which depends on the root-level literals b1, b2.
-/
import OratioProofs.Lemmas.NetSoundLearn

namespace Oratio
namespace NetCex
open Net

def lv (v : Nat) : Lin := ⟨[(v, ⟨1, 1⟩)], ⟨0, 1⟩⟩
def lc (k : Int) : Lin := ⟨[], ⟨k, 1⟩⟩
def yz : Lin := ⟨[(0, ⟨1, 1⟩), (1, ⟨1, 1⟩)], ⟨0, 1⟩⟩
def wyz : Lin := ⟨[(0, ⟨-1, 1⟩), (1, ⟨-1, 1⟩), (2, ⟨1, 1⟩)], ⟨0, 1⟩⟩
def getN (x : Option (Lit × Net)) (d : Net) : Lit × Net := x.getD (⟨0, true⟩, d)
def getP (x : Option (Bool × Net)) (d : Net) : Bool × Net := x.getD (false, d)

def m0 : Net := (lraNewVar (lraNewVar (lraNewVar Net.init).2).2).2
def a1 := getN (lraNewRel m0 .geq (lv 0) (lc 1)) m0
def a2 := getN (lraNewRel a1.2 .geq (lv 1) (lc 1)) a1.2
def a3 := getN (lraNewRel a2.2 .geq (lv 2) (lc (-10))) a2.2
def m1 : Net := { a3.2 with sat := (((a3.2.sat.newClause [a1.1]).2.newClause [a2.1]).2.newClause [a3.1]).2 }
def m2 := getP (m1.propagate 50) m1
def a4 := getN (lraNewRel m2.2 .leq yz (lc 5)) m2.2
def a5 := getN (lraNewRel a4.2 .geq yz (lc 4)) a4.2
def a6 := getN (lraNewRel a5.2 .geq wyz (lc 0)) a5.2
def a7 := getN (lraNewRel a6.2 .leq (lv 2) (lc 1)) a6.2
def m3 := getP (a7.2.assume a5.1 50) a7.2
def m4 : Net := m3.2.pop
def m5 := getP (m4.assume a7.1 50) m4

def cexClause : List Lit := [⟨6, false⟩, ⟨7, false⟩, ⟨0, true⟩]

/-- every call succeeds, the literals are b1 … b7, and the last `assume` records (and stores as
    clause 0) the theory lemma `[¬b6, ¬b7, FALSE_lit]` -/
theorem run_facts :
    [a1.1, a2.1, a3.1, a4.1, a5.1, a6.1, a7.1] = [⟨1, true⟩, ⟨2, true⟩, ⟨3, true⟩, ⟨4, true⟩, ⟨5, true⟩, ⟨6, true⟩, ⟨7, true⟩] ∧
    m2.1 = true ∧ m3.1 = true ∧ m5.1 = true ∧
    m4.sat.log = [] ∧ m5.2.sat.log = [cexClause] ∧ m5.2.sat.cls = [(0, cexClause)] ∧
    (m4.lra.bnd (Lra.lbIdx 3)).reason = Lit.trueLit ∧ m4.lra.lb 3 = IR.ofR ⟨2, 1⟩ := by
  decide +kernel

/-- the SAT-level structural invariant of C07 does not survive: a stored clause contains variable 0 -/
theorem wf_broken : ¬ m5.2.sat.Wf := by
  intro h
  have hm : ((0, cexClause) : Nat × Clause) ∈ m5.2.sat.cls := by rw [run_facts.2.2.2.2.2.2.1]; exact List.mem_singleton.2 rfl
  exact h.c.clsVar0 _ hm ⟨0, true⟩ (by decide) rfl

end NetCex
end Oratio

namespace Oratio
namespace NetCex
open Net

/-- b3, b4, b6, b7 true; b1, b2, b5 false -/
def cexAlpha : Asg := fun v => v == 3 || v == 4 || v == 6 || v == 7

theorem cex_tableau : m5.2.lra.tableau =
    [(0, ⟨[(1, ⟨-1, 1⟩), (3, ⟨1, 1⟩)], ⟨0, 1⟩⟩), (4, ⟨[(2, ⟨1, 1⟩), (3, ⟨-1, 1⟩)], ⟨0, 1⟩⟩)] := by decide +kernel

theorem cex_asrts : m5.2.lra.vAsrts =
    [(1, ⟨.geq, ⟨1, true⟩, 0, IR.ofR ⟨1, 1⟩⟩), (2, ⟨.geq, ⟨2, true⟩, 1, IR.ofR ⟨1, 1⟩⟩),
     (3, ⟨.geq, ⟨3, true⟩, 2, IR.ofR ⟨-10, 1⟩⟩), (4, ⟨.leq, ⟨4, true⟩, 3, IR.ofR ⟨5, 1⟩⟩),
     (5, ⟨.geq, ⟨5, true⟩, 3, IR.ofR ⟨4, 1⟩⟩), (6, ⟨.geq, ⟨6, true⟩, 4, IR.ofR ⟨0, 1⟩⟩),
     (7, ⟨.leq, ⟨7, true⟩, 2, IR.ofR ⟨1, 1⟩⟩)] := by decide +kernel

theorem le_true (k : R) (hk : k.toRat ≤ 0) : IR.val (IR.ofR k) ≤ Lra.nu (fun _ => 0) (fun _ => 0) 0 := by
  show (toLex (k.toRat, (R.zero).toRat) : QV) ≤ toLex (0, 0)
  rw [QV.le_iff]
  rcases lt_or_eq_of_le hk with h | h
  · exact Or.inl h
  · exact Or.inr ⟨h, by norm_num [R.toRat, R.zero]⟩

theorem ge_true (k : R) (hk : 0 ≤ k.toRat) : Lra.nu (fun _ => 0) (fun _ => 0) 0 ≤ IR.val (IR.ofR k) := by
  show (toLex (0, 0) : QV) ≤ toLex (k.toRat, (R.zero).toRat)
  rw [QV.le_iff]
  rcases lt_or_eq_of_le hk with h | h
  · exact Or.inl h
  · exact Or.inr ⟨h, by norm_num [R.toRat, R.zero]⟩

theorem ge_false (k : R) (hk : 0 < k.toRat) : Lra.nu (fun _ => 0) (fun _ => 0) 0 ≤ IR.val (IR.ofR k) - QV.eps := by
  have h1 : (toLex (0, 0) : QV) + QV.eps ≤ toLex (k.toRat, (R.zero).toRat) := by
    show (toLex ((0 : ℚ) + 0, (0 : ℚ) + 1) : QV) ≤ _
    rw [QV.le_iff]; left; simpa using hk
  exact le_sub_iff_add_le.2 h1

theorem cex_tmodel : TModel m5.2 cexAlpha := by
  refine ⟨fun _ => 0, fun _ => 0, fun _ => 0, fun _ => 0, ?_, ?_, ?_, ?_⟩
  · unfold Lra.Solves
    rw [cex_tableau]
    constructor
    · intro e he
      simp only [List.mem_cons, List.not_mem_nil, or_false] at he
      rcases he with rfl | rfl <;> norm_num [Lin.evalS, R.toRat]
    · intro e he
      simp only [List.mem_cons, List.not_mem_nil, or_false] at he
      rcases he with rfl | rfl <;> norm_num [Lin.evalS, R.toRat, R.zero]
  · unfold Lra.AsrtAgrees
    rw [cex_asrts]
    intro e he
    simp only [List.mem_cons, List.not_mem_nil, or_false] at he
    rcases he with rfl | rfl | rfl | rfl | rfl | rfl | rfl <;> simp only
    · exact ⟨fun h => absurd h (by decide), fun _ => ge_false _ (by norm_num [R.toRat])⟩
    · exact ⟨fun h => absurd h (by decide), fun _ => ge_false _ (by norm_num [R.toRat])⟩
    · exact ⟨fun _ => le_true _ (by norm_num [R.toRat]), fun h => absurd h (by decide)⟩
    · exact ⟨fun _ => ge_true _ (by norm_num [R.toRat]), fun h => absurd h (by decide)⟩
    · exact ⟨fun h => absurd h (by decide), fun _ => ge_false _ (by norm_num [R.toRat])⟩
    · exact ⟨fun _ => le_true _ (by norm_num [R.toRat]), fun h => absurd h (by decide)⟩
    · exact ⟨fun _ => ge_true _ (by norm_num [R.toRat]), fun h => absurd h (by decide)⟩
  · unfold Dl.Agrees
    rw [show m5.2.idl.varDists = [] by decide +kernel]
    intro c hc; cases hc
  · unfold DlR.AgreesR
    rw [show m5.2.rdl.varDists = [] by decide +kernel]
    intro c hc; cases hc

/-- the recorded clause is NOT T-entailed by the empty clause set: `cexAlpha` (b1, b2 false) is
    T-consistent (all variables 0) and falsifies it -/
theorem not_pure : ¬ TEntails m5.2 [] cexClause := by
  intro h
  have := h cexAlpha (by decide) (by decide) cex_tmodel
  revert this
  decide

end NetCex
end Oratio
