/-
C07N: the SAT part of `next()` above root level under the weak invariant: pop one level and record the
blocking clause (the negated decisions), which becomes an added clause.
-/
import OratioProofs.Lemmas.NetSatRecK

set_option linter.unusedSimpArgs false
set_option linter.unusedVariables false

namespace Oratio
namespace Sat

theorem nextStart_sinv {orig K : Cnf} {s : Sat} (h : SInv orig K s) (hq : s.queue = []) (hne : s.trailLim ≠ []) :
    SInv (orig ++ [s.decisions.map Lit.neg]) (K ++ [s.decisions.map Lit.neg]) (s.pop.record (s.decisions.map Lit.neg)) ∧
    AssignedKeep s.pop (s.pop.record (s.decisions.map Lit.neg)) ∧
    (s.pop.record (s.decisions.map Lit.neg)).trailLim = s.pop.trailLim ∧
    (s.pop.record (s.decisions.map Lit.neg)).vals.length = s.vals.length ∧
    (s.pop.record (s.decisions.map Lit.neg)).dead = s.dead := by
  have ha := h.wf.a
  cases hD : s.decisions with
  | nil =>
    have := ha.decLen; rw [hD] at this
    exact absurd (List.eq_nil_of_length_eq_zero this.symm) hne
  | cons d ds =>
    simp only [List.map_cons]
    have hL : s.decisionLevel = ds.length + 1 := by
      simp only [decisionLevel, ← ha.decLen, hD, List.length_cons]
    obtain ⟨lim, lims, hl⟩ : ∃ lim lims, s.trailLim = lim :: lims := by
      cases hl : s.trailLim with
      | nil => exact absurd hl hne
      | cons lim lims => exact ⟨lim, lims, rfl⟩
    obtain ⟨hm, hk, hg⟩ := ha.pop_mem hl
    have hdOK := (h.dec (ds.length + 1)) [] d ds (by simpa using hD) (by omega)
    have hsub : ∀ c ∈ orig, c ∈ orig ++ [d.neg :: ds.map Lit.neg] := fun c hc => List.mem_append_left _ hc
    have hpop : SInv (orig ++ [d.neg :: ds.map Lit.neg]) K s.pop := (h.mono_orig hsub).pop hq
    have hv : s.pop.value d.neg = none := by
      have := hg d hdOK.1 (by rw [hdOK.2, hL])
      rw [value_eq_none] at this ⊢; exact this
    have hrest : ∀ x ∈ ds.map Lit.neg, x.neg ∈ s.pop.trail ∨ x = Lit.falseLit := by
      intro x hx
      obtain ⟨e, he', rfl⟩ := List.mem_map.1 hx
      obtain ⟨b1, b2, hb12⟩ := List.append_of_mem he'
      have := (h.dec (b2.length + 1)) (d :: b1) e b2 (by rw [hD, hb12]; simp) (by omega)
      left
      rw [Lit.neg_neg]
      exact (hm e).2 ⟨this.1, by rw [this.2, hL, hb12]; simp; omega⟩
    have hlt : d.neg.var < s.pop.vals.length := by
      rw [(pop_frame s).2.2.2.2.2.2.2]; exact ha.trail_lt (l := d) hdOK.1
    have hrec := fun m => record_wfs_keeps (m := m) hpop.wf hpop.ent (hpop.dec m) d.neg (ds.map Lit.neg) hv hlt hrest
      (by
        intro e
        have : ds = [] := by simpa using e
        rw [pop_decisionLevel, hL, this]; rfl)
      (Ents.of_mem (List.mem_append_right _ (List.mem_singleton.2 rfl)))
    obtain ⟨w, e, _, rr⟩ := hrec 0
    refine ⟨⟨w, e, fun m => (hrec m).2.2.1⟩, assignedKeep_of_trail hpop.wf w.lvl0 (Dl.record_le _ _) rr.lvl,
      rr.trailLim, by rw [rr.lenVals, (pop_frame s).2.2.2.2.2.2.2], by rw [rr.dead, (pop_frame s).2.2.2.2.2.2.1]⟩

end Sat
end Oratio
