/-
C07: basic lemmas on lists, values, and the elementary state updates
(`enqueue`, `addClause`, `newVar`, `watch`).
-/
import OratioModel
import OratioProofs.Lemmas.SatCoreDefs

set_option linter.unusedSimpArgs false
set_option linter.unusedVariables false

namespace Oratio

/-! ### lists -/

theorem getD_set_eq {α} (l : List α) (i : Nat) (a d : α) (h : i < l.length) : (l.set i a).getD i d = a := by
  simp [List.getD_eq_getElem?_getD, List.getElem?_set, h]

theorem getD_set_ne {α} (l : List α) (i j : Nat) (a d : α) (h : i ≠ j) : (l.set i a).getD j d = l.getD j d := by
  simp [List.getD_eq_getElem?_getD, List.getElem?_set, h]

theorem getD_set {α} (l : List α) (i j : Nat) (a d : α) :
    (l.set i a).getD j d = if i = j ∧ i < l.length then a else l.getD j d := by
  by_cases h : i = j
  · subst h
    by_cases h2 : i < l.length
    · simp [getD_set_eq, h2]
    · simp [h2, List.getD_eq_getElem?_getD, List.getElem?_set]
  · simp [h, getD_set_ne]

theorem getD_some_lt {α} {l : List (Option α)} {i : Nat} {a : α} (h : l.getD i none = some a) : i < l.length := by
  by_cases h2 : i < l.length
  · exact h2
  · simp [List.getD_eq_getElem?_getD, List.getElem?_eq_none (Nat.le_of_not_lt h2)] at h

theorem set_getD_self {α} (l : List α) (i : Nat) (d : α) : l.set i (l.getD i d) = l := by
  apply List.ext_getElem?
  intro j
  by_cases h : i = j
  · subst h
    by_cases h2 : i < l.length
    · simp [List.getElem?_set, h2, List.getD_eq_getElem?_getD]
    · simp [List.getElem?_set, h2]
  · simp [List.getElem?_set, h]

theorem length_filter_mono {α} (l : List α) (p q : α → Bool) (h : ∀ x ∈ l, p x = true → q x = true) :
    (l.filter p).length ≤ (l.filter q).length := by
  induction l with
  | nil => simp
  | cons x t ih =>
    have ih' := ih (fun y hy => h y (List.mem_cons_of_mem _ hy))
    have hx := h x (List.mem_cons_self ..)
    simp only [List.filter_cons]
    cases hp : p x <;> cases hq : q x <;> simp_all <;> omega

/-! ### literals -/

@[simp] theorem Lit.neg_neg (l : Lit) : l.neg.neg = l := by cases l; simp [Lit.neg]
@[simp] theorem Lit.neg_var (l : Lit) : l.neg.var = l.var := rfl
@[simp] theorem Lit.neg_sign (l : Lit) : l.neg.sign = !l.sign := rfl

theorem Lit.neg_ne (l : Lit) : l.neg ≠ l := by cases l; simp [Lit.neg]

theorem Lit.ext' {a b : Lit} (h1 : a.var = b.var) (h2 : a.sign = b.sign) : a = b := by
  cases a; cases b; simp_all

theorem Lit.eq_or_neg {a b : Lit} (h : a.var = b.var) : a = b ∨ a = b.neg := by
  cases a with | mk v s => cases b with | mk w t =>
  simp only [Lit.neg, Lit.mk.injEq] at *
  subst h; cases s <;> cases t <;> simp

theorem Lit.idx_inj {a b : Lit} (h : a.idx = b.idx) : a = b := by
  cases a with | mk v s => cases b with | mk w t =>
  simp only [Lit.idx] at h
  cases s <;> cases t <;> simp at h ⊢ <;> omega

theorem Lit.idx_lt {a : Lit} {n : Nat} (h : a.var < n) : a.idx < 2 * n := by
  cases a with | mk v s => simp only [Lit.idx] at *; split <;> omega

theorem Lit.neg_idx_ne {a b : Lit} (h : a.var ≠ b.var) : a.neg.idx ≠ b.neg.idx := by
  intro e; exact h (by have := Lit.idx_inj e; simpa using congrArg Lit.var this)

/-! ### semantics -/

theorem Asg.lit_neg (α : Asg) (l : Lit) : α.lit l.neg = !α.lit l := by
  cases l with | mk v s => cases s <;> simp [Asg.lit, Lit.neg]

theorem Asg.cnf_append (α : Asg) (F G : Cnf) : α.cnf (F ++ G) = (α.cnf F && α.cnf G) := by
  simp [Asg.cnf, List.all_append]

theorem Asg.clause_append (α : Asg) (c d : Clause) : α.clause (c ++ d) = (α.clause c || α.clause d) := by
  simp [Asg.clause, List.any_append]

theorem Asg.cnf_units (α : Asg) (ls : List Lit) : α.cnf (units ls) = ls.all α.lit := by
  simp [Asg.cnf, units, List.all_map, Asg.clause, Function.comp_def]

theorem Ents.mono {F G : Cnf} {c : Clause} (h : Ents F c) (hs : ∀ d ∈ F, d ∈ G) : Ents G c := by
  intro α h0 hG
  apply h α h0
  simp only [Asg.cnf, List.all_eq_true] at hG ⊢
  exact fun d hd => hG d (hs d hd)

theorem Ents.of_mem {F : Cnf} {c : Clause} (h : c ∈ F) : Ents F c := by
  intro α _ hF
  simp only [Asg.cnf, List.all_eq_true] at hF
  exact hF c h

theorem Ents.weaken {F : Cnf} {c d : Clause} (h : Ents F c) (hs : ∀ l ∈ c, l ∈ d) : Ents F d := by
  intro α h0 hF
  have := h α h0 hF
  simp only [Asg.clause, List.any_eq_true] at this ⊢
  obtain ⟨l, hl, hv⟩ := this
  exact ⟨l, hs l hl, hv⟩

/-! ### values -/

namespace Sat

theorem value_def (s : Sat) (l : Lit) : s.value l = litValue s.vals l := rfl

theorem value_eq_none {s : Sat} {l : Lit} : s.value l = none ↔ s.vals.getD l.var none = none := by
  simp only [value, litValue]; split <;> simp_all

theorem value_eq_true {s : Sat} {l : Lit} : s.value l = some true ↔ s.vals.getD l.var none = some l.sign := by
  simp only [value, litValue]
  split
  · simp_all
  · rename_i b hb; rw [hb]; cases b <;> cases h : l.sign <;> simp

theorem value_eq_false {s : Sat} {l : Lit} : s.value l = some false ↔ s.vals.getD l.var none = some (!l.sign) := by
  simp only [value, litValue]
  split
  · simp_all
  · rename_i b hb; rw [hb]; cases b <;> cases h : l.sign <;> simp

theorem value_neg_true {s : Sat} {l : Lit} : s.value l.neg = some true ↔ s.value l = some false := by
  rw [value_eq_true, value_eq_false]; simp

theorem value_neg_false {s : Sat} {l : Lit} : s.value l.neg = some false ↔ s.value l = some true := by
  rw [value_eq_true, value_eq_false]; simp

theorem value_congr {s t : Sat} {l : Lit} (h : t.vals.getD l.var none = s.vals.getD l.var none) :
    t.value l = s.value l := by
  simp only [value, litValue, h]

theorem lvl_congr {s t : Sat} {l : Lit} (h : t.level.getD l.var 0 = s.level.getD l.var 0) : t.lvl l = s.lvl l := h

@[simp] theorem lvl_neg (s : Sat) (l : Lit) : s.lvl l.neg = s.lvl l := rfl

/-- on a well-formed state the true literals are the trail literals (and `¬b0`) -/
theorem WfA.value_true {s : Sat} (h : s.WfA) {l : Lit} :
    s.value l = some true ↔ l ∈ s.trail ∨ l = Lit.trueLit := by
  rw [value_eq_true]
  constructor
  · intro hv
    rcases h.valTrail _ _ hv with h0 | ht
    · right
      rw [h0, h.val0] at hv
      exact Lit.ext' h0 (by simpa [Lit.trueLit] using hv.symm)
    · left; simpa using ht
  · rintro (ht | rfl)
    · exact (h.trailVal l ht).1
    · simpa [Lit.trueLit] using h.val0

theorem WfA.value_false {s : Sat} (h : s.WfA) {l : Lit} :
    s.value l = some false ↔ l.neg ∈ s.trail ∨ l = Lit.falseLit := by
  rw [← value_neg_true, h.value_true]
  constructor
  · rintro (a | a)
    · exact Or.inl a
    · right; have := congrArg Lit.neg a; rw [Lit.neg_neg] at this; rw [this]; rfl
  · rintro (a | a)
    · exact Or.inl a
    · right; subst a; rfl

theorem WfA.trail_var_ne {s : Sat} (h : s.WfA) {l p : Lit} (hl : l ∈ s.trail) (hp : s.value p = none) :
    l.var ≠ p.var := by
  intro e
  have := (h.trailVal l hl).1
  rw [value_eq_none] at hp
  rw [e, hp] at this
  cases this

theorem WfA.var_ne_zero_of_none {s : Sat} (h : s.WfA) {p : Lit} (hp : s.value p = none) : p.var ≠ 0 := by
  intro e
  rw [value_eq_none, e, h.val0] at hp
  cases hp

theorem WfA.trail_lt {s : Sat} (h : s.WfA) {l : Lit} (hl : l ∈ s.trail) : l.var < s.vals.length :=
  getD_some_lt (h.trailVal l hl).1

/-- two trail literals on the same variable are equal -/
theorem WfA.trail_var_inj {s : Sat} (h : s.WfA) {a b : Lit} (ha : a ∈ s.trail) (hb : b ∈ s.trail)
    (e : a.var = b.var) : a = b := by
  apply Lit.ext' e
  have h1 := (h.trailVal a ha).1
  have h2 := (h.trailVal b hb).1
  rw [e, h2] at h1
  simpa using h1.symm

theorem WfA.not_both {s : Sat} (h : s.WfA) {a : Lit} (ha : a ∈ s.trail) (hb : a.neg ∈ s.trail) : False :=
  Lit.neg_ne a (h.trail_var_inj hb ha rfl)

theorem WfA.lvl_le {s : Sat} (h : s.WfA) {l : Lit} (hl : l ∈ s.trail) : s.lvl l ≤ s.decisionLevel := by
  obtain ⟨a, b, e⟩ := List.append_of_mem hl
  have := h.levelOK l b ⟨a, e.symm⟩
  rw [this]
  exact List.length_filter_le _ _

/-- levels are monotone along the trail -/
theorem WfA.lvl_mono {s : Sat} (h : s.WfA) {l : Lit} {b : List Lit} (hs : (l :: b) <:+ s.trail) {x : Lit}
    (hx : x ∈ b) : s.lvl x ≤ s.lvl l := by
  obtain ⟨a', b', e⟩ := List.append_of_mem hx
  have hs' : (x :: b') <:+ s.trail := by
    obtain ⟨pre, hpre⟩ := hs
    exact ⟨pre ++ l :: a', by rw [← hpre, e]; simp⟩
  rw [h.levelOK l b hs, h.levelOK x b' hs']
  have hlen : b'.length ≤ b.length := by rw [e]; simp; omega
  apply length_filter_mono
  intro lim _ hl
  simp only [decide_eq_true_eq] at hl ⊢
  omega

theorem WfA.root_lvl {s : Sat} (h : s.WfA) (hr : s.trailLim = []) {l : Lit} (hl : l ∈ s.trail) : s.lvl l = 0 := by
  have := h.lvl_le hl
  simp [decisionLevel, hr] at this
  exact this

end Sat
end Oratio
