/-
C09X, part 2: the conflict clause of `check()` is a theory lemma (the Farkas step), at the state
in which the conflict is found.
-/
import OratioProofs.Lemmas.LraExplArith
import OratioProofs.Lemmas.DlPathWalk

namespace Oratio
namespace Lra
open IR Lin

theorem lit_neg (α : Asg) (l : Lit) : α.lit l.neg = !α.lit l := by
  cases l with | mk v sg => cases sg <;> simp [Asg.lit, Lit.neg]

theorem lit_of_neg_false {α : Asg} {l : Lit} (h : α.lit l.neg = false) : α.lit l = true := by
  rw [lit_neg] at h; simpa using h

theorem lit_of_neg_true {α : Asg} {l : Lit} (h : α.lit l.neg = true) : α.lit l = false := by
  rw [lit_neg] at h; simpa using h

/-! ### the literals collected by the explanation loops of `check` -/

/-- the loop of `check` that collects the blocking reasons -/
def collect (P N : Nat → Lit) (c : List Lit) (e : Nat × R) : List Lit :=
  if e.2.isPositive then c ++ [P e.1] else if e.2.isNegative then c ++ [N e.1] else c

theorem collect_acc (P N : Nat → Lit) (vars : List (Nat × R)) (acc : List Lit) {l : Lit} (h : l ∈ acc) :
    l ∈ vars.foldl (collect P N) acc := by
  induction vars generalizing acc with
  | nil => exact h
  | cons e vars ih =>
    rw [List.foldl_cons]
    apply ih
    unfold collect
    split
    · exact List.mem_append_left _ h
    · split
      · exact List.mem_append_left _ h
      · exact h

theorem collect_mem (P N : Nat → Lit) (vars : List (Nat × R)) (acc : List Lit) {e : Nat × R} (he : e ∈ vars) :
    (e.2.isPositive = true → P e.1 ∈ vars.foldl (collect P N) acc) ∧
    (e.2.isPositive = false → e.2.isNegative = true → N e.1 ∈ vars.foldl (collect P N) acc) := by
  induction vars generalizing acc with
  | nil => cases he
  | cons a vars ih =>
    rw [List.foldl_cons]
    rcases List.mem_cons.1 he with rfl | he
    · constructor
      · intro hp
        apply collect_acc
        unfold collect
        rw [if_pos hp]
        exact List.mem_append_right _ (List.mem_singleton.2 rfl)
      · intro hp hn
        apply collect_acc
        unfold collect
        rw [if_neg (by rw [hp]; exact Bool.false_ne_true), if_pos hn]
        exact List.mem_append_right _ (List.mem_singleton.2 rfl)
    · exact ih _ he

/-! ### the variables of a row have bounds -/

theorem row_var_inrange {t : Lra} (ht : TabWF t) (hl : BoundsLen t) {e : Nat × Lin} (he : e ∈ t.tableau) :
    ubIdx e.1 < t.bounds.length ∧ ∀ p ∈ e.2.vars, ubIdx p.1 < t.bounds.length := by
  have hb := ht.bound e he
  have hw := ht.wlen
  unfold BoundsLen at hl
  unfold ubIdx
  refine ⟨by omega, fun p hp => ?_⟩
  have := hb.2 p hp
  omega

/-! ### the Farkas step -/

/-- lower conflict: the row of `xi` cannot reach `lb xi` -/
theorem farkas_lower {t : Lra} (ht : TabWF t) (hb : BoundsOK t) (hl : BoundsLen t) (hv : ValsOK t)
    {xi : Nat} {fl : Lin} (hmem : (xi, fl) ∈ t.tableau)
    (hlt : IR.lt (t.value xi) (t.lb xi) = true)
    (hblock : ∀ e ∈ fl.vars, (e.2.isPositive = true → IR.lt (t.value e.1) (t.ub e.1) = false) ∧
                              (e.2.isNegative = true → IR.gt (t.value e.1) (t.lb e.1) = false))
    (α : Asg) (σr σi : Nat → Rat) (hs : Solves t σr σi) (hj : BoundsJust α σr σi t) :
    α.clause (fl.vars.foldl (collect (fun x => (t.ubReason x).neg) (fun x => (t.lbReason x).neg)) []
      ++ [(t.lbReason xi).neg]) = true := by
  apply Dl.clause_true_of
  intro hall
  obtain ⟨hxr, hvr⟩ := row_var_inrange ht hl hmem
  obtain ⟨_, lw, _⟩ := (wf_iff fl).1 (ht.rows _ hmem)
  -- the violated bound
  obtain ⟨hlbf, hlbv⟩ := lb_of_lt (hv.1 xi) (hb xi).1 hlt
  have h1 : IR.val (t.lb xi) ≤ nu σr σi xi := by
    have := (hj xi hxr).1 (lit_of_neg_false (hall _ (List.mem_append_right _ (List.mem_singleton.2 rfl))))
    exact (BLe.fin hlbf).1 this
  -- the row under both valuations
  have h2 : nu σr σi xi = evalQ fl (nu σr σi) := hs.row hmem
  have h3 : IR.val (t.value xi) = evalQ fl (nu t.ratAssign t.infAssign) := hv.2.row hmem
  have h4 : evalQ fl (nu σr σi) ≤ evalQ fl (nu t.ratAssign t.infAssign) := by
    apply evalQ_le
    intro p hp
    have hc := lw p hp
    obtain ⟨m1, m2⟩ := collect_mem (fun x => (t.ubReason x).neg) (fun x => (t.lbReason x).neg) fl.vars [] hp
    rw [nu_assign]
    by_cases hpos : p.2.isPositive = true
    · obtain ⟨f1, f2⟩ := ub_of_not_lt (hv.1 p.1) (hb p.1).2 ((hblock p hp).1 hpos)
      have := (hj p.1 (hvr p hp)).2 (lit_of_neg_false (hall _ (List.mem_append_left _ (m1 hpos))))
      exact QV.smul_le_of_nonneg (le_of_lt (pos_toRat hc hpos)) (le_trans ((VLe.fin f1).1 this) f2)
    · have hpos' : p.2.isPositive = false := by simpa using hpos
      by_cases hneg : p.2.isNegative = true
      · obtain ⟨f1, f2⟩ := lb_of_not_gt (hv.1 p.1) (hb p.1).1 ((hblock p hp).2 hneg)
        have := (hj p.1 (hvr p hp)).1 (lit_of_neg_false (hall _ (List.mem_append_left _ (m2 hpos' hneg))))
        exact QV.smul_le_of_nonpos (le_of_lt (neg_toRat hc hneg)) (le_trans f2 ((BLe.fin f1).1 this))
      · rw [zero_toRat hc hpos' (by simpa using hneg), zero_smul, zero_smul]
  have : IR.val (t.lb xi) ≤ IR.val (t.value xi) := by rw [h3]; exact le_trans (h2 ▸ h1) h4
  exact absurd hlbv (not_lt.2 this)

/-- upper conflict: the row of `xi` cannot come down to `ub xi` -/
theorem farkas_upper {t : Lra} (ht : TabWF t) (hb : BoundsOK t) (hl : BoundsLen t) (hv : ValsOK t)
    {xi : Nat} {fl : Lin} (hmem : (xi, fl) ∈ t.tableau)
    (hgt : IR.gt (t.value xi) (t.ub xi) = true)
    (hblock : ∀ e ∈ fl.vars, (e.2.isNegative = true → IR.lt (t.value e.1) (t.ub e.1) = false) ∧
                              (e.2.isPositive = true → IR.gt (t.value e.1) (t.lb e.1) = false))
    (α : Asg) (σr σi : Nat → Rat) (hs : Solves t σr σi) (hj : BoundsJust α σr σi t) :
    α.clause (fl.vars.foldl (collect (fun x => (t.lbReason x).neg) (fun x => (t.ubReason x).neg)) []
      ++ [(t.ubReason xi).neg]) = true := by
  apply Dl.clause_true_of
  intro hall
  obtain ⟨hxr, hvr⟩ := row_var_inrange ht hl hmem
  obtain ⟨_, lw, _⟩ := (wf_iff fl).1 (ht.rows _ hmem)
  obtain ⟨hubf, hubv⟩ := ub_of_gt (hv.1 xi) (hb xi).2 hgt
  have h1 : nu σr σi xi ≤ IR.val (t.ub xi) := by
    have := (hj xi hxr).2 (lit_of_neg_false (hall _ (List.mem_append_right _ (List.mem_singleton.2 rfl))))
    exact (VLe.fin hubf).1 this
  have h2 : nu σr σi xi = evalQ fl (nu σr σi) := hs.row hmem
  have h3 : IR.val (t.value xi) = evalQ fl (nu t.ratAssign t.infAssign) := hv.2.row hmem
  have h4 : evalQ fl (nu t.ratAssign t.infAssign) ≤ evalQ fl (nu σr σi) := by
    apply evalQ_le
    intro p hp
    have hc := lw p hp
    obtain ⟨m1, m2⟩ := collect_mem (fun x => (t.lbReason x).neg) (fun x => (t.ubReason x).neg) fl.vars [] hp
    rw [nu_assign]
    by_cases hpos : p.2.isPositive = true
    · obtain ⟨f1, f2⟩ := lb_of_not_gt (hv.1 p.1) (hb p.1).1 ((hblock p hp).2 hpos)
      have := (hj p.1 (hvr p hp)).1 (lit_of_neg_false (hall _ (List.mem_append_left _ (m1 hpos))))
      exact QV.smul_le_of_nonneg (le_of_lt (pos_toRat hc hpos)) (le_trans f2 ((BLe.fin f1).1 this))
    · have hpos' : p.2.isPositive = false := by simpa using hpos
      by_cases hneg : p.2.isNegative = true
      · obtain ⟨f1, f2⟩ := ub_of_not_lt (hv.1 p.1) (hb p.1).2 ((hblock p hp).1 hneg)
        have := (hj p.1 (hvr p hp)).2 (lit_of_neg_false (hall _ (List.mem_append_left _ (m2 hpos' hneg))))
        exact QV.smul_le_of_nonpos (le_of_lt (neg_toRat hc hneg)) (le_trans ((VLe.fin f1).1 this) f2)
      · rw [zero_toRat hc hpos' (by simpa using hneg), zero_smul, zero_smul]
  have : IR.val (t.value xi) ≤ IR.val (t.ub xi) := by rw [h3]; exact le_trans h4 (h2 ▸ h1)
  exact absurd hubv (not_lt.2 this)

end Lra
end Oratio
