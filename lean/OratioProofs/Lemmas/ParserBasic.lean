/-
Basic lemmas about the token primitives of the parser model (property C16, parser part):
`adv`, `dotIds`, `qid`, `castLook`, the operator table, and the conditions on the token
that follows a printed expression.
-/
import OratioProofs.Lemmas.ParserPrint

namespace Oratio.Riddle

@[simp] theorem ok_bind {ε α β : Type} (a : α) (f : α → Except ε β) : (Except.ok a >>= f) = f a := rfl
@[simp] theorem err_bind {ε α β : Type} (e : ε) (f : α → Except ε β) : (Except.error e >>= f) = Except.error e := rfl
@[simp] theorem pure_eq_ok {ε α : Type} (a : α) : (pure a : Except ε α) = Except.ok a := rfl

@[simp] theorem adv_cons2 (a b : Tok) (r : List Tok) : adv (a :: b :: r) = .ok (b :: r) := rfl

theorem adv_cons (a : Tok) {r : List Tok} (h : r ≠ []) : adv (a :: r) = .ok r := by
  cases r with
  | nil => exact absurd rfl h
  | cons b r => rfl

/-! ### qualified identifiers -/

theorem dotIds_stop (t : Tok) (r : List Tok) (ht : t ≠ .sym .DOT) : dotIds (t :: r) = .ok ([], t :: r) := by
  unfold dotIds
  split <;> simp_all

theorem dotIds_dotToks (ns : List Name) (t : Tok) (r : List Tok) (ht : t ≠ .sym .DOT) :
    dotIds (dotToks ns ++ t :: r) = .ok (ns, t :: r) := by
  induction ns with
  | nil => simpa [dotToks] using dotIds_stop t r ht
  | cons n ns ih =>
    cases ns with
    | nil =>
      simp only [dotToks, List.cons_append, List.nil_append] at ih ⊢
      rw [dotIds, ih]; rfl
    | cons m ms =>
      simp only [dotToks, List.cons_append] at ih ⊢
      rw [dotIds, ih]; rfl

theorem dotToks_append_ne_nil (ns : List Name) (t : Tok) (r : List Tok) : dotToks ns ++ t :: r ≠ [] := by
  cases ns <;> simp [dotToks]

theorem qid_qidToks (q : QId) (hq : q ≠ []) (t : Tok) (r : List Tok) (ht : t ≠ .sym .DOT) :
    qid (qidToks q ++ t :: r) = .ok (q, t :: r) := by
  cases q with
  | nil => exact absurd rfl hq
  | cons n ns =>
    simp [qid, qidToks, expectId, adv_cons _ (dotToks_append_ne_nil ns t r), dotIds_dotToks ns t r ht]

theorem splitLast_concat (n : Name) (ns : List Name) (ids : QId) (fn : Name) (h : n :: ns = ids ++ [fn]) :
    splitLast n ns = (ids, fn) := by
  unfold splitLast
  rw [h]
  simp

/-! ### the cast look-ahead -/

theorem castLook_ids_other (n : Name) (ns : List Name) (t : Tok) (r : List Tok)
    (h1 : t ≠ .sym .DOT) (h2 : t ≠ .sym .RPAREN) :
    castLook (.id n :: (dotToks ns ++ t :: r)) = .ok false := by
  induction ns generalizing n with
  | nil => exact castLook.eq_5 n t r h1 h2
  | cons m ms ih =>
    simp only [dotToks, List.cons_append]
    rw [castLook.eq_2]
    exact ih m

theorem castLook_ids_rparen (n : Name) (ns : List Name) (t : Tok) (r : List Tok) :
    castLook (.id n :: (dotToks ns ++ .sym .RPAREN :: t :: r)) = .ok (operandStart (t :: r)) := by
  induction ns generalizing n with
  | nil => exact castLook.eq_4 n t r
  | cons m ms ih =>
    simp only [dotToks, List.cons_append]
    rw [castLook.eq_2]
    exact ih m

theorem castLook_not_id (toks : List Tok) (h : ∀ n r, toks ≠ .id n :: r) : castLook toks = .ok false := by
  unfold castLook
  split
  · exact absurd rfl (h _ _)
  · exact absurd rfl (h _ _)
  · rfl

/-! ### the operator table -/

theorem opInfo_level_le (s : Sym) (k : OpKind) (l : Nat) (h : opInfo s = some (k, l)) : l ≤ 3 := by
  cases s <;> simp [opInfo] at h <;> omega

theorem opInfo_nary (s : Sym) (op : NOp) (l : Nat) (h : opInfo s = some (.nary op, l)) : s = op.sym ∧ l = op.level := by
  cases s <;> simp [opInfo] at h <;> (obtain ⟨h1, h2⟩ := h; subst h1; subst h2; exact ⟨rfl, rfl⟩)

theorem opInfo_bin (s : Sym) (op : BOp) (l : Nat) (h : opInfo s = some (.bin op, l)) : s = op.sym ∧ l = op.level := by
  cases s <;> simp [opInfo] at h <;> (obtain ⟨h1, h2⟩ := h; subst h1; subst h2; exact ⟨rfl, rfl⟩)

theorem BOp.sym_ne_dot (op : BOp) : op.sym ≠ .DOT := by cases op <;> decide
theorem BOp.sym_ne_lparen (op : BOp) : op.sym ≠ .LPAREN := by cases op <;> decide
theorem BOp.sym_ne_rparen (op : BOp) : op.sym ≠ .RPAREN := by cases op <;> decide
theorem NOp.sym_ne_dot (op : NOp) : op.sym ≠ .DOT := by cases op <;> decide
theorem NOp.sym_ne_lparen (op : NOp) : op.sym ≠ .LPAREN := by cases op <;> decide
theorem NOp.sym_ne_rparen (op : NOp) : op.sym ≠ .RPAREN := by cases op <;> decide
theorem BOp.level_le (op : BOp) : op.level ≤ 1 := by cases op <;> decide
theorem NOp.level_le (op : NOp) : op.level ≤ 3 := by cases op <;> decide

/-! ### what may follow a printed expression -/

/-- `rest` can follow an operand parsed by `_expression(p)`: there is a token, it is not an
    operator that `_expression(p)` would take (level `≥ p`), and it is neither `.` nor `(`
    (which would extend a trailing identifier). -/
def stopsAt (p : Nat) : List Tok → Bool
  | [] => false
  | .sym s :: _ =>
    s != .DOT && s != .LPAREN && (match opInfo s with | some (_, l) => decide (l < p) | none => true)
  | _ :: _ => true

/-- `rest` can follow the unparenthesised print of `e` where the enclosing loop continues:
    there is a token, neither `.` nor `(`; if it is an operator then `e` is not a cast, the
    operator does not bind tighter than the top operator of `e` (it would capture the last
    operand) and is not the n-ary operator of `e` itself (it would be merged). -/
def follows (e : Expr) : List Tok → Bool
  | [] => false
  | .sym s :: _ =>
    s != .DOT && s != .LPAREN &&
      (match opInfo s with
       | some (k, l) => decide (l ≤ e.level) && !e.isCast && (match k with | .nary op => !e.isNary op | .bin _ => true)
       | none => true)
  | _ :: _ => true

theorem stopsAt_ne_nil {p : Nat} {rest : List Tok} (h : stopsAt p rest = true) : rest ≠ [] := by
  cases rest <;> simp_all [stopsAt]

theorem follows_ne_nil {e : Expr} {rest : List Tok} (h : follows e rest = true) : rest ≠ [] := by
  cases rest <;> simp_all [follows]

theorem isNary_level {e : Expr} {op : NOp} (h : e.isNary op = true) : e.level = op.level := by
  cases e <;> simp_all [Expr.isNary, Expr.level]

theorem isCast_level {e : Expr} (h : e.isCast = true) : e.level = 0 := by
  cases e <;> simp_all [Expr.isCast, Expr.level]

theorem follows_of_stopsAt {p : Nat} {e : Expr} {rest : List Tok} (hp : p ≤ e.level) (h : stopsAt p rest = true) :
    follows e rest = true := by
  cases rest with
  | nil => simp [stopsAt] at h
  | cons t r =>
    cases t with
    | sym s =>
      simp only [stopsAt, Bool.and_eq_true] at h
      simp only [follows, Bool.and_eq_true]
      refine ⟨h.1, ?_⟩
      cases hs : opInfo s with
      | none => rfl
      | some kl =>
        obtain ⟨k, l⟩ := kl
        have hl : l < p := by simpa [hs] using h.2
        simp only [Bool.and_eq_true, decide_eq_true_eq, Bool.not_eq_true']
        refine ⟨⟨by omega, ?_⟩, ?_⟩
        · cases hc : e.isCast with
          | false => rfl
          | true => have := isCast_level hc; omega
        · cases k with
          | bin _ => rfl
          | nary op =>
            cases hn : e.isNary op with
            | false => simp [hn]
            | true =>
              have h1 := isNary_level hn
              have h2 := (opInfo_nary s op l hs).2
              omega
    | _ => rfl

theorem stopsAt_dot_false {p : Nat} {t : Tok} {r : List Tok} (h : stopsAt p (t :: r) = true) : t ≠ .sym .DOT := by
  intro ht; subst ht; simp [stopsAt] at h

theorem follows_head {e : Expr} {t : Tok} {r : List Tok} (h : follows e (t :: r) = true) :
    t ≠ .sym .DOT ∧ t ≠ .sym .LPAREN := by
  constructor <;> (intro ht; subst ht; simp [follows] at h)

end Oratio.Riddle
