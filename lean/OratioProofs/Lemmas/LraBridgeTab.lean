/-
Helper lemmas for `Properties/C09Bridge.lean`, part 3: the tableau as a finite map
(`Lra.rowOf` after `tabSet`, `filter`, `tabInsert`), the loops over watch lists
(`unwatchRow`, `watchRow`), and the invariant of the tableau in `rowOf` form.
-/
import OratioModel
import OratioProofs.Lemmas.LraBridgeStep

namespace Oratio
namespace Lra
open Lin

/-! ### the tableau as a finite map -/

def tabFind (m : List (Nat × Lin)) (x : Nat) : Option Lin := (m.find? (fun r => r.1 == x)).map (·.2)

theorem rowOf_eq (t : Lra) (x : Nat) : t.rowOf x = tabFind t.tableau x := rfl

@[simp] theorem tabFind_nil (x : Nat) : tabFind [] x = none := rfl

theorem tabFind_cons (e : Nat × Lin) (m : List (Nat × Lin)) (x : Nat) :
    tabFind (e :: m) x = if e.1 = x then some e.2 else tabFind m x := by
  unfold tabFind
  by_cases h : e.1 = x
  · rw [List.find?_cons_of_pos (by simpa using h), if_pos h]; rfl
  · rw [List.find?_cons_of_neg (by simpa using h), if_neg h]

theorem tabFind_some_mem {m : List (Nat × Lin)} {r : Nat} {l : Lin} (h : tabFind m r = some l) :
    (r, l) ∈ m := by
  induction m with
  | nil => cases h
  | cons e m ih =>
    rw [tabFind_cons] at h
    by_cases he : e.1 = r
    · rw [if_pos he] at h
      cases h
      subst he
      exact List.mem_cons_self
    · rw [if_neg he] at h
      exact List.mem_cons_of_mem _ (ih h)

theorem tabFind_none_iff {m : List (Nat × Lin)} {r : Nat} : tabFind m r = none ↔ ∀ e ∈ m, e.1 ≠ r := by
  induction m with
  | nil => simp
  | cons e m ih =>
    rw [tabFind_cons]
    by_cases he : e.1 = r
    · simp [he]
    · simp [he, ih]

theorem tabFind_of_mem {m : List (Nat × Lin)} {r : Nat} {l : Lin} (hs : (m.map Prod.fst).Pairwise (· < ·))
    (h : (r, l) ∈ m) : tabFind m r = some l := by
  induction m with
  | nil => cases h
  | cons e m ih =>
    rw [List.map_cons, List.pairwise_cons] at hs
    rw [tabFind_cons]
    rcases List.mem_cons.1 h with h | h
    · rw [← h]; simp
    · have : e.1 < r := hs.1 r (List.mem_map.2 ⟨(r, l), h, rfl⟩)
      rw [if_neg (by omega)]
      exact ih hs.2 h

theorem tabFind_mapset (m : List (Nat × Lin)) (x : Nat) (l : Lin) (r : Nat) :
    tabFind (m.map (fun e => if e.1 == x then (x, l) else e)) r =
      if r = x then (tabFind m x).map (fun _ => l) else tabFind m r := by
  induction m with
  | nil => simp
  | cons e m ih =>
    rw [List.map_cons, tabFind_cons, ih, tabFind_cons, tabFind_cons]
    by_cases he : e.1 = x
    · by_cases hr : r = x
      · simp [he, hr]
      · have : ¬ x = r := fun h => hr h.symm
        simp [he, hr, this]
    · by_cases hr : r = x
      · subst hr
        simp [he]
      · simp [he, hr]

theorem keys_mapset (m : List (Nat × Lin)) (x : Nat) (l : Lin) :
    (m.map (fun e => if e.1 == x then (x, l) else e)).map Prod.fst = m.map Prod.fst := by
  induction m with
  | nil => rfl
  | cons e m ih =>
    rw [List.map_cons, List.map_cons, List.map_cons, ih]
    by_cases he : e.1 = x
    · simp [he]
    · simp [he]

theorem tabFind_filter (m : List (Nat × Lin)) (xi r : Nat) :
    tabFind (m.filter (fun e => e.1 != xi)) r = if r = xi then none else tabFind m r := by
  induction m with
  | nil => simp
  | cons e m ih =>
    by_cases he : e.1 = xi
    · rw [List.filter_cons_of_neg (by simp [he]), ih, tabFind_cons]
      by_cases hr : r = xi
      · simp [hr]
      · have : ¬ e.1 = r := fun h => hr (h ▸ he)
        simp [hr, this]
    · rw [List.filter_cons_of_pos (by simpa using he), tabFind_cons, tabFind_cons, ih]
      by_cases hr : r = xi
      · subst hr
        simp [he]
      · simp [hr]

theorem keys_filter_sorted {m : List (Nat × Lin)} (xi : Nat) (hs : (m.map Prod.fst).Pairwise (· < ·)) :
    ((m.filter (fun e => e.1 != xi)).map Prod.fst).Pairwise (· < ·) :=
  List.Pairwise.sublist (List.Sublist.map _ List.filter_sublist) hs

theorem mem_tabInsert_iff {m : List (Nat × Lin)} {x : Nat} {l : Lin} {e : Nat × Lin}
    (h : e ∈ tabInsert m x l) : e ∈ m ∨ e = (x, l) := by
  induction m with
  | nil => simpa [tabInsert] using h
  | cons a rest ih =>
    unfold tabInsert at h
    split at h
    · rcases List.mem_cons.1 h with h | h
      · exact Or.inr h
      · exact Or.inl h
    · split at h
      · exact Or.inl h
      · rcases List.mem_cons.1 h with h | h
        · exact Or.inl (h ▸ List.mem_cons_self)
        · rcases ih h with h | h
          · exact Or.inl (List.mem_cons_of_mem _ h)
          · exact Or.inr h

theorem keys_tabInsert_sorted {m : List (Nat × Lin)} (x : Nat) (l : Lin)
    (hs : (m.map Prod.fst).Pairwise (· < ·)) : ((tabInsert m x l).map Prod.fst).Pairwise (· < ·) := by
  induction m with
  | nil => simp [tabInsert]
  | cons a rest ih =>
    rw [List.map_cons, List.pairwise_cons] at hs
    unfold tabInsert
    by_cases h1 : x < a.1
    · rw [if_pos h1, List.map_cons, List.pairwise_cons]
      refine ⟨?_, by rw [List.map_cons, List.pairwise_cons]; exact hs⟩
      intro y hy
      rw [List.map_cons] at hy
      rcases List.mem_cons.1 hy with rfl | hy
      · exact h1
      · exact Nat.lt_trans h1 (hs.1 y hy)
    · rw [if_neg h1]
      by_cases h2 : x = a.1
      · rw [if_pos (by simpa using h2), List.map_cons, List.pairwise_cons]
        exact hs
      · rw [if_neg (by simpa using h2), List.map_cons, List.pairwise_cons]
        refine ⟨?_, ih hs.2⟩
        intro y hy
        obtain ⟨e, he, rfl⟩ := List.mem_map.1 hy
        rcases mem_tabInsert_iff he with he | rfl
        · exact hs.1 _ (List.mem_map.2 ⟨e, he, rfl⟩)
        · show a.1 < x
          omega

theorem tabFind_tabInsert {m : List (Nat × Lin)} {x : Nat} (l : Lin) (r : Nat) (h : tabFind m x = none) :
    tabFind (tabInsert m x l) r = if r = x then some l else tabFind m r := by
  induction m with
  | nil =>
    show tabFind [(x, l)] r = _
    rw [tabFind_cons]
    by_cases hr : r = x
    · simp [hr]
    · have : ¬ x = r := fun h => hr h.symm
      simp [hr, this]
  | cons a rest ih =>
    rw [tabFind_cons] at h
    by_cases ha : a.1 = x
    · rw [if_pos ha] at h; cases h
    rw [if_neg ha] at h
    unfold tabInsert
    by_cases h1 : x < a.1
    · rw [if_pos h1, tabFind_cons]
      by_cases hr : r = x
      · simp [hr]
      · have : ¬ x = r := fun h => hr h.symm
        simp [hr, this]
    · rw [if_neg h1, if_neg (by simpa using fun e : x = a.1 => ha e.symm), tabFind_cons, tabFind_cons, ih h]
      by_cases har : a.1 = r
      · have : ¬ r = x := fun e => ha (har.trans e)
        simp [har, this]
      · simp [har]

/-! ### the loops over watch lists -/

theorem unwatch_fold_spec (xi : Nat) : ∀ (es : List (Nat × R)) (t : Lra),
    (∀ e ∈ es, e.1 < t.tWatches.length) → (∀ w ∈ t.tWatches, w.Pairwise (· < ·)) →
    ∃ tw, es.foldl (fun t e => unwatchRow t e.1 xi) t = { t with tWatches := tw } ∧
      tw.length = t.tWatches.length ∧ (∀ w ∈ tw, w.Pairwise (· < ·)) ∧
      ∀ v r, r ∈ tw.getD v [] ↔ r ∈ t.tWatches.getD v [] ∧ ¬ (r = xi ∧ ∃ e ∈ es, e.1 = v) := by
  intro es
  induction es with
  | nil =>
    intro t _ hs
    exact ⟨t.tWatches, rfl, rfl, hs, by simp⟩
  | cons e es ih =>
    intro t hb hs
    have hb1 : e.1 < t.tWatches.length := hb e List.mem_cons_self
    have hlen : (unwatchRow t e.1 xi).tWatches.length = t.tWatches.length := by simp [unwatchRow]
    obtain ⟨tw, h1, h2, h3, h4⟩ := ih (unwatchRow t e.1 xi)
      (fun e' he' => by rw [hlen]; exact hb e' (List.mem_cons_of_mem _ he'))
      (forall_mem_set hs (sorted_setErase (getD_sorted hs _)))
    refine ⟨tw, by rw [List.foldl_cons, h1]; rfl, h2.trans hlen, h3, ?_⟩
    intro v r
    rw [h4]
    show r ∈ (t.tWatches.set e.1 (setErase xi (t.tWatches.getD e.1 []))).getD v [] ∧ _ ↔ _
    rw [getD_set]
    by_cases hv : e.1 = v
    · subst hv
      rw [if_pos ⟨rfl, hb1⟩, mem_setErase]
      simp only [List.mem_cons, exists_eq_or_imp, true_or, and_true]
      tauto
    · rw [if_neg (fun h => hv h.1)]
      simp only [List.mem_cons, exists_eq_or_imp, hv, false_or]

theorem watch_fold_spec (x : Nat) : ∀ (es : List (Nat × R)) (t : Lra),
    (∀ e ∈ es, e.1 < t.tWatches.length) → (∀ w ∈ t.tWatches, w.Pairwise (· < ·)) →
    ∃ tw, es.foldl (fun t e => watchRow t e.1 x) t = { t with tWatches := tw } ∧
      tw.length = t.tWatches.length ∧ (∀ w ∈ tw, w.Pairwise (· < ·)) ∧
      ∀ v r, r ∈ tw.getD v [] ↔ r ∈ t.tWatches.getD v [] ∨ (r = x ∧ ∃ e ∈ es, e.1 = v) := by
  intro es
  induction es with
  | nil =>
    intro t _ hs
    exact ⟨t.tWatches, rfl, rfl, hs, by simp⟩
  | cons e es ih =>
    intro t hb hs
    have hb1 : e.1 < t.tWatches.length := hb e List.mem_cons_self
    have hlen : (watchRow t e.1 x).tWatches.length = t.tWatches.length := by simp [watchRow]
    obtain ⟨tw, h1, h2, h3, h4⟩ := ih (watchRow t e.1 x)
      (fun e' he' => by rw [hlen]; exact hb e' (List.mem_cons_of_mem _ he'))
      (forall_mem_set hs (sorted_setInsert (getD_sorted hs _)))
    refine ⟨tw, by rw [List.foldl_cons, h1]; rfl, h2.trans hlen, h3, ?_⟩
    intro v r
    rw [h4]
    show r ∈ (t.tWatches.set e.1 (setInsert x (t.tWatches.getD e.1 []))).getD v [] ∨ _ ↔ _
    rw [getD_set]
    by_cases hv : e.1 = v
    · subst hv
      rw [if_pos ⟨rfl, hb1⟩, mem_setInsert]
      simp only [List.mem_cons, exists_eq_or_imp, true_or, and_true]
      tauto
    · rw [if_neg (fun h => hv h.1)]
      simp only [List.mem_cons, exists_eq_or_imp, hv, false_or]

/-! ### the invariant in `rowOf` form -/

/-- everything but the correspondence between rows and watch lists -/
structure Core (t : Lra) : Prop where
  keys : (t.tableau.map Prod.fst).Pairwise (· < ·)
  rows : ∀ r l, t.rowOf r = some l → l.WF
  bound : ∀ r l, t.rowOf r = some l →
    r < t.tWatches.length ∧ ∀ v, (Lin.find l.vars v).isSome = true → v < t.tWatches.length
  nonbasic : ∀ r l v, t.rowOf r = some l → (Lin.find l.vars v).isSome = true → t.rowOf v = none
  wsorted : ∀ w ∈ t.tWatches, w.Pairwise (· < ·)

/-- the rows watching `v` are exactly the rows in which `v` has an entry -/
def WatchAt (t : Lra) (v : Nat) : Prop :=
  ∀ r, r ∈ t.tWatches.getD v [] ↔ ∃ l, t.rowOf r = some l ∧ (Lin.find l.vars v).isSome = true

structure Inv (t : Lra) : Prop extends Core t where
  watch : ∀ v, WatchAt t v

/-- the invariant inside `pivot`, while the rows watching `xj` are being rewritten -/
structure PInv (xj : Nat) (t : Lra) : Prop extends Core t where
  watch : ∀ v, v ≠ xj → WatchAt t v
  empty : t.tWatches.getD xj [] = []

/-- the expression substituted for `xj` -/
structure ExOk (xj : Nat) (ex : Lin) (t : Lra) : Prop where
  wf : ex.WF
  vars : ∀ v, (Lin.find ex.vars v).isSome = true → v < t.tWatches.length ∧ t.rowOf v = none
  noxj : Lin.find ex.vars xj = none

/-- the rows hold, in `rowOf` form -/
def HoldsR (t : Lra) (σ : Nat → Rat) : Prop := ∀ r l, t.rowOf r = some l → σ r = Lin.evalS l σ

theorem holdsR_iff {t : Lra} (hk : (t.tableau.map Prod.fst).Pairwise (· < ·)) (σ : Nat → Rat) :
    (∀ e ∈ t.tableau, σ e.1 = Lin.evalS e.2 σ) ↔ HoldsR t σ := by
  constructor
  · intro h r l hr
    exact h (r, l) (tabFind_some_mem hr)
  · intro h e he
    exact h e.1 e.2 (tabFind_of_mem hk he)

end Lra
end Oratio
