/-
C07N: `Sat.analyze_spec` (C07) for the two-parameter form `Sat.Ent orig K` of the semantic
invariant.  The proofs are those of Lemmas/SatCoreAnalyzeB.lean / SatCoreAnalyze.lean verbatim
(they only use the fields `clauses` and `trail`, which do not mention `K`); the originals are
stated for `K = orig`.
-/
import OratioModel
import OratioProofs.Lemmas.SatCoreAnalyze

namespace Oratio
namespace Sat

theorem ent_lvl0K {orig K : Cnf} {s : Sat} (he : s.Ent orig K) {l : Lit} (hl : l ∈ s.trail)
    (h0 : s.lvl l = 0) : Ents orig [l] := by
  have := he.trail l hl
  simpa [h0, decsUpTo, units] using this


theorem traceReason_JK {orig K : Cnf} {s : Sat} (hw : s.WfA) (he : s.Ent orig K) (t : Sat) (k : Nat)
    (htd : t.decisionLevel = s.decisionLevel) (qs : List Lit) (a : AnState)
    (hq : ∀ q ∈ qs, q ∈ s.trail.drop k ∧ t.level.getD q.var 0 = s.lvl q)
    (hJ : J orig s a k (qs.map Lit.neg)) : J orig s (traceReason t a qs) k [] := by
  induction qs generalizing a with
  | nil => simpa [traceReason] using hJ
  | cons q qs ih =>
    have hqT : q ∈ s.trail.drop k := (hq q (by simp)).1
    have hqT' : q ∈ s.trail := List.mem_of_mem_drop hqT
    have hql := (hq q (by simp)).2
    have hq' : ∀ q ∈ qs, q ∈ s.trail.drop k ∧ t.level.getD q.var 0 = s.lvl q :=
      fun x hx => hq x (by simp [hx])
    have hent := hJ.ent
    rw [List.map_cons] at hent
    rw [traceReason]
    split
    · -- already seen
      rename_i hseen
      have hseen' : q.var ∈ a.seen := by simpa using hseen
      apply ih a hq'
      refine { hJ with ent := ?_ }
      refine hent.weaken3 ?_ (fun _ h => h) (fun _ h => h)
      rcases hJ.acc q hqT hseen' with h0 | hL | hl
      · exact .inr (.inr (by simpa using ent_lvl0K he hqT' h0))
      · exact .inr (.inl (List.mem_map_of_mem (mem_cur.2 ⟨hqT, hseen', hL⟩)))
      · exact .inl hl
    · rename_i hseen
      have hseen' : q.var ∉ a.seen := by simpa using hseen
      simp only [hql, htd]
      have hacc : ∀ learnt' : List Lit, (∀ x ∈ a.learnt, x ∈ learnt') →
          (s.lvl q = 0 ∨ s.lvl q = s.decisionLevel ∨ q.neg ∈ learnt') →
          ∀ q' ∈ s.trail.drop k, q'.var ∈ q.var :: a.seen →
            s.lvl q' = 0 ∨ s.lvl q' = s.decisionLevel ∨ q'.neg ∈ learnt' := by
        intro learnt' hsub hqc q' hq'T hq's
        rcases List.mem_cons.1 hq's with hv | hv
        · have := an_var_inj_of_mem hw (List.mem_of_mem_drop hq'T) hqT' hv
          subst this; exact hqc
        · rcases hJ.acc q' hq'T hv with h | h | h
          · exact .inl h
          · exact .inr (.inl h)
          · exact .inr (.inr (hsub _ h))
      have hle := an_lvl_le_dl hw hqT'
      split
      · -- current level
        rename_i hL
        apply ih _ hq'
        refine { ent := ?_, cnt := ?_, lrn := ?_, bt0 := hJ.bt0, btx := hJ.btx, nd := hJ.nd,
                 btL := hJ.btL, acc := hacc _ (fun _ h => h) (.inr (.inl hL)) }
        · refine hent.weaken3 (.inr (.inl ?_)) (fun _ h => h) ?_
          · exact List.mem_map_of_mem (mem_cur.2 ⟨hqT, by simp, hL⟩)
          · intro x hx
            obtain ⟨y, hy, rfl⟩ := List.mem_map.1 hx
            have := mem_cur.1 hy
            exact List.mem_map_of_mem (mem_cur.2 ⟨this.1, by simp [this.2.1], this.2.2⟩)
        · show a.counter + 1 = _
          rw [cur_cons_len hw hqT hseen' hL, hJ.cnt]; omega
        · intro x hx
          have := hJ.lrn x hx
          exact ⟨this.1, this.2.1, this.2.2.1, this.2.2.2.1, by simp [this.2.2.2.2]⟩
      · rename_i hL
        split
        · -- intermediate level
          rename_i h0
          apply ih _ hq'
          refine { ent := ?_, cnt := ?_, lrn := ?_, bt0 := ?_, btx := ?_, nd := ?_,
                   btL := ?_, acc := hacc _ (fun x h => by simp [h]) (.inr (.inr (by simp))) }
          · refine hent.weaken3 (.inl (by simp)) (fun x h => by simp [h]) ?_
            intro x hx
            show x ∈ List.map Lit.neg (cur s (q.var :: a.seen) k)
            rw [cur_cons_of_ne hL]; exact hx
          · show a.counter = ((cur s (q.var :: a.seen) k).length : Int)
            rw [cur_cons_of_ne hL]; exact hJ.cnt
          · intro x hx
            show _ ∧ _ ∧ _ ∧ s.lvl x ≤ max a.bt (s.lvl q) ∧ x.var ∈ q.var :: a.seen
            rcases List.mem_append.1 hx with hx | hx
            · have := hJ.lrn x hx
              exact ⟨this.1, this.2.1, this.2.2.1, by omega, by simp [this.2.2.2.2]⟩
            · simp only [List.mem_singleton] at hx
              subst hx
              simp only [Lit.an_neg_neg, an_lvl_neg, Lit.an_neg_var]
              exact ⟨hqT', h0, by omega, by omega, by simp⟩
          · intro h; simp at h
          · intro _
            show ∃ x ∈ a.learnt ++ [q.neg], s.lvl x = max a.bt (s.lvl q)
            by_cases hb : s.lvl q ≤ a.bt
            · have hne : a.learnt ≠ [] := fun h => by have := hJ.bt0 h; omega
              obtain ⟨x, hx, hxe⟩ := hJ.btx hne
              exact ⟨x, by simp [hx], by omega⟩
            · exact ⟨q.neg, by simp, by simp; omega⟩
          · show ((a.learnt ++ [q.neg]).map Lit.var).Nodup
            rw [List.map_append, List.nodup_append]
            refine ⟨hJ.nd, by simp, ?_⟩
            intro v hv w hw' hvw
            obtain ⟨x, hx, rfl⟩ := List.mem_map.1 hv
            simp at hw'
            subst hw'
            exact hseen' (hvw ▸ (hJ.lrn x hx).2.2.2.2)
          · show max a.bt (s.lvl q) < s.decisionLevel
            have := hJ.btL; omega
        · -- level 0
          rename_i h0
          have h0' : s.lvl q = 0 := by omega
          apply ih _ hq'
          refine { ent := ?_, cnt := ?_, lrn := ?_, bt0 := hJ.bt0, btx := hJ.btx, nd := hJ.nd,
                   btL := hJ.btL, acc := hacc _ (fun _ h => h) (.inl h0') }
          · refine hent.weaken3 (.inr (.inr (by simpa using ent_lvl0K he hqT' h0'))) (fun x h => h) ?_
            intro x hx
            show x ∈ List.map Lit.neg (cur s (q.var :: a.seen) k)
            rw [cur_cons_of_ne hL]; exact hx
          · show a.counter = ((cur s (q.var :: a.seen) k).length : Int)
            rw [cur_cons_of_ne hL]; exact hJ.cnt
          · intro x hx
            have := hJ.lrn x hx
            exact ⟨this.1, this.2.1, this.2.2.1, this.2.2.2.1, by simp [this.2.2.2.2]⟩

end Sat

theorem Sat.analyzeLoop_specK {orig K : Cnf} {s : Sat} (hw : s.Wf) (he : s.Ent orig K)
    (hL : 0 < s.decisionLevel) (n : Nat) (a : AnState) (k : Nat) (pReason : List Lit)
    (hJ : J orig s a k (pReason.map Lit.neg))
    (hq : ∀ q ∈ pReason, q ∈ s.trail.drop k)
    (hc : ∃ c ∈ s.trail.drop k, s.lvl c = s.decisionLevel ∧ (c.var ∈ a.seen ∨ c ∈ pReason))
    (p : Lit) (a' : AnState) (s' : Sat)
    (h : analyzeLoop (s.popN k) a pReason n = some (p, a', s')) :
    ∃ k', p ∈ s.trail ∧ s.lvl p = s.decisionLevel ∧ Ents orig (p.neg :: a'.learnt) ∧
      (∀ x ∈ a'.learnt, x.neg ∈ s.trail ∧ 0 < s.lvl x ∧ s.lvl x ≤ a'.bt) ∧
      a'.bt < s.decisionLevel ∧ (a'.learnt = [] → a'.bt = 0) ∧
      (a'.learnt ≠ [] → ∃ x ∈ a'.learnt, s.lvl x = a'.bt) ∧
      ((p.neg :: a'.learnt).map Lit.var).Nodup ∧
      s' = s.popN k' ∧ (∀ lim ∈ s.trailLim.head?, lim + k' ≤ s.trail.length) := by
  induction n generalizing a k pReason with
  | zero => simp [analyzeLoop] at h
  | succ n ih =>
    rw [analyzeLoop] at h
    simp only [] at h
    have hJ1 : J orig s (traceReason (s.popN k) a pReason) k [] :=
      traceReason_JK hw.a he (s.popN k) k (an_popN_decisionLevel k s) pReason a
        (fun q hqm => ⟨hq q hqm, an_popN_level_of_mem hw.a k (hq q hqm) rfl⟩) hJ
    have hc1 : ∃ c ∈ s.trail.drop k, s.lvl c = s.decisionLevel ∧
        c.var ∈ (traceReason (s.popN k) a pReason).seen := by
      obtain ⟨c, hcT, hcl, hcs⟩ := hc
      refine ⟨c, hcT, hcl, traceReason_seen _ _ _ _ ?_⟩
      rcases hcs with h1 | h1
      · exact .inl h1
      · exact .inr ⟨c, h1, rfl⟩
    generalize traceReason (s.popN k) a pReason = a1 at h hJ1 hc1
    split at h
    · cases h
    · rename_i p1 pr' t' hns
      obtain ⟨pre, k', hdrop, hk', rfl, hpre, hpseen, hpr⟩ := nextSeen_spec hw.a _ _ _ _ _ _ _ hns
      have hsuf : (p1 :: s.trail.drop k') <:+ s.trail :=
        (List.suffix_append pre _).trans (hdrop ▸ List.drop_suffix k s.trail)
      have hp1T : p1 ∈ s.trail.drop k := by rw [hdrop]; simp
      have hp1T' : p1 ∈ s.trail := List.mem_of_mem_drop hp1T
      have hsub : ∀ x ∈ s.trail.drop k', x ∈ s.trail.drop k := by
        intro x hx; rw [hdrop]; simp [hx]
      have hp1L : s.lvl p1 = s.decisionLevel := by
        obtain ⟨c, hcT, hcl, hcs⟩ := hc1
        rw [hdrop] at hcT
        rcases List.mem_append.1 hcT with h1 | h1
        · exact absurd hcs (hpre c h1)
        · rcases List.mem_cons.1 h1 with rfl | h1
          · exact hcl
          · have := an_lvl_mono hw.a hsuf h1
            have := an_lvl_le_dl hw.a hp1T'
            omega
      have hcur : cur s a1.seen k = p1 :: cur s a1.seen k' := by
        unfold cur
        rw [hdrop, List.filter_append, List.filter_eq_nil_iff.2, List.nil_append,
          List.filter_cons_of_pos]
        · simp [hpseen, hp1L]
        · intro x hx; simp [hpre x hx]
      have hlen : a1.counter - 1 = ((cur s a1.seen k').length : Int) := by
        have := hJ1.cnt; rw [hcur] at this; simp at this; omega
      have hent1 := hJ1.ent
      rw [hcur] at hent1
      split at h
      · -- another round
        rename_i hpos
        have hpos' : a1.counter - 1 > 0 := hpos
        have hne : cur s a1.seen k' ≠ [] := by
          intro h0; rw [h0] at hlen; simp at hlen; omega
        obtain ⟨c, hcm⟩ := List.exists_mem_of_ne_nil _ hne
        have hcm' := mem_cur.1 hcm
        cases hr : s.reason.getD p1.var none with
        | none =>
          rcases hw.a.reasonNone p1 _ hsuf hr with h0 | h0
          · omega
          · have := h0 c hcm'.1; omega
        | some id =>
          obtain ⟨rest, hmem, hrest⟩ := hw.r p1 _ hsuf id hr
          have hpr' : pr' = rest.map Lit.neg := by
            rw [hpr id hr, an_clauseOf_of_mem hw.c hmem]; simp [reasonLits]
          subst hpr'
          refine ih _ k' _ ?_ ?_ ?_ h
          · refine { ent := ?_, cnt := hlen, lrn := hJ1.lrn, bt0 := hJ1.bt0, btx := hJ1.btx,
                     nd := hJ1.nd, btL := hJ1.btL, acc := fun q hq => hJ1.acc q (hsub q hq) }
            rw [Lit.an_map_neg_neg]
            refine Ents.an_resolve p1 hent1 (he.clauses _ hmem) ?_ ?_
            · intro x hx
              simp only [List.mem_append, List.map_cons, List.mem_cons, List.append_nil] at hx ⊢
              rcases hx with hx | rfl | hx
              · exact .inr (.inl (.inl hx))
              · exact .inl rfl
              · exact .inr (.inl (.inr hx))
            · intro x hx
              simp only [List.mem_append, List.mem_cons] at hx ⊢
              rcases hx with rfl | hx
              · exact .inl rfl
              · exact .inr (.inr hx)
          · intro q hq
            obtain ⟨r, hr, rfl⟩ := List.mem_map.1 hq
            exact hrest r hr
          · exact ⟨c, hcm'.1, hcm'.2.2, .inl hcm'.2.1⟩
      · -- done
        rename_i hpos
        have hpos' : ¬ a1.counter - 1 > 0 := hpos
        have hnil : cur s a1.seen k' = [] := by
          apply List.eq_nil_of_length_eq_zero; omega
        simp only [Option.some.injEq, Prod.mk.injEq] at h
        obtain ⟨rfl, rfl, rfl⟩ := h
        rw [hnil] at hent1
        refine ⟨k', hp1T', hp1L, ?_, ?_, hJ1.btL, hJ1.bt0, hJ1.btx, ?_, rfl, ?_⟩
        · apply hent1.an_weaken
          intro x hx
          simp only [List.mem_append, List.map_cons, List.map_nil, List.mem_cons, List.not_mem_nil,
            or_false] at hx
          rcases hx with hx | hx
          · exact .inl (by simp [hx])
          · exact .inl (by simp [hx])
        · intro x hx
          have := hJ1.lrn x hx
          exact ⟨this.1, this.2.1, this.2.2.2.1⟩
        · rw [List.map_cons, List.nodup_cons]
          refine ⟨?_, hJ1.nd⟩
          intro hm
          obtain ⟨x, hx, hxv⟩ := List.mem_map.1 hm
          have := (hJ1.lrn x hx).2.2.1
          have h2 : s.lvl x = s.lvl p1 := an_lvl_congr s hxv
          omega
        · intro lim hlim
          cases hl : s.trailLim with
          | nil => rw [hl] at hlim; simp at hlim
          | cons l0 lims =>
            rw [hl] at hlim
            simp at hlim
            subst hlim
            have h1 := (an_lvl_eq_dl_iff hw.a hsuf hl).1 hp1L
            have h2 := congrArg List.length hdrop
            simp at h1 h2
            omega

/-- `analyze` on a conflicting clause above root level: the learnt clause `¬p :: learnt` is entailed,
    `p` is a current-level trail literal (the first UIP), the other literals are false at levels
    `1 … bt < decisionLevel`, `bt` is the largest of these levels, all variables are distinct, and the
    returned state is the input state with `k` current-level literals popped. -/
theorem Sat.analyze_specK (orig K : Cnf) (s : Sat) (hw : s.Wf) (he : s.Ent orig K)
    (hL : 0 < s.decisionLevel) (cnfl : Clause) (hcE : Ents orig cnfl)
    (hcF : ∀ l ∈ cnfl, l.neg ∈ s.trail) (hcL : ∃ l ∈ cnfl, s.lvl l = s.decisionLevel)
    (lits : List Lit) (bt : Nat) (s' : Sat) (h : s.analyze cnfl = some (lits, bt, s')) :
    ∃ p learnt k, lits = p.neg :: learnt ∧ p ∈ s.trail ∧ s.lvl p = s.decisionLevel ∧
      Ents orig lits ∧
      (∀ x ∈ learnt, x.neg ∈ s.trail ∧ 0 < s.lvl x ∧ s.lvl x ≤ bt) ∧
      bt < s.decisionLevel ∧ (learnt = [] → bt = 0) ∧ (learnt ≠ [] → ∃ x ∈ learnt, s.lvl x = bt) ∧
      (lits.map Lit.var).Nodup ∧
      s' = s.popN k ∧ (∀ lim ∈ s.trailLim.head?, lim + k ≤ s.trail.length) := by
  unfold Sat.analyze at h
  split at h
  · cases h
  · rename_i p a t hloop
    simp only [Option.some.injEq, Prod.mk.injEq] at h
    obtain ⟨rfl, rfl, rfl⟩ := h
    have hcur0 : Sat.cur s [] 0 = [] := by
      unfold Sat.cur
      rw [List.filter_eq_nil_iff]
      intro x _; simp
    have hrl : Sat.reasonLits cnfl true = cnfl.map Lit.neg := by simp [Sat.reasonLits]
    rw [hrl] at hloop
    have hJ0 : Sat.J orig s ⟨[], 0, [], 0⟩ 0 ((cnfl.map Lit.neg).map Lit.neg) := by
      refine { ent := ?_, cnt := ?_, lrn := ?_, bt0 := fun _ => rfl, btx := fun h => absurd rfl h,
               nd := by simp, btL := hL, acc := ?_ }
      · show Ents orig ([] ++ (Sat.cur s [] 0).map Lit.neg ++ (cnfl.map Lit.neg).map Lit.neg)
        rw [hcur0, Lit.an_map_neg_neg]; simpa using hcE
      · show (0 : Int) = ((Sat.cur s [] 0).length : Int)
        rw [hcur0]; rfl
      · intro x hx; cases hx
      · intro q _ hq; cases hq
    have hq0 : ∀ q ∈ cnfl.map Lit.neg, q ∈ s.trail.drop 0 := by
      intro q hq
      obtain ⟨l, hl, rfl⟩ := List.mem_map.1 hq
      simpa using hcF l hl
    have hc0 : ∃ c ∈ s.trail.drop 0, s.lvl c = s.decisionLevel ∧
        (c.var ∈ ([] : List Nat) ∨ c ∈ cnfl.map Lit.neg) := by
      obtain ⟨l, hl, hll⟩ := hcL
      exact ⟨l.neg, by simpa using hcF l hl, by simpa using hll, .inr (List.mem_map_of_mem hl)⟩
    obtain ⟨k, h1, h2, h3, h4, h5, h6, h7, h8, h9, h10⟩ :=
      Sat.analyzeLoop_specK hw he hL _ _ 0 _ hJ0 hq0 hc0 p a t hloop
    exact ⟨p, a.learnt, k, rfl, h1, h2, h3, h4, h5, h6, h7, h8, h9, h10⟩

end Oratio
