/-
Lemmas for property C13, part 5: `amoCore` (pairwise and product encodings, any length):
invariant, forcing, conservativity, completeness, fuel.
-/
import OratioProofs.Lemmas.EncCard

namespace Oratio
namespace EncL
open Enc

/-! ## unfolding `amoCore` -/

def addVars (s : Enc) (n : Nat) : Enc := { s with vals := s.vals ++ List.replicate n none }

theorem addVars_nvars (s : Enc) (n : Nat) : (addVars s n).nvars = s.nvars + n := nvars_addVars s n
theorem addVars_inv {s : Enc} (h : Inv s) (n : Nat) : Inv (addVars s n) := inv_addVars h n
theorem addVars_sat (α : Asg) (s : Enc) (n : Nat) : Sat α (addVars s n) ↔ Sat α s := sat_addVars α s n

/-- the body of the product encoding -/
def prodStep (fuel : Nat) (s : Enc) (ls : List Lit) : Lit × Enc :=
  let ps := ceilSqrt ls.length
  let qs := ceilDiv ls.length ps
  let sB := addVars (addVars s ps) qs
  let u := uLits s.nvars ps
  let w := uLits (addVars s ps).nvars qs
  let r3 := amoCore fuel sB u
  let r4 := amoCore fuel r3.2 w
  let r5 := r4.2.newConj [r3.1, r4.1]
  guardDef r5.2 (.amo ls) r5.1 (prodClauses ls ps qs u w r5.1)

def pairCls (ls : List Lit) : Lit → List (List Lit) :=
  fun ctr => (pairs ls).map (fun p => [p.1.neg, p.2.neg, ctr.neg])

theorem amoCore_small (fuel : Nat) (s : Enc) (ls : List Lit) (h : ls.length ≤ 1) :
    amoCore fuel s ls = (Lit.trueLit, s) := by
  unfold amoCore; simp [h]

theorem amoCore_hit (fuel : Nat) (s : Enc) (ls : List Lit) (h1 : ¬ ls.length ≤ 1) {l : Lit}
    (h2 : s.lookup (.amo ls) = some l) : amoCore fuel s ls = (l, s) := by
  unfold amoCore; simp [h1, h2]

theorem amoCore_pair (fuel : Nat) (s : Enc) (ls : List Lit) (h1 : ¬ ls.length ≤ 1)
    (h2 : s.lookup (.amo ls) = none) (h4 : ls.length < 4) :
    amoCore fuel s ls = freshDef s (.amo ls) (pairCls ls) := by
  unfold amoCore; simp only [h1, h2, h4, if_true, if_false]; rfl

theorem amoCore_zero (s : Enc) (ls : List Lit) (h1 : ¬ ls.length ≤ 1)
    (h2 : s.lookup (.amo ls) = none) (h4 : ¬ ls.length < 4) :
    amoCore 0 s ls = (Lit.falseLit, s) := by
  unfold amoCore; simp only [h1, h2, h4, if_false]

theorem amoCore_succ (fuel : Nat) (s : Enc) (ls : List Lit) (h1 : ¬ ls.length ≤ 1)
    (h2 : s.lookup (.amo ls) = none) (h4 : ¬ ls.length < 4) :
    amoCore (fuel + 1) s ls = prodStep fuel s ls := by
  rw [amoCore]; simp only [h1, h2, h4, if_false, newVars_eq]; rfl

/-! ## the specification carried through the recursion -/

/-- what `amoCore fuel s ls` guarantees -/
def AmoGood (fuel : Nat) (s : Enc) (ls : List Lit) (r : Lit × Enc) : Prop :=
  Inv r.2 ∧ r.1.var < r.2.nvars ∧
  (∀ α, Sat α r.2 → α.lit r.1 = true → AtMostOne α ls) ∧
  Extends s r.2 ∧ Refines s r.2 ∧
  (∀ e ∈ r.2.exprs, e ∈ s.exprs ∨ (∀ X, e.1 = .amo X → X = ls ∨ ∃ l ∈ X, s.nvars ≤ l.var)) ∧
  (ls.Nodup → ls.length ≤ fuel → (ls.length ≤ 1 ∨ s.lookup (.amo ls) = none) →
    ∀ α, Sat α s → AtMostOne α ls →
      ∃ α', Sat α' r.2 ∧ (∀ v, v < s.nvars → α' v = α v) ∧ α'.lit r.1 = true)

theorem amoGood_same {fuel : Nat} {s : Enc} {ls : List Lit} {l : Lit} (h : Inv s) (hl : l.var < s.nvars)
    (hf : ∀ α, Sat α s → α.lit l = true → AtMostOne α ls)
    (hc : ls.length ≤ 1 ∨ s.lookup (.amo ls) = none → ∀ α, Sat α s → AtMostOne α ls → α.lit l = true) :
    AmoGood fuel s ls (l, s) :=
  ⟨h, hl, hf, Extends.refl s, Refines.refl s, fun _ he => Or.inl he,
    fun _ _ hlk α hα hA => ⟨α, hα, fun _ _ => rfl, hc hlk α hα hA⟩⟩

theorem amoGood_small {fuel : Nat} {s : Enc} {ls : List Lit} (h : Inv s) (h1 : ls.length ≤ 1) :
    AmoGood fuel s ls (amoCore fuel s ls) := by
  rw [amoCore_small fuel s ls h1]
  exact amoGood_same h (nvars_pos h.1) (fun _ _ _ => amo_short h1) (fun _ α hα _ => lit_trueLit hα.1)

theorem amoGood_hit {fuel : Nat} {s : Enc} {ls : List Lit} (h : Inv s) (h1 : ¬ ls.length ≤ 1) {l : Lit}
    (h2 : s.lookup (.amo ls) = some l) : AmoGood fuel s ls (amoCore fuel s ls) := by
  rw [amoCore_hit fuel s ls h1 h2]
  obtain ⟨c1, c2⟩ := cache_hit h h2
  refine amoGood_same h c1 (fun α hα => c2 α hα) (fun hlk => ?_)
  rcases hlk with hlk | hlk
  · exact absurd hlk h1
  · rw [h2] at hlk; cases hlk

theorem amoGood_pair {fuel : Nat} {s : Enc} {ls : List Lit} (h : Inv s) (hl : InRange s ls)
    (h1 : ¬ ls.length ≤ 1) (h2 : s.lookup (.amo ls) = none) (h4 : ls.length < 4) :
    AmoGood fuel s ls (amoCore fuel s ls) := by
  rw [amoCore_pair fuel s ls h1 h2 h4]
  have hctr : ∀ (β : Asg), β.lit (⟨s.nvars, true⟩ : Lit) = β s.nvars := fun β => lit_pos β _
  obtain ⟨f1, f2, f3, f4, f5, f6, f7, _⟩ := freshDef_spec h (.amo ls) (pairCls ls) hl
    (by
      intro c hc x hx
      simp only [pairCls, List.mem_map] at hc
      obtain ⟨p, hp, rfl⟩ := hc
      obtain ⟨m1, m2⟩ := mem_pairs_mem (a := p.1) (b := p.2) hp
      simp only [List.mem_cons, List.not_mem_nil, or_false] at hx
      rcases hx with rfl | rfl | rfl
      · exact Nat.lt_succ_of_lt (hl p.1 m1)
      · exact Nat.lt_succ_of_lt (hl p.2 m2)
      · simp)
    (by
      intro α _
      refine ⟨false, ?_⟩
      rw [pairCls, pair_clauses]
      intro p _ hp
      rw [hctr, upd_same] at hp
      exact absurd hp.2.2 (by simp))
    (by
      intro α _ hc ht a ha b hb hta htb
      rw [pairCls, pair_clauses] at hc
      by_cases hab : a = b
      · exact hab
      · exfalso
        rcases mem_pairs_of_ne ha hb hab with hp | hp
        · exact hc _ hp ⟨hta, htb, ht⟩
        · exact hc _ hp ⟨htb, hta, ht⟩)
  refine ⟨f1, f2, fun α hα => f5 α hα, f3, f4, fun e he => ?_, fun hnd _ _ α hα hA => ?_⟩
  · rcases f7 e he with he | rfl
    · exact Or.inl he
    · exact Or.inr (fun X hX => Or.inl (by cases hX; rfl))
  · have := f6 α true hα (by
      rw [pairCls, pair_clauses]
      rintro ⟨a, b⟩ hp ⟨hta, htb, _⟩
      obtain ⟨m1, m2⟩ := mem_pairs_mem hp
      simp only at hta htb
      rw [lit_congr (upd_lt α _ (hl _ m1))] at hta
      rw [lit_congr (upd_lt α _ (hl _ m2))] at htb
      exact pairs_ne_of_nodup hnd hp (hA a m1 b m2 hta htb))
    exact ⟨_, this.1, fun v hv => upd_lt α _ hv, this.2⟩

/-! ## semantics of the product clauses -/

theorem getElem?_of_mem {ls : List Lit} {a : Lit} (h : a ∈ ls) : ∃ k, k < ls.length ∧ ls[k]? = some a := by
  obtain ⟨k, hk, rfl⟩ := List.getElem_of_mem h
  exact ⟨k, hk, List.getElem?_eq_getElem hk⟩

theorem mem_of_getElem? {ls : List Lit} {a : Lit} {k : Nat} (h : ls[k]? = some a) : a ∈ ls :=
  List.mem_of_getElem? h

theorem lt_of_getElem? {ls : List Lit} {a : Lit} {k : Nat} (h : ls[k]? = some a) : k < ls.length := by
  by_cases hk : k < ls.length
  · exact hk
  · rw [List.getElem?_eq_none (Nat.le_of_not_lt hk)] at h; cases h

/-- forcing: with the literal true, two true arguments sit in the same row and column -/
theorem prod_forces {α : Asg} {ls : List Lit} {ps qs n0 m0 : Nat} {ctr : Lit} (hq : 0 < qs)
    (hcover : ls.length ≤ ps * qs)
    (hcls : α.cnf (prodClauses ls ps qs (uLits n0 ps) (uLits m0 qs) ctr) = true) (hctr : α.lit ctr = true)
    (hU : AtMostOne α (uLits n0 ps)) (hW : AtMostOne α (uLits m0 qs)) : AtMostOne α ls := by
  rw [prodClauses_true] at hcls
  -- each true argument at index k makes its row and column literals true
  have key : ∀ k a, ls[k]? = some a → α.lit a = true →
      α.lit ⟨n0 + k / qs, true⟩ = true ∧ α.lit ⟨m0 + k % qs, true⟩ = true ∧ k / qs < ps ∧ k % qs < qs := by
    intro k a hk hta
    obtain ⟨d1, d2, d3⟩ := index_decomp hq hcover (lt_of_getElem? hk)
    have := hcls (k / qs) d1 (k % qs) d2 a (by rw [d3]; exact hk) hta hctr
    rw [uLits_getD d1, uLits_getD d2] at this
    exact ⟨this.1, this.2, d1, d2⟩
  intro a ha b hb hta htb
  obtain ⟨k, _, hk⟩ := getElem?_of_mem ha
  obtain ⟨k', _, hk'⟩ := getElem?_of_mem hb
  obtain ⟨u1, w1, i1, j1⟩ := key k a hk hta
  obtain ⟨u2, w2, i2, j2⟩ := key k' b hk' htb
  have e1 := hU _ (mem_uLits.2 ⟨_, i1, rfl⟩) _ (mem_uLits.2 ⟨_, i2, rfl⟩) u1 u2
  have e2 := hW _ (mem_uLits.2 ⟨_, j1, rfl⟩) _ (mem_uLits.2 ⟨_, j2, rfl⟩) w1 w2
  simp only [Lit.mk.injEq, and_true] at e1 e2
  have hkk : k = k' := by
    have a1 := Nat.div_add_mod k qs
    have a2 := Nat.div_add_mod k' qs
    have e1' : k / qs = k' / qs := by omega
    have e2' : k % qs = k' % qs := by omega
    rw [e1', e2'] at a1
    omega
  subst hkk
  rw [hk] at hk'
  cases hk'
  rfl

/-- with the literal false all product clauses hold -/
theorem prod_clauses_of_false {β : Asg} {ls : List Lit} {ps qs : Nat} {u w : List Lit} {ctr : Lit}
    (h : β.lit ctr = false) : β.cnf (prodClauses ls ps qs u w ctr) = true := by
  rw [prodClauses_true]
  intro i _ j _ lk _ _ hc
  rw [h] at hc; cases hc

theorem prodClauses_range {ls : List Lit} {ps qs n0 m0 N : Nat} {ctr : Lit} (_hN : 0 < N)
    (hls : ∀ l ∈ ls, l.var < N) (hu : n0 + ps ≤ N) (hw : m0 + qs ≤ N) (hc : ctr.var < N) :
    ∀ c ∈ prodClauses ls ps qs (uLits n0 ps) (uLits m0 qs) ctr, ∀ l ∈ c, l.var < N := by
  intro c hcm l hl
  obtain ⟨i, _, j, _, lk, hlk, hcc⟩ := mem_prodClauses.1 hcm
  have h1 : lk.neg.var < N := hls lk (mem_of_getElem? hlk)
  have h2 : ((uLits n0 ps).getD i Lit.falseLit).var < N := by
    rcases uLits_getD_var n0 ps i with h | h <;> omega
  have h3 : ((uLits m0 qs).getD j Lit.falseLit).var < N := by
    rcases uLits_getD_var m0 qs j with h | h <;> omega
  have h4 : ctr.neg.var < N := hc
  rcases hcc with rfl | rfl <;>
    simp only [List.mem_cons, List.not_mem_nil, or_false] at hl <;>
    rcases hl with rfl | rfl | rfl <;> assumption

theorem nodup_index {ls : List Lit} (hnd : ls.Nodup) {k k' : Nat} {x : Lit} (h1 : ls[k]? = some x)
    (h2 : ls[k']? = some x) : k = k' :=
  (List.getElem?_inj (lt_of_getElem? h1) hnd).1 (h1.trans h2.symm)

/-! ## the product encoding step -/

/-- the assignment used for completeness: old variables as in `α`, and of the fresh row and
    column variables exactly those of the true argument (position `k0`), if there is one -/
def oneHot (n0 ps qs : Nat) (α : Asg) (o : Option Nat) : Asg := fun v =>
  if v < n0 then α v else
    match o with
    | none => false
    | some k0 => decide (v = n0 + k0 / qs ∨ v = n0 + ps + k0 % qs)

theorem prodStep_good {fuel : Nat}
    (ih : ∀ (s : Enc) (ls : List Lit), Inv s → InRange s ls → AmoGood fuel s ls (amoCore fuel s ls))
    {s : Enc} {ls : List Lit} (h : Inv s) (hl : InRange s ls) (h4 : 4 ≤ ls.length) :
    AmoGood (fuel + 1) s ls (prodStep fuel s ls) := by
  have hps2 := ceilSqrt_ge_two h4
  have hqs0 := ceilDiv_pos h4
  have hpslt := ceilSqrt_lt h4
  have hqslt := ceilDiv_lt h4
  have hcover : ls.length ≤ ceilSqrt ls.length * ceilDiv ls.length (ceilSqrt ls.length) :=
    le_mul_ceilDiv (by omega)
  simp only [prodStep]
  generalize ceilSqrt ls.length = ps at *
  generalize ceilDiv ls.length ps = qs at *
  have hn0 := nvars_pos h.1
  have hnA : (addVars s ps).nvars = s.nvars + ps := addVars_nvars s ps
  have hnB : (addVars (addVars s ps) qs).nvars = s.nvars + ps + qs := by rw [addVars_nvars, hnA]
  rw [hnA]
  have hsB : Inv (addVars (addVars s ps) qs) := addVars_inv (addVars_inv h ps) qs
  have hsatB : ∀ β, Sat β (addVars (addVars s ps) qs) ↔ Sat β s := fun β =>
    (addVars_sat β _ qs).trans (addVars_sat β s ps)
  have hrefB : Refines s (addVars (addVars s ps) qs) := ⟨by omega, fun β hβ => (hsatB β).1 hβ⟩
  have hU : InRange (addVars (addVars s ps) qs) (uLits s.nvars ps) := by
    intro l hl'
    obtain ⟨i, hi, rfl⟩ := mem_uLits.1 hl'
    rw [hnB]; show s.nvars + i < _; omega
  have g3 := ih _ _ hsB hU
  rcases h3 : amoCore fuel (addVars (addVars s ps) qs) (uLits s.nvars ps) with ⟨cu, s3⟩
  rw [h3] at g3
  obtain ⟨a1, a2, a3, a4, a5, a6, a7⟩ := g3
  simp only at a1 a2 a3 a4 a5 a6 a7
  have hn3 : s.nvars + ps + qs ≤ s3.nvars := by have := a5.1; omega
  have hW : InRange s3 (uLits (s.nvars + ps) qs) := by
    intro l hl'
    obtain ⟨j, hj, rfl⟩ := mem_uLits.1 hl'
    show s.nvars + ps + j < _; omega
  have g4 := ih _ _ a1 hW
  rcases h4' : amoCore fuel s3 (uLits (s.nvars + ps) qs) with ⟨cw, s4⟩
  rw [h4'] at g4
  obtain ⟨b1, b2, b3, b4, b5, b6, b7⟩ := g4
  simp only at b1 b2 b3 b4 b5 b6 b7
  have hn4 : s3.nvars ≤ s4.nvars := b5.1
  have hcc : InRange s4 [cu, cw] := by
    intro l hl'
    simp only [List.mem_cons, List.not_mem_nil, or_false] at hl'
    rcases hl' with rfl | rfl
    · omega
    · exact b2
  obtain ⟨c1, c2, c3, c4, c5, c6⟩ := conj_spec b1 hcc
  rcases h5 : s4.newConj [cu, cw] with ⟨ctr, s5⟩
  rw [h5] at c1 c2 c3 c4 c5 c6
  simp only at c1 c2 c3 c4 c5 c6
  have hn5 : s4.nvars ≤ s5.nvars := c5.1
  have hctr : ∀ α, Sat α s5 → α.lit ctr = (α.lit cu && α.lit cw) := by
    intro α hα; rw [c3 α hα]; simp
  dsimp only
  obtain ⟨cls, hclsE⟩ : ∃ cls, cls = prodClauses ls ps qs (uLits s.nvars ps) (uLits (s.nvars + ps) qs) ctr :=
    ⟨_, rfl⟩
  rw [← hclsE]
  have hcls : ∀ c ∈ cls, InRange s5 c := by
    rw [hclsE]
    exact prodClauses_range (N := s5.nvars) (by omega) (fun l hl' => by have := hl l hl'; omega)
      (by omega) (by omega) c2
  have hsem : ∀ α, Sat α s5 → α.cnf cls = true → KeySem α (.amo ls) ctr := by
    intro α hα hcnf ht
    have hα4 := c5.2 α hα
    have hα3 := b5.2 α hα4
    have hc := hctr α hα
    rw [ht] at hc
    have hc' := hc.symm
    simp only [Bool.and_eq_true] at hc'
    obtain ⟨hcu, hcw⟩ := hc'
    rw [hclsE] at hcnf
    exact prod_forces hqs0 hcover hcnf ht (a3 α hα3 hcu) (b3 α hα4 hcw)
  obtain ⟨d1, d2, d3, d4, d5, d6, d7⟩ := guardDef_spec c1 (.amo ls) ctr cls c2
    (fun x hx => by have := hl x hx; omega) hcls hsem
  refine ⟨d1, d2, fun α hα ht => ?_, fun α hα => ?_, ?_, fun e he => ?_, fun hnd hfuel _ α hα hA => ?_⟩
  · -- forcing
    obtain ⟨t1, t2⟩ := d5 α hα ht
    exact hsem α (d4.2 α hα) t2 t1
  · -- conservativity: make all row variables true, which falsifies the literal
    let β : Asg := fun v => if v < s.nvars then α v else true
    have hβB : Sat β (addVars (addVars s ps) qs) :=
      (hsatB β).2 (sat_congr h.1 (fun v hv => by simp [β, hv]) hα)
    obtain ⟨β3, hβ3, e3⟩ := a4 β hβB
    obtain ⟨β4, hβ4, e4⟩ := b4 β3 hβ3
    obtain ⟨β5, hβ5, e5⟩ := c4 β4 hβ4
    have eB : ∀ v, v < s.nvars + ps + qs → β5 v = β v := by
      intro v hv; rw [e5 v (by omega), e4 v (by omega), e3 v (by rw [hnB]; omega)]
    have hcuF : β5.lit cu = false := by
      cases hcu : β5.lit cu with
      | false => rfl
      | true =>
        exfalso
        have hA := a3 β5 (b5.2 _ (c5.2 _ hβ5)) hcu
        have := hA ⟨s.nvars + 0, true⟩ (mem_uLits.2 ⟨0, by omega, rfl⟩) ⟨s.nvars + 1, true⟩
          (mem_uLits.2 ⟨1, by omega, rfl⟩)
          (by rw [lit_pos, eB _ (by omega)]; simp [β]) (by rw [lit_pos, eB _ (by omega)]; simp [β])
        simp at this
    have hctrF : β5.lit ctr = false := by rw [hctr β5 hβ5, hcuF]; rfl
    have := d6 β5 hβ5 (by rw [hclsE]; exact prod_clauses_of_false hctrF)
    exact ⟨β5, this.1, fun v hv => by rw [eB v (by omega)]; simp [β, hv]⟩
  · exact ⟨by omega, fun α hα => hrefB.2 α (a5.2 α (b5.2 α (c5.2 α (d4.2 α hα))))⟩
  · -- new cache entries
    rcases d7 e he with he | rfl
    · rcases c6 e he with he | ⟨x, hx⟩
      · rcases b6 e he with he | hX
        · rcases a6 e he with he | hX
          · exact Or.inl he
          · refine Or.inr (fun X hXe => Or.inr ?_)
            rcases hX X hXe with rfl | ⟨l, hlX, hlv⟩
            · exact ⟨⟨s.nvars + 0, true⟩, mem_uLits.2 ⟨0, by omega, rfl⟩, by simp⟩
            · exact ⟨l, hlX, by rw [hnB] at hlv; omega⟩
        · refine Or.inr (fun X hXe => Or.inr ?_)
          rcases hX X hXe with rfl | ⟨l, hlX, hlv⟩
          · exact ⟨⟨s.nvars + ps + 0, true⟩, mem_uLits.2 ⟨0, hqs0, rfl⟩, by simp <;> omega⟩
          · exact ⟨l, hlX, by omega⟩
      · exact Or.inr (fun X hXe => by rw [hx] at hXe; cases hXe)
    · exact Or.inr (fun X hXe => Or.inl (Key.amo.inj hXe).symm)
  · -- completeness: one-hot rows and columns
    obtain ⟨o, ho1, ho2⟩ : ∃ o : Option Nat, (∀ k, o = some k → k < ls.length) ∧
        (∀ (k : Nat) (lk : Lit), ls[k]? = some lk → α.lit lk = true → o = some k) := by
      by_cases hex : ∃ (k : Nat) (lk : Lit), ls[k]? = some lk ∧ α.lit lk = true
      · obtain ⟨k0, lk0, e1, e2⟩ := hex
        refine ⟨some k0, (fun k hk => by cases hk; exact lt_of_getElem? e1), fun k lk hk ht => ?_⟩
        have := hA lk (mem_of_getElem? hk) lk0 (mem_of_getElem? e1) ht e2
        subst this
        rw [nodup_index hnd hk e1]
      · exact ⟨none, (fun k hk => by cases hk), fun k lk hk ht => absurd ⟨k, lk, hk, ht⟩ hex⟩
    let β : Asg := oneHot s.nvars ps qs α o
    have βold : ∀ v, v < s.nvars → β v = α v := fun v hv => by simp [β, oneHot, hv]
    have βU : ∀ i, i < ps → β (s.nvars + i) = true → ∃ k0, o = some k0 ∧ i = k0 / qs := by
      intro i hi hb
      simp only [β, oneHot] at hb
      rw [if_neg (by omega)] at hb
      cases o with
      | none => simp at hb
      | some k0 =>
        simp only [decide_eq_true_eq] at hb
        exact ⟨k0, rfl, by omega⟩
    have βW : ∀ j, j < qs → β (s.nvars + ps + j) = true → ∃ k0, o = some k0 ∧ j = k0 % qs := by
      intro j hj hb
      simp only [β, oneHot] at hb
      rw [if_neg (by omega)] at hb
      cases o with
      | none => simp at hb
      | some k0 =>
        simp only [decide_eq_true_eq] at hb
        have := (index_decomp hqs0 hcover (ho1 k0 rfl)).1
        exact ⟨k0, rfl, by omega⟩
    have βhit : ∀ k lk, ls[k]? = some lk → α.lit lk = true →
        β (s.nvars + k / qs) = true ∧ β (s.nvars + ps + k % qs) = true := by
      intro k lk hk ht
      have e := ho2 k lk hk ht
      constructor
      · show (if s.nvars + k / qs < s.nvars then _ else _) = true
        rw [if_neg (by generalize k / qs = x; omega), e]; simp
      · show (if s.nvars + ps + k % qs < s.nvars then _ else _) = true
        rw [if_neg (by generalize k % qs = x; omega), e]; simp
    have hAU : AtMostOne β (uLits s.nvars ps) := by
      intro a ha b hb hta htb
      obtain ⟨i, hi, rfl⟩ := mem_uLits.1 ha
      obtain ⟨i', hi', rfl⟩ := mem_uLits.1 hb
      rw [lit_pos] at hta htb
      obtain ⟨k0, e0, ei⟩ := βU i hi hta
      obtain ⟨k0', e0', ei'⟩ := βU i' hi' htb
      rw [e0] at e0'; cases e0'
      rw [ei, ei']
    have hAW : AtMostOne β (uLits (s.nvars + ps) qs) := by
      intro a ha b hb hta htb
      obtain ⟨j, hj, rfl⟩ := mem_uLits.1 ha
      obtain ⟨j', hj', rfl⟩ := mem_uLits.1 hb
      rw [lit_pos] at hta htb
      obtain ⟨k0, e0, ej⟩ := βW j hj hta
      obtain ⟨k0', e0', ej'⟩ := βW j' hj' htb
      rw [e0] at e0'; cases e0'
      rw [ej, ej']
    have hβB : Sat β (addVars (addVars s ps) qs) := (hsatB β).2 (sat_congr h.1 βold hα)
    have hlkU : (addVars (addVars s ps) qs).lookup (.amo (uLits s.nvars ps)) = none :=
      lookup_none_of (fun e he heq => by
        have := (h.1.2.2 e he).2 ⟨s.nvars + 0, true⟩ (by rw [heq]; exact mem_uLits.2 ⟨0, by omega, rfl⟩)
        simp at this)
    obtain ⟨β3, hβ3, e3, t3⟩ := a7 (uLits_nodup _ _) (by rw [uLits_length]; omega) (Or.inr hlkU) β hβB hAU
    have hlkW : s3.lookup (.amo (uLits (s.nvars + ps) qs)) = none :=
      lookup_none_of (fun e he heq => by
        rcases a6 e he with he | hX
        · have := (h.1.2.2 e he).2 ⟨s.nvars + ps + 0, true⟩
            (by rw [heq]; exact mem_uLits.2 ⟨0, hqs0, rfl⟩)
          simp at this; omega
        · rcases hX _ heq with hWU | ⟨l, hlW, hlv⟩
          · have : (⟨s.nvars + ps + 0, true⟩ : Lit) ∈ uLits s.nvars ps := by
              rw [← hWU]; exact mem_uLits.2 ⟨0, hqs0, rfl⟩
            obtain ⟨i, hi, hi2⟩ := mem_uLits.1 this
            simp at hi2; omega
          · obtain ⟨j, hj, rfl⟩ := mem_uLits.1 hlW
            rw [hnB] at hlv; simp at hlv; omega)
    have hAW3 : AtMostOne β3 (uLits (s.nvars + ps) qs) := amo_congr (fun l hl' => by
      obtain ⟨j, hj, rfl⟩ := mem_uLits.1 hl'
      exact e3 _ (by rw [hnB]; show s.nvars + ps + j < _; omega)) hAW
    obtain ⟨β4, hβ4, e4, t4⟩ := b7 (uLits_nodup _ _) (by rw [uLits_length]; omega) (Or.inr hlkW) β3 hβ3 hAW3
    obtain ⟨β5, hβ5, e5⟩ := c4 β4 hβ4
    have eB : ∀ v, v < s.nvars + ps + qs → β5 v = β v := by
      intro v hv; rw [e5 v (by omega), e4 v (by omega), e3 v (by rw [hnB]; omega)]
    have hcu5 : β5.lit cu = true := by
      rw [lit_congr (e5 _ (by omega)), lit_congr (e4 _ a2)]; exact t3
    have hcw5 : β5.lit cw = true := by
      rw [lit_congr (e5 _ b2)]; exact t4
    have hctrT : β5.lit ctr = true := by rw [hctr β5 hβ5, hcu5, hcw5]; rfl
    have hcnf : β5.cnf cls = true := by
      rw [hclsE, prodClauses_true]
      intro i hi j hj lk hlk ht _
      have hlkv := hl lk (mem_of_getElem? hlk)
      rw [lit_congr (show β5 lk.var = α lk.var by rw [eB _ (by omega), βold _ hlkv])] at ht
      obtain ⟨x1, x2⟩ := βhit _ lk hlk ht
      rw [index_div hj] at x1
      rw [index_mod hj] at x2
      rw [uLits_getD hi, uLits_getD hj, lit_pos, lit_pos, eB _ (by omega), eB _ (by omega)]
      exact ⟨x1, x2⟩
    have := d6 β5 hβ5 hcnf
    exact ⟨β5, this.1, fun v hv => by rw [eB v (by omega), βold v hv], this.2 hctrT⟩

/-! ## `amoCore`, any fuel, any length -/

theorem amoCore_good : ∀ (fuel : Nat) (s : Enc) (ls : List Lit), Inv s → InRange s ls →
    AmoGood fuel s ls (amoCore fuel s ls) := by
  intro fuel
  induction fuel with
  | zero =>
    intro s ls h hl
    by_cases h1 : ls.length ≤ 1
    · exact amoGood_small h h1
    · cases h2 : s.lookup (.amo ls) with
      | some l => exact amoGood_hit h h1 h2
      | none =>
        by_cases h4 : ls.length < 4
        · exact amoGood_pair h hl h1 h2 h4
        · rw [amoCore_zero s ls h1 h2 h4]
          refine ⟨h, nvars_pos h.1, fun α hα ht => ?_, Extends.refl s, Refines.refl s,
            fun e he => Or.inl he, fun _ hf => ?_⟩
          · change α.lit Lit.falseLit = true at ht
            rw [lit_falseLit hα.1] at ht; cases ht
          · omega
  | succ fuel ih =>
    intro s ls h hl
    by_cases h1 : ls.length ≤ 1
    · exact amoGood_small h h1
    · cases h2 : s.lookup (.amo ls) with
      | some l => exact amoGood_hit h h1 h2
      | none =>
        by_cases h4 : ls.length < 4
        · exact amoGood_pair h hl h1 h2 h4
        · rw [amoCore_succ fuel s ls h1 h2 h4]
          exact prodStep_good ih h hl (by omega)

/-- extra fuel does not change the result -/
theorem amoCore_fuel : ∀ (f1 f2 : Nat) (s : Enc) (ls : List Lit), ls.length ≤ f1 → ls.length ≤ f2 →
    amoCore f1 s ls = amoCore f2 s ls := by
  intro f1
  induction f1 with
  | zero =>
    intro f2 s ls h1 _
    rw [amoCore_small 0 s ls (by omega), amoCore_small f2 s ls (by omega)]
  | succ f1 ih =>
    intro f2 s ls hf1 hf2
    by_cases h1 : ls.length ≤ 1
    · rw [amoCore_small _ s ls h1, amoCore_small f2 s ls h1]
    · cases h2 : s.lookup (.amo ls) with
      | some l => rw [amoCore_hit _ s ls h1 h2, amoCore_hit f2 s ls h1 h2]
      | none =>
        by_cases h4 : ls.length < 4
        · rw [amoCore_pair _ s ls h1 h2 h4, amoCore_pair f2 s ls h1 h2 h4]
        · cases f2 with
          | zero => omega
          | succ f2 =>
            rw [amoCore_succ f1 s ls h1 h2 h4, amoCore_succ f2 s ls h1 h2 h4]
            have hps := ceilSqrt_lt (n := ls.length) (by omega)
            have hqs := ceilDiv_lt (n := ls.length) (by omega)
            simp only [prodStep]
            have e1 := ih f2 (addVars (addVars s (ceilSqrt ls.length)) (ceilDiv ls.length (ceilSqrt ls.length)))
              (uLits s.nvars (ceilSqrt ls.length)) (by rw [uLits_length]; omega) (by rw [uLits_length]; omega)
            rw [e1]
            have e2 := ih f2 (amoCore f2 (addVars (addVars s (ceilSqrt ls.length))
                (ceilDiv ls.length (ceilSqrt ls.length))) (uLits s.nvars (ceilSqrt ls.length))).2
              (uLits (addVars s (ceilSqrt ls.length)).nvars (ceilDiv ls.length (ceilSqrt ls.length)))
              (by rw [uLits_length]; omega) (by rw [uLits_length]; omega)
            rw [e2]

end EncL
end Oratio
