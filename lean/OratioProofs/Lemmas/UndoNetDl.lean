/-
C08N, part 4: on exact states the distance matrix of a difference-logic theory is a function of the
SET of enforced edges: two histories that end with the same enforced constraints have the same
distances (IDL: the same entries; RDL: the same denotations).
-/
import OratioProofs.Lemmas.DlExact
import OratioProofs.Lemmas.DlRdlExact

namespace Oratio

namespace Dl

/-- `tight_witness` without the (unused) reachability hypothesis -/
theorem tight_witness' (K : Int) (E : List REdge) (t : Dl Int) (h : ExactM K E t) (i j : Nat)
    (hi : i < t.nVars) (hj : j < t.nVars) (x : Int) (hx : distOpt t i j = some x) :
    ∃ σ : Nat → Int, (∀ e ∈ E, rholds σ e) ∧ σ j - σ i = x := by
  have hw := h.weak
  obtain ⟨σ, hσ, hσf, _⟩ := DlM.witness hw h.nK_nonneg i hi _ (le_refl _)
  obtain ⟨h1, h2⟩ := distOpt_some.mp hx
  refine ⟨σ, hσ, ?_⟩
  rw [hσf j hj (by rw [h1]; exact h2), hσf i hi (by rw [hw.diag i hi]; decide), hw.diag i hi, h1]
  omega

/-- monotonicity: with more enforced edges the distances are at most what they were -/
theorem distOpt_mono {K₁ K₂ : Int} {E₁ E₂ : List REdge} {t₁ t₂ : Dl Int} (h₁ : ExactM K₁ E₁ t₁) (h₂ : ExactM K₂ E₂ t₂)
    (hE : ∀ e, e ∈ E₁ → e ∈ E₂) (hn : t₁.nVars = t₂.nVars) {i j : Nat} (hi : i < t₁.nVars) (hj : j < t₁.nVars)
    {x : Int} (hx : distOpt t₁ i j = some x) : ∃ y, distOpt t₂ i j = some y ∧ y ≤ x := by
  cases hy : distOpt t₂ i j with
  | none =>
    obtain ⟨σ, hσ, hgt⟩ := infinite_means_unbounded K₂ E₂ t₂ h₂ i j (hn ▸ hi) (hn ▸ hj) hy x
    have := h₁.implied i j hi hj x hx σ (fun e he => hσ e (hE e he))
    omega
  | some y =>
    obtain ⟨σ, hσ, heq⟩ := tight_witness' K₂ E₂ t₂ h₂ i j (hn ▸ hi) (hn ▸ hj) y hy
    have := h₁.implied i j hi hj x hx σ (fun e he => hσ e (hE e he))
    exact ⟨y, rfl, by omega⟩

/-- the same set of enforced edges: the same extended distances -/
theorem distOpt_determined {K₁ K₂ : Int} {E₁ E₂ : List REdge} {t₁ t₂ : Dl Int} (h₁ : ExactM K₁ E₁ t₁)
    (h₂ : ExactM K₂ E₂ t₂) (hE : ∀ e, e ∈ E₁ ↔ e ∈ E₂) (hn : t₁.nVars = t₂.nVars) {i j : Nat}
    (hi : i < t₁.nVars) (hj : j < t₁.nVars) : distOpt t₁ i j = distOpt t₂ i j := by
  cases hx : distOpt t₁ i j with
  | some x =>
    obtain ⟨y, hy, hle⟩ := distOpt_mono h₁ h₂ (fun e => (hE e).1) hn hi hj hx
    obtain ⟨x', hx', hle'⟩ := distOpt_mono h₂ h₁ (fun e => (hE e).2) hn.symm (hn ▸ hi) (hn ▸ hj) hy
    rw [hx] at hx'
    cases hx'
    rw [hy]
    congr 1
    omega
  | none =>
    cases hy : distOpt t₂ i j with
    | none => rfl
    | some y =>
      obtain ⟨x', hx', _⟩ := distOpt_mono h₂ h₁ (fun e => (hE e).2) hn.symm (hn ▸ hi) (hn ▸ hj) hy
      rw [hx] at hx'
      cases hx'

/-- ... hence the same matrix entries -/
theorem d_determined {K₁ K₂ : Int} {E₁ E₂ : List REdge} {t₁ t₂ : Dl Int} (h₁ : ExactM K₁ E₁ t₁)
    (h₂ : ExactM K₂ E₂ t₂) (hE : ∀ e, e ∈ E₁ ↔ e ∈ E₂) (hn : t₁.nVars = t₂.nVars) {i j : Nat}
    (hi : i < t₁.nVars) (hj : j < t₁.nVars) : d idlOps t₁ i j = d idlOps t₂ i j := by
  have h := distOpt_determined h₁ h₂ hE hn hi hj
  cases hx : distOpt t₁ i j with
  | some x =>
    rw [hx] at h
    rw [(distOpt_some.mp hx).1, (distOpt_some.mp h.symm).1]
  | none =>
    rw [hx] at h
    rw [distOpt_none.mp hx, distOpt_none.mp h.symm]

/-- with the same capacity: the whole matrix (entries outside the used block are as the constructor
    / `resize` leave them) -/
theorem d_determined_all {K₁ K₂ : Int} {E₁ E₂ : List REdge} {t₁ t₂ : Dl Int} (h₁ : ExactM K₁ E₁ t₁)
    (h₂ : ExactM K₂ E₂ t₂) (hE : ∀ e, e ∈ E₁ ↔ e ∈ E₂) (hn : t₁.nVars = t₂.nVars)
    (hc : t₁.dists.length = t₂.dists.length) (i j : Nat) : d idlOps t₁ i j = d idlOps t₂ i j := by
  by_cases hin : i < t₁.nVars ∧ j < t₁.nVars
  · exact d_determined h₁ h₂ hE hn hin.1 hin.2
  · have hout : t₁.nVars ≤ i ∨ t₁.nVars ≤ j := by omega
    by_cases hr : i < t₁.dists.length ∧ j < t₁.dists.length
    · rw [h₁.fresh i j hr.1 hr.2 hout, h₂.fresh i j (hc ▸ hr.1) (hc ▸ hr.2) (hn ▸ hout)]
    · -- outside the allocated matrix both reads give the default
      have out : ∀ (t : Dl Int), (∀ r ∈ t.dists, r.length = t.dists.length) →
          ¬ (i < t.dists.length ∧ j < t.dists.length) → d idlOps t i j = idlInf := by
        intro t hsq hr'
        rw [d_eq]
        by_cases hi' : i < t.dists.length
        · have hj' : t.dists.length ≤ j := by omega
          have hlen : (t.dists.getD i []).length = t.dists.length := by
            rw [List.getD_eq_getElem?_getD, List.getElem?_eq_getElem hi', Option.getD_some]
            exact hsq _ (List.getElem_mem hi')
          rw [List.getD_eq_getElem?_getD (l := t.dists.getD i []), List.getElem?_eq_none (by omega)]
          rfl
        · have : t.dists.getD i [] = [] := by
            rw [List.getD_eq_getElem?_getD, List.getElem?_eq_none (by omega)]; rfl
          rw [this]; rfl
      rw [out t₁ h₁.size_ok.2.2.1 hr, out t₂ h₂.size_ok.2.2.1 (hc ▸ hr)]

end Dl

namespace DlR

/-- `tight_witness` without the (unused) reachability hypothesis -/
theorem tight_witness' (E : List QEdge) (t : Dl IR) (h : ExactM E t) (i j : Nat)
    (hi : i < t.nVars) (hj : j < t.nVars) (x : QV) (hx : distOpt t i j = some x) :
    ∃ σ : Nat → QV, (∀ e ∈ E, qholds σ e) ∧ σ j - σ i = x := by
  have hw := h.weak
  obtain ⟨L, _, hL⟩ := DlW.exists_L t.nVars (dn t) i 0
  obtain ⟨σ, hσ, hσf, _⟩ := DlW.witness hw i hi L hL
  refine ⟨σ, (sat_iff σ E).mpr hσ, ?_⟩
  rw [hσf j hj x (distOpt_some.mp hx), hσf i hi 0 (by rw [hw.diag i hi]; rfl), sub_zero]

theorem distOpt_mono {E₁ E₂ : List QEdge} {t₁ t₂ : Dl IR} (h₁ : ExactM E₁ t₁) (h₂ : ExactM E₂ t₂)
    (hE : ∀ e, e ∈ E₁ → e ∈ E₂) (hn : t₁.nVars = t₂.nVars) {i j : Nat} (hi : i < t₁.nVars) (hj : j < t₁.nVars)
    {x : QV} (hx : distOpt t₁ i j = some x) : ∃ y, distOpt t₂ i j = some y ∧ y ≤ x := by
  cases hy : distOpt t₂ i j with
  | none =>
    obtain ⟨σ, hσ, hgt⟩ := infinite_means_unbounded E₂ t₂ h₂ i j (hn ▸ hi) (hn ▸ hj) hy x
    have := h₁.implied i j hi hj x hx σ (fun e he => hσ e (hE e he))
    exact absurd this (not_le.mpr hgt)
  | some y =>
    obtain ⟨σ, hσ, heq⟩ := tight_witness' E₂ t₂ h₂ i j (hn ▸ hi) (hn ▸ hj) y hy
    have := h₁.implied i j hi hj x hx σ (fun e he => hσ e (hE e he))
    exact ⟨y, rfl, heq ▸ this⟩

/-- the same set of enforced edges: the same denoted distances -/
theorem distOpt_determined {E₁ E₂ : List QEdge} {t₁ t₂ : Dl IR} (h₁ : ExactM E₁ t₁)
    (h₂ : ExactM E₂ t₂) (hE : ∀ e, e ∈ E₁ ↔ e ∈ E₂) (hn : t₁.nVars = t₂.nVars) {i j : Nat}
    (hi : i < t₁.nVars) (hj : j < t₁.nVars) : distOpt t₁ i j = distOpt t₂ i j := by
  cases hx : distOpt t₁ i j with
  | some x =>
    obtain ⟨y, hy, hle⟩ := distOpt_mono h₁ h₂ (fun e => (hE e).1) hn hi hj hx
    obtain ⟨x', hx', hle'⟩ := distOpt_mono h₂ h₁ (fun e => (hE e).2) hn.symm (hn ▸ hi) (hn ▸ hj) hy
    rw [hx] at hx'
    cases hx'
    rw [hy]
    congr 1
    exact le_antisymm hle' hle
  | none =>
    cases hy : distOpt t₂ i j with
    | none => rfl
    | some y =>
      obtain ⟨x', hx', _⟩ := distOpt_mono h₂ h₁ (fun e => (hE e).2) hn.symm (hn ▸ hi) (hn ▸ hj) hy
      rw [hx] at hx'
      cases hx'

end DlR

end Oratio
