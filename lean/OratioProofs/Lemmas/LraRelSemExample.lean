/-
Concrete states for the non-vacuity examples of Properties/C11Sem.lean, built by running the model:
two variables `x0`, `x1`; the requests `x0 + 2·x1 ≤ 3`, `x0 + 2·x1 + 1 ≤ 4` (same literal), `2·x0 + 4·x1 < 6`
(another slack variable); the upper bound `x2 ≤ 3` written as `assert_upper` does; the request
`x0 + 2·x1 ≤ 5` decided by the bounds of the slack variable; `x0 + 2 ≤ x0 + 1` decided by the expression; the
equality `x0 = x1`.
-/
import OratioModel
import OratioProofs.Lemmas.LraRelSemFinal

namespace Oratio
namespace Lra

/-- the components of an answer of `newRel` -/
def litOf (o : Option (Lit × Sat × Lra × Option Nat)) : Lit :=
  match o with | some (l, _, _, _) => l | none => Lit.trueLit
def satOf (o : Option (Lit × Sat × Lra × Option Nat)) : Sat :=
  match o with | some (_, s, _, _) => s | none => Sat.init
def lraOf (o : Option (Lit × Sat × Lra × Option Nat)) : Lra :=
  match o with | some (_, _, t, _) => t | none => Lra.init
def bOf (o : Option (Lit × Sat × Lra × Option Nat)) : Option Nat :=
  match o with | some (_, _, _, b) => b | none => none

theorem some_of_isSome (o : Option (Lit × Sat × Lra × Option Nat)) (h : o.isSome = true) :
    o = some (litOf o, satOf o, lraOf o, bOf o) := by
  cases o with
  | none => cases h
  | some p => rfl

/-- `x0`, `x1` -/
def exT2 : Lra := Lra.init.newVar.2.newVar.2
/-- `x0 + 2·x1`, `3` -/
def exL1 : Lin := ⟨[(0, ⟨1, 1⟩), (1, ⟨2, 1⟩)], ⟨0, 1⟩⟩
def exK3 : Lin := ⟨[], ⟨3, 1⟩⟩
/-- `x0 + 2·x1 + 1`, `4` -/
def exL2 : Lin := ⟨[(0, ⟨1, 1⟩), (1, ⟨2, 1⟩)], ⟨1, 1⟩⟩
def exK4 : Lin := ⟨[], ⟨4, 1⟩⟩
/-- `2·x0 + 4·x1`, `6`, `5` -/
def exL3 : Lin := ⟨[(0, ⟨2, 1⟩), (1, ⟨4, 1⟩)], ⟨0, 1⟩⟩
def exK6 : Lin := ⟨[], ⟨6, 1⟩⟩
def exK5 : Lin := ⟨[], ⟨5, 1⟩⟩
/-- `x0 + 2`, `x0 + 1`, `x0`, `x1`, `0·x0`, `1` -/
def exX0p2 : Lin := ⟨[(0, ⟨1, 1⟩)], ⟨2, 1⟩⟩
def exX0p1 : Lin := ⟨[(0, ⟨1, 1⟩)], ⟨1, 1⟩⟩
def exX0 : Lin := ⟨[(0, ⟨1, 1⟩)], ⟨0, 1⟩⟩
def exX1 : Lin := ⟨[(1, ⟨1, 1⟩)], ⟨0, 1⟩⟩
def exZ0 : Lin := ⟨[(0, ⟨0, 1⟩)], ⟨0, 1⟩⟩
def exK1 : Lin := ⟨[], ⟨1, 1⟩⟩

/-- `x0 + 2·x1 ≤ 3` -/
def ex1 := newRel Sat.init exT2 .leq exL1 exK3
/-- then `x0 + 2·x1 + 1 ≤ 4` -/
def ex2 := newRel (satOf ex1) (lraOf ex1) .leq exL2 exK4
/-- then `2·x0 + 4·x1 < 6` -/
def ex3 := newRel (satOf ex2) (lraOf ex2) .lt exL3 exK6
/-- the state after the first request, with the upper bound `x2 ≤ 3` asserted by its literal -/
def exTB : Lra := (lraOf ex1).setBound (ubIdx 2) ⟨⟨⟨3, 1⟩, ⟨0, 1⟩⟩, ⟨1, true⟩⟩
/-- `x0 + 2·x1 ≤ 5` there: TRUE by the bounds of the slack variable `x2` -/
def ex4 := newRel (satOf ex1) exTB .leq exL1 exK5
/-- `x0 + 2·x1 > 5` there: FALSE -/
def ex4f := newRel (satOf ex1) exTB .gt exL1 exK5
/-- `x0 + 1 ≤ x0 + 2`: TRUE by the rewritten difference (a constant); `x0 + 2 ≤ x0 + 1`: FALSE -/
def ex5 := newRel Sat.init exT2 .leq exX0p1 exX0p2
def ex5f := newRel Sat.init exT2 .leq exX0p2 exX0p1
/-- `0·x0 ≥ 1` with `x0` unbounded: the model answers TRUE -/
def ex6 := newRel Sat.init exT2 .geq exZ0 exK1
/-- `x0 = x1` -/
def ex7 := newEq Sat.init exT2 exX0 exX1
/-- `x0 ≤ 3`: the rewritten difference is the existing variable `x0` (no slack variable, no row) -/
def ex8 := newRel Sat.init exT2 .leq exX0 exK3
/-- `x2 - x0`, `0`; after `ex1` (`x2 = x0 + 2·x1` basic): `x2 - x0 ≥ 0` is rewritten to `2·x1 ≥ 0` -/
def exS2m0 : Lin := ⟨[(0, ⟨-1, 1⟩), (2, ⟨1, 1⟩)], ⟨0, 1⟩⟩
def exK0 : Lin := ⟨[], ⟨0, 1⟩⟩
def ex9 := newRel (satOf ex1) (lraOf ex1) .geq exS2m0 exK0

theorem wf2 (a b : Nat) (hab : a < b) (c d k : R) (hc : c.WF ∧ c.den ≠ 0) (hd : d.WF ∧ d.den ≠ 0)
    (hk : k.WF ∧ k.den ≠ 0) : (⟨[(a, c), (b, d)], k⟩ : Lin).WF := by
  refine ⟨⟨hab, trivial⟩, ?_, hk.1, hk.2⟩
  intro t ht
  simp only [List.mem_cons, List.not_mem_nil, or_false] at ht
  rcases ht with rfl | rfl
  · exact hc
  · exact hd

theorem wf1 (a : Nat) (c k : R) (hc : c.WF ∧ c.den ≠ 0) (hk : k.WF ∧ k.den ≠ 0) : (⟨[(a, c)], k⟩ : Lin).WF := by
  refine ⟨trivial, ?_, hk.1, hk.2⟩
  intro t ht
  simp only [List.mem_cons, List.not_mem_nil, or_false] at ht
  subst ht
  exact hc

theorem wf0 (k : R) (hk : k.WF ∧ k.den ≠ 0) : (⟨[], k⟩ : Lin).WF :=
  ⟨trivial, fun _ ht => absurd ht List.not_mem_nil, hk.1, hk.2⟩

theorem exL1_wf : exL1.WF := wf2 0 1 (by decide) _ _ _ (by decide) (by decide) (by decide)
theorem exL2_wf : exL2.WF := wf2 0 1 (by decide) _ _ _ (by decide) (by decide) (by decide)
theorem exL3_wf : exL3.WF := wf2 0 1 (by decide) _ _ _ (by decide) (by decide) (by decide)
theorem exK1_wf : exK1.WF := wf0 _ (by decide)
theorem exK3_wf : exK3.WF := wf0 _ (by decide)
theorem exK4_wf : exK4.WF := wf0 _ (by decide)
theorem exK5_wf : exK5.WF := wf0 _ (by decide)
theorem exK6_wf : exK6.WF := wf0 _ (by decide)
theorem exX0p2_wf : exX0p2.WF := wf1 _ _ _ (by decide) (by decide)
theorem exX0p1_wf : exX0p1.WF := wf1 _ _ _ (by decide) (by decide)
theorem exX0_wf : exX0.WF := wf1 _ _ _ (by decide) (by decide)
theorem exX1_wf : exX1.WF := wf1 _ _ _ (by decide) (by decide)
theorem exZ0_wf : exZ0.WF := wf1 _ _ _ (by decide) (by decide)

theorem vars2_lt (a b : Nat) (c d k : R) (n : Nat) (ha : a < n) (hb : b < n) :
    ∀ p ∈ (⟨[(a, c), (b, d)], k⟩ : Lin).vars, p.1 < n := by
  intro p hp
  simp only [List.mem_cons, List.not_mem_nil, or_false] at hp
  rcases hp with rfl | rfl
  · exact ha
  · exact hb

theorem vars1_lt (a : Nat) (c k : R) (n : Nat) (ha : a < n) : ∀ p ∈ (⟨[(a, c)], k⟩ : Lin).vars, p.1 < n := by
  intro p hp
  simp only [List.mem_cons, List.not_mem_nil, or_false] at hp
  subst hp
  exact ha

theorem vars0_lt (k : R) (n : Nat) : ∀ p ∈ (⟨[], k⟩ : Lin).vars, p.1 < n :=
  fun _ hp => absurd hp List.not_mem_nil

/-! ### the invariants along the run -/

theorem exT2_state : SemState Sat.init exT2 := SemState.init.newVar.newVar

theorem ex1_some : ex1 = some (⟨1, true⟩, satOf ex1, lraOf ex1, some 1) := by
  have h := some_of_isSome ex1 (by decide +kernel)
  have h1 : litOf ex1 = ⟨1, true⟩ := by decide +kernel
  have h2 : bOf ex1 = some 1 := by decide +kernel
  rw [h1, h2] at h
  exact h

theorem ex1_state : SemState (satOf ex1) (lraOf ex1) :=
  exT2_state.newRel exL1_wf exK3_wf (vars2_lt _ _ _ _ _ _ (by decide) (by decide)) (vars0_lt _ _)
    (by show ∀ p ∈ (relE exT2 exL1 exK3).vars, p.2.num ≠ 0; decide +kernel) ex1_some

theorem ex1_len : (lraOf ex1).vals.length = 3 := by decide +kernel

theorem ex2_some : ex2 = some (⟨1, true⟩, satOf ex2, lraOf ex2, none) := by
  have h := some_of_isSome ex2 (by decide +kernel)
  have h1 : litOf ex2 = ⟨1, true⟩ := by decide +kernel
  have h2 : bOf ex2 = none := by decide +kernel
  rw [h1, h2] at h
  exact h

theorem ex2_state : SemState (satOf ex2) (lraOf ex2) :=
  ex1_state.newRel exL2_wf exK4_wf (vars2_lt _ _ _ _ _ _ (by rw [ex1_len]; decide) (by rw [ex1_len]; decide))
    (vars0_lt _ _) (by show ∀ p ∈ (relE (lraOf ex1) exL2 exK4).vars, p.2.num ≠ 0; decide +kernel) ex2_some

theorem ex2_len : (lraOf ex2).vals.length = 3 := by decide +kernel

theorem ex3_some : ex3 = some (⟨2, true⟩, satOf ex3, lraOf ex3, some 2) := by
  have h := some_of_isSome ex3 (by decide +kernel)
  have h1 : litOf ex3 = ⟨2, true⟩ := by decide +kernel
  have h2 : bOf ex3 = some 2 := by decide +kernel
  rw [h1, h2] at h
  exact h

theorem exTB_state : SemState (satOf ex1) exTB :=
  ex1_state.setBound _ ⟨⟨by decide, by decide⟩, ⟨by decide, by decide⟩⟩

theorem exTB_len : exTB.vals.length = 3 := ex1_len

theorem ex4_some : ex4 = some (Lit.trueLit, satOf ex4, lraOf ex4, none) := by
  have h := some_of_isSome ex4 (by decide +kernel)
  have h1 : litOf ex4 = Lit.trueLit := by decide +kernel
  have h2 : bOf ex4 = none := by decide +kernel
  rw [h1, h2] at h
  exact h

theorem ex4f_some : ex4f = some (Lit.falseLit, satOf ex4f, lraOf ex4f, none) := by
  have h := some_of_isSome ex4f (by decide +kernel)
  have h1 : litOf ex4f = Lit.falseLit := by decide +kernel
  have h2 : bOf ex4f = none := by decide +kernel
  rw [h1, h2] at h
  exact h

theorem ex5_some : ex5 = some (Lit.trueLit, satOf ex5, lraOf ex5, none) := by
  have h := some_of_isSome ex5 (by decide +kernel)
  have h1 : litOf ex5 = Lit.trueLit := by decide +kernel
  have h2 : bOf ex5 = none := by decide +kernel
  rw [h1, h2] at h
  exact h

theorem ex5f_some : ex5f = some (Lit.falseLit, satOf ex5f, lraOf ex5f, none) := by
  have h := some_of_isSome ex5f (by decide +kernel)
  have h1 : litOf ex5f = Lit.falseLit := by decide +kernel
  have h2 : bOf ex5f = none := by decide +kernel
  rw [h1, h2] at h
  exact h

theorem ex6_some : ex6 = some (Lit.trueLit, satOf ex6, lraOf ex6, none) := by
  have h := some_of_isSome ex6 (by decide +kernel)
  have h1 : litOf ex6 = Lit.trueLit := by decide +kernel
  have h2 : bOf ex6 = none := by decide +kernel
  rw [h1, h2] at h
  exact h

/-! ### the concrete tableaux, assertions, bounds and two valuations -/

def exSigA : Nat → Rat := fun x => match x with | 0 => 1 | 1 => 1 | 2 => 3 | 3 => 6 | _ => 0
/-- a solution of the tableau of `ex9` -/
def exSigC : Nat → Rat := fun x => match x with | 0 => 1 | 1 => 1 | 2 => 3 | 3 => 2 | _ => 0
def exSigB : Nat → Rat := fun x => match x with | 0 => 2 | 1 => 1 | 2 => 4 | 3 => 8 | _ => 0

theorem ex1_tableau : (lraOf ex1).tableau = [(2, ⟨[(0, ⟨1, 1⟩), (1, ⟨2, 1⟩)], ⟨0, 1⟩⟩)] := by decide +kernel
theorem ex2_tableau : (lraOf ex2).tableau = [(2, ⟨[(0, ⟨1, 1⟩), (1, ⟨2, 1⟩)], ⟨0, 1⟩⟩)] := by decide +kernel
theorem ex3_tableau : (lraOf ex3).tableau = [(2, ⟨[(0, ⟨1, 1⟩), (1, ⟨2, 1⟩)], ⟨0, 1⟩⟩),
    (3, ⟨[(0, ⟨2, 1⟩), (1, ⟨4, 1⟩)], ⟨0, 1⟩⟩)] := by decide +kernel

theorem ex1_rows (σ : Nat → Rat) : RowsS (lraOf ex1) σ ↔ σ 2 = σ 0 + 2 * σ 1 := by
  unfold RowsS
  rw [ex1_tableau]
  simp only [List.mem_cons, List.not_mem_nil, or_false, forall_eq]
  norm_num [Lin.evalS, R.toRat]
theorem ex2_rows (σ : Nat → Rat) : RowsS (lraOf ex2) σ ↔ σ 2 = σ 0 + 2 * σ 1 := by
  unfold RowsS
  rw [ex2_tableau]
  simp only [List.mem_cons, List.not_mem_nil, or_false, forall_eq]
  norm_num [Lin.evalS, R.toRat]
theorem ex3_rows (σ : Nat → Rat) : RowsS (lraOf ex3) σ ↔ (σ 2 = σ 0 + 2 * σ 1 ∧ σ 3 = 2 * σ 0 + 4 * σ 1) := by
  unfold RowsS
  rw [ex3_tableau]
  simp only [List.mem_cons, List.not_mem_nil, or_false, forall_eq_or_imp, forall_eq]
  norm_num [Lin.evalS, R.toRat]
theorem exTB_rows (σ : Nat → Rat) : RowsS exTB σ ↔ σ 2 = σ 0 + 2 * σ 1 := ex1_rows σ
theorem exT2_rows (σ : Nat → Rat) : RowsS exT2 σ := fun _ he => absurd he List.not_mem_nil

theorem ex1_asrt : ((lraOf ex1).asrtOf 1).map (fun a => (a.o, a.x, a.v)) = some (.leq, 2, ⟨⟨3, 1⟩, ⟨0, 1⟩⟩) := by
  decide +kernel
theorem ex3_asrt : ((lraOf ex3).asrtOf 2).map (fun a => (a.o, a.x, a.v)) = some (.leq, 3, ⟨⟨6, 1⟩, ⟨-1, 1⟩⟩) := by
  decide +kernel

theorem exT2_inBounds (σ : Nat → Rat) : InBounds exT2 σ := by
  intro x hx
  have h2 : x < 2 := hx
  have hl : exT2.lb x = IR.ofR R.ninf := by
    match x, h2 with
    | 0, _ => decide +kernel
    | 1, _ => decide +kernel
  have hu : exT2.ub x = IR.ofR R.pinf := by
    match x, h2 with
    | 0, _ => decide +kernel
    | 1, _ => decide +kernel
  rw [hl, hu]
  exact ⟨Or.inl rfl, Or.inl rfl⟩

theorem fin3 : R.FinWF (⟨3, 1⟩ : R) := ⟨by decide, by decide⟩

theorem exTB_inBounds (σ : Nat → Rat) : InBounds exTB σ ↔ σ 2 ≤ 3 := by
  have hl : ∀ x, x < 3 → exTB.lb x = IR.ofR R.ninf := by
    intro x hx
    match x, hx with
    | 0, _ => decide +kernel
    | 1, _ => decide +kernel
    | 2, _ => decide +kernel
  have hu0 : exTB.ub 0 = IR.ofR R.pinf := by decide +kernel
  have hu1 : exTB.ub 1 = IR.ofR R.pinf := by decide +kernel
  have hu2 : exTB.ub 2 = ⟨⟨3, 1⟩, ⟨0, 1⟩⟩ := by decide +kernel
  have h3 : IRAbove (⟨⟨3, 1⟩, ⟨0, 1⟩⟩ : IR) (σ 2) ↔ σ 2 ≤ 3 := by
    rw [irAbove_reading (b := ⟨⟨3, 1⟩, ⟨0, 1⟩⟩) fin3]
    norm_num [R.toRat]
  constructor
  · intro h
    have := (h 2 (by rw [exTB_len]; decide)).2
    rw [hu2] at this
    exact h3.1 this
  · intro h x hx
    rw [exTB_len] at hx
    refine ⟨by rw [hl x hx]; exact Or.inl rfl, ?_⟩
    match x, hx with
    | 0, _ => rw [hu0]; exact Or.inl rfl
    | 1, _ => rw [hu1]; exact Or.inl rfl
    | 2, _ => rw [hu2]; exact h3.2 h

theorem ex7_some : ∃ s' t' bs, ex7 = some (⟨3, true⟩, s', t', bs) := by
  have h1 : ex7.isSome = true := by decide +kernel
  have h2 : ex7.map (·.1) = some ⟨3, true⟩ := by decide +kernel
  cases h : ex7 with
  | none => rw [h] at h1; cases h1
  | some p =>
    obtain ⟨l, s', t', bs⟩ := p
    rw [h] at h2
    simp only [Option.map_some, Option.some.injEq] at h2
    subst h2
    exact ⟨_, _, _, rfl⟩

theorem exS2m0_wf : exS2m0.WF := wf2 0 2 (by decide) _ _ _ (by decide) (by decide) (by decide)
theorem exK0_wf : exK0.WF := wf0 _ (by decide)

theorem ex8_some : ex8 = some (⟨1, true⟩, satOf ex8, lraOf ex8, some 1) := by
  have h := some_of_isSome ex8 (by decide +kernel)
  have h1 : litOf ex8 = ⟨1, true⟩ := by decide +kernel
  have h2 : bOf ex8 = some 1 := by decide +kernel
  rw [h1, h2] at h
  exact h

theorem ex8_tableau : (lraOf ex8).tableau = [] := by decide +kernel
theorem ex8_asrt : ((lraOf ex8).asrtOf 1).map (fun a => (a.o, a.x, a.v)) = some (.leq, 0, ⟨⟨3, 1⟩, ⟨0, 1⟩⟩) := by
  decide +kernel

theorem ex9_some : ex9 = some (⟨2, true⟩, satOf ex9, lraOf ex9, some 2) := by
  have h := some_of_isSome ex9 (by decide +kernel)
  have h1 : litOf ex9 = ⟨2, true⟩ := by decide +kernel
  have h2 : bOf ex9 = some 2 := by decide +kernel
  rw [h1, h2] at h
  exact h

theorem ex9_tableau : (lraOf ex9).tableau = [(2, ⟨[(0, ⟨1, 1⟩), (1, ⟨2, 1⟩)], ⟨0, 1⟩⟩),
    (3, ⟨[(1, ⟨2, 1⟩)], ⟨0, 1⟩⟩)] := by decide +kernel
theorem ex9_rows (σ : Nat → Rat) : RowsS (lraOf ex9) σ ↔ (σ 2 = σ 0 + 2 * σ 1 ∧ σ 3 = 2 * σ 1) := by
  unfold RowsS
  rw [ex9_tableau]
  simp only [List.mem_cons, List.not_mem_nil, or_false, forall_eq_or_imp, forall_eq]
  norm_num [Lin.evalS, R.toRat]
theorem ex9_asrt : ((lraOf ex9).asrtOf 2).map (fun a => (a.o, a.x, a.v)) = some (.geq, 3, ⟨⟨0, 1⟩, ⟨0, 1⟩⟩) := by
  decide +kernel

/-- `0·x0 ≥ 1` holds for no valuation -/
theorem exZ0_never (σ : Nat → Rat) : ¬ RelHolds .geq (Lin.evalS exZ0 σ) (Lin.evalS exK1 σ) := by
  norm_num [RelHolds, Lin.evalS, exZ0, exK1, R.toRat]

end Lra
end Oratio
