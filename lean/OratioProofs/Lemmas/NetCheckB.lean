/-
C07NC (soundness of `Net.check`), part B: opening a decision level for a literal that is ALREADY ASSIGNED,
`popTo` under the bounded invariant, and the loop of `check(lits)`.
-/
import OratioProofs.Lemmas.NetCheckA
import OratioProofs.Lemmas.NetInvC

set_option linter.unusedSimpArgs false
set_option linter.unusedVariables false

namespace Oratio
namespace NetCheck
open Sat Net

/-! ### opening a level -/

/-- the decisions of the first `m` levels are not touched by a level opened above level `m` -/
theorem decOK_pushLevel {m : Nat} {s : Sat} (h : s.DecOK m) (hm : m ≤ s.decisions.length) (p : Lit) :
    (s.pushLevel p).DecOK m := by
  intro a d b hd hb
  change p :: s.decisions = a ++ d :: b at hd
  cases a with
  | nil =>
    simp only [List.nil_append, List.cons.injEq] at hd
    obtain ⟨_, e2⟩ := hd
    rw [e2] at hm
    omega
  | cons x a' =>
    simp only [List.cons_append, List.cons.injEq] at hd
    exact h a' d b hd.2 hb

theorem SInvB.pushLevel {m : Nat} {orig K : Cnf} {s : Sat} (h : SInvB m orig K s) (hq : s.queue = [])
    (hm : m ≤ s.decisionLevel) (p : Lit) : SInvB m orig K (s.pushLevel p) :=
  ⟨h.wf.pushLevel hq p, h.ent.pushLevel h.wf.a p, decOK_pushLevel h.dec (by rw [h.wf.a.decLen]; exact hm) p⟩

/-- the network when `assume(p)` has opened the level and pushed the theories, before `enqueue` -/
def pushStart (n : Net) (p : Lit) : Net :=
  { n with sat := n.sat.pushLevel p, lra := n.lra.push, idl := n.idl.push, rdl := n.rdl.push }

/-- the network on which `assume(p)` calls `propagate` (when `enqueue` answers `true`): `pushStart` with `p`
    enqueued if it was unassigned, `pushStart` itself if `p` was already true -/
def startOf (n : Net) (p : Lit) : Net :=
  { pushStart n p with sat := ((n.sat.pushLevel p).enqueue p none).2 }

theorem assume_unfold (n : Net) (p : Lit) (fuel : Nat) : n.assume p fuel =
    match (n.sat.pushLevel p).enqueue p none with
    | (false, s) => some (false, { pushStart n p with sat := s })
    | (true, s) => Net.propagate { pushStart n p with sat := s } fuel := rfl

theorem startOf_none {n : Net} {p : Lit} (hv : n.sat.value p = none) : startOf n p = assumeStart n p := by
  have hv' : (n.sat.pushLevel p).value p = none := hv
  unfold startOf
  rw [enqueue_none none hv']
  rfl

theorem startOf_some {n : Net} {p : Lit} {b : Bool} (hv : n.sat.value p = some b) : startOf n p = pushStart n p := by
  have hv' : (n.sat.pushLevel p).value p = some b := hv
  unfold startOf
  rw [enqueue_some none hv']
  rfl

theorem assume_true {n : Net} {p : Lit} (hv : n.sat.value p = some true) (fuel : Nat) :
    n.assume p fuel = Net.propagate (pushStart n p) fuel := by
  have hv' : (n.sat.pushLevel p).value p = some true := hv
  rw [assume_unfold, enqueue_some none hv']
  rfl

theorem assume_false {n : Net} {p : Lit} (hv : n.sat.value p = some false) (fuel : Nat) :
    n.assume p fuel = some (false, pushStart n p) := by
  have hv' : (n.sat.pushLevel p).value p = some false := hv
  rw [assume_unfold, enqueue_some none hv']
  rfl

/-- the level is opened (whatever the value of `p`): the bounded invariant is kept, with the new ghost frame -/
theorem NetInvB.pushStart {m : Nat} {n : Net} {orig L : Cnf} {fr : List Frame} (h : NetInvB m n orig L fr)
    (hq : n.sat.queue = []) (hm : m ≤ n.sat.decisionLevel) (p : Lit) :
    NetInvB m (pushStart n p) orig L (⟨n.sat, n.lra, n.idl, n.rdl⟩ :: fr) := by
  have k1 : AssignedKeep n.sat (n.sat.pushLevel p) := fun v b hv => ⟨hv, rfl⟩
  refine ⟨h.sat.pushLevel hq hm p, fun c hc => TEntails.congr (fun α hm => (tmodel_push n _ α).1 hm) (h.lemmas c hc),
    h.th.push _ k1.le, ⟨fun v b hb => ?_, FramesLv.keep k1 fr h.flv⟩, ?_, ?_⟩
  · refine ⟨hb, ?_⟩
    show n.sat.level.getD v 0 ≤ fr.length
    rw [h.flen]
    rcases h.sat.wf.a.valTrail v b hb with rfl | ht
    · rw [h.sat.wf.lvl0]; omega
    · exact h.sat.wf.a.lvl_le ht
  · show fr.length + 1 = (n.sat.trail.length :: n.sat.trailLim).length
    rw [List.length_cons, h.flen]; rfl
  · show ThReg n.sat.vals.length n.lra.push n.idl.push n.rdl.push
    exact ⟨h.reg.lra, h.reg.idl, h.reg.rdl, Lra.step_good (n.sat, n.lra) .push h.reg.good trivial, h.reg.aw, h.reg.sa⟩

/-- ... and the decision enqueued, when it was unassigned (`NetInv.atAssume`) -/
theorem NetInvB.atAssume {m : Nat} {n : Net} {orig L : Cnf} {fr : List Frame} (h : NetInvB m n orig L fr)
    (hq : n.sat.queue = []) (hm : m ≤ n.sat.decisionLevel) {p : Lit} (hv : n.sat.value p = none)
    (hp : p.var < n.sat.vals.length) :
    NetInvB m (assumeStart n p) orig L (⟨n.sat, n.lra, n.idl, n.rdl⟩ :: fr) := by
  have h1 := h.pushStart hq hm p
  have hw := h1.sat.wf
  have hv' : (n.sat.pushLevel p).value p = none := hv
  have hlt' : p.var < (n.sat.pushLevel p).vals.length := hp
  have hw2 : ((n.sat.pushLevel p).enq p none).WfS := by
    refine hw.enq hv' hlt' (fun _ => Or.inr ?_) (fun id e => by cases e)
    intro x hx
    have := h.sat.wf.a.lvl_le hx
    show n.sat.lvl x < (n.sat.trail.length :: n.sat.trailLim).length
    simp only [List.length_cons]
    exact Nat.lt_succ_of_le this
  have hs2 : SInvB m (orig ++ L) orig ((n.sat.pushLevel p).enq p none) :=
    ⟨hw2, h1.sat.ent.enq hw.a hv' hlt' (Ents.of_mem (by
        apply List.mem_append_right
        simp [units, Sat.pushLevel])), h1.sat.dec.enq hw.a hv'⟩
  have hk : AssignedKeep (n.sat.pushLevel p) ((n.sat.pushLevel p).enq p none) := by
    apply assignedKeep_of_trail hw hw2.lvl0
    · intro v b hb
      have hne : v ≠ p.var := by
        intro e
        have h0 : (n.sat.pushLevel p).vals.getD p.var none = none := value_eq_none.1 hv'
        have hb' : (n.sat.pushLevel p).vals.getD v none = some b := hb
        rw [e, h0] at hb'; cases hb'
      show (((n.sat.pushLevel p).enq p none).vals).getD v none = some b
      simp only [enq]
      rw [getD_set_ne _ _ _ _ _ (Ne.symm hne)]; exact hb
    · intro x hx
      exact enq_lvl_ne (hw.a.trail_var_ne hx hv')
  exact h1.setSat _ hs2 hk rfl (by simp only [enq, List.length_set]; rfl)

/-! ### `popTo` -/

theorem NetInvB.popTo {m : Nat} {n : Net} {orig L : Cnf} {fr : List Frame} (h : NetInvB m n orig L fr)
    (hq : n.sat.queue = []) (lvl : Nat) :
    ∃ fr', NetInvB m (Net.popTo n lvl) orig L fr' ∧ PopFacts n.sat (Net.popTo n lvl).sat lvl := by
  obtain ⟨fr', t1, t2, t3⟩ := ThInv.popTo_goLv lvl n.sat.decisionLevel n fr h.th h.sat.wf hq h.flv h.flen
  have hps : (Net.popTo n lvl).sat = n.sat.popTo lvl := popTo_sat n lvl
  have hlem : ∀ c ∈ L, TEntails (Net.popTo n lvl) orig c :=
    fun c hc => TEntails.congr (fun α hm => (TModel.popTo n lvl α).1 hm) (h.lemmas c hc)
  by_cases hlt : lvl < n.sat.decisionLevel
  · obtain ⟨w1, w2, w3, w4, w5⟩ := wfs_popTo (m := m) h.sat.wf h.sat.ent h.sat.dec hq lvl hlt
    refine ⟨fr', ⟨by rw [hps]; exact ⟨w1, w2, w3⟩, hlem, t1, t2, t3, ?_⟩, ?_⟩
    · show ThReg (Net.popTo n lvl).sat.vals.length _ _ _
      rw [hps, w4.lenVals]
      exact ThReg.popTo_go lvl _ n h.reg
    · rw [hps]
      refine ⟨w4.queue, w4.dead, by rw [w5]; omega, fun x hx hl => ?_⟩
      have hk := w4.kept x hx (by rw [w5]; exact hl)
      exact ⟨hk, (w4.mem x hk).2.1⟩
  · have hid : n.sat.popTo lvl = n.sat := popTo_of_le _ _ (by omega)
    refine ⟨fr', ⟨by rw [hps, hid]; exact h.sat, hlem, t1, t2, t3, ?_⟩, ?_⟩
    · show ThReg (Net.popTo n lvl).sat.vals.length _ _ _
      rw [hps, hid]
      exact ThReg.popTo_go lvl _ n h.reg
    · rw [hps, hid]
      exact ⟨rfl, rfl, by omega, fun x hx _ => ⟨hx, rfl⟩⟩

/-- what `check` guarantees of the network it returns -/
structure CheckOut (rl : Nat) (n n' : Net) (orig : Cnf) : Prop where
  inv : ∃ L' fr', NetInv n' orig L' fr'
  queue : n'.sat.queue = []
  level : n'.sat.decisionLevel ≤ rl
  tm : ∀ α, TModel n' α ↔ TModel n α

/-- every exit of the loop: `popTo rl` from a network satisfying the invariant bounded by `rl` -/
theorem exit_ok {rl : Nat} {n : Net} {orig L : Cnf} {fr : List Frame} (h : NetInvB rl n orig L fr)
    (hq : n.sat.queue = []) : CheckOut rl n (Net.popTo n rl) orig := by
  obtain ⟨fr', h1, pf⟩ := h.popTo hq rl
  have hl : (Net.popTo n rl).sat.decisionLevel ≤ rl := by rw [pf.level]; omega
  exact ⟨⟨L, fr', h1.toInv hl⟩, by rw [pf.queue]; exact hq, hl, TModel.popTo n rl⟩

theorem CheckOut.trans {rl : Nat} {n n1 n' : Net} {orig : Cnf} (h : CheckOut rl n1 n' orig)
    (ht : ∀ α, TModel n1 α ↔ TModel n α) : CheckOut rl n n' orig :=
  ⟨h.inv, h.queue, h.level, fun α => (h.tm α).trans (ht α)⟩

/-! ### the loop -/

/-- the side conditions of `check(lits)` (same recursion as `Net.check.go`): each literal names an existing
    variable, and `ConflictsCurrent` (the side condition of `C07N_propagate_sound`: every `lra.check` conflict found
    above root level cites a literal of the current level) for the two calls of `propagate` of each round:
    the one inside `assume` - on `startOf n p`, if `p` is not already false - and the one after it -/
def CheckGuard (fuel : Nat) : Net → List Lit → Prop
  | _, [] => True
  | n, p :: ps =>
    p.var < n.sat.nvars ∧ (n.sat.value p ≠ some false → ConflictsCurrent (startOf n p) fuel) ∧
    match n.assume p fuel with
    | some (true, n1) =>
      ConflictsCurrent n1 fuel ∧
      match n1.propagate fuel with
      | some (true, n2) => n.sat.decisionLevel < n2.sat.decisionLevel → CheckGuard fuel n2 ps
      | _ => True
    | _ => True

/-- `assume(p)` on a network satisfying the bounded invariant, whatever the value of `p` -/
theorem assume_any {m : Nat} {n : Net} {orig L : Cnf} {fr : List Frame} (h : NetInvB m n orig L fr)
    (hq : n.sat.queue = []) (hd : n.sat.dead = false) (hm : m ≤ n.sat.decisionLevel) (p : Lit) (hp : p.var < n.sat.nvars)
    (fuel : Nat) (hg : n.sat.value p ≠ some false → ConflictsCurrent (startOf n p) fuel) (b : Bool) (n' : Net)
    (he : n.assume p fuel = some (b, n')) :
    (∃ L' fr', NetInvB m n' orig L' fr') ∧ n'.sat.queue = [] ∧ (b = true → n'.sat.dead = false) ∧
      (∀ α, TModel n' α ↔ TModel n α) := by
  cases hv : n.sat.value p with
  | none =>
    have hg' := hg (by rw [hv]; intro e; cases e)
    rw [startOf_none hv] at hg'
    rw [assume_eq hv] at he
    have r := propagate_invB fuel _ _ _ (h.atAssume hq hm hv hp) hd hg' b n' he
    exact ⟨r.inv, r.queue, fun hb => by rw [r.dead, hb]; rfl, fun α => (r.tm α).trans (tmodel_push n _ α)⟩
  | some v =>
    cases v with
    | true =>
      have hg' := hg (by rw [hv]; intro e; cases e)
      rw [startOf_some hv] at hg'
      rw [assume_true hv] at he
      have r := propagate_invB fuel _ _ _ (h.pushStart hq hm p) hd hg' b n' he
      exact ⟨r.inv, r.queue, fun hb => by rw [r.dead, hb]; rfl, fun α => (r.tm α).trans (tmodel_push n _ α)⟩
    | false =>
      rw [assume_false hv] at he
      simp only [Option.some.injEq, Prod.mk.injEq] at he
      obtain ⟨rfl, rfl⟩ := he
      exact ⟨⟨_, _, h.pushStart hq hm p⟩, hq, (fun e => by cases e), fun α => tmodel_push n _ α⟩

/-- the loop of `check(lits)` -/
theorem go_ok {orig : Cnf} (fuel rl : Nat) : ∀ (ls : List Lit) (n : Net) (L : Cnf) (fr : List Frame),
    NetInvB rl n orig L fr → n.sat.queue = [] → n.sat.dead = false → rl ≤ n.sat.decisionLevel →
    CheckGuard fuel n ls → ∀ b n', Net.check.go fuel rl n ls = some (b, n') → CheckOut rl n n' orig
  | [], n, L, fr, h, hq, _, _, _, b, n', he => by
    unfold Net.check.go at he
    simp only [Option.some.injEq, Prod.mk.injEq] at he
    obtain ⟨_, rfl⟩ := he
    exact exit_ok h hq
  | p :: ps, n, L, fr, h, hq, hd, hm, hg, b, n', he => by
    unfold Net.check.go at he
    unfold CheckGuard at hg
    obtain ⟨g0, g1, g2⟩ := hg
    cases ha : n.assume p fuel with
    | none => rw [ha] at he; simp at he
    | some res =>
      obtain ⟨b1, n1⟩ := res
      rw [ha] at he g2
      obtain ⟨⟨L1, fr1, i1⟩, q1, d1, t1⟩ := assume_any h hq hd hm p g0 fuel g1 b1 n1 ha
      cases b1 with
      | false =>
        simp only [Option.some.injEq, Prod.mk.injEq] at he
        obtain ⟨_, rfl⟩ := he
        exact (exit_ok i1 q1).trans t1
      | true =>
        simp only at he g2
        obtain ⟨g3, g4⟩ := g2
        cases hpr : n1.propagate fuel with
        | none => rw [hpr] at he; simp at he
        | some res2 =>
          obtain ⟨b2, n2⟩ := res2
          rw [hpr] at he g4
          have r := propagate_invB fuel n1 L1 fr1 i1 (d1 rfl) g3 b2 n2 hpr
          obtain ⟨L2, fr2, i2⟩ := r.inv
          have t2 : ∀ α, TModel n2 α ↔ TModel n α := fun α => (r.tm α).trans (t1 α)
          cases b2 with
          | false =>
            simp only [Option.some.injEq, Prod.mk.injEq] at he
            obtain ⟨_, rfl⟩ := he
            exact (exit_ok i2 r.queue).trans t2
          | true =>
            simp only at he g4
            by_cases hle : n2.sat.decisionLevel ≤ n.sat.decisionLevel
            · rw [if_pos hle] at he
              simp only [Option.some.injEq, Prod.mk.injEq] at he
              obtain ⟨_, rfl⟩ := he
              exact (exit_ok i2 r.queue).trans t2
            · rw [if_neg hle] at he
              exact (go_ok fuel rl ps n2 L2 fr2 i2 r.queue (by rw [r.dead]; rfl) (by omega) (g4 (by omega)) b n' he).trans t2

end NetCheck
end Oratio
