/-
C08: `sat_core::pop()` — the two statements about the SAT core, from the `popN` lemmas of C07.
-/
import OratioModel
import OratioProofs.Lemmas.SatCorePop

set_option linter.unusedSimpArgs false
set_option linter.unusedVariables false

namespace Oratio
namespace Undo

theorem set_set_self {β : Type} (l : List β) (v : Nat) (x y d : β) (hv : v < l.length) (hx : l.getD v d = x) :
    (l.set v y).set v x = l := by
  rw [List.set_set]
  apply List.ext_getElem?
  intro n
  rw [List.getElem?_set]
  split
  · rename_i h; subst h
    rw [List.getD_eq_getElem?_getD, List.getElem?_eq_getElem hv] at hx
    simp only [Option.getD_some] at hx
    simp [hv, hx]
  · rfl

theorem value_none {s : Sat} {p : Lit} (hv : s.value p = none) : s.vals.getD p.var none = none := by
  unfold Sat.value litValue at hv
  split at hv
  · assumption
  · cases hv

theorem sat_pop_exact (s : Sat) (lim : Nat) (lims : List Nat) (h : s.trailLim = lim :: lims) :
    let s' := s.pop
    s'.trail = s.trail.drop (s.trail.length - lim) ∧ s'.trailLim = lims ∧ s'.decisions = s.decisions.drop 1 ∧
    s'.cls = s.cls ∧ s'.watches = s.watches ∧
    (∀ v, (∃ l ∈ s.trail.take (s.trail.length - lim), l.var = v) → s'.vals.getD v none = none) ∧
    (∀ v, (∀ l ∈ s.trail.take (s.trail.length - lim), l.var ≠ v) →
        s'.vals.getD v none = s.vals.getD v none ∧ s'.level.getD v 0 = s.level.getD v 0 ∧ s'.reason.getD v none = s.reason.getD v none) := by
  intro s'
  obtain ⟨hp, h2, h3⟩ := Sat.pop_spec h
  refine ⟨hp.trail, h2, h3, hp.cls, hp.watches, ?_, fun v hv => hp.keep v hv⟩
  rintro v ⟨l, hl, rfl⟩
  exact hp.gone l hl

theorem sat_assume_pop (s : Sat) (p : Lit) (hv : s.value p = none) (hp : p.var < s.vals.length)
    (hlen : s.level.length = s.vals.length ∧ s.reason.length = s.vals.length)
    (hz : s.level.getD p.var 0 = 0 ∧ s.reason.getD p.var none = none) :
    let s1 : Sat := { s with trailLim := s.trail.length :: s.trailLim, decisions := p :: s.decisions }
    let s2 := (s1.enqueue p none).2
    let s3 := ({ s2 with queue := [] } : Sat).pop
    s3.vals = s.vals ∧ s3.level = s.level ∧ s3.reason = s.reason ∧ s3.trail = s.trail ∧ s3.trailLim = s.trailLim ∧
    s3.decisions = s.decisions ∧ s3.cls = s.cls := by
  intro s1 s2 s3
  have hv1 : s1.value p = none := hv
  have e2 : s2 = { s1 with vals := s1.vals.set p.var (some p.sign), level := s1.level.set p.var s1.decisionLevel, reason := s1.reason.set p.var none, trail := p :: s1.trail, queue := s1.queue ++ [p] } := by
    show (s1.enqueue p none).2 = _
    unfold Sat.enqueue
    rw [hv1]
  have hlim : ({ s2 with queue := [] } : Sat).trailLim = s.trail.length :: s.trailLim := by rw [e2]
  have e3 : s3 = _ := Sat.pop_eq hlim
  have htr : ({ s2 with queue := [] } : Sat).trail = p :: s.trail := by rw [e2]
  rw [htr] at e3
  have h1 : (p :: s.trail).length - s.trail.length = 1 := by simp
  rw [h1] at e3
  rw [e3, e2]
  simp only [Sat.popN, Sat.popOne, List.drop_one, List.tail_cons]
  refine ⟨?_, ?_, ?_, trivial, trivial, rfl, rfl⟩
  · exact set_set_self _ _ _ _ none hp (value_none hv)
  · exact set_set_self _ _ _ _ 0 (hlen.1 ▸ hp) hz.1
  · exact set_set_self _ _ _ _ none (hlen.2 ▸ hp) hz.2

end Undo
end Oratio
