/-
C07NC, the answer `false` of `check(lits)` (partial): the exits "a literal is already false when it is assumed"
(relative to the decisions standing at that round) and "an inner `propagate` answered `false`" (the returned
network is dead).  See Properties/C07NetCheckNeg.lean for what is covered and what is not.
-/
import OratioProofs.Lemmas.NetCheckB
import OratioProofs.Properties.C07

set_option linter.unusedSimpArgs false
set_option linter.unusedVariables false

namespace Oratio
namespace NetCheck
open Sat Net

/-- a literal that is false in a sound network cannot be added as a unit to the added clauses and the standing
    decisions: the result is T-unsatisfiable -/
theorem false_lit_unsat {n : Net} {orig : Cnf} (hs : NetSound n orig) (hw : n.sat.WfS) {p : Lit}
    (hv : n.sat.value p = some false) (ps : List Lit) :
    TUnsat n (orig ++ unitsOf n.sat.decisions ++ unitsOf (p :: ps)) := by
  intro α h0 hm
  cases hF : α.cnf (orig ++ unitsOf n.sat.decisions ++ unitsOf (p :: ps)) with
  | false => rfl
  | true =>
    exfalso
    rw [Asg.cnf_append, Bool.and_eq_true] at hF
    obtain ⟨hF1, hF2⟩ := hF
    have hp : α.lit p = true := by
      simp only [unitsOf, List.map_cons, Asg.cnf, List.all_cons, Bool.and_eq_true, Asg.clause, List.any_cons,
        List.any_nil, Bool.or_false] at hF2
      exact hF2.1
    rcases hw.a.value_false.1 hv with ht | rfl
    · have := hs.trail _ ht α h0 hF1 hm
      simp only [Asg.clause, List.any_cons, List.any_nil, Bool.or_false] at this
      rw [Asg.lit_neg] at this
      simp [hp] at this
    · simp [Asg.lit, Lit.falseLit, h0] at hp

/-- `check (p :: ps)` when `p` is already false: the level is opened, `enqueue` fails, the level is popped -/
theorem check_first_false {n : Net} {p : Lit} (hv : n.sat.value p = some false) (ps : List Lit) (fuel : Nat) :
    Net.check n (p :: ps) fuel = some (false, Net.popTo (pushStart n p) n.sat.decisionLevel) := by
  show Net.check.go fuel n.sat.decisionLevel n (p :: ps) = _
  rw [Net.check.go, assume_false hv]

/-- the round of the loop in which the literal assumed is already false (any round: `n` is the network at the
    start of that round, satisfying the bounded invariant): T-unsatisfiable with the decisions standing THEN -/
theorem round_false_unsat {m : Nat} {n : Net} {orig L : Cnf} {fr : List Frame} (h : NetInvB m n orig L fr) {p : Lit}
    (hv : n.sat.value p = some false) (ps : List Lit) :
    TUnsat n (orig ++ unitsOf n.sat.decisions ++ unitsOf (p :: ps)) :=
  false_lit_unsat h.sound h.sat.wf hv ps

theorem tunsat_mono {n : Net} {F G : Cnf} (h : TUnsat n F) (hs : ∀ d ∈ F, d ∈ G) : TUnsat n G := by
  intro α h0 hm
  have := h α h0 hm
  cases hG : α.cnf G with
  | false => rfl
  | true =>
    have : α.cnf F = true := by
      simp only [Asg.cnf, List.all_eq_true] at hG ⊢
      exact fun d hd => hG d (hs d hd)
    simp_all

end NetCheck
end Oratio
