/-
C07N, target 4: the reified SAT constructors (`new_eq`, `new_conj`, `new_disj`, `new_at_most_one`,
`new_exct_one`) at root level keep the network invariant; the ghost set grows by the CNF of the
resulting SAT core (as in C07's `Run.step`).  Uses C07's generic `ConsClosed` machinery with the weak
invariant as the "good" predicate.
-/
import OratioProofs.Lemmas.NetCons1

set_option linter.unusedSimpArgs false
set_option linter.unusedVariables false

namespace Oratio
namespace Sat

theorem SInv.remember {orig K : Cnf} {s : Sat} (h : SInv orig K s) (k : Key) (l : Lit) (hl : l.var < s.vals.length) :
    SInv orig K (s.remember k l) := by
  have ha := h.wf.a
  refine ⟨⟨⟨ha.lenLevel, ha.lenReason, ha.val0, ha.trailVal, ha.trailNodup, ha.valTrail, ha.decLen, ha.limLe,
    ha.limSorted, ha.levelOK, ha.queueOK, ha.reasonNone, ?_⟩, h.wf.lvl0, h.wf.idlt, h.wf.ids, h.wf.rng, h.wf.r, h.wf.w⟩,
    h.ent.of_eq rfl rfl rfl rfl rfl rfl, h.dec⟩
  intro e he
  rcases List.mem_append.1 he with he | he
  · exact ha.exprsRange e he
  · simp only [List.mem_singleton] at he; subst he; exact hl

/-- the property kept by the primitives at root level -/
def GoodN (s : Sat) : Prop := (∃ B K, SInv B K s) ∧ s.trailLim = []

theorem goodN_closed : ConsClosed GoodN where
  newVar := fun s ⟨⟨B, K, h⟩, hr⟩ => ⟨⟨B, K, h.newVar⟩, hr⟩
  newClause := fun s c ⟨⟨B, K, h⟩, hr⟩ hc =>
    ⟨⟨_, _, (newClause_sinv h hr c hc).1⟩, (newClause_sinv h hr c hc).2.2.1⟩
  remember := fun s k l ⟨⟨B, K, h⟩, hr⟩ hl => ⟨⟨B, K, h.remember k l hl⟩, hr⟩
  cache := fun s ⟨⟨B, K, h⟩, _⟩ => h.wf.a.exprsRange
  val0 := fun s ⟨⟨B, K, h⟩, _⟩ => h.wf.a.val0

theorem satLe_of_trail {s s' : Sat} (ha : s.WfA) (ha' : s'.WfA) (ht : ∀ l ∈ s.trail, l ∈ s'.trail) : Dl.SatLe s s' := by
  intro v b hv
  rcases ha.valTrail v b hv with rfl | hm
  · rw [ha.val0] at hv; rw [ha'.val0]; exact hv
  · exact (ha'.trailVal _ (ht _ hm)).1

/-- the ghost clause set after a constructor call (port of C07's `ent_of_cons`) -/
theorem ent_of_consN {orig K : Cnf} {s s' : Sat} (hwa : s'.WfA) (hroot : s'.trailLim = []) (hE : s.Ent orig K)
    (hf : ConsFrame s s') (hd : s.dead = false) : s'.Ent (orig ++ s'.toEnc.cnf) (K ++ s'.toEnc.cnf) := by
  have hsub : ∀ d ∈ orig, d ∈ orig ++ s'.toEnc.cnf := fun d hd' => List.mem_append_left _ hd'
  refine ⟨?_, ?_, ?_, ?_, ?_⟩
  · intro e he
    apply Ents.of_mem
    apply List.mem_append_right
    simp only [Enc.cnf, toEnc]
    exact List.mem_append_left _ (List.mem_map.2 ⟨e, he, rfl⟩)
  · intro l hl
    apply Ents.of_mem
    apply List.mem_append_left
    apply List.mem_append_right
    simp only [Enc.cnf]
    apply List.mem_append_right
    have := mem_enc_units (s := s'.toEnc) (v := l.var) (b := l.sign) (hwa.trailVal l hl).1
    exact this
  · intro c hc
    rw [hf.log] at hc
    exact (hE.log c hc).mono hsub
  · intro hd'; rw [hf.dead, hd] at hd'; cases hd'
  · intro _ α h0 hcl hroots
    rw [Asg.cnf_append]
    have hroot0 : ∀ l ∈ s'.trail, α.lit l = true := fun l hl => hroots l hl (hwa.root_lvl hroot hl)
    have h1 : α.cnf K = true := by
      apply hE.keeps hd α h0
      · simp only [Asg.cnf, List.all_map, List.all_eq_true, Function.comp] at hcl ⊢
        exact fun e he => hcl e (hf.cls e he)
      · intro l hl _
        exact hroot0 l (hf.trail l hl)
    rw [h1]
    simp only [Enc.cnf, toEnc, Bool.true_and, Asg.cnf_append, Bool.and_eq_true]
    refine ⟨hcl, ?_⟩
    simp only [Asg.cnf, List.all_eq_true]
    intro c hc
    obtain ⟨v, b, hv, rfl⟩ := of_mem_enc_units hc
    simp only [Asg.clause, List.any_cons, List.any_nil, Bool.or_false]
    rcases hwa.valTrail v b hv with rfl | ht
    · have : b = false := by
        have := hwa.val0
        simp only [toEnc] at hv
        rw [this] at hv; simpa using hv.symm
      subst this
      simp [Asg.lit, h0]
    · exact hroot0 _ ht

end Sat

namespace Net
open Sat

/-- a constructor call of the SAT core at root level: the SAT core goes from `n.sat` to a state `s'` with
    `GoodN s'` and `ConsFrame n.sat s'`; the ghost set grows by the CNF of `s'` -/
theorem NetInv.consSat {n : Net} {orig L : Cnf} {fr : List Frame} (h : NetInv n orig L fr) (hroot : n.sat.trailLim = [])
    (hd : n.sat.dead = false) {s' : Sat} (hg : GoodN s') (hf : ConsFrame n.sat s') :
    NetInv { n with sat := s' } (orig ++ s'.toEnc.cnf) L [] := by
  have hfr := h.root_frames hroot
  subst hfr
  obtain ⟨⟨B, K, hs'⟩, hroot'⟩ := hg
  have hb : ThBase (orig ++ L) n.sat n.lra n.idl n.rdl := h.th
  have hle : Dl.SatLe n.sat s' := satLe_of_trail h.sat.wf.a hs'.wf.a hf.trail
  have hsub : ∀ d ∈ orig, d ∈ orig ++ s'.toEnc.cnf := fun d hd' => List.mem_append_left _ hd'
  have hent := ent_of_consN hs'.wf.a hroot' h.sat.ent hf hd
  refine NetInv.ofRoot (n := { n with sat := s' }) ⟨hs'.wf, hent.mono_orig (fun d hd' => ?_), hs'.dec⟩
    (fun d hd' => (h.lemmas d hd').mono_F hsub) ?_ ?_ hroot'
  · rcases List.mem_append.1 hd' with hd' | hd'
    · rcases List.mem_append.1 hd' with hd' | hd'
      · exact List.mem_append_left _ (List.mem_append_left _ hd')
      · exact List.mem_append_right _ hd'
    · exact List.mem_append_left _ (List.mem_append_right _ hd')
  · exact (ThBase.mono_orig (orig := orig ++ L) hb (fun d hd' => by
      rcases List.mem_append.1 hd' with hd' | hd'
      · exact List.mem_append_left _ (List.mem_append_left _ hd')
      · exact List.mem_append_right _ hd')).mono hle
  · exact ThReg.mono h.reg hf.nvars

end Net
end Oratio
