/-
Lemmas for property C12, real-valued instance, part 5: the theorems on the normal form `relOut`
itself, when `newRel` throws, and the end-to-end soundness of a constant answer of
`new_lt / new_leq / new_geq / new_gt` on an exact state (C10Rdl).
-/
import OratioProofs.Lemmas.DlRelREq

namespace Oratio
namespace DlRelR
open Dl DlRel

universe u

/-- the relation-meaning theorem on `relOut` -/
theorem relOut_rdl_meaning (r : Rel) (left right : Lin) (hl : left.WF) (hr : right.WF)
    (hnz : ∀ x c, (Lin.sub left right).vars = [(x, c)] → c.num ≠ 0)
    (σ : Nat → ℚ) (h0 : σ 0 = 0) :
    match relOut rdlOps r left right with
    | .const b => (b = true ↔ relHolds r (Lin.eval left σ) (Lin.eval right σ))
    | .one src dst w => IR.Fin w ∧ w.inf.den = 1 ∧
        (edgeHoldsR σ src dst w ↔ relHolds r (Lin.eval left σ) (Lin.eval right σ))
    | .two s1 d1 w1 s2 d2 w2 => IR.Fin w1 ∧ IR.Fin w2 ∧ w1.inf.den = 1 ∧ w2.inf.den = 1 ∧
        ((edgeHoldsR σ s1 d1 w1 ∧ edgeHoldsR σ s2 d2 w2) ↔ relHolds r (Lin.eval left σ) (Lin.eval right σ))
    | .invalid => True := by
  have e : relOut rdlOps r left right = relOutK rdlOps r left right .const .one .two .invalid := rfl
  have hH : relHolds r (Lin.eval left σ) (Lin.eval right σ) ↔
      holds r (Lin.eval left σ) (Lin.eval right σ) := by
    cases r <;> exact Iff.rfl
  have h := relOutK_rdl_meaning r left right hl hr hnz σ h0 _ hH
  rw [e]
  exact (relOutK_map (fun x : RelOut IR => (match x with
    | .const b => (b = true ↔ relHolds r (Lin.eval left σ) (Lin.eval right σ))
    | .one src dst w => IR.Fin w ∧ w.inf.den = 1 ∧
        (edgeHoldsR σ src dst w ↔ relHolds r (Lin.eval left σ) (Lin.eval right σ))
    | .two s1 d1 w1 s2 d2 w2 => IR.Fin w1 ∧ IR.Fin w2 ∧ w1.inf.den = 1 ∧ w2.inf.den = 1 ∧
        ((edgeHoldsR σ s1 d1 w1 ∧ edgeHoldsR σ s2 d2 w2) ↔ relHolds r (Lin.eval left σ) (Lin.eval right σ))
    | .invalid => True : Prop)) rdlOps r left right .const .one .two .invalid).mpr h

/-- which time points a request constrains: the origin and the variables of the difference;
    a pair of constraints only for an equality -/
theorem tailK_vars {α : Type} (O : DOps α) (P : Nat → Prop) (r : Rel) (flip : Bool) (k : R) (a b : Nat)
    (ha : P a) (hb : P b) :
    tailK O r flip k a b (fun s d _ => P s ∧ P d)
      (fun s1 d1 _ s2 d2 _ => r = .eq ∧ P s1 ∧ P d1 ∧ P s2 ∧ P d2) True := by
  unfold tailK
  cases r <;> dsimp only <;> (try split) <;> (try split) <;> simp [ha, hb]

theorem relOutK_vars {α : Type} (O : DOps α) (r : Rel) (left right : Lin) :
    relOutK O r left right (fun _ => True)
      (fun s d _ => s ∈ (0 :: (Lin.sub left right).vars.map (·.1)) ∧ d ∈ (0 :: (Lin.sub left right).vars.map (·.1)))
      (fun s1 d1 _ s2 d2 _ => r = .eq ∧
        s1 ∈ (0 :: (Lin.sub left right).vars.map (·.1)) ∧ d1 ∈ (0 :: (Lin.sub left right).vars.map (·.1)) ∧
        s2 ∈ (0 :: (Lin.sub left right).vars.map (·.1)) ∧ d2 ∈ (0 :: (Lin.sub left right).vars.map (·.1))) True := by
  unfold relOutK
  generalize Lin.sub left right = e
  obtain ⟨vars, known⟩ := e
  match vars with
  | [] => trivial
  | [(x, c)] =>
    dsimp only
    exact tailK_vars O (fun v => v ∈ (0 :: [(x, c)].map (·.1))) r _ _ x 0 (by simp) (by simp)
  | [(v0, c0), (v1, c1)] =>
    dsimp only
    split
    · trivial
    · exact tailK_vars O (fun v => v ∈ (0 :: [(v0, c0), (v1, c1)].map (·.1))) r _ _ v0 v1 (by simp) (by simp)
  | _ :: _ :: _ :: _ => trivial

theorem relOut_vars (r : Rel) (left right : Lin) :
    match relOut rdlOps r left right with
    | .const _ => True
    | .one s d _ => s ∈ (0 :: (Lin.sub left right).vars.map (·.1)) ∧ d ∈ (0 :: (Lin.sub left right).vars.map (·.1))
    | .two s1 d1 _ s2 d2 _ => r = .eq ∧
        s1 ∈ (0 :: (Lin.sub left right).vars.map (·.1)) ∧ d1 ∈ (0 :: (Lin.sub left right).vars.map (·.1)) ∧
        s2 ∈ (0 :: (Lin.sub left right).vars.map (·.1)) ∧ d2 ∈ (0 :: (Lin.sub left right).vars.map (·.1))
    | .invalid => True := by
  have e : relOut rdlOps r left right = relOutK rdlOps r left right .const .one .two .invalid := rfl
  rw [e]
  exact (relOutK_map (fun x : RelOut IR => (match x with
    | .const _ => True
    | .one s d _ => s ∈ (0 :: (Lin.sub left right).vars.map (·.1)) ∧ d ∈ (0 :: (Lin.sub left right).vars.map (·.1))
    | .two s1 d1 _ s2 d2 _ => r = .eq ∧
        s1 ∈ (0 :: (Lin.sub left right).vars.map (·.1)) ∧ d1 ∈ (0 :: (Lin.sub left right).vars.map (·.1)) ∧
        s2 ∈ (0 :: (Lin.sub left right).vars.map (·.1)) ∧ d2 ∈ (0 :: (Lin.sub left right).vars.map (·.1))
    | .invalid => True : Prop)) rdlOps r left right .const .one .two .invalid).mpr (relOutK_vars rdlOps r left right)

/-- `newRel` throws exactly when the normal form is `invalid` -/
theorem newRel_none_iff {α : Type} (O : DOps α) (nc : Sat → List Lit → Lit × Sat) (s : Sat) (t : Dl α)
    (r : Rel) (left right : Lin) :
    newRel O nc s t r left right = none ↔ (relOut O r left right).isInvalid := by
  rw [C12_newRel_refines]
  cases relOut O r left right with
  | const b => simp [RelOut.isInvalid]
  | one src dst w => simp [RelOut.isInvalid]
  | two s1 d1 w1 s2 d2 w2 =>
    dsimp only
    split <;> simp [RelOut.isInvalid]
  | invalid => simp [RelOut.isInvalid]

theorem lit_true_ne_false : Lit.trueLit ≠ Lit.falseLit := by decide

/-- a constant answer of `new_lt / new_leq / new_geq / new_gt` on an exact state is correct for
    every rational valuation satisfying the enforced constraints -/
theorem newRel_rdl_constant_sound (E : List QEdge) (t : Dl IR) (h : t.ExactR E) (s : Sat) (hs : 0 < s.vals.length)
    (nc : Sat → List Lit → Lit × Sat) (r : Rel) (hne : r ≠ .eq) (left right : Lin) (hl : left.WF) (hr : right.WF)
    (hnz : ∀ x c, (Lin.sub left right).vars = [(x, c)] → c.num ≠ 0)
    (hv : ∀ v ∈ (Lin.sub left right).vars.map (·.1), v < t.nVars)
    (l : Lit) (s' : Sat) (t' : Dl IR) (hnew : newRel rdlOps nc s t r left right = some (l, s', t')) :
    (l = Lit.trueLit → ∀ σ : Nat → ℚ, σ 0 = 0 → (∀ e ∈ E, QEdge.holds (embQ σ) e) →
      relHolds r (Lin.eval left σ) (Lin.eval right σ)) ∧
    (l = Lit.falseLit → ∀ σ : Nat → ℚ, σ 0 = 0 → (∀ e ∈ E, QEdge.holds (embQ σ) e) →
      ¬ relHolds r (Lin.eval left σ) (Lin.eval right σ)) := by
  have hv' : ∀ v ∈ (0 :: (Lin.sub left right).vars.map (·.1)), v < t.nVars := by
    intro v hm
    rcases List.mem_cons.1 hm with rfl | hm
    · exact h.size_ok.1
    · exact hv v hm
  have hm := relOut_rdl_meaning r left right hl hr hnz
  have hvv := relOut_vars r left right
  have href := C12_newRel_refines rdlOps nc s t r left right
  rw [hnew] at href
  cases hro : relOut rdlOps r left right with
  | const b =>
    rw [hro] at href
    simp only [Option.some.injEq, Prod.mk.injEq] at href
    obtain ⟨hlit, -, -⟩ := href
    constructor
    · intro hlt σ h0 _
      have := hm σ h0
      rw [hro] at this
      apply this.1
      cases b
      · rw [hlt] at hlit; exact absurd hlit lit_true_ne_false
      · rfl
    · intro hlf σ h0 _ hrel
      have := hm σ h0
      rw [hro] at this
      have hb : b = true := this.2 hrel
      rw [hb, hlf] at hlit
      exact lit_true_ne_false hlit.symm
  | one src dst w =>
    rw [hro] at href hvv
    simp only [Option.some.injEq] at href
    have hlit : l = (newDistance rdlOps s t src dst w).1 := by rw [← href]
    have hw : IR.Fin w := by
      have := hm (fun _ => 0) rfl
      rw [hro] at this
      exact this.1
    obtain ⟨ht, hf⟩ := C10R_new_distance_shortcut_valid E s t h src dst w (hv' _ hvv.1) (hv' _ hvv.2) hw hs
    constructor
    · intro hlt σ h0 hσ
      have := hm σ h0
      rw [hro] at this
      exact this.2.2.1 (ht (by rw [← hlit]; exact hlt) (embQ σ) hσ)
    · intro hlf σ h0 hσ hrel
      have := hm σ h0
      rw [hro] at this
      exact hf (by rw [← hlit]; exact hlf) (embQ σ) hσ (this.2.2.2 hrel)
  | two s1 d1 w1 s2 d2 w2 =>
    rw [hro] at hvv
    exact absurd hvv.1 hne
  | invalid =>
    rw [hro] at href
    exact absurd href (by simp)

end DlRelR
end Oratio
