/-
Structural lemmas about the LRA model (OratioModel/Net/Lra.lean) used by Properties/C09.lean:
which fields the simplex operations touch, what `check` returns, and the first-write-wins undo log.
-/
import OratioModel

namespace Oratio
namespace Lra

/-! ### the part of the state that `check` never touches -/

/-- bounds, assertions, undo log, expression and assertion tables -/
def c09Core (t : Lra) :
    List LBound × List (Nat × LAsrt) × List (List (Nat × LBound)) × List (String × Nat) × List (String × Lit) :=
  (t.bounds, t.vAsrts, t.layers, t.exprs, t.sAsrts)

theorem C09_core_iff (t u : Lra) :
    u.c09Core = t.c09Core ↔
      (u.bounds = t.bounds ∧ u.vAsrts = t.vAsrts ∧ u.layers = t.layers ∧ u.exprs = t.exprs ∧ u.sAsrts = t.sAsrts) := by
  simp [c09Core, Prod.ext_iff]

/-- a fold keeps an invariant that every step keeps -/
theorem C09_foldl_inv {α β : Type} (P : β → Prop) (f : β → α → β) (hf : ∀ b a, P b → P (f b a)) :
    ∀ (l : List α) (b : β), P b → P (l.foldl f b) := by
  intro l
  induction l with
  | nil => intro b hb; exact hb
  | cons a l ih => intro b hb; exact ih (f b a) (hf b a hb)

theorem C09_foldl_core {α : Type} (f : Lra → α → Lra) (hf : ∀ t a, (f t a).c09Core = t.c09Core) (l : List α) (t : Lra) :
    (l.foldl f t).c09Core = t.c09Core :=
  C09_foldl_inv (fun u => u.c09Core = t.c09Core) f (fun b a hb => (hf b a).trans hb) l t rfl

@[simp] theorem C09_core_setVal (t : Lra) (v : Nat) (x : IR) : (t.setVal v x).c09Core = t.c09Core := rfl
@[simp] theorem C09_core_watchRow (t : Lra) (v r : Nat) : (t.watchRow v r).c09Core = t.c09Core := rfl
@[simp] theorem C09_core_unwatchRow (t : Lra) (v r : Nat) : (t.unwatchRow v r).c09Core = t.c09Core := rfl
@[simp] theorem C09_core_tabSet (t : Lra) (x : Nat) (l : Lin) : (t.tabSet x l).c09Core = t.c09Core := rfl

theorem C09_core_newRow (t : Lra) (x : Nat) (l : Lin) : (t.newRow x l).c09Core = t.c09Core := by
  unfold newRow
  exact (C09_foldl_core _ (fun t (e : Nat × R) => C09_core_watchRow t e.1 x) _ _).trans rfl

theorem C09_core_update (t : Lra) (xi : Nat) (v : IR) : (t.update xi v).c09Core = t.c09Core := by
  unfold update
  exact (C09_core_setVal _ _ _).trans (C09_foldl_core _ (fun t x => C09_core_setVal t x _) _ _)

theorem C09_core_pivotRow (t : Lra) (xj : Nat) (expr : Lin) (r : Nat) : (t.pivotRow xj expr r).c09Core = t.c09Core := by
  unfold pivotRow
  refine (C09_core_tabSet _ _ _).trans ?_
  refine C09_foldl_inv (fun (acc : Lin × Lra) => acc.2.c09Core = t.c09Core) _ ?_ _ _ rfl
  intro acc e hacc
  obtain ⟨rl, u⟩ := acc
  dsimp only at hacc ⊢
  split
  · exact hacc
  · split
    · exact hacc
    · exact hacc

theorem C09_core_pivot (t : Lra) (xi xj : Nat) : (t.pivot xi xj).c09Core = t.c09Core := by
  unfold pivot
  refine (C09_core_newRow _ _ _).trans ?_
  refine (C09_foldl_core _ (fun t r => C09_core_pivotRow t xj _ r) _ _).trans ?_
  refine Eq.trans (b := (List.foldl (fun t e => unwatchRow t e.1 xi)
      { t with tableau := t.tableau.filter (fun e => e.1 != xi) } ((t.rowOf xi).getD Lin.empty).vars).c09Core) rfl ?_
  exact (C09_foldl_core _ (fun t (e : Nat × R) => C09_core_unwatchRow t e.1 xi) _ _).trans rfl

theorem C09_core_pivotAndUpdate (t : Lra) (xi xj : Nat) (v : IR) : (t.pivotAndUpdate xi xj v).c09Core = t.c09Core := by
  unfold pivotAndUpdate
  refine (C09_core_pivot _ _ _).trans ?_
  refine (C09_foldl_core _ ?_ _ _).trans rfl
  intro t x
  dsimp only
  split
  · exact C09_core_setVal _ _ _
  · rfl

theorem C09_core_check (fuel : Nat) : ∀ (t t' : Lra) (c : Option (List Lit)), t.check fuel = some (c, t') →
    t'.c09Core = t.c09Core := by
  induction fuel with
  | zero => intro t t' c h; simp [check] at h
  | succ n ih =>
    intro t t' c h
    simp only [check] at h
    split at h
    · simp only [Option.some.injEq, Prod.mk.injEq] at h; rw [← h.2]
    · split at h
      · split at h
        · exact (ih _ _ _ h).trans (C09_core_pivotAndUpdate _ _ _ _)
        · simp only [Option.some.injEq, Prod.mk.injEq] at h; rw [← h.2]
      · split at h
        · split at h
          · exact (ih _ _ _ h).trans (C09_core_pivotAndUpdate _ _ _ _)
          · simp only [Option.some.injEq, Prod.mk.injEq] at h; rw [← h.2]
        · exact ih _ _ _ h

/-! ### bound assertions -/

theorem C09_saveBound_bounds (t : Lra) (i : Nat) : (t.saveBound i).bounds = t.bounds := by
  unfold saveBound
  split
  · rfl
  · split <;> rfl

theorem C09_update_bounds (t : Lra) (xi : Nat) (v : IR) : (t.update xi v).bounds = t.bounds :=
  congrArg (·.1) (C09_core_update t xi v)

theorem C09_bnd_of_bounds_set (t u : Lra) (k : Nat) (b : LBound) (hu : u.bounds = t.bounds.set k b)
    (hk : k < t.bounds.length) : u.bnd k = b ∧ ∀ i, i ≠ k → u.bnd i = t.bnd i := by
  constructor
  · simp [bnd, hu, List.getD_eq_getElem?_getD, hk]
  · intro i hi
    simp [bnd, hu, List.getD_eq_getElem?_getD, Ne.symm hi]

theorem C09_assertLower_bounds (s : Sat) (t : Lra) (xi : Nat) (val : IR) (p : Lit)
    (h1 : IR.le val (t.lb xi) = false) (h2 : IR.gt val (t.ub xi) = false) :
    (assertLower s t xi val p).th.bounds = t.bounds.set (lbIdx xi) ⟨val, p⟩ := by
  unfold assertLower
  simp only [h1, h2, Bool.false_eq_true, if_false]
  split
  · dsimp only
    split
    · rw [C09_update_bounds]; simp only [setBound, C09_saveBound_bounds]
    · simp only [setBound, C09_saveBound_bounds]
  · dsimp only
    split
    · rw [C09_update_bounds]; simp only [setBound, C09_saveBound_bounds]
    · simp only [setBound, C09_saveBound_bounds]

theorem C09_assertUpper_bounds (s : Sat) (t : Lra) (xi : Nat) (val : IR) (p : Lit)
    (h1 : IR.ge val (t.ub xi) = false) (h2 : IR.lt val (t.lb xi) = false) :
    (assertUpper s t xi val p).th.bounds = t.bounds.set (ubIdx xi) ⟨val, p⟩ := by
  unfold assertUpper
  simp only [h1, h2, Bool.false_eq_true, if_false]
  split
  · dsimp only
    split
    · rw [C09_update_bounds]; simp only [setBound, C09_saveBound_bounds]
    · simp only [setBound, C09_saveBound_bounds]
  · dsimp only
    split
    · rw [C09_update_bounds]; simp only [setBound, C09_saveBound_bounds]
    · simp only [setBound, C09_saveBound_bounds]

theorem C09_assertLower_effect (s : Sat) (t : Lra) (xi : Nat) (val : IR) (p : Lit) :
    (IR.le val (t.lb xi) = true → (assertLower s t xi val p).cnfl = none ∧ (assertLower s t xi val p).th = t ∧
      (assertLower s t xi val p).sat = s) ∧
    (IR.le val (t.lb xi) = false → IR.gt val (t.ub xi) = true →
      (assertLower s t xi val p).cnfl = some [p.neg, (t.ubReason xi).neg] ∧ (assertLower s t xi val p).th = t ∧
      (assertLower s t xi val p).sat = s) ∧
    (IR.le val (t.lb xi) = false → IR.gt val (t.ub xi) = false → lbIdx xi < t.bounds.length →
      (assertLower s t xi val p).th.bnd (lbIdx xi) = ⟨val, p⟩ ∧
      ∀ i, i ≠ lbIdx xi → (assertLower s t xi val p).th.bnd i = t.bnd i) := by
  refine ⟨?_, ?_, ?_⟩
  · intro h1; simp [assertLower, h1]
  · intro h1 h2; simp [assertLower, h1, h2]
  · intro h1 h2 hk
    exact C09_bnd_of_bounds_set t _ _ _ (C09_assertLower_bounds s t xi val p h1 h2) hk

theorem C09_assertUpper_effect (s : Sat) (t : Lra) (xi : Nat) (val : IR) (p : Lit) :
    (IR.ge val (t.ub xi) = true → (assertUpper s t xi val p).cnfl = none ∧ (assertUpper s t xi val p).th = t ∧
      (assertUpper s t xi val p).sat = s) ∧
    (IR.ge val (t.ub xi) = false → IR.lt val (t.lb xi) = true →
      (assertUpper s t xi val p).cnfl = some [p.neg, (t.lbReason xi).neg] ∧ (assertUpper s t xi val p).th = t ∧
      (assertUpper s t xi val p).sat = s) ∧
    (IR.ge val (t.ub xi) = false → IR.lt val (t.lb xi) = false → ubIdx xi < t.bounds.length →
      (assertUpper s t xi val p).th.bnd (ubIdx xi) = ⟨val, p⟩ ∧
      ∀ i, i ≠ ubIdx xi → (assertUpper s t xi val p).th.bnd i = t.bnd i) := by
  refine ⟨?_, ?_, ?_⟩
  · intro h1; simp [assertUpper, h1]
  · intro h1 h2; simp [assertUpper, h1, h2]
  · intro h1 h2 hk
    exact C09_bnd_of_bounds_set t _ _ _ (C09_assertUpper_bounds s t xi val p h1 h2) hk

/-! ### the undo log -/

/-- `u` was reached from `t.push` by saved overwrites: the newest layer holds values of `t`, every index not in it
    still has its value of `t`, the older layers are those of `t` -/
def C09PopInv (t u : Lra) : Prop :=
  ∃ l, u.layers = l :: t.layers ∧ u.bounds.length = t.bounds.length ∧
    (∀ e ∈ l, t.bounds[e.1]? = some e.2) ∧
    (∀ i, (∀ e ∈ l, e.1 ≠ i) → u.bounds[i]? = t.bounds[i]?)

theorem C09_popInv_push (t : Lra) : C09PopInv t t.push :=
  ⟨[], rfl, rfl, by simp, fun _ _ => rfl⟩

theorem C09_popInv_step (t u : Lra) (i : Nat) (b : LBound) (hi : i < t.bounds.length) (h : C09PopInv t u) :
    C09PopInv t ((u.saveBound i).setBound i b) := by
  obtain ⟨l, hl, hlen, h1, h2⟩ := h
  by_cases hany : l.any (fun e => e.1 == i) = true
  · have hs : u.saveBound i = u := by simp only [saveBound, hl, hany, if_true]
    rw [hs]
    refine ⟨l, hl, by simp [setBound, hlen], h1, ?_⟩
    intro j hj
    have hji : i ≠ j := by
      obtain ⟨e, he, hei⟩ := List.any_eq_true.1 hany
      have h3 := hj e he
      have h4 : e.1 = i := by simpa using hei
      omega
    simp only [setBound, List.getElem?_set, hji, if_false]
    exact h2 j hj
  · have hs : u.saveBound i = { u with layers := (l ++ [(i, u.bnd i)]) :: t.layers } := by
      simp only [saveBound, hl, hany, Bool.false_eq_true, if_false]
    rw [hs]
    have hni : ∀ e ∈ l, e.1 ≠ i := by
      intro e he hei
      exact hany (List.any_eq_true.2 ⟨e, he, by simp [hei]⟩)
    have hui : t.bounds[i]? = some (u.bnd i) := by
      rw [← h2 i hni]
      have : i < u.bounds.length := by omega
      simp [bnd, List.getD_eq_getElem?_getD, this]
    refine ⟨l ++ [(i, u.bnd i)], rfl, by simp [setBound, hlen], ?_, ?_⟩
    · intro e he
      rcases List.mem_append.1 he with he | he
      · exact h1 e he
      · have : e = (i, u.bnd i) := by simpa using he
        subst this
        exact hui
    · intro j hj
      have hji : i ≠ j := fun h => hj (i, u.bnd i) (by simp) h
      have h3 := h2 j (fun e he => hj e (List.mem_append_left _ he))
      simp only [setBound, List.getElem?_set, hji, if_false]
      exact h3

theorem C09_popInv_overwrite (t : Lra) : ∀ (ws : List (Nat × LBound)) (u : Lra),
    (∀ w ∈ ws, w.1 < t.bounds.length) → C09PopInv t u →
    C09PopInv t (ws.foldl (fun t w => (t.saveBound w.1).setBound w.1 w.2) u) := by
  intro ws
  induction ws with
  | nil => intro u _ h; exact h
  | cons w ws ih =>
    intro u hw h
    exact ih _ (fun w' hw' => hw w' (List.mem_cons_of_mem _ hw'))
      (C09_popInv_step t u w.1 w.2 (hw w List.mem_cons_self) h)

/-- writing saved values of `ts` back, over a state that agrees with `ts` elsewhere, yields `ts` -/
theorem C09_restore (ts : List LBound) : ∀ (l : List (Nat × LBound)) (u : Lra), u.bounds.length = ts.length →
    (∀ e ∈ l, ts[e.1]? = some e.2) → (∀ i, (∀ e ∈ l, e.1 ≠ i) → u.bounds[i]? = ts[i]?) →
    (l.foldl (fun t e => t.setBound e.1 e.2) u).bounds = ts := by
  intro l
  induction l with
  | nil =>
    intro u _ _ h2
    exact List.ext_getElem? (fun i => h2 i (by simp))
  | cons e l ih =>
    intro u hlen h1 h2
    refine ih (u.setBound e.1 e.2) (by simp [setBound, hlen]) (fun e' he' => h1 e' (List.mem_cons_of_mem _ he')) ?_
    intro i hi
    by_cases hie : e.1 = i
    · have he := h1 e List.mem_cons_self
      have hlt : e.1 < ts.length := by
        rcases Nat.lt_or_ge e.1 ts.length with h | h
        · exact h
        · rw [List.getElem?_eq_none h] at he; cases he
      subst hie
      simp only [setBound, List.getElem?_set, if_true, hlen, hlt]
      exact he.symm
    · simp only [setBound, List.getElem?_set, hie, if_false]
      exact h2 i (by
        intro e' he'
        rcases List.mem_cons.1 he' with h | h
        · subst h; exact hie
        · exact hi e' h)

theorem C09_pop_of_inv (t u : Lra) (h : C09PopInv t u) : u.pop.bounds = t.bounds ∧ u.pop.layers = t.layers := by
  obtain ⟨l, hl, hlen, h1, h2⟩ := h
  unfold pop
  rw [hl]
  exact ⟨C09_restore t.bounds l u hlen h1 h2, rfl⟩

/-! ### concrete states for the non-vacuity examples -/

/-- x0 free and non-basic, x1 basic with row `x1 = x0` and bounds `1 ≤ x1`, every value 0 -/
def c09ExampleState : Lra :=
  { bounds := [⟨IR.ofR R.ninf, Lit.trueLit⟩, ⟨IR.ofR R.pinf, Lit.trueLit⟩,
               ⟨IR.ofR R.one, Lit.trueLit⟩, ⟨IR.ofR R.pinf, Lit.trueLit⟩],
    vals := [IR.ofR R.zero, IR.ofR R.zero],
    tableau := [(1, Lin.var 0 R.one)],
    exprs := [], sAsrts := [], vAsrts := [],
    aWatches := [[], []], tWatches := [[1], []], layers := [] }

/-- the same with `x0 ≤ 0` -/
def c09ConflictState : Lra := c09ExampleState.setBound (ubIdx 0) ⟨IR.ofR R.zero, Lit.trueLit⟩

/-- a decidable test from which the existential of the example follows (`Lra` has no decidable equality) -/
theorem C09_example_witness (t : Lra) (fuel : Nat)
    (h : (t.check fuel).map (fun p => p.1.isNone && (p.2.tableau.map (·.1) != t.tableau.map (·.1))) = some true) :
    ∃ t', t.check fuel = some (none, t') ∧ t'.tableau ≠ t.tableau := by
  cases hc : t.check fuel with
  | none => rw [hc] at h; simp at h
  | some p =>
    obtain ⟨c, t'⟩ := p
    rw [hc] at h
    simp only [Option.map_some, Option.some.injEq, Bool.and_eq_true, Option.isNone_iff_eq_none, bne_iff_ne, ne_eq] at h
    refine ⟨t', by rw [h.1], fun he => h.2 (by rw [he])⟩

theorem C09_example_conflict_witness (t : Lra) (fuel : Nat)
    (h : (t.check fuel).map (fun p => p.1.isSome) = some true) :
    ∃ c t', t.check fuel = some (some c, t') := by
  cases hc : t.check fuel with
  | none => rw [hc] at h; simp at h
  | some p =>
    obtain ⟨c, t'⟩ := p
    rw [hc] at h
    cases c with
    | none => simp at h
    | some c => exact ⟨c, t', rfl⟩

end Lra
end Oratio
