/-
Lemmas for property C12, real-valued instance, part 4: the bounds returned by `bounds` are
well-formed; the zero tests of `equates` (`lb <= 0 && ub >= 0`) say that 0 lies within the bounds;
`equates = false` means the two expressions differ in every valuation respecting the matrix;
the subtraction keeps "no zero coefficient".
-/
import OratioProofs.Lemmas.DlRelRSound
import OratioProofs.Lemmas.LraRelSemNoZero

namespace Oratio
namespace DlRelR
open Dl DlRel R

/-! ### well-formedness of scaled bounds -/

theorem good_of_pinf {x : IR} (h : x.rat = pinf) (hi : FinWF x.inf) : IR.Good x :=
  ⟨by rw [h]; decide, by rw [h]; decide, hi⟩

theorem goodL_of_ninf {x : IR} (h : x.rat = ninf) (hi : FinWF x.inf) : IR.GoodL x :=
  ⟨by rw [h]; decide, by rw [h]; decide, hi⟩

theorem goodL_of_fin {x : IR} (h : IR.Fin x) : IR.GoodL x :=
  ⟨h.1.1, fun e => h.1.2 (by rw [e]; rfl), h.2⟩

theorem sA_inf_fin {x : IR} {c : R} (hx : FinWF x.inf) (hc : FinWF c) (k : R) : FinWF (sA x c k).inf :=
  (mul_fin hx hc).1

theorem sA_good_pos {hi : IR} {c k : R} (hh : IR.Good hi) (hc : FinWF c) (hp : 0 < c.num) (hk : FinWF k) :
    IR.Good (sA hi c k) := by
  rcases hh.rat_cases with hf | hp'
  · exact (sA_fin ⟨hf, hh.2.2⟩ hc hk).1.good
  · exact good_of_pinf (sA_rat_pinf_pos hp' hc hp hk) (sA_inf_fin hh.2.2 hc k)

theorem sA_goodL_pos {lo : IR} {c k : R} (hh : IR.GoodL lo) (hc : FinWF c) (hp : 0 < c.num) (hk : FinWF k) :
    IR.GoodL (sA lo c k) := by
  rcases hh.rat_cases with hf | hp'
  · exact goodL_of_fin (sA_fin ⟨hf, hh.2.2⟩ hc hk).1
  · exact goodL_of_ninf (sA_rat_ninf_pos hp' hc hp hk) (sA_inf_fin hh.2.2 hc k)

theorem sA_goodL_neg {hi : IR} {c k : R} (hh : IR.Good hi) (hc : FinWF c) (hp : c.num < 0) (hk : FinWF k) :
    IR.GoodL (sA hi c k) := by
  rcases hh.rat_cases with hf | hp'
  · exact goodL_of_fin (sA_fin ⟨hf, hh.2.2⟩ hc hk).1
  · exact goodL_of_ninf (sA_rat_pinf_neg hp' hc hp hk) (sA_inf_fin hh.2.2 hc k)

theorem sA_good_neg {lo : IR} {c k : R} (hh : IR.GoodL lo) (hc : FinWF c) (hp : c.num < 0) (hk : FinWF k) :
    IR.Good (sA lo c k) := by
  rcases hh.rat_cases with hf | hp'
  · exact (sA_fin ⟨hf, hh.2.2⟩ hc hk).1.good
  · exact good_of_pinf (sA_rat_ninf_neg hp' hc hp hk) (sA_inf_fin hh.2.2 hc k)

theorem pair_good {lo hi : IR} {c k : R} (hl : IR.GoodL lo) (hh : IR.Good hi) (hc : FinWF c) (hcn : c.num ≠ 0)
    (hk : FinWF k) :
    let p := if c.isPositive then (sA lo c k, sA hi c k) else (sA hi c k, sA lo c k)
    IR.GoodL p.1 ∧ IR.Good p.2 := by
  intro p
  by_cases hp : 0 < c.num
  · have e : c.isPositive = true := by simp [R.isPositive, hp]
    have ep : p = (sA lo c k, sA hi c k) := by simp only [p, e, if_true]
    rw [ep]
    exact ⟨sA_goodL_pos hl hc hp hk, sA_good_pos hh hc hp hk⟩
  · have hn : c.num < 0 := by omega
    have e : c.isPositive = false := by simp [R.isPositive]; omega
    have ep : p = (sA hi c k, sA lo c k) := by simp only [p, e, Bool.false_eq_true, if_false]
    rw [ep]
    exact ⟨sA_goodL_neg hh hc hn hk, sA_good_neg hl hc hn hk⟩

/-- the bounds returned by `bounds` are a well-formed lower and a well-formed upper bound -/
theorem boundsLin_rdl_good (t : Dl IR) (l : Lin) (hl : l.WF)
    (hnz : ∀ x c, l.vars = [(x, c)] → c.num ≠ 0) (lo hi : IR)
    (hb : boundsLin rdlOps t l = some (lo, hi))
    (hg : t.GoodOn (0 :: l.vars.map (·.1))) : IR.GoodL lo ∧ IR.Good hi := by
  obtain ⟨vars, known⟩ := l
  match vars with
  | [] =>
    have hk : FinWF known := ((Lin.wf_iff _).1 hl).2.2
    rw [boundsLin_nil] at hb
    simp only [Option.some.injEq, Prod.mk.injEq] at hb
    obtain ⟨rfl, rfl⟩ := hb
    have hf : IR.Fin ⟨known, R.zero⟩ := ⟨hk, finWF_zero⟩
    exact ⟨goodL_of_fin hf, hf.good⟩
  | [(x, c)] =>
    obtain ⟨hc, hk⟩ := wf1 hl
    have hcn : c.num ≠ 0 := hnz x c rfl
    rw [boundsLin_one] at hb
    simp only [Option.some.injEq] at hb
    have g1 : IR.Good (Dl.d rdlOps t 0 x) := hg 0 (by simp) x (by simp)
    have g2 : IR.Good (Dl.d rdlOps t x 0) := hg x (by simp) 0 (by simp)
    have hp := pair_good (goodL_neg g2) g1 hc hcn hk
    rw [show (lb rdlOps t x) = rdlOps.neg (Dl.d rdlOps t x 0) from rfl,
        show (ub rdlOps t x) = Dl.d rdlOps t 0 x from rfl] at hb
    rw [hb] at hp
    exact hp
  | [(v0, c), (v1, c1)] =>
    obtain ⟨hlt, hc, hc1, hk⟩ := wf2 hl
    rw [boundsLin_two t v0 v1 c c1 known (Nat.ne_of_lt hlt)] at hb
    split at hb
    · exact absurd hb (by simp)
    · rename_i hne
      obtain ⟨hcn, -⟩ := ne_negOne hc hc1 hne
      simp only [Option.some.injEq] at hb
      have g1 : IR.Good (Dl.d rdlOps t v1 v0) := hg v1 (by simp) v0 (by simp)
      have g2 : IR.Good (Dl.d rdlOps t v0 v1) := hg v0 (by simp) v1 (by simp)
      have hp := pair_good (goodL_neg g2) g1 hc hcn hk
      rw [show (distance rdlOps t v1 v0).1 = rdlOps.neg (Dl.d rdlOps t v0 v1) from rfl,
          show (distance rdlOps t v1 v0).2 = Dl.d rdlOps t v1 v0 from rfl] at hb
      rw [hb] at hp
      exact hp
  | _ :: _ :: _ :: _ => exact absurd hb (by simp [boundsLin])

/-! ### the zero tests of `equates` -/

theorem fin_ofInt0 : IR.Fin (IR.ofInt 0) := ⟨finWF_ofInt 0, finWF_zero⟩

theorem val_ofInt0 : IR.val (IR.ofInt 0) = 0 := by
  show (toLex ((R.ofInt 0).toRat, R.zero.toRat) : QV) = 0
  rw [toRat_ofInt, toRat_zero]
  rfl

theorem R_eq_comm (a b : R) : R.eq a b = R.eq b a := by
  rw [eq_eq_decide, eq_eq_decide, Bool.eq_iff_iff]
  simp only [decide_eq_true_iff]
  exact eq_comm

theorem IR_ge_eq_le (a b : IR) : IR.ge a b = IR.le b a := by
  unfold IR.ge IR.le
  rw [gt_eq_lt, ge_eq_le, R_eq_comm]

/-- `lb <= 0` -/
theorem leZero_iff {lo : IR} (h : IR.GoodL lo) : rdlOps.leZero lo = true ↔ IR.lbHolds lo 0 := by
  show IR.leI lo 0 = true ↔ _
  have hw : lo.WF := ⟨h.1, h.2.2.1⟩
  rw [(IR.cmp_scalar lo R.zero 0 hw).2.2.2.2.2.2.1]
  rcases h.rat_cases with hf | hn
  · rw [IR.le_val ⟨hf, h.2.2⟩ fin_ofInt0, val_ofInt0, lbHolds_fin ⟨hf, h.2.2⟩]
  · constructor
    · intro _; exact Or.inl hn
    · intro _
      unfold IR.le
      rw [hn]
      rfl

/-- `ub >= 0` -/
theorem geZero_iff {hi : IR} (h : IR.Good hi) : rdlOps.geZero hi = true ↔ IR.ubHolds hi 0 := by
  show IR.geI hi 0 = true ↔ _
  have hw : hi.WF := ⟨h.1, h.2.2.1⟩
  rw [(IR.cmp_scalar hi R.zero 0 hw).2.2.2.2.2.2.2.2.1, IR_ge_eq_le]
  rcases h.rat_cases with hf | hn
  · rw [IR.le_val fin_ofInt0 ⟨hf, h.2.2⟩, val_ofInt0, ubHolds_fin ⟨hf, h.2.2⟩]
  · constructor
    · intro _; exact Or.inl hn
    · intro _
      unfold IR.le
      rw [hn]
      rfl

/-- `equates(a, b)` for one-variable operands: 0 lies within `bounds(a - b)` -/
theorem equatesLin_rdl_meaning (t : Dl IR) (x : Nat) (c k : R) (y : Nat) (d m : R)
    (ha : (⟨[(x, c)], k⟩ : Lin).WF) (hb : (⟨[(y, d)], m⟩ : Lin).WF)
    (hnz : ∀ z e, (Lin.sub ⟨[(x, c)], k⟩ ⟨[(y, d)], m⟩).vars = [(z, e)] → e.num ≠ 0)
    (hg : t.GoodOn (0 :: (Lin.sub ⟨[(x, c)], k⟩ ⟨[(y, d)], m⟩).vars.map (·.1))) :
    match boundsLin rdlOps t (Lin.sub ⟨[(x, c)], k⟩ ⟨[(y, d)], m⟩) with
    | none => equatesLin rdlOps t ⟨[(x, c)], k⟩ ⟨[(y, d)], m⟩ = none
    | some (lo, hi) => ∃ e, equatesLin rdlOps t ⟨[(x, c)], k⟩ ⟨[(y, d)], m⟩ = some e ∧
        (e = true ↔ (IR.lbHolds lo 0 ∧ IR.ubHolds hi 0)) := by
  have he : equatesLin rdlOps t ⟨[(x, c)], k⟩ ⟨[(y, d)], m⟩ =
      (boundsLin rdlOps t (Lin.sub ⟨[(x, c)], k⟩ ⟨[(y, d)], m⟩)).map
        (fun p => rdlOps.leZero p.1 && rdlOps.geZero p.2) := rfl
  obtain ⟨hwf, -⟩ := C15_lin_sub _ _ ha hb
  cases hbl : boundsLin rdlOps t (Lin.sub ⟨[(x, c)], k⟩ ⟨[(y, d)], m⟩) with
  | none => rw [he, hbl]; rfl
  | some p =>
    obtain ⟨lo, hi⟩ := p
    obtain ⟨g1, g2⟩ := boundsLin_rdl_good t _ hwf hnz lo hi hbl hg
    refine ⟨_, by rw [he, hbl]; rfl, ?_⟩
    show (rdlOps.leZero lo && rdlOps.geZero hi) = true ↔ _
    rw [Bool.and_eq_true, leZero_iff g1, geZero_iff g2]

/-- a negative answer of `equates` is sound: no valuation respecting the matrix equates the two -/
theorem equatesLin_rdl_false_sound (t : Dl IR) (x : Nat) (c k : R) (y : Nat) (d m : R)
    (ha : (⟨[(x, c)], k⟩ : Lin).WF) (hb : (⟨[(y, d)], m⟩ : Lin).WF)
    (hnz : ∀ z e, (Lin.sub ⟨[(x, c)], k⟩ ⟨[(y, d)], m⟩).vars = [(z, e)] → e.num ≠ 0)
    (hg : t.GoodOn (0 :: (Lin.sub ⟨[(x, c)], k⟩ ⟨[(y, d)], m⟩).vars.map (·.1)))
    (hf : equatesLin rdlOps t ⟨[(x, c)], k⟩ ⟨[(y, d)], m⟩ = some false)
    (σ : Nat → ℚ) (h0 : σ 0 = 0)
    (hσ : t.RespectsOn (embQ σ) (0 :: (Lin.sub ⟨[(x, c)], k⟩ ⟨[(y, d)], m⟩).vars.map (·.1))) :
    Lin.eval ⟨[(x, c)], k⟩ σ ≠ Lin.eval ⟨[(y, d)], m⟩ σ := by
  intro heq
  have hm := equatesLin_rdl_meaning t x c k y d m ha hb hnz hg
  obtain ⟨hwf, -, -, hev, -⟩ := C15_lin_sub _ _ ha hb
  cases hbl : boundsLin rdlOps t (Lin.sub ⟨[(x, c)], k⟩ ⟨[(y, d)], m⟩) with
  | none =>
    rw [hbl] at hm
    rw [hf] at hm
    exact absurd hm (by simp)
  | some p =>
    obtain ⟨lo, hi⟩ := p
    rw [hbl] at hm
    obtain ⟨e, he1, he2⟩ := hm
    rw [hf] at he1
    have he : e = false := by injection he1 with h; exact h.symm
    have hs := boundsLin_rdl_sound t _ hwf hnz lo hi hbl hg (embQ σ) (by show (toLex (σ 0, 0) : QV) = 0; rw [h0]; rfl) hσ
    rw [evalQV_embQ, hev, heq, sub_self] at hs
    have : e = true := he2.2 hs
    rw [he] at this
    exact absurd this (by decide)

/-! ### "no zero coefficient" is kept by the subtraction -/

theorem sub_nonzero (left right : Lin) (hl : left.WF) (hr : right.WF)
    (hnl : ∀ p ∈ left.vars, p.2.num ≠ 0) (hnr : ∀ p ∈ right.vars, p.2.num ≠ 0) :
    ∀ p ∈ (Lin.sub left right).vars, p.2.num ≠ 0 :=
  Lra.sub_nz hl hr hnl hnr

/-! ### reading a bound against a rational value (the vocabulary of C11: `Lra.IRBelow / IRAbove`) -/

theorem lbHolds_ofQ (lo : IR) (y : ℚ) : IR.lbHolds lo (QV.ofQ y) ↔ Lra.IRBelow lo y := by
  unfold IR.lbHolds Lra.IRBelow IR.val QV.ofQ
  rw [QV.le_iff]

theorem ubHolds_ofQ (hi : IR) (y : ℚ) : IR.ubHolds hi (QV.ofQ y) ↔ Lra.IRAbove hi y := by
  unfold IR.ubHolds Lra.IRAbove IR.val QV.ofQ
  rw [QV.le_iff]

/-! ### canonical concrete expressions -/

theorem wf_nil {k : R} (hk : FinWF k) : (⟨[], k⟩ : Lin).WF :=
  (Lin.wf_iff _).2 ⟨List.Pairwise.nil, (fun t ht => by cases ht), hk⟩

theorem wf_one (x : Nat) {c k : R} (hc : FinWF c) (hk : FinWF k) : (⟨[(x, c)], k⟩ : Lin).WF :=
  (Lin.wf_iff _).2 ⟨List.pairwise_singleton _ _, (fun t ht => by
    rw [List.mem_singleton] at ht; rw [ht]; exact hc), hk⟩

theorem wf_two {x y : Nat} (hxy : x < y) {c d k : R} (hc : FinWF c) (hd : FinWF d) (hk : FinWF k) :
    (⟨[(x, c), (y, d)], k⟩ : Lin).WF :=
  (Lin.wf_iff _).2 ⟨List.Pairwise.cons (fun a ha => by rw [List.mem_singleton] at ha; rw [ha]; exact hxy)
      (List.pairwise_singleton _ _),
    (fun t ht => by
      rcases List.mem_cons.1 ht with h | h
      · rw [h]; exact hc
      · rw [List.mem_singleton] at h; rw [h]; exact hd), hk⟩

end DlRelR
end Oratio
