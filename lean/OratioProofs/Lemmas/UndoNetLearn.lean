/-
C08N, part 2 with learning: under the network invariant of C07N (`NetInv`, with its side condition
`ConflictsCurrent`), `Net.propagate` never raises the decision level, and it keeps it - above the root
level - only when the run is conflict-free (`Net.quiet`): every conflict above the root level is
followed by `analyze_and_backjump`, which strictly lowers the level.  So "the decision level after
`assume` is that before plus one" is exactly the conflict-free case of `C08N_assume_pop`.

The proof follows `propagate_inv` (Lemmas/NetInvB.lean) step by step, carrying the level facts along.
-/
import OratioProofs.Lemmas.NetInvC
import OratioProofs.Lemmas.UndoNetDefs
import OratioProofs.Lemmas.UndoNetProp

namespace Oratio
namespace Net
open Sat

/-- what `propagate` guarantees about the decision level -/
structure PropLvl (n n' : Net) (fuel : Nat) : Prop where
  le : n'.sat.decisionLevel ≤ n.sat.decisionLevel
  eq : n'.sat.decisionLevel = n.sat.decisionLevel → 0 < n.sat.decisionLevel → quiet n fuel = true

theorem level_of_root {s : Sat} (h : s.rootLevel = true) : s.decisionLevel = 0 := by
  show s.trailLim.length = 0
  rw [(rootLevel_iff s).1 h]; rfl

theorem propagate_level {orig : Cnf} : ∀ (fuel : Nat) (n : Net) (L : Cnf) (fr : List Frame),
    NetInv n orig L fr → n.sat.dead = false → ConflictsCurrent n fuel → ∀ b n', propagate n fuel = some (b, n') →
    PropLvl n n' fuel
  | 0, n, L, fr, _, _, _, b, n', he => by simp [propagate] at he
  | fuel + 1, n, L, fr, h, hd, hg, b, n', he => by
    unfold propagate at he
    unfold ConflictsCurrent at hg
    cases hq : n.sat.queue with
    | nil =>
      rw [hq] at he hg
      simp only at he hg
      have hquiet : quiet n (fuel + 1) = (match n.lra.check fuel with
          | some (some _, _) => false
          | _ => true) := by rw [Net.quiet, hq]; rfl
      cases hchk : n.lra.check fuel with
      | none => rw [hchk] at he; simp at he
      | some res =>
        obtain ⟨c, t⟩ := res
        rw [hchk] at he hg
        obtain ⟨k1, k2, k3⟩ := lraCheck_spec h.th hchk
        have hinv1 : NetInv { n with lra := t } orig L fr :=
          ⟨h.sat, fun d hd' => TEntails.congr (fun α hm => (k2 α).1 hm) (h.lemmas d hd'), k1, h.flv, h.flen,
            ⟨by
              show ∀ e ∈ t.vAsrts, e.1 < n.sat.vals.length
              rw [((Lra.C09_core_iff n.lra t).1 (Lra.C09_core_check fuel n.lra t c hchk)).2.1]; exact h.reg.lra,
             h.reg.idl, h.reg.rdl, Lra.check_good fuel n.lra t c h.reg.good hchk,
             by rw [Lra.check_aWatches h.th.base.lra.inv.tab hchk]; exact h.reg.aw,
             by rw [((Lra.C09_core_iff n.lra t).1 (Lra.C09_core_check fuel n.lra t c hchk)).2.2.2.2]; exact h.reg.sa⟩⟩
        cases c with
        | none =>
          simp only [Option.some.injEq, Prod.mk.injEq] at he
          obtain ⟨rfl, rfl⟩ := he
          exact ⟨Nat.le_refl _, fun _ _ => by rw [hquiet, hchk]⟩
        | some cnfl =>
          simp only at he hg
          obtain ⟨c1, c2⟩ := k3 cnfl rfl
          by_cases hroot : n.sat.rootLevel = true
          · rw [if_pos hroot] at he
            simp only [Option.some.injEq, Prod.mk.injEq] at he
            obtain ⟨rfl, rfl⟩ := he
            exact ⟨Nat.le_refl _, fun _ hpos => absurd hpos (by rw [level_of_root hroot]; exact Nat.lt_irrefl 0)⟩
          · rw [if_neg hroot] at he hg
            obtain ⟨g1, g2⟩ := hg
            cases hlf : learnFrom { n with lra := t } cnfl with
            | none => rw [hlf] at he; simp at he
            | some n1 =>
              rw [hlf] at he g2
              simp only at he g2
              obtain ⟨fr', l1, l2, l3, l4⟩ := hinv1.learn hq (dl_pos_of_not_root hroot) (TEntails.cut hinv1.lemmas c1) c2 g1 hlf
              have r := propagate_level fuel n1 _ fr' l1 (by rw [l2]; exact hd) g2 b n' he
              have l4' : n1.sat.decisionLevel < n.sat.decisionLevel := l4
              exact ⟨by have := r.le; omega, fun heq _ => by have := r.le; omega⟩
    | cons p q =>
      rw [hq] at he hg
      simp only at he hg
      have hquiet : quiet n (fuel + 1) =
          (match Sat.visitWatchers { n.sat with queue := q, watches := n.sat.watches.set p.idx [] } p
              (n.sat.watches.getD p.idx []) with
          | (_, some _) => false
          | (s, none) =>
            match theoryPropagate { n with sat := s } p with
            | (none, n') => quiet n' fuel
            | (some _, _) => false) := by rw [Net.quiet, hq]; rfl
      have hpq := h.sat.wf.a.queueOK p (by rw [hq]; exact List.mem_cons_self ..)
      -- the state with the watch list of `p` detached
      have hs0 : SInv (orig ++ L) orig { n.sat with queue := q, watches := n.sat.watches.set p.idx [] } := by
        refine ⟨h.sat.wf.setWatchesQ _ q (fun x hx => by rw [hq]; exact List.mem_cons_of_mem _ hx) ?_,
          h.sat.ent.of_eq rfl rfl rfl rfl rfl rfl, h.sat.dec⟩
        intro i id hid
        rw [getD_set] at hid
        split at hid
        · cases hid
        · exact h.sat.wf.w i id hid
      have htmp : ∀ id ∈ n.sat.watches.getD p.idx [], ∃ c, (id, c) ∈ n.sat.cls ∧ p.neg ∈ c := by
        intro id hid
        obtain ⟨c, hc, l, hl, hi⟩ := h.sat.wf.w _ id hid
        have : l.neg = p := Lit.idx_inj hi
        exact ⟨c, hc, by rw [← this, Lit.neg_neg]; exact hl⟩
      obtain ⟨v1, v2, v3, v4⟩ := visit_sound (orig := orig ++ L) (K := orig) (p := p) _ _ hs0.wf hs0.ent hpq.1 htmp
      rcases hvw : Sat.visitWatchers { n.sat with queue := q, watches := n.sat.watches.set p.idx [] } p
        (n.sat.watches.getD p.idx []) with ⟨s1, oid⟩
      rw [hvw] at he hg v1 v2 v3 v4
      simp only at v1 v2 v3 v4
      have hs1 : SInv (orig ++ L) orig s1 := ⟨v1, v2, fun m => (hs0.dec m).step v3⟩
      have hk1 : AssignedKeep n.sat s1 := assignedKeep_of_trail h.sat.wf v1.lvl0 v3.le v3.lvl
      have hinv1 : NetInv { n with sat := s1 } orig L fr := h.setSat s1 hs1 hk1 v3.frame.trailLim v3.frame.lenVals
      have hd1 : s1.dead = false := by rw [v3.frame.dead]; exact hd
      have hl1 : s1.decisionLevel = n.sat.decisionLevel := by
        show s1.trailLim.length = n.sat.trailLim.length
        rw [v3.frame.trailLim]
      have hp1 : p ∈ s1.trail := v3.trail.subset hpq.1
      have hpl1 : s1.lvl p = s1.decisionLevel := by
        have e1 : s1.lvl p = n.sat.lvl p := v3.lvl p hpq.1
        rw [e1, hpq.2]
        show n.sat.trailLim.length = s1.trailLim.length
        rw [v3.frame.trailLim]
      cases oid with
      | some id =>
        simp only at he hg
        obtain ⟨w1, c, w2, w3, w4⟩ := v4 id rfl
        have hcl : s1.clauseOf id = c := clauseOf_of_mem' v1.ids w2
        have hT : TEntails { n with sat := s1 } orig c := tentails_of_ents' hinv1.lemmas (v2.clauses _ w2)
        by_cases hroot : s1.rootLevel = true
        · rw [if_pos hroot] at he
          simp only [Option.some.injEq, Prod.mk.injEq] at he
          obtain ⟨rfl, rfl⟩ := he
          exact ⟨Nat.le_of_eq hl1, fun _ hpos => absurd hpos (by rw [← hl1, level_of_root hroot]; exact Nat.lt_irrefl 0)⟩
        · rw [if_neg hroot, hcl] at he hg
          cases hlf : learnFrom { n with sat := s1 } c with
          | none => rw [hlf] at he; simp at he
          | some n1 =>
            rw [hlf] at he hg
            simp only at he hg
            obtain ⟨fr', l1, l2, l3, l4⟩ := hinv1.learn w1 (dl_pos_of_not_root hroot) hT w4
              ⟨p.neg, w3, by rw [Lit.neg_neg]; exact hp1, hpl1⟩ hlf
            have r := propagate_level fuel n1 _ fr' l1 (by rw [l2]; exact hd1) hg b n' he
            have l4' : n1.sat.decisionLevel < s1.decisionLevel := l4
            exact ⟨by have := r.le; omega, fun heq _ => by have := r.le; omega⟩
      | none =>
        simp only at he hg
        have hpv : ({ n with sat := s1 } : Net).sat.value p = some true := v1.a.value_true.2 (Or.inl hp1)
        obtain ⟨t1, t2, t3, t4, t5⟩ := theoryPropagate_spec hinv1.th p hpv
        obtain ⟨⟨new, hrecs⟩, hpc, hreg2⟩ := theoryPropagate_recs hinv1.th hinv1.reg p hpv
        rcases htp : theoryPropagate { n with sat := s1 } p with ⟨oc, n2⟩
        rw [htp] at he hg t1 t2 t3 t4 t5 hrecs hpc hreg2
        simp only at t1 t2 t3 t4 t5 hrecs hpc hreg2
        -- the SAT core after the records
        have hs1' : SInv (orig ++ (L ++ new)) orig s1 := hs1.mono_orig (fun d hd' => by
          rcases List.mem_append.1 hd' with hd' | hd'
          · exact List.mem_append_left _ hd'
          · exact List.mem_append_right _ (List.mem_append_left _ hd'))
        obtain ⟨r1, r2⟩ := hs1'.recs hrecs (fun c hc =>
          Ents.of_mem (List.mem_append_right _ (List.mem_append_right _ hc)))
        have hlemL : ∀ c ∈ L, TEntails n2 orig c := fun c hc =>
          TEntails.congr (fun α hm => (t3 α).1 hm) (hinv1.lemmas c hc)
        have hlem2 : ∀ c ∈ L ++ new, TEntails n2 orig c := by
          intro c hc
          rcases List.mem_append.1 hc with hc | hc
          · exact hlemL c hc
          · rcases t4 c (by rw [r2.log]; exact List.mem_append_right _ hc) with h' | h'
            · exact TEntails.congr (fun α hm => (t3 α).1 hm) (tentails_of_ents' hinv1.lemmas (v2.log c h'))
            · exact TEntails.cut hlemL h'
        have hinv2 : NetInv n2 orig (L ++ new) fr :=
          ⟨r1, hlem2, t1.mono_origN (fun d hd' => by
              rcases List.mem_append.1 hd' with hd' | hd'
              · exact List.mem_append_left _ hd'
              · exact List.mem_append_right _ (List.mem_append_left _ hd')), FramesLv.keep r2.keep fr hinv1.flv, by
            show fr.length = n2.sat.trailLim.length
            rw [r2.trailLim]; exact hinv1.flen, hreg2⟩
        have hd2 : n2.sat.dead = false := by rw [r2.dead]; exact hd1
        have hl2 : n2.sat.decisionLevel = n.sat.decisionLevel := by
          rw [← hl1]
          show n2.sat.trailLim.length = s1.trailLim.length
          rw [r2.trailLim]
        cases oc with
        | none =>
          simp only at he hg
          have r := propagate_level fuel n2 _ fr hinv2 hd2 hg b n' he
          refine ⟨hl2 ▸ r.le, fun heq hpos => ?_⟩
          rw [hquiet, hvw]
          simp only
          rw [htp]
          exact r.eq (by rw [hl2]; exact heq) (by rw [hl2]; exact hpos)
        | some cnfl =>
          simp only at he hg
          obtain ⟨u1, u2⟩ := t5 cnfl rfl
          have hs3 : SInv (orig ++ (L ++ new)) orig { n2.sat with queue := [] } :=
            ⟨r1.wf.queue_sub [] (fun x hx => by cases hx), r1.ent.of_eq rfl rfl rfl rfl rfl rfl, r1.dec⟩
          have hinv3 : NetInv { n2 with sat := { n2.sat with queue := [] } } orig (L ++ new) fr :=
            hinv2.setSat _ hs3 (fun v b hv => ⟨hv, rfl⟩) rfl rfl
          split at he
          · rename_i hroot'
            have hroot : n2.sat.rootLevel = true := hroot'
            simp only [Option.some.injEq, Prod.mk.injEq] at he
            obtain ⟨rfl, rfl⟩ := he
            exact ⟨Nat.le_of_eq hl2, fun _ hpos => absurd hpos (by rw [← hl2, level_of_root hroot]; exact Nat.lt_irrefl 0)⟩
          · rename_i hroot'
            have hroot : ¬ n2.sat.rootLevel = true := hroot'
            rw [if_neg hroot] at hg
            have g2 := hg
            have g1 : HasCurrent ({ n2 with sat := { n2.sat with queue := [] } } : Net).sat cnfl := by
              refine ⟨p.neg, hpc cnfl rfl, ?_, ?_⟩
              · rw [Lit.neg_neg]; exact r2.trail.subset hp1
              · have hpa : s1.vals.getD p.var none = some p.sign := value_eq_true.1 hpv
                have hk := (r2.keep p.var p.sign hpa).2
                show n2.sat.level.getD p.neg.var 0 = n2.sat.trailLim.length
                rw [show p.neg.var = p.var from rfl, hk, r2.trailLim]
                exact hpl1
            cases hlf : learnFrom { n2 with sat := { n2.sat with queue := [] } } cnfl with
            | none => rw [hlf] at he; simp at he
            | some n3 =>
              rw [hlf] at he g2
              simp only at he g2
              obtain ⟨fr', l1, l2, l3, l4⟩ := hinv3.learn rfl (dl_pos_of_not_root hroot) (TEntails.cut hlemL u1) u2 g1 hlf
              have r := propagate_level fuel n3 _ fr' l1 (by rw [l2]; exact hd2) g2 b n' he
              have l4' : n3.sat.decisionLevel < n2.sat.decisionLevel := l4
              exact ⟨by have := r.le; omega, fun heq _ => by have := r.le; omega⟩

/-- `assume(p)` on an unassigned literal: the level never ends above that of `n` plus one, and it ends
    there only when the run was conflict-free -/
theorem assume_level_quiet {n : Net} {orig L : Cnf} {fr : List Frame} (h : NetInv n orig L fr) (hq : n.sat.queue = [])
    (hd : n.sat.dead = false) {p : Lit} (hv : n.sat.value p = none) (hp : p.var < n.sat.vals.length) (fuel : Nat)
    (hg : ConflictsCurrent (assumeStart n p) fuel) (b : Bool) (n' : Net) (he : n.assume p fuel = some (b, n')) :
    n'.sat.decisionLevel ≤ n.sat.decisionLevel + 1 ∧
    (n'.sat.decisionLevel = n.sat.decisionLevel + 1 → quietAssume n p fuel = true) := by
  rw [assume_eq hv] at he
  have r := propagate_level fuel _ _ _ (h.atAssume hq hv hp) hd hg b n' he
  have hl : (assumeStart n p).sat.decisionLevel = n.sat.decisionLevel + 1 := rfl
  have hv' : (pushed n p).sat.value p = none := hv
  have hqa : quietAssume n p fuel = quiet (assumeStart n p) fuel := by
    unfold quietAssume
    rw [enqueue_none none hv']
    rfl
  refine ⟨hl ▸ r.le, fun heq => ?_⟩
  rw [hqa]
  exact r.eq (by rw [hl]; exact heq) (by rw [hl]; omega)

/-- the hypotheses of the undo theorems that the network invariant provides -/
theorem NetInv.good {n : Net} {orig L : Cnf} {fr : List Frame} (h : NetInv n orig L fr) (hc : Clean n.sat) : Good n :=
  ⟨hc, h.th.base.lra.inv.tab, h.th.base.idl.sorted, h.th.base.rdl.sorted⟩

/-- a conflict-free `assume` of an unassigned literal answers `true` -/
theorem assume_quiet_true {n : Net} (hg : Good n) {p : Lit} (hv : n.sat.value p = none) {fuel : Nat} {b : Bool} {n' : Net}
    (hqa : quietAssume n p fuel = true) (he : n.assume p fuel = some (b, n')) : b = true := by
  rw [Net.assume_unfold] at he
  unfold Net.quietAssume at hqa
  have hv' : (Net.pushed n p).sat.value p = none := hv
  rw [Sat.enqueue_none none hv'] at he hqa
  exact (Net.propagate_quiet fuel _ b n' ((Net.pushed_inLevel hg p).setSat
    (by have := Sat.step_enqueue (Net.pushed n p).sat p none; rw [Sat.enqueue_none none hv'] at this; exact this)) hqa he).2

theorem assume_pop_level {n : Net} {orig L : Cnf} {fr : List Frame} (h : NetInv n orig L fr) (hc : Clean n.sat)
    (hq : n.sat.queue = []) (hd : n.sat.dead = false) {p : Lit} (hv : n.sat.value p = none) (hp : p.var < n.sat.vals.length)
    (fuel : Nat) (hg : ConflictsCurrent (assumeStart n p) fuel) (b : Bool) (n' : Net)
    (he : n.assume p fuel = some (b, n')) :
    n'.sat.decisionLevel ≤ n.sat.decisionLevel + 1 ∧
    (n'.sat.decisionLevel = n.sat.decisionLevel + 1 ↔ quietAssume n p fuel = true) ∧
    (n'.sat.decisionLevel = n.sat.decisionLevel + 1 → b = true ∧ RestoredN n n'.pop) := by
  obtain ⟨r1, r2⟩ := assume_level_quiet h hq hd hv hp fuel hg b n' he
  have hgood := h.good hc
  exact ⟨r1, ⟨r2, fun hqa => inLevelN_level (assume_quiet hgood hqa he)⟩,
    fun hl => ⟨assume_quiet_true hgood hv (r2 hl) he, assume_pop hgood (r2 hl) he⟩⟩

/-! ### search histories with learning: the decision level tells whether a conflict was met -/

/-- a search history as the planner runs it: `assume`s and further `propagate`s (above root level),
    stopping at the first negative answer; conflicts, learning and backjumps allowed -/
def runSearch (fuel : Nat) : Net → List SOp → Option Net
  | n, [] => some n
  | n, .assume p :: r =>
    match n.assume p fuel with
    | some (true, n') => runSearch fuel n' r
    | _ => none
  | n, .propagate :: r =>
    if n.sat.rootLevel then none
    else match n.propagate fuel with
      | some (true, n') => runSearch fuel n' r
      | _ => none

/-- the documented preconditions of the calls of a history (`assume` on an unassigned existing literal)
    and the side condition `ConflictsCurrent` of C07N for each of them -/
def SearchOK (fuel : Nat) : Net → List SOp → Prop
  | _, [] => True
  | n, .assume p :: r => n.sat.value p = none ∧ p.var < n.sat.vals.length ∧ ConflictsCurrent (assumeStart n p) fuel ∧
      ∀ n', n.assume p fuel = some (true, n') → SearchOK fuel n' r
  | n, .propagate :: r => ConflictsCurrent n fuel ∧ ∀ n', n.propagate fuel = some (true, n') → SearchOK fuel n' r

def assumes : List SOp → Nat
  | [] => 0
  | .assume _ :: r => assumes r + 1
  | .propagate :: r => assumes r

theorem search_level {orig : Cnf} (fuel : Nat) : ∀ (ops : List SOp) (cur n : Net) (L : Cnf) (fr : List Frame),
    NetInv cur orig L fr → cur.sat.queue = [] → cur.sat.dead = false → SearchOK fuel cur ops →
    runSearch fuel cur ops = some n →
    n.sat.decisionLevel ≤ cur.sat.decisionLevel + assumes ops ∧
    (n.sat.decisionLevel = cur.sat.decisionLevel + assumes ops → runQuiet fuel cur ops = some n) := by
  intro ops
  induction ops with
  | nil =>
    intro cur n L fr _ _ _ _ he
    simp only [runSearch, Option.some.injEq] at he
    subst he
    exact ⟨Nat.le_refl _, fun _ => rfl⟩
  | cons op rest ih =>
    intro cur n L fr h hq hd hok he
    cases op with
    | assume p =>
      obtain ⟨hv, hp, hg, hrest⟩ := hok
      simp only [runSearch] at he
      cases ha : cur.assume p fuel with
      | none => rw [ha] at he; cases he
      | some r =>
        obtain ⟨b, n1⟩ := r
        rw [ha] at he
        cases b with
        | false => cases he
        | true =>
          simp only at he
          have po := NetInv.assume h hq hd hv hp fuel hg true n1 ha
          obtain ⟨L1, fr1, hi1⟩ := po.inv
          obtain ⟨r1, r2⟩ := assume_level_quiet h hq hd hv hp fuel hg true n1 ha
          obtain ⟨i1, i2⟩ := ih n1 n L1 fr1 hi1 po.queue (by rw [po.dead]; rfl) (hrest n1 ha) he
          have ea : assumes (SOp.assume p :: rest) = assumes rest + 1 := rfl
          refine ⟨by rw [ea]; omega, fun heq => ?_⟩
          rw [ea] at heq
          have hl1 : n1.sat.decisionLevel = cur.sat.decisionLevel + 1 := by omega
          simp only [runQuiet, r2 hl1, if_true, ha]
          exact i2 (by omega)
    | propagate =>
      obtain ⟨hg, hrest⟩ := hok
      simp only [runSearch] at he
      split at he
      · cases he
      · next hroot =>
        cases ha : cur.propagate fuel with
        | none => rw [ha] at he; cases he
        | some r =>
          obtain ⟨b, n1⟩ := r
          rw [ha] at he
          cases b with
          | false => cases he
          | true =>
            simp only at he
            have po := propagate_inv fuel cur L fr h hd hg true n1 ha
            obtain ⟨L1, fr1, hi1⟩ := po.inv
            have pl := propagate_level fuel cur L fr h hd hg true n1 ha
            obtain ⟨i1, i2⟩ := ih n1 n L1 fr1 hi1 po.queue (by rw [po.dead]; rfl) (hrest n1 ha) he
            have ea : assumes (SOp.propagate :: rest) = assumes rest := rfl
            have hle := pl.le
            refine ⟨by rw [ea]; omega, fun heq => ?_⟩
            rw [ea] at heq
            have hl1 : n1.sat.decisionLevel = cur.sat.decisionLevel := by omega
            have hpos : 0 < cur.sat.decisionLevel := dl_pos_of_not_root hroot
            have hroot' : cur.sat.rootLevel = false := by simpa using hroot
            simp only [runQuiet, hroot', pl.eq hl1 hpos, Bool.not_false, Bool.and_self, if_true, ha]
            exact i2 (by omega)

/-- from a root-level network: the decision level reached is at most the number of `assume`s, with
    equality only for conflict-free histories - and then `popTo 0` gives the root-level network back -/
theorem search_popTo_root {r : Net} {orig L : Cnf} {fr : List Frame} (h : NetInv r orig L fr) (hc : Clean r.sat)
    (hroot : r.sat.trailLim = []) (hq : r.sat.queue = []) (hd : r.sat.dead = false) (fuel : Nat) (ops : List SOp)
    (hok : SearchOK fuel r ops) {n : Net} (he : runSearch fuel r ops = some n) :
    n.sat.decisionLevel ≤ assumes ops ∧
    (n.sat.decisionLevel = assumes ops → runQuiet fuel r ops = some n ∧ RestoredN r (popTo n 0)) := by
  have hl : r.sat.decisionLevel = 0 := by
    show r.sat.trailLim.length = 0
    rw [hroot]; rfl
  obtain ⟨i1, i2⟩ := search_level fuel ops r n L fr h hq hd hok he
  rw [hl, Nat.zero_add] at i1 i2
  exact ⟨i1, fun heq => ⟨i2 heq, popTo_root (h.good hc) hroot fuel ops (i2 heq)⟩⟩

end Net
end Oratio
