/-
C08: the invariant `Logged base cur l` between the state at `push` time and the current state
(head layer `l`), its preservation by every mutator used between `push` and `pop`, and
`Logged base cur l → cur.pop = base`.
-/
import OratioModel
import OratioProofs.Lemmas.Undo

set_option linter.unusedSimpArgs false
set_option linter.unusedVariables false

namespace Oratio
namespace Undo
open Dl

variable {α : Type} (O : DOps α)

theorem d_eq_cell (t : Dl α) (i j : Nat) : d O t i j = (cell t.dists i j).getD O.inf := by
  unfold d cell
  rw [List.getD_eq_getElem?_getD (l := t.dists.getD i [])]

theorem p_eq_cell (t : Dl α) (i j : Nat) : p t i j = (cell t.preds i j).getD noPred := by
  unfold p cell
  rw [List.getD_eq_getElem?_getD (l := t.preds.getD i [])]

theorem setD_eq (t : Dl α) (i j : Nat) (x : α) : setD t i j x = { t with dists := setM t.dists i j x } := rfl
theorem setP_eq (t : Dl α) (i j : Nat) (x : Nat) : setP t i j x = { t with preds := setM t.preds i j x } := rfl

structure Logged (B cur : Dl α) (l : DLayer α) : Prop where
  layers : cur.layers = l :: B.layers
  nVars : cur.nVars = B.nVars
  varDists : cur.varDists = B.varDists
  distConstrs : cur.distConstrs = B.distConstrs
  dshape : cur.dists.map List.length = B.dists.map List.length
  pshape : cur.preds.map List.length = B.preds.map List.length
  dlog : MLog O.inf B.dists cur.dists l.oldDists
  plog : MLog noPred B.preds cur.preds l.oldPreds
  clog : CLog B.distConstr cur.distConstr l.oldConstrs
  sorted : SortedK cur.distConstr
  bsorted : SortedK B.distConstr

/-- `cur` is inside the level opened at `B` -/
def Lg (B cur : Dl α) : Prop := ∃ l, Logged O B cur l

theorem Lg_push (t : Dl α) (hs : SortedK t.distConstr) : Lg O t t.push :=
  ⟨⟨[], [], []⟩, ⟨rfl, rfl, rfl, rfl, rfl, rfl, MLog_init _ _, MLog_init _ _, CLog_init _, hs, hs⟩⟩

theorem Lg_setDist {B t : Dl α} (h : Lg O B t) (i j : Nat) (x : α) : Lg O B (setDist O t i j x) := by
  obtain ⟨l, h⟩ := h
  unfold setDist
  rw [h.layers]
  simp only
  split
  · rename_i hk
    refine ⟨l, ⟨h.layers, h.nVars, h.varDists, h.distConstrs, ?_, h.pshape, ?_, h.plog, h.clog, h.sorted, h.bsorted⟩⟩
    · show (setM t.dists i j x).map List.length = _
      rw [shape_setM]; exact h.dshape
    · exact MLog_write_logged h.dlog (lookupPair_isSome hk) x
  · rename_i hk
    refine ⟨{ l with oldDists := emplacePair l.oldDists (i, j) (d O t i j) },
      ⟨rfl, h.nVars, h.varDists, h.distConstrs, ?_, h.pshape, ?_, h.plog, h.clog, h.sorted, h.bsorted⟩⟩
    · show (setM t.dists i j x).map List.length = _
      rw [shape_setM]; exact h.dshape
    · show MLog O.inf B.dists (setM t.dists i j x) (emplacePair l.oldDists (i, j) (d O t i j))
      rw [d_eq_cell]
      exact MLog_write_new h.dlog (lookupPair_not_isSome hk) x

theorem Lg_setPred {B t : Dl α} (h : Lg O B t) (i j : Nat) (x : Nat) : Lg O B (setPred t i j x) := by
  obtain ⟨l, h⟩ := h
  unfold setPred
  rw [h.layers]
  simp only
  split
  · rename_i hk
    refine ⟨l, ⟨h.layers, h.nVars, h.varDists, h.distConstrs, h.dshape, ?_, h.dlog, ?_, h.clog, h.sorted, h.bsorted⟩⟩
    · show (setM t.preds i j x).map List.length = _
      rw [shape_setM]; exact h.pshape
    · exact MLog_write_logged h.plog (lookupPair_isSome hk) x
  · rename_i hk
    refine ⟨{ l with oldPreds := emplacePair l.oldPreds (i, j) (p t i j) },
      ⟨rfl, h.nVars, h.varDists, h.distConstrs, h.dshape, ?_, h.dlog, ?_, h.clog, h.sorted, h.bsorted⟩⟩
    · show (setM t.preds i j x).map List.length = _
      rw [shape_setM]; exact h.pshape
    · show MLog noPred B.preds (setM t.preds i j x) (emplacePair l.oldPreds (i, j) (p t i j))
      rw [p_eq_cell]
      exact MLog_write_new h.plog (lookupPair_not_isSome hk) x

/-- `saveConstr` followed by the assignment `dist_constr[k] = b` -/
theorem Lg_saveAssign {B t : Dl α} (h : Lg O B t) (k : K) (b : Nat) :
    Lg O B { saveConstr t k with distConstr := assignPair (saveConstr t k).distConstr k b } := by
  obtain ⟨l, h⟩ := h
  unfold saveConstr
  rw [h.layers]
  simp only
  split
  · rename_i hk
    exact ⟨l, ⟨h.layers, h.nVars, h.varDists, h.distConstrs, h.dshape, h.pshape, h.dlog, h.plog,
      CLog_assign h.clog (lookupPair_isSome hk) b, sorted_assign h.sorted _ _, h.bsorted⟩⟩
  · rename_i hk
    refine ⟨{ l with oldConstrs := emplacePair l.oldConstrs k (lookupPair t.distConstr k) },
      ⟨rfl, h.nVars, h.varDists, h.distConstrs, h.dshape, h.pshape, h.dlog, h.plog, ?_, sorted_assign h.sorted _ _, h.bsorted⟩⟩
    exact CLog_assign (CLog_save_new h.clog (lookupPair_not_isSome hk)) (emplace_has _ _ _) b

theorem foldl_inv {σ γ : Type} (Q : σ → Prop) (f : σ → γ → σ) (hf : ∀ s a, Q s → Q (f s a)) :
    ∀ (l : List γ) (s : σ), Q s → Q (l.foldl f s)
  | [], _, h => h
  | a :: l, s, h => foldl_inv Q f hf l (f s a) (hf s a h)

def stepA (src dst : Nat) (dist : α) (u : Nat) (t : Dl α) (si : List Nat) (ups : List (Nat × Nat)) :
    Dl α × List Nat × List (Nat × Nat) :=
  if O.finiteGuard (d O t u src) && O.lt (d O t u src) (O.sub (d O t u dst) dist) then
    (setPred (setDist O t u dst (O.add (d O t u src) dist)) u dst src, si ++ [u], ups ++ [(u, dst), (dst, u)])
  else (t, si, ups)

def stepB (src dst : Nat) (dist : α) (u : Nat) (t : Dl α) (sj : List Nat) (ups : List (Nat × Nat)) :
    Dl α × List Nat × List (Nat × Nat) :=
  if O.finiteGuard (d O t dst u) && O.lt (d O t dst u) (O.sub (d O t src u) dist) then
    (setPred (setDist O t src u (O.add (d O t dst u) dist)) src u (p (setDist O t src u (O.add (d O t dst u) dist)) dst u), sj ++ [u], ups ++ [(src, u), (u, src)])
  else (t, sj, ups)

theorem phase1_succ (t0 : Dl α) (src dst : Nat) (dist : α) (n u : Nat) (t : Dl α) (si sj : List Nat) (ups : List (Nat × Nat)) :
    phase1 O t0 src dst dist (n + 1) u (t, si, sj, ups) =
      phase1 O (stepB O src dst dist u (stepA O src dst dist u t si ups).1 sj (stepA O src dst dist u t si ups).2.2).1
        src dst dist n (u + 1)
        ((stepB O src dst dist u (stepA O src dst dist u t si ups).1 sj (stepA O src dst dist u t si ups).2.2).1,
         (stepA O src dst dist u t si ups).2.1,
         (stepB O src dst dist u (stepA O src dst dist u t si ups).1 sj (stepA O src dst dist u t si ups).2.2).2.1,
         (stepB O src dst dist u (stepA O src dst dist u t si ups).1 sj (stepA O src dst dist u t si ups).2.2).2.2) := by
  conv => lhs; unfold phase1
  unfold stepA stepB
  split <;> simp only <;> split <;> rfl

/-! ### anything preserved by `setDist` and `setPred` is preserved by `propagateEdge` -/
section Pres
variable (P : Dl α → Prop) (hD : ∀ t i j x, P t → P (setDist O t i j x)) (hP : ∀ t i j x, P t → P (setPred t i j x))
include hD hP

theorem stepA_pres (src dst : Nat) (dist : α) (u : Nat) (t : Dl α) (si : List Nat) (ups : List (Nat × Nat)) (h : P t) :
    P (stepA O src dst dist u t si ups).1 := by
  unfold stepA
  split
  · exact hP _ _ _ _ (hD _ _ _ _ h)
  · exact h

theorem stepB_pres (src dst : Nat) (dist : α) (u : Nat) (t : Dl α) (sj : List Nat) (ups : List (Nat × Nat)) (h : P t) :
    P (stepB O src dst dist u t sj ups).1 := by
  unfold stepB
  split
  · exact hP _ _ _ _ (hD _ _ _ _ h)
  · exact h

theorem phase1_pres (src dst : Nat) (dist : α) : ∀ (n : Nat) (t0 : Dl α) (u : Nat) (acc : Dl α × List Nat × List Nat × List (Nat × Nat)),
    P acc.1 → P (phase1 O t0 src dst dist n u acc).1
  | 0, _, _, acc, h => by unfold phase1; exact h
  | n + 1, t0, u, (t, si, sj, ups), h => by
    rw [phase1_succ]
    apply phase1_pres src dst dist n
    exact stepB_pres O P hD hP _ _ _ _ _ _ _ (stepA_pres O P hD hP _ _ _ _ _ _ _ h)

theorem phase2_pres (t : Dl α) (dst : Nat) (si sj : List Nat) (ups : List (Nat × Nat)) (h : P t) :
    P (phase2 O t dst si sj ups).1 := by
  unfold phase2
  apply foldl_inv (fun acc : Dl α × List (Nat × Nat) => P acc.1) _ ?_ si (t, ups) h
  intro acc i hacc
  apply foldl_inv (fun acc : Dl α × List (Nat × Nat) => P acc.1) _ ?_ sj acc hacc
  intro acc j hacc
  obtain ⟨t, ups⟩ := acc
  simp only
  split
  · exact hP _ _ _ _ (hD _ _ _ _ hacc)
  · exact hacc

theorem propagateEdge_pres (s : Sat) (t : Dl α) (a b : Nat) (x : α) (h : P t) : P (propagateEdge O s t a b x).2 := by
  have h1 := hP _ a b a (hD _ a b x h)
  have h2 := phase1_pres O P hD hP a b x (setPred (setDist O t a b x) a b a).nVars (setPred (setDist O t a b x) a b a) 0
    (setPred (setDist O t a b x) a b a, [], [], [(a, b), (b, a)]) h1
  exact phase2_pres O P hD hP _ b _ _ _ h2

end Pres

theorem Lg_propagateEdge {B t : Dl α} (h : Lg O B t) (s : Sat) (a b : Nat) (x : α) :
    Lg O B (propagateEdge O s t a b x).2 :=
  propagateEdge_pres O (Lg O B) (fun _ i j x h => Lg_setDist O h i j x) (fun _ i j x h => Lg_setPred O h i j x) s t a b x h

theorem Lg_propagateLit {B t : Dl α} (h : Lg O B t) (s : Sat) (pl : Lit) {s' : Sat} {t' : Dl α}
    (he : propagateLit O s t pl = .inr (s', t')) : Lg O B t' := by
  unfold propagateLit at he
  split at he
  · cases he; exact h
  · rename_i c hc
    split at he
    · split at he
      · cases he
      · split at he
        · cases he
          exact Lg_propagateEdge O (Lg_saveAssign O h (c.src, c.dst) c.b) s _ _ _
        · cases he; exact h
    · split at he
      · cases he
      · split at he
        · cases he
          exact Lg_propagateEdge O (Lg_saveAssign O h (c.dst, c.src) c.b) s _ _ _
        · cases he; exact h
    · cases he; exact h

/-! ### pop -/

theorem foldl_setD (log : List (K × α)) : ∀ t : Dl α,
    log.foldl (fun t e => setD t e.1.1 e.1.2 e.2) t =
      { t with dists := log.foldl (fun D e => setM D e.1.1 e.1.2 e.2) t.dists } := by
  induction log with
  | nil => intro t; rfl
  | cons e log ih => intro t; simp only [List.foldl_cons]; rw [ih]; rfl

theorem foldl_setP (log : List (K × Nat)) : ∀ t : Dl α,
    log.foldl (fun t e => setP t e.1.1 e.1.2 e.2) t =
      { t with preds := log.foldl (fun D e => setM D e.1.1 e.1.2 e.2) t.preds } := by
  induction log with
  | nil => intro t; rfl
  | cons e log ih => intro t; simp only [List.foldl_cons]; rw [ih]; rfl

theorem foldl_restoreC (log : List (K × Option Nat)) (dc : List (K × Nat)) :
    log.foldl (fun dc e => match e.2 with
      | some b => assignPair dc e.1 b
      | none => erasePair dc e.1) dc = log.foldl restoreC dc := rfl

theorem pop_of_logged {B cur : Dl α} {l : DLayer α} (h : Logged O B cur l) : cur.pop = B := by
  unfold pop
  rw [h.layers]
  simp only
  rw [foldl_setD, foldl_setP]
  simp only
  show Dl.mk _ _ _ (List.foldl restoreC cur.distConstr l.oldConstrs) _ _ _ = B
  rw [MLog_restore h.dshape h.dlog, MLog_restore h.pshape h.plog,
    CLog_restore h.bsorted h.sorted h.clog, h.nVars, h.varDists, h.distConstrs]

theorem pop_of_Lg {B cur : Dl α} (h : Lg O B cur) : cur.pop = B := by
  obtain ⟨l, h⟩ := h; exact pop_of_logged O h

theorem Lg_sorted {B cur : Dl α} (h : Lg O B cur) : SortedK cur.distConstr ∧ SortedK B.distConstr := by
  obtain ⟨l, h⟩ := h; exact ⟨h.sorted, h.bsorted⟩

/-! ### nesting: a stack of open levels -/

/-- `bases` are the states at the open `push`es, innermost first -/
def Chain : List (Dl α) → Dl α → Prop
  | [], _ => True
  | B :: bs, cur => Lg O B cur ∧ Chain bs B

def bottom : List (Dl α) → Dl α → Dl α
  | [], cur => cur
  | B :: bs, _ => bottom bs B

end Undo
end Oratio
