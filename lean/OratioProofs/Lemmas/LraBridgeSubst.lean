/-
Helper lemmas for `Properties/C09Bridge.lean`, part 6: `Lra.substBasic` (the loop of `new_var(lin)`
and `new_lt … new_gt` replacing the basic variables of an expression by their rows).
-/
import OratioModel
import OratioProofs.Lemmas.LraBridgeMain

namespace Oratio
namespace Lra
open Lin

/-- the loop body of `substBasic` -/
def substStep (t : Lra) (e : Lin) (v : Nat) : Lin :=
  match t.rowOf v with
  | some rl =>
    let c := (Lin.find e.vars v).getD R.zero
    Lin.addAssign { e with vars := Lin.erase e.vars v } (Lin.mulR rl c)
  | none => e

theorem substBasic_eq (t : Lra) (l : Lin) : substBasic t l = (l.vars.map (·.1)).foldl (substStep t) l := rfl

theorem getD_finWF {m : List (Nat × R)} (hw : CoefWF m) (v : Nat) : R.FinWF ((Lin.find m v).getD R.zero) := by
  cases h : Lin.find m v with
  | none => exact R.finWF_zero
  | some c => exact coefWF_find hw h

theorem substStep_spec {t : Lra} (hrows : ∀ r l, t.rowOf r = some l → l.WF) {e : Lin} (he : e.WF) (v : Nat) :
    (substStep t e v).WF ∧
    (∀ σ, HoldsR t σ → Lin.evalS (substStep t e v) σ = Lin.evalS e σ) ∧
    (∀ w, (Lin.find (substStep t e v).vars w).isSome = true →
      (w ≠ v ∧ (Lin.find e.vars w).isSome = true) ∨ (t.rowOf v = none ∧ (Lin.find e.vars w).isSome = true) ∨
      ∃ rl, t.rowOf v = some rl ∧ (Lin.find rl.vars w).isSome = true) := by
  unfold substStep
  cases hr : t.rowOf v with
  | none =>
    exact ⟨he, fun _ _ => rfl, fun w hw => Or.inr (Or.inl ⟨rfl, hw⟩)⟩
  | some rl =>
    simp only
    obtain ⟨es, ew, ek⟩ := (wf_iff e).1 he
    have hc : R.FinWF ((Lin.find e.vars v).getD R.zero) := getD_finWF ew v
    have he0 : ({ e with vars := Lin.erase e.vars v } : Lin).WF :=
      (wf_iff _).2 ⟨sorted_erase _ es, coefWF_erase ew, ek⟩
    obtain ⟨m1, -, -, m4⟩ := mulR_spec rl _ (hrows v rl hr) hc
    obtain ⟨a1, -, -, a4, a5⟩ := add_spec _ _ he0 m1
    rw [a5]
    refine ⟨a1, ?_, ?_⟩
    · intro σ hσ
      rw [a4, m4, ← hσ v rl hr, evalS_eq, evalS_eq]
      show sumS σ (Lin.erase e.vars v) + e.known.toRat + _ = _
      rw [sumS_erase_getD]
      ring
    · intro w hw
      obtain ⟨ms, mw, -⟩ := (wf_iff _).1 m1
      rcases foldl_addTerm_keys (Lin.mulR rl ((Lin.find e.vars v).getD R.zero)).vars (Lin.erase e.vars v)
        (sorted_erase _ es) (coefWF_erase ew) mw w hw with h | h
      · exact Or.inl ((find_erase_isSome _ _ es).1 h)
      · refine Or.inr (Or.inr ⟨rl, rfl, ?_⟩)
        have : (Lin.mulR rl ((Lin.find e.vars v).getD R.zero)).vars =
            mapC (fun x => R.mulAssign x ((Lin.find e.vars v).getD R.zero)) rl.vars := rfl
        rw [this, find_mapC_isSome] at h
        exact h

theorem substFold_spec {t : Lra} (hrows : ∀ r l, t.rowOf r = some l → l.WF) :
    ∀ (ks : List Nat) (e : Lin), e.WF →
      ((ks.foldl (substStep t) e).WF ∧
       (∀ σ, HoldsR t σ → Lin.evalS (ks.foldl (substStep t) e) σ = Lin.evalS e σ) ∧
       (∀ w, (Lin.find (ks.foldl (substStep t) e).vars w).isSome = true →
         (Lin.find e.vars w).isSome = true ∨ ∃ r rl, t.rowOf r = some rl ∧ (Lin.find rl.vars w).isSome = true) ∧
       ((∀ r l v, t.rowOf r = some l → (Lin.find l.vars v).isSome = true → t.rowOf v = none) →
         (∀ w, (Lin.find e.vars w).isSome = true → t.rowOf w = none ∨ w ∈ ks) →
         ∀ w, (Lin.find (ks.foldl (substStep t) e).vars w).isSome = true → t.rowOf w = none)) := by
  intro ks
  induction ks with
  | nil =>
    intro e he
    refine ⟨he, fun _ _ => rfl, fun w hw => Or.inl hw, ?_⟩
    intro _ h w hw
    rcases h w hw with h | h
    · exact h
    · cases h
  | cons v ks ih =>
    intro e he
    obtain ⟨s1, s2, s3⟩ := substStep_spec hrows he v
    obtain ⟨i1, i2, i3, i4⟩ := ih (substStep t e v) s1
    rw [List.foldl_cons]
    refine ⟨i1, ?_, ?_, ?_⟩
    · intro σ hσ
      rw [i2 σ hσ, s2 σ hσ]
    · intro w hw
      rcases i3 w hw with h | h
      · rcases s3 w h with h | h | ⟨rl, hr, h⟩
        · exact Or.inl h.2
        · exact Or.inl h.2
        · exact Or.inr ⟨v, rl, hr, h⟩
      · exact Or.inr h
    · intro hnb h
      apply i4 hnb
      intro w hw
      rcases s3 w hw with ⟨hne, hk⟩ | ⟨hn, hk⟩ | ⟨rl, hr, hk⟩
      · rcases h w hk with h' | h'
        · exact Or.inl h'
        · rcases List.mem_cons.1 h' with h' | h'
          · exact absurd h' hne
          · exact Or.inr h'
      · rcases h w hk with h' | h'
        · exact Or.inl h'
        · rcases List.mem_cons.1 h' with h' | h'
          · exact Or.inl (h' ▸ hn)
          · exact Or.inr h'
      · exact Or.inl (hnb v rl w hr hk)

theorem substBasic_spec {t : Lra} (hrows : ∀ r l, t.rowOf r = some l → l.WF) {l : Lin} (hl : l.WF) :
    (substBasic t l).WF ∧
    (∀ σ, HoldsR t σ → Lin.evalS (substBasic t l) σ = Lin.evalS l σ) ∧
    (∀ w, (Lin.find (substBasic t l).vars w).isSome = true →
      (Lin.find l.vars w).isSome = true ∨ ∃ r rl, t.rowOf r = some rl ∧ (Lin.find rl.vars w).isSome = true) ∧
    ((∀ r l v, t.rowOf r = some l → (Lin.find l.vars v).isSome = true → t.rowOf v = none) →
      ∀ w, (Lin.find (substBasic t l).vars w).isSome = true → t.rowOf w = none) := by
  rw [substBasic_eq]
  obtain ⟨f1, f2, f3, f4⟩ := substFold_spec hrows (l.vars.map (·.1)) l hl
  refine ⟨f1, f2, f3, fun hnb => f4 hnb ?_⟩
  intro w hw
  obtain ⟨c, hc⟩ := find_isSome_iff.1 hw
  exact Or.inr (List.mem_map.2 ⟨(w, c), hc, rfl⟩)

end Lra
end Oratio
