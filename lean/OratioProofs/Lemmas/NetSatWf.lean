/-
C07N: a WEAK well-formedness of the SAT core, sufficient for SOUNDNESS and kept by the network.

`Sat.Wf` (C07) is not an invariant of the network (`C07N_lra_not_pure`): theory lemmas handed to
`record` may contain FALSE_lit and repeated literals.  `Sat.WfS` keeps the value/trail/level
invariant `WfA` unchanged and replaces the clause, reason and watch invariants by what soundness
needs:
  * clause ids are distinct and below `nextId`, clause variables exist;
  * `WfRN`: the reason clause of a trail literal has it as head and every other literal is FALSE_lit or
    has its negation EARLIER on the trail;
  * a clause in the watch list of `p` contains `¬p` (anywhere).
Nothing is required about repeated literals, the positions of the watched literals or the
completeness of the watch lists (those are what C07's BCP-completeness theorems need).
-/
import OratioModel
import OratioProofs.Lemmas.SatCoreSearch

set_option linter.unusedSimpArgs false
set_option linter.unusedVariables false

namespace Oratio
namespace Sat

def WfRN (s : Sat) : Prop :=
  ∀ l b, (l :: b) <:+ s.trail → ∀ id, s.reason.getD l.var none = some id →
    ∃ rest, (id, l :: rest) ∈ s.cls ∧ ∀ r ∈ rest, r.neg ∈ b ∨ r = Lit.falseLit

structure WfS (s : Sat) : Prop where
  a : s.WfA
  /-- variable 0 (the false constant) is of level 0 -/
  lvl0 : s.level.getD 0 0 = 0
  idlt : ∀ e ∈ s.cls, e.1 < s.nextId
  ids : (s.cls.map (·.1)).Nodup
  rng : ∀ e ∈ s.cls, ∀ l ∈ e.2, l.var < s.vals.length
  r : s.WfRN
  w : ∀ i id, id ∈ s.watches.getD i [] → ∃ c, (id, c) ∈ s.cls ∧ ∃ l ∈ c, l.neg.idx = i

theorem Wf.toS {s : Sat} (h : s.Wf) (h0 : s.level.getD 0 0 = 0) : s.WfS := by
  refine ⟨h.a, h0, h.c.clsId, h.c.clsIdNodup, h.c.clsRange, ?_, ?_⟩
  · intro l b hs id hr
    obtain ⟨rest, hm, hb⟩ := h.r l b hs id hr
    exact ⟨rest, hm, fun r hr' => Or.inl (hb r hr')⟩
  · intro i id hid
    obtain ⟨l0, l1, rest, hm, hor⟩ := h.w.sound i id hid
    rcases hor with e | e
    · exact ⟨_, hm, l0, by simp, e⟩
    · exact ⟨_, hm, l1, by simp, e⟩

/-! ### clause lookup with distinct ids only -/

theorem clauseOf_of_mem' {s : Sat} (hnd : (s.cls.map (·.1)).Nodup) {id : Nat} {c : Clause} (hm : (id, c) ∈ s.cls) :
    s.clauseOf id = c := by
  unfold clauseOf
  generalize s.cls = cls at hm hnd
  induction cls with
  | nil => cases hm
  | cons e t ih =>
    simp only [List.map_cons, List.nodup_cons] at hnd
    rcases List.mem_cons.1 hm with rfl | hm'
    · simp
    · have : e.1 ≠ id := by
        intro e'; apply hnd.1; rw [e']; exact List.mem_map.2 ⟨_, hm', rfl⟩
      have hb : (e.1 == id) = false := by simpa using this
      simp only [List.find?_cons, hb]
      exact ih hm' hnd.2

theorem mem_unique' {s : Sat} (hnd : (s.cls.map (·.1)).Nodup) {id : Nat} {c d : Clause} (h1 : (id, c) ∈ s.cls)
    (h2 : (id, d) ∈ s.cls) : c = d := by
  rw [← clauseOf_of_mem' hnd h1, clauseOf_of_mem' hnd h2]

theorem mem_setClause' {s : Sat} {id : Nat} {c c' : Clause} (hm : (id, c) ∈ s.cls) {e : Nat × Clause} :
    e ∈ (s.setClause id c').cls ↔ (e ∈ s.cls ∧ e.1 ≠ id) ∨ e = (id, c') := by
  simp only [setClause, List.mem_map]
  constructor
  · rintro ⟨x, hx, rfl⟩
    by_cases hid : x.1 = id
    · right; simp [hid]
    · left; simp [hid, hx]
  · rintro (⟨he, hne⟩ | rfl)
    · exact ⟨e, he, by simp [hne]⟩
    · exact ⟨(id, c), hm, by simp⟩

/-! ### the components under the elementary updates -/

theorem WfS.of_eq {s t : Sat} (h : s.WfS) (hv : t.vals = s.vals) (hl : t.level = s.level)
    (hr : t.reason = s.reason) (ht : t.trail = s.trail) (hlim : t.trailLim = s.trailLim)
    (hd : t.decisions = s.decisions) (hq : t.queue = s.queue) (he : t.exprs = s.exprs)
    (hc : t.cls = s.cls) (hn : t.nextId = s.nextId) (hw : t.watches = s.watches) : t.WfS := by
  refine ⟨h.a.of_eq hv hl hr ht hlim hd hq he, by rw [hl]; exact h.lvl0, by rw [hc, hn]; exact h.idlt, by rw [hc]; exact h.ids,
    by rw [hc, hv]; exact h.rng, ?_, by rw [hw, hc]; exact h.w⟩
  intro l b hs id hr'
  rw [ht] at hs; rw [hr] at hr'; rw [hc]
  exact h.r l b hs id hr'

theorem WfS.queue_sub {s : Sat} (h : s.WfS) (q : List Lit) (hq : ∀ x ∈ q, x ∈ s.queue) :
    ({ s with queue := q } : Sat).WfS :=
  ⟨h.a.queue_sub q hq, h.lvl0, h.idlt, h.ids, h.rng, h.r, h.w⟩

theorem WfS.setWatches {s : Sat} (h : s.WfS) (ws : List (List Nat))
    (hws : ∀ i id, id ∈ ws.getD i [] → id ∈ s.watches.getD i []) : ({ s with watches := ws } : Sat).WfS :=
  ⟨h.a.of_eq rfl rfl rfl rfl rfl rfl rfl rfl, h.lvl0, h.idlt, h.ids, h.rng, h.r, fun i id hid => h.w i id (hws i id hid)⟩

theorem WfS.enq {s : Sat} {p : Lit} {c : Option Nat} (h : s.WfS) (hp : s.value p = none) (hlt : p.var < s.vals.length)
    (hc0 : c = none → s.decisionLevel = 0 ∨ ∀ x ∈ s.trail, s.lvl x < s.decisionLevel)
    (hc : ∀ id, c = some id → ∃ rest, (id, p :: rest) ∈ s.cls ∧ ∀ r ∈ rest, r.neg ∈ s.trail ∨ r = Lit.falseLit) :
    (s.enq p c).WfS := by
  refine ⟨h.a.enq hp hlt hc0, ?_, h.idlt, h.ids, ?_, ?_, h.w⟩
  · have hp0 := h.a.var_ne_zero_of_none hp
    simp only [Sat.enq]
    rw [getD_set_ne _ _ _ _ _ hp0]; exact h.lvl0
  · intro e he l hl
    have := h.rng e he l hl
    simpa [Sat.enq] using this
  · have hne : ∀ l ∈ s.trail, l.var ≠ p.var := fun l hl => h.a.trail_var_ne hl hp
    intro l b hs id hr
    rcases List.suffix_cons_iff.1 hs with e | hs'
    · injection e with e1 e2; subst e1 e2
      rw [enq_reason_self h.a hlt] at hr
      exact hc id hr
    · have hl : l ∈ s.trail := hs'.subset (List.mem_cons_self ..)
      rw [enq_reason_ne (hne l hl)] at hr
      exact h.r l b hs' id hr

theorem WfS.watch {s : Sat} (h : s.WfS) {l : Lit} {id : Nat} {c : Clause} (hm : (id, c) ∈ s.cls) (hl : l.neg ∈ c) :
    (s.watch l id).WfS := by
  refine ⟨h.a.of_eq rfl rfl rfl rfl rfl rfl rfl rfl, h.lvl0, h.idlt, h.ids, h.rng, h.r, ?_⟩
  intro i id' hid
  rw [watch_getD] at hid
  split at hid
  · rename_i hc
    rcases List.mem_append.1 hid with hid | hid
    · exact h.w i id' hid
    · rw [List.mem_singleton.1 hid]
      exact ⟨c, hm, l.neg, hl, by rw [Lit.neg_neg]; exact hc.1⟩
  · exact h.w i id' hid

theorem WfS.setClause {s : Sat} (h : s.WfS) {id : Nat} {c c' : Clause} (hm : (id, c) ∈ s.cls) (hp : c'.Perm c)
    (hh : ∀ l r, c = l :: r → l ∈ s.trail → s.reason.getD l.var none = some id → ∃ r', c' = l :: r') :
    (s.setClause id c').WfS := by
  have hmem := fun e => @mem_setClause' s id c c' hm e
  refine ⟨h.a.setClause id c', h.lvl0, ?_, by rw [setClause_ids]; exact h.ids, ?_, ?_, ?_⟩
  · intro e he
    rcases (hmem e).1 he with ⟨he, _⟩ | rfl
    · exact h.idlt e he
    · exact h.idlt (id, c) hm
  · intro e he
    rcases (hmem e).1 he with ⟨he, _⟩ | rfl
    · exact h.rng e he
    · intro l hl; exact h.rng _ hm l (hp.mem_iff.1 hl)
  · intro l b hs id' hr
    obtain ⟨rest, hmr, hb⟩ := h.r l b hs id' hr
    by_cases hid : id' = id
    · subst hid
      have e : c = l :: rest := mem_unique' h.ids hm hmr
      obtain ⟨r', e'⟩ := hh l rest e (hs.subset (List.mem_cons_self ..)) hr
      have hpr : r'.Perm rest := by
        rw [e, e'] at hp
        exact List.Perm.cons_inv hp
      exact ⟨r', (hmem _).2 (Or.inr (by rw [e'])), fun x hx => hb x (hpr.mem_iff.1 hx)⟩
    · exact ⟨rest, (hmem _).2 (Or.inl ⟨hmr, hid⟩), hb⟩
  · intro i id' hid
    obtain ⟨d, hd, l, hl, hi⟩ := h.w i id' hid
    by_cases hid' : id' = id
    · subst hid'
      have e : d = c := mem_unique' h.ids hd hm
      exact ⟨c', (hmem _).2 (Or.inr rfl), l, hp.mem_iff.2 (e ▸ hl), hi⟩
    · exact ⟨d, (hmem _).2 (Or.inl ⟨hd, hid'⟩), l, hl, hi⟩

theorem Ent.setClause' {orig K : Cnf} {s : Sat} (hnd : (s.cls.map (·.1)).Nodup) (h : s.Ent orig K) {id : Nat}
    {c c' : Clause} (hm : (id, c) ∈ s.cls) (hp : c'.Perm c) : (s.setClause id c').Ent orig K := by
  have hmem := fun e => @mem_setClause' s id c c' hm e
  refine ⟨?_, h.trail, h.log, h.dead, ?_⟩
  · intro e he
    rcases (hmem e).1 he with ⟨he, _⟩ | rfl
    · exact h.clauses e he
    · exact (h.clauses _ hm).weaken (fun l hl => hp.mem_iff.2 hl)
  · intro hd α h0 hcl hroot
    apply h.keeps hd α h0 _ hroot
    simp only [Asg.cnf, List.all_map, List.all_eq_true, Function.comp] at hcl ⊢
    intro e he
    by_cases hid : e.1 = id
    · have := hcl (id, c') ((hmem _).2 (Or.inr rfl))
      have e2 : e.2 = c := mem_unique' hnd (by rw [← hid]; exact he) hm
      rw [e2, ← Asg.clause_perm α hp]; exact this
    · exact hcl e ((hmem e).2 (Or.inl ⟨he, hid⟩))

theorem WfS.addClause {s : Sat} {l0 l1 : Lit} {rest : List Lit} (h : s.WfS)
    (hr : ∀ l ∈ l0 :: l1 :: rest, l.var < s.vals.length) : (s.addClause (l0 :: l1 :: rest)).2.WfS := by
  have h1 : ({ s with cls := s.cls ++ [(s.nextId, l0 :: l1 :: rest)], nextId := s.nextId + 1 } : Sat).WfS := by
    refine ⟨h.a.of_eq rfl rfl rfl rfl rfl rfl rfl rfl, h.lvl0, ?_, ?_, ?_, ?_, ?_⟩
    · intro e he
      rcases List.mem_append.1 he with he | he
      · have := h.idlt e he; show e.1 < s.nextId + 1; omega
      · simp only [List.mem_singleton] at he; subst he; show s.nextId < s.nextId + 1; omega
    · show ((s.cls ++ [(s.nextId, l0 :: l1 :: rest)]).map (·.1)).Nodup
      rw [List.map_append, List.nodup_append]
      refine ⟨h.ids, by simp, ?_⟩
      intro a ha b hb
      simp only [List.map_cons, List.map_nil, List.mem_singleton] at hb
      obtain ⟨e, he, rfl⟩ := List.mem_map.1 ha
      have := h.idlt e he
      omega
    · intro e he
      rcases List.mem_append.1 he with he | he
      · exact h.rng e he
      · simp only [List.mem_singleton] at he; subst he; exact hr
    · intro l b hs id hr'
      obtain ⟨r, hm, hb⟩ := h.r l b hs id hr'
      exact ⟨r, List.mem_append_left _ hm, hb⟩
    · intro i id hid
      obtain ⟨c, hc, hl⟩ := h.w i id hid
      exact ⟨c, List.mem_append_left _ hc, hl⟩
  rw [addClause_eq]
  have hm : (s.nextId, l0 :: l1 :: rest) ∈
      ({ s with cls := s.cls ++ [(s.nextId, l0 :: l1 :: rest)], nextId := s.nextId + 1 } : Sat).cls :=
    List.mem_append_right _ (List.mem_singleton.2 rfl)
  have h2 := h1.watch (l := l0.neg) hm (by rw [Lit.neg_neg]; simp)
  exact h2.watch (l := l1.neg) (c := l0 :: l1 :: rest) hm (by rw [Lit.neg_neg]; simp)

/-- unit propagation entails the head when every other literal is FALSE_lit or false on the trail -/
theorem ents_unitN {orig K : Cnf} {s : Sat} (ha : s.WfA) (he : s.Ent orig K) {a : Lit} {rest : List Lit}
    (hcl : Ents orig (a :: rest)) (hr : ∀ r ∈ rest, r.neg ∈ s.trail ∨ r = Lit.falseLit) :
    Ents (orig ++ units s.decisions) [a] := by
  intro α h0 hF
  rw [Asg.cnf_append] at hF
  simp only [Bool.and_eq_true] at hF
  have h1 := hcl α h0 hF.1
  simp only [Asg.clause, List.any_cons, Bool.or_eq_true, List.any_eq_true] at h1 ⊢
  rcases h1 with h1 | ⟨r, hrm, hv⟩
  · simp [h1]
  · exfalso
    rcases hr r hrm with hrt | rfl
    · have := he.trail _ hrt α h0 (by
        rw [Asg.cnf_append]
        simp only [Bool.and_eq_true]
        refine ⟨hF.1, ?_⟩
        have h2 := hF.2
        rw [Asg.cnf_units, List.all_eq_true] at h2 ⊢
        exact fun d hd => h2 d (decsUpTo_sub _ _ d hd))
      simp only [Asg.clause, List.any_cons, List.any_nil, Bool.or_false] at this
      rw [Asg.lit_neg] at this
      simp [hv] at this
    · simp [Asg.lit, Lit.falseLit, h0] at hv

end Sat
end Oratio
