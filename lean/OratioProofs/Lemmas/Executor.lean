/-
Lemmas on the dispatch loop of the executor (`OratioModel/Exec/Executor.lean`):
`atPulse`/`addAt`, what `buildTimelines` builds, one `iteration`, the `manage` loop.
-/
import OratioModel
import OratioProofs.Lemmas.Sweep

namespace Oratio.Exec
open Oratio.Sweep

/-! ### what a piece of the loop did (the same functions as `startedBy` … of the property file) -/

def startsOf (ev : List Event) : List Nat := ev.flatMap (fun e => match e with | .start l => l | _ => [])
def endsOf (ev : List Event) : List Nat := ev.flatMap (fun e => match e with | .stop l => l | _ => [])
def dStartsOf (ev : List Event) : List Nat := ev.flatMap (fun e => match e with | .delayStart i _ => [i] | _ => [])
def dEndsOf (ev : List Event) : List Nat := ev.flatMap (fun e => match e with | .delayEnd i _ => [i] | _ => [])

/-! ### `atPulse` and `addAt` -/

theorem mem_atPulse {m : List (Time × List Nat)} {p : Time} {i : Nat} (h : i ∈ atPulse m p) :
    ∃ e ∈ m, e.1 = p ∧ i ∈ e.2 := by
  unfold atPulse at h
  cases hf : m.find? (fun e => e.1 == p) with
  | none => simp [hf] at h
  | some e =>
    simp only [hf, Option.map_some, Option.getD_some] at h
    have h1 := List.find?_some hf
    exact ⟨e, List.mem_of_find?_eq_some hf, by simpa using h1, h⟩

/-- the atoms at pulse `q` after `addAt m p i` -/
theorem atPulse_addAt (m : List (Time × List Nat)) (p q : Time) (i : Nat) :
    atPulse (addAt m p i) q =
      if q = p then (if (atPulse m p).contains i then atPulse m p else atPulse m p ++ [i]) else atPulse m q := by
  unfold addAt
  split
  · rename_i hany
    unfold atPulse
    rw [List.find?_map]
    have hcomp : ((fun e : Time × List Nat => e.1 == q) ∘
        (fun e : Time × List Nat => if e.1 == p then (e.1, if e.2.contains i then e.2 else e.2 ++ [i]) else e)) =
        (fun e => e.1 == q) := by
      funext e; simp only [Function.comp]; split <;> rfl
    rw [hcomp]
    by_cases hq : q = p
    · subst hq
      simp only [if_true]
      cases hf : m.find? (fun e => e.1 == q) with
      | none =>
        rw [List.find?_eq_none] at hf
        rcases List.any_eq_true.1 hany with ⟨e, he, hep⟩
        exact absurd hep (hf e he)
      | some e =>
        have h1 : e.1 = q := by simpa using List.find?_some hf
        simp [h1]
    · simp only [if_neg hq]
      cases hf : m.find? (fun e => e.1 == q) with
      | none => simp
      | some e =>
        have h1 : e.1 = q := by simpa using List.find?_some hf
        have h2 : ¬ e.1 = p := h1 ▸ hq
        simp [h2]
  · rename_i hany
    have hnone : m.find? (fun e => e.1 == p) = none := by
      rw [List.find?_eq_none]
      intro e he hep
      exact hany (List.any_eq_true.2 ⟨e, he, hep⟩)
    unfold atPulse
    rw [List.find?_append]
    by_cases hq : q = p
    · subst hq
      simp [hnone]
    · have : (p == q) = false := by simpa using fun h => hq h.symm
      simp [hq, this]

theorem mem_atPulse_addAt {m : List (Time × List Nat)} {p q : Time} {i j : Nat} :
    j ∈ atPulse (addAt m p i) q ↔ j ∈ atPulse m q ∨ (j = i ∧ q = p) := by
  rw [atPulse_addAt]
  by_cases hq : q = p
  · subst hq
    simp only [if_true]
    split
    · rename_i hc
      have : i ∈ atPulse m q := by simpa using hc
      constructor
      · exact Or.inl
      · rintro (h | ⟨rfl, -⟩)
        · exact h
        · exact this
    · simp
  · simp [hq]

theorem nodup_atPulse_addAt {m : List (Time × List Nat)} {p q : Time} {i : Nat} (h : (atPulse m q).Nodup) :
    (atPulse (addAt m p i) q).Nodup := by
  rw [atPulse_addAt]
  by_cases hq : q = p
  · subst hq
    simp only [if_true]
    split
    · exact h
    · rename_i hc
      have : i ∉ atPulse m q := by simpa using hc
      refine List.nodup_append.2 ⟨h, by simp, ?_⟩
      intro a ha b hb hab
      simp only [List.mem_singleton] at hb
      exact this (hb ▸ hab ▸ ha)
  · simpa [hq] using h

theorem keys_addAt (m : List (Time × List Nat)) (p : Time) (i : Nat) :
    (addAt m p i).map (·.1) = if m.any (fun e => e.1 == p) then m.map (·.1) else m.map (·.1) ++ [p] := by
  unfold addAt
  split
  · rw [List.map_map]
    apply List.map_congr_left
    intro e _
    simp only [Function.comp]; split <;> rfl
  · simp

theorem nodup_keys_addAt {m : List (Time × List Nat)} {p : Time} {i : Nat} (h : (m.map (·.1)).Nodup) :
    ((addAt m p i).map (·.1)).Nodup := by
  rw [keys_addAt]
  split
  · exact h
  · rename_i hany
    refine List.nodup_append.2 ⟨h, by simp, ?_⟩
    intro a ha b hb
    simp only [List.mem_singleton] at hb
    subst hb
    rintro rfl
    rcases List.mem_map.1 ha with ⟨e, he, rfl⟩
    exact hany (List.any_eq_true.2 ⟨e, he, by simp⟩)


/-! ### what `buildTimelines` builds -/

/-- one step of the fold of `buildTimelines` -/
def bstep (x : Exec) (a : XAtom) : Exec :=
  if x.ended.contains a.id then x
  else if a.impulse then
    { x with sAtms := addAt x.sAtms a.start a.id, eAtms := addAt x.eAtms a.start a.id, pulses := insertPulse a.start x.pulses }
  else
    let x := if x.started.contains a.id then x
             else { x with sAtms := addAt x.sAtms a.start a.id, pulses := insertPulse a.start x.pulses }
    { x with eAtms := addAt x.eAtms a.stop a.id, pulses := insertPulse a.stop x.pulses }

theorem buildTimelines_eq (x : Exec) (plan : List XAtom) :
    buildTimelines x plan = plan.foldl bstep { x with sAtms := [], eAtms := [], pulses := [] } := rfl

/-- the pulse at which an atom ends: an impulse ends where it starts -/
def endPulse (a : XAtom) : Time := if a.impulse then a.start else a.stop

/-- the timelines built from the atoms `done` of the plan, for the dispatch sets `st` / `en` -/
structure BInv (st en : List Nat) (done : List XAtom) (y : Exec) : Prop where
  hst : y.started = st
  hen : y.ended = en
  sMem : ∀ p i, i ∈ atPulse y.sAtms p ↔
    ∃ a ∈ done, a.id = i ∧ a.start = p ∧ a.id ∉ en ∧ (a.impulse = true ∨ a.id ∉ st)
  eMem : ∀ p i, i ∈ atPulse y.eAtms p ↔ ∃ a ∈ done, a.id = i ∧ endPulse a = p ∧ a.id ∉ en
  sPulse : ∀ p i, i ∈ atPulse y.sAtms p → p ∈ y.pulses
  ePulse : ∀ p i, i ∈ atPulse y.eAtms p → p ∈ y.pulses
  sorted : Sorted y.pulses
  sNodup : ∀ p, (atPulse y.sAtms p).Nodup
  eNodup : ∀ p, (atPulse y.eAtms p).Nodup
  sKeys : (y.sAtms.map (·.1)).Nodup
  eKeys : (y.eAtms.map (·.1)).Nodup

theorem BInv.step {st en : List Nat} {done : List XAtom} {y : Exec} (h : BInv st en done y) (a : XAtom) :
    BInv st en (done ++ [a]) (bstep y a) := by
  have hex : ∀ (P : XAtom → Prop), (∃ b ∈ done ++ [a], P b) ↔ (∃ b ∈ done, P b) ∨ P a := by
    intro P; simp only [List.mem_append, List.mem_singleton]
    constructor
    · rintro ⟨b, hb | rfl, hp⟩
      · exact Or.inl ⟨b, hb, hp⟩
      · exact Or.inr hp
    · rintro (⟨b, hb, hp⟩ | hp)
      · exact ⟨b, Or.inl hb, hp⟩
      · exact ⟨a, Or.inr rfl, hp⟩
  unfold bstep
  by_cases hE : a.id ∈ en
  · -- already ended: left out
    have : y.ended.contains a.id = true := by simpa [h.hen] using hE
    simp only [this, if_true]
    refine { h with sMem := ?_, eMem := ?_ }
    · intro p i; rw [h.sMem, hex]; simp [hE]
    · intro p i; rw [h.eMem, hex]; simp [hE]
  · have : y.ended.contains a.id = false := by simpa [h.hen] using hE
    simp only [this, Bool.false_eq_true, if_false]
    by_cases hI : a.impulse = true
    · simp only [hI, if_true]
      refine ⟨h.hst, h.hen, ?_, ?_, ?_, ?_, sorted_insertPulse h.sorted, fun p => nodup_atPulse_addAt (h.sNodup p),
        fun p => nodup_atPulse_addAt (h.eNodup p), nodup_keys_addAt h.sKeys, nodup_keys_addAt h.eKeys⟩
      · intro p i
        simp only [mem_atPulse_addAt, h.sMem, hex, hE, hI, not_false_eq_true, true_or, and_true]
        constructor
        · rintro (h1 | ⟨rfl, rfl⟩)
          · exact Or.inl h1
          · exact Or.inr ⟨rfl, rfl⟩
        · rintro (h1 | ⟨rfl, rfl⟩)
          · exact Or.inl h1
          · exact Or.inr ⟨rfl, rfl⟩
      · intro p i
        simp only [mem_atPulse_addAt, h.eMem, hex, hE, endPulse, hI, if_true, not_false_eq_true, and_true]
        constructor
        · rintro (h1 | ⟨rfl, rfl⟩)
          · exact Or.inl h1
          · exact Or.inr ⟨rfl, rfl⟩
        · rintro (h1 | ⟨rfl, rfl⟩)
          · exact Or.inl h1
          · exact Or.inr ⟨rfl, rfl⟩
      · intro p i hi
        rcases mem_atPulse_addAt.1 hi with h1 | ⟨-, rfl⟩
        · exact mem_insertPulse.2 (Or.inr (h.sPulse p i h1))
        · exact mem_insertPulse.2 (Or.inl rfl)
      · intro p i hi
        rcases mem_atPulse_addAt.1 hi with h1 | ⟨-, rfl⟩
        · exact mem_insertPulse.2 (Or.inr (h.ePulse p i h1))
        · exact mem_insertPulse.2 (Or.inl rfl)
    · have hI' : a.impulse = false := by simpa using hI
      simp only [hI', Bool.false_eq_true, if_false]
      by_cases hS : a.id ∈ st
      · have : y.started.contains a.id = true := by simpa [h.hst] using hS
        simp only [this, if_true]
        refine ⟨h.hst, h.hen, ?_, ?_, ?_, ?_, sorted_insertPulse h.sorted, h.sNodup,
          fun p => nodup_atPulse_addAt (h.eNodup p), h.sKeys, nodup_keys_addAt h.eKeys⟩
        · intro p i; rw [h.sMem, hex]; simp [hS, hI']
        · intro p i
          simp only [mem_atPulse_addAt, h.eMem, hex, hE, endPulse, hI', Bool.false_eq_true, if_false,
            not_false_eq_true, and_true]
          constructor
          · rintro (h1 | ⟨rfl, rfl⟩)
            · exact Or.inl h1
            · exact Or.inr ⟨rfl, rfl⟩
          · rintro (h1 | ⟨rfl, rfl⟩)
            · exact Or.inl h1
            · exact Or.inr ⟨rfl, rfl⟩
        · intro p i hi
          exact mem_insertPulse.2 (Or.inr (h.sPulse p i hi))
        · intro p i hi
          rcases mem_atPulse_addAt.1 hi with h1 | ⟨-, rfl⟩
          · exact mem_insertPulse.2 (Or.inr (h.ePulse p i h1))
          · exact mem_insertPulse.2 (Or.inl rfl)
      · have : y.started.contains a.id = false := by simpa [h.hst] using hS
        simp only [this, Bool.false_eq_true, if_false]
        refine ⟨h.hst, h.hen, ?_, ?_, ?_, ?_, sorted_insertPulse (sorted_insertPulse h.sorted),
          fun p => nodup_atPulse_addAt (h.sNodup p),
          fun p => nodup_atPulse_addAt (h.eNodup p), nodup_keys_addAt h.sKeys, nodup_keys_addAt h.eKeys⟩
        · intro p i
          simp only [mem_atPulse_addAt, h.sMem, hex, hE, hS, not_false_eq_true, or_true, and_true]
          constructor
          · rintro (h1 | ⟨rfl, rfl⟩)
            · exact Or.inl h1
            · exact Or.inr ⟨rfl, rfl⟩
          · rintro (h1 | ⟨rfl, rfl⟩)
            · exact Or.inl h1
            · exact Or.inr ⟨rfl, rfl⟩
        · intro p i
          simp only [mem_atPulse_addAt, h.eMem, hex, hE, endPulse, hI', Bool.false_eq_true, if_false,
            not_false_eq_true, and_true]
          constructor
          · rintro (h1 | ⟨rfl, rfl⟩)
            · exact Or.inl h1
            · exact Or.inr ⟨rfl, rfl⟩
          · rintro (h1 | ⟨rfl, rfl⟩)
            · exact Or.inl h1
            · exact Or.inr ⟨rfl, rfl⟩
        · intro p i hi
          rcases mem_atPulse_addAt.1 hi with h1 | ⟨-, rfl⟩
          · exact mem_insertPulse.2 (Or.inr (mem_insertPulse.2 (Or.inr (h.sPulse p i h1))))
          · exact mem_insertPulse.2 (Or.inr (mem_insertPulse.2 (Or.inl rfl)))
        · intro p i hi
          rcases mem_atPulse_addAt.1 hi with h1 | ⟨-, rfl⟩
          · exact mem_insertPulse.2 (Or.inr (mem_insertPulse.2 (Or.inr (h.ePulse p i h1))))
          · exact mem_insertPulse.2 (Or.inl rfl)

theorem BInv.foldl {st en : List Nat} (plan : List XAtom) : ∀ {done : List XAtom} {y : Exec}, BInv st en done y →
    BInv st en (done ++ plan) (plan.foldl bstep y) := by
  induction plan with
  | nil => intro done y h; simpa using h
  | cons a r ih =>
    intro done y h
    have := ih (h.step a)
    simpa [List.append_assoc] using this

/-- the timelines built by `buildTimelines` -/
theorem BInv.build (x : Exec) (plan : List XAtom) : BInv x.started x.ended plan (buildTimelines x plan) := by
  rw [buildTimelines_eq]
  have h0 : BInv x.started x.ended [] { x with sAtms := [], eAtms := [], pulses := [] } := by
    refine ⟨rfl, rfl, ?_, ?_, ?_, ?_, List.Pairwise.nil, ?_, ?_, List.nodup_nil, List.nodup_nil⟩ <;>
      simp [atPulse]
  simpa using h0.foldl plan


/-! ### one iteration -/

section iteration
variable (x : Exec) (p : Time)

@[simp] theorem iteration_now : (iteration x p).1.now = x.now := by
  unfold iteration; simp only []; split <;> rfl
@[simp] theorem iteration_upt : (iteration x p).1.upt = x.upt := by
  unfold iteration; simp only []; split <;> rfl
@[simp] theorem iteration_sAtms : (iteration x p).1.sAtms = x.sAtms := by
  unfold iteration; simp only []; split <;> rfl
@[simp] theorem iteration_eAtms : (iteration x p).1.eAtms = x.eAtms := by
  unfold iteration; simp only []; split <;> rfl

/-- the requests known once the `starting` / `ending` callbacks of the iteration have run -/
def reqS : List (Nat × Rat) :=
  (x.cbStart.filter (fun r => r.1 == x.tickNo && (atPulse x.sAtms p).contains r.2.1)).foldl
    (fun m r => insertReq m r.2.1 r.2.2) x.dontStart
def reqE : List (Nat × Rat) :=
  (x.cbEnd.filter (fun r => r.1 == x.tickNo && (atPulse x.eAtms p).contains r.2.1)).foldl
    (fun m r => insertReq m r.2.1 r.2.2) x.dontEnd
/-- the atoms of the pulse with a request -/
def delayedS : List Nat := (atPulse x.sAtms p).filter (fun i => (reqS x p).any (fun r => r.1 == i))
def delayedE : List Nat := (atPulse x.eAtms p).filter (fun i => (reqE x p).any (fun r => r.1 == i))
def evAnnounce : List Event :=
  (if (atPulse x.sAtms p).isEmpty then [] else [.starting (atPulse x.sAtms p)]) ++
  (if (atPulse x.eAtms p).isEmpty then [] else [.ending (atPulse x.eAtms p)])
def evDelay : List Event :=
  (delayedS x p).map (fun i => .delayStart i ((((reqS x p).find? (fun r => r.1 == i)).map (·.2)).getD 0)) ++
  (delayedE x p).map (fun i => .delayEnd i ((((reqE x p).find? (fun r => r.1 == i)).map (·.2)).getD 0))
def evDispatch : List Event :=
  (if (atPulse x.sAtms p).isEmpty then [] else [.start (atPulse x.sAtms p)]) ++
  (if (atPulse x.eAtms p).isEmpty then [] else [.stop (atPulse x.eAtms p)])

theorem iteration_eq : iteration x p =
    if !((delayedS x p).isEmpty && (delayedE x p).isEmpty) then
      ({ x with dontStart := (reqS x p).filter (fun r => !(delayedS x p).contains r.1),
                dontEnd := (reqE x p).filter (fun r => !(delayedE x p).contains r.1) },
        evAnnounce x p ++ evDelay x p, true)
    else
      ({ x with dontStart := (reqS x p).filter (fun r => !(delayedS x p).contains r.1),
                dontEnd := (reqE x p).filter (fun r => !(delayedE x p).contains r.1),
                started := x.started ++ (atPulse x.sAtms p).filter (fun i => !x.started.contains i),
                ended := x.ended ++ (atPulse x.eAtms p).filter (fun i => !x.ended.contains i),
                pulses := x.pulses.drop 1 },
        evAnnounce x p ++ evDispatch x p, false) := by
  unfold iteration evDispatch evDelay evAnnounce delayedE delayedS reqE reqS
  simp only [List.append_assoc]

theorem startsOf_append (a b : List Event) : startsOf (a ++ b) = startsOf a ++ startsOf b := by
  simp [startsOf]
theorem endsOf_append (a b : List Event) : endsOf (a ++ b) = endsOf a ++ endsOf b := by
  simp [endsOf]
theorem dStartsOf_append (a b : List Event) : dStartsOf (a ++ b) = dStartsOf a ++ dStartsOf b := by
  simp [dStartsOf]
theorem dEndsOf_append (a b : List Event) : dEndsOf (a ++ b) = dEndsOf a ++ dEndsOf b := by
  simp [dEndsOf]

theorem evAnnounce_none : startsOf (evAnnounce x p) = [] ∧ endsOf (evAnnounce x p) = [] ∧
    dStartsOf (evAnnounce x p) = [] ∧ dEndsOf (evAnnounce x p) = [] := by
  unfold evAnnounce
  refine ⟨?_, ?_, ?_, ?_⟩ <;> split <;> split <;> simp [startsOf, endsOf, dStartsOf, dEndsOf]

theorem evDelay_some : startsOf (evDelay x p) = [] ∧ endsOf (evDelay x p) = [] ∧
    dStartsOf (evDelay x p) = delayedS x p ∧ dEndsOf (evDelay x p) = delayedE x p := by
  unfold evDelay
  refine ⟨?_, ?_, ?_, ?_⟩ <;> simp [startsOf, endsOf, dStartsOf, dEndsOf, List.flatMap_map]

theorem evDispatch_some : startsOf (evDispatch x p) = atPulse x.sAtms p ∧ endsOf (evDispatch x p) = atPulse x.eAtms p ∧
    dStartsOf (evDispatch x p) = [] ∧ dEndsOf (evDispatch x p) = [] := by
  unfold evDispatch
  refine ⟨?_, ?_, ?_, ?_⟩ <;> split <;> split <;> simp_all [startsOf, endsOf, dStartsOf, dEndsOf]

theorem iteration_wait (h : (iteration x p).2.2 = true) :
    (iteration x p).1.started = x.started ∧ (iteration x p).1.ended = x.ended ∧ (iteration x p).1.pulses = x.pulses ∧
    startsOf (iteration x p).2.1 = [] ∧ endsOf (iteration x p).2.1 = [] := by
  rw [iteration_eq] at h ⊢
  split at h
  · rename_i hc
    rw [if_pos hc]
    simp only [startsOf_append, endsOf_append, (evAnnounce_none x p).1, (evAnnounce_none x p).2.1,
      (evDelay_some x p).1, (evDelay_some x p).2.1, List.append_nil, and_self]
  · simp at h

theorem iteration_go (h : (iteration x p).2.2 = false) :
    (iteration x p).1.started = x.started ++ (atPulse x.sAtms p).filter (fun i => !x.started.contains i) ∧
    (iteration x p).1.ended = x.ended ++ (atPulse x.eAtms p).filter (fun i => !x.ended.contains i) ∧
    (iteration x p).1.pulses = x.pulses.drop 1 ∧
    startsOf (iteration x p).2.1 = atPulse x.sAtms p ∧ endsOf (iteration x p).2.1 = atPulse x.eAtms p := by
  rw [iteration_eq] at h ⊢
  split at h
  · simp at h
  · rename_i hc
    rw [if_neg hc]
    simp only [startsOf_append, endsOf_append, (evAnnounce_none x p).1, (evAnnounce_none x p).2.1,
      (evDispatch_some x p).1, (evDispatch_some x p).2.1, List.nil_append, and_self]

end iteration

/-! ### the loop -/

theorem manage_zero (x : Exec) : manage 0 x = (x, [], .needPlan) := rfl

/-- the three ways a step of the loop goes -/
theorem manage_succ_cases (fuel : Nat) (x : Exec) :
    ((x.pulses = [] ∨ ∃ p r, x.pulses = p :: r ∧ tle p (x.now, 0) = false) ∧
      manage (fuel + 1) x = ({ x with now := x.now + x.upt }, [.tick (x.now + x.upt)], .done)) ∨
    (∃ p r, x.pulses = p :: r ∧ tle p (x.now, 0) = true ∧ (iteration x p).2.2 = true ∧
      manage (fuel + 1) x = ((iteration x p).1, (iteration x p).2.1, .needPlan)) ∨
    (∃ p r, x.pulses = p :: r ∧ tle p (x.now, 0) = true ∧ (iteration x p).2.2 = false ∧
      manage (fuel + 1) x = ((manage fuel (iteration x p).1).1,
        (iteration x p).2.1 ++ (manage fuel (iteration x p).1).2.1, (manage fuel (iteration x p).1).2.2)) := by
  cases hp : x.pulses with
  | nil => exact Or.inl ⟨Or.inl rfl, by simp [manage, hp]⟩
  | cons p r =>
    cases ht : tle p (x.now, 0) with
    | false => exact Or.inl ⟨Or.inr ⟨p, r, rfl, ht⟩, by simp [manage, hp, ht]⟩
    | true =>
      rcases hit : iteration x p with ⟨x', ev, wait⟩
      cases wait with
      | true => exact Or.inr (Or.inl ⟨p, r, rfl, ht, by rw [hit], by simp [manage, hp, ht, hit]⟩)
      | false => exact Or.inr (Or.inr ⟨p, r, rfl, ht, by rw [hit], by simp [manage, hp, ht, hit]⟩)


/-! #### time -/

theorem manage_now (fuel : Nat) : ∀ x : Exec,
    ((manage fuel x).2.2 = .done → (manage fuel x).1.now = x.now + x.upt) ∧
    ((manage fuel x).2.2 = .needPlan → (manage fuel x).1.now = x.now) := by
  induction fuel with
  | zero => intro x; simp [manage_zero]
  | succ fuel ih =>
    intro x
    rcases manage_succ_cases fuel x with ⟨-, he⟩ | ⟨p, r, -, -, -, he⟩ | ⟨p, r, -, -, -, he⟩
    · rw [he]; simp
    · rw [he]; simp
    · rw [he]; simpa using ih (iteration x p).1

/-! #### never early -/

theorem manage_not_early (fuel : Nat) : ∀ x : Exec,
    (∀ i ∈ startsOf (manage fuel x).2.1, ∃ e ∈ x.sAtms, i ∈ e.2 ∧ tle e.1 (x.now, 0) = true) ∧
    (∀ i ∈ endsOf (manage fuel x).2.1, ∃ e ∈ x.eAtms, i ∈ e.2 ∧ tle e.1 (x.now, 0) = true) := by
  induction fuel with
  | zero => intro x; simp [manage_zero, startsOf, endsOf]
  | succ fuel ih =>
    intro x
    rcases manage_succ_cases fuel x with ⟨-, he⟩ | ⟨p, r, -, -, hw, he⟩ | ⟨p, r, -, ht, hw, he⟩
    · rw [he]; simp [startsOf, endsOf]
    · rw [he]; simp [(iteration_wait x p hw).2.2.2.1, (iteration_wait x p hw).2.2.2.2]
    · rw [he]
      have hg := iteration_go x p hw
      have ih' := ih (iteration x p).1
      simp only [iteration_sAtms, iteration_eAtms, iteration_now] at ih'
      simp only [startsOf_append, endsOf_append, hg.2.2.2.1, hg.2.2.2.2, List.mem_append]
      constructor
      · rintro i (hi | hi)
        · obtain ⟨e, he1, he2, he3⟩ := mem_atPulse hi
          exact ⟨e, he1, he3, he2 ▸ ht⟩
        · exact ih'.1 i hi
      · rintro i (hi | hi)
        · obtain ⟨e, he1, he2, he3⟩ := mem_atPulse hi
          exact ⟨e, he1, he3, he2 ▸ ht⟩
        · exact ih'.2 i hi

/-! #### completeness of a finished tick -/

theorem manage_nothing_due (fuel : Nat) : ∀ x : Exec, Sorted x.pulses → (manage fuel x).2.2 = .done →
    ∀ p ∈ (manage fuel x).1.pulses, tlt (x.now, 0) p = true := by
  induction fuel with
  | zero => intro x _ hd; simp [manage_zero] at hd
  | succ fuel ih =>
    intro x hs hd
    rcases manage_succ_cases fuel x with ⟨hc, he⟩ | ⟨p, r, -, -, -, he⟩ | ⟨p, r, hp, -, hw, he⟩
    · rw [he]
      show ∀ p ∈ x.pulses, _
      rcases hc with hc | ⟨p, r, hp, ht⟩
      · simp [hc]
      · rw [hp] at hs ⊢
        have h' := List.pairwise_cons.1 hs
        intro q hq
        rcases List.mem_cons.1 hq with rfl | hq
        · simpa [tle] using ht
        · have h1 := h'.1 q hq
          have h2 : tlt (x.now, 0) p = true := by simpa [tle] using ht
          exact tlt_trans h2 h1
    · rw [he] at hd; simp at hd
    · rw [he] at hd ⊢
      have hg := iteration_go x p hw
      have hs' : Sorted (iteration x p).1.pulses := by
        rw [hg.2.2.1, hp]
        rw [hp] at hs
        exact (List.pairwise_cons.1 hs).2
      simpa using ih (iteration x p).1 hs' hd

/-- the `[i]!` form of strict sortedness -/
theorem sorted_of_chain : ∀ (l : List Time), (∀ i, i + 1 < l.length → tlt l[i]! l[i + 1]! = true) → Sorted l
  | [], _ => List.Pairwise.nil
  | [a], _ => by simp [Sorted]
  | a :: b :: r, h => by
    have ih : Sorted (b :: r) := sorted_of_chain (b :: r) (by
      intro i hi
      have := h (i + 1) (by simpa using hi)
      simpa using this)
    have hab : tlt a b = true := by simpa using h 0 (by simp)
    refine List.Pairwise.cons ?_ ih
    intro x hx
    rcases List.mem_cons.1 hx with rfl | hx
    · exact hab
    · exact tlt_trans hab ((List.pairwise_cons.1 ih).1 x hx)


/-! #### at most once -/

/-- the loop invariant behind "at most once": the atoms at the pulses still to be visited are not dispatched yet,
    the pulses are distinct, and an atom sits at one pulse only -/
structure TOk (x : Exec) : Prop where
  sFresh : ∀ p ∈ x.pulses, ∀ i ∈ atPulse x.sAtms p, i ∉ x.started
  eFresh : ∀ p ∈ x.pulses, ∀ i ∈ atPulse x.eAtms p, i ∉ x.ended
  sKeys : (x.sAtms.map (·.1)).Nodup
  eKeys : (x.eAtms.map (·.1)).Nodup
  pNodup : x.pulses.Nodup
  sNodup : ∀ p, (atPulse x.sAtms p).Nodup
  sUniq : ∀ p q i, i ∈ atPulse x.sAtms p → i ∈ atPulse x.sAtms q → p = q
  eNodup : ∀ p, (atPulse x.eAtms p).Nodup
  eUniq : ∀ p q i, i ∈ atPulse x.eAtms p → i ∈ atPulse x.eAtms q → p = q

theorem mem_append_filter_not {l s : List Nat} {i : Nat} :
    i ∈ l ++ s.filter (fun i => !l.contains i) ↔ i ∈ l ∨ i ∈ s := by
  simp only [List.mem_append, List.mem_filter]
  by_cases h : i ∈ l <;> simp [h]

theorem TOk.go {x : Exec} {p : Time} {r : List Time} (h : TOk x) (hp : x.pulses = p :: r)
    (hw : (iteration x p).2.2 = false) : TOk (iteration x p).1 := by
  have hg := iteration_go x p hw
  have hnd := List.nodup_cons.1 (hp ▸ h.pNodup)
  refine ⟨?_, ?_, by simpa using h.sKeys, by simpa using h.eKeys, ?_, by simpa using h.sNodup, by simpa using h.sUniq,
    by simpa using h.eNodup, by simpa using h.eUniq⟩
  · rw [hg.2.2.1, hg.1, hp, iteration_sAtms]
    intro q hq i hi hmem
    have hq' : q ∈ r := by simpa using hq
    rcases mem_append_filter_not.1 hmem with h1 | h1
    · exact h.sFresh q (hp ▸ List.mem_cons_of_mem _ hq') i hi h1
    · exact hnd.1 (h.sUniq q p i hi h1 ▸ hq')
  · rw [hg.2.2.1, hg.2.1, hp, iteration_eAtms]
    intro q hq i hi hmem
    have hq' : q ∈ r := by simpa using hq
    rcases mem_append_filter_not.1 hmem with h1 | h1
    · exact h.eFresh q (hp ▸ List.mem_cons_of_mem _ hq') i hi h1
    · exact hnd.1 (h.eUniq q p i hi h1 ▸ hq')
  · rw [hg.2.2.1, hp]; simpa using hnd.2

theorem TOk.wait {x : Exec} {p : Time} (h : TOk x) (hw : (iteration x p).2.2 = true) : TOk (iteration x p).1 := by
  have hg := iteration_wait x p hw
  refine ⟨?_, ?_, by simpa using h.sKeys, by simpa using h.eKeys, ?_, by simpa using h.sNodup, by simpa using h.sUniq,
    by simpa using h.eNodup, by simpa using h.eUniq⟩
  · rw [hg.2.2.1, hg.1, iteration_sAtms]; exact h.sFresh
  · rw [hg.2.2.1, hg.2.1, iteration_eAtms]; exact h.eFresh
  · rw [hg.2.2.1]; exact h.pNodup

theorem manage_once (fuel : Nat) : ∀ x : Exec, TOk x →
    ((∀ i ∈ startsOf (manage fuel x).2.1, i ∉ x.started ∧ i ∈ (manage fuel x).1.started) ∧
      (startsOf (manage fuel x).2.1).Nodup ∧ (∀ i ∈ x.started, i ∈ (manage fuel x).1.started)) ∧
    ((∀ i ∈ endsOf (manage fuel x).2.1, i ∉ x.ended ∧ i ∈ (manage fuel x).1.ended) ∧
      (endsOf (manage fuel x).2.1).Nodup ∧ (∀ i ∈ x.ended, i ∈ (manage fuel x).1.ended)) ∧
    TOk (manage fuel x).1 := by
  induction fuel with
  | zero => intro x h; simpa [manage_zero, startsOf, endsOf] using h
  | succ fuel ih =>
    intro x h
    rcases manage_succ_cases fuel x with ⟨-, he⟩ | ⟨p, r, -, -, hw, he⟩ | ⟨p, r, hp, -, hw, he⟩
    · rw [he]
      refine ⟨by simp [startsOf], by simp [endsOf], ?_⟩
      exact ⟨h.sFresh, h.eFresh, h.sKeys, h.eKeys, h.pNodup, h.sNodup, h.sUniq, h.eNodup, h.eUniq⟩
    · rw [he]
      have hg := iteration_wait x p hw
      simp only [hg.2.2.2.1, hg.2.2.2.2, hg.1, hg.2.1]
      exact ⟨by simp, by simp, h.wait hw⟩
    · rw [he]
      have hg := iteration_go x p hw
      obtain ⟨⟨s1, s2, s3⟩, ⟨e1, e2, e3⟩, hok⟩ := ih (iteration x p).1 (h.go hp hw)
      have hpm : p ∈ x.pulses := by rw [hp]; exact List.mem_cons_self
      simp only [startsOf_append, endsOf_append, hg.2.2.2.1, hg.2.2.2.2, List.mem_append]
      refine ⟨⟨?_, ?_, ?_⟩, ⟨?_, ?_, ?_⟩, hok⟩
      · rintro i (hi | hi)
        · exact ⟨h.sFresh p hpm i hi, s3 i (by rw [hg.1]; exact mem_append_filter_not.2 (Or.inr hi))⟩
        · exact ⟨fun hx => (s1 i hi).1 (by rw [hg.1]; exact mem_append_filter_not.2 (Or.inl hx)), (s1 i hi).2⟩
      · refine List.nodup_append.2 ⟨h.sNodup p, s2, ?_⟩
        rintro a ha b hb rfl
        exact (s1 a hb).1 (by rw [hg.1]; exact mem_append_filter_not.2 (Or.inr ha))
      · intro i hi
        exact s3 i (by rw [hg.1]; exact mem_append_filter_not.2 (Or.inl hi))
      · rintro i (hi | hi)
        · exact ⟨h.eFresh p hpm i hi, e3 i (by rw [hg.2.1]; exact mem_append_filter_not.2 (Or.inr hi))⟩
        · exact ⟨fun hx => (e1 i hi).1 (by rw [hg.2.1]; exact mem_append_filter_not.2 (Or.inl hx)), (e1 i hi).2⟩
      · refine List.nodup_append.2 ⟨h.eNodup p, e2, ?_⟩
        rintro a ha b hb rfl
        exact (e1 a hb).1 (by rw [hg.2.1]; exact mem_append_filter_not.2 (Or.inr ha))
      · intro i hi
        exact e3 i (by rw [hg.2.1]; exact mem_append_filter_not.2 (Or.inl hi))

theorem sorted_nodup {l : List Time} (h : Sorted l) : l.Nodup :=
  List.Pairwise.imp (fun {a c} h => by rintro rfl; simp [tlt_irrefl] at h) h

/-- distinct ids: an id names one atom of the plan -/
theorem eq_of_id_eq : ∀ {plan : List XAtom}, (plan.map (·.id)).Nodup → ∀ {a b : XAtom}, a ∈ plan → b ∈ plan →
    a.id = b.id → a = b
  | [], _, _, _, ha, _, _ => by simp at ha
  | c :: r, h, a, b, ha, hb, hab => by
    simp only [List.map_cons, List.nodup_cons, List.mem_map, not_exists, not_and] at h
    rcases List.mem_cons.1 ha with ea | ha <;> rcases List.mem_cons.1 hb with eb | hb
    · rw [ea, eb]
    · exact absurd (ea ▸ hab.symm) (h.1 b hb)
    · exact absurd (eb ▸ hab) (h.1 a ha)
    · exact eq_of_id_eq h.2 ha hb hab

/-- `buildTimelines` establishes the invariant, for a plan with distinct ids whose impulses are ended as soon as
    they are started -/
theorem TOk.build (x : Exec) (plan : List XAtom) (hid : (plan.map (·.id)).Nodup)
    (himp : ∀ a ∈ plan, a.impulse = true → a.id ∈ x.started → a.id ∈ x.ended) : TOk (buildTimelines x plan) := by
  have b := BInv.build x plan
  refine ⟨?_, ?_, b.sKeys, b.eKeys, ?_, b.sNodup, ?_, b.eNodup, ?_⟩
  · intro p _ i hi
    obtain ⟨a, ha, rfl, -, hne, hs⟩ := (b.sMem p i).1 hi
    rw [b.hst]
    rcases hs with hs | hs
    · exact fun hst => hne (himp a ha hs hst)
    · exact hs
  · intro p _ i hi
    obtain ⟨a, -, rfl, -, hne⟩ := (b.eMem p i).1 hi
    rw [b.hen]; exact hne
  · exact sorted_nodup b.sorted
  · intro p q i hp hq
    obtain ⟨a, ha, ha1, ha2, -⟩ := (b.sMem p i).1 hp
    obtain ⟨c, hc, hc1, hc2, -⟩ := (b.sMem q i).1 hq
    have := eq_of_id_eq hid ha hc (ha1.trans hc1.symm)
    subst this; exact ha2.symm.trans hc2
  · intro p q i hp hq
    obtain ⟨a, ha, ha1, ha2, -⟩ := (b.eMem p i).1 hp
    obtain ⟨c, hc, hc1, hc2, -⟩ := (b.eMem q i).1 hq
    have := eq_of_id_eq hid ha hc (ha1.trans hc1.symm)
    subst this; exact ha2.symm.trans hc2


/-! #### a delay that is honoured -/

theorem iteration_delayed (x : Exec) (p : Time) :
    ((iteration x p).2.2 = true → startsOf (iteration x p).2.1 = [] ∧ endsOf (iteration x p).2.1 = [] ∧
      (∀ i ∈ dStartsOf (iteration x p).2.1, ∀ q, (i, q) ∉ (iteration x p).1.dontStart) ∧
      (∀ i ∈ dEndsOf (iteration x p).2.1, ∀ q, (i, q) ∉ (iteration x p).1.dontEnd)) ∧
    ((iteration x p).2.2 = false → dStartsOf (iteration x p).2.1 = [] ∧ dEndsOf (iteration x p).2.1 = [] ∧
      (∀ i ∈ atPulse x.sAtms p, ∀ q, (i, q) ∉ (iteration x p).1.dontStart)) := by
  constructor
  · intro hw
    refine ⟨(iteration_wait x p hw).2.2.2.1, (iteration_wait x p hw).2.2.2.2, ?_⟩
    rw [iteration_eq] at hw ⊢
    split at hw
    · rename_i hc
      rw [if_pos hc]
      simp only [dStartsOf_append, dEndsOf_append, (evAnnounce_none x p).2.2.1, (evAnnounce_none x p).2.2.2,
        (evDelay_some x p).2.2.1, (evDelay_some x p).2.2.2, List.nil_append]
      constructor
      · intro i hi q hm
        have := (List.mem_filter.1 hm).2
        simp [hi] at this
      · intro i hi q hm
        have := (List.mem_filter.1 hm).2
        simp [hi] at this
    · simp at hw
  · intro hw
    rw [iteration_eq] at hw ⊢
    split at hw
    · simp at hw
    · rename_i hc
      rw [if_neg hc]
      simp only [dStartsOf_append, dEndsOf_append, (evAnnounce_none x p).2.2.1, (evAnnounce_none x p).2.2.2,
        (evDispatch_some x p).2.2.1, (evDispatch_some x p).2.2.2, List.nil_append, true_and]
      intro i hi q hm
      have hS : delayedS x p = [] := by
        have : (delayedS x p).isEmpty = true ∧ (delayedE x p).isEmpty = true := by simpa using hc
        simpa using this.1
      have h1 : (i, q) ∈ reqS x p := (List.mem_filter.1 hm).1
      have h2 : i ∈ delayedS x p := by
        unfold delayedS
        exact List.mem_filter.2 ⟨hi, List.any_eq_true.2 ⟨(i, q), h1, by simp⟩⟩
      simp [hS] at h2

/-! #### an atom is ended only once started -/

/-- the loop invariant behind "start before end": an atom still to be ended either is started or is still to be
    started, at a pulse which is not after the one at which it ends -/
structure EInv (x : Exec) : Prop where
  sorted : Sorted x.pulses
  sub : ∀ i ∈ x.ended, i ∈ x.started
  cover : ∀ q ∈ x.pulses, ∀ i ∈ atPulse x.eAtms q,
    i ∈ x.started ∨ ∃ q' ∈ x.pulses, tle q' q = true ∧ i ∈ atPulse x.sAtms q'

theorem EInv.go {x : Exec} {p : Time} {r : List Time} (h : EInv x) (hp : x.pulses = p :: r)
    (hw : (iteration x p).2.2 = false) : EInv (iteration x p).1 := by
  have hg := iteration_go x p hw
  have hs := List.pairwise_cons.1 (hp ▸ h.sorted)
  have hpm : p ∈ x.pulses := by rw [hp]; exact List.mem_cons_self
  refine ⟨?_, ?_, ?_⟩
  · rw [hg.2.2.1, hp]; simpa using hs.2
  · rw [hg.1, hg.2.1]
    intro i hi
    rcases mem_append_filter_not.1 hi with h1 | h1
    · exact mem_append_filter_not.2 (Or.inl (h.sub i h1))
    · rcases h.cover p hpm i h1 with h2 | ⟨q', hq', hle, h2⟩
      · exact mem_append_filter_not.2 (Or.inl h2)
      · have : q' = p := by
          rw [hp] at hq'
          rcases List.mem_cons.1 hq' with h3 | h3
          · exact h3
          · have := hs.1 q' h3; torder
        subst this
        exact mem_append_filter_not.2 (Or.inr h2)
  · rw [hg.2.2.1, hg.1, hp, iteration_sAtms, iteration_eAtms]
    intro q hq i hi
    have hq' : q ∈ r := by simpa using hq
    rcases h.cover q (hp ▸ List.mem_cons_of_mem _ hq') i hi with h2 | ⟨q', hq2, hle, h2⟩
    · exact Or.inl (mem_append_filter_not.2 (Or.inl h2))
    · rw [hp] at hq2
      rcases List.mem_cons.1 hq2 with h3 | h3
      · subst h3
        exact Or.inl (mem_append_filter_not.2 (Or.inr h2))
      · exact Or.inr ⟨q', by simpa using h3, hle, h2⟩

theorem manage_end_after_start (fuel : Nat) : ∀ x : Exec, EInv x → EInv (manage fuel x).1 := by
  induction fuel with
  | zero => intro x h; simpa [manage_zero] using h
  | succ fuel ih =>
    intro x h
    rcases manage_succ_cases fuel x with ⟨-, he⟩ | ⟨p, r, -, -, hw, he⟩ | ⟨p, r, hp, -, hw, he⟩
    · rw [he]; exact ⟨h.sorted, h.sub, h.cover⟩
    · rw [he]
      have hg := iteration_wait x p hw
      refine ⟨?_, ?_, ?_⟩
      · show Sorted (iteration x p).1.pulses
        rw [hg.2.2.1]; exact h.sorted
      · show ∀ i ∈ (iteration x p).1.ended, i ∈ (iteration x p).1.started
        rw [hg.1, hg.2.1]; exact h.sub
      · show ∀ q ∈ (iteration x p).1.pulses, ∀ i ∈ atPulse (iteration x p).1.eAtms q,
          i ∈ (iteration x p).1.started ∨ ∃ q' ∈ (iteration x p).1.pulses, tle q' q = true ∧
            i ∈ atPulse (iteration x p).1.sAtms q'
        rw [hg.2.2.1, hg.1, iteration_sAtms, iteration_eAtms]; exact h.cover
    · rw [he]; exact ih _ (h.go hp hw)

/-- the timelines built from a plan of well-formed atoms satisfy the invariant -/
theorem EInv.build (x : Exec) (plan : List XAtom) (hwf : ∀ a ∈ plan, tle a.start a.stop = true)
    (hse : ∀ i ∈ x.ended, i ∈ x.started) : EInv (buildTimelines x plan) := by
  have b := BInv.build x plan
  refine ⟨b.sorted, by rw [b.hst, b.hen]; exact hse, ?_⟩
  intro q _ i hi
  obtain ⟨a, ha, rfl, hq, hne⟩ := (b.eMem q i).1 hi
  rw [b.hst]
  by_cases hI : a.impulse = true
  · have hs : a.id ∈ atPulse (buildTimelines x plan).sAtms a.start :=
      (b.sMem _ _).2 ⟨a, ha, rfl, rfl, hne, Or.inl hI⟩
    have : a.start = q := by simpa [endPulse, hI] using hq
    exact Or.inr ⟨a.start, b.sPulse _ _ hs, by subst this; simp [tle, tlt_irrefl], hs⟩
  · by_cases hS : a.id ∈ x.started
    · exact Or.inl hS
    · have hs : a.id ∈ atPulse (buildTimelines x plan).sAtms a.start :=
        (b.sMem _ _).2 ⟨a, ha, rfl, rfl, hne, Or.inr hS⟩
      have : a.stop = q := by simpa [endPulse, hI] using hq
      exact Or.inr ⟨a.start, b.sPulse _ _ hs, this ▸ hwf a ha, hs⟩


/-! #### the pulses stay sorted -/

theorem manage_sorted (fuel : Nat) : ∀ x : Exec, Sorted x.pulses → Sorted (manage fuel x).1.pulses := by
  induction fuel with
  | zero => intro x h; simpa [manage_zero] using h
  | succ fuel ih =>
    intro x h
    rcases manage_succ_cases fuel x with ⟨-, he⟩ | ⟨p, r, -, -, hw, he⟩ | ⟨p, r, hp, -, hw, he⟩
    · rw [he]; exact h
    · rw [he]; show Sorted (iteration x p).1.pulses
      rw [(iteration_wait x p hw).2.2.1]; exact h
    · rw [he]; refine ih _ ?_
      rw [(iteration_go x p hw).2.2.1, hp]
      rw [hp] at h
      exact (List.pairwise_cons.1 h).2

theorem chain_of_sorted {l : List Time} (h : Sorted l) :
    ∀ i, i + 1 < l.length → tlt l[i]! l[i + 1]! = true := by
  intro i hi
  have h1 : i < l.length := by omega
  rw [getElem!_pos l i h1, getElem!_pos l (i + 1) hi]
  exact (List.pairwise_iff_getElem.1 h) i (i + 1) h1 hi (by omega)

/-! #### impulses are started and ended together -/

/-- for a fixed assignment `imp` of kinds to atoms: an impulse that is started is ended, and the timelines start
    an impulse only where they end it -/
structure KInv (imp : Nat → Bool) (x : Exec) : Prop where
  done : ∀ i, imp i = true → i ∈ x.started → i ∈ x.ended
  both : ∀ i, imp i = true → ∀ p, i ∈ atPulse x.sAtms p → i ∈ atPulse x.eAtms p

theorem manage_kinds (imp : Nat → Bool) (fuel : Nat) : ∀ x : Exec, KInv imp x → KInv imp (manage fuel x).1 := by
  induction fuel with
  | zero => intro x h; simpa [manage_zero] using h
  | succ fuel ih =>
    intro x h
    rcases manage_succ_cases fuel x with ⟨-, he⟩ | ⟨p, r, -, -, hw, he⟩ | ⟨p, r, hp, -, hw, he⟩
    · rw [he]; exact ⟨h.done, h.both⟩
    · rw [he]
      have hg := iteration_wait x p hw
      refine ⟨?_, ?_⟩
      · show ∀ i, imp i = true → i ∈ (iteration x p).1.started → i ∈ (iteration x p).1.ended
        rw [hg.1, hg.2.1]; exact h.done
      · show ∀ i, imp i = true → ∀ q, i ∈ atPulse (iteration x p).1.sAtms q → i ∈ atPulse (iteration x p).1.eAtms q
        rw [iteration_sAtms, iteration_eAtms]; exact h.both
    · rw [he]; refine ih _ ⟨?_, ?_⟩
      · have hg := iteration_go x p hw
        rw [hg.1, hg.2.1]
        intro i hi hm
        rcases mem_append_filter_not.1 hm with h1 | h1
        · exact mem_append_filter_not.2 (Or.inl (h.done i hi h1))
        · exact mem_append_filter_not.2 (Or.inr (h.both i hi p h1))
      · rw [iteration_sAtms, iteration_eAtms]; exact h.both

theorem KInv.build (imp : Nat → Bool) (x : Exec) (plan : List XAtom) (hk : ∀ a ∈ plan, a.impulse = imp a.id)
    (h : ∀ i, imp i = true → i ∈ x.started → i ∈ x.ended) : KInv imp (buildTimelines x plan) := by
  have b := BInv.build x plan
  refine ⟨by rw [b.hst, b.hen]; exact h, ?_⟩
  intro i hi p hm
  obtain ⟨a, ha, rfl, rfl, hne, -⟩ := (b.sMem p i).1 hm
  have hI : a.impulse = true := (hk a ha).trans hi
  exact (b.eMem _ _).2 ⟨a, ha, rfl, by simp [endPulse, hI], hne⟩

end Oratio.Exec
