/-
C07: the loop over the watchers of a literal (`visitWatchers`) keeps the invariants.
-/
import OratioModel
import OratioProofs.Lemmas.SatCoreProp

set_option linter.unusedSimpArgs false
set_option linter.unusedVariables false

namespace Oratio
namespace Sat

/-! ### putBack -/

theorem putBack_getD (s : Sat) (p : Lit) (r : List Nat) (i : Nat) :
    (s.putBack p r).watches.getD i [] =
      if p.idx = i ∧ p.idx < s.watches.length then s.watches.getD i [] ++ r else s.watches.getD i [] := by
  simp only [putBack, getD_set]
  split
  · rename_i h; rw [h.1]
  · rfl

theorem putBack_nil (s : Sat) (p : Lit) : s.putBack p [] = s := by
  simp only [putBack, List.append_nil, set_getD_self]

theorem putBack_watch (s : Sat) (p : Lit) (id : Nat) (rest : List Nat) (h : p.idx < s.watches.length) :
    (s.watch p id).putBack p rest = s.putBack p (id :: rest) := by
  simp only [putBack, watch, List.set_set, getD_set_eq _ _ _ _ h, List.append_assoc, List.singleton_append]

/-! ### further consequences of `enq` -/

theorem decsUpTo_all {s : Sat} (h : s.WfA) : s.decsUpTo s.decisionLevel = s.decisions := by
  simp [decsUpTo, decisionLevel, h.decLen]

theorem decsUpTo_sub (s : Sat) (k : Nat) : ∀ d ∈ s.decsUpTo k, d ∈ s.decisions :=
  fun d hd => (List.drop_suffix _ _).subset hd

theorem Ent.enq {orig K : Cnf} {s : Sat} {p : Lit} {c : Option Nat} (ha : s.WfA) (h : s.Ent orig K)
    (hp : s.value p = none) (hlt : p.var < s.vals.length) (hent : Ents (orig ++ units s.decisions) [p]) :
    (s.enq p c).Ent orig K := by
  have hne : ∀ l ∈ s.trail, l.var ≠ p.var := fun l hl => ha.trail_var_ne hl hp
  refine ⟨h.clauses, ?_, h.log, h.dead, ?_⟩
  · intro l hl
    rcases List.mem_cons.1 hl with rfl | hl
    · rw [enq_lvl_self ha hlt]
      have : (s.enq l c).decsUpTo s.decisionLevel = s.decisions := @decsUpTo_all s ha
      rw [this]; exact hent
    · rw [enq_lvl_ne (hne l hl)]; exact h.trail l hl
  · intro hd α h0 hc hroot
    apply h.keeps hd α h0 hc
    intro l hl hl0
    exact hroot l (List.mem_cons_of_mem _ hl) (by rw [enq_lvl_ne (hne l hl)]; exact hl0)

theorem DecOK.enq {m : Nat} {s : Sat} {p : Lit} {c : Option Nat} (ha : s.WfA) (h : s.DecOK m)
    (hp : s.value p = none) : (s.enq p c).DecOK m := by
  intro a d b hd hb
  obtain ⟨h1, h2⟩ := h a d b hd hb
  exact ⟨List.mem_cons_of_mem _ h1, by rw [enq_lvl_ne (ha.trail_var_ne h1 hp)]; exact h2⟩

theorem Wf.enq {s : Sat} {p : Lit} {c : Option Nat} (h : s.Wf) (hp : s.value p = none) (hlt : p.var < s.vals.length)
    (hc0 : c = none → s.decisionLevel = 0 ∨ ∀ x ∈ s.trail, s.lvl x < s.decisionLevel)
    (hc : ∀ id, c = some id → ∃ rest, (id, p :: rest) ∈ s.cls ∧ ∀ r ∈ rest, r.neg ∈ s.trail) : (s.enq p c).Wf :=
  ⟨h.a.enq hp hlt hc0, h.c.enq, h.r.enq h.a hp hlt hc, h.w.enq⟩

/-- the unit-propagation entailment step -/
theorem ents_unit {orig K : Cnf} {s : Sat} (ha : s.WfA) (he : s.Ent orig K) {a : Lit} {rest : List Lit}
    (hcl : Ents orig (a :: rest)) (hr : ∀ r ∈ rest, r.neg ∈ s.trail) : Ents (orig ++ units s.decisions) [a] := by
  intro α h0 hF
  rw [Asg.cnf_append] at hF
  simp only [Bool.and_eq_true] at hF
  have h1 := hcl α h0 hF.1
  simp only [Asg.clause, List.any_cons, Bool.or_eq_true, List.any_eq_true] at h1 ⊢
  rcases h1 with h1 | ⟨r, hrm, hv⟩
  · simp [h1]
  · exfalso
    have := he.trail _ (hr r hrm) α h0 (by
      rw [Asg.cnf_append]
      simp only [Bool.and_eq_true]
      refine ⟨hF.1, ?_⟩
      have h2 := hF.2
      rw [Asg.cnf_units, List.all_eq_true] at h2 ⊢
      exact fun d hd => h2 d (decsUpTo_sub _ _ d hd))
    simp only [Asg.clause, List.any_cons, List.any_nil, Bool.or_false] at this
    rw [Asg.lit_neg] at this
    simp [hv] at this

/-! ### W2 at one clause -/

theorem W2.at_clause {P P' : Nat → Lit → Prop} {s : Sat} (hc : s.WfC) (h : s.W2 P) {id : Nat} {l0 l1 : Lit}
    {r : List Lit} (hm : (id, l0 :: l1 :: r) ∈ s.cls) (hP : ∀ id' x, id' ≠ id → P id' x → P' id' x)
    (hnew : (s.value l0 = some false → P' id l0.neg ∨ (s.value l1 = some true ∧ s.lvl l1 ≤ s.lvl l0)) ∧
      (s.value l1 = some false → P' id l1.neg ∨ (s.value l0 = some true ∧ s.lvl l0 ≤ s.lvl l1))) : s.W2 P' := by
  intro id' a b r' hm'
  by_cases hid : id' = id
  · subst hid
    have e := mem_unique hc hm hm'
    simp only [List.cons.injEq] at e
    obtain ⟨e1, e2, e3⟩ := e
    subst e1 e2 e3
    exact hnew
  · obtain ⟨h1, h2⟩ := h id' a b r' hm'
    exact ⟨fun hv => (h1 hv).imp (hP _ _ hid) (fun x => x), fun hv => (h2 hv).imp (hP _ _ hid) (fun x => x)⟩

/-! ### the visit invariant -/

/-- pending propagations while the watchers `rest` of `p` are still to be visited -/
def PendV (s : Sat) (p : Lit) (rest : List Nat) : Nat → Lit → Prop :=
  fun id x => x ∈ s.queue ∨ (x = p ∧ id ∈ rest)

structure VInv (orig : Cnf) (m : Nat) (s : Sat) (p : Lit) (rest : List Nat) : Prop where
  inv : InvC orig m (PendV s p rest) (s.putBack p rest)
  pt : p ∈ s.trail
  pl : s.lvl p = s.decisionLevel

/-- a conflict: clause `id` is falsified, one of its literals is of the current level -/
structure Conf (orig : Cnf) (m : Nat) (t : Sat) (id : Nat) : Prop where
  inv : InvC orig m (fun _ x => x ∈ t.trail ∧ t.lvl x = t.decisionLevel) t
  queue : t.queue = []
  cnfl : ∃ c, (id, c) ∈ t.cls ∧ (∀ l ∈ c, l.neg ∈ t.trail) ∧ ∃ l ∈ c, t.lvl l = t.decisionLevel

end Sat
end Oratio

namespace Oratio
namespace Sat

section
variable {orig : Cnf} {m : Nat} {s : Sat} {p : Lit} {id : Nat} {rest : List Nat}

theorem VInv.idx_lt (h : VInv orig m s p rest) : p.idx < s.watches.length := by
  have h1 := h.inv.wf.w.lenWatches
  have h2 := h.inv.wf.a.trail_lt h.pt
  have : (s.putBack p rest).watches.length = s.watches.length := by simp [putBack]
  rw [this] at h1
  rw [h1]; exact Lit.idx_lt h2

theorem VInv.p_true (h : VInv orig m s p rest) : s.value p = some true :=
  (h.inv.wf.a.value_true (s := s.putBack p rest)).2 (Or.inl h.pt)

theorem VInv.head_mem (h : VInv orig m s p (id :: rest)) :
    id ∈ (s.putBack p (id :: rest)).watches.getD p.idx [] := by
  rw [putBack_getD, if_pos ⟨rfl, h.idx_lt⟩]
  exact List.mem_append_right _ (List.mem_cons_self ..)

/-- first step of `clausePropagate`: the false literal `¬p` goes to position 1 -/
theorem VInv.normalize (h : VInv orig m s p (id :: rest)) :
    ∃ a r s1, s.clausePropagate id p = s1.clausePropagate id p ∧ VInv orig m s1 p (id :: rest) ∧
      (id, a :: p.neg :: r) ∈ s1.cls := by
  obtain ⟨l0, l1, r, hm, hh⟩ := h.inv.wf.w.sound p.idx id h.head_mem
  have hwc : s.WfC := h.inv.wf.c.of_eq rfl rfl rfl
  rcases hh with hh | hh
  · have e : l0 = p.neg := by have := Lit.idx_inj hh; rw [← this]; simp
    subst e
    refine ⟨l1, r, s.setClause id (l1 :: p.neg :: r), clausePropagate_swap hwc hm, ⟨⟨?_, ?_, ?_, ?_⟩, h.pt, h.pl⟩,
      (mem_setClause hwc hm).2 (Or.inr rfl)⟩
    · refine ⟨h.inv.wf.a.setClause _ _, h.inv.wf.c.setClause hm (List.Perm.swap _ _ _), ?_,
        h.inv.wf.w.setClause_swap h.inv.wf.c hm⟩
      apply WfR.setClause h.inv.wf.c h.inv.wf.r hm
      intro l r' e ht
      simp only [List.cons.injEq] at e
      exact absurd ht (fun ht' => h.inv.wf.a.not_both h.pt (e.1 ▸ ht'))
    · exact h.inv.ent.setClause h.inv.wf.c hm (List.Perm.swap _ _ _)
    · exact h.inv.dec
    · intro hd; exact (h.inv.w2 hd).setClause_swap h.inv.wf.c hm
  · have e : l1 = p.neg := by have := Lit.idx_inj hh; rw [← this]; simp
    subst e
    exact ⟨l0, r, s, rfl, h, hm⟩

/-- data of a normalised clause under the visit invariant -/
theorem VInv.clause_facts (h : VInv orig m s p (id :: rest)) {a : Lit} {r : List Lit}
    (hm : (id, a :: p.neg :: r) ∈ s.cls) :
    a.var ≠ p.var ∧ a.var ≠ 0 ∧ a.var < s.vals.length ∧ (∀ y ∈ r, y.var ≠ p.var ∧ y.var ≠ a.var ∧ y.var ≠ 0) ∧
      id ∉ rest ∧ id ∉ s.watches.getD p.idx [] := by
  have hnd := h.inv.wf.c.clsNodup _ hm
  simp only [List.map_cons, List.nodup_cons, List.mem_cons, Lit.neg_var, not_or, List.mem_map, not_exists,
    not_and] at hnd
  have hv0 := h.inv.wf.c.clsVar0 _ hm
  have hwn := h.inv.wf.w.nodup p.idx
  rw [putBack_getD, if_pos ⟨rfl, h.idx_lt⟩, List.nodup_append] at hwn
  refine ⟨hnd.1.1, hv0 a (by simp), h.inv.wf.c.clsRange _ hm a (by simp), ?_, ?_, ?_⟩
  · intro y hy
    exact ⟨fun e => hnd.2.1 y hy e, fun e => hnd.1.2 y hy e, hv0 y (by simp [hy])⟩
  · exact (List.nodup_cons.1 hwn.2.1).1
  · intro hi; exact hwn.2.2 _ hi _ (List.mem_cons_self ..) rfl

end

end Sat
end Oratio

namespace Oratio
namespace Sat

section
variable {orig : Cnf} {m : Nat} {s : Sat} {p : Lit} {id : Nat} {rest : List Nat} {a : Lit} {r : List Lit}

theorem VInv.a_lvl_le (h : VInv orig m s p (id :: rest)) (hm : (id, a :: p.neg :: r) ∈ s.cls)
    (ha : s.value a = some true) : s.lvl a ≤ s.lvl p := by
  have hat : a ∈ s.trail := by
    rcases (h.inv.wf.a.value_true (s := s.putBack p (id :: rest))).1 ha with h1 | h1
    · exact h1
    · exact absurd (by rw [h1]; rfl) (h.clause_facts hm).2.1
  rw [h.pl]; exact h.inv.wf.a.lvl_le (s := s.putBack p (id :: rest)) hat

/-- the other watch is true: the clause stays in the watch list of `p` -/
theorem VInv.keep (h : VInv orig m s p (id :: rest)) (hm : (id, a :: p.neg :: r) ∈ s.cls)
    (ha : s.value a = some true) : VInv orig m (s.watch p id) p rest := by
  refine ⟨?_, h.pt, h.pl⟩
  rw [putBack_watch _ _ _ _ h.idx_lt]
  refine ⟨h.inv.wf, h.inv.ent, h.inv.dec, fun hd => ?_⟩
  apply (h.inv.w2 hd).at_clause h.inv.wf.c hm
  · intro id' x hne hP
    rcases hP with hq | ⟨hx, hi⟩
    · exact Or.inl hq
    · exact Or.inr ⟨hx, (List.mem_cons.1 hi).resolve_left hne⟩
  · refine ⟨fun hv => ?_, fun _ => Or.inr ⟨ha, h.a_lvl_le hm ha⟩⟩
    rw [show (s.putBack p (id :: rest)).value a = s.value a from rfl, ha] at hv
    cases hv

/-- all other literals are false (from `findNonFalse = none`) -/
theorem others_false (hf : findNonFalse s (a :: p.neg :: r) 1 = none) : ∀ y ∈ r, s.value y = some false := by
  intro y hy
  obtain ⟨j, hj, e⟩ := List.getElem_of_mem hy
  have := findNonFalse_none hf (j + 2) (by omega) (by simp; omega)
  simpa [List.getD_eq_getElem?_getD, hj, e] using this

theorem VInv.rest_on_trail (h : VInv orig m s p (id :: rest)) (hm : (id, a :: p.neg :: r) ∈ s.cls)
    (hf : findNonFalse s (a :: p.neg :: r) 1 = none) : ∀ y ∈ p.neg :: r, y.neg ∈ s.trail := by
  intro y hy
  rcases List.mem_cons.1 hy with rfl | hy
  · simpa using h.pt
  · rcases (h.inv.wf.a.value_false (s := s.putBack p (id :: rest))).1 (others_false hf y hy) with h1 | h1
    · exact h1
    · exact absurd (by rw [h1]; rfl) ((h.clause_facts hm).2.2.2.1 y hy).2.2

/-- the clause is unit: its head is enqueued with the clause as reason -/
theorem VInv.unit (h : VInv orig m s p (id :: rest)) (hm : (id, a :: p.neg :: r) ∈ s.cls)
    (ha : s.value a = none) (hf : findNonFalse s (a :: p.neg :: r) 1 = none) :
    VInv orig m ((s.watch p id).enq a (some id)) p rest := by
  obtain ⟨hap, ha0, halt, hr, hid, _⟩ := h.clause_facts hm
  have hrt := h.rest_on_trail hm hf
  have hpa : p.var ≠ a.var := fun e => hap e.symm
  have hE : ((s.watch p id).enq a (some id)).putBack p rest = (s.putBack p (id :: rest)).enq a (some id) := by
    rw [← putBack_watch _ _ _ _ h.idx_lt]; rfl
  refine ⟨?_, List.mem_cons_of_mem _ h.pt, ?_⟩
  · rw [hE]
    have hwf := h.inv.wf
    have hval : (s.putBack p (id :: rest)).value a = none := ha
    refine ⟨hwf.enq hval halt (fun e => by cases e) ?_, ?_, h.inv.dec.enq hwf.a hval, fun hd => ?_⟩
    · intro id' e
      simp only [Option.some.injEq] at e; subst e
      exact ⟨p.neg :: r, hm, hrt⟩
    · exact h.inv.ent.enq hwf.a hval halt (ents_unit hwf.a h.inv.ent (h.inv.ent.clauses _ hm) hrt)
    · have hw2 := (h.inv.w2 hd).enq (P' := fun id' x => x ∈ s.queue ++ [a] ∨ (x = p ∧ id' ∈ id :: rest))
        (c := some id) hwf.a hval halt
        (by
          intro id' x hP
          rcases hP with hq | hP
          · exact Or.inl (List.mem_append_left _ hq)
          · exact Or.inr hP)
        (fun id' => Or.inl (List.mem_append_right _ (List.mem_singleton.2 rfl)))
      apply hw2.at_clause hwf.c.enq hm
      · intro id' x hne hP
        rcases hP with hq | ⟨hx, hi⟩
        · exact Or.inl hq
        · exact Or.inr ⟨hx, (List.mem_cons.1 hi).resolve_left hne⟩
      · have hat : ((s.putBack p (id :: rest)).enq a (some id)).value a = some true := enq_value_self halt
        refine ⟨fun hv => ?_, fun _ => Or.inr ⟨hat, ?_⟩⟩
        · rw [hat] at hv; cases hv
        · rw [enq_lvl_self hwf.a halt, lvl_neg, enq_lvl_ne hpa]
          exact Nat.le_of_eq h.pl.symm
  · show ((s.watch p id).enq a (some id)).lvl p = s.decisionLevel
    rw [enq_lvl_ne hpa]; exact h.pl

theorem WfA.clearQueue {s : Sat} (h : s.WfA) : ({ s with queue := [] } : Sat).WfA := by
  obtain ⟨a1, a2, a3, a4, a5, a6, a7, a8, a9, a10, a11, a12, a13⟩ := h
  exact ⟨a1, a2, a3, a4, a5, a6, a7, a8, a9, a10, (fun p hp => by cases hp), a12, a13⟩

/-- the clause is falsified -/
theorem VInv.conflict (h : VInv orig m s p (id :: rest)) (hm : (id, a :: p.neg :: r) ∈ s.cls)
    (ha : s.value a = some false) (hf : findNonFalse s (a :: p.neg :: r) 1 = none) :
    Conf orig m { (s.watch p id).putBack p rest with queue := [] } id := by
  rw [putBack_watch _ _ _ _ h.idx_lt]
  obtain ⟨hap, ha0, halt, hr, hid, _⟩ := h.clause_facts hm
  have hrt := h.rest_on_trail hm hf
  have hwf := h.inv.wf
  have hat : a.neg ∈ s.trail := by
    rcases (hwf.a.value_false).1 ha with h1 | h1
    · exact h1
    · exact absurd (by rw [h1]; rfl) ha0
  refine ⟨⟨⟨hwf.a.clearQueue, hwf.c.of_eq rfl rfl rfl, hwf.r.of_eq rfl rfl rfl, hwf.w.of_eq rfl rfl rfl⟩,
    h.inv.ent.of_eq rfl rfl rfl rfl rfl rfl, h.inv.dec, fun hd => ?_⟩, rfl, ?_⟩
  · have := (h.inv.w2 hd).mono (P' := fun _ x => x ∈ s.trail ∧ s.lvl x = s.decisionLevel) (by
      intro id' x hP
      rcases hP with hq | ⟨hx, _⟩
      · exact hwf.a.queueOK x hq
      · subst hx; exact ⟨h.pt, h.pl⟩)
    exact this.of_eq rfl rfl rfl
  · refine ⟨a :: p.neg :: r, hm, ?_, p.neg, by simp, h.pl⟩
    intro l hl
    rcases List.mem_cons.1 hl with rfl | hl
    · exact hat
    · exact hrt l hl

end

end Sat
end Oratio

namespace Oratio
namespace Sat

section
variable {orig : Cnf} {m : Nat} {s : Sat} {p : Lit} {id : Nat} {rest : List Nat} {a : Lit} {r : List Lit}

/-- a new literal to watch was found -/
theorem VInv.move (h : VInv orig m s p (id :: rest)) (hm : (id, a :: p.neg :: r) ∈ s.cls) {k : Nat}
    (hf : findNonFalse s (a :: p.neg :: r) 1 = some k) :
    VInv orig m ((s.setClause id (swap1 (a :: p.neg :: r) k)).watch
      ((swap1 (a :: p.neg :: r) k).getD 1 Lit.falseLit).neg id) p rest := by
  obtain ⟨hap, ha0, halt, hr, hid, hidw⟩ := h.clause_facts hm
  obtain ⟨hk1, hklt, hkv⟩ := findNonFalse_some hf
  have hpf : s.value p.neg = some false := value_neg_false.2 h.p_true
  have hk2 : 2 ≤ k := by
    rcases Nat.lt_or_ge k 2 with hlt | hge
    · have : k = 1 := by omega
      subst this
      simp only [List.getD_eq_getElem?_getD, List.getElem?_cons_succ, List.getElem?_cons_zero, Option.getD_some] at hkv
      exact absurd hpf hkv
    · exact hge
  obtain ⟨x, r', hsw, hx, hxr, hperm, hr'⟩ := swap1_spec (a := a) (np := p.neg) (r := r) hk2 hklt
  rw [hsw]
  simp only [List.getD_eq_getElem?_getD, List.getElem?_cons_succ, List.getElem?_cons_zero, Option.getD_some]
  have hxv : s.value x ≠ some false := by rw [hx]; exact hkv
  obtain ⟨hxp, hxa, hx0⟩ := hr x hxr
  have hwf := h.inv.wf
  have hwc : s.WfC := hwf.c.of_eq rfl rfl rfl
  have hpermc : (a :: x :: r').Perm (a :: p.neg :: r) := hperm.cons a
  have hmem := fun e => @mem_setClause s hwc id _ (a :: x :: r') hm e
  have hxlt : x.neg.idx < s.watches.length := by
    have h1 := hwf.w.lenWatches
    have : (s.putBack p (id :: rest)).watches.length = s.watches.length := by simp [putBack]
    rw [this] at h1; rw [h1]
    exact Lit.idx_lt (hwf.c.clsRange _ hm x (by simp [hxr]))
  have hxpi : x.neg.idx ≠ p.idx := fun e => hxp (by have := Lit.idx_inj e; rw [← this]; rfl)
  have hxai : x.neg.idx ≠ a.neg.idx := Lit.neg_idx_ne hxa
  have hapi : a.neg.idx ≠ p.idx := fun e => hap (by have := Lit.idx_inj e; rw [← this]; rfl)
  -- the watch lists before and after
  have hW : ∀ i, (s.putBack p (id :: rest)).watches.getD i [] =
      if i = p.idx then s.watches.getD i [] ++ id :: rest else s.watches.getD i [] := by
    intro i; rw [putBack_getD]
    by_cases e : p.idx = i
    · subst e; simp [h.idx_lt]
    · simp [e, Ne.symm e]
  have hW' : ∀ i, (((s.setClause id (a :: x :: r')).watch x.neg id).putBack p rest).watches.getD i [] =
      if i = p.idx then s.watches.getD i [] ++ rest
      else if i = x.neg.idx then s.watches.getD i [] ++ [id] else s.watches.getD i [] := by
    intro i
    rw [putBack_getD, watch_getD]
    have hl : ((s.setClause id (a :: x :: r')).watch x.neg id).watches.length = s.watches.length := by
      simp [watch, setClause]
    rw [hl]
    show (if p.idx = i ∧ p.idx < s.watches.length then
        (if x.neg.idx = i ∧ x.neg.idx < s.watches.length then s.watches.getD i [] ++ [id] else s.watches.getD i []) ++ rest
      else (if x.neg.idx = i ∧ x.neg.idx < s.watches.length then s.watches.getD i [] ++ [id] else s.watches.getD i [])) = _
    by_cases e : p.idx = i
    · subst e; simp [h.idx_lt, hxpi]
    · by_cases e2 : x.neg.idx = i
      · subst e2; simp [e, hxlt, hxpi]
      · simp [e, e2, Ne.symm e, Ne.symm e2]
  have hold : ∀ {l0 l1 : Lit} {r0 : List Lit}, (id, l0 :: l1 :: r0) ∈ s.cls → l0 = a ∧ l1 = p.neg := by
    intro l0 l1 r0 hm'
    have e := mem_unique hwc hm hm'
    simp only [List.cons.injEq] at e
    exact ⟨e.1.symm, e.2.1.symm⟩
  have hnotin : ∀ i, i ≠ p.idx → i ≠ a.neg.idx → id ∉ s.watches.getD i [] := by
    intro i h1 h2 hi
    have : id ∈ (s.putBack p (id :: rest)).watches.getD i [] := by rw [hW, if_neg h1]; exact hi
    obtain ⟨l0, l1, r0, hm', hh⟩ := hwf.w.sound i id this
    obtain ⟨rfl, rfl⟩ := hold hm'
    rcases hh with hh | hh
    · exact h2 hh.symm
    · simp only [Lit.neg_neg] at hh; exact h1 hh.symm
  refine ⟨⟨⟨hwf.a.of_eq rfl rfl rfl rfl rfl rfl rfl rfl, ?_, ?_, ⟨?_, ?_, ?_, ?_⟩⟩, ?_, h.inv.dec, ?_⟩, h.pt, h.pl⟩
  · exact (hwc.setClause hm hpermc).of_eq rfl rfl rfl
  · have := WfR.setClause hwc (hwf.r.of_eq (t := s) rfl rfl rfl) hm (c' := a :: x :: r') (by
      intro l r0 e _
      simp only [List.cons.injEq] at e
      obtain ⟨rfl, rfl⟩ := e
      exact ⟨x :: r', rfl, fun y hy => hperm.mem_iff.1 hy⟩)
    exact this.of_eq rfl rfl rfl
  · have := hwf.w.lenWatches
    simp only [putBack, watch, setClause, List.length_set] at this ⊢
    exact this
  · -- sound
    intro i id' hi
    rw [hW'] at hi
    by_cases e1 : i = p.idx
    · rw [if_pos e1] at hi
      have hne : id' ≠ id := by
        rintro rfl
        rcases List.mem_append.1 hi with h1 | h1
        · exact hidw (e1 ▸ h1)
        · exact hid h1
      have : id' ∈ (s.putBack p (id :: rest)).watches.getD i [] := by
        rw [hW, if_pos e1]
        rcases List.mem_append.1 hi with h1 | h1
        · exact List.mem_append_left _ h1
        · exact List.mem_append_right _ (List.mem_cons_of_mem _ h1)
      obtain ⟨l0, l1, r0, hm', hh⟩ := hwf.w.sound i id' this
      exact ⟨l0, l1, r0, (hmem _).2 (Or.inl ⟨hm', hne⟩), hh⟩
    · rw [if_neg e1] at hi
      by_cases e2 : i = x.neg.idx
      · rw [if_pos e2] at hi
        rcases List.mem_append.1 hi with h1 | h1
        · have hne : id' ≠ id := by
            rintro rfl
            exact hnotin i e1 (by rw [e2]; exact hxai) h1
          have : id' ∈ (s.putBack p (id :: rest)).watches.getD i [] := by rw [hW, if_neg e1]; exact h1
          obtain ⟨l0, l1, r0, hm', hh⟩ := hwf.w.sound i id' this
          exact ⟨l0, l1, r0, (hmem _).2 (Or.inl ⟨hm', hne⟩), hh⟩
        · simp only [List.mem_singleton] at h1; subst h1
          exact ⟨a, x, r', (hmem _).2 (Or.inr rfl), Or.inr e2.symm⟩
      · rw [if_neg e2] at hi
        have : id' ∈ (s.putBack p (id :: rest)).watches.getD i [] := by rw [hW, if_neg e1]; exact hi
        obtain ⟨l0, l1, r0, hm', hh⟩ := hwf.w.sound i id' this
        by_cases hne : id' = id
        · subst hne
          obtain ⟨rfl, rfl⟩ := hold hm'
          rcases hh with hh | hh
          · exact ⟨l0, x, r', (hmem _).2 (Or.inr rfl), Or.inl hh⟩
          · simp only [Lit.neg_neg] at hh; exact absurd hh.symm e1
        · exact ⟨l0, l1, r0, (hmem _).2 (Or.inl ⟨hm', hne⟩), hh⟩
  · -- complete
    have htrans : ∀ i id', id' ≠ id → id' ∈ (s.putBack p (id :: rest)).watches.getD i [] →
        id' ∈ (((s.setClause id (a :: x :: r')).watch x.neg id).putBack p rest).watches.getD i [] := by
      intro i id' hne hi
      rw [hW] at hi; rw [hW']
      by_cases e1 : i = p.idx
      · rw [if_pos e1] at hi ⊢
        rcases List.mem_append.1 hi with h1 | h1
        · exact List.mem_append_left _ h1
        · rcases List.mem_cons.1 h1 with h1 | h1
          · exact absurd h1 hne
          · exact List.mem_append_right _ h1
      · rw [if_neg e1] at hi ⊢
        split
        · exact List.mem_append_left _ hi
        · exact hi
    intro id' l0 l1 r0 hm'
    rcases (hmem _).1 hm' with ⟨hm'', hne⟩ | e
    · obtain ⟨h1, h2⟩ := hwf.w.complete id' l0 l1 r0 hm''
      exact ⟨htrans _ _ hne h1, htrans _ _ hne h2⟩
    · simp only [Prod.mk.injEq, List.cons.injEq] at e
      obtain ⟨rfl, rfl, rfl, rfl⟩ := e
      constructor
      · rw [hW', if_neg hapi, if_neg (Ne.symm hxai)]
        have := (hwf.w.complete _ _ _ _ hm).1
        rw [hW, if_neg hapi] at this
        exact this
      · rw [hW', if_neg hxpi, if_pos rfl]
        exact List.mem_append_right _ (List.mem_singleton.2 rfl)
  · -- nodup
    intro i
    rw [hW']
    have hn := hwf.w.nodup i
    rw [hW] at hn
    by_cases e1 : i = p.idx
    · rw [if_pos e1] at hn ⊢
      exact hn.sublist (List.Sublist.append (List.Sublist.refl _) (List.sublist_cons_self _ _))
    · rw [if_neg e1] at hn ⊢
      split
      · rename_i e2
        rw [List.nodup_append]
        refine ⟨hn, by simp, ?_⟩
        intro y hy z hz
        simp only [List.mem_singleton] at hz; subst hz
        rintro rfl
        exact hnotin i e1 (by rw [e2]; exact hxai) hy
      · exact hn
  · have := h.inv.ent.setClause (s := s.putBack p (id :: rest)) hwf.c hm hpermc
    exact this.of_eq rfl rfl rfl rfl rfl rfl
  · intro hd
    have hw2 := h.inv.w2 hd
    intro id' l0 l1 r0 hm'
    rcases (hmem _).1 hm' with ⟨hm'', hne⟩ | e
    · obtain ⟨h1, h2⟩ := hw2 id' l0 l1 r0 hm''
      have hP : ∀ y, PendV s p (id :: rest) id' y →
          PendV ((s.setClause id (a :: x :: r')).watch x.neg id) p rest id' y := by
        intro y hP
        rcases hP with hq | ⟨hy, hi⟩
        · exact Or.inl hq
        · exact Or.inr ⟨hy, (List.mem_cons.1 hi).resolve_left hne⟩
      exact ⟨fun hv => (h1 hv).imp (hP _) (fun z => z), fun hv => (h2 hv).imp (hP _) (fun z => z)⟩
    · simp only [Prod.mk.injEq, List.cons.injEq] at e
      obtain ⟨rfl, rfl, rfl, rfl⟩ := e
      refine ⟨fun hv => ?_, fun hv => absurd hv hxv⟩
      left
      rcases (hw2 _ _ _ _ hm).1 hv with hP | ⟨h1, _⟩
      · rcases hP with hq | ⟨hy, _⟩
        · exact Or.inl hq
        · exact absurd (by rw [← hy]; rfl) hap
      · rw [show (s.putBack p (id' :: rest)).value p.neg = s.value p.neg from rfl, hpf] at h1
        cases h1

end

end Sat
end Oratio

namespace Oratio
namespace Sat

section
variable {orig : Cnf} {m : Nat} {p : Lit}

theorem clausePropagate_spec {s : Sat} {id : Nat} {rest : List Nat} (h : VInv orig m s p (id :: rest)) :
    (∀ s', s.clausePropagate id p = (true, s') → VInv orig m s' p rest) ∧
    (∀ s', s.clausePropagate id p = (false, s') → Conf orig m { s'.putBack p rest with queue := [] } id) := by
  obtain ⟨a, r, s1, he, h1, hm⟩ := h.normalize
  have hwc : s1.WfC := h1.inv.wf.c.of_eq rfl rfl rfl
  rw [he, clausePropagate_normal hwc hm]
  by_cases hat : s1.value a = some true
  · rw [if_pos hat]
    refine ⟨fun s' e => ?_, fun s' e => ?_⟩
    · simp only [Prod.mk.injEq, true_and] at e; subst e; exact h1.keep hm hat
    · simp at e
  · rw [if_neg hat]
    cases hf : findNonFalse s1 (a :: p.neg :: r) 1 with
    | some k =>
      refine ⟨fun s' e => ?_, fun s' e => ?_⟩
      · simp only [Prod.mk.injEq, true_and] at e; subst e; exact h1.move hm hf
      · simp at e
    | none =>
      simp only
      cases hv : s1.value a with
      | none =>
        have hv' : (s1.watch p id).value a = none := hv
        rw [enqueue_none _ hv']
        refine ⟨fun s' e => ?_, fun s' e => ?_⟩
        · simp only [Prod.mk.injEq, true_and] at e; subst e; exact h1.unit hm hv hf
        · simp at e
      | some b =>
        cases b with
        | true => exact absurd hv hat
        | false =>
          have hv' : (s1.watch p id).value a = some false := hv
          rw [enqueue_some _ hv']
          refine ⟨fun s' e => ?_, fun s' e => ?_⟩
          · simp at e
          · simp only [Prod.mk.injEq, true_and] at e; subst e; exact h1.conflict hm hv hf

theorem visit_spec : ∀ (tmp : List Nat) (s : Sat), VInv orig m s p tmp →
    (∀ s', visitWatchers s p tmp = (s', none) → VInv orig m s' p []) ∧
    (∀ s' id, visitWatchers s p tmp = (s', some id) → Conf orig m s' id)
  | [], s, h => by
    simp only [visitWatchers, Prod.mk.injEq]
    exact ⟨fun s' e => by rw [← e.1]; exact h, fun s' id e => by simp at e⟩
  | id :: rest, s, h => by
    obtain ⟨ht, hf⟩ := clausePropagate_spec h
    unfold visitWatchers
    rcases hcp : s.clausePropagate id p with ⟨b, s1⟩
    cases b with
    | true =>
      simp only
      exact visit_spec rest s1 (ht s1 hcp)
    | false =>
      simp only [Prod.mk.injEq]
      refine ⟨fun s' e => by simp at e, fun s' id' e => ?_⟩
      obtain ⟨e1, e2⟩ := e
      simp only [Option.some.injEq] at e2
      subst e1 e2
      exact hf s1 hcp

end

end Sat
end Oratio
