/-
C07: helper lemmas for `Sat.analyze_spec`: semantics, frame lemmas for `popN`, level facts.
-/
import OratioModel
import OratioProofs.Lemmas.SatCoreDefs

namespace Oratio

@[simp] theorem Lit.an_neg_var (l : Lit) : l.neg.var = l.var := rfl
@[simp] theorem Lit.an_neg_neg (l : Lit) : l.neg.neg = l := by cases l; simp [Lit.neg]
theorem Lit.an_map_neg_neg (l : List Lit) : (l.map Lit.neg).map Lit.neg = l := by
  induction l with
  | nil => rfl
  | cons a l ih => simp [ih]

theorem Asg.an_lit_neg (α : Asg) (l : Lit) : α.lit l.neg = !α.lit l := by
  cases l with | mk v b => cases b <;> simp [Asg.lit, Lit.neg]

theorem Ents.an_weaken {F : Cnf} {c c' : Clause} (h : Ents F c)
    (hs : ∀ x ∈ c, x ∈ c' ∨ Ents F [x.neg]) : Ents F c' := by
  intro α h0 hF
  have := h α h0 hF
  simp only [Asg.clause, List.any_eq_true] at this ⊢
  obtain ⟨x, hx, hα⟩ := this
  rcases hs x hx with h1 | h1
  · exact ⟨x, h1, hα⟩
  · have := h1 α h0 hF
    simp [Asg.clause, Asg.an_lit_neg, hα] at this

theorem Ents.an_resolve {F : Cnf} {c1 c2 c' : Clause} (p : Lit) (h1 : Ents F c1) (h2 : Ents F c2)
    (hs1 : ∀ x ∈ c1, x = p.neg ∨ x ∈ c') (hs2 : ∀ x ∈ c2, x = p ∨ x ∈ c') : Ents F c' := by
  intro α h0 hF
  have a1 := h1 α h0 hF
  have a2 := h2 α h0 hF
  simp only [Asg.clause, List.any_eq_true] at a1 a2 ⊢
  obtain ⟨x, hx, hα⟩ := a1
  obtain ⟨y, hy, hβ⟩ := a2
  rcases hs1 x hx with e1 | e1
  · rcases hs2 y hy with e2 | e2
    · subst e1 e2
      simp [Asg.an_lit_neg, hβ] at hα
    · exact ⟨y, e2, hβ⟩
  · exact ⟨x, e1, hα⟩

namespace Sat

@[simp] theorem an_lvl_neg (s : Sat) (l : Lit) : s.lvl l.neg = s.lvl l := rfl

theorem an_lvl_congr (s : Sat) {x y : Lit} (h : x.var = y.var) : s.lvl x = s.lvl y := by
  simp [lvl, h]

/-! ### frame lemmas for `popOne` / `popN` -/

theorem an_popN_succ (k : Nat) (s : Sat) : s.popN (k + 1) = (s.popN k).popOne := by
  induction k generalizing s with
  | zero => rfl
  | succ k ih =>
    show popN (k + 1) s.popOne = (popN k s.popOne).popOne
    exact ih _

theorem an_popOne_trail (s : Sat) : s.popOne.trail = s.trail.drop 1 := by
  unfold popOne; split <;> simp [*]

theorem an_popOne_cls (s : Sat) : s.popOne.cls = s.cls := by
  unfold popOne; split <;> simp

theorem an_popOne_trailLim (s : Sat) : s.popOne.trailLim = s.trailLim := by
  unfold popOne; split <;> simp

theorem an_popOne_level (s : Sat) (v : Nat) (h : ∀ x ∈ s.trail.head?, x.var ≠ v) :
    s.popOne.level.getD v 0 = s.level.getD v 0 := by
  unfold popOne; split
  · rfl
  · rename_i p rest hp
    have : p.var ≠ v := h p (by simp [hp])
    simp [List.getD_eq_getElem?_getD, List.getElem?_set_ne this]

theorem an_popOne_reason (s : Sat) (v : Nat) (h : ∀ x ∈ s.trail.head?, x.var ≠ v) :
    s.popOne.reason.getD v none = s.reason.getD v none := by
  unfold popOne; split
  · rfl
  · rename_i p rest hp
    have : p.var ≠ v := h p (by simp [hp])
    simp [List.getD_eq_getElem?_getD, List.getElem?_set_ne this]

theorem an_popN_trail (k : Nat) (s : Sat) : (s.popN k).trail = s.trail.drop k := by
  induction k with
  | zero => rfl
  | succ k ih => rw [an_popN_succ, an_popOne_trail, ih, List.drop_drop]

theorem an_popN_cls (k : Nat) (s : Sat) : (s.popN k).cls = s.cls := by
  induction k with
  | zero => rfl
  | succ k ih => rw [an_popN_succ, an_popOne_cls, ih]

theorem an_popN_trailLim (k : Nat) (s : Sat) : (s.popN k).trailLim = s.trailLim := by
  induction k with
  | zero => rfl
  | succ k ih => rw [an_popN_succ, an_popOne_trailLim, ih]

theorem an_popN_decisionLevel (k : Nat) (s : Sat) : (s.popN k).decisionLevel = s.decisionLevel := by
  simp [decisionLevel, an_popN_trailLim]

theorem an_popN_clauseOf (k : Nat) (s : Sat) (id : Nat) : (s.popN k).clauseOf id = s.clauseOf id := by
  simp [clauseOf, an_popN_cls]

theorem an_popN_level (k : Nat) (s : Sat) (v : Nat) (h : ∀ x ∈ s.trail.take k, x.var ≠ v) :
    (s.popN k).level.getD v 0 = s.level.getD v 0 := by
  induction k with
  | zero => rfl
  | succ k ih =>
    rw [an_popN_succ, an_popOne_level, ih]
    · intro x hx; exact h x (by rw [List.take_add_one]; simp [hx])
    · intro x hx
      rw [an_popN_trail, List.head?_drop] at hx
      exact h x (by rw [List.take_add_one]; simp at hx; simp [hx])

theorem an_popN_reason (k : Nat) (s : Sat) (v : Nat) (h : ∀ x ∈ s.trail.take k, x.var ≠ v) :
    (s.popN k).reason.getD v none = s.reason.getD v none := by
  induction k with
  | zero => rfl
  | succ k ih =>
    rw [an_popN_succ, an_popOne_reason, ih]
    · intro x hx; exact h x (by rw [List.take_add_one]; simp [hx])
    · intro x hx
      rw [an_popN_trail, List.head?_drop] at hx
      exact h x (by rw [List.take_add_one]; simp at hx; simp [hx])

/-! ### facts from `WfA` -/

theorem an_var_inj_of_mem {s : Sat} (hw : s.WfA) {x y : Lit} (hx : x ∈ s.trail) (hy : y ∈ s.trail)
    (h : x.var = y.var) : x = y := by
  have hn := hw.trailNodup
  generalize s.trail = T at hx hy hn
  induction T with
  | nil => cases hx
  | cons a T ih =>
    rw [List.map_cons, List.nodup_cons] at hn
    rcases List.mem_cons.1 hx with rfl | hx' <;> rcases List.mem_cons.1 hy with rfl | hy'
    · rfl
    · exact absurd (h ▸ List.mem_map_of_mem hy') hn.1
    · exact absurd (h ▸ List.mem_map_of_mem hx') hn.1
    · exact ih hx' hy' hn.2

theorem an_var_ne_of_take_drop {s : Sat} (hw : s.WfA) (k : Nat) {x y : Lit} (hx : x ∈ s.trail.take k)
    (hy : y ∈ s.trail.drop k) : x.var ≠ y.var := by
  have h := hw.trailNodup
  rw [← List.take_append_drop k s.trail, List.map_append, List.nodup_append] at h
  exact h.2.2 _ (List.mem_map_of_mem hx) _ (List.mem_map_of_mem hy)

/-- levels are unchanged by popping for literals whose variable is still on the trail -/
theorem an_popN_level_of_mem {s : Sat} (hw : s.WfA) (k : Nat) {x y : Lit} (hy : y ∈ s.trail.drop k)
    (h : x.var = y.var) : (s.popN k).level.getD x.var 0 = s.lvl x := by
  rw [lvl]; apply an_popN_level
  intro z hz; rw [h]; exact an_var_ne_of_take_drop hw k hz hy

theorem an_popN_reason_of_mem {s : Sat} (hw : s.WfA) (k : Nat) {y : Lit} (hy : y ∈ s.trail.drop k) :
    (s.popN k).reason.getD y.var none = s.reason.getD y.var none := by
  apply an_popN_reason
  intro z hz; exact an_var_ne_of_take_drop hw k hz hy

theorem an_suffix_of_mem {T : List Lit} {l : Lit} (h : l ∈ T) : ∃ b, (l :: b) <:+ T := by
  obtain ⟨pre, b, rfl⟩ := List.mem_iff_append.1 h
  exact ⟨b, List.suffix_append _ _⟩

theorem an_lvl_le_dl {s : Sat} (hw : s.WfA) {l : Lit} (h : l ∈ s.trail) : s.lvl l ≤ s.decisionLevel := by
  obtain ⟨b, hb⟩ := an_suffix_of_mem h
  rw [hw.levelOK l b hb]; exact List.length_filter_le _ _

theorem an_lvl_mono {s : Sat} (hw : s.WfA) {l : Lit} {b : List Lit} (h : (l :: b) <:+ s.trail) {x : Lit}
    (hx : x ∈ b) : s.lvl x ≤ s.lvl l := by
  obtain ⟨pre, b', rfl⟩ := List.mem_iff_append.1 hx
  have h2 : (x :: b') <:+ s.trail :=
    (List.suffix_append _ _).trans ((List.suffix_cons _ _).trans h)
  rw [hw.levelOK l _ h, hw.levelOK x _ h2, ← List.countP_eq_length_filter, ← List.countP_eq_length_filter]
  apply List.countP_mono_left
  intro n _ hn
  simp at hn ⊢; omega

theorem an_lvl_eq_dl_iff {s : Sat} (hw : s.WfA) {l : Lit} {b : List Lit} (h : (l :: b) <:+ s.trail)
    {lim : Nat} {lims : List Nat} (hl : s.trailLim = lim :: lims) :
    s.lvl l = s.decisionLevel ↔ lim ≤ b.length := by
  rw [hw.levelOK l b h, decisionLevel]
  have hs := hw.limSorted
  rw [hl] at hs ⊢
  rw [List.pairwise_cons] at hs
  constructor
  · intro he
    apply Decidable.byContradiction; intro hc
    have : (List.filter (fun x => decide (x ≤ b.length)) (lim :: lims)).length ≤ lims.length := by
      rw [List.filter_cons_of_neg (by simpa using hc)]
      exact List.length_filter_le _ _
    simp at he this; omega
  · intro hle
    rw [List.filter_eq_self.2]
    intro a ha
    rcases List.mem_cons.1 ha with rfl | ha
    · simpa using hle
    · have := hs.1 a ha; simp; omega

theorem an_clauseOf_of_mem {s : Sat} (hw : s.WfC) {id : Nat} {c : Clause} (h : (id, c) ∈ s.cls) :
    s.clauseOf id = c := by
  have hn := hw.clsIdNodup
  unfold clauseOf
  generalize s.cls = L at h hn
  induction L with
  | nil => cases h
  | cons e L ih =>
    rw [List.map_cons, List.nodup_cons] at hn
    rcases List.mem_cons.1 h with rfl | h'
    · simp
    · have : e.1 ≠ id := by
        intro he; apply hn.1; rw [he]; exact List.mem_map_of_mem (f := (·.1)) h'
      rw [List.find?_cons_of_neg (by simpa using this)]
      exact ih h' hn.2

end Sat
end Oratio
