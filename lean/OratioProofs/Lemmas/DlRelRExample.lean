/-
Concrete real-valued networks for the non-vacuity examples of Properties/C12Rdl.lean, built by
running the model (`Dl.propagateEdge rdlOps`), with their exactness invariant.
-/
import OratioProofs.Lemmas.DlRelREq
import Mathlib.Tactic.NormNum

namespace Oratio
open Dl

/-- `3/2 - ε` -/
def w12 : IR := ⟨⟨3, 2⟩, ⟨-1, 1⟩⟩
/-- `-2` -/
def w10 : IR := ⟨⟨-2, 1⟩, ⟨0, 1⟩⟩
/-- `7` -/
def w01 : IR := ⟨⟨7, 1⟩, ⟨0, 1⟩⟩

/-- `exNet` (C10Rdl.lean: three time points, `x2 - x1 < 3/2`) after enforcing `x0 - x1 ≤ -2`,
    i.e. `x1 ≥ 2` -/
def exNet2 : Dl IR := (Dl.propagateEdge rdlOps Sat.init exNet 1 0 w10).2

/-- … and then `x1 - x0 ≤ 7`: `x1 ∈ [2, 7]`, `x2 < 17/2` -/
def exNet3 : Dl IR := (Dl.propagateEdge rdlOps Sat.init exNet2 0 1 w01).2

/-- `-3·x1 + 3·x2` and the constant `6` -/
def exL : Lin := ⟨[(1, ⟨-3, 1⟩), (2, ⟨3, 1⟩)], R.zero⟩
def exR : Lin := ⟨[], R.ofInt 6⟩
/-- `x1` and the constant `2` -/
def exX1 : Lin := ⟨[(1, R.one)], R.zero⟩
def exTwo : Lin := ⟨[], R.ofInt 2⟩
/-- `2·x1` and `2·x2 + 3` -/
def exA : Lin := ⟨[(1, ⟨2, 1⟩)], R.zero⟩
def exB : Lin := ⟨[(2, ⟨2, 1⟩)], R.ofInt 3⟩

namespace DlRelR

theorem exL_wf : exL.WF := wf_two (by decide) ⟨by decide, by decide⟩ ⟨by decide, by decide⟩ R.finWF_zero
theorem exR_wf : exR.WF := wf_nil (R.finWF_ofInt 6)
theorem exX1_wf : exX1.WF := wf_one 1 ⟨by decide, by decide⟩ R.finWF_zero
theorem exTwo_wf : exTwo.WF := wf_nil (R.finWF_ofInt 2)
theorem exA_wf : exA.WF := wf_one 1 ⟨by decide, by decide⟩ R.finWF_zero
theorem exB_wf : exB.WF := wf_one 2 ⟨by decide, by decide⟩ (R.finWF_ofInt 3)

theorem fin_w12 : IR.Fin w12 := ⟨⟨by decide, by decide⟩, ⟨by decide, by decide⟩⟩
theorem fin_w10 : IR.Fin w10 := ⟨⟨by decide, by decide⟩, ⟨by decide, by decide⟩⟩
theorem fin_w01 : IR.Fin w01 := ⟨⟨by decide, by decide⟩, ⟨by decide, by decide⟩⟩

theorem rdist_none {t : Dl IR} {i j : Nat} (h : (Dl.d rdlOps t i j).rat.den = 0) : t.rdist? i j = none := by
  unfold Dl.rdist?; dsimp only; rw [if_pos h]

theorem rdist_some {t : Dl IR} {i j : Nat} (h : (Dl.d rdlOps t i j).rat.den ≠ 0) :
    t.rdist? i j = some (IR.val (Dl.d rdlOps t i j)) := by
  unfold Dl.rdist?; dsimp only; rw [if_neg h]

theorem r12 : w12.rat.toRat = 3 / 2 := by
  rw [R.toRat_eq (by decide)]; norm_num [w12]
theorem r10 : w10.rat.toRat = -2 := by
  rw [R.toRat_eq (by decide)]; norm_num [w10]
theorem r01 : w01.rat.toRat = 7 := by
  rw [R.toRat_eq (by decide)]; norm_num [w01]
theorem i12 : w12.inf.toRat = -1 := by
  rw [R.toRat_eq (by decide)]; norm_num [w12]
theorem i10 : w10.inf.toRat = 0 := by
  rw [R.toRat_eq (by decide)]; norm_num [w10]
theorem i01 : w01.inf.toRat = 0 := by
  rw [R.toRat_eq (by decide)]; norm_num [w01]

theorem exNet_exact : exNet.ExactR [(1, 2, w12)] := by
  have h0 := C10R_init_exact
  have h1 := (C10R_newVar_exact _ _ h0).1
  have h2 := (C10R_newVar_exact _ _ h1).1
  have hn21 : (Dl.newVar rdlOps ((Dl.newVar rdlOps (Dl.init rdlOps 16)).2)).2.rdist? 2 1 = none :=
    rdist_none (by decide)
  have hn12 : (Dl.newVar rdlOps ((Dl.newVar rdlOps (Dl.init rdlOps 16)).2)).2.rdist? 1 2 = none :=
    rdist_none (by decide)
  exact (C10R_update_closed_form [] Sat.init _ h2 1 2 w12 (by decide) (by decide) (by decide) fin_w12
    (by intro x hx; rw [hn21] at hx; cases hx) (by intro x hx; rw [hn12] at hx; cases hx)).1

theorem exNet2_exact : exNet2.ExactR [(1, 0, w10), (1, 2, w12)] := by
  have hn01 : exNet.rdist? 0 1 = none := rdist_none (by decide)
  have hn10 : exNet.rdist? 1 0 = none := rdist_none (by decide)
  exact (C10R_update_closed_form _ Sat.init _ exNet_exact 1 0 w10 (by decide) (by decide) (by decide) fin_w10
    (by intro x hx; rw [hn01] at hx; cases hx) (by intro x hx; rw [hn10] at hx; cases hx)).1

theorem exNet2_d10 : Dl.d rdlOps exNet2 1 0 = w10 := by decide

theorem exNet3_exact : exNet3.ExactR [(0, 1, w01), (1, 0, w10), (1, 2, w12)] := by
  have hn01 : exNet2.rdist? 0 1 = none := rdist_none (by decide)
  have hs10 : exNet2.rdist? 1 0 = some (IR.val w10) := by
    rw [rdist_some (by decide), exNet2_d10]
  refine (C10R_update_closed_form _ Sat.init _ exNet2_exact 0 1 w01 (by decide) (by decide) (by decide) fin_w01
    ?_ (by intro x hx; rw [hn01] at hx; cases hx)).1
  intro x hx
  rw [hs10] at hx
  injection hx with hx
  rw [← hx]
  show (toLex ((0 : ℚ), (0 : ℚ)) : QV) ≤ toLex (w10.rat.toRat + w01.rat.toRat, w10.inf.toRat + w01.inf.toRat)
  rw [QV.le_iff, r10, r01]
  left
  norm_num

/-- the rational valuation `x0 = 0, x1 = 3, x2 = 4` -/
def exSigma : Nat → ℚ := fun v => if v = 1 then 3 else if v = 2 then 4 else 0

theorem exSigma0 : exSigma 0 = 0 := by decide
theorem exSigma1 : exSigma 1 = 3 := by decide
theorem exSigma2 : exSigma 2 = 4 := by decide

theorem exSigma_holds : ∀ e ∈ [(0, 1, w01), (1, 0, w10), (1, 2, w12)], QEdge.holds (embQ exSigma) e := by
  intro e he
  simp only [List.mem_cons, List.not_mem_nil, or_false] at he
  rcases he with rfl | rfl | rfl
  · show edgeHoldsR exSigma 0 1 w01
    rw [edgeHoldsR_iff, r01, i01, exSigma0, exSigma1]; norm_num
  · show edgeHoldsR exSigma 1 0 w10
    rw [edgeHoldsR_iff, r10, i10, exSigma0, exSigma1]; norm_num
  · show edgeHoldsR exSigma 1 2 w12
    rw [edgeHoldsR_iff, r12, i12, exSigma2, exSigma1]; norm_num

/-! ### the zero-coefficient counterexamples -/

theorem pinf_toRat : R.pinf.toRat = 0 := by
  rw [R.toRat_eq (by decide)]; norm_num [R.pinf]

theorem zero_coefficient_counterexample :
    relOut rdlOps .lt ⟨[(1, R.zero)], R.zero⟩ ⟨[], R.ofInt 5⟩ = .one 0 1 ⟨R.pinf, R.ofInt (-1)⟩ ∧
    (⟨[(1, R.zero)], R.zero⟩ : Lin).WF ∧ (⟨[], R.ofInt 5⟩ : Lin).WF ∧
    ¬ IR.Fin ⟨R.pinf, R.ofInt (-1)⟩ ∧
    (∀ σ : Nat → ℚ, relHolds .lt (Lin.eval ⟨[(1, R.zero)], R.zero⟩ σ) (Lin.eval ⟨[], R.ofInt 5⟩ σ)) ∧
    (∀ σ : Nat → ℚ, σ 0 = 0 → σ 1 = 1 → ¬ edgeHoldsR σ 0 1 ⟨R.pinf, R.ofInt (-1)⟩) ∧
    (match relOut idlOps .lt ⟨[(1, R.zero)], R.zero⟩ ⟨[], R.ofInt 5⟩ with | .invalid => True | _ => False) ∧
    (newRel rdlOps (fun s _ => (Lit.trueLit, s)) Sat.init exNet .lt ⟨[(1, R.zero)], R.zero⟩ ⟨[], R.ofInt 5⟩).map
        (fun p => (p.1, p.2.2.varDists.map (fun c => (c.src, c.dst, c.dist)))) =
      some (⟨1, true⟩, [(0, 1, ⟨R.pinf, R.ofInt (-1)⟩)]) := by
  refine ⟨rfl, wf_one 1 R.finWF_zero R.finWF_zero, wf_nil (R.finWF_ofInt 5), fun h => h.1.2 rfl, ?_, ?_, ?_, by decide⟩
  · intro σ
    show ([R.zero.toRat * σ 1]).sum + R.zero.toRat < ([] : List ℚ).sum + (R.ofInt 5).toRat
    rw [R.toRat_zero, R.toRat_ofInt]
    norm_num
  · intro σ h0 h1
    rw [edgeHoldsR_iff, h0, h1]
    show ¬ ((1 : ℚ) - 0 < R.pinf.toRat ∨ ((1 : ℚ) - 0 = R.pinf.toRat ∧ 0 ≤ (R.ofInt (-1)).toRat))
    rw [pinf_toRat, R.toRat_ofInt]
    norm_num
  · rw [show relOut idlOps .lt ⟨[(1, R.zero)], R.zero⟩ ⟨[], R.ofInt 5⟩ = .invalid from rfl]
    trivial

theorem bounds_zero_coefficient_counterexample :
    boundsLin rdlOps exNet ⟨[(1, R.zero)], R.ofInt 5⟩ = some (⟨R.pinf, R.zero⟩, ⟨R.pinf, R.zero⟩) ∧
    (∀ v : QV, ¬ IR.lbHolds ⟨R.pinf, R.zero⟩ v) ∧
    boundsLin rdlOps exNet3 ⟨[(1, R.zero)], R.ofInt 5⟩ = some (⟨R.ofInt 5, R.zero⟩, ⟨R.ofInt 5, R.zero⟩) := by
  refine ⟨by decide, ?_, by decide⟩
  rintro v (h | ⟨h, -⟩)
  · exact absurd h (by decide)
  · exact h rfl

end DlRelR
end Oratio
