/-
C07N, target 4 (search operations): `new_var`, `propagate`, `assume`, `pop` keep the network invariant;
networks whose LRA tableau has no rows need no side condition.
-/
import OratioProofs.Lemmas.NetInvB
import OratioProofs.Lemmas.NetSatOps

set_option linter.unusedSimpArgs false
set_option linter.unusedVariables false

namespace Oratio
namespace Net
open Sat

/-! ### new_var of the SAT core -/

theorem ThReg.mono {N N' : Nat} {l : Lra} {i : Dl Int} {r : Dl IR} (h : ThReg N l i r) (hN : N ≤ N') : ThReg N' l i r :=
  ⟨fun e he => Nat.lt_of_lt_of_le (h.lra e he) hN, fun c hc => Nat.lt_of_lt_of_le (h.idl c hc) hN,
    fun c hc => Nat.lt_of_lt_of_le (h.rdl c hc) hN, h.good, fun x b hb => Nat.lt_of_lt_of_le (h.aw x b hb) hN,
    fun e he => Nat.lt_of_lt_of_le (h.sa e he) hN⟩

theorem NetInv.satNewVar {n : Net} {orig L : Cnf} {fr : List Frame} (h : NetInv n orig L fr) :
    NetInv { n with sat := n.sat.newVar.2 } orig L fr :=
  ⟨h.sat.newVar, h.lemmas, h.th.assign _ (newVar_keep n.sat).le, FramesLv.keep (newVar_keep n.sat) fr h.flv, h.flen,
    ThReg.mono h.reg (by show n.sat.vals.length ≤ (n.sat.vals ++ [none]).length; simp)⟩

/-! ### pop -/

theorem NetInv.pop {n : Net} {orig L : Cnf} {fr : List Frame} (h : NetInv n orig L fr) (hq : n.sat.queue = [])
    (hne : n.sat.trailLim ≠ []) : ∃ fr', NetInv n.pop orig L fr' := by
  cases fr with
  | nil =>
    have := h.flen
    simp only [List.length_nil, decisionLevel] at this
    exact absurd (List.length_eq_zero_iff.1 this.symm) hne
  | cons f fs =>
    have hl : fs.length + 1 = n.sat.decisionLevel := h.flen
    obtain ⟨p1, p2⟩ := h.flv.pop h.sat.wf hl
    refine ⟨fs, h.sat.pop hq, fun c hc => TEntails.congr (fun α hm => (TModel.pop n α).1 hm) (h.lemmas c hc),
      h.th.pop p1, p2, ?_, ?_⟩
    · show fs.length = n.sat.pop.decisionLevel
      rw [Sat.pop_decisionLevel]; omega
    · show ThReg n.sat.pop.vals.length n.lra.pop n.idl.pop n.rdl.pop
      rw [(pop_frame n.sat).2.2.2.2.2.2.2]
      exact h.reg.pop

/-! ### assume -/

/-- the network when `assume(p)` calls `propagate`: level opened, theories pushed, `p` enqueued -/
def assumeStart (n : Net) (p : Lit) : Net :=
  { n with sat := (n.sat.pushLevel p).enq p none, lra := n.lra.push, idl := n.idl.push, rdl := n.rdl.push }

theorem assume_eq {n : Net} {p : Lit} (hv : n.sat.value p = none) (fuel : Nat) :
    n.assume p fuel = propagate (assumeStart n p) fuel := by
  have hv' : (n.sat.pushLevel p).value p = none := hv
  have e := enqueue_none (s := n.sat.pushLevel p) none hv'
  unfold Net.assume
  show (match (n.sat.pushLevel p).enqueue p none with
    | (false, s) => some (false, { assumeStart n p with sat := s })
    | (true, s) => propagate { assumeStart n p with sat := s } fuel) = _
  rw [e]
  rfl

theorem tmodel_push (n : Net) (s : Sat) (α : Asg) :
    TModel { n with sat := s, lra := n.lra.push, idl := n.idl.push, rdl := n.rdl.push } α ↔ TModel n α :=
  TModel.congr (n := n) (n' := { n with sat := s, lra := n.lra.push, idl := n.idl.push, rdl := n.rdl.push })
    (LraSame.of_eq rfl rfl rfl) rfl rfl α

theorem NetInv.atAssume {n : Net} {orig L : Cnf} {fr : List Frame} (h : NetInv n orig L fr) (hq : n.sat.queue = [])
    {p : Lit} (hv : n.sat.value p = none) (hp : p.var < n.sat.vals.length) :
    NetInv (assumeStart n p) orig L (⟨n.sat, n.lra, n.idl, n.rdl⟩ :: fr) := by
  obtain ⟨s1, k1⟩ := h.sat.pushEnq hq hv hp
  refine ⟨s1, fun c hc => TEntails.congr (fun α hm => (tmodel_push n _ α).1 hm) (h.lemmas c hc),
    h.th.push _ k1.le, ⟨fun v b hb => ?_, FramesLv.keep k1 fr h.flv⟩, ?_, ?_⟩
  · obtain ⟨a1, a2⟩ := k1 v b hb
    refine ⟨a1, ?_⟩
    show ((n.sat.pushLevel p).enq p none).level.getD v 0 ≤ fr.length
    rw [a2, h.flen]
    rcases h.sat.wf.a.valTrail v b hb with rfl | ht
    · rw [h.sat.wf.lvl0]; omega
    · exact h.sat.wf.a.lvl_le ht
  · show fr.length + 1 = (n.sat.trail.length :: n.sat.trailLim).length
    rw [List.length_cons, h.flen]; rfl
  · show ThReg ((n.sat.pushLevel p).enq p none).vals.length n.lra.push n.idl.push n.rdl.push
    have : ((n.sat.pushLevel p).enq p none).vals.length = n.sat.vals.length := by simp [enq, Sat.pushLevel]
    rw [this]
    exact ⟨h.reg.lra, h.reg.idl, h.reg.rdl, Lra.step_good (n.sat, n.lra) .push h.reg.good trivial, h.reg.aw, h.reg.sa⟩

theorem NetInv.assume {n : Net} {orig L : Cnf} {fr : List Frame} (h : NetInv n orig L fr) (hq : n.sat.queue = [])
    (hd : n.sat.dead = false) {p : Lit} (hv : n.sat.value p = none) (hp : p.var < n.sat.vals.length) (fuel : Nat)
    (hg : ConflictsCurrent (assumeStart n p) fuel) (b : Bool) (n' : Net) (he : n.assume p fuel = some (b, n')) :
    PropOut n n' orig b := by
  rw [assume_eq hv] at he
  exact (propagate_inv fuel _ _ _ (h.atAssume hq hv hp) hd hg b n' he).trans (fun α => tmodel_push n _ α)

/-! ### no rows, no side condition -/

theorem check_noRows {t : Lra} (ht : t.tableau = []) (fuel : Nat) : t.check (fuel + 1) = some (none, t) := by
  unfold Lra.check
  rw [ht]
  rfl

theorem popTo_go_tableau (lvl : Nat) : ∀ (k : Nat) (n : Net), (popTo.go lvl k n).lra.tableau = n.lra.tableau
  | 0, _ => rfl
  | k + 1, n => by
    unfold popTo.go
    split
    · rw [popTo_go_tableau lvl k n.pop]
      exact (Lra.pop_same n.lra).1
    · rfl

theorem learnFrom_tableau {n n' : Net} {c : Clause} (h : learnFrom n c = some n') : n'.lra.tableau = n.lra.tableau := by
  unfold learnFrom at h
  split at h
  · cases h
  · simp only [Option.some.injEq] at h
    rw [← h]
    exact popTo_go_tableau _ _ _

theorem theoryPropagate_tableau (n : Net) (p : Lit) : (theoryPropagate n p).2.lra.tableau = n.lra.tableau := by
  unfold theoryPropagate
  split
  · rfl
  · exact propagateLit_tableau _ _ _
  · split <;> rfl
  · split <;> rfl

/-- a network whose LRA tableau has no rows: `check` never fails, so the side condition holds, and
    the tableau stays empty -/
theorem noRows_propagate : ∀ (fuel : Nat) (n : Net), n.lra.tableau = [] →
    ConflictsCurrent n fuel ∧ ∀ b n', propagate n fuel = some (b, n') → n'.lra.tableau = []
  | 0, n, _ => ⟨trivial, fun b n' he => by simp [propagate] at he⟩
  | fuel + 1, n, ht => by
    unfold ConflictsCurrent propagate
    cases hq : n.sat.queue with
    | nil =>
      simp only
      cases fuel with
      | zero =>
        have : n.lra.check 0 = none := rfl
        rw [this]
        exact ⟨trivial, fun b n' he => by simp at he⟩
      | succ k =>
        rw [check_noRows ht k]
        exact ⟨trivial, fun b n' he => by
          simp only [Option.some.injEq, Prod.mk.injEq] at he
          rw [← he.2]; exact ht⟩
    | cons p q =>
      simp only
      rcases hvw : Sat.visitWatchers { n.sat with queue := q, watches := n.sat.watches.set p.idx [] } p
        (n.sat.watches.getD p.idx []) with ⟨s1, oid⟩
      cases oid with
      | some id =>
        simp only
        split
        · exact ⟨trivial, fun b n' he => by
            simp only [Option.some.injEq, Prod.mk.injEq] at he
            rw [← he.2]; exact ht⟩
        · cases hlf : learnFrom { n with sat := s1 } (s1.clauseOf id) with
          | none => exact ⟨trivial, fun b n' he => by simp at he⟩
          | some n1 =>
            simp only
            exact noRows_propagate fuel n1 (by rw [learnFrom_tableau hlf]; exact ht)
      | none =>
        simp only
        have htp := theoryPropagate_tableau { n with sat := s1 } p
        rcases htpe : theoryPropagate { n with sat := s1 } p with ⟨oc, n2⟩
        rw [htpe] at htp
        have ht2 : n2.lra.tableau = [] := by rw [htp]; exact ht
        cases oc with
        | none => simp only; exact noRows_propagate fuel n2 ht2
        | some cnfl =>
          simp only
          refine ⟨?_, fun b n' he => ?_⟩
          · split
            · trivial
            · cases hlf : learnFrom { n2 with sat := { n2.sat with queue := [] } } cnfl with
              | none => trivial
              | some n3 => exact (noRows_propagate fuel n3 (by rw [learnFrom_tableau hlf]; exact ht2)).1
          · split at he
            · simp only [Option.some.injEq, Prod.mk.injEq] at he
              rw [← he.2]; exact ht2
            · cases hlf : learnFrom { n2 with sat := { n2.sat with queue := [] } } cnfl with
              | none => rw [hlf] at he; cases he
              | some n3 =>
                rw [hlf] at he
                exact (noRows_propagate fuel n3 (by rw [learnFrom_tableau hlf]; exact ht2)).2 b n' he

end Net
end Oratio
