/-
Lemmas for property C13: root-level unit propagation (`Enc.propagate`) keeps the invariant,
keeps the set of models when it succeeds, and only fails on states without models.
Core Lean only.
-/
import OratioProofs.Lemmas.Enc
namespace Oratio
namespace EncL
open Enc

/-! ## `clauseState` -/

/-- a literal of a clause none of whose literals is root-true is undecided or false in every
    model -/
theorem lit_false_of_decided {s : Enc} {c : Clause}
    (hany : ¬ c.any (fun l => s.value l = some true) = true)
    {α : Asg} (hm : Models α s) {x : Lit} (hx : x ∈ c) (hd : s.value x ≠ none) :
    α.lit x = false := by
  cases hv : s.value x with
  | none => exact absurd hv hd
  | some b =>
    cases b with
    | false => exact value_sound hm hv
    | true =>
      exfalso
      apply hany
      rw [List.any_eq_true]
      exact ⟨x, hx, by simp [hv]⟩

theorem clauseState_conflict {s : Enc} {c : Clause} (h : clauseState s c = .conflict)
    {α : Asg} (hm : Models α s) : α.clause c = false := by
  unfold clauseState at h
  split at h
  · cases h
  · next hany =>
    split at h
    · next hf =>
      rw [clause_eq_false]
      intro l hl
      refine lit_false_of_decided hany hm hl ?_
      intro hn
      have : l ∈ c.filter (fun l => s.value l = none) := by
        rw [List.mem_filter]; exact ⟨hl, by simp [hn]⟩
      rw [hf] at this
      cases this
    · cases h
    · split at h <;> cases h

theorem unit_aux {s : Enc} {c : Clause} {l : Lit} {rest : List Lit}
    (hany : ¬ c.any (fun l => s.value l = some true) = true)
    (hf : c.filter (fun l => s.value l = none) = l :: rest) (hr : ∀ x ∈ rest, x = l) :
    l ∈ c ∧ s.value l = none ∧ ∀ α, Models α s → α.clause c = true → α.lit l = true := by
  have hl : l ∈ c.filter (fun l => s.value l = none) := by rw [hf]; simp
  rw [List.mem_filter] at hl
  refine ⟨hl.1, by simpa using hl.2, fun α hm hc => ?_⟩
  rw [clause_eq_true] at hc
  obtain ⟨x, hx, hxt⟩ := hc
  by_cases hn : s.value x = none
  · have hxf : x ∈ c.filter (fun l => s.value l = none) := by
      rw [List.mem_filter]; exact ⟨hx, by simp [hn]⟩
    rw [hf, List.mem_cons] at hxf
    rcases hxf with rfl | hxr
    · exact hxt
    · rw [← hr x hxr]; exact hxt
  · have := lit_false_of_decided hany hm hx hn
    rw [this] at hxt
    cases hxt

theorem clauseState_unit {s : Enc} {c : Clause} {l : Lit} (h : clauseState s c = .unit l) :
    l ∈ c ∧ s.value l = none ∧ ∀ α, Models α s → α.clause c = true → α.lit l = true := by
  unfold clauseState at h
  split at h
  · cases h
  · next hany =>
    split at h
    · cases h
    · next l' hf =>
      cases h
      exact unit_aux hany hf (by simp)
    · next l' rest hf =>
      split at h
      · next hall =>
        cases h
        refine unit_aux hany hf ?_
        intro x hx
        rw [List.all_eq_true] at hall
        simpa using hall x hx
      · cases h

/-! ## `sweep` -/

theorem sweep_spec (cs : List Clause) : ∀ (s : Enc), WF s → (∀ c ∈ cs, c ∈ s.clauses) →
    (sweep s cs = none → ∀ α, ¬ Models α s) ∧
    (∀ s' ch, sweep s cs = some (s', ch) →
      s'.clauses = s.clauses ∧ s'.exprs = s.exprs ∧ WF s' ∧ s'.nvars = s.nvars ∧
      ∀ α, Models α s' ↔ Models α s) := by
  induction cs with
  | nil =>
    intro s hw _
    refine ⟨fun h => by simp [sweep] at h, fun s' ch h => ?_⟩
    simp only [sweep, Option.some.injEq, Prod.mk.injEq] at h
    obtain ⟨rfl, _⟩ := h
    exact ⟨rfl, rfl, hw, rfl, fun _ => Iff.rfl⟩
  | cons c cs ih =>
    intro s hw hcs
    have hc : c ∈ s.clauses := hcs c (by simp)
    have hcs' : ∀ c ∈ cs, c ∈ s.clauses := fun d hd => hcs d (by simp [hd])
    have hctrue : ∀ α, Models α s → α.clause c = true := fun α hm =>
      ((models_iff α s).1 hm).1 c hc
    cases hst : clauseState s c with
    | sat => simpa only [sweep, hst] using ih s hw hcs'
    | unresolved => simpa only [sweep, hst] using ih s hw hcs'
    | conflict =>
      refine ⟨fun _ α hm => ?_, fun s' ch h => by simp [sweep, hst] at h⟩
      have h1 := hctrue α hm
      rw [clauseState_conflict hst hm] at h1
      cases h1
    | unit l =>
      obtain ⟨hlc, hln, hlt⟩ := clauseState_unit hst
      have hlr : l.var < s.nvars := hw.2.1 c hc l hlc
      have hms : ∀ α, Models α { s with vals := s.vals.set l.var (some l.sign) } ↔ Models α s := by
        intro α
        rw [models_set hlr hln]
        exact ⟨fun h => h.1, fun h => ⟨h, hlt α h (hctrue α h)⟩⟩
      have hnv : ({ s with vals := s.vals.set l.var (some l.sign) } : Enc).nvars = s.nvars := by
        simp [Enc.nvars]
      obtain ⟨ih1, ih2⟩ := ih { s with vals := s.vals.set l.var (some l.sign) } (wf_set hw hln) hcs'
      cases hsw : sweep { s with vals := s.vals.set l.var (some l.sign) } cs with
      | none =>
        refine ⟨fun _ α hm => ih1 hsw α ((hms α).2 hm), fun s' ch h => ?_⟩
        simp [sweep, hst, hsw] at h
      | some r =>
        obtain ⟨s1, ch1⟩ := r
        refine ⟨fun h => by simp [sweep, hst, hsw] at h, fun s' ch h => ?_⟩
        simp only [sweep, hst, hsw, Option.some.injEq, Prod.mk.injEq] at h
        obtain ⟨rfl, _⟩ := h
        obtain ⟨e1, e2, e3, e4, e5⟩ := ih2 s1 ch1 hsw
        exact ⟨e1, e2, e3, e4.trans hnv, fun α => (e5 α).trans (hms α)⟩

/-! ## `propagate` -/

theorem propagateFuel_spec (n : Nat) : ∀ (s : Enc), Inv s →
    Inv (propagateFuel n s).2 ∧
    ((propagateFuel n s).1 = true → ∀ α, Sat α (propagateFuel n s).2 ↔ Sat α s) ∧
    ((propagateFuel n s).1 = false → ∀ α, ¬ Sat α s) := by
  induction n with
  | zero =>
    intro s h
    exact ⟨h, fun _ _ => Iff.rfl, fun hf => by simp [propagateFuel] at hf⟩
  | succ n ih =>
    intro s h
    obtain ⟨sw1, sw2⟩ := sweep_spec s.clauses s h.1 (fun _ hc => hc)
    cases hsw : sweep s s.clauses with
    | none =>
      have e : propagateFuel (n + 1) s = (false, s) := by simp only [propagateFuel, hsw]
      rw [e]
      exact ⟨h, fun hf => by simp at hf, fun _ α hα => sw1 hsw α hα.2⟩
    | some r =>
      obtain ⟨s', ch⟩ := r
      obtain ⟨_, e2, e3, _, e5⟩ := sw2 s' ch hsw
      have hsat : ∀ α, Sat α s' ↔ Sat α s := fun α => and_congr Iff.rfl (e5 α)
      have hinv : Inv s' := inv_of_refines h e3 e2 (fun α hα => (hsat α).1 hα)
      cases ch with
      | true =>
        have e : propagateFuel (n + 1) s = propagateFuel n s' := by
          simp only [propagateFuel, hsw, if_true]
        rw [e]
        obtain ⟨i1, i2, i3⟩ := ih s' hinv
        exact ⟨i1, fun ht α => (i2 ht α).trans (hsat α), fun hf α hα => i3 hf α ((hsat α).2 hα)⟩
      | false =>
        have e : propagateFuel (n + 1) s = (true, s') := by
          simp only [propagateFuel, hsw, Bool.false_eq_true, if_false]
        rw [e]
        exact ⟨hinv, fun _ α => hsat α, fun hf => by simp at hf⟩

theorem propagate_spec {s : Enc} (h : Inv s) :
    Inv (s.propagate).2 ∧
    ((s.propagate).1 = true → ∀ α, Sat α (s.propagate).2 ↔ Sat α s) ∧
    ((s.propagate).1 = false → ∀ α, ¬ Sat α s) :=
  propagateFuel_spec (s.nvars + 1) s h

end EncL
end Oratio
