/-
C07N, target 3: the invariant `NetInv` of the combined network (SAT core, theories, registries, ghost
frames), the record shapes of the theory calls, and its preservation by conflict analysis (`learnFrom`).
-/
import OratioProofs.Lemmas.NetSatRecs
import OratioProofs.Lemmas.NetSoundLearn
import OratioProofs.Lemmas.NetRecDl

set_option linter.unusedSimpArgs false
set_option linter.unusedVariables false

namespace Oratio

namespace Lra

/-- the assertion watches are not touched by `propagateLit` -/
theorem propagateLit_aWatches (s : Sat) (t : Lra) (p : Lit) : (propagateLit s t p).th.aWatches = t.aWatches := by
  have hl : ∀ xi val q, (assertLower s t xi val q).th.aWatches = t.aWatches := fun xi val q => by
    rcases assertLower_th s t xi val q with e | e <;> rw [e]
    exact (boundSet_al t xi val q).aWatches
  have hu : ∀ xi val q, (assertUpper s t xi val q).th.aWatches = t.aWatches := fun xi val q => by
    rcases assertUpper_th s t xi val q with e | e <;> rw [e]
    exact (boundSet_au t xi val q).aWatches
  unfold propagateLit
  cases hab : t.asrtOf p.var with
  | none => rfl
  | some a =>
    simp only
    rcases hsv : s.value a.b with _ | _ | _
    · rfl
    · simp only
      split
      · exact hl _ _ _
      · exact hu _ _ _
    · simp only
      split
      · exact hu _ _ _
      · exact hl _ _ _

theorem saveBound_sAsrts (t : Lra) (i : Nat) : (t.saveBound i).sAsrts = t.sAsrts := by
  unfold saveBound
  split
  · rfl
  · split <;> rfl

theorem alState_sAsrts (t : Lra) (xi : Nat) (val : IR) (p : Lit) : (alState t xi val p).sAsrts = t.sAsrts := by
  unfold alState
  simp only
  split
  · rw [update_eq]; exact saveBound_sAsrts t _
  · exact saveBound_sAsrts t _

theorem auState_sAsrts (t : Lra) (xi : Nat) (val : IR) (p : Lit) : (auState t xi val p).sAsrts = t.sAsrts := by
  unfold auState
  simp only
  split
  · rw [update_eq]; exact saveBound_sAsrts t _
  · exact saveBound_sAsrts t _

/-- the cache of assertion literals is not touched by `propagateLit` -/
theorem propagateLit_sAsrts (s : Sat) (t : Lra) (p : Lit) : (propagateLit s t p).th.sAsrts = t.sAsrts := by
  have hl : ∀ xi val q, (assertLower s t xi val q).th.sAsrts = t.sAsrts := fun xi val q => by
    rcases assertLower_th s t xi val q with e | e <;> rw [e]
    exact alState_sAsrts t xi val q
  have hu : ∀ xi val q, (assertUpper s t xi val q).th.sAsrts = t.sAsrts := fun xi val q => by
    rcases assertUpper_th s t xi val q with e | e <;> rw [e]
    exact auState_sAsrts t xi val q
  unfold propagateLit
  cases hab : t.asrtOf p.var with
  | none => rfl
  | some a =>
    simp only
    rcases hsv : s.value a.b with _ | _ | _
    · rfl
    · simp only
      split
      · exact hl _ _ _
      · exact hu _ _ _
    · simp only
      split
      · exact hu _ _ _
      · exact hl _ _ _

theorem pop_sAsrts (t : Lra) : t.pop.sAsrts = t.sAsrts := by
  unfold pop
  split
  · rfl
  · next l ls _ =>
    exact C09_foldl_inv (fun (u : Lra) => u.sAsrts = t.sAsrts) (fun (u : Lra) (e : Nat × LBound) => u.setBound e.1 e.2)
      (fun u e hu => hu) l _ rfl

theorem check_aWatches {t t' : Lra} (ht : TabWF t) {fuel : Nat} {c : Option (List Lit)}
    (h : t.check fuel = some (c, t')) : t'.aWatches = t.aWatches :=
  check_induct (fun u => u.aWatches = t.aWatches)
    (fun u xi xj l v _ hP _ _ _ => by rw [pivotAndUpdate_aWatches]; exact hP) fuel t t' c ht rfl h

end Lra

namespace Net
open Sat

/-! ### ghost frames: every frame's SAT values are current values of a level below the frame's -/

def FramesLv : Sat → List Frame → Prop
  | _, [] => True
  | s, f :: fs =>
    (∀ v b, f.sat.vals.getD v none = some b → s.vals.getD v none = some b ∧ s.level.getD v 0 ≤ fs.length) ∧
    FramesLv s fs

theorem FramesLv.keep {s s' : Sat} (hk : AssignedKeep s s') : ∀ fr, FramesLv s fr → FramesLv s' fr
  | [], _ => trivial
  | f :: fs, h => ⟨fun v b hv => by
      obtain ⟨h1, h2⟩ := h.1 v b hv
      obtain ⟨k1, k2⟩ := hk v b h1
      exact ⟨k1, by rw [k2]; exact h2⟩, FramesLv.keep hk fs h.2⟩

theorem FramesLv.popAux {s : Sat} (hw : s.WfS) (hne : s.trailLim ≠ []) : ∀ fr, FramesLv s fr →
    fr.length < s.decisionLevel → FramesLv s.pop fr
  | [], _, _ => trivial
  | f :: fs, h, hl => by
    simp only [List.length_cons] at hl
    refine ⟨fun v b hv => ?_, FramesLv.popAux hw hne fs h.2 (by omega)⟩
    obtain ⟨h1, h2⟩ := h.1 v b hv
    obtain ⟨k1, k2⟩ := pop_keeps hw hne v b h1 (by omega)
    exact ⟨k1, by rw [k2]; exact h2⟩

theorem FramesLv.pop {s : Sat} (hw : s.WfS) {f : Frame} {fs : List Frame} (h : FramesLv s (f :: fs))
    (hl : fs.length + 1 = s.decisionLevel) : Dl.SatLe f.sat s.pop ∧ FramesLv s.pop fs := by
  have hne : s.trailLim ≠ [] := by intro e; simp [decisionLevel, e] at hl
  refine ⟨fun v b hv => ?_, FramesLv.popAux hw hne fs h.2 (by omega)⟩
  obtain ⟨h1, h2⟩ := h.1 v b hv
  exact (pop_keeps hw hne v b h1 (by omega)).1

theorem ThInv.popTo_goLv {orig : Cnf} (lvl : Nat) : ∀ (k : Nat) (n : Net) (fr : List Frame), ThInv n orig fr →
    n.sat.WfS → n.sat.queue = [] → FramesLv n.sat fr → fr.length = n.sat.decisionLevel →
    ∃ fr', ThInv (popTo.go lvl k n) orig fr' ∧ FramesLv (popTo.go lvl k n).sat fr' ∧
      fr'.length = (popTo.go lvl k n).sat.decisionLevel
  | 0, n, fr, h, _, _, hf, hl => ⟨fr, h, hf, hl⟩
  | k + 1, n, fr, h, hw, hq, hf, hl => by
    unfold popTo.go
    split
    · rename_i hgt
      cases fr with
      | nil => simp at hl; omega
      | cons f fs =>
        simp only [List.length_cons] at hl
        obtain ⟨p1, p2⟩ := hf.pop hw hl
        refine ThInv.popTo_goLv lvl k n.pop fs (h.pop p1) (hw.pop hq) ?_ p2 ?_
        · show n.sat.pop.queue = []
          rw [(pop_frame n.sat).2.2.2.1]; exact hq
        · show fs.length = n.sat.pop.decisionLevel
          rw [Sat.pop_decisionLevel]; omega
    · exact ⟨fr, h, hf, hl⟩

/-! ### the registries: theory atoms are SAT variables; the tableau invariant of C09R -/

/-- every assertion / distance constraint is controlled by an existing SAT variable (`N` = number of SAT
    variables), and the LRA theory satisfies the invariant `Lra.GoodState` of C09R (no zero
    coefficient in a row, ...) -/
structure ThReg (N : Nat) (l : Lra) (i : Dl Int) (r : Dl IR) : Prop where
  lra : ∀ e ∈ l.vAsrts, e.1 < N
  idl : ∀ c ∈ i.varDists, c.b < N
  rdl : ∀ c ∈ r.varDists, c.b < N
  good : Lra.GoodState l
  /-- the assertion watch lists only hold existing SAT variables -/
  aw : ∀ x, ∀ b ∈ l.aWatches.getD x [], b < N
  /-- the cached assertion literals name existing SAT variables -/
  sa : ∀ e ∈ l.sAsrts, e.2.var < N

def NetReg (n : Net) : Prop := ThReg n.sat.vals.length n.lra n.idl n.rdl

theorem ThReg.pop {N : Nat} {l : Lra} {i : Dl Int} {r : Dl IR} (h : ThReg N l i r) : ThReg N l.pop i.pop r.pop :=
  ⟨by rw [(Lra.pop_same l).2.2.2.1]; exact h.lra, by rw [dl_pop_varDists]; exact h.idl,
    by rw [dl_pop_varDists]; exact h.rdl, Lra.pop_good h.good,
    by rw [(Lra.pop_same l).2.2.2.2]; exact h.aw, by rw [Lra.pop_sAsrts]; exact h.sa⟩

theorem ThReg.popTo_go {N : Nat} (lvl : Nat) : ∀ (k : Nat) (n : Net), ThReg N n.lra n.idl n.rdl →
    ThReg N (popTo.go lvl k n).lra (popTo.go lvl k n).idl (popTo.go lvl k n).rdl
  | 0, _, h => h
  | k + 1, n, h => by
    unfold popTo.go
    split
    · exact ThReg.popTo_go lvl k n.pop h.pop
    · exact h

theorem generic_confl_mem {α : Type} (O : DOps α) {s : Sat} {t : Dl α} {pl : Lit} {c : List Lit}
    (h : Dl.propagateLit O s t pl = .inl c) : pl.neg ∈ c := by
  unfold Dl.propagateLit at h
  split at h
  · cases h
  · split at h
    · split at h
      · cases h; simp
      · split at h <;> cases h
    · split at h
      · cases h; simp
      · split at h <;> cases h
    · cases h

/-- **the theories record well-shaped clauses only**, and a theory conflict clause contains `¬p` -/
theorem theoryPropagate_recs {n : Net} {orig : Cnf} {fr : List Frame} (h : ThInv n orig fr) (hreg : NetReg n) (p : Lit)
    (hp : n.sat.value p = some true) :
    RecsTo n.sat (theoryPropagate n p).2.sat ∧ (∀ c, (theoryPropagate n p).1 = some c → p.neg ∈ c) ∧
    NetReg (theoryPropagate n p).2 := by
  have hb := h.base
  unfold theoryPropagate
  split
  · exact ⟨RecsTo.refl _, (fun c hc => by cases hc), hreg⟩
  · -- LRA
    have hg : Lra.AsrtReg n.sat n.lra := ⟨hb.lra.inv.tab, hreg.good.nz, hb.lra.key, hreg.lra⟩
    obtain ⟨r1, r2⟩ := Lra.propagateLit_RC hb.lra.reasons hg hb.lra.inv.blen hb.lra.vars hp
    have hr := Lra.propagateLit_registry n.sat n.lra p
    refine ⟨r1, r2, ⟨?_, ?_, ?_, ?_, ?_, (by
      show ∀ e ∈ (Lra.propagateLit n.sat n.lra p).th.sAsrts, e.2.var < (Lra.propagateLit n.sat n.lra p).sat.vals.length
      rw [Lra.propagateLit_sAsrts, r1.len]; exact hreg.sa)⟩⟩
    rotate_right
    · show ∀ x, ∀ b ∈ (Lra.propagateLit n.sat n.lra p).th.aWatches.getD x [], b < (Lra.propagateLit n.sat n.lra p).sat.vals.length
      rw [Lra.propagateLit_aWatches, r1.len]; exact hreg.aw
    · show ∀ e ∈ (Lra.propagateLit n.sat n.lra p).th.vAsrts, e.1 < (Lra.propagateLit n.sat n.lra p).sat.vals.length
      rw [hr.1, r1.len]; exact hreg.lra
    · show ∀ c ∈ n.idl.varDists, c.b < (Lra.propagateLit n.sat n.lra p).sat.vals.length
      rw [r1.len]; exact hreg.idl
    · show ∀ c ∈ n.rdl.varDists, c.b < (Lra.propagateLit n.sat n.lra p).sat.vals.length
      rw [r1.len]; exact hreg.rdl
    · exact Lra.step_good (n.sat, n.lra) (.propagateLit p) hreg.good trivial
  · -- IDL
    cases hc : n.idl.constrOf p.var with
    | none =>
      rw [propagateLit_none idlOps hc]
      exact ⟨RecsTo.refl _, (fun c hc => by cases hc), hreg⟩
    | some c =>
      obtain ⟨K, E, hE, hok⟩ := hb.idl.exact
      obtain ⟨hmem, hcb⟩ := Dl.constrOf_spec hc
      have hr := hok c hmem
      have hv : n.sat.value ⟨c.b, true⟩ = some p.sign := by rw [hcb]; exact Lra.value_of_var hp
      have hc' : n.idl.constrOf c.b = some c := by rw [hcb]; exact hc
      have hpe : (⟨c.b, p.sign⟩ : Lit) = p := by rw [hcb]
      cases hres : Dl.propagateLit idlOps n.sat n.idl p with
      | inl cl =>
        simp only
        exact ⟨RecsTo.refl _, (fun c' hc'' => by
          simp only [Option.some.injEq] at hc''; subst hc''; exact generic_confl_mem idlOps hres), hreg⟩
      | inr res =>
        obtain ⟨s', t'⟩ := res
        simp only
        have hres' : Dl.propagateLit idlOps n.sat n.idl ⟨c.b, p.sign⟩ = .inr (s', t') := by rw [hpe]; exact hres
        have hrecs := Dl.propagate_recs K E n.sat s' n.idl t' hE.toM hb.idl.path c hc' p.sign hv hr hres' hok hreg.idl
        have hvd := Dl.propagateLit_varDists n.sat s' n.idl t' _ hres'
        refine ⟨hrecs, (fun c hc => by cases hc), ⟨?_, ?_, ?_, hreg.good, (by
          show ∀ x, ∀ b ∈ n.lra.aWatches.getD x [], b < s'.vals.length
          rw [hrecs.len]; exact hreg.aw), (by
          show ∀ e ∈ n.lra.sAsrts, e.2.var < s'.vals.length
          rw [hrecs.len]; exact hreg.sa)⟩⟩
        · show ∀ e ∈ n.lra.vAsrts, e.1 < s'.vals.length
          rw [hrecs.len]; exact hreg.lra
        · show ∀ c ∈ t'.varDists, c.b < s'.vals.length
          rw [hvd, hrecs.len]; exact hreg.idl
        · show ∀ c ∈ n.rdl.varDists, c.b < s'.vals.length
          rw [hrecs.len]; exact hreg.rdl
  · -- RDL
    cases hc : n.rdl.constrOf p.var with
    | none =>
      rw [propagateLit_none rdlOps hc]
      exact ⟨RecsTo.refl _, (fun c hc => by cases hc), hreg⟩
    | some c =>
      obtain ⟨E, hE⟩ := hb.rdl.exact
      have hok := hb.rdl.ok
      obtain ⟨hmem, hcb⟩ := DlR.constrOfR_spec hc
      have hr := hok c hmem
      have hv : n.sat.value ⟨c.b, true⟩ = some p.sign := by rw [hcb]; exact Lra.value_of_var hp
      have hc' : n.rdl.constrOf c.b = some c := by rw [hcb]; exact hc
      have hpe : (⟨c.b, p.sign⟩ : Lit) = p := by rw [hcb]
      cases hres : Dl.propagateLit rdlOps n.sat n.rdl p with
      | inl cl =>
        simp only
        exact ⟨RecsTo.refl _, (fun c' hc'' => by
          simp only [Option.some.injEq] at hc''; subst hc''; exact generic_confl_mem rdlOps hres), hreg⟩
      | inr res =>
        obtain ⟨s', t'⟩ := res
        simp only
        have hres' : Dl.propagateLit rdlOps n.sat n.rdl ⟨c.b, p.sign⟩ = .inr (s', t') := by rw [hpe]; exact hres
        have hrecs := DlR.propagate_recsR E n.sat s' n.rdl t' hE.toM hb.rdl.path c hc' p.sign hv hr
          (fun _ => ⟨hb.rdl.epsC c hmem, hb.rdl.eps _ _⟩) hres' hok hreg.rdl
        have hvd := DlR.propagateLit_varDistsR n.sat s' n.rdl t' _ hres'
        refine ⟨hrecs, (fun c hc => by cases hc), ⟨?_, ?_, ?_, hreg.good, (by
          show ∀ x, ∀ b ∈ n.lra.aWatches.getD x [], b < s'.vals.length
          rw [hrecs.len]; exact hreg.aw), (by
          show ∀ e ∈ n.lra.sAsrts, e.2.var < s'.vals.length
          rw [hrecs.len]; exact hreg.sa)⟩⟩
        · show ∀ e ∈ n.lra.vAsrts, e.1 < s'.vals.length
          rw [hrecs.len]; exact hreg.lra
        · show ∀ c ∈ n.idl.varDists, c.b < s'.vals.length
          rw [hrecs.len]; exact hreg.idl
        · show ∀ c ∈ t'.varDists, c.b < s'.vals.length
          rw [hvd, hrecs.len]; exact hreg.rdl

/-! ### more added clauses -/

theorem cnf_of_sub {α : Asg} {F G : Cnf} (hs : ∀ d ∈ F, d ∈ G) (h : α.cnf G = true) : α.cnf F = true := by
  simp only [Asg.cnf, List.all_eq_true] at h ⊢
  exact fun d hd => h d (hs d hd)

theorem TEntails.mono_F {n : Net} {F G : Cnf} {c : Clause} (h : TEntails n F c) (hs : ∀ d ∈ F, d ∈ G) : TEntails n G c :=
  fun α h0 hG hm => h α h0 (cnf_of_sub hs hG) hm

theorem LraJ.mono {orig orig' : Cnf} {t : Lra} (h : LraJ orig t) (hs : ∀ d ∈ orig, d ∈ orig') : LraJ orig' t :=
  fun α σr σi h0 ho => h α σr σi h0 (cnf_of_sub hs ho)

theorem ThBase.mono_orig {orig orig' : Cnf} {s : Sat} {l : Lra} {i : Dl Int} {r : Dl IR} (h : ThBase orig s l i r)
    (hs : ∀ d ∈ orig, d ∈ orig') : ThBase orig' s l i r :=
  ⟨⟨h.lra.inv, h.lra.vals, h.lra.key, h.lra.vars, h.lra.just.mono hs, h.lra.reasons⟩, h.idl, h.rdl⟩

theorem ThChain.mono_orig {orig orig' : Cnf} (hs : ∀ d ∈ orig, d ∈ orig') :
    ∀ (fr : List Frame) (s : Sat) (l : Lra) (i : Dl Int) (r : Dl IR), ThChain orig s l i r fr → ThChain orig' s l i r fr
  | [], s, l, i, r, h => ThBase.mono_orig (orig := orig) h hs
  | f :: fs, s, l, i, r, h => by
    obtain ⟨h1, h2, h3, h4, h5, h6, h7⟩ := h
    exact ⟨h1.mono_orig hs, h2, h3, h4, h5, h6, ThChain.mono_orig hs fs _ _ _ _ h7⟩

theorem ThInv.mono_origN {n : Net} {B B' : Cnf} {fr : List Frame} (h : ThInv n B fr) (hs : ∀ d ∈ B, d ∈ B') :
    ThInv n B' fr := ThChain.mono_orig hs fr _ _ _ _ h

/-- the lemmas may be cut out of the premises -/
theorem TEntails.cut {n : Net} {orig L : Cnf} {c : Clause} (hl : ∀ d ∈ L, TEntails n orig d)
    (h : TEntails n (orig ++ L) c) : TEntails n orig c := by
  intro α h0 ho hm
  refine h α h0 ?_ hm
  rw [Asg.cnf_append, ho, Bool.true_and]
  simp only [Asg.cnf, List.all_eq_true]
  exact fun d hd => hl d hd α h0 ho hm

/-! ### the invariant of the network -/

/-- the invariant of the network.  The theory invariants - in particular `LraJ` - are RELATIVE TO THE
    LEMMA-CLOSED ghost set `orig ++ L`: every bound holds in every LRA-consistent model of the added
    clauses AND the recorded theory lemmas in which its reason is true.  (Relative to `orig` alone this is
    not an invariant once a slack variable is created at root level: the root-level reasons its TRUE-reason
    bounds are computed from may be consequences of lemmas of the other theories.)  Since every lemma is
    T-entailed by `orig` (`lemmas`), whatever is T-entailed by `orig ++ L` is T-entailed by `orig`
    (`TEntails.cut`). -/
structure NetInv (n : Net) (orig L : Cnf) (fr : List Frame) : Prop where
  sat : SInv (orig ++ L) orig n.sat
  lemmas : ∀ c ∈ L, TEntails n orig c
  th : ThInv n (orig ++ L) fr
  flv : FramesLv n.sat fr
  flen : fr.length = n.sat.decisionLevel
  reg : NetReg n

theorem NetInv.sound {n : Net} {orig L : Cnf} {fr : List Frame} (h : NetInv n orig L fr) : NetSound n orig := by
  refine ⟨fun e he => tentails_of_ents' h.lemmas (h.sat.ent.clauses e he),
    fun c hc => tentails_of_ents' h.lemmas (h.sat.ent.log c hc),
    fun l hl => tentails_of_ents h.lemmas ((h.sat.ent.trail l hl).mono (Sat.units_mono (List.drop_suffix _ _))), ?_⟩
  intro hd α h0 hm
  cases ho : α.cnf orig with
  | false => rfl
  | true =>
    have := h.sat.ent.dead hd α h0
    rw [Asg.cnf_append, ho, Bool.true_and] at this
    have hL : α.cnf L = true := by
      simp only [Asg.cnf, List.all_eq_true]
      exact fun d hd' => h.lemmas d hd' α h0 ho hm
    rw [hL] at this; cases this

theorem NetInv.addLemma {n : Net} {orig L : Cnf} {fr : List Frame} (h : NetInv n orig L fr) (c : Clause)
    (hc : TEntails n orig c) : NetInv n orig (L ++ [c]) fr :=
  ⟨h.sat.mono_orig (fun d hd => by
      rcases List.mem_append.1 hd with hd | hd
      · exact List.mem_append_left _ hd
      · exact List.mem_append_right _ (List.mem_append_left _ hd)),
    fun d hd => by
      rcases List.mem_append.1 hd with hd | hd
      · exact h.lemmas d hd
      · rw [List.mem_singleton.1 hd]; exact hc,
    h.th.mono_origN (fun d hd => by
      rcases List.mem_append.1 hd with hd | hd
      · exact List.mem_append_left _ hd
      · exact List.mem_append_right _ (List.mem_append_left _ hd)), h.flv, h.flen, h.reg⟩

theorem ents_last {orig L : Cnf} (c : Clause) : Ents (orig ++ (L ++ [c])) c :=
  Ents.of_mem (List.mem_append_right _ (List.mem_append_right _ (List.mem_singleton.2 rfl)))

/-- a conflict at root level: the network is T-unsatisfiable -/
theorem NetInv.rootConflict {n : Net} {orig L : Cnf} {fr : List Frame} (h : NetInv n orig L fr) {c : Clause}
    (hT : TEntails n orig c) (hf : ∀ l ∈ c, n.sat.value l = some false) (hroot : n.sat.trailLim = []) :
    NetInv { n with sat := { n.sat with dead := true } } orig (L ++ [c]) fr := by
  have h1 := h.addLemma c hT
  have hdec : n.sat.decisions = [] := by
    have := h.sat.wf.a.decLen; rw [hroot] at this; simpa using this
  have hU : Uns (orig ++ (L ++ [c])) := by
    have := uns_of_false_clause h1.sat (ents_last c) hf
    rw [hdec] at this
    exact Uns.mono this (fun d hd => by simpa [units] using hd)
  exact ⟨h1.sat.setDead hU, h1.lemmas, h1.th.assign _ (Dl.SatLe.refl _),
    FramesLv.keep (s := n.sat) (s' := { n.sat with dead := true }) (fun v b hv => ⟨hv, rfl⟩) fr h1.flv, h1.flen, h1.reg⟩

/-- conflict analysis keeps the invariant -/
theorem NetInv.learn {n n' : Net} {orig L : Cnf} {fr : List Frame} {cnfl : Clause} (h : NetInv n orig L fr)
    (hq : n.sat.queue = []) (hL : 0 < n.sat.decisionLevel) (hT : TEntails n orig cnfl)
    (hcF : ∀ l ∈ cnfl, n.sat.value l = some false)
    (hcL : ∃ l ∈ cnfl, l.neg ∈ n.sat.trail ∧ n.sat.lvl l = n.sat.decisionLevel)
    (hl : learnFrom n cnfl = some n') :
    ∃ fr', NetInv n' orig (L ++ [cnfl]) fr' ∧ n'.sat.dead = n.sat.dead ∧ (∀ α, TModel n' α ↔ TModel n α) ∧
      n'.sat.decisionLevel < n.sat.decisionLevel := by
  have h1 := h.addLemma cnfl hT
  unfold learnFrom at hl
  split at hl
  · cases hl
  · rename_i noGood bt s3 han
    obtain ⟨r1, r2, r3, r4, r5, r6, r7, r8, r9, r10, r11, r12, r13, r14, r15⟩ :=
      learnS h1.sat hq hL cnfl (ents_last cnfl) (fun l hl' => h.sat.wf.a.value_false.1 (hcF l hl')) hcL noGood bt s3 han
    have heq := learnFrom_eq r11 hl
    rw [r12] at heq r1 r3 r4 r5 r6 r8 r9 r10
    have hcongr : ∀ α, TModel n' α ↔ TModel n α := by
      intro α
      rw [heq]
      exact (TModel.congr (n := popTo n bt) (n' := { popTo n bt with sat := (n.sat.popTo bt).record noGood })
        (LraSame.refl _) rfl rfl α).trans (TModel.popTo n bt α)
    have hsat : n'.sat = (n.sat.popTo bt).record noGood := by rw [heq]
    obtain ⟨fr', t1, t2, t3⟩ := ThInv.popTo_goLv bt n.sat.decisionLevel n fr h1.th h.sat.wf hq h.flv h.flen
    have hps : (popTo n bt).sat = n.sat.popTo bt := popTo_sat n bt
    have hkeep : AssignedKeep (n.sat.popTo bt) ((n.sat.popTo bt).record noGood) :=
      assignedKeep_of_trail r13 r1.wf.lvl0 (Dl.record_le _ _) r14
    refine ⟨fr', ⟨by rw [hsat]; exact r1, fun c hc => TEntails.congr (fun α hm => (hcongr α).1 hm) (h1.lemmas c hc),
      ?_, ?_, ?_, ?_⟩, by rw [hsat]; exact r4, hcongr, by rw [hsat, r6]; exact r7⟩
    · rw [heq]
      exact ThInv.assign (n := popTo n bt) t1 _ (by
        show Dl.SatLe (popTo n bt).sat _
        rw [hps]; exact Dl.record_le _ _)
    · rw [hsat]
      exact FramesLv.keep hkeep fr' (by
        have : FramesLv (popTo n bt).sat fr' := t2
        rw [hps] at this; exact this)
    · rw [hsat, r6]
      have : fr'.length = (popTo n bt).sat.decisionLevel := t3
      rw [this, hps, Sat.popTo_level]; omega
    · rw [heq]
      show ThReg ((n.sat.popTo bt).record noGood).vals.length (popTo n bt).lra (popTo n bt).idl (popTo n bt).rdl
      rw [r8]
      exact ThReg.popTo_go bt _ n h.reg

end Net
end Oratio
