/-
Pure mathematics behind C10: sentinel-valued distance matrices `M : Nat → Nat → Int`
(`idlInf` = +∞), valuations, the gap (pigeonhole) lemma, tight witnesses and the sharp bound
`|M i j| ≤ n·K` for matrices that are exact for a set of difference constraints.
-/
import OratioModel.Net.Dl
import Mathlib.Tactic.Linarith
import Mathlib.Tactic.Ring

namespace Oratio
namespace DlM

abbrev Mat := Nat → Nat → Int
abbrev Edge := Nat × Nat × Int

/-- the valuation satisfies every edge `(f, t, w)`: `σ t - σ f ≤ w` -/
def Sat (σ : Nat → Int) (E : List Edge) : Prop := ∀ e ∈ E, σ e.2.1 - σ e.1 ≤ e.2.2

/-- exactness of a sentinel matrix relative to `E`, with an a-priori bound `B` on finite entries -/
structure Weak (n : Nat) (K B : Int) (E : List Edge) (M : Mat) : Prop where
  bnd : ∀ i j, i < n → j < n → M i j = idlInf ∨ (-B ≤ M i j ∧ M i j ≤ B)
  edges_in : ∀ e ∈ E, e.1 < n ∧ e.2.1 < n ∧ -K ≤ e.2.2 ∧ e.2.2 ≤ K
  diag : ∀ i, i < n → M i i = 0
  respects : ∀ e ∈ E, M e.1 e.2.1 ≠ idlInf ∧ M e.1 e.2.1 ≤ e.2.2
  closed : ∀ i j k, i < n → j < n → k < n → M i k ≠ idlInf → M k j ≠ idlInf →
    M i j ≠ idlInf ∧ M i j ≤ M i k + M k j
  implied : ∀ i j, i < n → j < n → M i j ≠ idlInf → ∀ σ, Sat σ E → σ j - σ i ≤ M i j

theorem Weak.congr {n : Nat} {K B : Int} {E : List Edge} {M M' : Mat} (h : Weak n K B E M)
    (heq : ∀ a b, a < n → b < n → M' a b = M a b) : Weak n K B E M' := by
  refine ⟨?_, h.edges_in, ?_, ?_, ?_, ?_⟩
  · intro i j hi hj; rw [heq i j hi hj]; exact h.bnd i j hi hj
  · intro i hi; rw [heq i i hi hi]; exact h.diag i hi
  · intro e he
    obtain ⟨h1, h2, _, _⟩ := h.edges_in e he
    rw [heq _ _ h1 h2]; exact h.respects e he
  · intro i j k hi hj hk
    rw [heq i k hi hk, heq k j hk hj, heq i j hi hj]; exact h.closed i j k hi hj hk
  · intro i j hi hj
    rw [heq i j hi hj]; exact h.implied i j hi hj

/-- adding an isolated node `n` (distance `0` to itself, `∞` to and from everything else) -/
theorem Weak.extend {n : Nat} {K B : Int} {E : List Edge} {M M' : Mat} (h : Weak n K B E M) (hB : 0 ≤ B)
    (hold : ∀ a b, a < n → b < n → M' a b = M a b)
    (hnew : ∀ a b, a < n + 1 → b < n + 1 → (a = n ∨ b = n) → M' a b = if a = b then 0 else idlInf) :
    Weak (n + 1) K B E M' := by
  have key : ∀ a b, a < n + 1 → b < n + 1 → M' a b ≠ idlInf → (a < n ∧ b < n) ∨ (a = n ∧ b = n) := by
    intro a b ha hb hf
    by_cases hab : a = n ∨ b = n
    · rw [hnew a b ha hb hab] at hf
      by_cases e : a = b
      · right; omega
      · rw [if_neg e] at hf; exact absurd rfl hf
    · left; omega
  have hnn : M' n n = 0 := by rw [hnew n n (by omega) (by omega) (Or.inl rfl), if_pos rfl]
  refine ⟨?_, ?_, ?_, ?_, ?_, ?_⟩
  · intro i j hi hj
    by_cases hf : M' i j = idlInf
    · left; exact hf
    · rcases key i j hi hj hf with ⟨h1, h2⟩ | ⟨h1, h2⟩
      · rw [hold i j h1 h2]; exact h.bnd i j h1 h2
      · rw [h1, h2, hnn]; right; omega
  · intro e he
    obtain ⟨h1, h2, h3, h4⟩ := h.edges_in e he
    exact ⟨by omega, by omega, h3, h4⟩
  · intro i hi
    by_cases hin : i = n
    · rw [hin, hnn]
    · rw [hold i i (by omega) (by omega)]; exact h.diag i (by omega)
  · intro e he
    obtain ⟨h1, h2, _, _⟩ := h.edges_in e he
    rw [hold _ _ h1 h2]; exact h.respects e he
  · intro i j k hi hj hk hik hkj
    rcases key i k hi hk hik with ⟨a1, a2⟩ | ⟨a1, a2⟩
    · rcases key k j hk hj hkj with ⟨b1, b2⟩ | ⟨b1, b2⟩
      · rw [hold i k a1 a2] at hik ⊢; rw [hold k j b1 b2] at hkj ⊢; rw [hold i j a1 b2]
        exact h.closed i j k a1 b2 a2 hik hkj
      · omega
    · rcases key k j hk hj hkj with ⟨b1, b2⟩ | ⟨b1, b2⟩
      · omega
      · subst a1; subst b2
        rw [a2, hnn]
        exact ⟨by decide, by omega⟩
  · intro i j hi hj hf σ hσ
    rcases key i j hi hj hf with ⟨a1, a2⟩ | ⟨a1, a2⟩
    · rw [hold i j a1 a2] at hf ⊢; exact h.implied i j a1 a2 hf σ hσ
    · rw [a1, a2, hnn]; omega

/-! ### the gap lemma -/

theorem filter_split {α : Type} (p : α → Bool) (l : List α) :
    (l.filter p).length + (l.filter (fun a => !p a)).length = l.length := by
  induction l with
  | nil => rfl
  | cons a l ih =>
    cases h : p a <;> simp [h] <;> omega

theorem gap_list (K : Int) (hK : 0 ≤ K) : ∀ (m : Nat) (L : List Int) (lo hi : Int), L.length ≤ m →
    hi - lo > ((L.length : Int) + 1) * K →
    ∃ θ, lo ≤ θ ∧ θ + K < hi ∧ ∀ v ∈ L, v ≤ θ ∨ θ + K < v := by
  intro m
  induction m with
  | zero =>
    intro L lo hi hl h
    have : L = [] := List.length_eq_zero_iff.mp (by omega)
    subst this
    refine ⟨lo, le_refl _, ?_, by simp⟩
    simp at h; omega
  | succ m ih =>
    intro L lo hi hl h
    cases L with
    | nil =>
      refine ⟨lo, le_refl _, ?_, by simp⟩
      simp at h; omega
    | cons v L' =>
      have hl' : L'.length ≤ m := by simpa using hl
      have hlen : ((v :: L').length : Int) = (L'.length : Int) + 1 := by simp
      rw [hlen] at h
      have hKl : 0 ≤ (L'.length : Int) * K := Int.mul_nonneg (by omega) hK
      by_cases hout : v ≤ lo ∨ hi ≤ v
      · have h' : hi - lo > ((L'.length : Int) + 1) * K := by
          have : ((L'.length : Int) + 1 + 1) * K = ((L'.length : Int) + 1) * K + K := by ring
          omega
        obtain ⟨θ, h1, h2, h3⟩ := ih L' lo hi hl' h'
        refine ⟨θ, h1, h2, ?_⟩
        intro u hu
        rcases List.mem_cons.mp hu with rfl | hu
        · rcases hout with ho | ho
          · left; omega
          · right; omega
        · exact h3 u hu
      · have hv : lo < v ∧ v < hi := by omega
        let L1 := L'.filter (fun u => decide (u < v))
        let L2 := L'.filter (fun u => !decide (u < v))
        have hsum : L1.length + L2.length = L'.length :=
          filter_split (fun u => decide (u < v)) L'
        have h1l : L1.length ≤ m := by omega
        have h2l : L2.length ≤ m := by omega
        have hsplit : v - lo > ((L1.length : Int) + 1) * K ∨ hi - v > ((L2.length : Int) + 1) * K := by
          by_contra hcon
          have hc1 : v - lo ≤ ((L1.length : Int) + 1) * K := by
            by_contra hh; exact hcon (Or.inl (by omega))
          have hc2 : hi - v ≤ ((L2.length : Int) + 1) * K := by
            by_contra hh; exact hcon (Or.inr (by omega))
          have e : ((L1.length : Int) + 1) * K + ((L2.length : Int) + 1) * K = ((L'.length : Int) + 1 + 1) * K := by
            have : (L'.length : Int) = (L1.length : Int) + (L2.length : Int) := by omega
            rw [this]; ring
          omega
        rcases hsplit with hs | hs
        · obtain ⟨θ, h1, h2, h3⟩ := ih L1 lo v h1l hs
          refine ⟨θ, h1, by omega, ?_⟩
          intro u hu
          rcases List.mem_cons.mp hu with rfl | hu
          · right; omega
          · by_cases huv : u < v
            · exact h3 u (by simp [L1, hu, huv])
            · right; omega
        · obtain ⟨θ, h1, h2, h3⟩ := ih L2 v hi h2l hs
          refine ⟨θ, by omega, h2, ?_⟩
          intro u hu
          rcases List.mem_cons.mp hu with rfl | hu
          · left; omega
          · by_cases huv : u < v
            · left; omega
            · exact h3 u (by simp [L2, hu, huv])

/-- among `n` values, two of which (`σ p`, `σ q`) are more than `n·K` apart, there is a gap wider
    than `K` separating them -/
theorem gap (K : Int) (hK : 0 ≤ K) (n : Nat) (σ : Nat → Int) (p q : Nat) (hp : p < n)
    (h : σ q - σ p > (n : Int) * K) :
    ∃ θ, σ p ≤ θ ∧ θ + K < σ q ∧ ∀ k, k < n → σ k ≤ θ ∨ θ + K < σ k := by
  let L := ((List.range n).filter (fun k => decide (k ≠ p))).map σ
  have hlen : L.length + 1 ≤ n := by
    have h1 : ((List.range n).filter (fun k => decide (k ≠ p))).length < (List.range n).length := by
      apply List.length_filter_lt_length_iff_exists.mpr
      exact ⟨p, List.mem_range.mpr hp, by simp⟩
    simp only [L, List.length_map]
    simp only [List.length_range] at h1
    omega
  have hle : ((L.length : Int) + 1) * K ≤ (n : Int) * K :=
    Int.mul_le_mul_of_nonneg_right (by omega) hK
  obtain ⟨θ, h1, h2, h3⟩ := gap_list K hK L.length L (σ p) (σ q) (le_refl _) (by omega)
  refine ⟨θ, h1, h2, ?_⟩
  intro k hk
  by_cases hkp : k = p
  · subst hkp; left; exact h1
  · apply h3
    simp only [L, List.mem_map, List.mem_filter, List.mem_range]
    exact ⟨k, ⟨hk, by simpa using hkp⟩, rfl⟩

/-! ### a feasible valuation: the Bellman–Ford potential with a virtual source -/

/-- minimum of `0` and the finite entries `M 0 k, …, M (m-1) k` -/
def colMin (M : Mat) (k : Nat) : Nat → Int
  | 0 => 0
  | m + 1 => if M m k ≠ idlInf then min (colMin M k m) (M m k) else colMin M k m

theorem colMin_le_zero (M : Mat) (k : Nat) : ∀ m, colMin M k m ≤ 0
  | 0 => le_refl _
  | m + 1 => by
    have := colMin_le_zero M k m
    simp only [colMin]; split <;> omega

theorem colMin_le (M : Mat) (k : Nat) : ∀ m j, j < m → M j k ≠ idlInf → colMin M k m ≤ M j k
  | 0, j, h, _ => by omega
  | m + 1, j, h, hf => by
    simp only [colMin]
    by_cases hjm : j = m
    · subst hjm; rw [if_pos hf]; omega
    · have := colMin_le M k m j (by omega) hf
      split <;> omega

theorem colMin_attained (M : Mat) (k : Nat) : ∀ m, colMin M k m = 0 ∨ ∃ j, j < m ∧ M j k ≠ idlInf ∧ colMin M k m = M j k
  | 0 => Or.inl rfl
  | m + 1 => by
    simp only [colMin]
    rcases colMin_attained M k m with h0 | ⟨j, hj, hf, he⟩
    · split
      · rename_i hm
        by_cases hc : colMin M k m ≤ M m k
        · left; omega
        · right; exact ⟨m, by omega, hm, by omega⟩
      · left; exact h0
    · split
      · rename_i hm
        by_cases hc : colMin M k m ≤ M m k
        · right; exact ⟨j, by omega, hf, by omega⟩
        · right; exact ⟨m, by omega, hm, by omega⟩
      · right; exact ⟨j, by omega, hf, he⟩

theorem feasible0 {n : Nat} {K B : Int} {E : List Edge} {M : Mat} (h : Weak n K B E M) (hB : 0 ≤ B) :
    Sat (fun k => colMin M k n) E ∧ ∀ k, k < n → -B ≤ colMin M k n ∧ colMin M k n ≤ 0 := by
  constructor
  · intro e he
    obtain ⟨ha, hb, _, _⟩ := h.edges_in e he
    obtain ⟨hfin, hle⟩ := h.respects e he
    show colMin M e.2.1 n - colMin M e.1 n ≤ e.2.2
    rcases colMin_attained M e.1 n with h0 | ⟨j, hj, hf, hej⟩
    · have := colMin_le M e.2.1 n e.1 ha hfin
      omega
    · obtain ⟨hf2, hle2⟩ := h.closed j e.2.1 e.1 hj hb ha hf hfin
      have := colMin_le M e.2.1 n j hj hf2
      omega
  · intro k hk
    refine ⟨?_, colMin_le_zero M k n⟩
    rcases colMin_attained M k n with h0 | ⟨j, hj, hf, hej⟩
    · omega
    · rcases h.bnd j k hj hk with hh | hh
      · exact absurd hh hf
      · omega

/-! ### tight witnesses -/

/-- the row `i` of the matrix, completed far away on the unreachable nodes, is a valuation -/
theorem witness {n : Nat} {K B : Int} {E : List Edge} {M : Mat} (h : Weak n K B E M) (hB : 0 ≤ B)
    (i : Nat) (hi : i < n) (L : Int) (hL : 2 * B + K ≤ L) :
    ∃ σ : Nat → Int, Sat σ E ∧ (∀ k, k < n → M i k ≠ idlInf → σ k = M i k) ∧
      (∀ k, k < n → M i k = idlInf → L - B ≤ σ k ∧ σ k ≤ L) := by
  obtain ⟨hs0, hb0⟩ := feasible0 h hB
  refine ⟨fun k => if M i k ≠ idlInf then M i k else L + colMin M k n, ?_, ?_, ?_⟩
  · intro e he
    obtain ⟨ha, hb, hw1, hw2⟩ := h.edges_in e he
    obtain ⟨hfin, hle⟩ := h.respects e he
    have he0 := hs0 e he
    show (if M i e.2.1 ≠ idlInf then M i e.2.1 else L + colMin M e.2.1 n) -
      (if M i e.1 ≠ idlInf then M i e.1 else L + colMin M e.1 n) ≤ e.2.2
    simp only at he0
    by_cases h1 : M i e.1 ≠ idlInf
    · obtain ⟨hf2, hle2⟩ := h.closed i e.2.1 e.1 hi hb ha h1 hfin
      rw [if_pos hf2, if_pos h1]; omega
    · by_cases h2 : M i e.2.1 ≠ idlInf
      · rw [if_pos h2, if_neg h1]
        have := hb0 e.1 ha
        rcases h.bnd i e.2.1 hi hb with hh | hh
        · exact absurd hh h2
        · omega
      · rw [if_neg h2, if_neg h1]; omega
  · intro k _ hf
    simp [hf]
  · intro k hk hf
    have := hb0 k hk
    simp only [hf, ne_eq, not_true_eq_false, if_false]
    omega

/-- the sharp bound: finite entries of an exact matrix are within `±n·K` -/
theorem sharp {n : Nat} {K B : Int} {E : List Edge} {M : Mat} (h : Weak n K B E M) (hB : 0 ≤ B) (hK : 0 ≤ K)
    (i j : Nat) (hi : i < n) (hj : j < n) (hf : M i j ≠ idlInf) :
    -((n : Int) * K) ≤ M i j ∧ M i j ≤ (n : Int) * K := by
  obtain ⟨σ, hσ, hσf, _⟩ := witness h hB i hi (2 * B + K) (le_refl _)
  have hσi : σ i = 0 := by rw [hσf i hi (by rw [h.diag i hi]; decide), h.diag i hi]
  have hσj : σ j = M i j := hσf j hj hf
  constructor
  · by_contra hc
    have hgap : σ i - σ j > (n : Int) * K := by omega
    obtain ⟨θ, h1, h2, h3⟩ := gap K hK n σ j i hj hgap
    have hs' : Sat (fun k => if θ < σ k then σ k - 1 else σ k) E := by
      intro e he
      obtain ⟨ha, hb, hw1, hw2⟩ := h.edges_in e he
      have he0 : σ e.2.1 - σ e.1 ≤ e.2.2 := hσ e he
      show (if θ < σ e.2.1 then σ e.2.1 - 1 else σ e.2.1) - (if θ < σ e.1 then σ e.1 - 1 else σ e.1) ≤ e.2.2
      have ga := h3 e.1 ha
      have gb := h3 e.2.1 hb
      split <;> split <;> omega
    have := h.implied i j hi hj hf _ hs'
    rw [if_neg (by omega), if_pos (by omega)] at this
    omega
  · by_contra hc
    have hgap : σ j - σ i > (n : Int) * K := by omega
    obtain ⟨θ, h1, h2, h3⟩ := gap K hK n σ i j hi hgap
    have hs' : Sat (fun k => if θ < σ k then σ k + 1 else σ k) E := by
      intro e he
      obtain ⟨ha, hb, hw1, hw2⟩ := h.edges_in e he
      have he0 : σ e.2.1 - σ e.1 ≤ e.2.2 := hσ e he
      show (if θ < σ e.2.1 then σ e.2.1 + 1 else σ e.2.1) - (if θ < σ e.1 then σ e.1 + 1 else σ e.1) ≤ e.2.2
      have ga := h3 e.1 ha
      have gb := h3 e.2.1 hb
      split <;> split <;> omega
    have := h.implied i j hi hj hf _ hs'
    rw [if_pos (by omega), if_neg (by omega)] at this
    omega

/-! ### the closed form of the incremental update -/

/-- `min (M a b) (M a f + w + M g b)` on sentinel values -/
def upd (M : Mat) (f g : Nat) (w : Int) : Mat := fun a b =>
  if M a f ≠ idlInf ∧ M g b ≠ idlInf ∧ M a f + w + M g b < M a b then M a f + w + M g b else M a b

theorem upd_le_old (M : Mat) (f g : Nat) (w : Int) (a b : Nat) : upd M f g w a b ≤ M a b := by
  unfold upd; split <;> omega

/-- either the entry is old, or it is the new candidate (with finite ingredients) -/
theorem upd_cases (M : Mat) (f g : Nat) (w : Int) (a b : Nat) :
    (upd M f g w a b = M a b) ∨
    (M a f ≠ idlInf ∧ M g b ≠ idlInf ∧ upd M f g w a b = M a f + w + M g b) := by
  unfold upd; split
  · rename_i hc; right; exact ⟨hc.1, hc.2.1, rfl⟩
  · left; rfl

section
variable {n : Nat} {K B : Int} {E : List Edge} {M : Mat} (h : Weak n K B E M)
  (hB : 0 ≤ B) (hK : 0 ≤ K) (hInf : 4 * B + 4 * K < idlInf)
  {f g : Nat} {w : Int} (hf : f < n) (hg : g < n) (hw : -K ≤ w ∧ w ≤ K)
include h hB hK hInf hf hg hw

theorem upd_bnd (a b : Nat) (ha : a < n) (hb : b < n) :
    upd M f g w a b = idlInf ∨ (-(2 * B + K) ≤ upd M f g w a b ∧ upd M f g w a b ≤ 2 * B + K) := by
  have h1 := h.bnd a f ha hf
  have h2 := h.bnd g b hg hb
  have h3 := h.bnd a b ha hb
  unfold upd; split
  · rename_i hc; omega
  · omega

theorem upd_fin_of_old (a b : Nat) (ha : a < n) (hb : b < n) (ho : M a b ≠ idlInf) : upd M f g w a b ≠ idlInf := by
  have h1 := h.bnd a f ha hf
  have h2 := h.bnd g b hg hb
  have h3 := h.bnd a b ha hb
  unfold upd; split
  · rename_i hc; omega
  · omega

theorem upd_le_cand (a b : Nat) (ha : a < n) (hb : b < n) (h1 : M a f ≠ idlInf) (h2 : M g b ≠ idlInf) :
    upd M f g w a b ≠ idlInf ∧ upd M f g w a b ≤ M a f + w + M g b := by
  have b1 := h.bnd a f ha hf
  have b2 := h.bnd g b hg hb
  have b3 := h.bnd a b ha hb
  unfold upd; split
  · omega
  · rename_i hc
    have : ¬ (M a f + w + M g b < M a b) := fun hh => hc ⟨h1, h2, hh⟩
    omega

theorem update_weak (hcyc : M g f = idlInf ∨ 0 ≤ M g f + w) :
    Weak n K (2 * B + K) ((f, g, w) :: E) (upd M f g w) := by
  have hSat : ∀ σ, Sat σ ((f, g, w) :: E) → Sat σ E ∧ σ g - σ f ≤ w := by
    intro σ hs
    exact ⟨fun e he => hs e (List.mem_cons_of_mem _ he), hs (f, g, w) List.mem_cons_self⟩
  refine ⟨upd_bnd h hB hK hInf hf hg hw, ?_, ?_, ?_, ?_, ?_⟩
  · intro e he
    rcases List.mem_cons.mp he with rfl | he
    · exact ⟨hf, hg, hw.1, hw.2⟩
    · exact h.edges_in e he
  · intro a ha
    rcases upd_cases M f g w a a with hc | ⟨h1, h2, hc⟩
    · rw [hc, h.diag a ha]
    · obtain ⟨hgf, hle⟩ := h.closed g f a hg hf ha h2 h1
      have := upd_le_old M f g w a a
      rw [h.diag a ha] at this
      rw [hc] at this ⊢
      rcases hcyc with hh | hh
      · exact absurd hh hgf
      · omega
  · intro e he
    rcases List.mem_cons.mp he with rfl | he
    · have h0f := h.diag f hf
      have h0g := h.diag g hg
      have hfin : (0:Int) ≠ idlInf := by decide
      have := upd_le_cand h hB hK hInf hf hg hw f g hf hg (by rw [h0f]; exact hfin) (by rw [h0g]; exact hfin)
      rw [h0f, h0g] at this
      show upd M f g w f g ≠ idlInf ∧ upd M f g w f g ≤ w
      exact ⟨this.1, by omega⟩
    · obtain ⟨ha, hb, _, _⟩ := h.edges_in e he
      obtain ⟨hfin, hle⟩ := h.respects e he
      exact ⟨upd_fin_of_old h hB hK hInf hf hg hw _ _ ha hb hfin, le_trans (upd_le_old M f g w _ _) hle⟩
  · intro i j k hi hj hk hik hkj
    rcases upd_cases M f g w i k with c1 | ⟨a1, a2, c1⟩ <;>
    rcases upd_cases M f g w k j with c2 | ⟨b1, b2, c2⟩
    · rw [c1] at hik ⊢; rw [c2] at hkj ⊢
      obtain ⟨hfin, hle⟩ := h.closed i j k hi hj hk hik hkj
      exact ⟨upd_fin_of_old h hB hK hInf hf hg hw _ _ hi hj hfin, le_trans (upd_le_old M f g w _ _) hle⟩
    · rw [c1] at hik ⊢; rw [c2] at hkj ⊢
      obtain ⟨hfin, hle⟩ := h.closed i f k hi hf hk hik b1
      obtain ⟨hfin2, hle2⟩ := upd_le_cand h hB hK hInf hf hg hw i j hi hj hfin b2
      exact ⟨hfin2, by omega⟩
    · rw [c1] at hik ⊢; rw [c2] at hkj ⊢
      obtain ⟨hfin, hle⟩ := h.closed g j k hg hj hk a2 hkj
      obtain ⟨hfin2, hle2⟩ := upd_le_cand h hB hK hInf hf hg hw i j hi hj a1 hfin
      exact ⟨hfin2, by omega⟩
    · rw [c1] at hik ⊢; rw [c2] at hkj ⊢
      obtain ⟨hfin, hle⟩ := h.closed g f k hg hf hk a2 b1
      obtain ⟨hfin2, hle2⟩ := upd_le_cand h hB hK hInf hf hg hw i j hi hj a1 b2
      refine ⟨hfin2, ?_⟩
      rcases hcyc with hh | hh
      · exact absurd hh hfin
      · omega
  · intro i j hi hj hfin σ hs
    obtain ⟨hsE, hnew⟩ := hSat σ hs
    rcases upd_cases M f g w i j with c | ⟨a1, a2, c⟩
    · rw [c] at hfin ⊢
      exact h.implied i j hi hj hfin σ hsE
    · rw [c]
      have := h.implied i f hi hf a1 σ hsE
      have := h.implied g j hg hj a2 σ hsE
      omega
end

end DlM
end Oratio
