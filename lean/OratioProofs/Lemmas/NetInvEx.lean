/-
C07N, non-vacuity of the history theorem: the IDL cycle of C10X, decided through the network's own
`assume`: root-level network with the three constraints `b1 : x3 - x1 ≤ 5`, `b2 : x3 - x2 ≤ 2`,
`b3 : x1 - x2 ≤ -3`; `assume b1`, `assume ¬b2`: during the second call `theoryPropagate` updates the matrix,
finds that `b3` is now decided (false), RECORDS the theory lemma `[¬b3, b2, ¬b1]` in the middle of
propagation and `¬b3` is propagated at level 2.  (Conflict analysis on the same cycle: `NetEx.exNet`.)
-/
import OratioProofs.Lemmas.NetInvD
import OratioProofs.Lemmas.NetSoundExample

namespace Oratio
namespace NetEx
open C10XExample Net Sat

def rootOps : List Sat.Op := [.newVar, .newVar, .newVar]
def rootS : Sat × Cnf := (runL 100 (Sat.init, []) rootOps).getD (Sat.init, [])

theorem rootS_run : runL 100 (Sat.init, []) rootOps = some rootS := by
  have h : (runL 100 (Sat.init, []) rootOps).isSome = true := by decide
  unfold rootS
  cases hr : runL 100 (Sat.init, []) rootOps with
  | none => rw [hr] at h; cases h
  | some r => rfl

theorem rootS_invB : Sat.InvB [] rootS.1 := by
  have := runL_inv 100 rootOps (Sat.init, []) rootS Sat.init_invB rootS_run
  rw [show rootS.2 = [] by decide] at this
  exact this

/-- the root-level network: three SAT variables bound to three IDL constraints over `x1, x2, x3` -/
def rootNet : Net := ⟨rootS.1, Lra.init, r3.2.2, Dl.init rdlOps, [(1, .idl), (2, .idl), (3, .idl)]⟩

theorem rootNet_inv : NetInv rootNet [] [] [] := by
  have e0 : (Dl.init idlOps 16 : Dl Int).Exact 10 [] := C10_init_exact 10 (by decide)
  have p0 : Dl.PathInv Sat.init (Dl.init idlOps 16 : Dl Int) := C10X_init_pathinv _
  have e1 : t1.Exact 10 [] := (C10_newVar_exact 10 [] _ e0 (by decide)).1
  have p1 : Dl.PathInv Sat.init t1 := C10X_newVar_pathinv 10 [] _ _ e0 p0
  have e2 : t2.Exact 10 [] := (C10_newVar_exact 10 [] _ e1 (by decide)).1
  have p2 : Dl.PathInv Sat.init t2 := C10X_newVar_pathinv 10 [] _ _ e1 p1
  have e3 : t3.Exact 10 [] := (C10_newVar_exact 10 [] _ e2 (by decide)).1
  have p3 : Dl.PathInv Sat.init t3 := C10X_newVar_pathinv 10 [] _ _ e2 p2
  have q1 := C10X_newDistance_pathinv 10 [] Sat.init t3 e3 p3 1 3 5
  have q2 := C10X_newDistance_pathinv 10 [] r1.2.1 r1.2.2 q1.2 q1.1 2 3 2
  have q3 := C10X_newDistance_pathinv 10 [] r2.2.1 r2.2.2 q2.2 q2.1 2 1 (-3)
  have hle : Dl.SatLe r3.2.1 rootS.1 := satLe_of_vals (by decide)
  have hv : r3.2.2.varDists = [c1, c2, c3] := by decide
  have hidl : IdlBase rootS.1 r3.2.2 := by
    refine ⟨⟨10, [], q3.2, ?_⟩, C10X_assign_pathinv _ _ _ q3.1 hle, by
      rw [show r3.2.2.distConstr = [] by decide]; exact Undo.sortedK_nil⟩
    intro c hc
    rw [hv] at hc
    simp only [List.mem_cons, List.not_mem_nil, or_false] at hc
    rcases hc with rfl | rfl | rfl <;> decide
  refine ⟨rootS_invB.toS (by decide), (fun c hc => by cases hc), ?_, trivial, by decide, ?_⟩
  · refine ⟨⟨C09X_init_inv.1, C09X_init_inv.2, (fun e he => by cases he), (fun e he => by cases he), ?_, ?_⟩, hidl,
      ⟨⟨[], C10R_init_exact⟩, (fun c hc => by cases hc), C10XR_init_pathinv _, Undo.sortedK_nil, C10R_epsInt_init,
        (fun c hc => by cases hc)⟩⟩
    · intro α σr σi _ _ _ _ x hx
      exact absurd hx (by show ¬ (Lra.ubIdx x < ([] : List LBound).length); simp)
    · intro x
      show rootS.1.value Lit.trueLit = some true ∧ rootS.1.value Lit.trueLit = some true
      exact ⟨by decide, by decide⟩
  · refine ⟨(fun e he => by cases he), ?_, (fun c hc => by cases hc), Lra.init_good, (fun x b hb => by cases hb), (fun e he => by cases he)⟩
    intro c hc
    show c.b < rootS.1.vals.length
    have hc' : c ∈ r3.2.2.varDists := hc
    rw [hv] at hc'
    simp only [List.mem_cons, List.not_mem_nil, or_false] at hc'
    rcases hc' with rfl | rfl | rfl <;> decide

def exHist : List NetOp := [.assume ⟨1, true⟩, .assume ⟨2, false⟩]
def exFinal : NetRun := (NetRun.steps 100 ⟨rootNet, []⟩ exHist).getD ⟨rootNet, []⟩

theorem exFinal_run : NetRun.steps 100 ⟨rootNet, []⟩ exHist = some exFinal := by
  have h : (NetRun.steps 100 ⟨rootNet, []⟩ exHist).isSome = true := by decide
  unfold exFinal
  cases hr : NetRun.steps 100 ⟨rootNet, []⟩ exHist with
  | none => rw [hr] at h; cases h
  | some r => rfl

/-- the history runs, the second `assume` records the theory lemma `[¬b3, b2, ¬b1]` and propagates `¬b3`,
    and the theorem applies: the final network satisfies the invariant -/
theorem exFinal_ok : NetOK exFinal ∧ exFinal.n.sat.log = [[⟨3, false⟩, ⟨2, true⟩, ⟨1, false⟩]] ∧
    exFinal.n.sat.decisionLevel = 2 ∧ exFinal.n.sat.value ⟨3, true⟩ = some false :=
  ⟨(steps_ok exHist ⟨rootNet, []⟩ exFinal ⟨⟨[], [], rootNet_inv⟩, Or.inl (by decide)⟩ (guards_noRows exHist _ (by decide) ⟨trivial, fun _ _ _ => ⟨trivial, fun _ _ _ => trivial⟩⟩)
    ⟨trivial, fun _ _ _ => ⟨trivial, fun _ _ _ => trivial⟩⟩ exFinal_run).1, by decide, by decide, by decide⟩

end NetEx
end Oratio
