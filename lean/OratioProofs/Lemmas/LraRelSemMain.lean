/-
Lemmas for property C11 (semantic version), part 1: the variable `newVarLin` returns has the value of
the expression in every solution of the tableau, and the assertion behind a non-constant answer of
`newRel` says exactly the requested relation.
-/
import OratioModel
import OratioProofs.Lemmas.LraRelSemDefs
import OratioProofs.Lemmas.LraBridgeCheck

namespace Oratio
namespace Lra
open Lin

/-! ## association lists -/

theorem findKey_some_key {β : Type} {m : List (String × β)} {k : String} {v : β}
    (h : findKey m k = some v) : ∃ e ∈ m, e.1 = k ∧ e.2 = v := by
  unfold findKey at h
  rw [Option.map_eq_some_iff] at h
  obtain ⟨e, he, hv⟩ := h
  have hk := List.find?_some he
  exact ⟨e, List.mem_of_find?_eq_some he, by simpa using hk, hv⟩

/-! ## the rewritten difference -/

theorem sub_vars_lt {left right : Lin} (hl : left.WF) (hr : right.WF) {n : Nat}
    (hlv : ∀ p ∈ left.vars, p.1 < n) (hrv : ∀ p ∈ right.vars, p.1 < n) :
    ∀ v, (Lin.find (Lin.sub left right).vars v).isSome = true → v < n := by
  intro v hv
  obtain ⟨hs, hw, -⟩ := (wf_iff left).1 hl
  obtain ⟨-, hw', -⟩ := (wf_iff right).1 hr
  have hv' : (Lin.find ((mapC R.neg right.vars).foldl addTerm left.vars) v).isSome = true := by
    rw [← foldl_subTerm]; exact hv
  rcases foldl_addTerm_keys _ _ hs hw (coefWF_mapC (fun c hc => R.finWF_neg hc) hw') v hv' with h | h
  · obtain ⟨c, hc⟩ := find_isSome_iff.1 h
    exact hlv _ hc
  · rw [find_mapC_isSome] at h
    obtain ⟨c, hc⟩ := find_isSome_iff.1 h
    exact hrv _ hc

/-- the rewritten difference `relE` of `newRel`: canonical, over existing variables, and in every solution of
    the tableau its value plus the known term `k` is the difference of the two sides -/
theorem relE_spec {t : Lra} (ht : TabWF t) {left right : Lin} (hl : left.WF) (hr : right.WF)
    (hlv : ∀ p ∈ left.vars, p.1 < t.vals.length) (hrv : ∀ p ∈ right.vars, p.1 < t.vals.length) :
    (relE t left right).WF ∧ (∀ p ∈ (relE t left right).vars, p.1 < t.vals.length) ∧
    R.FinWF (substBasic t (Lin.sub left right)).known ∧
    ∀ σ, RowsS t σ → Lin.evalS (relE t left right) σ =
      Lin.evalS left σ - Lin.evalS right σ - (substBasic t (Lin.sub left right)).known.toRat := by
  obtain ⟨hi, hlen⟩ := (tabWF_iff t).1 ht
  obtain ⟨d1, -, -, d4, -⟩ := Lin.sub_spec left right hl hr
  obtain ⟨s1, s2, s3, -⟩ := substBasic_spec (t := t) hi.rows d1
  obtain ⟨w1, w2, w3⟩ := (wf_iff _).1 s1
  refine ⟨(wf_iff _).2 ⟨w1, w2, R.finWF_zero⟩, ?_, w3, ?_⟩
  · intro p hp
    have hp' : (Lin.find (substBasic t (Lin.sub left right)).vars p.1).isSome = true :=
      find_isSome_iff.2 ⟨p.2, hp⟩
    rcases s3 p.1 hp' with h | ⟨r, rl, hrl, h⟩
    · exact sub_vars_lt hl hr hlv hrv _ h
    · rw [← hlen]; exact (hi.bound r rl hrl).2 _ h
  · intro σ hσ
    have h2 := s2 σ ((holdsR_iff hi.keys σ).1 hσ)
    rw [d4, evalS_eq] at h2
    show sumS σ (substBasic t (Lin.sub left right)).vars + R.zero.toRat = _
    rw [R.toRat_zero]
    linarith

/-! ## `newVarLin`: the value of the variable returned -/

theorem newVarLin_sem {s : Sat} {t : Lra} (ht : TabWF t) (si : SemInv t) {l : Lin} (hl : l.WF)
    (hlv : ∀ p ∈ l.vars, p.1 < t.vals.length) {slack : Nat} {t1 : Lra}
    (h : newVarLin s t l = some (slack, t1)) :
    (∀ σ, RowsS t1 σ → RowsS t σ ∧ σ slack = Lin.evalS l σ) ∧
    (∀ σ, RowsS t σ → ∃ σ', RowsS t1 σ' ∧ ∀ x, x < t.vals.length → σ' x = σ x) := by
  have hsound := newVarLin_sound ht hl hlv h
  unfold newVarLin at h
  split at h
  · cases h
  · simp only [] at h
    split at h
    · rename_i v hv
      cases h
      obtain ⟨e, he, hk, hv'⟩ := findKey_some_key hv
      refine ⟨fun σ hσ => ⟨hσ, ?_⟩, fun σ hσ => ⟨σ, hσ, fun _ _ => rfl⟩⟩
      rw [← hv']
      exact si.exprs_sem e he l hl hk.symm σ hσ
    · split at h
      · rename_i v hv
        cases h
        obtain ⟨e, he, hk, hv'⟩ := findKey_some_key hv
        obtain ⟨s1, s2⟩ := substBasic_holds (t := t) ht.rows hl
        refine ⟨fun σ hσ => ⟨hσ, ?_⟩, fun σ hσ => ⟨σ, hσ, fun _ _ => rfl⟩⟩
        have hσ' : RowsS t σ := hσ
        rw [← hv', si.exprs_sem e he _ s1 hk.symm σ hσ']
        exact s2 σ hσ'
      · split at h
        · cases h
        · cases h
          rcases hsound with ⟨-, -, h3⟩ | ⟨hs, -, -, -, h5, h6⟩
          · exfalso
            have := congrArg List.length h3
            rw [newRow_vals] at this
            simp [setVal, setBound, newVar] at this
          · refine ⟨fun σ hσ => h6 σ hσ, fun σ hσ => ⟨_, (h5 σ hσ).2, ?_⟩⟩
            intro x hx
            rw [hs]
            exact Function.update_of_ne (Nat.ne_of_lt hx) _ _

/-! ## the constant of `newRel` -/

theorem neg_zero_eq : R.neg R.zero = R.zero := by decide

theorem relC_simple {t : Lra} (r : LRel) {left right : Lin}
    (hk : R.FinWF (substBasic t (Lin.sub left right)).known) : SimpleC (relC t r left right) := by
  cases r
  · exact ⟨R.finWF_neg hk, Or.inr (Or.inr rfl)⟩
  · exact ⟨R.finWF_neg hk, Or.inl neg_zero_eq⟩
  · exact ⟨R.finWF_neg hk, Or.inl neg_zero_eq⟩
  · exact ⟨R.finWF_neg hk, Or.inr (Or.inl rfl)⟩

theorem toRat_neg_one : (R.neg R.one).toRat = -1 := by
  rw [R.toRat_neg ⟨by decide, by decide⟩, R.toRat_one]

/-- above a finite constant -/
theorem irAbove_fin {c : IR} (hc : R.FinWF c.rat) (y : Rat) :
    IRAbove c y ↔ (y < c.rat.toRat ∨ (y = c.rat.toRat ∧ 0 ≤ c.inf.toRat)) := by
  unfold IRAbove
  constructor
  · rintro (h | ⟨-, h⟩)
    · exact absurd (by rw [h]; rfl) hc.2
    · exact h
  · intro h
    exact Or.inr ⟨hc.2, h⟩

theorem irBelow_fin {c : IR} (hc : R.FinWF c.rat) (y : Rat) :
    IRBelow c y ↔ (c.rat.toRat < y ∨ (c.rat.toRat = y ∧ c.inf.toRat ≤ 0)) := by
  unfold IRBelow
  constructor
  · rintro (h | ⟨-, h⟩)
    · exact absurd (by rw [h]; rfl) hc.2
    · exact h
  · intro h
    exact Or.inr ⟨hc.2, h⟩

/-- the constant of `newRel` for the known term `k` -/
def relCk (k : R) (r : LRel) : IR :=
  match r with
  | .lt => ⟨R.neg k, R.ofInt (-1)⟩
  | .leq => ⟨R.neg k, R.zero⟩
  | .geq => ⟨R.neg k, R.zero⟩
  | .gt => ⟨R.neg k, R.ofInt 1⟩

theorem relC_eq (t : Lra) (r : LRel) (left right : Lin) :
    relC t r left right = relCk (substBasic t (Lin.sub left right)).known r := by
  cases r
  · rfl
  · show (⟨R.neg _, R.neg R.zero⟩ : IR) = _; rw [neg_zero_eq]; rfl
  · show (⟨R.neg _, R.neg R.zero⟩ : IR) = _; rw [neg_zero_eq]; rfl
  · rfl

theorem relCk_means {k : R} (hk : R.FinWF k) (r : LRel) (x y : Rat) :
    (if relUp r then IRAbove (relCk k r) (x - y - k.toRat) else IRBelow (relCk k r) (x - y - k.toRat)) ↔
    RelHolds r x y := by
  have hn := R.toRat_neg hk
  have hf := R.finWF_neg hk
  cases r
  · show IRAbove ⟨R.neg k, R.ofInt (-1)⟩ _ ↔ x < y
    rw [irAbove_fin hf]
    simp only [hn, R.toRat_ofInt]
    constructor
    · rintro (h | ⟨-, h⟩)
      · linarith
      · norm_num at h
    · intro h; left; linarith
  · show IRAbove ⟨R.neg k, R.zero⟩ _ ↔ x ≤ y
    rw [irAbove_fin hf]
    simp only [hn, R.toRat_zero]
    constructor
    · rintro (h | ⟨h, -⟩) <;> linarith
    · intro h
      rcases lt_or_eq_of_le h with h | h
      · left; linarith
      · right; exact ⟨by linarith, le_refl _⟩
  · show IRBelow ⟨R.neg k, R.zero⟩ _ ↔ x ≥ y
    rw [irBelow_fin hf]
    simp only [hn, R.toRat_zero]
    constructor
    · rintro (h | ⟨h, -⟩) <;> linarith
    · intro h
      rcases lt_or_eq_of_le h with h | h
      · left; linarith
      · right; exact ⟨by linarith, le_refl _⟩
  · show IRBelow ⟨R.neg k, R.ofInt 1⟩ _ ↔ x > y
    rw [irBelow_fin hf]
    simp only [hn, R.toRat_ofInt]
    constructor
    · rintro (h | ⟨-, h⟩)
      · linarith
      · norm_num at h
    · intro h; left; linarith

/-- the assertion `slack (≤|≥) relC` on a variable whose value is `d - k` (`d` the difference of the two sides,
    `k` the known term of the rewritten difference) says the relation -/
theorem relC_means {t : Lra} (r : LRel) {left right : Lin}
    (hk : R.FinWF (substBasic t (Lin.sub left right)).known) (x y : Rat) :
    (if relUp r then IRAbove (relC t r left right) (x - y - (substBasic t (Lin.sub left right)).known.toRat)
      else IRBelow (relC t r left right) (x - y - (substBasic t (Lin.sub left right)).known.toRat)) ↔
    RelHolds r x y := by
  rw [relC_eq]
  exact relCk_means hk r x y

/-! ## `relReg` -/

theorem rowsS_congr {t u : Lra} (h : u.tableau = t.tableau) (σ : Nat → Rat) : RowsS u σ ↔ RowsS t σ := by
  unfold RowsS; rw [h]

theorem asrtOf_append_old {t : Lra} {b : Nat} {a : LAsrt} {n : Nat} {a' : LAsrt}
    (h : t.asrtOf b = some a) :
    ((t.vAsrts ++ [(n, a')]).find? (fun e => e.1 == b)).map (·.2) = some a := by
  unfold asrtOf at h
  rw [Option.map_eq_some_iff] at h
  obtain ⟨e, he, hv⟩ := h
  rw [List.find?_append, he]
  simp [hv]

/-! ## the meaning of a non-constant answer -/

/-- what both non-constant outcomes of `newRel` have in common -/
theorem newRel_nonconst {s : Sat} {t : Lra} {r : LRel} {left right : Lin} {l : Lit} {s' : Sat} {t' : Lra}
    {b : Option Nat} (ri : RelInv s t) (si : SemInv t)
    (hkf : R.FinWF (substBasic t (Lin.sub left right)).known)
    (h : newRel s t r left right = some (l, s', t', b)) (hc : l ≠ Lit.trueLit ∧ l ≠ Lit.falseLit) :
    ∃ slack t1, newVarLin s t (relE t left right) = some (slack, t1) ∧ t'.tableau = t1.tableau ∧
      t'.vals = t1.vals ∧ t'.bounds = t1.bounds ∧
      t'.asrtOf l.var = some ⟨if relUp r then .leq else .geq, l, slack, relC t r left right⟩ := by
  cases newRel_outcome h with
  | decidedExpr h0 hs' ht hb =>
    rcases relSat_const h0 with h1 | h1
    · exact absurd h1 hc.1
    · exact absurd h1 hc.2
  | decidedSlack slack h0 hv h1 hs' hb =>
    rcases relSat_const h1 with h1 | h1
    · exact absurd h1 hc.1
    · exact absurd h1 hc.2
  | cached slack h0 hv h1 hf hs' hb =>
    refine ⟨slack, t', hv, rfl, rfl, rfl, ?_⟩
    obtain ⟨e, he, hk, hl⟩ := findKey_some_key hf
    obtain ⟨hsa, hva, -⟩ := newVarLin_spec hv
    have := si.sAsrts_sem e (hsa ▸ he) (relUp r) slack (relC t r left right) (relC_simple r hkf) hk.symm
    rw [hl] at this
    unfold asrtOf at this ⊢
    rw [hva]
    exact this
  | fresh slack t1 h0 hv h1 hf hl hs' ht hb =>
    subst hl ht
    refine ⟨slack, t1, hv, rfl, rfl, rfl, ?_⟩
    exact find_append_new (fun e he => ri.vAsrts_lt e ((newVarLin_spec hv).2.1 ▸ he))

/-- TARGET 1.  A non-constant answer of `newRel` is the control literal of a registered assertion on an existing
    variable which, in every solution of the new tableau, says exactly the requested relation. -/
theorem newRel_meaning {s : Sat} {t : Lra} {r : LRel} {left right : Lin} {l : Lit} {s' : Sat} {t' : Lra}
    {b : Option Nat} (ht : TabWF t) (ri : RelInv s t) (si : SemInv t) (hl : left.WF) (hr : right.WF)
    (hlv : ∀ p ∈ left.vars, p.1 < t.vals.length) (hrv : ∀ p ∈ right.vars, p.1 < t.vals.length)
    (h : newRel s t r left right = some (l, s', t', b)) (hc : l ≠ Lit.trueLit ∧ l ≠ Lit.falseLit) :
    ∃ a, t'.asrtOf l.var = some a ∧ a.b = l ∧ a.o = (if relUp r then .leq else .geq) ∧
      a.x < t'.vals.length ∧ SimpleC a.v ∧
      ∀ σ, RowsS t' σ → (RelHolds r (Lin.evalS left σ) (Lin.evalS right σ) ↔ AsrtSays a σ) := by
  obtain ⟨e1, e2, e3, e4⟩ := relE_spec ht hl hr hlv hrv
  obtain ⟨slack, t1, hv, htab, hvals, -, ha⟩ := newRel_nonconst ri si e3 h hc
  obtain ⟨n1, -⟩ := newVarLin_sem ht si e1 e2 hv
  refine ⟨_, ha, rfl, rfl, ?_, relC_simple r e3, ?_⟩
  · show slack < t'.vals.length
    rw [hvals]; exact (ri.newVarLin hv).2
  · intro σ hσ
    obtain ⟨hσt, hsl⟩ := n1 σ ((rowsS_congr htab σ).1 hσ)
    rw [e4 σ hσt] at hsl
    rw [← relC_means r e3 (Lin.evalS left σ) (Lin.evalS right σ)]
    cases hu : relUp r
    · simp only [AsrtSays, Bool.false_eq_true, if_false, hsl]
    · simp only [AsrtSays, if_true, hsl]

/-- every solution of the new tableau is a solution of the old one, and every solution of the old tableau
    extends (changing no existing variable) to a solution of the new one -/
theorem newRel_conservative {s : Sat} {t : Lra} {r : LRel} {left right : Lin} {l : Lit} {s' : Sat} {t' : Lra}
    {b : Option Nat} (ht : TabWF t) (si : SemInv t) (hl : left.WF) (hr : right.WF)
    (hlv : ∀ p ∈ left.vars, p.1 < t.vals.length) (hrv : ∀ p ∈ right.vars, p.1 < t.vals.length)
    (h : newRel s t r left right = some (l, s', t', b)) :
    (∀ σ, RowsS t' σ → RowsS t σ) ∧
    (∀ σ, RowsS t σ → ∃ σ', RowsS t' σ' ∧ ∀ x, x < t.vals.length → σ' x = σ x) := by
  obtain ⟨e1, e2, -, -⟩ := relE_spec ht hl hr hlv hrv
  cases newRel_outcome h with
  | decidedExpr h0 hs' ht' hb =>
    subst ht'
    exact ⟨fun σ hσ => hσ, fun σ hσ => ⟨σ, hσ, fun _ _ => rfl⟩⟩
  | decidedSlack slack h0 hv h1 hs' hb =>
    obtain ⟨n1, n2⟩ := newVarLin_sem ht si e1 e2 hv
    exact ⟨fun σ hσ => (n1 σ hσ).1, n2⟩
  | cached slack h0 hv h1 hf hs' hb =>
    obtain ⟨n1, n2⟩ := newVarLin_sem ht si e1 e2 hv
    exact ⟨fun σ hσ => (n1 σ hσ).1, n2⟩
  | fresh slack t1 h0 hv h1 hf hl' hs' ht' hb =>
    subst ht'
    obtain ⟨n1, n2⟩ := newVarLin_sem ht si e1 e2 hv
    exact ⟨fun σ hσ => (n1 σ hσ).1, n2⟩

/-- an assertion registered for a SAT variable stays registered, unchanged -/
theorem newRel_asrtOf_stable {s : Sat} {t : Lra} {r : LRel} {left right : Lin} {l : Lit} {s' : Sat} {t' : Lra}
    {b : Option Nat} (h : newRel s t r left right = some (l, s', t', b)) {v : Nat} {a : LAsrt}
    (ha : t.asrtOf v = some a) : t'.asrtOf v = some a := by
  cases newRel_outcome h with
  | decidedExpr h0 hs' ht' hb => subst ht'; exact ha
  | decidedSlack slack h0 hv h1 hs' hb =>
    unfold asrtOf at ha ⊢; rw [(newVarLin_spec hv).2.1]; exact ha
  | cached slack h0 hv h1 hf hs' hb =>
    unfold asrtOf at ha ⊢; rw [(newVarLin_spec hv).2.1]; exact ha
  | fresh slack t1 h0 hv h1 hf hl' hs' ht' hb =>
    subst ht'
    have ha1 : t1.asrtOf v = some a := by
      unfold asrtOf at ha ⊢; rw [(newVarLin_spec hv).2.1]; exact ha
    exact asrtOf_append_old ha1

/-- `newRel` keeps the invariant of the tableau -/
theorem tabWF_newRel {s : Sat} {t : Lra} {r : LRel} {left right : Lin} {l : Lit} {s' : Sat} {t' : Lra}
    {b : Option Nat} (ht : TabWF t) (hl : left.WF) (hr : right.WF)
    (hlv : ∀ p ∈ left.vars, p.1 < t.vals.length) (hrv : ∀ p ∈ right.vars, p.1 < t.vals.length)
    (h : newRel s t r left right = some (l, s', t', b)) : TabWF t' := by
  obtain ⟨e1, e2, -, -⟩ := relE_spec ht hl hr hlv hrv
  cases newRel_outcome h with
  | decidedExpr h0 hs' ht' hb => subst ht'; exact ht
  | decidedSlack slack h0 hv h1 hs' hb => exact tabWF_newVarLin ht e1 e2 hv
  | cached slack h0 hv h1 hf hs' hb => exact tabWF_newVarLin ht e1 e2 hv
  | fresh slack t1 h0 hv h1 hf hl' hs' ht' hb =>
    subst ht'
    exact tabWF_congr (t := t1) rfl rfl rfl (tabWF_newVarLin ht e1 e2 hv)

end Lra
end Oratio
