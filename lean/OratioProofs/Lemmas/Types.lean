import OratioModel

namespace Oratio
open Types

/-- every element the walk visits is reachable from some element of the queue -/
theorem bfs_sound_queue (h : Hier) : ∀ (fuel : Nat) (q : List Nat) (u : Nat),
    u ∈ bfs h fuel q → ∃ t, t ∈ q ∧ Sub h t u := by
  intro fuel
  induction fuel with
  | zero => intro q u hu; simp [bfs] at hu
  | succ n ih =>
    intro q u hu
    cases q with
    | nil => simp [bfs] at hu
    | cons t q =>
      simp only [bfs, List.mem_cons] at hu
      rcases hu with rfl | hu
      · exact ⟨u, List.mem_cons_self, Sub.refl u⟩
      · obtain ⟨s, hs, hsu⟩ := ih _ _ hu
        rcases List.mem_append.1 hs with hs | hs
        · exact ⟨s, List.mem_cons_of_mem _ hs, hsu⟩
        · exact ⟨t, List.mem_cons_self, Sub.step hs hsu⟩

/-- membership after registering `i` with every type of `l` -/
theorem foldl_register_mem (i : Nat) : ∀ (l : List Nat) (st : Store) (x j : Nat),
    j ∈ (l.foldl (fun st u => fun x => if x = u then st x ++ [i] else st x) st) x ↔
      (j ∈ st x ∨ (j = i ∧ x ∈ l)) := by
  intro l
  induction l with
  | nil => intro st x j; simp
  | cons a l ih =>
    intro st x j
    rw [List.foldl_cons, ih]
    by_cases hx : x = a
    · subst hx
      simp only [if_true, List.mem_append, List.mem_cons, List.not_mem_nil, or_false, true_or, and_true]
      constructor
      · rintro (h | h)
        · exact h
        · exact Or.inr h.1
      · rintro (h | h)
        · exact Or.inl (Or.inl h)
        · exact Or.inl (Or.inr h)
    · simp [hx]

theorem newInstance_mem (h : Hier) (fuel : Nat) (st : Store) (t i x j : Nat) :
    j ∈ newInstance h fuel st t i x ↔ (j ∈ st x ∨ (j = i ∧ x ∈ bfs h fuel [t])) := by
  unfold newInstance
  exact foldl_register_mem i _ st x j

/-- sound half of the run invariant (no fuel assumption) -/
theorem run_from_sound (h : Hier) (fuel : Nat) : ∀ (ops : List (Nat × Nat)) (st : Store) (t i : Nat),
    i ∈ (ops.foldl (fun st op => newInstance h fuel st op.1 op.2) st) t →
      (i ∈ st t ∨ ∃ op, op ∈ ops ∧ op.2 = i ∧ Sub h op.1 t) := by
  intro ops
  induction ops with
  | nil => intro st t i hi; exact Or.inl hi
  | cons a ops ih =>
    intro st t i hi
    rw [List.foldl_cons] at hi
    rcases ih _ t i hi with h1 | ⟨op, hop, h2⟩
    · rcases (newInstance_mem h fuel st a.1 a.2 t i).1 h1 with h1 | ⟨h1, h3⟩
      · exact Or.inl h1
      · obtain ⟨s, hs, hsub⟩ := bfs_sound_queue h fuel [a.1] t h3
        rw [List.mem_singleton] at hs
        subst hs
        exact Or.inr ⟨a, List.mem_cons_self, h1.symm, hsub⟩
    · exact Or.inr ⟨op, List.mem_cons_of_mem _ hop, h2⟩

/-- later creations never remove -/
theorem run_from_keeps (h : Hier) (fuel : Nat) : ∀ (ops : List (Nat × Nat)) (st : Store) (t i : Nat),
    i ∈ st t → i ∈ (ops.foldl (fun st op => newInstance h fuel st op.1 op.2) st) t := by
  intro ops
  induction ops with
  | nil => intro st t i hi; exact hi
  | cons a ops ih =>
    intro st t i hi
    rw [List.foldl_cons]
    exact ih _ t i ((newInstance_mem h fuel st a.1 a.2 t i).2 (Or.inl hi))

/-- complete half of the run invariant -/
theorem run_from_complete (h : Hier) (fuel : Nat) : ∀ (ops : List (Nat × Nat)) (st : Store) (t i : Nat),
    (∀ op, op ∈ ops → ∀ u, Sub h op.1 u → u ∈ bfs h fuel [op.1]) →
    (∃ op, op ∈ ops ∧ op.2 = i ∧ Sub h op.1 t) →
      i ∈ (ops.foldl (fun st op => newInstance h fuel st op.1 op.2) st) t := by
  intro ops
  induction ops with
  | nil => intro st t i _ hex; obtain ⟨op, hop, _⟩ := hex; cases hop
  | cons a ops ih =>
    intro st t i hc hex
    rw [List.foldl_cons]
    obtain ⟨op, hop, h2, h3⟩ := hex
    rcases List.mem_cons.1 hop with rfl | hop
    · apply run_from_keeps
      exact (newInstance_mem h fuel st op.1 op.2 t i).2
        (Or.inr ⟨h2.symm, hc op List.mem_cons_self t h3⟩)
    · exact ih _ t i (fun o ho => hc o (List.mem_cons_of_mem _ ho)) ⟨op, hop, h2, h3⟩

end Oratio
