/-
C08N, part 2 (theory side): whatever a theory call does to the SAT core, it does by calling
`record` (the lemmas of unate / bound propagation in LRA, of the scan of the updated pairs in IDL /
RDL).  No hypothesis on the states.
-/
import OratioProofs.Lemmas.UndoNetSat
import OratioModel
import OratioProofs.Lemmas.LraExplAssert

namespace Oratio
open Sat

/-! ### linear arithmetic -/

namespace Lra

theorem asrtPropagateLb_rec (s : Sat) (t : Lra) (a : LAsrt) (xi : Nat) : RecTo s (asrtPropagateLb s t a xi).2 := by
  unfold asrtPropagateLb
  cases a.o <;> simp only <;> rcases s.value a.b with _ | _ | _ <;> simp only <;>
    first
      | exact RecTo.refl s
      | (split <;> first | exact RecTo.refl s | (dsimp only; exact RecTo.one s _))

theorem asrtPropagateUb_rec (s : Sat) (t : Lra) (a : LAsrt) (xi : Nat) : RecTo s (asrtPropagateUb s t a xi).2 := by
  unfold asrtPropagateUb
  cases a.o <;> simp only <;> rcases s.value a.b with _ | _ | _ <;> simp only <;>
    first
      | exact RecTo.refl s
      | (split <;> first | exact RecTo.refl s | (dsimp only; exact RecTo.one s _))

theorem scanLower_rec (t : Lra) (lbv : IR) (ex : List Lit) : ∀ (ws : List Nat) (s : Sat),
    RecTo s (scanLower t lbv ex s ws).2 := by
  intro ws
  induction ws with
  | nil => intro s; exact RecTo.refl s
  | cons b rest ih =>
    intro s
    unfold scanLower
    cases t.asrtOf b with
    | none => exact ih s
    | some a =>
      simp only
      cases a.o <;> simp only <;> rcases s.value a.b with _ | _ | _ <;> simp only <;>
        first
          | exact ih s
          | (split <;> first | exact RecTo.refl s | exact ih s | exact (RecTo.one s _).trans (ih _))

theorem scanUpper_rec (t : Lra) (ubv : IR) (ex : List Lit) : ∀ (ws : List Nat) (s : Sat),
    RecTo s (scanUpper t ubv ex s ws).2 := by
  intro ws
  induction ws with
  | nil => intro s; exact RecTo.refl s
  | cons b rest ih =>
    intro s
    unfold scanUpper
    cases t.asrtOf b with
    | none => exact ih s
    | some a =>
      simp only
      cases a.o <;> simp only <;> rcases s.value a.b with _ | _ | _ <;> simp only <;>
        first
          | exact ih s
          | (split <;> first | exact RecTo.refl s | exact ih s | exact (RecTo.one s _).trans (ih _))

theorem lowerPart_rec (s : Sat) (t : Lra) (x : Nat) (l : Lin) : RecTo s (lowerPart s t x l).2 := by
  unfold lowerPart
  split
  · exact RecTo.refl s
  · split
    · exact scanLower_rec _ _ _ _ _
    · exact RecTo.refl s

theorem upperPart_rec (s : Sat) (t : Lra) (x : Nat) (l : Lin) (f : Nat → Nat) : RecTo s (upperPart s t x l f).2 := by
  unfold upperPart
  split
  · exact RecTo.refl s
  · split
    · exact scanUpper_rec _ _ _ _ _
    · exact RecTo.refl s

theorem rowPropagateLb_rec (s : Sat) (t : Lra) (x v : Nat) : RecTo s (rowPropagateLb s t x v).2 := by
  unfold rowPropagateLb
  simp only
  split
  · exact lowerPart_rec _ _ _ _
  · exact upperPart_rec _ _ _ _ _

theorem rowPropagateUb_rec (s : Sat) (t : Lra) (x v : Nat) : RecTo s (rowPropagateUb s t x v).2 := by
  unfold rowPropagateUb
  simp only
  split
  · exact upperPart_rec _ _ _ _ _
  · exact lowerPart_rec _ _ _ _

theorem forAll_rec {f : Sat → Nat → Option (List Lit) × Sat} (hf : ∀ s w, RecTo s (f s w).2) :
    ∀ (ws : List Nat) (s : Sat), RecTo s (forAll f s ws).2 := by
  intro ws
  induction ws with
  | nil => intro s; exact RecTo.refl s
  | cons w rest ih =>
    intro s
    unfold forAll
    have h1 := hf s w
    cases hfw : f s w with
    | mk c s1 =>
      rw [hfw] at h1
      cases c with
      | some c => exact h1
      | none => exact h1.trans (ih s1)

theorem assertLower_rec (s : Sat) (t : Lra) (xi : Nat) (val : IR) (p : Lit) : RecTo s (assertLower s t xi val p).sat := by
  rcases assertLower_cases s t xi val p with ⟨_, e⟩ | ⟨_, _, e⟩ | ⟨_, _, r1, r2, e1, e2, ⟨c, _, e⟩ | ⟨_, e⟩⟩
  · rw [e]; exact RecTo.refl s
  · rw [e]; exact RecTo.refl s
  · rw [e]
    show RecTo s r1.2
    rw [e1]
    apply forAll_rec
    intro s b
    split
    · exact asrtPropagateLb_rec _ _ _ _
    · exact RecTo.refl _
  · rw [e]
    show RecTo s r2.2
    have h1 : RecTo s r1.2 := by
      rw [e1]
      apply forAll_rec
      intro s b
      split
      · exact asrtPropagateLb_rec _ _ _ _
      · exact RecTo.refl _
    refine h1.trans ?_
    rw [e2]
    exact forAll_rec (fun s x => rowPropagateLb_rec _ _ _ _) _ _

theorem assertUpper_rec (s : Sat) (t : Lra) (xi : Nat) (val : IR) (p : Lit) : RecTo s (assertUpper s t xi val p).sat := by
  rcases assertUpper_cases s t xi val p with ⟨_, e⟩ | ⟨_, _, e⟩ | ⟨_, _, r1, r2, e1, e2, ⟨c, _, e⟩ | ⟨_, e⟩⟩
  · rw [e]; exact RecTo.refl s
  · rw [e]; exact RecTo.refl s
  · rw [e]
    show RecTo s r1.2
    rw [e1]
    apply forAll_rec
    intro s b
    split
    · exact asrtPropagateUb_rec _ _ _ _
    · exact RecTo.refl _
  · rw [e]
    show RecTo s r2.2
    have h1 : RecTo s r1.2 := by
      rw [e1]
      apply forAll_rec
      intro s b
      split
      · exact asrtPropagateUb_rec _ _ _ _
      · exact RecTo.refl _
    refine h1.trans ?_
    rw [e2]
    exact forAll_rec (fun s x => rowPropagateUb_rec _ _ _ _) _ _

theorem propagateLit_rec (s : Sat) (t : Lra) (p : Lit) : RecTo s (propagateLit s t p).sat := by
  unfold propagateLit
  cases t.asrtOf p.var with
  | none => exact RecTo.refl s
  | some a =>
    simp only
    rcases s.value a.b with _ | _ | _ <;> simp only
    · exact RecTo.refl s
    · split
      · exact assertLower_rec _ _ _ _ _
      · exact assertUpper_rec _ _ _ _ _
    · split
      · exact assertUpper_rec _ _ _ _ _
      · exact assertLower_rec _ _ _ _ _

end Lra

/-! ### difference logic -/

namespace Dl
variable {α : Type} (O : DOps α)

theorem scanUpdates_rec (t : Dl α) : ∀ (ups : List (Nat × Nat)) (s : Sat), RecTo s (scanUpdates O s t ups) := by
  intro ups
  induction ups with
  | nil => intro s; exact RecTo.refl s
  | cons pr rest ih =>
    intro s
    unfold scanUpdates
    simp only
    refine RecTo.trans ?_ (ih _)
    generalize (lookupPair t.distConstrs pr).getD [] = cs
    induction cs generalizing s with
    | nil => exact RecTo.refl s
    | cons b cs ihc =>
      rw [List.foldl_cons]
      refine RecTo.trans ?_ (ihc _)
      split
      · exact RecTo.refl s
      · split
        · exact RecTo.refl s
        · split
          · exact RecTo.one s _
          · split
            · exact RecTo.one s _
            · exact RecTo.refl s

theorem propagateEdge_rec (s : Sat) (t : Dl α) (src dst : Nat) (dist : α) :
    RecTo s (propagateEdge O s t src dst dist).1 := by
  unfold propagateEdge
  exact scanUpdates_rec O _ _ _

theorem propagateLit_rec (s : Sat) (t : Dl α) (pl : Lit) {s' : Sat} {t' : Dl α}
    (he : propagateLit O s t pl = .inr (s', t')) : RecTo s s' := by
  unfold propagateLit at he
  split at he
  · cases he; exact RecTo.refl s
  · split at he
    · split at he
      · cases he
      · split at he
        · cases he; exact propagateEdge_rec O _ _ _ _ _
        · cases he; exact RecTo.refl s
    · split at he
      · cases he
      · split at he
        · cases he; exact propagateEdge_rec O _ _ _ _ _
        · cases he; exact RecTo.refl s
    · cases he; exact RecTo.refl s

end Dl

end Oratio
