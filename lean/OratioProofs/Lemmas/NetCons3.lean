/-
C07N: conservativity of `idl.new_distance`: every T-model of the old network extends (by a value for the
new constraint variable) to a T-model of the extended network.  So a `TUnsat` statement about the
extended network is not vacuous with respect to the old one.
-/
import OratioProofs.Lemmas.NetBj

set_option linter.unusedSimpArgs false
set_option linter.unusedVariables false

namespace Oratio
namespace Net
open Sat

theorem lit_congr {α α' : Asg} {l : Lit} (h : α' l.var = α l.var) : α'.lit l = α.lit l := by
  unfold Asg.lit; rw [h]

theorem NetInv.idlNewDistance_conservative {n : Net} {orig L : Cnf} {fr : List Frame} (h : NetInv n orig L fr)
    (f g : Nat) (w : Int) (α : Asg) (hm : TModel n α) :
    ∃ α' : Asg, (∀ v, v < n.sat.vals.length → α' v = α v) ∧ TModel (idlNewDistance n f g w).2 α' := by
  have hkey : Lra.AsrtKey n.lra := h.th.base.lra.key
  obtain ⟨σr, σi, σz, σq, m1, m2, m3, m4⟩ := hm
  rcases newDistance_cases idlOps n.sat n.idl f g w with ⟨_, e⟩ | ⟨_, e, _⟩
  · refine ⟨α, fun _ _ => rfl, σr, σi, σz, σq, m1, m2, ?_, m4⟩
    show Dl.Agrees (Dl.newDistance idlOps n.sat n.idl f g w).2.2 σz α
    rw [e]; exact m3
  · let α' : Asg := fun v => if v = n.sat.vals.length then decide (σz g - σz f ≤ w) else α v
    have hold : ∀ v, v < n.sat.vals.length → α' v = α v := by
      intro v hv
      show (if v = n.sat.vals.length then decide (σz g - σz f ≤ w) else α v) = α v
      rw [if_neg (by omega)]
    refine ⟨α', hold, σr, σi, σz, σq, m1, ?_, ?_, ?_⟩
    · intro e' he'
      have hb : e'.2.b = ⟨e'.1, true⟩ := hkey e' he'
      have hl : α'.lit e'.2.b = α.lit e'.2.b := lit_congr (by rw [hb]; exact hold _ (h.reg.lra e' he'))
      have := m2 e' he'
      rw [hl]; exact this
    · show Dl.Agrees (Dl.newDistance idlOps n.sat n.idl f g w).2.2 σz α'
      intro c hc
      rw [e] at hc
      rcases List.mem_append.1 hc with hc | hc
      · rw [hold _ (h.reg.idl c hc)]; exact m3 c hc
      · rw [List.mem_singleton.1 hc]
        have hnew : α' n.sat.vals.length = decide (σz g - σz f ≤ w) := by
          show (if n.sat.vals.length = n.sat.vals.length then _ else _) = _
          rw [if_pos rfl]
        constructor
        · intro ht
          show σz g - σz f ≤ w
          rw [hnew] at ht; simpa using ht
        · intro hf
          show σz f - σz g ≤ -w - 1
          rw [hnew] at hf
          have : ¬ (σz g - σz f ≤ w) := by simpa using hf
          omega
    · intro c hc
      rw [hold _ (h.reg.rdl c hc)]; exact m4 c hc

end Net
end Oratio
