/-
C07NC_neg2: `Net.propagate` under the bounded invariant, with the additional guarantee that the standing decisions
of the result are a SUFFIX of those at the start (`PropOutD.decs`); copies of `NetInvB.learn` / `propagate_invB`
(Lemmas/NetCheckA.lean) with that component added.  Then the loop of `check` for the exit "literal already false"
in any round.
-/
import OratioProofs.Lemmas.NetCheckC

set_option linter.unusedSimpArgs false
set_option linter.unusedVariables false

namespace Oratio
namespace NetCheck
open Sat Net

/-- conflict analysis keeps the bounded invariant (`NetInv.learn`) -/
theorem NetInvB.learnD {m : Nat} {n n' : Net} {orig L : Cnf} {fr : List Frame} {cnfl : Clause} (h : NetInvB m n orig L fr)
    (hq : n.sat.queue = []) (hL : 0 < n.sat.decisionLevel) (hT : TEntails n orig cnfl)
    (hcF : ∀ l ∈ cnfl, n.sat.value l = some false)
    (hcL : ∃ l ∈ cnfl, l.neg ∈ n.sat.trail ∧ n.sat.lvl l = n.sat.decisionLevel)
    (hl : learnFrom n cnfl = some n') :
    ∃ fr', NetInvB m n' orig (L ++ [cnfl]) fr' ∧ n'.sat.dead = n.sat.dead ∧ (∀ α, TModel n' α ↔ TModel n α) ∧
      n'.sat.decisionLevel < n.sat.decisionLevel ∧ n'.sat.decisions <:+ n.sat.decisions := by
  have h1 := h.addLemma cnfl hT
  unfold learnFrom at hl
  split at hl
  · cases hl
  · rename_i noGood bt s3 han
    obtain ⟨r1, r2, r3, r4, r5, r6, r7, r8, r9, r10, r11, r12, r13, r14, r15⟩ :=
      h1.sat.learnS hq hL cnfl (ents_last cnfl) (fun l hl' => h.sat.wf.a.value_false.1 (hcF l hl')) hcL noGood bt s3 han
    have heq := learnFrom_eq r11 hl
    rw [r12] at heq r1 r3 r4 r5 r6 r8 r9 r10
    have hcongr : ∀ α, TModel n' α ↔ TModel n α := by
      intro α
      rw [heq]
      exact (TModel.congr (n := Net.popTo n bt) (n' := { Net.popTo n bt with sat := (n.sat.popTo bt).record noGood })
        (LraSame.refl _) rfl rfl α).trans (TModel.popTo n bt α)
    have hsat : n'.sat = (n.sat.popTo bt).record noGood := by rw [heq]
    obtain ⟨fr', t1, t2, t3⟩ := ThInv.popTo_goLv bt n.sat.decisionLevel n fr h1.th h.sat.wf hq h.flv h.flen
    have hps : (Net.popTo n bt).sat = n.sat.popTo bt := popTo_sat n bt
    have hkeep : AssignedKeep (n.sat.popTo bt) ((n.sat.popTo bt).record noGood) :=
      assignedKeep_of_trail r13 r1.wf.lvl0 (Dl.record_le _ _) r14
    refine ⟨fr', ⟨by rw [hsat]; exact r1, fun c hc => TEntails.congr (fun α hm => (hcongr α).1 hm) (h1.lemmas c hc),
      ?_, ?_, ?_, ?_⟩, by rw [hsat]; exact r4, hcongr, by rw [hsat, r6]; exact r7, by rw [hsat]; exact r5⟩
    · rw [heq]
      exact ThInv.assign (n := Net.popTo n bt) t1 _ (by
        show Dl.SatLe (Net.popTo n bt).sat _
        rw [hps]; exact Dl.record_le _ _)
    · rw [hsat]
      exact FramesLv.keep hkeep fr' (by
        have : FramesLv (Net.popTo n bt).sat fr' := t2
        rw [hps] at this; exact this)
    · rw [hsat, r6]
      have : fr'.length = (Net.popTo n bt).sat.decisionLevel := t3
      rw [this, hps, Sat.popTo_level]; omega
    · rw [heq]
      show ThReg ((n.sat.popTo bt).record noGood).vals.length (Net.popTo n bt).lra (Net.popTo n bt).idl (Net.popTo n bt).rdl
      rw [r8]
      exact ThReg.popTo_go bt _ n h.reg

/-- what `propagate` guarantees, bounded; also: the decision level does not grow -/
structure PropOutD (m : Nat) (n n' : Net) (orig : Cnf) (b : Bool) : Prop where
  inv : ∃ L' fr', NetInvB m n' orig L' fr'
  queue : n'.sat.queue = []
  dead : n'.sat.dead = !b
  root : b = false → n'.sat.trailLim = []
  tm : ∀ α, TModel n' α ↔ TModel n α
  decs : n'.sat.decisions <:+ n.sat.decisions

theorem PropOutD.trans {m : Nat} {n n1 n' : Net} {orig : Cnf} {b : Bool} (h : PropOutD m n1 n' orig b)
    (ht : ∀ α, TModel n1 α ↔ TModel n α) (hdc : n1.sat.decisions <:+ n.sat.decisions) : PropOutD m n n' orig b :=
  ⟨h.inv, h.queue, h.dead, h.root, fun α => (h.tm α).trans (ht α), h.decs.trans hdc⟩

/-- `Net.propagate` keeps the bounded invariant (`propagate_inv`) -/
theorem propagate_invD {m : Nat} {orig : Cnf} : ∀ (fuel : Nat) (n : Net) (L : Cnf) (fr : List Frame),
    NetInvB m n orig L fr → n.sat.dead = false → ConflictsCurrent n fuel → ∀ b n', propagate n fuel = some (b, n') →
    PropOutD m n n' orig b
  | 0, n, L, fr, _, _, _, b, n', he => by simp [Net.propagate] at he
  | fuel + 1, n, L, fr, h, hd, hg, b, n', he => by
    unfold Net.propagate at he
    unfold ConflictsCurrent at hg
    cases hq : n.sat.queue with
    | nil =>
      rw [hq] at he hg
      simp only at he hg
      cases hchk : n.lra.check fuel with
      | none => rw [hchk] at he; simp at he
      | some res =>
        obtain ⟨c, t⟩ := res
        rw [hchk] at he hg
        obtain ⟨k1, k2, k3⟩ := lraCheck_spec h.th hchk
        have hinv1 : NetInvB m { n with lra := t } orig L fr :=
          ⟨h.sat, fun d hd' => TEntails.congr (fun α hm => (k2 α).1 hm) (h.lemmas d hd'), k1, h.flv, h.flen,
            ⟨by
              show ∀ e ∈ t.vAsrts, e.1 < n.sat.vals.length
              rw [((Lra.C09_core_iff n.lra t).1 (Lra.C09_core_check fuel n.lra t c hchk)).2.1]; exact h.reg.lra,
             h.reg.idl, h.reg.rdl, Lra.check_good fuel n.lra t c h.reg.good hchk,
             by rw [Lra.check_aWatches h.th.base.lra.inv.tab hchk]; exact h.reg.aw,
             by rw [((Lra.C09_core_iff n.lra t).1 (Lra.C09_core_check fuel n.lra t c hchk)).2.2.2.2]; exact h.reg.sa⟩⟩
        cases c with
        | none =>
          simp only [Option.some.injEq, Prod.mk.injEq] at he
          obtain ⟨rfl, rfl⟩ := he
          exact ⟨⟨L, fr, hinv1⟩, hq, by simpa using hd, (fun e => by cases e), k2, List.suffix_refl _⟩
        | some cnfl =>
          simp only at he hg
          obtain ⟨c1, c2⟩ := k3 cnfl rfl
          by_cases hroot : n.sat.rootLevel = true
          · rw [if_pos hroot] at he
            simp only [Option.some.injEq, Prod.mk.injEq] at he
            obtain ⟨rfl, rfl⟩ := he
            have := hinv1.rootConflict (TEntails.cut hinv1.lemmas c1) c2 ((rootLevel_iff _).1 hroot)
            exact ⟨⟨_, _, this⟩, hq, rfl, fun _ => (rootLevel_iff _).1 hroot, k2, List.suffix_refl _⟩
          · rw [if_neg hroot] at he hg
            obtain ⟨g1, g2⟩ := hg
            cases hlf : learnFrom { n with lra := t } cnfl with
            | none => rw [hlf] at he; simp at he
            | some n1 =>
              rw [hlf] at he g2
              simp only at he g2
              obtain ⟨fr', l1, l2, l3, _, l5⟩ := hinv1.learnD hq (dl_pos_of_not_root hroot) (TEntails.cut hinv1.lemmas c1) c2 g1 hlf
              exact (propagate_invD fuel n1 _ fr' l1 (by rw [l2]; exact hd) g2 b n' he).trans
                (fun α => (l3 α).trans (k2 α)) l5
    | cons p q =>
      rw [hq] at he hg
      simp only at he hg
      have hpq := h.sat.wf.a.queueOK p (by rw [hq]; exact List.mem_cons_self ..)
      -- the state with the watch list of `p` detached
      have hs0 : SInvB m (orig ++ L) orig { n.sat with queue := q, watches := n.sat.watches.set p.idx [] } := by
        refine ⟨h.sat.wf.setWatchesQ _ q (fun x hx => by rw [hq]; exact List.mem_cons_of_mem _ hx) ?_,
          h.sat.ent.of_eq rfl rfl rfl rfl rfl rfl, h.sat.dec⟩
        intro i id hid
        rw [getD_set] at hid
        split at hid
        · cases hid
        · exact h.sat.wf.w i id hid
      have htmp : ∀ id ∈ n.sat.watches.getD p.idx [], ∃ c, (id, c) ∈ n.sat.cls ∧ p.neg ∈ c := by
        intro id hid
        obtain ⟨c, hc, l, hl, hi⟩ := h.sat.wf.w _ id hid
        have : l.neg = p := Lit.idx_inj hi
        exact ⟨c, hc, by rw [← this, Lit.neg_neg]; exact hl⟩
      obtain ⟨v1, v2, v3, v4⟩ := visit_sound (orig := orig ++ L) (K := orig) (p := p) _ _ hs0.wf hs0.ent hpq.1 htmp
      rcases hvw : Sat.visitWatchers { n.sat with queue := q, watches := n.sat.watches.set p.idx [] } p
        (n.sat.watches.getD p.idx []) with ⟨s1, oid⟩
      rw [hvw] at he hg v1 v2 v3 v4
      simp only at v1 v2 v3 v4
      have hs1 : SInvB m (orig ++ L) orig s1 := ⟨v1, v2, hs0.dec.step v3⟩
      have hk1 : AssignedKeep n.sat s1 := assignedKeep_of_trail h.sat.wf v1.lvl0 v3.le v3.lvl
      have hinv1 : NetInvB m { n with sat := s1 } orig L fr := h.setSat s1 hs1 hk1 v3.frame.trailLim v3.frame.lenVals
      have hd1 : s1.dead = false := by rw [v3.frame.dead]; exact hd
      have hsd : s1.decisions = n.sat.decisions := v3.frame.decisions
      have hp1 : p ∈ s1.trail := v3.trail.subset hpq.1
      have hpl1 : s1.lvl p = s1.decisionLevel := by
        have e1 : s1.lvl p = n.sat.lvl p := v3.lvl p hpq.1
        rw [e1, hpq.2]
        show n.sat.trailLim.length = s1.trailLim.length
        rw [v3.frame.trailLim]
      cases oid with
      | some id =>
        simp only at he hg
        obtain ⟨w1, c, w2, w3, w4⟩ := v4 id rfl
        have hcl : s1.clauseOf id = c := clauseOf_of_mem' v1.ids w2
        have hT : TEntails { n with sat := s1 } orig c := tentails_of_ents' hinv1.lemmas (v2.clauses _ w2)
        by_cases hroot : s1.rootLevel = true
        · rw [if_pos hroot] at he
          simp only [Option.some.injEq, Prod.mk.injEq] at he
          obtain ⟨rfl, rfl⟩ := he
          have := hinv1.rootConflict hT w4 ((rootLevel_iff _).1 hroot)
          exact ⟨⟨_, _, this⟩, w1, rfl, fun _ => (rootLevel_iff _).1 hroot, fun _ => Iff.rfl, by
            show s1.decisions <:+ _; rw [hsd]⟩
        · rw [if_neg hroot, hcl] at he hg
          cases hlf : learnFrom { n with sat := s1 } c with
          | none => rw [hlf] at he; simp at he
          | some n1 =>
            rw [hlf] at he hg
            simp only at he hg
            obtain ⟨fr', l1, l2, l3, _, l5⟩ := hinv1.learnD w1 (dl_pos_of_not_root hroot) hT w4
              ⟨p.neg, w3, by rw [Lit.neg_neg]; exact hp1, hpl1⟩ hlf
            exact (propagate_invD fuel n1 _ fr' l1 (by rw [l2]; exact hd1) hg b n' he).trans (fun α => l3 α) (by
              have : n1.sat.decisions <:+ s1.decisions := l5
              rw [hsd] at this; exact this)
      | none =>
        simp only at he hg
        have hpv : ({ n with sat := s1 } : Net).sat.value p = some true := v1.a.value_true.2 (Or.inl hp1)
        obtain ⟨t1, t2, t3, t4, t5⟩ := theoryPropagate_spec hinv1.th p hpv
        obtain ⟨⟨new, hrecs⟩, hpc, hreg2⟩ := theoryPropagate_recs hinv1.th hinv1.reg p hpv
        rcases htp : theoryPropagate { n with sat := s1 } p with ⟨oc, n2⟩
        rw [htp] at he hg t1 t2 t3 t4 t5 hrecs hpc hreg2
        simp only at t1 t2 t3 t4 t5 hrecs hpc hreg2
        -- the SAT core after the records
        have hs1' : SInvB m (orig ++ (L ++ new)) orig s1 := hs1.mono_orig (fun d hd' => by
          rcases List.mem_append.1 hd' with hd' | hd'
          · exact List.mem_append_left _ hd'
          · exact List.mem_append_right _ (List.mem_append_left _ hd'))
        obtain ⟨r1, r2⟩ := hs1'.recs hrecs (fun c hc =>
          Ents.of_mem (List.mem_append_right _ (List.mem_append_right _ hc)))
        have hlemL : ∀ c ∈ L, TEntails n2 orig c := fun c hc =>
          TEntails.congr (fun α hm => (t3 α).1 hm) (hinv1.lemmas c hc)
        have hlem2 : ∀ c ∈ L ++ new, TEntails n2 orig c := by
          intro c hc
          rcases List.mem_append.1 hc with hc | hc
          · exact hlemL c hc
          · rcases t4 c (by rw [r2.log]; exact List.mem_append_right _ hc) with h' | h'
            · exact TEntails.congr (fun α hm => (t3 α).1 hm) (tentails_of_ents' hinv1.lemmas (v2.log c h'))
            · exact TEntails.cut hlemL h'
        have hinv2 : NetInvB m n2 orig (L ++ new) fr :=
          ⟨r1, hlem2, t1.mono_origN (fun d hd' => by
              rcases List.mem_append.1 hd' with hd' | hd'
              · exact List.mem_append_left _ hd'
              · exact List.mem_append_right _ (List.mem_append_left _ hd')), FramesLv.keep r2.keep fr hinv1.flv, by
            show fr.length = n2.sat.trailLim.length
            rw [r2.trailLim]; exact hinv1.flen, hreg2⟩
        have hd2 : n2.sat.dead = false := by rw [r2.dead]; exact hd1
        have hsd2 : n2.sat.decisions = n.sat.decisions := by rw [r2.decisions, hsd]
        cases oc with
        | none =>
          simp only at he hg
          exact (propagate_invD fuel n2 _ fr hinv2 hd2 hg b n' he).trans (fun α => t3 α) (by rw [hsd2])
        | some cnfl =>
          simp only at he hg
          obtain ⟨u1, u2⟩ := t5 cnfl rfl
          have hs3 : SInvB m (orig ++ (L ++ new)) orig { n2.sat with queue := [] } :=
            ⟨r1.wf.queue_sub [] (fun x hx => by cases hx), r1.ent.of_eq rfl rfl rfl rfl rfl rfl, r1.dec⟩
          have hinv3 : NetInvB m { n2 with sat := { n2.sat with queue := [] } } orig (L ++ new) fr :=
            hinv2.setSat _ hs3 (fun v b hv => ⟨hv, rfl⟩) rfl rfl
          split at he
          · rename_i hroot'
            have hroot : n2.sat.rootLevel = true := hroot'
            simp only [Option.some.injEq, Prod.mk.injEq] at he
            obtain ⟨rfl, rfl⟩ := he
            have := hinv3.rootConflict (c := cnfl) (TEntails.cut hlemL u1) u2 ((rootLevel_iff _).1 hroot)
            exact ⟨⟨_, _, this⟩, rfl, rfl, fun _ => (rootLevel_iff _).1 hroot, fun α => t3 α, by
              show n2.sat.decisions <:+ _; rw [hsd2]⟩
          · rename_i hroot'
            have hroot : ¬ n2.sat.rootLevel = true := hroot'
            rw [if_neg hroot] at hg
            have g2 := hg
            have g1 : HasCurrent ({ n2 with sat := { n2.sat with queue := [] } } : Net).sat cnfl := by
              refine ⟨p.neg, hpc cnfl rfl, ?_, ?_⟩
              · rw [Lit.neg_neg]; exact r2.trail.subset hp1
              · have hpa : s1.vals.getD p.var none = some p.sign := value_eq_true.1 hpv
                have hk := (r2.keep p.var p.sign hpa).2
                show n2.sat.level.getD p.neg.var 0 = n2.sat.trailLim.length
                rw [show p.neg.var = p.var from rfl, hk, r2.trailLim]
                exact hpl1
            cases hlf : learnFrom { n2 with sat := { n2.sat with queue := [] } } cnfl with
            | none => rw [hlf] at he; simp at he
            | some n3 =>
              rw [hlf] at he g2
              simp only at he g2
              obtain ⟨fr', l1, l2, l3, _, l5⟩ := hinv3.learnD rfl (dl_pos_of_not_root hroot) (TEntails.cut hlemL u1) u2 g1 hlf
              exact (propagate_invD fuel n3 _ fr' l1 (by rw [l2]; exact hd2) g2 b n' he).trans
                (fun α => (l3 α).trans (t3 α)) (by
                  have : n3.sat.decisions <:+ n2.sat.decisions := l5
                  rw [hsd2] at this; exact this)


theorem tunsat_congr {n n' : Net} {F : Cnf} (h : TUnsat n' F) (ht : ∀ α, TModel n' α ↔ TModel n α) : TUnsat n F :=
  fun α h0 hm => h α h0 ((ht α).2 hm)

theorem unitsOf_sub {A B : List Lit} (h : ∀ x ∈ A, x ∈ B) : ∀ d ∈ unitsOf A, d ∈ unitsOf B := by
  intro d hd
  simp only [unitsOf, List.mem_map] at hd ⊢
  obtain ⟨x, hx, rfl⟩ := hd
  exact ⟨x, h x hx, rfl⟩

/-- `assume(p)` under the bounded invariant, with the decisions and the meaning of the answer `false` -/
theorem assume_anyD {m : Nat} {n : Net} {orig L : Cnf} {fr : List Frame} (h : NetInvB m n orig L fr)
    (hq : n.sat.queue = []) (hd : n.sat.dead = false) (hm : m ≤ n.sat.decisionLevel) (p : Lit) (hp : p.var < n.sat.nvars)
    (fuel : Nat) (hg : n.sat.value p ≠ some false → ConflictsCurrent (startOf n p) fuel) (b : Bool) (n' : Net)
    (he : n.assume p fuel = some (b, n')) :
    (∃ L' fr', NetInvB m n' orig L' fr') ∧ n'.sat.queue = [] ∧ (b = true → n'.sat.dead = false) ∧
      (∀ α, TModel n' α ↔ TModel n α) ∧ n'.sat.decisions <:+ p :: n.sat.decisions ∧
      (b = false → n.sat.value p = some false ∨ TUnsat n orig) := by
  have key : ∀ st : Net, (∀ α, TModel st α ↔ TModel n α) → st.sat.decisions = p :: n.sat.decisions →
      PropOutD m st n' orig b →
      (∃ L' fr', NetInvB m n' orig L' fr') ∧ n'.sat.queue = [] ∧ (b = true → n'.sat.dead = false) ∧
      (∀ α, TModel n' α ↔ TModel n α) ∧ n'.sat.decisions <:+ p :: n.sat.decisions ∧
      (b = false → TUnsat n orig) := by
    intro st hst hdc r
    have tm : ∀ α, TModel n' α ↔ TModel n α := fun α => (r.tm α).trans (hst α)
    refine ⟨r.inv, r.queue, fun hb => by rw [r.dead, hb]; rfl, tm, by rw [← hdc]; exact r.decs, fun hb => ?_⟩
    obtain ⟨L', fr', hi⟩ := r.inv
    exact tunsat_congr (hi.sound.dead (by rw [r.dead, hb]; rfl)) tm
  cases hv : n.sat.value p with
  | none =>
    have hg' := hg (by rw [hv]; intro e; cases e)
    rw [startOf_none hv] at hg'
    rw [assume_eq hv] at he
    obtain ⟨k1, k2, k3, k4, k5, k6⟩ :=
      key _ (fun α => tmodel_push n _ α) rfl (propagate_invD fuel _ _ _ (h.atAssume hq hm hv hp) hd hg' b n' he)
    exact ⟨k1, k2, k3, k4, k5, fun hb => Or.inr (k6 hb)⟩
  | some v =>
    cases v with
    | true =>
      have hg' := hg (by rw [hv]; intro e; cases e)
      rw [startOf_some hv] at hg'
      rw [assume_true hv] at he
      obtain ⟨k1, k2, k3, k4, k5, k6⟩ :=
        key _ (fun α => tmodel_push n _ α) rfl (propagate_invD fuel _ _ _ (h.pushStart hq hm p) hd hg' b n' he)
      exact ⟨k1, k2, k3, k4, k5, fun hb => Or.inr (k6 hb)⟩
    | false =>
      rw [assume_false hv] at he
      simp only [Option.some.injEq, Prod.mk.injEq] at he
      obtain ⟨rfl, rfl⟩ := he
      exact ⟨⟨_, _, h.pushStart hq hm p⟩, hq, (fun e => by cases e), (fun α => tmodel_push n _ α), List.suffix_refl _,
        fun _ => Or.inl rfl⟩

/-- "exit E3 is not taken": in every round in which both `assume` and the `propagate` after it answer `true`, the
    decision level has grown (same recursion as the loop of `check`) -/
def NoLevelDrop (fuel : Nat) : Net → List Lit → Prop
  | _, [] => True
  | n, p :: ps => ∀ n1, n.assume p fuel = some (true, n1) → ∀ n2, n1.propagate fuel = some (true, n2) →
      n.sat.decisionLevel < n2.sat.decisionLevel ∧ NoLevelDrop fuel n2 ps

/-- the loop of `check`, answer `false`, when exit E3 is not taken -/
theorem go_neg {orig : Cnf} (fuel rl : Nat) (D0 : List Lit) : ∀ (ls done : List Lit) (n : Net) (L : Cnf) (fr : List Frame),
    NetInvB rl n orig L fr → n.sat.queue = [] → n.sat.dead = false → rl ≤ n.sat.decisionLevel →
    CheckGuard fuel n ls → NoLevelDrop fuel n ls → (∀ d ∈ n.sat.decisions, d ∈ D0 ∨ d ∈ done) →
    ∀ n', Net.check.go fuel rl n ls = some (false, n') → TUnsat n (orig ++ unitsOf D0 ++ unitsOf (done ++ ls))
  | [], done, n, L, fr, h, hq, _, _, _, _, _, n', he => by
    unfold Net.check.go at he
    simp at he
  | p :: ps, done, n, L, fr, h, hq, hd, hm, hg, hnd, hdec, n', he => by
    unfold Net.check.go at he
    unfold CheckGuard at hg
    unfold NoLevelDrop at hnd
    obtain ⟨g0, g1, g2⟩ := hg
    have hsub0 : ∀ d ∈ orig, d ∈ orig ++ unitsOf D0 ++ unitsOf (done ++ p :: ps) :=
      fun d hd' => List.mem_append_left _ (List.mem_append_left _ hd')
    cases ha : n.assume p fuel with
    | none => rw [ha] at he; simp at he
    | some res =>
      obtain ⟨b1, n1⟩ := res
      rw [ha] at he g2
      obtain ⟨⟨L1, fr1, i1⟩, q1, d1, t1, s1, f1⟩ := assume_anyD h hq hd hm p g0 fuel g1 b1 n1 ha
      cases b1 with
      | false =>
        rcases f1 rfl with hv | hu
        · refine tunsat_mono (round_false_unsat h hv ps) (fun d hd' => ?_)
          rcases List.mem_append.1 hd' with hd' | hd'
          · rcases List.mem_append.1 hd' with hd' | hd'
            · exact hsub0 d hd'
            · have : d ∈ unitsOf (D0 ++ done) := unitsOf_sub (fun x hx => by
                rcases hdec x hx with h' | h'
                · exact List.mem_append_left _ h'
                · exact List.mem_append_right _ h') d hd'
              simp only [unitsOf, List.map_append, List.mem_append] at this ⊢
              rcases this with h' | h'
              · exact Or.inl (Or.inr h')
              · exact Or.inr (Or.inl h')
          · exact List.mem_append_right _ (unitsOf_sub (fun x hx => List.mem_append_right _ hx) d hd')
        · exact tunsat_mono hu hsub0
      | true =>
        simp only at he g2
        obtain ⟨g3, g4⟩ := g2
        cases hpr : n1.propagate fuel with
        | none => rw [hpr] at he; simp at he
        | some res2 =>
          obtain ⟨b2, n2⟩ := res2
          rw [hpr] at he g4
          have r := propagate_invD fuel n1 L1 fr1 i1 (d1 rfl) g3 b2 n2 hpr
          obtain ⟨L2, fr2, i2⟩ := r.inv
          have t2 : ∀ α, TModel n2 α ↔ TModel n α := fun α => (r.tm α).trans (t1 α)
          cases b2 with
          | false =>
            exact tunsat_mono (tunsat_congr (i2.sound.dead (by rw [r.dead]; rfl)) t2) hsub0
          | true =>
            simp only at he g4
            obtain ⟨hlt, hnd2⟩ := hnd n1 ha n2 hpr
            rw [if_neg (by omega)] at he
            have hdec2 : ∀ d ∈ n2.sat.decisions, d ∈ D0 ∨ d ∈ done ++ [p] := by
              intro d hd'
              have := (r.decs.trans s1).subset hd'
              rcases List.mem_cons.1 this with rfl | h'
              · exact Or.inr (by simp)
              · rcases hdec d h' with h'' | h''
                · exact Or.inl h''
                · exact Or.inr (List.mem_append_left _ h'')
            have := go_neg fuel rl D0 ps (done ++ [p]) n2 L2 fr2 i2 r.queue (by rw [r.dead]; rfl) (by omega)
              (g4 hlt) hnd2 hdec2 n' he
            have e : done ++ [p] ++ ps = done ++ p :: ps := by simp
            rw [e] at this
            exact tunsat_congr this t2

end NetCheck
end Oratio
