/-
C07N: backtracking (`pop`, `popTo`) keeps the weak well-formedness `WfS`.  `WfS.pop` is the proof of
`Wf.pop` (C07) with the clause / watch components replaced; `Ent.popA`, `DecOK.popA`, `PopRel.popA`
are C07's `Ent.pop`, `DecOK.pop`, `PopRel.pop`, which only use the `WfA` component.
-/
import OratioProofs.Lemmas.NetSatVisit

set_option linter.unusedSimpArgs false
set_option linter.unusedVariables false

namespace Oratio
namespace Sat

theorem WfS.pop {s : Sat} (h : s.WfS) (hq : s.queue = []) : s.pop.WfS := by
  cases hl : s.trailLim with
  | nil => rw [pop_root hl]; exact h
  | cons lim lims =>
    obtain ⟨hp, hlim, hdec⟩ := pop_spec hl
    have ha := h.a
    have hlimle : lim ≤ s.trail.length := ha.limLe lim (by rw [hl]; exact List.mem_cons_self ..)
    generalize hk : s.trail.length - lim = k at hp
    have hlen : (s.trail.drop k).length = lim := by simp only [List.length_drop]; omega
    have hsuf : s.trail.drop k <:+ s.trail := List.drop_suffix _ _
    have hkeep : ∀ x ∈ s.trail.drop k, s.pop.vals.getD x.var none = s.vals.getD x.var none ∧
        s.pop.lvl x = s.lvl x ∧ s.pop.reason.getD x.var none = s.reason.getD x.var none := by
      intro x hx
      have := hp.keep_lit ha (Or.inl hx)
      exact ⟨by
        have hnd := ha.trailNodup
        rw [← List.take_append_drop k s.trail, List.map_append, List.nodup_append] at hnd
        exact (hp.keep x.var (fun p hp' e =>
          hnd.2.2 _ (List.mem_map.2 ⟨p, hp', rfl⟩) _ (List.mem_map.2 ⟨x, hx, rfl⟩) e)).1, this.2.1, this.2.2⟩
    refine ⟨⟨?_, ?_, ?_, ?_, ?_, ?_, ?_, ?_, ?_, ?_, ?_, ?_, ?_⟩,
      by rw [(hp.keep 0 (fun p hp' => (ha.trailVal p (List.mem_of_mem_take hp')).2)).2.1]; exact h.lvl0,
      by rw [hp.cls, hp.nextId]; exact h.idlt,
      by rw [hp.cls]; exact h.ids, by rw [hp.cls, hp.lenVals]; exact h.rng, ?_, by rw [hp.watches, hp.cls]; exact h.w⟩
    · rw [hp.lenLevel, hp.lenVals]; exact ha.lenLevel
    · rw [hp.lenReason, hp.lenVals]; exact ha.lenReason
    · have := (hp.keep 0 (fun p hp' => (ha.trailVal p (List.mem_of_mem_take hp')).2)).1
      rw [this]; exact ha.val0
    · intro l hl'
      rw [hp.trail] at hl'
      rw [(hkeep l hl').1]
      exact ha.trailVal l (hsuf.subset hl')
    · rw [hp.trail]
      exact (ha.trailNodup.sublist ((List.drop_sublist _ _).map _))
    · intro v b hv
      by_cases hm : ∃ p ∈ s.trail.take k, p.var = v
      · obtain ⟨p, hp', rfl⟩ := hm
        rw [hp.gone p hp'] at hv; cases hv
      · have := (hp.keep v (fun p hp' e => hm ⟨p, hp', e⟩)).1
        rw [this] at hv
        rcases ha.valTrail v b hv with h0 | ht
        · exact Or.inl h0
        · right
          rw [hp.trail]
          rw [← List.take_append_drop k s.trail] at ht
          rcases List.mem_append.1 ht with ht | ht
          · exact absurd ⟨_, ht, rfl⟩ hm
          · exact ht
    · rw [hlim, hdec, List.length_drop, ha.decLen, hl]; simp
    · intro x hx
      rw [hlim] at hx
      rw [hp.trail, hlen]
      exact ha.lim_ge hl x hx
    · rw [hlim]
      have := ha.limSorted
      rw [hl, List.pairwise_cons] at this
      exact this.2
    · intro l b hs
      rw [hp.trail] at hs
      have hl' : l ∈ s.trail.drop k := hs.subset (List.mem_cons_self ..)
      rw [(hkeep l hl').2.1, ha.levelOK l b (hs.trans hsuf), hl, hlim]
      have hb : b.length < lim := by
        have := hs.length_le
        simp only [List.length_cons, hlen] at this
        omega
      simp only [List.filter_cons]
      have : ¬ (lim ≤ b.length) := by omega
      simp [this]
    · rw [hp.queue, hq]; intro p hp'; cases hp'
    · intro l b hs hr
      rw [hp.trail] at hs
      have hl' : l ∈ s.trail.drop k := hs.subset (List.mem_cons_self ..)
      rw [(hkeep l hl').2.2] at hr
      rw [(hkeep l hl').2.1]
      rcases ha.reasonNone l b (hs.trans hsuf) hr with h0 | hall
      · exact Or.inl h0
      · right; intro x hx
        have hx' : x ∈ s.trail.drop k := hs.subset (List.mem_cons_of_mem _ hx)
        rw [(hkeep x hx').2.1]; exact hall x hx
    · rw [hp.exprs, hp.lenVals]; exact ha.exprsRange
    · intro l b hs id hr
      rw [hp.trail] at hs
      have hl' : l ∈ s.trail.drop k := hs.subset (List.mem_cons_self ..)
      rw [(hkeep l hl').2.2] at hr
      rw [hp.cls]
      exact h.r l b (hs.trans hsuf) id hr

theorem Ent.popA {orig K : Cnf} {s : Sat} (ha : s.WfA) (h : s.Ent orig K) : s.pop.Ent orig K := by
  cases hl : s.trailLim with
  | nil => rw [pop_root hl]; exact h
  | cons lim lims =>
    obtain ⟨hp, hlim, hdec⟩ := pop_spec hl
    obtain ⟨hm, hk, hg⟩ := ha.pop_mem hl
    have hL : s.decisionLevel = s.decisions.length := by rw [ha.decLen]; rfl
    refine ⟨?_, ?_, ?_, ?_, ?_⟩
    · rw [hp.cls]; exact h.clauses
    · intro l hlt
      have h1 := (hm l).1 hlt
      have h2 := hk l (Or.inl hlt)
      have := h.trail l h1.1
      rw [h2.2]
      have e : s.pop.decsUpTo (s.lvl l) = s.decsUpTo (s.lvl l) := by
        simp only [decsUpTo, hdec, List.drop_drop, List.length_drop]
        congr 1
        have := h1.2; omega
      rw [e]; exact this
    · rw [hp.log]; exact h.log
    · rw [hp.dead]; exact h.dead
    · rw [hp.dead, hp.cls]
      intro hd α h0 hc hroot
      apply h.keeps hd α h0 hc
      intro l hlt hl0
      have hlp : l ∈ s.pop.trail := (hm l).2 ⟨hlt, by
        have : 0 < s.decisionLevel := by simp [decisionLevel, hl]
        omega⟩
      exact hroot l hlp (by rw [(hk l (Or.inl hlp)).2]; exact hl0)

theorem DecOK.popA {m : Nat} {s : Sat} (ha : s.WfA) (h : s.DecOK m) : s.pop.DecOK m := by
  cases hl : s.trailLim with
  | nil => rw [pop_root hl]; exact h
  | cons lim lims =>
    obtain ⟨hp, hlim, hdec⟩ := pop_spec hl
    obtain ⟨hm, hk, hg⟩ := ha.pop_mem hl
    intro a d b hd hb
    rw [hdec] at hd
    cases hds : s.decisions with
    | nil => rw [hds] at hd; simp at hd
    | cons d0 ds =>
      rw [hds] at hd
      simp only [List.drop_succ_cons, List.drop_zero] at hd
      have := h (d0 :: a) d b (by rw [hds, hd]; rfl) hb
      have hL : s.decisionLevel = s.decisions.length := by rw [ha.decLen]; rfl
      have hlen : b.length + 1 < s.decisionLevel := by
        rw [hL, hds, hd]; simp; omega
      have hdp : d ∈ s.pop.trail := (hm d).2 ⟨this.1, by omega⟩
      exact ⟨hdp, by rw [(hk d (Or.inl hdp)).2]; exact this.2⟩

theorem PopRel.popA {s t : Sat} (h : PopRel s t) (ha : t.WfA) (hne : t.trailLim ≠ []) : PopRel s t.pop := by
  cases hl : t.trailLim with
  | nil => exact absurd hl hne
  | cons lim lims =>
    obtain ⟨hm, hk, hg⟩ := ha.pop_mem hl
    obtain ⟨f1, f2, f3, f4, f5, f6, f7, f8⟩ := pop_frame t
    have hLt : 0 < t.decisionLevel := by simp [decisionLevel, hl]
    refine ⟨?_, ?_, ?_, f1.trans h.cls, f2.trans h.nextId, f3.trans h.watches, f4.trans h.queue,
      f5.trans h.exprs, f6.trans h.log, f7.trans h.dead, f8.trans h.lenVals, ?_, ?_⟩
    · intro x hx
      have h1 := (hm x).1 hx
      have h2 := hk x (Or.inl hx)
      have h3 := h.mem x h1.1
      exact ⟨h3.1, h2.2.trans h3.2.1, h2.1.trans h3.2.2⟩
    · intro x hx hle
      rw [pop_decisionLevel] at hle
      have h1 := h.kept x hx (by omega)
      have h3 := h.mem x h1
      exact (hm x).2 ⟨h1, by omega⟩
    · intro x hx hlt
      rw [pop_decisionLevel] at hlt
      by_cases hc : t.decisionLevel < s.lvl x
      · exact pop_value_none (h.gone x hx hc)
      · have h1 := h.kept x hx (by omega)
        have h3 := h.mem x h1
        exact hg x h1 (by omega)
    · rw [pop_decisionLevel]; have := h.level; omega
    · rw [pop_decisions t hne, h.decisions, List.drop_drop, pop_decisionLevel]
      congr 1
      have := h.level; omega

/-- `popTo` on `WfS ∧ Ent ∧ DecOK` -/
theorem wfs_popTo {orig K : Cnf} {m : Nat} {s : Sat} (hw : s.WfS) (he : s.Ent orig K) (hd : s.DecOK m) (hq : s.queue = [])
    (bt : Nat) (hbt : bt < s.decisionLevel) :
    (s.popTo bt).WfS ∧ (s.popTo bt).Ent orig K ∧ (s.popTo bt).DecOK m ∧ PopRel s (s.popTo bt) ∧
      (s.popTo bt).decisionLevel = bt := by
  rw [popTo_pop s bt hbt]
  have hne : s.trailLim ≠ [] := by intro e; simp [decisionLevel, e] at hbt
  have hr1 : PopRel s s.pop := (PopRel.refl s hw.a).popA hw.a hne
  have hq1 : s.pop.queue = [] := by rw [(pop_frame s).2.2.2.1]; exact hq
  have := popTo_induction (Q := fun t => t.WfS ∧ t.Ent orig K ∧ t.DecOK m ∧ PopRel s t ∧ t.queue = [])
    (fun t ⟨a, b, c, d, e⟩ hne' => ⟨a.pop e, b.popA a.a, c.popA a.a, d.popA a.a hne',
      by rw [(pop_frame t).2.2.2.1]; exact e⟩) bt s.pop
    ⟨hw.pop hq, he.popA hw.a, hd.popA hw.a, hr1, hq1⟩
  refine ⟨this.1, this.2.1, this.2.2.1, this.2.2.2.1, ?_⟩
  rw [popTo_level, pop_decisionLevel]; omega

end Sat
end Oratio
