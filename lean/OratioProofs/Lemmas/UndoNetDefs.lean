/-
Definitions needed to READ the statements of Properties/C08Net.lean (property C08 at the level of the
whole network): histories of LRA theory calls, what is "visible" of an LRA state, the shape of the
SAT core that `pop` relies on, and conflict-free runs of `Net.propagate`.
-/
import OratioModel

namespace Oratio

/-! ## linear arithmetic: calls between `push` and `pop` -/

namespace Lra

/-- one call of the theory between `push()` and `pop()`: the bound assertions, the propagation of
    an assertion literal, the simplex - each with the SAT state it happens to see -/
inductive LCall where
  | lower (s : Sat) (x : Nat) (v : IR) (p : Lit)
  | upper (s : Sat) (x : Nat) (v : IR) (p : Lit)
  | lit (s : Sat) (p : Lit)
  | check (fuel : Nat)

/-- the theory state a call leaves (a conflicting call leaves the state it reached, as the C++
    does; a `check` that runs out of fuel is skipped) -/
def callStep (t : Lra) : LCall → Lra
  | .lower s x v p => (assertLower s t x v p).th
  | .upper s x v p => (assertUpper s t x v p).th
  | .lit s p => (propagateLit s t p).th
  | .check fuel => match t.check fuel with
    | some (_, t') => t'
    | none => t

def runCalls (t : Lra) (cs : List LCall) : Lra := cs.foldl callStep t

/-- histories with nested levels -/
inductive LEvent where
  | push
  | pop
  | call (c : LCall)

def runEvents (t : Lra) : List LEvent → Lra
  | [] => t
  | .push :: r => runEvents t.push r
  | .pop :: r => runEvents t.pop r
  | .call c :: r => runEvents (callStep t c) r

/-- every `pop` has a matching earlier `push`, every level opened is closed, no theory call outside
    a level (depth `d` = number of levels currently open) -/
def balanced : List LEvent → Nat → Bool
  | [], d => d == 0
  | .push :: r, d => balanced r (d + 1)
  | .pop :: r, d => decide (d > 0) && balanced r (d - 1)
  | .call _ :: r, d => decide (d > 0) && balanced r d

/-- everything of the LRA theory that is visible through the network, except the solution set of
    the tableau (stated separately): all bounds with their reasons, the undo log, the registries
    `exprs`, `s_asrts`, `v_asrts`, the assertion watches `a_watches`, the number of variables -/
structure SameVisible (B u : Lra) : Prop where
  bounds : u.bounds = B.bounds
  layers : u.layers = B.layers
  exprs : u.exprs = B.exprs
  sAsrts : u.sAsrts = B.sAsrts
  vAsrts : u.vAsrts = B.vAsrts
  aWatches : u.aWatches = B.aWatches
  nvars : u.vals.length = B.vals.length

end Lra

/-! ## the SAT core -/

namespace Sat

/-- an unassigned variable has level 0 and no reason (what `new_var()` creates and `pop_one()`
    re-establishes; `enqueue` writes level and reason of the variable it assigns only), and there is
    one level and one reason per variable.  `pop()` resets level and reason of the variables it
    unassigns to these values, so this is what makes `pop` give back the `level` / `reason` vectors
    literally. -/
def Clean (s : Sat) : Prop :=
  s.level.length = s.vals.length ∧ s.reason.length = s.vals.length ∧
  ∀ v, s.vals.getD v none = none → s.level.getD v 0 = 0 ∧ s.reason.getD v none = none

/-- clause ids are distinct and below `nextId` (the analogue of distinct C++ objects) -/
def IdsOK (s : Sat) : Prop := (∀ e ∈ s.cls, e.1 < s.nextId) ∧ (s.cls.map (·.1)).Nodup

/-- the clause database only grows: every clause (identified by its id) is still there, with the
    same literals, possibly in another order (`clause::propagate` swaps the watched literals) -/
def ClsKept (s s' : Sat) : Prop := ∀ e ∈ s.cls, ∃ c', (e.1, c') ∈ s'.cls ∧ c'.Perm e.2

/-- the part of the SAT core that `assume ; … ; pop` gives back literally -/
structure SameAssignment (B s : Sat) : Prop where
  vals : s.vals = B.vals
  level : s.level = B.level
  reason : s.reason = B.reason
  trail : s.trail = B.trail
  trailLim : s.trailLim = B.trailLim
  decisions : s.decisions = B.decisions
  exprs : s.exprs = B.exprs

end Sat

/-! ## conflict-free propagation -/

namespace Net

/-- the network `assume(p)` starts propagating from: a new level in the SAT core and in every
    theory -/
def pushed (n : Net) (p : Lit) : Net :=
  { n with sat := { n.sat with trailLim := n.sat.trail.length :: n.sat.trailLim, decisions := p :: n.sat.decisions },
           lra := n.lra.push, idl := n.idl.push, rdl := n.rdl.push }

/-- the run of `propagate n fuel` meets NO conflict: no conflicting clause, no conflict reported by
    `th->propagate(p)`, no conflict reported by `lra_theory::check()` - so `analyze_and_backjump` is
    never called (same recursion as `Net.propagate`; theory lemmas may be recorded freely).
    `true` when the fuel runs out (then `propagate` returns `none`). -/
def quiet (n : Net) : Nat → Bool
  | 0 => true
  | fuel + 1 =>
    match n.sat.queue with
    | [] =>
      match n.lra.check fuel with
      | some (some _, _) => false
      | _ => true
    | p :: q =>
      match Sat.visitWatchers { n.sat with queue := q, watches := n.sat.watches.set p.idx [] } p
          (n.sat.watches.getD p.idx []) with
      | (_, some _) => false
      | (s, none) =>
        match theoryPropagate { n with sat := s } p with
        | (none, n') => quiet n' fuel
        | (some _, _) => false

/-- `assume(p)` meets no conflict -/
def quietAssume (n : Net) (p : Lit) (fuel : Nat) : Bool :=
  match (pushed n p).sat.enqueue p none with
  | (false, _) => true
  | (true, s) => quiet { pushed n p with sat := s } fuel

/-- search operations: `assume(p)` and a further `propagate()` (as `check(lits)` issues them) -/
inductive SOp where
  | assume (p : Lit)
  | propagate

/-- a conflict-free search history: every `assume` / `propagate` of the list runs without meeting a
    conflict (`quietAssume` / `quiet`) and within the fuel; `propagate` is admitted above the root
    level only (at root level its consequences are permanent) -/
def runQuiet (fuel : Nat) : Net → List SOp → Option Net
  | n, [] => some n
  | n, .assume p :: r =>
    if quietAssume n p fuel then
      match n.assume p fuel with
      | some (_, n') => runQuiet fuel n' r
      | none => none
    else none
  | n, .propagate :: r =>
    if !n.sat.rootLevel && quiet n fuel then
      match n.propagate fuel with
      | some (_, n') => runQuiet fuel n' r
      | none => none
    else none

end Net

end Oratio
