/-
Lemmas for C16 (evaluation part): the list-level operators of the evaluator model
(OratioModel/Core/Eval.lean: the `+=` / `-=` folds, `mulAll`, `divAll`) denote the sum, the left-associated
difference, the product and the quotient of what their operands denote.  `Lin.evalS` is the copy of `Lin.eval`
of OratioProofs/Lemmas/Lin.lean (definitionally the same function).
-/
import OratioModel
import OratioProofs.Lemmas.Rational
import OratioProofs.Lemmas.Lin
import Mathlib.Algebra.BigOperators.Group.List.Basic

namespace Oratio
open Riddle Eval

mutual
/-- every real literal occurring in the expression is a canonical finite rational (what the lexer produces:
    C16 lexer theorems) -/
def Riddle.Expr.litsOk : Expr → Prop
  | .real r => r.WF ∧ r.den ≠ 0
  | .cast _ e => Riddle.Expr.litsOk e
  | .un _ e => Riddle.Expr.litsOk e
  | .ctor _ args => Riddle.Expr.litsOkL args
  | .bin _ l r => Riddle.Expr.litsOk l ∧ Riddle.Expr.litsOk r
  | .call _ _ args => Riddle.Expr.litsOkL args
  | .nary _ es => Riddle.Expr.litsOkL es
  | _ => True
def Riddle.Expr.litsOkL : List Expr → Prop
  | [] => True
  | e :: es => Riddle.Expr.litsOk e ∧ Riddle.Expr.litsOkL es
end

namespace Eval

/-- copy of `ConstSound` (C16Eval) on `Lin.evalS` -/
def ConstSoundS (c : ConstOf) (σ : Nat → Rat) : Prop :=
  ∀ l k, c l = some k → k.WF ∧ k.den ≠ 0 ∧ Lin.evalS l σ = k.toRat

theorem ok_map {α β ε : Type} (f : α → β) (x : Except ε α) (b : β) (h : x.map f = .ok b) :
    ∃ a, x = .ok a ∧ f a = b := by
  cases x with
  | error e => simp [Except.map] at h
  | ok a => exact ⟨a, rfl, by simpa [Except.map] using h⟩

theorem ok_bind {α β ε : Type} (f : α → Except ε β) (x : Except ε α) (b : β) (h : x.bind f = .ok b) :
    ∃ a, x = .ok a ∧ f a = .ok b := by
  cases x with
  | error e => simp [Except.bind] at h
  | ok a => exact ⟨a, rfl, by simpa [Except.bind] using h⟩

theorem wf_empty : Lin.empty.WF :=
  (Lin.wf_iff _).2 ⟨List.Pairwise.nil, Lin.coefWF_nil, R.finWF_zero⟩

theorem evalS_empty (σ : Nat → Rat) : Lin.evalS Lin.empty σ = 0 := by
  rw [Lin.evalS_eq]
  show Lin.sumS σ [] + R.zero.toRat = 0
  rw [Lin.sumS_nil, R.toRat_zero, add_zero]

theorem wf_const {r : R} (h : R.FinWF r) : (Lin.const r).WF :=
  (Lin.wf_iff _).2 ⟨List.Pairwise.nil, Lin.coefWF_nil, h⟩

theorem evalS_const (r : R) (σ : Nat → Rat) : Lin.evalS (Lin.const r) σ = r.toRat := by
  rw [Lin.evalS_eq]
  show Lin.sumS σ [] + r.toRat = r.toRat
  rw [Lin.sumS_nil, zero_add]

theorem num_ne_zero_of_toRat {k : R} (h : k.toRat ≠ 0) : k.num ≠ 0 := by
  intro h0
  apply h
  simp [R.toRat, h0]

/-! ### `+`, `-` -/

theorem foldl_addAssign_spec (σ : Nat → Rat) : ∀ (ls : List Lin) (acc : Lin), acc.WF → (∀ l ∈ ls, l.WF) →
    (ls.foldl Lin.addAssign acc).WF ∧
    Lin.evalS (ls.foldl Lin.addAssign acc) σ = (ls.map (fun l => Lin.evalS l σ)).foldl (· + ·) (Lin.evalS acc σ)
  | [], _, ha, _ => ⟨ha, rfl⟩
  | l :: ls, acc, ha, hl => by
    obtain ⟨w, -, -, e, ea⟩ := Lin.add_spec acc l ha (hl l List.mem_cons_self)
    have e' : Lin.evalS (Lin.addAssign acc l) σ = Lin.evalS acc σ + Lin.evalS l σ := by rw [ea]; exact e σ
    have ih := foldl_addAssign_spec σ ls (Lin.addAssign acc l) (ea ▸ w) (fun x hx => hl x (List.mem_cons_of_mem _ hx))
    rw [e'] at ih
    exact ih

theorem foldl_subAssign_spec (σ : Nat → Rat) : ∀ (ls : List Lin) (acc : Lin), acc.WF → (∀ l ∈ ls, l.WF) →
    (ls.foldl Lin.subAssign acc).WF ∧
    Lin.evalS (ls.foldl Lin.subAssign acc) σ = (ls.map (fun l => Lin.evalS l σ)).foldl (· - ·) (Lin.evalS acc σ)
  | [], _, ha, _ => ⟨ha, rfl⟩
  | l :: ls, acc, ha, hl => by
    obtain ⟨w, -, -, e, ea⟩ := Lin.sub_spec acc l ha (hl l List.mem_cons_self)
    have e' : Lin.evalS (Lin.subAssign acc l) σ = Lin.evalS acc σ - Lin.evalS l σ := by rw [ea]; exact e σ
    have ih := foldl_subAssign_spec σ ls (Lin.subAssign acc l) (ea ▸ w) (fun x hx => hl x (List.mem_cons_of_mem _ hx))
    rw [e'] at ih
    exact ih

theorem addAll_spec (σ : Nat → Rat) (ls : List Lin) (hl : ∀ l ∈ ls, l.WF) :
    (ls.foldl Lin.addAssign Lin.empty).WF ∧
    Lin.evalS (ls.foldl Lin.addAssign Lin.empty) σ = (ls.map (fun l => Lin.evalS l σ)).foldl (· + ·) 0 := by
  have h := foldl_addAssign_spec σ ls Lin.empty wf_empty hl
  rw [evalS_empty] at h
  exact h

theorem subAll_spec (σ : Nat → Rat) (l : Lin) (rest : List Lin) (hl : ∀ x ∈ l :: rest, x.WF) :
    (rest.foldl Lin.subAssign (Lin.addAssign Lin.empty l)).WF ∧
    Lin.evalS (rest.foldl Lin.subAssign (Lin.addAssign Lin.empty l)) σ =
      (rest.map (fun l => Lin.evalS l σ)).foldl (· - ·) (Lin.evalS l σ) := by
  obtain ⟨w, -, -, e, ea⟩ := Lin.add_spec Lin.empty l wf_empty (hl l List.mem_cons_self)
  have e' : Lin.evalS (Lin.addAssign Lin.empty l) σ = Lin.evalS l σ := by
    rw [ea, e σ, evalS_empty, zero_add]
  have h := foldl_subAssign_spec σ rest (Lin.addAssign Lin.empty l) (ea ▸ w) (fun x hx => hl x (List.mem_cons_of_mem _ hx))
  rw [e'] at h
  exact h

/-! ### `*` -/

theorem mulAssignR_spec {c : ConstOf} {σ : Nat → Rat} (hc : ConstSoundS c σ) {acc x : Lin} {k : R}
    (ha : acc.WF) (hk : c x = some k) :
    (Lin.mulAssignR acc k).WF ∧ Lin.evalS (Lin.mulAssignR acc k) σ = Lin.evalS acc σ * Lin.evalS x σ := by
  obtain ⟨kw, kf, ke⟩ := hc x k hk
  obtain ⟨-, -, -, -, -, w, -, -, e⟩ := Lin.scalar_mul_spec acc k ha kw kf
  exact ⟨w, by rw [e σ, ke]⟩

/-- all operands decided: the first is multiplied by the others, in order -/
theorem mul_foldlM_all {c : ConstOf} {σ : Nat → Rat} (hc : ConstSoundS c σ) : ∀ (rest : List Lin) (acc l : Lin), acc.WF →
    rest.foldlM (fun (acc : Lin) l => match c l with
        | some k => (pure (Lin.mulAssignR acc k) : Except Err Lin)
        | none => .error .nonLinear) acc = .ok l →
    l.WF ∧ Lin.evalS l σ = (rest.map (fun l => Lin.evalS l σ)).foldl (· * ·) (Lin.evalS acc σ)
  | [], acc, l, ha, h => by
    simp only [List.foldlM_nil, pure, Except.pure, Except.ok.injEq] at h
    subst h
    exact ⟨ha, rfl⟩
  | x :: rest, acc, l, ha, h => by
    rw [List.foldlM_cons] at h
    cases hk : c x with
    | none => simp [hk, bind, Except.bind] at h
    | some k =>
      simp only [hk, pure, Except.pure, bind, Except.bind] at h
      obtain ⟨w, e⟩ := mulAssignR_spec hc (x := x) ha hk
      have ih := mul_foldlM_all hc rest (Lin.mulAssignR acc k) l w h
      rw [e] at ih
      exact ih

/-- one operand kept (index `i`), the others multiply it -/
theorem mul_foldlM_idx {c : ConstOf} {σ : Nat → Rat} (hc : ConstSoundS c σ) (ls : List Lin) (i : Nat) :
    ∀ (js : List Nat) (acc l : Lin), acc.WF →
    js.foldlM (fun (acc : Lin) j =>
        if j == i then (pure acc : Except Err Lin)
        else match c (ls.getD j Lin.empty) with
          | some k => pure (Lin.mulAssignR acc k)
          | none => .error .nonLinear) acc = .ok l →
    l.WF ∧ Lin.evalS l σ =
      Lin.evalS acc σ * (js.map (fun j => if j = i then 1 else Lin.evalS (ls.getD j Lin.empty) σ)).prod
  | [], acc, l, ha, h => by
    simp only [List.foldlM_nil, pure, Except.pure, Except.ok.injEq] at h
    subst h
    exact ⟨ha, by simp⟩
  | j :: js, acc, l, ha, h => by
    rw [List.foldlM_cons] at h
    by_cases hji : j = i
    · simp only [hji, beq_self_eq_true, if_true, pure, Except.pure, bind, Except.bind] at h
      have ih := mul_foldlM_idx hc ls i js acc l ha h
      refine ⟨ih.1, ?_⟩
      rw [ih.2, List.map_cons, List.prod_cons, if_pos hji, one_mul]
    · have hb : (j == i) = false := by simpa using hji
      cases hk : c (ls.getD j Lin.empty) with
      | none =>
        simp only [hb, hk, Bool.false_eq_true, if_false, bind, Except.bind, reduceCtorEq] at h
      | some k =>
        simp only [hb, hk, Bool.false_eq_true, if_false, pure, Except.pure, bind, Except.bind] at h
        obtain ⟨w, e⟩ := mulAssignR_spec hc (x := ls.getD j Lin.empty) ha hk
        have ih := mul_foldlM_idx hc ls i js (Lin.mulAssignR acc k) l w h
        refine ⟨ih.1, ?_⟩
        rw [ih.2, e, List.map_cons, List.prod_cons, if_neg hji, mul_assoc]

theorem map_getD_range (a : List Rat) : (List.range a.length).map (fun j => a.getD j 0) = a := by
  apply List.ext_getElem
  · simp
  · intro n h1 h2
    simp at h1
    simp [h1]

theorem prod_skip (a : List Rat) : ∀ (i : Nat), i < a.length →
    a.getD i 0 * ((List.range a.length).map (fun j => if j = i then 1 else a.getD j 0)).prod = a.prod := by
  induction a with
  | nil => intro i hi; simp at hi
  | cons x t ih =>
    intro i hi
    rw [List.length_cons, List.range_succ_eq_map, List.map_cons, List.map_map, List.prod_cons, List.prod_cons]
    cases i with
    | zero =>
      have : ((fun j => if j = 0 then (1 : Rat) else (x :: t).getD j 0) ∘ Nat.succ) = fun j => t.getD j 0 := by
        funext j; simp
      rw [this, map_getD_range]
      simp
    | succ k =>
      have : ((fun j => if j = k + 1 then (1 : Rat) else (x :: t).getD j 0) ∘ Nat.succ) =
          fun j => if j = k then 1 else t.getD j 0 := by
        funext j; simp
      rw [this]
      have hk : k < t.length := by simpa using hi
      have := ih k hk
      simp only [List.getD_cons_succ, List.getD_cons_zero]
      rw [if_neg (by omega), ← this]
      ring

theorem getD_map_evalS (σ : Nat → Rat) (ls : List Lin) (j : Nat) :
    (ls.map (fun l => Lin.evalS l σ)).getD j 0 = Lin.evalS (ls.getD j Lin.empty) σ := by
  simp only [List.getD_eq_getElem?_getD, List.getElem?_map]
  cases ls[j]? with
  | none => simp [evalS_empty]
  | some x => simp

theorem foldl_mul_eq_prod (v : Rat) (rest : List Rat) : rest.foldl (· * ·) v = (v :: rest).prod := by
  rw [List.prod_eq_foldl, List.foldl_cons, one_mul]

theorem mulAll_spec {c : ConstOf} {σ : Nat → Rat} (hc : ConstSoundS c σ) (ls : List Lin) (l : Lin)
    (hl : ∀ x ∈ ls, x.WF) (h : mulAll c ls = .ok l) (v : Rat) (rest : List Rat)
    (hm : ls.map (fun l => Lin.evalS l σ) = v :: rest) :
    l.WF ∧ Lin.evalS l σ = rest.foldl (· * ·) v := by
  cases ls with
  | nil => simp at hm
  | cons first restl =>
    simp only [mulAll] at h
    split at h
    · rename_i i hi
      have hlt : i < (first :: restl).length := by
        have := List.findIdx?_eq_some_iff_findIdx_eq.1 hi
        exact this.1
      have hw : ((first :: restl).getD i Lin.empty).WF := by
        rw [← List.getElem_eq_getD (h := hlt) Lin.empty]
        exact hl _ (List.getElem_mem _)
      obtain ⟨w, e⟩ := mul_foldlM_idx hc (first :: restl) i _ _ l hw h
      refine ⟨w, ?_⟩
      rw [e, foldl_mul_eq_prod, ← hm]
      have hp := prod_skip ((first :: restl).map (fun l => Lin.evalS l σ)) i (by simpa using hlt)
      rw [← hp, getD_map_evalS, List.length_map]
      congr 2
      apply List.map_congr_left
      intro j _
      rw [getD_map_evalS]
    · obtain ⟨w, e⟩ := mul_foldlM_all hc restl first l (hl _ List.mem_cons_self) h
      refine ⟨w, ?_⟩
      rw [e]
      simp only [List.map_cons, List.cons.injEq] at hm
      rw [hm.1, hm.2]

/-! ### `/` -/

theorem div_foldlM {c : ConstOf} {σ : Nat → Rat} (hc : ConstSoundS c σ) : ∀ (rest : List Lin) (k0 k : R), R.FinWF k0 →
    rest.foldlM (fun (acc : R) l => match c l with
        | some k => (pure (R.mulAssign acc k) : Except Err R)
        | none => .error .nonLinear) k0 = .ok k →
    R.FinWF k ∧ k.toRat = (rest.map (fun l => Lin.evalS l σ)).foldl (· * ·) k0.toRat
  | [], k0, k, h0, h => by
    simp only [List.foldlM_nil, pure, Except.pure, Except.ok.injEq] at h
    subst h
    exact ⟨h0, rfl⟩
  | x :: rest, k0, k, h0, h => by
    rw [List.foldlM_cons] at h
    cases hk : c x with
    | none => simp [hk, bind, Except.bind] at h
    | some k1 =>
      simp only [hk, pure, Except.pure, bind, Except.bind] at h
      obtain ⟨kw, kf, ke⟩ := hc x k1 hk
      have ih := div_foldlM hc rest (R.mulAssign k0 k1) k (R.finWF_mulAssign h0 ⟨kw, kf⟩) h
      rw [R.toRat_mulAssign h0 ⟨kw, kf⟩, ← ke] at ih
      exact ih

theorem divAllCore_spec {c : ConstOf} {σ : Nat → Rat} (hc : ConstSoundS c σ) (ls : List Lin) (l : Lin)
    (hl : ∀ x ∈ ls, x.WF) (h : divAllCore c ls = .ok l) (v d : Rat) (rest : List Rat)
    (hm : ls.map (fun l => Lin.evalS l σ) = v :: d :: rest) (hne : rest.foldl (· * ·) d ≠ 0) :
    l.WF ∧ Lin.evalS l σ = v / rest.foldl (· * ·) d := by
  match ls, hl, h, hm with
  | [], _, _, hm => simp at hm
  | [_], _, _, hm => simp at hm
  | first :: dl :: restl, hl, h, hm =>
    simp only [divAllCore] at h
    cases hk : c dl with
    | none => simp [hk] at h
    | some k0 =>
      simp only [hk] at h
      obtain ⟨kw, kf, ke⟩ := hc dl k0 hk
      split at h
      · simp at h
      · rename_i k hf
        simp only [Except.ok.injEq] at h
        subst h
        obtain ⟨kfw, kt⟩ := div_foldlM hc restl k0 k ⟨kw, kf⟩ hf
        simp only [List.map_cons, List.cons.injEq] at hm
        rw [← ke, hm.2.1, hm.2.2] at kt
        have hkne : k.toRat ≠ 0 := by rw [kt]; exact hne
        obtain ⟨w, -, -, e, -⟩ := Lin.scalar_div_spec first k (hl _ List.mem_cons_self) kfw.1 kfw.2
          (num_ne_zero_of_toRat hkne)
        exact ⟨w, by rw [e σ, kt, hm.1]⟩

theorem divAll_spec {c : ConstOf} {σ : Nat → Rat} (hc : ConstSoundS c σ) (ls : List Lin) (l : Lin)
    (hl : ∀ x ∈ ls, x.WF) (h : divAll c ls = .ok l) (v d : Rat) (rest : List Rat)
    (hm : ls.map (fun l => Lin.evalS l σ) = v :: d :: rest) (hne : rest.foldl (· * ·) d ≠ 0) :
    l.WF ∧ Lin.evalS l σ = v / rest.foldl (· * ·) d := by
  unfold divAll at h
  split at h
  · simp at h
  · exact divAllCore_spec hc ls l hl h v d rest hm hne

/-! ### `constFree` -/

theorem constFree_spec (σ : Nat → Rat) (l : Lin) (k : R) (hl : l.WF) (h : constFree l = some k) :
    R.FinWF k ∧ Lin.evalS l σ = k.toRat := by
  unfold constFree at h
  split at h
  · rename_i he
    simp only [Option.some.injEq] at h
    subst h
    obtain ⟨-, -, hk⟩ := (Lin.wf_iff l).1 hl
    refine ⟨hk, ?_⟩
    rw [Lin.evalS_eq]
    have : l.vars = [] := by simpa using he
    rw [this, Lin.sumS_nil, zero_add]
  · simp at h

end Eval
end Oratio
