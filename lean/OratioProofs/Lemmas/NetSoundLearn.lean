/-
C07N, target 2: `learnFrom` (analyze + backjump + record) on a conflict clause that is T-entailed.

SAT level: the structural invariant `Sat.Wf` and the semantic invariant `Sat.Ent orig'` (C07) are
kept by `pop`, `popTo`, `record` (variants of `InvC.popTo`, `record_spec` without the watch
invariant `W2`, which the soundness argument does not use).  Here `orig' = orig ++ L`, `L` the
ghost list of theory lemmas; every clause entailed by `orig'` is T-entailed by `orig` because a
T-consistent assignment satisfying `orig` satisfies every theory lemma.
-/
import OratioProofs.Lemmas.NetSoundPop
import OratioProofs.Lemmas.NetSoundAnalyze

set_option linter.unusedSimpArgs false
set_option linter.unusedVariables false

namespace Oratio
namespace Sat

/-! ### `popTo` on `Wf ∧ Ent` -/

theorem wfEnt_popTo {orig K : Cnf} {s : Sat} (hw : s.Wf) (he : s.Ent orig K) (hq : s.queue = []) (bt : Nat)
    (hbt : bt < s.decisionLevel) :
    (s.popTo bt).Wf ∧ (s.popTo bt).Ent orig K ∧ PopRel s (s.popTo bt) ∧ (s.popTo bt).decisionLevel = bt := by
  rw [popTo_pop s bt hbt]
  have hne : s.trailLim ≠ [] := by intro e; simp [decisionLevel, e] at hbt
  have hr1 : PopRel s s.pop := (PopRel.refl s hw.a).pop hw hne
  have hq1 : s.pop.queue = [] := by rw [(pop_frame s).2.2.2.1]; exact hq
  have := popTo_induction (Q := fun t => t.Wf ∧ t.Ent orig K ∧ PopRel s t ∧ t.queue = [])
    (fun t ⟨a, b, c, d⟩ hne' => ⟨a.pop d, b.pop a, c.pop a hne', by rw [(pop_frame t).2.2.2.1]; exact d⟩) bt s.pop
    ⟨hw.pop hq, he.pop hw, hr1, hq1⟩
  refine ⟨this.1, this.2.1, this.2.2.1, ?_⟩
  rw [popTo_level, pop_decisionLevel]; omega

/-! ### `record` on `Wf ∧ Ent` -/

theorem record_wf_ent {orig K : Cnf} {t : Sat} (hw : t.Wf) (he : t.Ent orig K) (hq : t.queue = [])
    (l0 : Lit) (rest : List Lit) (hv : t.value l0 = none) (hlt : l0.var < t.vals.length)
    (hrest : ∀ x ∈ rest, x.neg ∈ t.trail) (h0 : rest = [] → t.decisionLevel = 0)
    (hent : Ents orig (l0 :: rest)) (hnd : ((l0 :: rest).map Lit.var).Nodup) :
    (t.record (l0 :: rest)).Wf ∧ (t.record (l0 :: rest)).Ent orig (K ++ [l0 :: rest]) ∧
      (t.record (l0 :: rest)).queue = [l0] ∧ (t.record (l0 :: rest)).decisions = t.decisions ∧
      (t.record (l0 :: rest)).trailLim = t.trailLim ∧ (t.record (l0 :: rest)).log = t.log ++ [l0 :: rest] ∧
      (t.record (l0 :: rest)).dead = t.dead ∧ (t.record (l0 :: rest)).vals.length = t.vals.length := by
  have hlogw : ({ t with log := t.log ++ [l0 :: rest] } : Sat).Wf := hw.of_eq rfl rfl rfl rfl rfl rfl rfl rfl rfl rfl rfl
  have hloge : ({ t with log := t.log ++ [l0 :: rest] } : Sat).Ent orig K := by
    refine ⟨he.clauses, he.trail, ?_, he.dead, he.keeps⟩
    intro c hc
    rcases List.mem_append.1 hc with hc | hc
    · exact he.log c hc
    · simp only [List.mem_singleton] at hc; subst hc; exact hent
  generalize hu : ({ t with log := t.log ++ [l0 :: rest] } : Sat) = u at hlogw hloge
  have hu1 : u.queue = [] := by subst hu; exact hq
  have huv : u.value l0 = none := by subst hu; exact hv
  have hult : l0.var < u.vals.length := by subst hu; exact hlt
  have hut : ∀ x ∈ rest, x.neg ∈ u.trail := by subst hu; exact hrest
  have hu0 : rest = [] → u.decisionLevel = 0 := by subst hu; exact h0
  have hudec : u.decisions = t.decisions := by subst hu; rfl
  have hulim : u.trailLim = t.trailLim := by subst hu; rfl
  have hulog : u.log = t.log ++ [l0 :: rest] := by subst hu; rfl
  have hudead : u.dead = t.dead := by subst hu; rfl
  have hulen : u.vals.length = t.vals.length := by subst hu; rfl
  have hrec : t.record (l0 :: rest) = match rest with
      | [] => (u.enqueue l0 none).2
      | _ :: _ => ((u.addClause (l0 :: rest.foldr (insertByLevel u) [])).2.enqueue l0
            (some (u.addClause (l0 :: rest.foldr (insertByLevel u) [])).1)).2 := by
    subst hu
    cases rest with
    | nil => rfl
    | cons y ys => rfl
  rw [hrec]
  cases rest with
  | nil =>
    simp only
    rw [enqueue_none _ huv]
    refine ⟨hlogw.enq huv hult (fun _ => Or.inl (hu0 rfl)) (fun id e => by cases e), ?_,
      by simp [enq, hu1], hudec, hulim, hulog, hudead, by simp [enq, hulen]⟩
    apply (hloge.enq hlogw.a huv hult (hent.mono (fun d hd => List.mem_append_left _ hd))).keeps_add
    intro _ α _ _ hroot
    have := hroot l0 (List.mem_cons_self ..) (by rw [enq_lvl_self hlogw.a hult]; exact hu0 rfl)
    simp [Asg.clause, this]
  | cons y ys =>
    simp only
    have hperm := sortByLevel_perm u (y :: ys)
    generalize hs : (y :: ys).foldr (insertByLevel u) [] = sorted at hperm
    cases sorted with
    | nil => exact absurd hperm.length_eq (by simp)
    | cons z zs =>
      rw [addClause_fst]
      have hmem : ∀ x, x ∈ z :: zs ↔ x ∈ y :: ys := fun x => hperm.mem_iff
      have hnd' : ((l0 :: z :: zs).map Lit.var).Nodup :=
        ((hperm.cons l0).map Lit.var).nodup_iff.2 hnd
      have hzt : ∀ x ∈ z :: zs, x.neg ∈ u.trail := fun x hx => hut x ((hmem x).1 hx)
      have hrange : ∀ l ∈ l0 :: z :: zs, l.var < u.vals.length := by
        intro l hl
        rcases List.mem_cons.1 hl with rfl | hl
        · exact hult
        · exact hlogw.a.trail_lt (l := l.neg) (hzt l hl)
      have hvar0 : ∀ l ∈ l0 :: z :: zs, l.var ≠ 0 := by
        intro l hl
        rcases List.mem_cons.1 hl with rfl | hl
        · exact hlogw.a.var_ne_zero_of_none huv
        · exact (hlogw.a.trailVal l.neg (hzt l hl)).2
      generalize hA : (u.addClause (l0 :: z :: zs)).2 = w
      have hwf : w.Wf := by rw [← hA]; exact hlogw.addClause hnd' hrange hvar0
      have hwv : w.value l0 = none := by rw [← hA]; exact huv
      have hwlt : l0.var < w.vals.length := by rw [← hA]; exact hult
      have hwcls : (u.nextId, l0 :: z :: zs) ∈ w.cls := by
        rw [← hA, addClause_cls]; exact List.mem_append_right _ (List.mem_singleton.2 rfl)
      have hwent : w.Ent orig K := by
        rw [← hA]
        refine ⟨?_, hloge.trail, hloge.log, hloge.dead, ?_⟩
        · intro e he'
          rw [addClause_cls] at he'
          rcases List.mem_append.1 he' with he' | he'
          · exact hloge.clauses e he'
          · simp only [List.mem_singleton] at he'; subst he'
            exact hent.weaken (fun l hl => by
              rcases List.mem_cons.1 hl with rfl | hl
              · exact List.mem_cons_self ..
              · exact List.mem_cons_of_mem _ ((hmem l).2 hl))
        · intro hd α ha0 hc hroot
          apply hloge.keeps hd α ha0 _ hroot
          rw [addClause_cls, List.map_append, Asg.cnf_append] at hc
          simp only [Bool.and_eq_true] at hc
          exact hc.1
      have hwtrail : w.trail = u.trail := by rw [← hA]; rfl
      have hwq : w.queue = [] := by rw [← hA]; exact hu1
      rw [enqueue_none _ hwv]
      refine ⟨hwf.enq hwv hwlt (fun e => by cases e) ?_, ?_, by simp [enq, hwq],
        by rw [← hA]; exact hudec, by rw [← hA]; exact hulim, by rw [← hA]; exact hulog,
        by rw [← hA]; exact hudead, by rw [← hA]; simp [enq]; exact hulen⟩
      · intro id e
        simp only [Option.some.injEq] at e; subst e
        exact ⟨z :: zs, hwcls, fun x hx => by rw [hwtrail]; exact hzt x hx⟩
      · apply (hwent.enq hwf.a hwv hwlt
          (ents_unit hwf.a hwent (hwent.clauses _ hwcls) (fun x hx => by rw [hwtrail]; exact hzt x hx))).keeps_add
        intro _ α _ hcl _
        simp only [Asg.cnf, List.all_map, List.all_eq_true, Function.comp] at hcl
        have := hcl _ (show (u.nextId, l0 :: z :: zs) ∈ (w.enq l0 (some u.nextId)).cls from hwcls)
        rw [← Asg.clause_perm α (hperm.cons l0)]
        exact this

/-! ### analyze + backjump + record -/

/-- the SAT part of `learnFrom` -/
theorem learn_spec {orig K : Cnf} {s : Sat} (hw : s.Wf) (he : s.Ent orig K) (hq : s.queue = [])
    (hL : 0 < s.decisionLevel) (cnfl : Clause) (hcE : Ents orig cnfl) (hcF : ∀ l ∈ cnfl, l.neg ∈ s.trail)
    (hcL : ∃ l ∈ cnfl, s.lvl l = s.decisionLevel) (noGood : List Lit) (bt : Nat) (s3 : Sat)
    (han : s.analyze cnfl = some (noGood, bt, s3)) :
    ((s3.popTo bt).record noGood).Wf ∧ ((s3.popTo bt).record noGood).Ent orig K ∧ Ents orig noGood ∧
    ((s3.popTo bt).record noGood).log = s.log ++ [noGood] ∧ ((s3.popTo bt).record noGood).dead = s.dead ∧
    ((s3.popTo bt).record noGood).decisions <:+ s.decisions ∧ ((s3.popTo bt).record noGood).decisionLevel = bt ∧
    bt < s.decisionLevel ∧ ((s3.popTo bt).record noGood).vals.length = s.vals.length ∧
    (∃ l0, ((s3.popTo bt).record noGood).queue = [l0]) ∧ s3.decisionLevel = s.decisionLevel ∧
    (s3.popTo bt).record noGood = (s.popTo bt).record noGood := by
  obtain ⟨p', learnt, k, hlits, hpt, hpl, hent, hlearnt, hbt, hbt0, hbtx, hnd, hs3, hk⟩ :=
    analyze_specK orig K s hw he hL cnfl hcE hcF hcL noGood bt s3 han
  subst hs3 hlits
  have hdl3 : (s.popN k).decisionLevel = s.decisionLevel := an_popN_decisionLevel k s
  rw [popN_popTo s k bt hbt hk]
  obtain ⟨hTw, hTe, hrel, hlev⟩ := wfEnt_popTo hw he hq bt hbt
  have htq : (s.popTo bt).queue = [] := by rw [hrel.queue]; exact hq
  have hpv : (s.popTo bt).value p'.neg = none := by
    have := hrel.gone p' hpt (by rw [hlev, hpl]; exact hbt)
    rw [value_eq_none] at this ⊢; exact this
  have hplt : p'.neg.var < (s.popTo bt).vals.length := by
    rw [hrel.lenVals]; exact hw.a.trail_lt (l := p') hpt
  have hrest : ∀ x ∈ learnt, x.neg ∈ (s.popTo bt).trail := by
    intro x hx
    obtain ⟨h1, _, h3⟩ := hlearnt x hx
    exact hrel.kept _ h1 (by rw [hlev]; simpa using h3)
  obtain ⟨r1, r2, r3, r4, r5, r6, r7, r8⟩ := record_wf_ent hTw hTe htq p'.neg learnt hpv hplt hrest
    (fun e => by rw [hlev]; exact hbt0 e) hent hnd
  refine ⟨r1, r2.keeps_weaken (fun d hd' => List.mem_append_left _ hd'), hent, ?_, ?_, ?_, ?_, hbt, ?_, ⟨_, r3⟩, hdl3, rfl⟩
  · rw [r6, hrel.log]
  · rw [r7, hrel.dead]
  · rw [r4, hrel.decisions]; exact List.drop_suffix _ _
  · show ((s.popTo bt).record (p'.neg :: learnt)).trailLim.length = bt
    rw [r5]; exact hlev
  · rw [r8, hrel.lenVals]

end Sat
end Oratio

namespace Oratio
namespace Net

/-! ### from the SAT-level invariant over `orig ++ L` to T-entailment -/

/-- the SAT-level invariants of the network: the structural invariant of C07, the semantic
    invariant over the added clauses extended by the ghost list `L` of theory lemmas, and every
    clause of `L` is T-entailed by the added clauses -/
structure SatInv (n : Net) (orig L : Cnf) : Prop where
  wf : n.sat.Wf
  ent : n.sat.Ent (orig ++ L) orig
  lemmas : ∀ c ∈ L, TEntails n orig c

/-- entailment from the added clauses, theory lemmas and units is T-entailment from the added
    clauses and the units -/
theorem tentails_of_ents {n : Net} {orig L U : Cnf} {c : Clause} (hl : ∀ d ∈ L, TEntails n orig d)
    (h : Ents (orig ++ L ++ U) c) : TEntails n (orig ++ U) c := by
  intro α h0 hF hm
  rw [Asg.cnf_append, Bool.and_eq_true] at hF
  apply h α h0
  rw [Asg.cnf_append, Asg.cnf_append, hF.1, hF.2]
  simp only [Bool.true_and, Bool.and_true]
  simp only [Asg.cnf, List.all_eq_true]
  exact fun d hd => hl d hd α h0 hF.1 hm

theorem tentails_of_ents' {n : Net} {orig L : Cnf} {c : Clause} (hl : ∀ d ∈ L, TEntails n orig d)
    (h : Ents (orig ++ L) c) : TEntails n orig c := by
  have := tentails_of_ents (U := []) hl (by simpa using h)
  simpa using this

theorem SatInv.sound {n : Net} {orig L : Cnf} (h : SatInv n orig L) : NetSound n orig := by
  refine ⟨fun e he => tentails_of_ents' h.lemmas (h.ent.clauses e he), fun c hc => tentails_of_ents' h.lemmas (h.ent.log c hc),
    fun l hl => tentails_of_ents h.lemmas ((h.ent.trail l hl).mono (Sat.units_mono (List.drop_suffix _ _))), ?_⟩
  intro hd α h0 hm
  cases ho : α.cnf orig with
  | false => rfl
  | true =>
    have := h.ent.dead hd α h0
    rw [Asg.cnf_append, ho, Bool.true_and] at this
    have hL : α.cnf L = true := by
      simp only [Asg.cnf, List.all_eq_true]
      exact fun d hd' => h.lemmas d hd' α h0 ho hm
    rw [hL] at this; cases this

/-! ### `learnFrom` -/

theorem popTo_go_theories (lvl : Nat) : ∀ (k : Nat) (n m : Net), n.lra = m.lra → n.idl = m.idl → n.rdl = m.rdl →
    n.bound = m.bound → n.sat.decisionLevel = m.sat.decisionLevel →
    (popTo.go lvl k n).lra = (popTo.go lvl k m).lra ∧ (popTo.go lvl k n).idl = (popTo.go lvl k m).idl ∧
    (popTo.go lvl k n).rdl = (popTo.go lvl k m).rdl ∧ (popTo.go lvl k n).bound = (popTo.go lvl k m).bound
  | 0, _, _, h1, h2, h3, h4, _ => ⟨h1, h2, h3, h4⟩
  | k + 1, n, m, h1, h2, h3, h4, h5 => by
    unfold popTo.go
    rw [h5]
    split
    · apply popTo_go_theories lvl k n.pop m.pop
      · show n.lra.pop = m.lra.pop; rw [h1]
      · show n.idl.pop = m.idl.pop; rw [h2]
      · show n.rdl.pop = m.rdl.pop; rw [h3]
      · exact h4
      · show n.sat.pop.decisionLevel = m.sat.pop.decisionLevel
        rw [Sat.pop_decisionLevel, Sat.pop_decisionLevel, h5]
    · exact ⟨h1, h2, h3, h4⟩

/-- the result of `learnFrom`, spelled out: the theories are those of `popTo n bt`, the SAT core is
    `(s3.popTo bt).record noGood` -/
theorem learnFrom_eq {n n' : Net} {noGood : List Lit} {bt : Nat} {s3 : Sat}
    (hdl : s3.decisionLevel = n.sat.decisionLevel)
    (hl : some ({ popTo { n with sat := s3 } bt with sat := (popTo { n with sat := s3 } bt).sat.record noGood } : Net) = some n') :
    n' = { popTo n bt with sat := (s3.popTo bt).record noGood } := by
  simp only [Option.some.injEq] at hl
  rw [← hl]
  obtain ⟨e1, e2, e3, e4⟩ := popTo_go_theories bt n.sat.decisionLevel { n with sat := s3 } n rfl rfl rfl rfl hdl
  have hgo : popTo { n with sat := s3 } bt = popTo.go bt n.sat.decisionLevel { n with sat := s3 } := by
    show popTo.go bt ({ n with sat := s3 } : Net).sat.decisionLevel _ = _
    rw [show ({ n with sat := s3 } : Net).sat.decisionLevel = n.sat.decisionLevel from hdl]
  rw [popTo_sat, hgo]
  show Net.mk _ _ _ _ _ = Net.mk _ _ _ _ _
  rw [e1, e2, e3, e4]
  rfl

/-- **`learnFrom` is sound.**  `cnfl` is T-entailed by the added clauses, all its literals are false
    on the trail, one of them at the current decision level (> 0), the propagation queue is empty.
    Then the no-good recorded is T-entailed, the SAT-level invariants hold of the resulting network
    for the ghost list extended by `cnfl`, and the resulting network is sound. -/
theorem learnFrom_sound {n n' : Net} {orig L : Cnf} {cnfl : Clause} (h : SatInv n orig L) (hq : n.sat.queue = [])
    (hL : 0 < n.sat.decisionLevel) (hT : TEntails n orig cnfl) (hcF : ∀ l ∈ cnfl, l.neg ∈ n.sat.trail)
    (hcL : ∃ l ∈ cnfl, n.sat.lvl l = n.sat.decisionLevel) (hl : learnFrom n cnfl = some n') :
    ∃ noGood bt, n' = { popTo n bt with sat := (n.sat.popTo bt).record noGood } ∧ bt < n.sat.decisionLevel ∧
      n'.sat.decisionLevel = bt ∧ n'.sat.log = n.sat.log ++ [noGood] ∧ n'.sat.dead = n.sat.dead ∧
      n'.sat.decisions <:+ n.sat.decisions ∧ (∀ α, TModel n' α ↔ TModel n α) ∧
      TEntails n' orig noGood ∧ SatInv n' orig (L ++ [cnfl]) ∧ NetSound n' orig := by
  unfold learnFrom at hl
  split at hl
  · cases hl
  · rename_i noGood bt s3 han
    have hL' : ∀ c ∈ L ++ [cnfl], TEntails n orig c := by
      intro c hc
      rcases List.mem_append.1 hc with hc | hc
      · exact h.lemmas c hc
      · rw [List.mem_singleton.1 hc]; exact hT
    have he' : n.sat.Ent (orig ++ (L ++ [cnfl])) orig :=
      h.ent.mono_orig (fun d hd => by
        rcases List.mem_append.1 hd with hd | hd
        · exact List.mem_append_left _ hd
        · exact List.mem_append_right _ (List.mem_append_left _ hd))
    obtain ⟨r1, r2, r3, r4, r5, r6, r7, r8, r9, r10, r11, r12⟩ := Sat.learn_spec h.wf he' hq hL cnfl
      (Ents.of_mem (List.mem_append_right _ (List.mem_append_right _ (List.mem_singleton.2 rfl)))) hcF hcL noGood bt s3 han
    have heq := learnFrom_eq r11 hl
    rw [r12] at heq r1 r2 r4 r5 r6 r7
    have hcongr : ∀ α, TModel n' α ↔ TModel n α := by
      intro α
      rw [heq]
      exact (TModel.congr (n := popTo n bt) (n' := { popTo n bt with sat := (n.sat.popTo bt).record noGood })
        (LraSame.refl _) rfl rfl α).trans (TModel.popTo n bt α)
    have hL'' : ∀ c ∈ L ++ [cnfl], TEntails n' orig c :=
      fun c hc => TEntails.congr (fun α hm => (hcongr α).1 hm) (hL' c hc)
    have hsat : n'.sat = (n.sat.popTo bt).record noGood := by rw [heq]
    have hinv : SatInv n' orig (L ++ [cnfl]) := ⟨by rw [hsat]; exact r1, by rw [hsat]; exact r2, hL''⟩
    refine ⟨noGood, bt, heq, r8, by rw [hsat]; exact r7, by rw [hsat]; exact r4, by rw [hsat]; exact r5,
      by rw [hsat]; exact r6, hcongr, tentails_of_ents' hL'' r3, hinv, hinv.sound⟩

end Net
end Oratio

namespace Oratio
namespace Net

/-- `learnFrom` keeps the theory invariants (for the frames of the levels that remain) -/
theorem learnFrom_thInv {n : Net} {orig : Cnf} {fr : List Frame} (h : ThInv n orig fr) (hf : FramesLe n.sat fr)
    (hl : fr.length = n.sat.decisionLevel) (bt : Nat) (noGood : List Lit) :
    ∃ fr', ThInv { popTo n bt with sat := (n.sat.popTo bt).record noGood } orig fr' ∧ fr'.length = min bt n.sat.decisionLevel := by
  obtain ⟨fr', h1, _, h3⟩ := h.popTo hf hl bt
  refine ⟨fr', ?_, ?_⟩
  · have := h1.assign ((n.sat.popTo bt).record noGood) (by rw [popTo_sat]; exact Dl.record_le _ _)
    exact this
  · rw [h3, popTo_sat, Sat.popTo_level]

end Net
end Oratio
