/-
C07N, non-vacuity: the IDL cycle of C10X under three DECISIONS.

SAT core: three variables, `assume b1`, `assume ¬b2`, `assume b3` (run through the C07 step function,
so that C07's invariant is available).  IDL theory: `b1 : x3 - x1 ≤ 5`, `b2 : x3 - x2 ≤ 2`,
`b3 : x1 - x2 ≤ -3`, with `b1`, `¬b2` already propagated.  `theoryPropagate` of `b3` returns the conflict
clause `[b2, ¬b1, ¬b3]`; `learnFrom` analyses it (first UIP `b3`), backjumps to level 2 and records it.
-/
import OratioProofs.Lemmas.NetSoundLearn

namespace Oratio
namespace NetEx
open C10XExample Net

deriving instance DecidableEq for Sat

/-- a history of the C07 step function -/
def runL (fuel : Nat) : Sat × Cnf → List Sat.Op → Option (Sat × Cnf)
  | st, [] => some st
  | st, op :: ops => match Sat.stepL fuel st.1 st.2 op with
    | none => none
    | some (s', o', _) => runL fuel (s', o') ops

theorem runL_inv (fuel : Nat) : ∀ (ops : List Sat.Op) (st st' : Sat × Cnf), Sat.InvB st.2 st.1 →
    runL fuel st ops = some st' → Sat.InvB st'.2 st'.1
  | [], st, st', h, he => by
    simp only [runL, Option.some.injEq] at he; subst he; exact h
  | op :: ops, st, st', h, he => by
    unfold runL at he
    split at he
    · cases he
    · rename_i s' o' b hs
      exact runL_inv fuel ops (s', o') st' (Sat.step_spec h hs).inv he

def exOps : List Sat.Op := [.newVar, .newVar, .newVar, .assume ⟨1, true⟩, .assume ⟨2, false⟩, .assume ⟨3, true⟩]
def exS : Sat × Cnf := (runL 100 (Sat.init, []) exOps).getD (Sat.init, [])

theorem exS_run : runL 100 (Sat.init, []) exOps = some exS := by
  have h : (runL 100 (Sat.init, []) exOps).isSome = true := by decide
  unfold exS
  cases hr : runL 100 (Sat.init, []) exOps with
  | none => rw [hr] at h; cases h
  | some r => rfl

theorem exS_invB : Sat.InvB [] exS.1 := by
  have := runL_inv 100 exOps (Sat.init, []) exS Sat.init_invB exS_run
  rw [show exS.2 = [] by decide] at this
  exact this

theorem satLe_of_vals {s s' : Sat}
    (h : ∀ v, v < s.vals.length → s.vals.getD v none = none ∨ s.vals.getD v none = s'.vals.getD v none) :
    Dl.SatLe s s' := by
  intro v b hv
  rcases h v (getD_some_lt hv) with h1 | h1
  · rw [h1] at hv; cases hv
  · rw [← h1]; exact hv

/-- the IDL theory after `propagate(b1)`, `propagate(¬b2)` under the SAT state with the three decisions -/
def qA := getR (Dl.propagateLit idlOps exS.1 r3.2.2 ⟨1, true⟩)
def qB := getR (Dl.propagateLit idlOps qA.1 qA.2 ⟨2, false⟩)

def exCnfl : List Lit := [⟨2, true⟩, ⟨1, false⟩, ⟨3, false⟩]

theorem qB_sat : qB.1 = exS.1 := by decide

theorem exIdl : IdlBase exS.1 qB.2 ∧ Dl.propagateLit idlOps exS.1 qB.2 ⟨3, true⟩ = .inl exCnfl := by
  have e0 : (Dl.init idlOps 16 : Dl Int).Exact 10 [] := C10_init_exact 10 (by decide)
  have p0 : Dl.PathInv Sat.init (Dl.init idlOps 16 : Dl Int) := C10X_init_pathinv _
  have e1 : t1.Exact 10 [] := (C10_newVar_exact 10 [] _ e0 (by decide)).1
  have p1 : Dl.PathInv Sat.init t1 := C10X_newVar_pathinv 10 [] _ _ e0 p0
  have e2 : t2.Exact 10 [] := (C10_newVar_exact 10 [] _ e1 (by decide)).1
  have p2 : Dl.PathInv Sat.init t2 := C10X_newVar_pathinv 10 [] _ _ e1 p1
  have e3 : t3.Exact 10 [] := (C10_newVar_exact 10 [] _ e2 (by decide)).1
  have p3 : Dl.PathInv Sat.init t3 := C10X_newVar_pathinv 10 [] _ _ e2 p2
  have q1 := C10X_newDistance_pathinv 10 [] Sat.init t3 e3 p3 1 3 5
  have q2 := C10X_newDistance_pathinv 10 [] r1.2.1 r1.2.2 q1.2 q1.1 2 3 2
  have q3 := C10X_newDistance_pathinv 10 [] r2.2.1 r2.2.2 q2.2 q2.1 2 1 (-3)
  have hle : Dl.SatLe r3.2.1 exS.1 := satLe_of_vals (by decide)
  have pA0 : Dl.PathInv exS.1 r3.2.2 := C10X_assign_pathinv _ _ _ q3.1 hle
  have hs0 : Undo.SortedK r3.2.2.distConstr := by
    rw [show r3.2.2.distConstr = [] by decide]; exact Undo.sortedK_nil
  have hA : Dl.propagateLit idlOps exS.1 r3.2.2 ⟨c1.b, true⟩ = .inr (qA.1, qA.2) := inr_of _ (by decide)
  have sA' := C10X_propagate_pathinv 10 [] exS.1 qA.1 r3.2.2 qA.2 q3.2 pA0 c1 (by decide) true (by decide) (by decide) hA
  have hsA := propagateLit_sorted idlOps hs0 ⟨c1.b, true⟩ hA
  have hB : Dl.propagateLit idlOps qA.1 qA.2 ⟨c2.b, false⟩ = .inr (qB.1, qB.2) := inr_of _ (by decide)
  have sB' := C10X_propagate_pathinv 10 _ qA.1 qB.1 qA.2 qB.2 sA'.2.1 sA'.1 c2 (by decide) false (by decide) (by decide) hB
  have hsB := propagateLit_sorted idlOps hsA ⟨c2.b, false⟩ hB
  have hC : Dl.propagateLit idlOps qB.1 qB.2 ⟨c3.b, true⟩ = .inl exCnfl := inl_of _ _ (by decide) (by decide)
  rw [qB_sat] at hC sB'
  refine ⟨⟨⟨10, _, sB'.2.1, ?_⟩, sB'.1, hsB⟩, hC⟩
  intro c hc
  have hv : qB.2.varDists = [c1, c2, c3] := by decide
  rw [hv] at hc
  simp only [List.mem_cons, List.not_mem_nil, or_false] at hc
  rcases hc with rfl | rfl | rfl <;> decide

/-- the network: SAT core with the three decisions, the IDL theory above, empty LRA and RDL theories -/
def exNet : Net := ⟨exS.1, Lra.init, qB.2, Dl.init rdlOps, [(1, .idl), (2, .idl), (3, .idl)]⟩

theorem exNet_thInv : ThInv exNet [] [] := by
  refine ⟨⟨C09X_init_inv.1, C09X_init_inv.2, (fun e he => by cases he), (fun e he => by cases he), ?_, ?_⟩, exIdl.1,
    ⟨⟨[], C10R_init_exact⟩, (fun c hc => by cases hc), C10XR_init_pathinv _, Undo.sortedK_nil, C10R_epsInt_init,
      (fun c hc => by cases hc)⟩⟩
  · intro α σr σi _ _ _ _ x hx
    exact absurd hx (by show ¬ (Lra.ubIdx x < ([] : List LBound).length); simp)
  · intro x
    show exS.1.value Lit.trueLit = some true ∧ exS.1.value Lit.trueLit = some true
    exact ⟨by decide, by decide⟩

theorem exNet_propagate : theoryPropagate exNet ⟨3, true⟩ = (some exCnfl, exNet) := by
  unfold theoryPropagate
  rw [show exNet.theoryOf (⟨3, true⟩ : Lit).var = some Th.idl by decide]
  simp only
  rw [show Dl.propagateLit idlOps exNet.sat exNet.idl ⟨3, true⟩ = .inl exCnfl from exIdl.2]

/-- target 1 on the example: the conflict clause is T-entailed (by the empty clause set) -/
theorem exNet_conflict : TEntails exNet [] exCnfl ∧ ∀ l ∈ exCnfl, exNet.sat.value l = some false := by
  have h := (theoryPropagate_spec exNet_thInv ⟨3, true⟩ (by decide)).2.2.2.2 exCnfl (by rw [exNet_propagate])
  rw [exNet_propagate] at h
  exact h

theorem exNet_satInv : SatInv exNet [] [] :=
  ⟨(exS_invB.inv 0).wf, (exS_invB.inv 0).ent, fun c hc => by cases hc⟩

def exNet' : Net := (learnFrom exNet exCnfl).getD exNet

theorem exNet_learn : learnFrom exNet exCnfl = some exNet' := by
  have h : (learnFrom exNet exCnfl).isSome = true := by decide
  unfold exNet'
  cases hr : learnFrom exNet exCnfl with
  | none => rw [hr] at h; cases h
  | some r => rfl

end NetEx
end Oratio
