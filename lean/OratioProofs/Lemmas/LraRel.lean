/-
Lemmas for property C11: the structure of what `Lra.newVarLin` and `Lra.newRel` return, and the
well-formedness invariant of the LRA model (`Lra.RelInv`) under which the statements of C11 hold.
-/
import OratioModel

namespace Oratio
namespace Lra

/-! ## association lists -/

theorem findKey_eq_none {β : Type} {m : List (String × β)} {k : String} :
    findKey m k = none ↔ ∀ e ∈ m, (e.1 == k) = false := by
  unfold findKey
  rw [Option.map_eq_none_iff, List.find?_eq_none]
  constructor
  · intro h e he; simpa using h e he
  · intro h e he; simp [h e he]

theorem findKey_some_mem {β : Type} {m : List (String × β)} {k : String} {v : β}
    (h : findKey m k = some v) : ∃ e ∈ m, e.2 = v := by
  unfold findKey at h
  rw [Option.map_eq_some_iff] at h
  obtain ⟨e, he, hv⟩ := h
  exact ⟨e, List.mem_of_find?_eq_some he, hv⟩

theorem mem_emplaceKey {β : Type} {m : List (String × β)} {k : String} {v : β} {e : String × β}
    (h : e ∈ emplaceKey m k v) : e ∈ m ∨ e = (k, v) := by
  unfold emplaceKey at h
  split at h
  · exact Or.inl h
  · simpa using h

theorem mem_emplaceKey_of_mem {β : Type} {m : List (String × β)} {k : String} {v : β} {e : String × β}
    (h : e ∈ m) : e ∈ emplaceKey m k v := by
  unfold emplaceKey
  split
  · exact h
  · exact List.mem_append_left _ h

/-- `emplace` of an absent key, then `find` of it -/
theorem findKey_emplaceKey_self {β : Type} {m : List (String × β)} {k : String} {v : β}
    (h : findKey m k = none) : findKey (emplaceKey m k v) k = some v := by
  have hn := findKey_eq_none.1 h
  have hany : m.any (fun e => e.1 == k) = false := by
    rw [List.any_eq_false]; intro e he; simp [hn e he]
  have hf : m.find? (fun e => e.1 == k) = none := by
    rw [List.find?_eq_none]; intro e he; simp [hn e he]
  unfold emplaceKey findKey
  simp [hany, List.find?_append, hf]

/-- the assertion of a control variable registered last, when none was registered for it -/
theorem find_append_new {m : List (Nat × LAsrt)} {n : Nat} {a : LAsrt} (h : ∀ e ∈ m, e.1 < n) :
    ((m ++ [(n, a)]).find? (fun e => e.1 == n)).map (·.2) = some a := by
  have hf : m.find? (fun e => e.1 == n) = none := by
    rw [List.find?_eq_none]; intro e he
    have := h e he
    simp only [beq_iff_eq]; omega
  simp [List.find?_append, hf]

theorem getD_set_self {α : Type} (l : List α) (i : Nat) (x d : α) (h : i < l.length) :
    (l.set i x).getD i d = x := by
  simp [List.getD_eq_getElem?_getD, h]

theorem getD_set_ne {α : Type} (l : List α) (i j : Nat) (x d : α) (h : i ≠ j) :
    (l.set i x).getD j d = l.getD j d := by
  simp [List.getD_eq_getElem?_getD, h]

theorem getD_append_left {α : Type} (l l' : List α) (i : Nat) (d : α) (h : i < l.length) :
    (l ++ l').getD i d = l.getD i d := by
  simp [List.getD_eq_getElem?_getD, List.getElem?_append_left h]

theorem mem_tabInsert {m : List (Nat × Lin)} {x : Nat} {l : Lin} {e : Nat × Lin} (h : e ∈ m) :
    e ∈ tabInsert m x l := by
  induction m with
  | nil => cases h
  | cons a rest ih =>
    unfold tabInsert
    split
    · exact List.mem_cons_of_mem _ h
    · split
      · exact h
      · rcases List.mem_cons.1 h with h | h
        · exact h ▸ List.mem_cons_self
        · exact List.mem_cons_of_mem _ (ih h)

/-! ## `newRow`, `newVarLin` -/

theorem watch_fold (x : Nat) (vs : List (Nat × R)) (t : Lra) :
    ∃ tw, vs.foldl (fun t e => watchRow t e.1 x) t = { t with tWatches := tw } := by
  induction vs generalizing t with
  | nil => exact ⟨t.tWatches, rfl⟩
  | cons e vs ih =>
    obtain ⟨tw, h⟩ := ih (watchRow t e.1 x)
    exact ⟨tw, by rw [List.foldl_cons, h]; rfl⟩

theorem newRow_eq (t : Lra) (x : Nat) (l : Lin) :
    ∃ tw, newRow t x l = { t with tableau := tabInsert t.tableau x l, tWatches := tw } := by
  obtain ⟨tw, h⟩ := watch_fold x l.vars { t with tableau := tabInsert t.tableau x l }
  exact ⟨tw, by unfold newRow; rw [h]⟩

@[simp] theorem newRow_bounds (t : Lra) (x : Nat) (l : Lin) : (newRow t x l).bounds = t.bounds := by
  obtain ⟨tw, h⟩ := newRow_eq t x l; rw [h]
@[simp] theorem newRow_vals (t : Lra) (x : Nat) (l : Lin) : (newRow t x l).vals = t.vals := by
  obtain ⟨tw, h⟩ := newRow_eq t x l; rw [h]
@[simp] theorem newRow_tableau (t : Lra) (x : Nat) (l : Lin) : (newRow t x l).tableau = tabInsert t.tableau x l := by
  obtain ⟨tw, h⟩ := newRow_eq t x l; rw [h]
@[simp] theorem newRow_exprs (t : Lra) (x : Nat) (l : Lin) : (newRow t x l).exprs = t.exprs := by
  obtain ⟨tw, h⟩ := newRow_eq t x l; rw [h]
@[simp] theorem newRow_sAsrts (t : Lra) (x : Nat) (l : Lin) : (newRow t x l).sAsrts = t.sAsrts := by
  obtain ⟨tw, h⟩ := newRow_eq t x l; rw [h]
@[simp] theorem newRow_vAsrts (t : Lra) (x : Nat) (l : Lin) : (newRow t x l).vAsrts = t.vAsrts := by
  obtain ⟨tw, h⟩ := newRow_eq t x l; rw [h]
@[simp] theorem newRow_aWatches (t : Lra) (x : Nat) (l : Lin) : (newRow t x l).aWatches = t.aWatches := by
  obtain ⟨tw, h⟩ := newRow_eq t x l; rw [h]
@[simp] theorem newRow_layers (t : Lra) (x : Nat) (l : Lin) : (newRow t x l).layers = t.layers := by
  obtain ⟨tw, h⟩ := newRow_eq t x l; rw [h]

/-- What `newVarLin` returns: a variable known to `exprs` (the theory unchanged but for one more
    name in `exprs`), or a new slack variable `vals.length` whose two bounds and value are the
    only entries written. -/
theorem newVarLin_spec {s : Sat} {t : Lra} {l : Lin} {slack : Nat} {t1 : Lra}
    (h : newVarLin s t l = some (slack, t1)) :
    t1.sAsrts = t.sAsrts ∧ t1.vAsrts = t.vAsrts ∧ t1.layers = t.layers ∧
    (∀ e ∈ t.tableau, e ∈ t1.tableau) ∧ (∀ e ∈ t1.exprs, e ∈ t.exprs ∨ e.2 = slack) ∧
    ((t1.bounds = t.bounds ∧ t1.vals = t.vals ∧ t1.aWatches = t.aWatches ∧ ∃ e ∈ t.exprs, e.2 = slack) ∨
     (slack = t.vals.length ∧
      (∃ b0 b1 b2 b3, t1.bounds = ((t.bounds ++ [b0, b1]).set (lbIdx slack) b2).set (ubIdx slack) b3) ∧
      (∃ x0 x1, t1.vals = (t.vals ++ [x0]).set slack x1) ∧ t1.aWatches = t.aWatches ++ [[]])) := by
  unfold newVarLin at h
  split at h
  · cases h
  · simp only [] at h
    split at h
    · rename_i v hv
      cases h
      exact ⟨rfl, rfl, rfl, fun e he => he, fun e he => Or.inl he, Or.inl ⟨rfl, rfl, rfl, findKey_some_mem hv⟩⟩
    · split at h
      · rename_i v hv
        cases h
        refine ⟨rfl, rfl, rfl, fun e he => he, ?_, Or.inl ⟨rfl, rfl, rfl, findKey_some_mem hv⟩⟩
        intro e he
        rcases mem_emplaceKey he with he | he
        · exact Or.inl he
        · exact Or.inr (by rw [he])
      · split at h
        · cases h
        · cases h
          refine ⟨(newRow_sAsrts _ _ _).trans rfl, (newRow_vAsrts _ _ _).trans rfl, (newRow_layers _ _ _).trans rfl,
            fun e he => (newRow_tableau _ _ _) ▸ mem_tabInsert he, ?_,
            Or.inr ⟨rfl, ⟨_, _, _, _, (newRow_bounds _ _ _).trans rfl⟩, ⟨_, _, (newRow_vals _ _ _).trans rfl⟩,
              (newRow_aWatches _ _ _).trans rfl⟩⟩
          rw [newRow_exprs]
          intro e he
          rcases mem_emplaceKey he with he | he
          · rcases mem_emplaceKey he with he | he
            · rcases mem_emplaceKey (show e ∈ emplaceKey t.exprs _ _ from he) with he | he
              · exact Or.inl he
              · exact Or.inr (by rw [he]; rfl)
            · exact Or.inr (by rw [he])
          · exact Or.inr (by rw [he])

/-! ## `newRel` -/

/-- the rewritten difference, the constant and the direction of `newRel` -/
def relE (t : Lra) (left right : Lin) : Lin := { substBasic t (Lin.sub left right) with known := R.zero }
def relC (t : Lra) (r : LRel) (left right : Lin) : IR :=
  let k := (substBasic t (Lin.sub left right)).known
  match r with
  | .lt => ⟨R.neg k, R.ofInt (-1)⟩
  | .leq => IR.neg (IR.ofR k)
  | .geq => IR.neg (IR.ofR k)
  | .gt => ⟨R.neg k, R.ofInt 1⟩
def relUp (r : LRel) : Bool := r = .lt ∨ r = .leq

/-- the test `sat?` of `newRel` -/
def relSat (up : Bool) (c lo hi : IR) : Option Lit :=
  if up then (if IR.le hi c then some Lit.trueLit else if IR.gt lo c then some Lit.falseLit else none)
  else (if IR.ge lo c then some Lit.trueLit else if IR.lt hi c then some Lit.falseLit else none)

/-- the printed key of the assertion -/
def relKey (up : Bool) (slack : Nat) (c : IR) : String :=
  "x" ++ toString slack ++ (if up then " <= " else " >= ") ++ irToStr c

/-- the registration of a new assertion controlled by the SAT variable `ctr` -/
def relReg (t : Lra) (up : Bool) (slack : Nat) (c : IR) (ctr : Nat) : Lra :=
  { t with sAsrts := emplaceKey t.sAsrts (relKey up slack c) ⟨ctr, true⟩,
           vAsrts := t.vAsrts ++ [(ctr, ⟨if up then .leq else .geq, ⟨ctr, true⟩, slack, c⟩)],
           aWatches := t.aWatches.set slack (t.aWatches.getD slack [] ++ [ctr]) }

/-- `newRel` with the direction as a `Bool` and the expression and constant as parameters -/
def newRelAux (s : Sat) (t : Lra) (up : Bool) (e : Lin) (c : IR) : Option (Lit × Sat × Lra × Option Nat) :=
  match relSat up c (t.lbLin e) (t.ubLin e) with
  | some l => some (l, s, t, none)
  | none =>
    match newVarLin s t e with
    | none => none
    | some (slack, t1) =>
      match relSat up c (t1.lb slack) (t1.ub slack) with
      | some l => some (l, s, t1, none)
      | none =>
        match findKey t1.sAsrts (relKey up slack c) with
        | some l => some (l, s, t1, none)
        | none => some (⟨s.nvars, true⟩, s.newVar.2, relReg t1 up slack c s.nvars, some s.nvars)

theorem newRel_eq_aux (s : Sat) (t : Lra) (r : LRel) (left right : Lin) :
    newRel s t r left right = newRelAux s t (relUp r) (relE t left right) (relC t r left right) := by
  cases r <;> rfl

/-- the outcomes of `newRel`: decided by the bounds of the expression, decided by the bounds of
    the slack variable, an assertion found in `sAsrts`, a new assertion -/
inductive RelOutcome (s : Sat) (t : Lra) (up : Bool) (e : Lin) (c : IR) (l : Lit) (s' : Sat) (t' : Lra) (b : Option Nat) : Prop where
  | decidedExpr (h0 : relSat up c (t.lbLin e) (t.ubLin e) = some l) (hs : s' = s) (ht : t' = t) (hb : b = none)
  | decidedSlack (slack : Nat) (h0 : relSat up c (t.lbLin e) (t.ubLin e) = none)
      (hv : newVarLin s t e = some (slack, t')) (h1 : relSat up c (t'.lb slack) (t'.ub slack) = some l)
      (hs : s' = s) (hb : b = none)
  | cached (slack : Nat) (h0 : relSat up c (t.lbLin e) (t.ubLin e) = none)
      (hv : newVarLin s t e = some (slack, t')) (h1 : relSat up c (t'.lb slack) (t'.ub slack) = none)
      (hf : findKey t'.sAsrts (relKey up slack c) = some l) (hs : s' = s) (hb : b = none)
  | fresh (slack : Nat) (t1 : Lra) (h0 : relSat up c (t.lbLin e) (t.ubLin e) = none)
      (hv : newVarLin s t e = some (slack, t1)) (h1 : relSat up c (t1.lb slack) (t1.ub slack) = none)
      (hf : findKey t1.sAsrts (relKey up slack c) = none) (hl : l = ⟨s.nvars, true⟩) (hs : s' = s.newVar.2)
      (ht : t' = relReg t1 up slack c s.nvars) (hb : b = some s.nvars)

theorem newRelAux_outcome {s : Sat} {t : Lra} {up : Bool} {e : Lin} {c : IR} {l : Lit} {s' : Sat} {t' : Lra}
    {b : Option Nat} (h : newRelAux s t up e c = some (l, s', t', b)) : RelOutcome s t up e c l s' t' b := by
  unfold newRelAux at h
  split at h
  · rename_i l0 h0
    cases h
    exact .decidedExpr h0 rfl rfl rfl
  · rename_i h0
    split at h
    · cases h
    · rename_i slack t1 hv
      split at h
      · rename_i l1 h1
        cases h
        exact .decidedSlack slack h0 hv h1 rfl rfl
      · rename_i h1
        split at h
        · rename_i l2 hf
          cases h
          exact .cached slack h0 hv h1 hf rfl rfl
        · rename_i hf
          cases h
          exact .fresh slack t1 h0 hv h1 hf rfl rfl rfl rfl

theorem newRel_outcome {s : Sat} {t : Lra} {r : LRel} {left right : Lin} {l : Lit} {s' : Sat} {t' : Lra}
    {b : Option Nat} (h : newRel s t r left right = some (l, s', t', b)) :
    RelOutcome s t (relUp r) (relE t left right) (relC t r left right) l s' t' b :=
  newRelAux_outcome (newRel_eq_aux s t r left right ▸ h)

/-- `sat?` answers a constant, for the reason it tested -/
theorem relSat_some {up : Bool} {c lo hi : IR} {l : Lit} (h : relSat up c lo hi = some l) :
    (up = true ∧ l = Lit.trueLit ∧ IR.le hi c = true) ∨ (up = true ∧ l = Lit.falseLit ∧ IR.gt lo c = true) ∨
    (up = false ∧ l = Lit.trueLit ∧ IR.ge lo c = true) ∨ (up = false ∧ l = Lit.falseLit ∧ IR.lt hi c = true) := by
  unfold relSat at h
  cases up
  · simp only [Bool.false_eq_true, if_false] at h
    split at h
    · cases h; exact Or.inr (Or.inr (Or.inl ⟨rfl, rfl, ‹_›⟩))
    · split at h
      · cases h; exact Or.inr (Or.inr (Or.inr ⟨rfl, rfl, ‹_›⟩))
      · cases h
  · simp only [if_true] at h
    split at h
    · cases h; exact Or.inl ⟨rfl, rfl, ‹_›⟩
    · split at h
      · cases h; exact Or.inr (Or.inl ⟨rfl, rfl, ‹_›⟩)
      · cases h

theorem relSat_const {up : Bool} {c lo hi : IR} {l : Lit} (h : relSat up c lo hi = some l) :
    l = Lit.trueLit ∨ l = Lit.falseLit := by
  rcases relSat_some h with h | h | h | h
  · exact Or.inl h.2.1
  · exact Or.inr h.2.1
  · exact Or.inl h.2.1
  · exact Or.inr h.2.1

/-! ## what `newVarLin` keeps -/

theorem newVarLin_bnd {s : Sat} {t : Lra} {l : Lin} {slack : Nat} {t1 : Lra}
    (h : newVarLin s t l = some (slack, t1)) (hb : t.bounds.length ≤ 2 * t.vals.length)
    (i : Nat) (hi : i < t.bounds.length) : t1.bnd i = t.bnd i := by
  obtain ⟨-, -, -, -, -, h | ⟨hs, ⟨b0, b1, b2, b3, hbs⟩, -, -⟩⟩ := newVarLin_spec h
  · unfold bnd; rw [h.1]
  · unfold bnd
    rw [hbs, getD_set_ne _ _ _ _ _ (by unfold ubIdx; omega), getD_set_ne _ _ _ _ _ (by unfold lbIdx; omega),
      getD_append_left _ _ _ _ hi]

theorem newVarLin_value {s : Sat} {t : Lra} {l : Lin} {slack : Nat} {t1 : Lra}
    (h : newVarLin s t l = some (slack, t1)) (v : Nat) (hv : v < t.vals.length) : t1.value v = t.value v := by
  obtain ⟨-, -, -, -, -, h | ⟨hs, -, ⟨x0, x1, hvs⟩, -⟩⟩ := newVarLin_spec h
  · unfold value; rw [h.2.1]
  · unfold value
    rw [hvs, getD_set_ne _ _ _ _ _ (by omega), getD_append_left _ _ _ _ hv]

theorem newVarLin_vals_length {s : Sat} {t : Lra} {l : Lin} {slack : Nat} {t1 : Lra}
    (h : newVarLin s t l = some (slack, t1)) : t.vals.length ≤ t1.vals.length := by
  obtain ⟨-, -, -, -, -, h | ⟨hs, -, ⟨x0, x1, hvs⟩, -⟩⟩ := newVarLin_spec h
  · rw [h.2.1]; exact Nat.le_refl _
  · rw [hvs, List.length_set, List.length_append]; omega

/-- the variable returned by `newVarLin` has its entry in `a_watches` -/
theorem newVarLin_slack_lt {s : Sat} {t : Lra} {l : Lin} {slack : Nat} {t1 : Lra}
    (h : newVarLin s t l = some (slack, t1)) (hW : t.vals.length ≤ t.aWatches.length)
    (hE : ∀ e ∈ t.exprs, e.2 < t.aWatches.length) : slack < t1.aWatches.length := by
  obtain ⟨-, -, -, -, -, ⟨-, -, hw, e, he, hes⟩ | ⟨hs, -, -, hw⟩⟩ := newVarLin_spec h
  · rw [hw, ← hes]; exact hE e he
  · rw [hw, List.length_append, hs]; simp only [List.length_cons, List.length_nil]; omega

/-! ## the invariant -/

/-- Well-formedness of the pair (SAT core, LRA theory) that `newRel` relies on; it holds of
    `(Sat.init, Lra.init)` and is kept by `newVarLin` and `newRel`.
    * variable 0 of the SAT core exists (it is the constant);
    * no literal in `s_asrts` is a constant;
    * every assertion in `v_asrts` is controlled by an existing SAT variable;
    * `c_bounds` has two entries and `a_watches` one entry per variable;
    * the variables named in `exprs` exist. -/
structure RelInv (s : Sat) (t : Lra) : Prop where
  nvars_pos : 0 < s.nvars
  sAsrts_nonconst : ∀ e ∈ t.sAsrts, e.2 ≠ Lit.trueLit ∧ e.2 ≠ Lit.falseLit
  vAsrts_lt : ∀ e ∈ t.vAsrts, e.1 < s.nvars
  bounds_len : t.bounds.length = 2 * t.vals.length
  aWatches_len : t.aWatches.length = t.vals.length
  exprs_lt : ∀ e ∈ t.exprs, e.2 < t.vals.length

theorem RelInv.init : RelInv Sat.init Lra.init :=
  ⟨by decide, fun e he => (by cases he), fun e he => (by cases he), rfl, rfl, fun e he => (by cases he)⟩

theorem RelInv.newVarLin {s : Sat} {t : Lra} {l : Lin} {slack : Nat} {t1 : Lra} (inv : RelInv s t)
    (h : newVarLin s t l = some (slack, t1)) : RelInv s t1 ∧ slack < t1.vals.length := by
  obtain ⟨hsa, hva, -, -, hex, h | ⟨hs, ⟨b0, b1, b2, b3, hbs⟩, ⟨x0, x1, hvs⟩, hw⟩⟩ := newVarLin_spec h
  · obtain ⟨hb, hv, hw, e, he, hes⟩ := h
    have hlt : slack < t.vals.length := hes ▸ inv.exprs_lt e he
    refine ⟨⟨inv.nvars_pos, hsa ▸ inv.sAsrts_nonconst, hva ▸ inv.vAsrts_lt, by rw [hb, hv]; exact inv.bounds_len,
      by rw [hw, hv]; exact inv.aWatches_len, ?_⟩, hv ▸ hlt⟩
    intro e he
    rw [hv]
    rcases hex e he with he | he
    · exact inv.exprs_lt e he
    · exact he ▸ hlt
  · have hlen : t1.vals.length = t.vals.length + 1 := by rw [hvs, List.length_set, List.length_append]; rfl
    refine ⟨⟨inv.nvars_pos, hsa ▸ inv.sAsrts_nonconst, hva ▸ inv.vAsrts_lt, ?_, ?_, ?_⟩, by omega⟩
    · rw [hbs, hlen, List.length_set, List.length_set, List.length_append, inv.bounds_len]
      simp only [List.length_cons, List.length_nil]; omega
    · rw [hw, hlen, List.length_append, inv.aWatches_len]; rfl
    · intro e he
      rcases hex e he with he | he
      · have := inv.exprs_lt e he; omega
      · omega

theorem nvars_newVar (s : Sat) : s.newVar.2.nvars = s.nvars + 1 := by
  simp [Sat.newVar, Sat.nvars]

/-- no literal cached in `s_asrts` is a constant: kept by `newRel` -/
theorem newRel_sAsrts_nonconst {s : Sat} {t : Lra} {r : LRel} {left right : Lin} {l : Lit} {s' : Sat} {t' : Lra}
    {b : Option Nat} (h : newRel s t r left right = some (l, s', t', b)) (hs : 0 < s.nvars)
    (hA : ∀ e ∈ t.sAsrts, e.2 ≠ Lit.trueLit ∧ e.2 ≠ Lit.falseLit) :
    0 < s'.nvars ∧ ∀ e ∈ t'.sAsrts, e.2 ≠ Lit.trueLit ∧ e.2 ≠ Lit.falseLit := by
  cases newRel_outcome h with
  | decidedExpr h0 hs' ht hb => subst hs' ht; exact ⟨hs, hA⟩
  | decidedSlack slack h0 hv h1 hs' hb => subst hs'; exact ⟨hs, (newVarLin_spec hv).1 ▸ hA⟩
  | cached slack h0 hv h1 hf hs' hb => subst hs'; exact ⟨hs, (newVarLin_spec hv).1 ▸ hA⟩
  | fresh slack t1 h0 hv h1 hf hl hs' ht hb =>
    subst hs' ht
    refine ⟨by rw [nvars_newVar]; omega, ?_⟩
    intro e he
    rcases mem_emplaceKey (show e ∈ emplaceKey t1.sAsrts _ _ from he) with he | he
    · exact hA e ((newVarLin_spec hv).1 ▸ he)
    · subst he
      constructor
      · intro hc
        have h2 : true = false := congrArg Lit.sign hc
        cases h2
      · intro hc
        have : s.nvars = 0 := congrArg Lit.var hc
        omega

/-- every assertion is controlled by an existing SAT variable: kept by `newRel` -/
theorem newRel_vAsrts_lt {s : Sat} {t : Lra} {r : LRel} {left right : Lin} {l : Lit} {s' : Sat} {t' : Lra}
    {b : Option Nat} (h : newRel s t r left right = some (l, s', t', b)) (hV : ∀ e ∈ t.vAsrts, e.1 < s.nvars) :
    s.nvars ≤ s'.nvars ∧ ∀ e ∈ t'.vAsrts, e.1 < s'.nvars := by
  cases newRel_outcome h with
  | decidedExpr h0 hs' ht hb => subst hs' ht; exact ⟨Nat.le_refl _, hV⟩
  | decidedSlack slack h0 hv h1 hs' hb => subst hs'; exact ⟨Nat.le_refl _, (newVarLin_spec hv).2.1 ▸ hV⟩
  | cached slack h0 hv h1 hf hs' hb => subst hs'; exact ⟨Nat.le_refl _, (newVarLin_spec hv).2.1 ▸ hV⟩
  | fresh slack t1 h0 hv h1 hf hl hs' ht hb =>
    subst hs' ht
    refine ⟨by rw [nvars_newVar]; omega, ?_⟩
    intro e he
    rw [nvars_newVar]
    rcases List.mem_append.1 (show e ∈ t1.vAsrts ++ _ from he) with he | he
    · have := hV e ((newVarLin_spec hv).2.1 ▸ he); omega
    · rw [List.mem_singleton] at he; subst he; exact Nat.lt_succ_self _

theorem RelInv.relReg {s : Sat} {t : Lra} (inv : RelInv s t) (up : Bool) (slack : Nat) (c : IR) :
    RelInv s.newVar.2 (relReg t up slack c s.nvars) := by
  refine ⟨by rw [nvars_newVar]; omega, ?_, ?_, inv.bounds_len, ?_, inv.exprs_lt⟩
  · intro e he
    rcases mem_emplaceKey (show e ∈ emplaceKey t.sAsrts _ _ from he) with he | he
    · exact inv.sAsrts_nonconst e he
    · subst he
      constructor
      · intro hc
        have h2 : true = false := congrArg Lit.sign hc
        cases h2
      · intro hc
        have : s.nvars = 0 := congrArg Lit.var hc
        have := inv.nvars_pos
        omega
  · intro e he
    rw [nvars_newVar]
    rcases List.mem_append.1 (show e ∈ t.vAsrts ++ _ from he) with he | he
    · have := inv.vAsrts_lt e he; omega
    · rw [List.mem_singleton] at he; subst he; exact Nat.lt_succ_self _
  · show (t.aWatches.set _ _).length = t.vals.length
    rw [List.length_set]; exact inv.aWatches_len

/-- the invariant is kept by `newRel` -/
theorem RelInv.newRel {s : Sat} {t : Lra} {r : LRel} {left right : Lin} {l : Lit} {s' : Sat} {t' : Lra}
    {b : Option Nat} (inv : RelInv s t) (h : newRel s t r left right = some (l, s', t', b)) : RelInv s' t' := by
  cases newRel_outcome h with
  | decidedExpr h0 hs' ht hb => subst hs' ht; exact inv
  | decidedSlack slack h0 hv h1 hs' hb => subst hs'; exact (inv.newVarLin hv).1
  | cached slack h0 hv h1 hf hs' hb => subst hs'; exact (inv.newVarLin hv).1
  | fresh slack t1 h0 hv h1 hf hl hs' ht hb => subst hs' ht; exact (inv.newVarLin hv).1.relReg _ _ _

/-- the invariant mentions the SAT core only through its number of variables, monotonically -/
theorem RelInv.mono {s s' : Sat} {t : Lra} (inv : RelInv s t) (h : s.nvars ≤ s'.nvars) : RelInv s' t :=
  ⟨Nat.lt_of_lt_of_le inv.nvars_pos h, inv.sAsrts_nonconst, fun e he => Nat.lt_of_lt_of_le (inv.vAsrts_lt e he) h,
    inv.bounds_len, inv.aWatches_len, inv.exprs_lt⟩

/-- `newEq`: the invariant holds of the theory returned with the SAT core to which `new_conj` is applied
    (and so, by `RelInv.mono`, with any SAT core having at least its variables) -/
theorem RelInv.newEq {s : Sat} {t : Lra} {left right : Lin} {l : Lit} {s' : Sat} {t' : Lra} {bs : List Nat}
    (inv : RelInv s t) (h : newEq s t left right = some (l, s', t', bs)) :
    ∃ s2 l1 l2, (l, s') = s2.newConj [l1, l2] ∧ RelInv s2 t' := by
  unfold Lra.newEq at h
  split at h
  · cases h
  · rename_i l1 s1 t1 b1 h1
    split at h
    · cases h
    · rename_i l2 s2 t2 b2 h2
      cases h
      exact ⟨s2, l1, l2, rfl, (inv.newRel h1).newRel h2⟩

end Lra
end Oratio
