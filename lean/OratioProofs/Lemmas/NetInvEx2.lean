/-
C07N, non-vacuity of the history theorem FROM `Net.init`: a history that creates IDL time points and
distance constraints, an LRA and an RDL variable, a SAT variable, a reified disjunction, adds clauses, and
searches:  x1 x2 x3;  b1 : x3 - x1 ≤ 5,  b2 : x3 - x2 ≤ 2,  b3 : x1 - x2 ≤ -3;  b4 a plain SAT variable;
b5 := b1 ∨ b4 (reified);  clauses [b5], [¬b4];  `propagate` (unit propagation gives b1, handed to IDL);
`assume ¬b2` (IDL records the lemma [¬b3, b2, ¬b1] and ¬b3 is propagated);  `next` (the blocking clause
[b2] is added and propagated at root level).
-/
import OratioProofs.Lemmas.NetInvD

namespace Oratio
namespace NetEx2
open Net Sat

def hist : List NetOp := [.idlNewVar, .idlNewVar, .idlNewVar, .idlNewDistance 1 3 5, .idlNewDistance 2 3 2,
  .idlNewDistance 2 1 (-3), .lraNewVar, .rdlNewVar, .satNewVar, .disj [⟨1, true⟩, ⟨4, true⟩], .clause [⟨5, true⟩],
  .clause [⟨4, false⟩], .propagate, .assume ⟨2, false⟩, .next]

/-- the state after the first `k` operations -/
def st (k : Nat) : NetRun := (NetRun.steps 100 ⟨Net.init, []⟩ (hist.take k)).getD ⟨Net.init, []⟩

set_option maxRecDepth 100000 in
theorem step0 : NetRun.step 100 (st 0) .idlNewVar = some (st 1, true) := by rfl
set_option maxRecDepth 100000 in
theorem step1 : NetRun.step 100 (st 1) .idlNewVar = some (st 2, true) := by rfl
set_option maxRecDepth 100000 in
theorem step2 : NetRun.step 100 (st 2) .idlNewVar = some (st 3, true) := by rfl
set_option maxRecDepth 100000 in
theorem step3 : NetRun.step 100 (st 3) (.idlNewDistance 1 3 5) = some (st 4, true) := by rfl
set_option maxRecDepth 100000 in
theorem step4 : NetRun.step 100 (st 4) (.idlNewDistance 2 3 2) = some (st 5, true) := by rfl
set_option maxRecDepth 100000 in
theorem step5 : NetRun.step 100 (st 5) (.idlNewDistance 2 1 (-3)) = some (st 6, true) := by rfl
set_option maxRecDepth 100000 in
theorem run_all : NetRun.steps 100 ⟨Net.init, []⟩ hist = some (st 15) := by rfl

theorem rooms_of_noRoom (fuel : Nat) : ∀ (ops : List NetOp), (∀ op ∈ ops, ∀ r : NetRun, r.room op) → ∀ r : NetRun, r.rooms fuel ops
  | [], _, _ => trivial
  | op :: ops, h, r => ⟨h op List.mem_cons_self r, fun r' _ _ =>
      rooms_of_noRoom fuel ops (fun o ho => h o (List.mem_cons_of_mem _ ho)) r'⟩

theorem newDistance_exact {K : Int} {E : List IEdge} {s : Sat} {t : Dl Int} (h : t.Exact K E) (f g : Nat) (w : Int) :
    (Dl.newDistance idlOps s t f g w).2.2.Exact K E := by
  obtain ⟨a1, a2, a3⟩ := Dl.newDistance_same s t f g w
  exact (h.toM.congr_state a1 a2 a3).ofM

theorem ex0 : (st 0).n.idl.Exact 10 [] := C10_init_exact 10 (by decide)
theorem ex1 : (st 1).n.idl.Exact 10 [] := (C10_newVar_exact 10 [] _ ex0 (by decide)).1
theorem ex2 : (st 2).n.idl.Exact 10 [] := (C10_newVar_exact 10 [] _ ex1 (by decide)).1
theorem ex3 : (st 3).n.idl.Exact 10 [] := (C10_newVar_exact 10 [] _ ex2 (by decide)).1
theorem ex4 : (st 4).n.idl.Exact 10 [] := newDistance_exact (s := (st 3).n.sat) ex3 1 3 5
theorem ex5 : (st 5).n.idl.Exact 10 [] := newDistance_exact (s := (st 4).n.sat) ex4 2 3 2

deriving instance DecidableEq for DConstr

theorem ok_of_list {t : Dl Int} {l : List (DConstr Int)} (hv : t.varDists = l)
    (h : ∀ c ∈ l, c.src < t.nVars ∧ c.dst < t.nVars ∧ c.src ≠ c.dst ∧ -10 ≤ c.dist ∧ c.dist + 1 ≤ 10) : Dl.ConstrsOk 10 t := by
  intro c hc; rw [hv] at hc; exact h c hc

theorem ok0 : Dl.ConstrsOk 10 (st 0).n.idl := ok_of_list (l := []) (by rfl) (fun c hc => by cases hc)
theorem ok1 : Dl.ConstrsOk 10 (st 1).n.idl := ok_of_list (l := []) (by rfl) (fun c hc => by cases hc)
theorem ok2 : Dl.ConstrsOk 10 (st 2).n.idl := ok_of_list (l := []) (by rfl) (fun c hc => by cases hc)
theorem ok3 : Dl.ConstrsOk 10 (st 3).n.idl := ok_of_list (l := []) (by rfl) (fun c hc => by cases hc)
theorem ok4 : Dl.ConstrsOk 10 (st 4).n.idl := ok_of_list (l := [⟨1, 1, 3, 5⟩]) (by rfl) (by decide)
theorem ok5 : Dl.ConstrsOk 10 (st 5).n.idl := ok_of_list (l := [⟨1, 1, 3, 5⟩, ⟨2, 2, 3, 2⟩]) (by rfl) (by decide)

theorem hist_rooms : (st 0).rooms 100 hist := by
  refine ⟨⟨10, [], ex0, ok0, by decide⟩, fun r' b hs => ?_⟩
  rw [step0] at hs; cases hs
  refine ⟨⟨10, [], ex1, ok1, by decide⟩, fun r' b hs => ?_⟩
  rw [step1] at hs; cases hs
  refine ⟨⟨10, [], ex2, ok2, by decide⟩, fun r' b hs => ?_⟩
  rw [step2] at hs; cases hs
  refine ⟨⟨10, [], ex3, ok3, by decide, by decide, by decide⟩, fun r' b hs => ?_⟩
  rw [step3] at hs; cases hs
  refine ⟨⟨10, [], ex4, ok4, by decide, by decide, by decide⟩, fun r' b hs => ?_⟩
  rw [step4] at hs; cases hs
  refine ⟨⟨10, [], ex5, ok5, by decide, by decide, by decide⟩, fun r' b hs => ?_⟩
  rw [step5] at hs; cases hs
  exact rooms_of_noRoom 100 _ (by
    intro op hop r
    simp only [List.mem_cons, List.not_mem_nil, or_false] at hop
    rcases hop with rfl | rfl | rfl | rfl | rfl | rfl | rfl | rfl | rfl <;> trivial) _

/-- the history runs from `Net.init`; by the theorem the final network satisfies the invariant; concretely:
    the IDL lemma `[¬b3, b2, ¬b1]` and the blocking clause `[b2]` were recorded, the network is back at
    root level with `b1, ¬b4, b5, b2` true, and seven clauses were added (three definitional clauses of the
    disjunction, the unit of the false constant, the two clauses, the blocking clause) -/
theorem final_ok : NetOK (st 15) ∧ (st 15).n.sat.log = [[⟨3, false⟩, ⟨2, true⟩, ⟨1, false⟩], [⟨2, true⟩]] ∧
    (st 15).n.sat.decisionLevel = 0 ∧ (st 15).orig.length = 7 ∧ (st 15).n.sat.dead = false :=
  ⟨(steps_ok hist ⟨Net.init, []⟩ (st 15) netOK_init (guards_noRows hist _ (by decide)) hist_rooms run_all).1,
    by decide, by decide, by decide, by decide⟩

end NetEx2
end Oratio
