/-
C07N, non-vacuity of the history theorem FROM `Net.init`: a history that creates IDL time points and
distance constraints, an IDL equality through `idlNewRel`, an LRA variable and two LRA assertions through
`lraNewRel`, an RDL variable, a SAT variable, a reified disjunction, adds clauses, and searches:
x1 x2 x3;  b1 : x3 - x1 ≤ 5,  b2 : x3 - x2 ≤ 2,  b3 : x1 - x2 ≤ -3;  `idlNewRel .eq x3 (x1 + 4)` creates
b4 : x3 - x1 ≤ 4,  b5 : x1 - x3 ≤ -4 and the reified conjunction b6 := b4 ∧ b5;  the LRA variable y0 and the
assertions b7 : y0 ≤ 5,  b8 : y0 ≥ 7 (no slack variable: the expression `y0` names an existing variable);
b9 a plain SAT variable;  b10 := b1 ∨ b9 (reified);  clauses [b10], [¬b9], [b7];  `propagate` (unit
propagation gives b1, handed to IDL, and b7, handed to LRA, which records the lemma [¬b8, ¬b7] and
propagates ¬b8);  `assume ¬b2` (IDL records the lemma [¬b3, b2, ¬b1] and ¬b3 is propagated);  `next` (the
blocking clause [b2] is added and propagated at root level).
-/
import OratioProofs.Lemmas.NetInvD

namespace Oratio
namespace NetEx2
open Net Sat

/-- the LRA variable `x0` and the constants 5 and 7 as linear expressions -/
def x0 : Lin := Lin.var 0 R.one
def c5 : Lin := Lin.const (R.ofInt 5)
def c7 : Lin := Lin.const (R.ofInt 7)

/-- the IDL expressions `x3` and `x1 + 4` -/
def t3 : Lin := Lin.var 3 R.one
def t1p4 : Lin := ⟨[(1, R.one)], R.ofInt 4⟩

def hist : List NetOp := [.idlNewVar, .idlNewVar, .idlNewVar, .idlNewDistance 1 3 5, .idlNewDistance 2 3 2,
  .idlNewDistance 2 1 (-3), .idlNewRel .eq t3 t1p4, .lraNewVar, .lraNewRel .leq x0 c5, .lraNewRel .geq x0 c7,
  .rdlNewVar, .satNewVar, .disj [⟨1, true⟩, ⟨9, true⟩], .clause [⟨10, true⟩], .clause [⟨9, false⟩],
  .clause [⟨7, true⟩], .propagate, .assume ⟨2, false⟩, .next]

/-- the state after the first `k` operations -/
def st (k : Nat) : NetRun := (NetRun.steps 100 ⟨Net.init, []⟩ (hist.take k)).getD ⟨Net.init, []⟩

set_option maxRecDepth 100000 in
theorem step0 : NetRun.step 100 (st 0) .idlNewVar = some (st 1, true) := by rfl
set_option maxRecDepth 100000 in
theorem step1 : NetRun.step 100 (st 1) .idlNewVar = some (st 2, true) := by rfl
set_option maxRecDepth 100000 in
theorem step2 : NetRun.step 100 (st 2) .idlNewVar = some (st 3, true) := by rfl
set_option maxRecDepth 100000 in
theorem step3 : NetRun.step 100 (st 3) (.idlNewDistance 1 3 5) = some (st 4, true) := by rfl
set_option maxRecDepth 100000 in
theorem step4 : NetRun.step 100 (st 4) (.idlNewDistance 2 3 2) = some (st 5, true) := by rfl
set_option maxRecDepth 100000 in
theorem step5 : NetRun.step 100 (st 5) (.idlNewDistance 2 1 (-3)) = some (st 6, true) := by rfl
set_option maxRecDepth 100000 in
theorem step6 : NetRun.step 100 (st 6) (.idlNewRel .eq t3 t1p4) = some (st 7, true) := by rfl
set_option maxRecDepth 100000 in
theorem step7 : NetRun.step 100 (st 7) .lraNewVar = some (st 8, true) := by rfl
set_option maxRecDepth 100000 in
theorem step8 : NetRun.step 100 (st 8) (.lraNewRel .leq x0 c5) = some (st 9, true) := by rfl
set_option maxRecDepth 100000 in
theorem run_all : NetRun.steps 100 ⟨Net.init, []⟩ hist = some (st 19) := by rfl

theorem rooms_of_noRoom (fuel : Nat) : ∀ (ops : List NetOp), (∀ op ∈ ops, ∀ r : NetRun, r.room op) → ∀ r : NetRun, r.rooms fuel ops
  | [], _, _ => trivial
  | op :: ops, h, r => ⟨h op List.mem_cons_self r, fun r' _ _ =>
      rooms_of_noRoom fuel ops (fun o ho => h o (List.mem_cons_of_mem _ ho)) r'⟩

theorem newDistance_exact {K : Int} {E : List IEdge} {s : Sat} {t : Dl Int} (h : t.Exact K E) (f g : Nat) (w : Int) :
    (Dl.newDistance idlOps s t f g w).2.2.Exact K E := by
  obtain ⟨a1, a2, a3⟩ := Dl.newDistance_same s t f g w
  exact (h.toM.congr_state a1 a2 a3).ofM

theorem ex0 : (st 0).n.idl.Exact 10 [] := C10_init_exact 10 (by decide)
theorem ex1 : (st 1).n.idl.Exact 10 [] := (C10_newVar_exact 10 [] _ ex0 (by decide)).1
theorem ex2 : (st 2).n.idl.Exact 10 [] := (C10_newVar_exact 10 [] _ ex1 (by decide)).1
theorem ex3 : (st 3).n.idl.Exact 10 [] := (C10_newVar_exact 10 [] _ ex2 (by decide)).1
theorem ex4 : (st 4).n.idl.Exact 10 [] := newDistance_exact (s := (st 3).n.sat) ex3 1 3 5
theorem ex5 : (st 5).n.idl.Exact 10 [] := newDistance_exact (s := (st 4).n.sat) ex4 2 3 2

deriving instance DecidableEq for DConstr

theorem ok_of_list {t : Dl Int} {l : List (DConstr Int)} (hv : t.varDists = l)
    (h : ∀ c ∈ l, c.src < t.nVars ∧ c.dst < t.nVars ∧ c.src ≠ c.dst ∧ -10 ≤ c.dist ∧ c.dist + 1 ≤ 10) : Dl.ConstrsOk 10 t := by
  intro c hc; rw [hv] at hc; exact h c hc

theorem ok0 : Dl.ConstrsOk 10 (st 0).n.idl := ok_of_list (l := []) (by rfl) (fun c hc => by cases hc)
theorem ok1 : Dl.ConstrsOk 10 (st 1).n.idl := ok_of_list (l := []) (by rfl) (fun c hc => by cases hc)
theorem ok2 : Dl.ConstrsOk 10 (st 2).n.idl := ok_of_list (l := []) (by rfl) (fun c hc => by cases hc)
theorem ok3 : Dl.ConstrsOk 10 (st 3).n.idl := ok_of_list (l := []) (by rfl) (fun c hc => by cases hc)
theorem ok4 : Dl.ConstrsOk 10 (st 4).n.idl := ok_of_list (l := [⟨1, 1, 3, 5⟩]) (by rfl) (by decide)
set_option maxRecDepth 100000 in
theorem ex6 : (st 6).n.idl.Exact 10 [] := by
  have h := newDistance_exact (s := (st 5).n.sat) ex5 2 1 (-3)
  have e : (st 6).n.idl = (Dl.newDistance idlOps (st 5).n.sat (st 5).n.idl 2 1 (-3)).2.2 := by rfl
  rw [e]; exact h
theorem ok6 : Dl.ConstrsOk 10 (st 6).n.idl :=
  ok_of_list (l := [⟨1, 1, 3, 5⟩, ⟨2, 2, 3, 2⟩, ⟨3, 2, 1, -3⟩]) (by rfl) (by decide)
theorem ok7 : Dl.ConstrsOk 10 (st 7).n.idl :=
  ok_of_list (l := [⟨1, 1, 3, 5⟩, ⟨2, 2, 3, 2⟩, ⟨3, 2, 1, -3⟩, ⟨4, 1, 3, 4⟩, ⟨5, 3, 1, -4⟩]) (by rfl) (by decide)
theorem ok5 : Dl.ConstrsOk 10 (st 5).n.idl := ok_of_list (l := [⟨1, 1, 3, 5⟩, ⟨2, 2, 3, 2⟩]) (by rfl) (by decide)

theorem linOK_x0 {t : Lra} (h : t.vals.length = 1) : Lra.LinOK t x0 := by
  refine ⟨⟨trivial, fun t ht => ?_, by decide, by decide⟩, fun p hp => ?_⟩
  · simp only [x0, Lin.var, List.mem_singleton] at ht
    subst ht
    exact ⟨by decide, by decide⟩
  simp only [x0, Lin.var, List.mem_singleton] at hp
  subst hp
  exact ⟨by rw [h]; decide, by decide⟩

theorem linOK_const {t : Lra} (k : R) (hk : k.WF ∧ k.den ≠ 0) : Lra.LinOK t (Lin.const k) :=
  ⟨⟨trivial, (fun p hp => by cases hp), hk.1, hk.2⟩, fun p hp => by cases hp⟩

/-- the request creates no slack variable: the number of LRA variables stays 1 -/
theorem noSlack (k : Nat) (rel : LRel) (a b : Lin) (l : Lit) (n' : Net)
    (h1 : (Net.lraNewRel (st k).n rel a b).map (fun p => p.2.lra.vals.length) = some (st k).n.lra.vals.length)
    (h : Net.lraNewRel (st k).n rel a b = some (l, n')) : n'.lra.vals.length = (st k).n.lra.vals.length := by
  rw [h] at h1
  simpa using h1

theorem hist_rooms : (st 0).rooms 100 hist := by
  refine ⟨⟨10, [], ex0, ok0, by decide⟩, fun r' b hs => ?_⟩
  rw [step0] at hs; cases hs
  refine ⟨⟨10, [], ex1, ok1, by decide⟩, fun r' b hs => ?_⟩
  rw [step1] at hs; cases hs
  refine ⟨⟨10, [], ex2, ok2, by decide⟩, fun r' b hs => ?_⟩
  rw [step2] at hs; cases hs
  refine ⟨⟨10, [], ex3, ok3, by decide, by decide, by decide⟩, fun r' b hs => ?_⟩
  rw [step3] at hs; cases hs
  refine ⟨⟨10, [], ex4, ok4, by decide, by decide, by decide⟩, fun r' b hs => ?_⟩
  rw [step4] at hs; cases hs
  refine ⟨⟨10, [], ex5, ok5, by decide, by decide, by decide⟩, fun r' b hs => ?_⟩
  rw [step5] at hs; cases hs
  refine ⟨⟨10, [], ex6, ok6, fun l n' h => ?_⟩, fun r' b hs => ?_⟩
  · have h1 : (Net.idlNewRel (st 6).n .eq t3 t1p4).map (fun p => p.2.idl) = some (st 7).n.idl := by rfl
    rw [h] at h1
    simp only [Option.map_some, Option.some.injEq] at h1
    rw [h1]; exact ok7
  rw [step6] at hs; cases hs
  refine ⟨trivial, fun r' b hs => ?_⟩
  rw [step7] at hs; cases hs
  refine ⟨⟨linOK_x0 rfl, linOK_const _ ⟨by decide, by decide⟩⟩, fun r' b hs => ?_⟩
  rw [step8] at hs; cases hs
  refine ⟨⟨linOK_x0 rfl, linOK_const _ ⟨by decide, by decide⟩⟩, fun r' b hs => ?_⟩
  exact rooms_of_noRoom 100 _ (by
    intro op hop r
    simp only [List.mem_cons, List.not_mem_nil, or_false] at hop
    rcases hop with rfl | rfl | rfl | rfl | rfl | rfl | rfl | rfl | rfl <;> trivial) _

theorem noSlacks_of_trivial (fuel : Nat) : ∀ (ops : List NetOp), (∀ op ∈ ops, ∀ r : NetRun, r.noSlack op) →
    ∀ r : NetRun, r.noSlacks fuel ops
  | [], _, _ => trivial
  | op :: ops, h, r => ⟨h op List.mem_cons_self r, fun r' _ _ =>
      noSlacks_of_trivial fuel ops (fun o ho => h o (List.mem_cons_of_mem _ ho)) r'⟩

/-- no LRA request of the history creates a slack variable -/
theorem hist_noSlacks : (st 0).noSlacks 100 hist := by
  refine ⟨trivial, fun r' b hs => ?_⟩
  rw [step0] at hs; cases hs
  refine ⟨trivial, fun r' b hs => ?_⟩
  rw [step1] at hs; cases hs
  refine ⟨trivial, fun r' b hs => ?_⟩
  rw [step2] at hs; cases hs
  refine ⟨trivial, fun r' b hs => ?_⟩
  rw [step3] at hs; cases hs
  refine ⟨trivial, fun r' b hs => ?_⟩
  rw [step4] at hs; cases hs
  refine ⟨trivial, fun r' b hs => ?_⟩
  rw [step5] at hs; cases hs
  refine ⟨trivial, fun r' b hs => ?_⟩
  rw [step6] at hs; cases hs
  refine ⟨trivial, fun r' b hs => ?_⟩
  rw [step7] at hs; cases hs
  refine ⟨fun l n' h => noSlack 8 _ x0 c5 l n' (by rfl) h, fun r' b hs => ?_⟩
  rw [step8] at hs; cases hs
  refine ⟨fun l n' h => noSlack 9 _ x0 c7 l n' (by rfl) h, fun r' b hs => ?_⟩
  exact noSlacks_of_trivial 100 _ (by
    intro op hop r
    simp only [List.mem_cons, List.not_mem_nil, or_false] at hop
    rcases hop with rfl | rfl | rfl | rfl | rfl | rfl | rfl | rfl | rfl <;> trivial) _

/-- the history runs from `Net.init`; by the theorem the final network satisfies the invariant; concretely:
    the LRA lemma `[¬b8, ¬b7]`, the IDL lemma `[¬b3, b2, ¬b1]` and the blocking clause `[b2]` were recorded,
    the network is back at root level, fifteen clauses were added (the definitional clauses of the conjunction
    and of the disjunction, the unit of the false constant, the three clauses, the blocking clause), the IDL
    equality created the constraints b4, b5, the two LRA assertions are controlled by b7 and b8, and `¬b8` was
    propagated by the LRA theory -/
theorem final_ok : NetOK (st 19) ∧
    (st 19).n.sat.log = [[⟨8, false⟩, ⟨7, false⟩], [⟨3, false⟩, ⟨2, true⟩, ⟨1, false⟩], [⟨2, true⟩]] ∧
    (st 19).n.sat.decisionLevel = 0 ∧ (st 19).orig.length = 15 ∧ (st 19).n.sat.dead = false ∧
    (st 19).n.lra.vAsrts.map (·.1) = [7, 8] ∧ (st 19).n.sat.value ⟨8, true⟩ = some false ∧
    (st 19).n.idl.varDists.map (·.b) = [1, 2, 3, 4, 5] :=
  ⟨(steps_ok hist ⟨Net.init, []⟩ (st 19) netOK_init (guards_noRows hist _ (by decide) hist_noSlacks) hist_rooms run_all).1,
    by decide, by decide, by decide, by decide, by decide, by decide, by decide⟩

end NetEx2
end Oratio
