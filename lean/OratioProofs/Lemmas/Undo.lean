/-
C08: first-write-wins undo logs — generic facts about pair-keyed association lists
(`lookupPair`, `emplacePair`, `assignPair`, `erasePair`), matrices stored as lists of rows,
and the two kinds of log (`MLog` for matrices, `CLog` for the responsible-constraint table).
-/
import OratioModel

set_option linter.unusedSimpArgs false
set_option linter.unusedVariables false

namespace Oratio
namespace Undo
open Dl

abbrev K := Nat × Nat

/-- the lexicographic order of `std::pair` -/
def klt (a b : K) : Prop := a.1 < b.1 ∨ (a.1 = b.1 ∧ a.2 < b.2)

theorem klt_trans {a b c : K} (h1 : klt a b) (h2 : klt b c) : klt a c := by
  unfold klt at *; omega

theorem klt_irrefl (a : K) : ¬ klt a a := by
  unfold klt; omega

theorem klt_tri (a b : K) : klt a b ∨ a = b ∨ klt b a := by
  obtain ⟨a1, a2⟩ := a; obtain ⟨b1, b2⟩ := b
  simp only [klt, Prod.mk.injEq]; omega

theorem klt_ne {a b : K} (h : klt a b) : a ≠ b := by
  intro e; subst e; exact klt_irrefl a h

/-- keys strictly increasing -/
def SortedK {β : Type} (m : List (K × β)) : Prop := m.Pairwise (fun a b => klt a.1 b.1)

section Assoc
variable {β : Type}

theorem sortedK_nil : SortedK ([] : List (K × β)) := List.Pairwise.nil

theorem sortedK_single (a : K × β) : SortedK [a] := by simp [SortedK]

theorem sortedK_cons2 {a b : K × β} {t : List (K × β)} (h : klt a.1 b.1) (hs : SortedK (b :: t)) :
    SortedK (a :: b :: t) := by
  unfold SortedK at *
  rw [List.pairwise_cons] at hs ⊢
  refine ⟨?_, List.pairwise_cons.2 hs⟩
  intro x hx
  rcases List.mem_cons.1 hx with rfl | hx
  · exact h
  · exact klt_trans h (hs.1 x hx)

theorem lookupPair_nil (k : K) : lookupPair ([] : List (K × β)) k = none := rfl

theorem lookupPair_cons (e : K × β) (m : List (K × β)) (k : K) :
    lookupPair (e :: m) k = if e.1 = k then some e.2 else lookupPair m k := by
  unfold lookupPair
  by_cases h : e.1 = k
  · simp [List.find?_cons, h]
  · simp [List.find?_cons, h]

theorem lookupPair_eq_none {m : List (K × β)} {k : K} : lookupPair m k = none ↔ ∀ e ∈ m, e.1 ≠ k := by
  induction m with
  | nil => simp [lookupPair_nil]
  | cons e m ih =>
    rw [lookupPair_cons]
    by_cases h : e.1 = k
    · simp [h]
    · simp [h, ih]

theorem lookupPair_isSome {m : List (K × β)} {k : K} (h : (lookupPair m k).isSome) : ∃ e ∈ m, e.1 = k := by
  false_or_by_contra
  rename_i hn
  have : lookupPair m k = none := lookupPair_eq_none.2 (fun e he hk => hn ⟨e, he, hk⟩)
  rw [this] at h; simp at h

theorem lookupPair_not_isSome {m : List (K × β)} {k : K} (h : ¬ (lookupPair m k).isSome) : ∀ e ∈ m, e.1 ≠ k := by
  apply lookupPair_eq_none.1
  cases hl : lookupPair m k with
  | none => rfl
  | some v => rw [hl] at h; simp at h

/-! ### emplacePair -/

theorem mem_emplace {m : List (K × β)} {k : K} {v : β} {e : K × β} (h : e ∈ emplacePair m k v) :
    e ∈ m ∨ e = (k, v) := by
  induction m with
  | nil => simp [emplacePair] at h; exact Or.inr h
  | cons a m ih =>
    unfold emplacePair at h
    split at h
    · exact Or.inl h
    · split at h
      · rcases List.mem_cons.1 h with h | h
        · exact Or.inr h
        · exact Or.inl h
      · rcases List.mem_cons.1 h with h | h
        · exact Or.inl (h ▸ List.mem_cons_self)
        · rcases ih h with h | h
          · exact Or.inl (List.mem_cons_of_mem _ h)
          · exact Or.inr h

theorem mem_emplace_of_mem {m : List (K × β)} {k : K} {v : β} {e : K × β} (h : e ∈ m) :
    e ∈ emplacePair m k v := by
  induction m with
  | nil => simp at h
  | cons a m ih =>
    unfold emplacePair
    split
    · exact h
    · split
      · exact List.mem_cons_of_mem _ h
      · rcases List.mem_cons.1 h with h | h
        · exact h ▸ List.mem_cons_self
        · exact List.mem_cons_of_mem _ (ih h)

theorem emplace_has (m : List (K × β)) (k : K) (v : β) : ∃ e ∈ emplacePair m k v, e.1 = k := by
  induction m with
  | nil => exact ⟨(k, v), by simp [emplacePair], rfl⟩
  | cons a m ih =>
    unfold emplacePair
    split
    · rename_i h
      exact ⟨a, List.mem_cons_self, by simpa using h⟩
    · split
      · exact ⟨(k, v), List.mem_cons_self, rfl⟩
      · obtain ⟨e, he, hk⟩ := ih
        exact ⟨e, List.mem_cons_of_mem _ he, hk⟩

/-! ### assignPair -/

theorem lookup_assign (m : List (K × β)) (k k' : K) (b : β) :
    lookupPair (assignPair m k b) k' = if k = k' then some b else lookupPair m k' := by
  induction m with
  | nil => simp [assignPair, lookupPair_cons, lookupPair_nil]
  | cons a m ih =>
    unfold assignPair
    split
    · rename_i h
      have h : a.1 = k := by simpa using h
      rw [lookupPair_cons, lookupPair_cons]
      by_cases hk : k = k'
      · simp [hk]
      · have : ¬ a.1 = k' := by rw [h]; exact hk
        simp [hk, this]
    · rename_i h
      have h : ¬ a.1 = k := by simpa using h
      split
      · rw [lookupPair_cons]
      · rw [lookupPair_cons, ih, lookupPair_cons]
        by_cases hk : k = k'
        · have : ¬ a.1 = k' := by rw [← hk]; exact h
          simp [hk, this]
        · simp [hk]

theorem mem_assign {m : List (K × β)} {k : K} {v : β} {e : K × β} (h : e ∈ assignPair m k v) :
    e ∈ m ∨ e = (k, v) := by
  induction m with
  | nil => simp [assignPair] at h; exact Or.inr h
  | cons a m ih =>
    unfold assignPair at h
    split at h
    · rcases List.mem_cons.1 h with h | h
      · exact Or.inr h
      · exact Or.inl (List.mem_cons_of_mem _ h)
    · split at h
      · rcases List.mem_cons.1 h with h | h
        · exact Or.inr h
        · exact Or.inl h
      · rcases List.mem_cons.1 h with h | h
        · exact Or.inl (h ▸ List.mem_cons_self)
        · rcases ih h with h | h
          · exact Or.inl (List.mem_cons_of_mem _ h)
          · exact Or.inr h

theorem sorted_assign {m : List (K × β)} (hs : SortedK m) (k : K) (b : β) : SortedK (assignPair m k b) := by
  induction m with
  | nil => simp [assignPair, SortedK]
  | cons a m ih =>
    unfold SortedK at hs
    rw [List.pairwise_cons] at hs
    unfold assignPair
    split
    · rename_i h
      have h : a.1 = k := by simpa using h
      unfold SortedK
      rw [List.pairwise_cons]
      exact ⟨fun x hx => by have := hs.1 x hx; rw [h] at this; exact this, hs.2⟩
    · rename_i h
      have h : ¬ a.1 = k := by simpa using h
      split
      · rename_i hlt
        exact sortedK_cons2 (a := (k, b)) hlt (List.pairwise_cons.2 hs)
      · rename_i hlt
        have hak : klt a.1 k := by
          rcases klt_tri a.1 k with h1 | h1 | h1
          · exact h1
          · exact absurd h1 h
          · exact absurd h1 hlt
        unfold SortedK
        rw [List.pairwise_cons]
        refine ⟨?_, ih hs.2⟩
        intro x hx
        rcases mem_assign hx with hx | hx
        · exact hs.1 x hx
        · rw [hx]; exact hak

/-! ### erasePair -/

theorem lookup_erase (m : List (K × β)) (k k' : K) :
    lookupPair (erasePair m k) k' = if k = k' then none else lookupPair m k' := by
  induction m with
  | nil => simp [erasePair, lookupPair_nil]
  | cons a m ih =>
    unfold erasePair at ih ⊢
    rw [List.filter_cons]
    by_cases h : a.1 = k
    · simp only [h, bne_self_eq_false, Bool.false_eq_true, if_false, ih, lookupPair_cons]
      by_cases hk : k = k'
      · simp [hk]
      · simp [hk]
    · have : (a.1 != k) = true := by simpa using h
      simp only [this, if_true, lookupPair_cons, ih]
      by_cases hk : k = k'
      · have : ¬ a.1 = k' := by rw [← hk]; exact h
        simp [hk, this]
      · simp [hk]

theorem sorted_erase {m : List (K × β)} (hs : SortedK m) (k : K) : SortedK (erasePair m k) :=
  List.Pairwise.filter _ hs

/-! ### sorted association lists are determined by their lookups -/

theorem lookup_tail_none {a : K × β} {m : List (K × β)} (hs : SortedK (a :: m)) {k : K}
    (hk : k = a.1 ∨ klt k a.1) : lookupPair m k = none := by
  unfold SortedK at hs
  rw [List.pairwise_cons] at hs
  apply lookupPair_eq_none.2
  intro e he hek
  have h1 := hs.1 e he
  rw [hek] at h1
  rcases hk with hk | hk
  · rw [hk] at h1; exact klt_irrefl _ h1
  · exact klt_irrefl _ (klt_trans h1 hk)

theorem sorted_ext : ∀ {m1 m2 : List (K × β)}, SortedK m1 → SortedK m2 →
    (∀ k, lookupPair m1 k = lookupPair m2 k) → m1 = m2
  | [], [], _, _, _ => rfl
  | [], b :: m2, _, _, h => by
    have := h b.1
    rw [lookupPair_nil, lookupPair_cons] at this
    simp at this
  | a :: m1, [], _, _, h => by
    have := h a.1
    rw [lookupPair_nil, lookupPair_cons] at this
    simp at this
  | a :: m1, b :: m2, hs1, hs2, h => by
    have hkey : a.1 = b.1 := by
      rcases klt_tri a.1 b.1 with h1 | h1 | h1
      · have := h a.1
        rw [lookupPair_cons, lookupPair_cons, lookup_tail_none hs2 (Or.inr h1)] at this
        simp [(klt_ne h1).symm] at this
      · exact h1
      · have := h b.1
        rw [lookupPair_cons, lookupPair_cons, lookup_tail_none hs1 (Or.inr h1)] at this
        simp [(klt_ne h1).symm] at this
    have hval : a.2 = b.2 := by
      have := h a.1
      rw [lookupPair_cons, lookupPair_cons] at this
      simpa [hkey] using this
    have hab : a = b := Prod.ext hkey hval
    have htail : ∀ k, lookupPair m1 k = lookupPair m2 k := by
      intro k
      by_cases hk : k = a.1
      · rw [lookup_tail_none hs1 (Or.inl hk), lookup_tail_none hs2 (Or.inl (hkey ▸ hk))]
      · have := h k
        rw [lookupPair_cons, lookupPair_cons] at this
        have h1 : ¬ a.1 = k := fun e => hk e.symm
        have h2 : ¬ b.1 = k := fun e => hk (hkey ▸ e.symm)
        simpa [h1, h2] using this
    have hs1' : SortedK m1 := (List.pairwise_cons.1 hs1).2
    have hs2' : SortedK m2 := (List.pairwise_cons.1 hs2).2
    rw [hab, sorted_ext hs1' hs2' htail]

end Assoc

/-! ## matrices as lists of rows -/
section Mat
variable {β : Type}

def cell (D : List (List β)) (i j : Nat) : Option β := (D.getD i [])[j]?

def setM (D : List (List β)) (i j : Nat) (x : β) : List (List β) := D.set i ((D.getD i []).set j x)

theorem cell_setM (D : List (List β)) (i j a b : Nat) (x : β) :
    cell (setM D i j x) a b = if a = i ∧ b = j then (cell D a b).map (fun _ => x) else cell D a b := by
  unfold cell setM
  simp only [List.getD_eq_getElem?_getD, List.getElem?_set]
  by_cases ha : i = a
  · subst ha
    by_cases hi : i < D.length
    · simp only [hi, if_true, true_and, Option.getD_some, List.getElem?_set]
      by_cases hb : j = b
      · subst hb
        by_cases hj : j < (D[i]?.getD []).length
        · simp [hj, List.getElem?_eq_getElem hj]
        · simp [hj, List.getElem?_eq_none (Nat.le_of_not_lt hj)]
      · have : ¬ b = j := fun e => hb e.symm
        simp [hb, this]
    · simp only [hi, if_false, true_and]
      have : D[i]? = none := List.getElem?_eq_none (Nat.le_of_not_lt hi)
      simp [this]
  · have : ¬ a = i := fun e => ha e.symm
    simp [ha, this]

theorem shape_setM (D : List (List β)) (i j : Nat) (x : β) :
    (setM D i j x).map List.length = D.map List.length := by
  unfold setM
  apply List.ext_getElem?
  intro n
  simp only [List.getElem?_map, List.getElem?_set, List.getD_eq_getElem?_getD]
  by_cases h : i = n
  · subst h
    by_cases hi : i < D.length
    · simp [hi, List.getElem?_eq_getElem hi]
    · simp [hi, List.getElem?_eq_none (Nat.le_of_not_lt hi)]
  · simp [h]

theorem mat_ext {D B : List (List β)} (hsh : D.map List.length = B.map List.length)
    (h : ∀ i j, cell D i j = cell B i j) : D = B := by
  have hlen : D.length = B.length := by simpa using congrArg List.length hsh
  apply List.ext_getElem hlen
  intro i h1 h2
  have hrow : D[i].length = B[i].length := by
    have := congrArg (fun l => l[i]?) hsh
    simpa [List.getElem?_map, List.getElem?_eq_getElem h1, List.getElem?_eq_getElem h2] using this
  apply List.ext_getElem hrow
  intro j h3 h4
  have := h i j
  unfold cell at this
  simp only [List.getD_eq_getElem?_getD, List.getElem?_eq_getElem h1, List.getElem?_eq_getElem h2,
    Option.getD_some, List.getElem?_eq_getElem h3, List.getElem?_eq_getElem h4, Option.some.injEq] at this
  exact this

/-- the log of a matrix: every entry holds the base value of its position, and every position
    without an entry is unchanged -/
def MLog (dflt : β) (B D : List (List β)) (log : List (K × β)) : Prop :=
  (∀ e ∈ log, e.2 = (cell B e.1.1 e.1.2).getD dflt) ∧
  ∀ i j, (∃ e ∈ log, e.1 = (i, j)) ∨ cell D i j = cell B i j

theorem MLog_init (dflt : β) (B : List (List β)) : MLog dflt B B [] :=
  ⟨by simp, fun _ _ => Or.inr rfl⟩

theorem MLog_write_logged {dflt : β} {B D : List (List β)} {log : List (K × β)} (h : MLog dflt B D log)
    {i j : Nat} (hk : ∃ e ∈ log, e.1 = (i, j)) (x : β) : MLog dflt B (setM D i j x) log := by
  refine ⟨h.1, ?_⟩
  intro a b
  by_cases hab : a = i ∧ b = j
  · left; rw [hab.1, hab.2]; exact hk
  · rcases h.2 a b with h2 | h2
    · exact Or.inl h2
    · right; rw [cell_setM, if_neg hab]; exact h2

theorem MLog_write_new {dflt : β} {B D : List (List β)} {log : List (K × β)} (h : MLog dflt B D log)
    {i j : Nat} (hk : ∀ e ∈ log, e.1 ≠ (i, j)) (x : β) :
    MLog dflt B (setM D i j x) (emplacePair log (i, j) ((cell D i j).getD dflt)) := by
  have hij : cell D i j = cell B i j := by
    rcases h.2 i j with ⟨e, he, hek⟩ | h2
    · exact absurd hek (hk e he)
    · exact h2
  constructor
  · intro e he
    rcases mem_emplace he with he | he
    · exact h.1 e he
    · rw [he]; simp only; rw [hij]
  · intro a b
    by_cases hab : a = i ∧ b = j
    · left; rw [hab.1, hab.2]; exact emplace_has _ _ _
    · rcases h.2 a b with ⟨e, he, hek⟩ | h2
      · exact Or.inl ⟨e, mem_emplace_of_mem he, hek⟩
      · right; rw [cell_setM, if_neg hab]; exact h2

theorem MLog_restore_cells {dflt : β} {B : List (List β)} : ∀ (log : List (K × β)) (D : List (List β)),
    D.map List.length = B.map List.length → MLog dflt B D log →
    let R := log.foldl (fun D e => setM D e.1.1 e.1.2 e.2) D
    R.map List.length = B.map List.length ∧ ∀ i j, cell R i j = cell B i j
  | [], D, hsh, h => by
    refine ⟨hsh, ?_⟩
    intro i j
    rcases h.2 i j with ⟨e, he, _⟩ | h2
    · simp at he
    · exact h2
  | e :: log, D, hsh, h => by
    simp only [List.foldl_cons]
    apply MLog_restore_cells log
    · rw [shape_setM]; exact hsh
    · constructor
      · intro e' he'; exact h.1 e' (List.mem_cons_of_mem _ he')
      · intro a b
        by_cases hab : a = e.1.1 ∧ b = e.1.2
        · right
          rw [cell_setM, if_pos hab, hab.1, hab.2, h.1 e List.mem_cons_self]
          -- same shape: the position exists in `D` iff it exists in `B`
          have hlen : D.length = B.length := by simpa using congrArg List.length hsh
          have hrow : (D.getD e.1.1 []).length = (B.getD e.1.1 []).length := by
            have := congrArg (fun l => l[e.1.1]?) hsh
            simp only [List.getElem?_map] at this
            simp only [List.getD_eq_getElem?_getD]
            cases hd : D[e.1.1]? <;> cases hb : B[e.1.1]? <;> simp_all
          unfold cell
          by_cases hj : e.1.2 < (B.getD e.1.1 []).length
          · rw [List.getElem?_eq_getElem hj, List.getElem?_eq_getElem (hrow ▸ hj)]; simp
          · rw [List.getElem?_eq_none (Nat.le_of_not_lt hj),
              List.getElem?_eq_none (hrow ▸ Nat.le_of_not_lt hj)]; simp
        · rcases h.2 a b with ⟨e', he', hek⟩ | h2
          · rcases List.mem_cons.1 he' with he' | he'
            · exfalso; apply hab; rw [he'] at hek; rw [hek]; exact ⟨rfl, rfl⟩
            · exact Or.inl ⟨e', he', hek⟩
          · right; rw [cell_setM, if_neg hab]; exact h2

theorem MLog_restore {dflt : β} {B D : List (List β)} {log : List (K × β)}
    (hsh : D.map List.length = B.map List.length) (h : MLog dflt B D log) :
    log.foldl (fun D e => setM D e.1.1 e.1.2 e.2) D = B :=
  let r := MLog_restore_cells log D hsh h
  mat_ext r.1 r.2

end Mat

/-! ## the log of the responsible-constraint table -/

def CLog (B D : List (K × Nat)) (log : List (K × Option Nat)) : Prop :=
  (∀ e ∈ log, e.2 = lookupPair B e.1) ∧ ∀ k, (∃ e ∈ log, e.1 = k) ∨ lookupPair D k = lookupPair B k

theorem CLog_init (B : List (K × Nat)) : CLog B B [] := ⟨by simp, fun _ => Or.inr rfl⟩

theorem CLog_save_new {B D : List (K × Nat)} {log : List (K × Option Nat)} (h : CLog B D log) {k : K}
    (hk : ∀ e ∈ log, e.1 ≠ k) : CLog B D (emplacePair log k (lookupPair D k)) := by
  have hkk : lookupPair D k = lookupPair B k := by
    rcases h.2 k with ⟨e, he, hek⟩ | h2
    · exact absurd hek (hk e he)
    · exact h2
  constructor
  · intro e he
    rcases mem_emplace he with he | he
    · exact h.1 e he
    · rw [he]; exact hkk
  · intro k'
    rcases h.2 k' with ⟨e, he, hek⟩ | h2
    · exact Or.inl ⟨e, mem_emplace_of_mem he, hek⟩
    · exact Or.inr h2

theorem CLog_assign {B D : List (K × Nat)} {log : List (K × Option Nat)} (h : CLog B D log) {k : K}
    (hk : ∃ e ∈ log, e.1 = k) (b : Nat) : CLog B (assignPair D k b) log := by
  refine ⟨h.1, ?_⟩
  intro k'
  by_cases hkk : k = k'
  · left; rw [← hkk]; exact hk
  · rcases h.2 k' with h2 | h2
    · exact Or.inl h2
    · right; rw [lookup_assign, if_neg hkk]; exact h2

def restoreC (dc : List (K × Nat)) (e : K × Option Nat) : List (K × Nat) :=
  match e.2 with
  | some b => assignPair dc e.1 b
  | none => erasePair dc e.1

theorem lookup_restoreC (dc : List (K × Nat)) (e : K × Option Nat) (k' : K) :
    lookupPair (restoreC dc e) k' = if e.1 = k' then e.2 else lookupPair dc k' := by
  unfold restoreC
  split
  · rename_i b hb; rw [lookup_assign, hb]
  · rename_i hb; rw [lookup_erase, hb]

theorem sorted_restoreC {dc : List (K × Nat)} (hs : SortedK dc) (e : K × Option Nat) : SortedK (restoreC dc e) := by
  unfold restoreC
  split
  · exact sorted_assign hs _ _
  · exact sorted_erase hs _

theorem CLog_restore_lookups {B : List (K × Nat)} : ∀ (log : List (K × Option Nat)) (D : List (K × Nat)),
    SortedK D → CLog B D log →
    SortedK (log.foldl restoreC D) ∧ ∀ k, lookupPair (log.foldl restoreC D) k = lookupPair B k
  | [], D, hs, h => by
    refine ⟨hs, ?_⟩
    intro k
    rcases h.2 k with ⟨e, he, _⟩ | h2
    · simp at he
    · exact h2
  | e :: log, D, hs, h => by
    simp only [List.foldl_cons]
    apply CLog_restore_lookups log _ (sorted_restoreC hs e)
    constructor
    · intro e' he'; exact h.1 e' (List.mem_cons_of_mem _ he')
    · intro k'
      by_cases hk : e.1 = k'
      · right; rw [lookup_restoreC, if_pos hk, h.1 e List.mem_cons_self, hk]
      · rcases h.2 k' with ⟨e', he', hek⟩ | h2
        · rcases List.mem_cons.1 he' with he' | he'
          · exfalso; apply hk; rw [← he']; exact hek
          · exact Or.inl ⟨e', he', hek⟩
        · right; rw [lookup_restoreC, if_neg hk]; exact h2

theorem CLog_restore {B D : List (K × Nat)} {log : List (K × Option Nat)} (hsB : SortedK B) (hsD : SortedK D)
    (h : CLog B D log) : log.foldl restoreC D = B :=
  let r := CLog_restore_lookups log D hsD h
  sorted_ext r.1 hsB r.2

end Undo
end Oratio
