/-
Mirror of the vocabulary of `OratioProofs/Properties/C10.lean` (which imports this file), and the
proofs of the C10 theorems in that mirrored vocabulary.  Every definition here is literally the
body of the corresponding definition of C10.lean, so the statements are definitionally equal.
-/
import OratioProofs.Lemmas.Dl

namespace Oratio
namespace Dl

abbrev REdge := Nat × Nat × Int

/-- mirror of `IEdge.holds` -/
def rholds (σ : Nat → Int) (e : REdge) : Prop := σ e.2.1 - σ e.1 ≤ e.2.2
/-- mirror of `Feasible` -/
def RFeasible (E : List REdge) : Prop := ∃ σ : Nat → Int, ∀ e ∈ E, rholds σ e

/-- mirror of `Dl.dist?` -/
def distOpt (t : Dl Int) (i j : Nat) : Option Int :=
  let x := Dl.d idlOps t i j; if x = idlInf then none else some x

/-- mirror of `Dl.Exact` -/
structure ExactM (K : Int) (E : List REdge) (t : Dl Int) : Prop where
  size_ok : 1 ≤ t.nVars ∧ t.nVars ≤ t.dists.length ∧ (∀ r ∈ t.dists, r.length = t.dists.length) ∧
    t.preds.length = t.dists.length ∧ (∀ r ∈ t.preds, r.length = t.dists.length)
  fresh : ∀ i j, i < t.dists.length → j < t.dists.length → (t.nVars ≤ i ∨ t.nVars ≤ j) →
    Dl.d idlOps t i j = if i = j then 0 else idlInf
  range : 0 ≤ K ∧ 4 * ((t.nVars : Int) + 1) * K < idlInf
  bounded : ∀ i j, i < t.nVars → j < t.nVars → ∀ x, distOpt t i j = some x → -((t.nVars : Int)) * K ≤ x ∧ x ≤ (t.nVars : Int) * K
  edges_in : ∀ e ∈ E, e.1 < t.nVars ∧ e.2.1 < t.nVars ∧ -K ≤ e.2.2 ∧ e.2.2 ≤ K
  diag : ∀ i, i < t.nVars → distOpt t i i = some 0
  respects : ∀ e ∈ E, ∃ x, distOpt t e.1 e.2.1 = some x ∧ x ≤ e.2.2
  closed : ∀ i j k, i < t.nVars → j < t.nVars → k < t.nVars →
    ∀ a b, distOpt t i k = some a → distOpt t k j = some b → ∃ c, distOpt t i j = some c ∧ c ≤ a + b
  implied : ∀ i j, i < t.nVars → j < t.nVars → ∀ x, distOpt t i j = some x →
    ∀ σ : Nat → Int, (∀ e ∈ E, rholds σ e) → σ j - σ i ≤ x

theorem distOpt_some {t : Dl Int} {i j : Nat} {x : Int} : distOpt t i j = some x ↔ (d idlOps t i j = x ∧ x ≠ idlInf) := by
  unfold distOpt
  dsimp only
  split
  · rename_i h; constructor
    · intro h'; cases h'
    · rintro ⟨h1, h2⟩; exact absurd (h1 ▸ h) h2
  · rename_i h; constructor
    · intro h'; cases h'; exact ⟨rfl, h⟩
    · rintro ⟨h1, _⟩; rw [h1]

theorem distOpt_none {t : Dl Int} {i j : Nat} : distOpt t i j = none ↔ d idlOps t i j = idlInf := by
  unfold distOpt
  dsimp only
  split
  · rename_i h; exact ⟨fun _ => h, fun _ => rfl⟩
  · rename_i h; constructor
    · intro h'; cases h'
    · intro h'; exact absurd h' h

theorem distOpt_of_fin {t : Dl Int} {i j : Nat} (h : d idlOps t i j ≠ idlInf) : distOpt t i j = some (d idlOps t i j) :=
  distOpt_some.mpr ⟨rfl, h⟩

theorem sat_iff (σ : Nat → Int) (E : List REdge) : (∀ e ∈ E, rholds σ e) ↔ DlM.Sat σ E := Iff.rfl

/-- size condition in terms of the shape -/
def SizeOk (nv : Nat) (shp : List Nat × List Nat) : Prop :=
  1 ≤ nv ∧ nv ≤ shp.1.length ∧ (∀ l ∈ shp.1, l = shp.1.length) ∧ shp.2.length = shp.1.length ∧ (∀ l ∈ shp.2, l = shp.1.length)

theorem sizeOk_iff (t : Dl Int) :
    (1 ≤ t.nVars ∧ t.nVars ≤ t.dists.length ∧ (∀ r ∈ t.dists, r.length = t.dists.length) ∧
      t.preds.length = t.dists.length ∧ (∀ r ∈ t.preds, r.length = t.dists.length)) ↔ SizeOk t.nVars (shape t) := by
  simp [SizeOk, shape]

theorem SizeOk.fits {nv : Nat} {shp : List Nat × List Nat} (h : SizeOk nv shp) : Fits nv shp := by
  obtain ⟨_, h2, h3, _, _⟩ := h
  exact ⟨h2, fun l hl => by rw [h3 l hl]; exact h2⟩

theorem mulK (n : Nat) (K : Int) : 4 * ((n : Int) + 1) * K = 4 * ((n : Int) * K) + 4 * K := by ring

theorem ExactM.weak {K : Int} {E : List REdge} {t : Dl Int} (h : ExactM K E t) :
    DlM.Weak t.nVars K ((t.nVars : Int) * K) E (d idlOps t) := by
  refine ⟨?_, h.edges_in, ?_, ?_, ?_, ?_⟩
  · intro i j hi hj
    by_cases hf : d idlOps t i j = idlInf
    · left; exact hf
    · right
      have := h.bounded i j hi hj _ (distOpt_of_fin hf)
      rw [Int.neg_mul] at this; exact this
  · intro i hi
    exact (distOpt_some.mp (h.diag i hi)).1
  · intro e he
    obtain ⟨x, hx, hle⟩ := h.respects e he
    obtain ⟨h1, h2⟩ := distOpt_some.mp hx
    rw [h1]; exact ⟨h2, hle⟩
  · intro i j k hi hj hk h1 h2
    obtain ⟨c, hc, hle⟩ := h.closed i j k hi hj hk _ _ (distOpt_of_fin h1) (distOpt_of_fin h2)
    obtain ⟨h3, h4⟩ := distOpt_some.mp hc
    rw [h3]; exact ⟨h4, hle⟩
  · intro i j hi hj hf σ hσ
    exact h.implied i j hi hj _ (distOpt_of_fin hf) σ hσ

theorem ExactM.nK_nonneg {K : Int} {E : List REdge} {t : Dl Int} (h : ExactM K E t) : 0 ≤ (t.nVars : Int) * K :=
  Int.mul_nonneg (by omega) h.range.1

/-- rebuild `ExactM` from the matrix-level facts -/
theorem ExactM.of_weak {K B : Int} {E : List REdge} {t : Dl Int}
    (hs : SizeOk t.nVars (shape t))
    (hfresh : ∀ i j, i < t.dists.length → j < t.dists.length → (t.nVars ≤ i ∨ t.nVars ≤ j) →
      Dl.d idlOps t i j = if i = j then 0 else idlInf)
    (hr : 0 ≤ K ∧ 4 * ((t.nVars : Int) + 1) * K < idlInf) (hB : 0 ≤ B)
    (h : DlM.Weak t.nVars K B E (d idlOps t)) : ExactM K E t := by
  refine ⟨(sizeOk_iff t).mpr hs, hfresh, hr, ?_, h.edges_in, ?_, ?_, ?_, ?_⟩
  · intro i j hi hj x hx
    obtain ⟨h1, h2⟩ := distOpt_some.mp hx
    have := DlM.sharp h hB hr.1 i j hi hj (by rw [h1]; exact h2)
    rw [h1] at this
    rw [Int.neg_mul]; exact this
  · intro i hi
    have := h.diag i hi
    exact distOpt_some.mpr ⟨this, by decide⟩
  · intro e he
    obtain ⟨h1, h2⟩ := h.respects e he
    exact ⟨_, distOpt_of_fin h1, h2⟩
  · intro i j k hi hj hk a b ha hb
    obtain ⟨a1, a2⟩ := distOpt_some.mp ha
    obtain ⟨b1, b2⟩ := distOpt_some.mp hb
    obtain ⟨c1, c2⟩ := h.closed i j k hi hj hk (by rw [a1]; exact a2) (by rw [b1]; exact b2)
    exact ⟨_, distOpt_of_fin c1, by rw [a1, b1] at c2; exact c2⟩
  · intro i j hi hj x hx σ hσ
    obtain ⟨h1, h2⟩ := distOpt_some.mp hx
    have := h.implied i j hi hj (by rw [h1]; exact h2) σ hσ
    rw [h1] at this; exact this

/-! ## what exactness means -/

theorem tight_witness (K : Int) (E : List REdge) (t : Dl Int) (h : ExactM K E t) (i j : Nat)
    (hi : i < t.nVars) (hj : j < t.nVars) (x : Int) (hx : distOpt t i j = some x)
    (_hreach : ∀ k, k < t.nVars → distOpt t i k ≠ none) :
    ∃ σ : Nat → Int, (∀ e ∈ E, rholds σ e) ∧ σ j - σ i = x := by
  have hw := h.weak
  obtain ⟨σ, hσ, hσf, _⟩ := DlM.witness hw h.nK_nonneg i hi _ (le_refl _)
  obtain ⟨h1, h2⟩ := distOpt_some.mp hx
  refine ⟨σ, hσ, ?_⟩
  rw [hσf j hj (by rw [h1]; exact h2), hσf i hi (by rw [hw.diag i hi]; decide), hw.diag i hi, h1]
  omega

theorem infinite_means_unbounded (K : Int) (E : List REdge) (t : Dl Int) (h : ExactM K E t) (i j : Nat)
    (hi : i < t.nVars) (hj : j < t.nVars) (hx : distOpt t i j = none) (B : Int) :
    ∃ σ : Nat → Int, (∀ e ∈ E, rholds σ e) ∧ σ j - σ i > B := by
  have hw := h.weak
  have hnK := h.nK_nonneg
  have hK := h.range.1
  obtain ⟨σ, hσ, hσf, hσi⟩ := DlM.witness hw hnK i hi (2 * ((t.nVars : Int) * K) + K + (if B < 0 then 0 else B) + 1)
    (by split <;> omega)
  refine ⟨σ, hσ, ?_⟩
  have h1 := hσi j hj (distOpt_none.mp hx)
  rw [hσf i hi (by rw [hw.diag i hi]; decide), hw.diag i hi]
  split at h1 <;> omega

theorem exact_feasible (K : Int) (E : List REdge) (t : Dl Int) (h : ExactM K E t) : RFeasible E :=
  ⟨fun k => DlM.colMin (d idlOps t) k t.nVars, (DlM.feasible0 h.weak h.nK_nonneg).1⟩

/-! ## construction and growth -/

theorem idlOps_zero : idlOps.zero = 0 := rfl
theorem idlOps_inf : idlOps.inf = idlInf := rfl

theorem d_init (n i j : Nat) (hi : i < n) (hj : j < n) :
    d idlOps (init idlOps n) i j = if i = j then 0 else idlInf := by
  rw [d_eq]
  simp [init, initDists, List.getD_eq_getElem?_getD, hi, hj, idlOps_zero, idlOps_inf]

theorem d_resize (t : Dl Int) (N a b : Nat) (ha : a < N) (hb : b < N) :
    d idlOps (resize idlOps t N) a b =
      if a < t.dists.length ∧ b < t.dists.length then d idlOps t a b else if a = b then 0 else idlInf := by
  rw [d_eq]
  simp [resize, List.getD_eq_getElem?_getD, ha, hb, idlOps_zero, idlOps_inf]

theorem sizeOk_resize (t : Dl Int) (N nv : Nat) (h1 : 1 ≤ nv) (h2 : nv ≤ N) :
    SizeOk nv (shape (resize idlOps t N)) := by
  simp [SizeOk, shape, resize, h1, h2]

theorem sizeOk_init : SizeOk 1 (shape (init idlOps 16)) := by
  simp [SizeOk, shape, init, initDists, initPreds]

theorem init_exact (K : Int) (hK : 0 ≤ K ∧ 4 * 2 * K < idlInf) : ExactM K [] (init idlOps 16 : Dl Int) := by
  have hlen : (init idlOps 16 : Dl Int).dists.length = 16 := by simp [init, initDists]
  apply ExactM.of_weak (B := 0)
  · exact sizeOk_init
  · intro i j hi hj _
    rw [hlen] at hi hj
    exact d_init 16 i j hi hj
  · show 0 ≤ K ∧ 4 * (((1 : Nat) : Int) + 1) * K < idlInf
    refine ⟨hK.1, ?_⟩
    have := hK.2
    omega
  · exact le_refl _
  · show DlM.Weak 1 K 0 [] (d idlOps (init idlOps 16))
    have h00 : d idlOps (init idlOps 16) 0 0 = 0 := by rw [d_init 16 0 0 (by omega) (by omega)]; rfl
    refine ⟨?_, ?_, ?_, ?_, ?_, ?_⟩
    · intro i j hi hj
      have : i = 0 := by omega
      have : j = 0 := by omega
      subst_vars; right; rw [h00]; omega
    · intro e he; cases he
    · intro i hi
      have : i = 0 := by omega
      subst this; exact h00
    · intro e he; cases he
    · intro i j k hi hj hk _ _
      have : i = 0 := by omega
      have : j = 0 := by omega
      have : k = 0 := by omega
      subst_vars; rw [h00]; exact ⟨by decide, by omega⟩
    · intro i j hi hj _ σ _
      have : i = 0 := by omega
      have : j = 0 := by omega
      subst_vars; rw [h00]; omega

theorem newVar_exact (K : Int) (E : List REdge) (t : Dl Int) (h : ExactM K E t)
    (hK : 4 * ((t.nVars : Int) + 2) * K < idlInf) :
    ExactM K E (newVar idlOps t).2 ∧ (newVar idlOps t).1 = t.nVars := by
  have hs : SizeOk t.nVars (shape t) := (sizeOk_iff t).mp h.size_ok
  obtain ⟨s1, s2, s3, s4, s5⟩ := h.size_ok
  have hr' : 0 ≤ K ∧ 4 * (((t.nVars + 1 : Nat) : Int) + 1) * K < idlInf := by
    refine ⟨h.range.1, ?_⟩
    have : ((t.nVars + 1 : Nat) : Int) + 1 = (t.nVars : Int) + 2 := by push_cast; ring
    rw [this]; exact hK
  have hw0 := h.weak
  have hnK := h.nK_nonneg
  unfold newVar
  dsimp only
  split
  · rename_i hlen
    refine ⟨?_, rfl⟩
    have hlen' : t.dists.length = t.nVars := hlen
    have hN : t.nVars + 1 ≤ t.dists.length * 3 / 2 + 1 := by omega
    apply ExactM.of_weak (B := (t.nVars : Int) * K)
    · exact sizeOk_resize _ _ (t.nVars + 1) (by omega) hN
    · intro i j hi hj hout
      have hl : (resize idlOps { t with nVars := t.nVars + 1 } (t.dists.length * 3 / 2 + 1)).dists.length
          = t.dists.length * 3 / 2 + 1 := by simp [resize]
      rw [hl] at hi hj
      rw [d_resize _ _ i j hi hj]
      have hout' : t.nVars + 1 ≤ i ∨ t.nVars + 1 ≤ j := hout
      rw [if_neg (by show ¬ (i < t.dists.length ∧ j < t.dists.length); omega)]
    · exact hr'
    · exact hnK
    · show DlM.Weak (t.nVars + 1) K _ E _
      apply hw0.extend hnK
      · intro a b ha hb
        rw [d_resize _ _ a b (by omega) (by omega), if_pos (by show a < t.dists.length ∧ b < t.dists.length; omega)]
        rfl
      · intro a b ha hb hab
        rw [d_resize _ _ a b (by omega) (by omega), if_neg (by show ¬ (a < t.dists.length ∧ b < t.dists.length); omega)]
  · rename_i hlen
    have hlen' : t.dists.length ≠ t.nVars := hlen
    refine ⟨?_, rfl⟩
    apply ExactM.of_weak (B := (t.nVars : Int) * K)
    · show SizeOk (t.nVars + 1) (shape t)
      obtain ⟨a1, a2, a3, a4, a5⟩ := hs
      refine ⟨by omega, ?_, a3, a4, a5⟩
      have : (shape t).1.length = t.dists.length := by simp [shape]
      omega
    · intro i j hi hj hout
      have hout' : t.nVars + 1 ≤ i ∨ t.nVars + 1 ≤ j := hout
      exact h.fresh i j hi hj (by omega)
    · exact hr'
    · exact hnK
    · show DlM.Weak (t.nVars + 1) K _ E (d idlOps t)
      apply hw0.extend hnK
      · intro a b _ _; rfl
      · intro a b ha hb hab
        exact h.fresh a b (by omega) (by omega) (by omega)

theorem new_distance_shortcut_valid (K : Int) (E : List REdge) (s : Sat) (t : Dl Int) (h : ExactM K E t)
    (f g : Nat) (w : Int) (hf : f < t.nVars) (hg : g < t.nVars) (hw : -K ≤ w ∧ w ≤ K) (hs : 0 < s.vals.length) :
    ((newDistance idlOps s t f g w).1 = Lit.trueLit → ∀ σ : Nat → Int, (∀ e ∈ E, rholds σ e) → rholds σ (f, g, w)) ∧
    ((newDistance idlOps s t f g w).1 = Lit.falseLit → ∀ σ : Nat → Int, (∀ e ∈ E, rholds σ e) → ¬ rholds σ (f, g, w)) := by
  have hw0 := h.weak
  have hI := h.range; rw [mulK] at hI
  have hnK := h.nK_nonneg
  have e1 : (idlOps.lt (d idlOps t g f) (idlOps.neg w) = true) = (d idlOps t g f < -w) := by simp [idlOps]
  have e2 : (idlOps.le (d idlOps t f g) w = true) = (d idlOps t f g ≤ w) := by simp [idlOps]
  unfold newDistance
  simp only [e1, e2]
  by_cases c1 : d idlOps t g f < -w
  · rw [if_pos c1]
    constructor
    · intro hh; exact absurd (show Lit.falseLit = Lit.trueLit from hh) (by decide)
    · intro _ σ hσ hcon
      have := hw0.implied g f hg hf (by omega) σ hσ
      have hcon' : σ g - σ f ≤ w := hcon
      omega
  · rw [if_neg c1]
    by_cases c2 : d idlOps t f g ≤ w
    · rw [if_pos c2]
      constructor
      · intro _ σ hσ
        have := hw0.implied f g hf hg (by omega) σ hσ
        show σ g - σ f ≤ w
        omega
      · intro hh; exact absurd (show Lit.trueLit = Lit.falseLit from hh) (by decide)
    · rw [if_neg c2]
      constructor
      · intro hh
        have : true = false := congrArg Lit.sign hh
        cases this
      · intro hh
        have := congrArg Lit.var hh
        have hv : s.vals.length = 0 := this
        omega

/-! ## the incremental update -/

theorem ExactM.uhyp {K : Int} {E : List REdge} {t : Dl Int} (h : ExactM K E t)
    {f g : Nat} {w : Int} (hf : f < t.nVars) (hg : g < t.nVars) (hfg : f ≠ g) (hw : -K ≤ w ∧ w ≤ K)
    (hnocycle : ∀ x, distOpt t g f = some x → 0 ≤ x + w)
    (himproves : ∀ x, distOpt t f g = some x → w < x) :
    UHyp t.nVars K ((t.nVars : Int) * K) (d idlOps t) f g w := by
  have hw0 := h.weak
  have hr := h.range
  rw [mulK] at hr
  have hnK := h.nK_nonneg
  refine ⟨hf, hg, hfg, hnK, hr.1, hr.2, hw, hw0.bnd, hw0.diag, hw0.closed, ?_, ?_⟩
  · by_cases hc : d idlOps t g f = idlInf
    · left; exact hc
    · right; exact hnocycle _ (distOpt_of_fin hc)
  · by_cases hc : d idlOps t f g = idlInf
    · rw [hc]; omega
    · exact himproves _ (distOpt_of_fin hc)

theorem update_closed_form (K : Int) (E : List REdge) (s : Sat) (t : Dl Int) (h : ExactM K E t)
    (f g : Nat) (w : Int) (hf : f < t.nVars) (hg : g < t.nVars) (hfg : f ≠ g) (hw : -K ≤ w ∧ w ≤ K)
    (hnocycle : ∀ x, distOpt t g f = some x → 0 ≤ x + w)
    (himproves : ∀ x, distOpt t f g = some x → w < x) :
    let t' := (Dl.propagateEdge idlOps s t f g w).2
    ExactM K ((f, g, w) :: E) t' ∧ t'.nVars = t.nVars ∧
    ∀ i j, i < t.nVars → j < t.nVars →
      distOpt t' i j =
        (match distOpt t i f, distOpt t g j with
         | some a, some b => match distOpt t i j with
           | some c => some (min c (a + w + b))
           | none => some (a + w + b)
         | _, _ => distOpt t i j) := by
  intro t'
  have hy := h.uhyp hf hg hfg hw hnocycle himproves
  have hs : SizeOk t.nVars (shape t) := (sizeOk_iff t).mp h.size_ok
  obtain ⟨hnv, hshp, hmat⟩ := propagateEdge_spec hy hs.fits s t rfl rfl rfl
  have hw0 := h.weak
  have hnK := h.nK_nonneg
  have hr := h.range
  have hwk : DlM.Weak t.nVars K (2 * ((t.nVars : Int) * K) + K) ((f, g, w) :: E) (DlM.upd (d idlOps t) f g w) :=
    DlM.update_weak hw0 hnK hr.1 hy.hInf hf hg hw hy.cyc
  have hwk' : DlM.Weak t'.nVars K (2 * ((t.nVars : Int) * K) + K) ((f, g, w) :: E) (d idlOps t') := by
    show DlM.Weak (propagateEdge idlOps s t f g w).2.nVars K _ _ _
    rw [hnv]
    exact hwk.congr (fun a b ha hb => by rw [hmat a b, if_pos ⟨ha, hb⟩])
  have hlen : t'.dists.length = t.dists.length := by
    have := congrArg (fun p => p.1.length) hshp
    simpa [shape] using this
  refine ⟨?_, hnv, ?_⟩
  · apply ExactM.of_weak (B := 2 * ((t.nVars : Int) * K) + K)
    · show SizeOk (propagateEdge idlOps s t f g w).2.nVars (shape (propagateEdge idlOps s t f g w).2)
      rw [hnv, hshp]; exact hs
    · intro i j hi hj hout
      rw [hlen] at hi hj
      show d idlOps (propagateEdge idlOps s t f g w).2 i j = _
      have hout' : t.nVars ≤ i ∨ t.nVars ≤ j := by
        have : (propagateEdge idlOps s t f g w).2.nVars = t.nVars := hnv
        rw [← this]; exact hout
      rw [hmat i j, if_neg (by omega)]
      exact h.fresh i j hi hj hout'
    · show 0 ≤ K ∧ 4 * (((propagateEdge idlOps s t f g w).2.nVars : Int) + 1) * K < idlInf
      rw [hnv]; exact hr
    · omega
    · exact hwk'
  · intro i j hi hj
    have hd : d idlOps t' i j = DlM.upd (d idlOps t) f g w i j := by
      rw [hmat i j, if_pos ⟨hi, hj⟩]
    have b1 := hw0.bnd i f hi hf
    have b2 := hw0.bnd g j hg hj
    have b3 := hw0.bnd i j hi hj
    have hI := hy.hInf
    by_cases h1 : d idlOps t i f = idlInf
    · rw [distOpt_none.mpr h1]
      have : DlM.upd (d idlOps t) f g w i j = d idlOps t i j := by
        unfold DlM.upd; rw [if_neg (fun hh => hh.1 h1)]
      simp only [distOpt, hd, this]
    · by_cases h2 : d idlOps t g j = idlInf
      · rw [distOpt_none.mpr h2, distOpt_of_fin h1]
        have : DlM.upd (d idlOps t) f g w i j = d idlOps t i j := by
          unfold DlM.upd; rw [if_neg (fun hh => hh.2.1 h2)]
        simp only [distOpt, hd, this]
      · rw [distOpt_of_fin h1, distOpt_of_fin h2]
        by_cases h3 : d idlOps t i j = idlInf
        · rw [distOpt_none.mpr h3]
          have : DlM.upd (d idlOps t) f g w i j = d idlOps t i f + w + d idlOps t g j := by
            unfold DlM.upd; rw [if_pos ⟨h1, h2, by omega⟩]
          simp only []
          apply distOpt_some.mpr
          rw [hd, this]
          exact ⟨rfl, by omega⟩
        · rw [distOpt_of_fin h3]
          simp only []
          apply distOpt_some.mpr
          rw [hd]
          unfold DlM.upd
          split
          · rename_i hc; exact ⟨by omega, by omega⟩
          · rename_i hc
            have : ¬ (d idlOps t i f + w + d idlOps t g j < d idlOps t i j) := fun hh => hc ⟨h1, h2, hh⟩
            exact ⟨by omega, by omega⟩

/-! ## conflicts -/

/-- the state on which `propagate(lit)` runs the matrix update -/
def armed (t : Dl Int) (k : Nat × Nat) (b : Nat) : Dl Int :=
  { saveConstr t k with distConstr := assignPair (saveConstr t k).distConstr k b }

theorem saveConstr_same (t : Dl Int) (k : Nat × Nat) :
    (saveConstr t k).nVars = t.nVars ∧ (saveConstr t k).dists = t.dists ∧ (saveConstr t k).preds = t.preds := by
  unfold saveConstr
  cases t.layers with
  | nil => exact ⟨rfl, rfl, rfl⟩
  | cons l ls => dsimp only; split <;> exact ⟨rfl, rfl, rfl⟩

theorem armed_same (t : Dl Int) (k : Nat × Nat) (b : Nat) :
    (armed t k b).nVars = t.nVars ∧ (armed t k b).dists = t.dists ∧ (armed t k b).preds = t.preds :=
  saveConstr_same t k

theorem propagateLit_true (s : Sat) (t : Dl Int) (c : DConstr Int) (hc : t.constrOf c.b = some c)
    (hv : s.value ⟨c.b, true⟩ = some true) :
    propagateLit idlOps s t ⟨c.b, true⟩ =
      if d idlOps t c.dst c.src < -c.dist then
        .inl (walk s t c.dst t.nVars c.src [] ++ [(⟨c.b, true⟩ : Lit).neg])
      else if c.dist < d idlOps t c.src c.dst then
        .inr (propagateEdge idlOps s (armed t (c.src, c.dst) c.b) c.src c.dst c.dist)
      else .inr (s, t) := by
  simp only [propagateLit, hc, hv]
  have e1 : (idlOps.lt (d idlOps t c.dst c.src) (idlOps.neg c.dist) = true) = (d idlOps t c.dst c.src < -c.dist) := by
    simp [idlOps]
  have e2 : (idlOps.lt c.dist (d idlOps t c.src c.dst) = true) = (c.dist < d idlOps t c.src c.dst) := by
    simp [idlOps]
  simp only [e1, e2]
  rfl

theorem propagateLit_false (s : Sat) (t : Dl Int) (c : DConstr Int) (hc : t.constrOf c.b = some c)
    (hv : s.value ⟨c.b, true⟩ = some false) :
    propagateLit idlOps s t ⟨c.b, false⟩ =
      if d idlOps t c.src c.dst ≤ c.dist then
        .inl (walk s t c.src t.nVars c.dst [] ++ [(⟨c.b, false⟩ : Lit).neg])
      else if -c.dist ≤ d idlOps t c.dst c.src then
        .inr (propagateEdge idlOps s (armed t (c.dst, c.src) c.b) c.dst c.src (-c.dist - 1))
      else .inr (s, t) := by
  simp only [propagateLit, hc, hv]
  have e1 : (idlOps.le (d idlOps t c.src c.dst) c.dist = true) = (d idlOps t c.src c.dst ≤ c.dist) := by
    simp [idlOps]
  have e2 : (idlOps.le (idlOps.neg c.dist) (d idlOps t c.dst c.src) = true) = (-c.dist ≤ d idlOps t c.dst c.src) := by
    simp [idlOps]
  simp only [e1, e2]
  rfl

/-- `ExactM` only looks at `nVars`, `dists`, `preds` -/
theorem ExactM.congr_state {K : Int} {E : List REdge} {t t2 : Dl Int} (h : ExactM K E t)
    (h1 : t2.nVars = t.nVars) (h2 : t2.dists = t.dists) (h3 : t2.preds = t.preds) : ExactM K E t2 := by
  have hd : d idlOps t2 = d idlOps t := by funext a b; exact d_congr h2 a b
  have hshape : shape t2 = shape t := by simp only [shape, h2, h3]
  apply ExactM.of_weak (B := (t.nVars : Int) * K)
  · rw [h1, hshape]; exact (sizeOk_iff t).mp h.size_ok
  · rw [h1, h2, hd]; exact h.fresh
  · rw [h1]; exact h.range
  · exact h.nK_nonneg
  · rw [h1, hd]; exact h.weak

/-- a redundant edge can be added to the ghost edge set -/
theorem ExactM.add_redundant {K : Int} {E : List REdge} {t : Dl Int} (h : ExactM K E t)
    {a b : Nat} {w : Int} (ha : a < t.nVars) (hb : b < t.nVars) (hw : -K ≤ w ∧ w ≤ K)
    (hfin : d idlOps t a b ≠ idlInf) (hle : d idlOps t a b ≤ w) : ExactM K ((a, b, w) :: E) t := by
  refine ⟨h.size_ok, h.fresh, h.range, h.bounded, ?_, h.diag, ?_, h.closed, ?_⟩
  · intro e he
    rcases List.mem_cons.mp he with rfl | he
    · exact ⟨ha, hb, hw.1, hw.2⟩
    · exact h.edges_in e he
  · intro e he
    rcases List.mem_cons.mp he with rfl | he
    · exact ⟨_, distOpt_of_fin hfin, hle⟩
    · exact h.respects e he
  · intro i j hi hj x hx σ hσ
    exact h.implied i j hi hj x hx σ (fun e he => hσ e (List.mem_cons_of_mem _ he))

theorem infeasible_iff (K : Int) (E : List REdge) (t : Dl Int) (h : ExactM K E t)
    {a b : Nat} {w : Int} (ha : a < t.nVars) (hb : b < t.nVars) (hab : a ≠ b) (hw : -K ≤ w ∧ w ≤ K) :
    ¬ RFeasible ((a, b, w) :: E) ↔ (d idlOps t b a ≠ idlInf ∧ d idlOps t b a + w < 0) := by
  have hw0 := h.weak
  have hI := h.range; rw [mulK] at hI
  have hnK := h.nK_nonneg
  constructor
  · intro hinf
    by_contra hcon
    apply hinf
    by_cases himp : w < d idlOps t a b
    · have r := update_closed_form K E Sat.init t h a b w ha hb hab hw
        (by
          intro x hx
          obtain ⟨h1, h2⟩ := distOpt_some.mp hx
          by_contra hh
          exact hcon ⟨by rw [h1]; exact h2, by omega⟩)
        (by
          intro x hx
          obtain ⟨h1, h2⟩ := distOpt_some.mp hx
          omega)
      exact exact_feasible K _ _ r.1
    · have b1 := hw0.bnd a b ha hb
      have hfin : d idlOps t a b ≠ idlInf := by omega
      exact exact_feasible K _ _ (h.add_redundant ha hb hw hfin (by omega))
  · rintro ⟨hfin, hlt⟩ ⟨σ, hσ⟩
    have h1 := hw0.implied b a hb ha hfin σ (fun e he => hσ e (List.mem_cons_of_mem _ he))
    have h2 : σ b - σ a ≤ w := hσ (a, b, w) List.mem_cons_self
    omega

theorem conflict_iff_infeasible (K : Int) (E : List REdge) (s : Sat) (t : Dl Int) (h : ExactM K E t)
    (c : DConstr Int) (hc : t.constrOf c.b = some c) (hv : s.value ⟨c.b, true⟩ = some true)
    (hr : c.src < t.nVars ∧ c.dst < t.nVars ∧ c.src ≠ c.dst ∧ -K ≤ c.dist ∧ c.dist ≤ K) :
    (∃ cl, Dl.propagateLit idlOps s t ⟨c.b, true⟩ = .inl cl) ↔ ¬ RFeasible ((c.src, c.dst, c.dist) :: E) := by
  obtain ⟨h1, h2, h3, h4, h5⟩ := hr
  have hI := h.range; rw [mulK] at hI
  have hnK := h.nK_nonneg
  rw [infeasible_iff K E t h h1 h2 h3 ⟨h4, h5⟩, propagateLit_true s t c hc hv]
  constructor
  · rintro ⟨cl, hcl⟩
    by_cases hlt : d idlOps t c.dst c.src < -c.dist
    · exact ⟨by omega, by omega⟩
    · rw [if_neg hlt] at hcl
      split at hcl <;> cases hcl
  · rintro ⟨hf, hlt⟩
    rw [if_pos (by omega)]
    exact ⟨_, rfl⟩

theorem negation_is_reverse_edge (K : Int) (E : List REdge) (s : Sat) (t : Dl Int) (h : ExactM K E t)
    (c : DConstr Int) (hc : t.constrOf c.b = some c) (hv : s.value ⟨c.b, true⟩ = some false)
    (hr : c.src < t.nVars ∧ c.dst < t.nVars ∧ c.src ≠ c.dst ∧ -K ≤ c.dist ∧ c.dist + 1 ≤ K) :
    (∀ σ : Nat → Int, ¬ rholds σ (c.src, c.dst, c.dist) ↔ rholds σ (c.dst, c.src, -c.dist - 1)) ∧
    ((∃ cl, Dl.propagateLit idlOps s t ⟨c.b, false⟩ = .inl cl) ↔ ¬ RFeasible ((c.dst, c.src, -c.dist - 1) :: E)) := by
  obtain ⟨h1, h2, h3, h4, h5⟩ := hr
  have hI := h.range; rw [mulK] at hI
  have hnK := h.nK_nonneg
  constructor
  · intro σ
    show ¬ (σ c.dst - σ c.src ≤ c.dist) ↔ σ c.src - σ c.dst ≤ -c.dist - 1
    omega
  · rw [infeasible_iff K E t h h2 h1 (Ne.symm h3) ⟨by omega, by omega⟩, propagateLit_false s t c hc hv]
    constructor
    · rintro ⟨cl, hcl⟩
      by_cases hle : d idlOps t c.src c.dst ≤ c.dist
      · exact ⟨by omega, by omega⟩
      · rw [if_neg hle] at hcl
        split at hcl <;> cases hcl
    · rintro ⟨hf, hlt⟩
      rw [if_pos (by omega)]
      exact ⟨_, rfl⟩

theorem propagate_exact (K : Int) (E : List REdge) (s s' : Sat) (t t' : Dl Int) (h : ExactM K E t)
    (c : DConstr Int) (hc : t.constrOf c.b = some c) (b : Bool) (hv : s.value ⟨c.b, true⟩ = some b)
    (hr : c.src < t.nVars ∧ c.dst < t.nVars ∧ c.src ≠ c.dst ∧ -K ≤ c.dist ∧ c.dist + 1 ≤ K)
    (hp : Dl.propagateLit idlOps s t ⟨c.b, b⟩ = .inr (s', t')) :
    ExactM K ((if b then (c.src, c.dst, c.dist) else (c.dst, c.src, -c.dist - 1)) :: E) t' := by
  obtain ⟨h1, h2, h3, h4, h5⟩ := hr
  have hI := h.range; rw [mulK] at hI
  have hnK := h.nK_nonneg
  have hw0 := h.weak
  cases b with
  | true =>
    rw [propagateLit_true s t c hc hv] at hp
    simp only [if_true]
    by_cases hlt : d idlOps t c.dst c.src < -c.dist
    · rw [if_pos hlt] at hp; cases hp
    · rw [if_neg hlt] at hp
      by_cases himp : c.dist < d idlOps t c.src c.dst
      · rw [if_pos himp] at hp
        obtain ⟨a1, a2, a3⟩ := armed_same t (c.src, c.dst) c.b
        have h' := h.congr_state a1 a2 a3
        have hd : ∀ i j, d idlOps (armed t (c.src, c.dst) c.b) i j = d idlOps t i j := fun i j => d_congr a2 i j
        have r := update_closed_form K E s _ h' c.src c.dst c.dist (by rw [a1]; exact h1) (by rw [a1]; exact h2) h3
          ⟨h4, by omega⟩
          (by
            intro x hx
            obtain ⟨e1, e2⟩ := distOpt_some.mp hx
            rw [hd] at e1; omega)
          (by
            intro x hx
            obtain ⟨e1, e2⟩ := distOpt_some.mp hx
            rw [hd] at e1; omega)
        have : t' = (propagateEdge idlOps s (armed t (c.src, c.dst) c.b) c.src c.dst c.dist).2 := by
          have := congrArg (fun x => match x with | .inr p => p.2 | .inl _ => t) hp
          exact this.symm
        rw [this]; exact r.1
      · rw [if_neg himp] at hp
        have : t' = t := by cases hp; rfl
        rw [this]
        have b1 := hw0.bnd c.src c.dst h1 h2
        exact h.add_redundant h1 h2 ⟨h4, by omega⟩ (by omega) (by omega)
  | false =>
    rw [propagateLit_false s t c hc hv] at hp
    simp only [Bool.false_eq_true, if_false]
    by_cases hle : d idlOps t c.src c.dst ≤ c.dist
    · rw [if_pos hle] at hp; cases hp
    · rw [if_neg hle] at hp
      by_cases himp : -c.dist ≤ d idlOps t c.dst c.src
      · rw [if_pos himp] at hp
        obtain ⟨a1, a2, a3⟩ := armed_same t (c.dst, c.src) c.b
        have h' := h.congr_state a1 a2 a3
        have hd : ∀ i j, d idlOps (armed t (c.dst, c.src) c.b) i j = d idlOps t i j := fun i j => d_congr a2 i j
        have r := update_closed_form K E s _ h' c.dst c.src (-c.dist - 1) (by rw [a1]; exact h2) (by rw [a1]; exact h1)
          (Ne.symm h3) ⟨by omega, by omega⟩
          (by
            intro x hx
            obtain ⟨e1, e2⟩ := distOpt_some.mp hx
            rw [hd] at e1; omega)
          (by
            intro x hx
            obtain ⟨e1, e2⟩ := distOpt_some.mp hx
            rw [hd] at e1; omega)
        have : t' = (propagateEdge idlOps s (armed t (c.dst, c.src) c.b) c.dst c.src (-c.dist - 1)).2 := by
          have := congrArg (fun x => match x with | .inr p => p.2 | .inl _ => t) hp
          exact this.symm
        rw [this]; exact r.1
      · rw [if_neg himp] at hp
        have : t' = t := by cases hp; rfl
        rw [this]
        have b1 := hw0.bnd c.dst c.src h2 h1
        exact h.add_redundant h2 h1 ⟨by omega, by omega⟩ (by omega) (by omega)

end Dl
end Oratio
