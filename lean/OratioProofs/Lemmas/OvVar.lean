/-
Lemmas for property C14, part 2: creation of object variables (`mkGuards`, `newVar`,
`newVarLits`), `value`, `allows`.
-/
import OratioProofs.Lemmas.Ov

namespace Oratio
namespace OvL
open Enc EncL

/-! ## `mkGuards`: one fresh positive variable per item -/

/-- the guards of `items`, numbered from `n` -/
def gl : Nat → List Nat → List (Nat × Lit)
  | _, [] => []
  | n, i :: rest => (i, ⟨n, true⟩) :: gl (n + 1) rest

theorem gl_fst : ∀ (n : Nat) (items : List Nat), (gl n items).map (·.1) = items
  | _, [] => rfl
  | n, i :: rest => by simp [gl, gl_fst (n + 1) rest]

theorem gl_mem : ∀ {n : Nat} {items : List Nat} {e : Nat × Lit}, e ∈ gl n items →
    e.2.sign = true ∧ n ≤ e.2.var ∧ e.2.var < n + items.length
  | _, [], _, h => by cases h
  | n, i :: rest, e, h => by
    simp only [gl, List.mem_cons] at h
    rcases h with rfl | h
    · simp
    · obtain ⟨h1, h2, h3⟩ := gl_mem h
      simp only [List.length_cons]
      exact ⟨h1, by omega, by omega⟩

theorem gl_snd_nodup : ∀ (n : Nat) (items : List Nat), ((gl n items).map (·.2)).Nodup
  | _, [] => by simp [gl]
  | n, i :: rest => by
    simp only [gl, List.map_cons, List.nodup_cons, List.mem_map, not_exists, not_and]
    refine ⟨fun e he h => ?_, gl_snd_nodup (n + 1) rest⟩
    have := (gl_mem he).2.1
    rw [h] at this
    simp only at this
    omega

theorem emplace_new {d : List (Nat × Lit)} {v : Nat} (l : Lit) (h : ∀ e ∈ d, e.1 ≠ v) :
    Ov.emplace d v l = d ++ [(v, l)] := by
  unfold Ov.emplace
  rw [if_neg]
  simp only [List.any_eq_true, not_exists, not_and]
  intro e he
  simpa using h e he

theorem mkGuards_eq : ∀ (items : List Nat) (e : Enc) (d : List (Nat × Lit)), items.Nodup →
    (∀ i ∈ items, ∀ x ∈ d, x.1 ≠ i) →
    Ov.mkGuards e items d =
      ({ e with vals := e.vals ++ List.replicate items.length none }, d ++ gl e.nvars items)
  | [], e, d, _, _ => by simp [Ov.mkGuards, gl]
  | i :: rest, e, d, hn, hd => by
    simp only [List.nodup_cons] at hn
    simp only [Ov.mkGuards, newVar_eq]
    rw [emplace_new _ (hd i (by simp))]
    rw [mkGuards_eq rest _ _ hn.2 (by
      intro j hj x hx
      simp only [List.mem_append, List.mem_singleton] at hx
      rcases hx with hx | rfl
      · exact hd j (by simp [hj]) x hx
      · intro h; apply hn.1; simpa [← h] using hj)]
    simp only [gl, nvars_addVars, List.append_assoc, List.replicate_append_replicate,
      List.length_cons, List.singleton_append]
    rw [Nat.add_comm 1 rest.length]

/-! ## the guards as a literal list -/

theorem mem_guard_lits {d : List (Nat × Lit)} (hnd : (d.map (·.1)).Nodup) {l : Lit} :
    l ∈ (d.map (·.1)).filterMap (Ov.lookupVal d) ↔ ∃ k, (k, l) ∈ d := by
  simp only [List.mem_filterMap, List.mem_map]
  constructor
  · rintro ⟨k, _, hk⟩; exact ⟨k, lookupVal_some_mem hk⟩
  · rintro ⟨k, hk⟩; exact ⟨k, ⟨(k, l), hk, rfl⟩, lookupVal_of_mem hnd hk⟩

/-- exactly one guard true = exactly one value taken, when the guards are distinct -/
theorem takes_of_exactlyOne {α : Asg} {s : Ov} {v : Nat} (hnd : ((s.dom v).map (·.1)).Nodup)
    (hinj : ((s.dom v).map (·.2)).Nodup)
    (hE : ExactlyOne α (((s.dom v).map (·.1)).filterMap (Ov.lookupVal (s.dom v)))) :
    OneValue α s v := by
  obtain ⟨hA, a, ha, hta⟩ := hE
  obtain ⟨k, hk⟩ := (mem_guard_lits hnd).1 ha
  refine ⟨k, ⟨a, lookupVal_of_mem hnd hk, hta⟩, fun e he hne => ?_⟩
  cases hv : α.lit e.2 with
  | false => rfl
  | true =>
    have h1 : e.2 = a := hA e.2 ((mem_guard_lits hnd).2 ⟨e.1, he⟩) a ha hv hta
    have h2 : e = (k, a) := eq_of_nodup_map hinj he hk h1
    rw [h2] at hne
    exact absurd rfl hne

/-! ## `newVar` -/

theorem newVar_singleton (s : Ov) (i : Nat) (enf : Bool) :
    s.newVar [i] enf = (s.doms.length, { s with doms := s.doms ++ [[(i, Lit.trueLit)]] }) := rfl

theorem newVar_two (s : Ov) (a b : Nat) (t : List Nat) (enf : Bool) :
    s.newVar (a :: b :: t) enf =
      (s.doms.length,
        { s with
          enc := if enf then
              ((((Ov.mkGuards s.enc (a :: b :: t) []).1.newExctOne
                ((a :: b :: t).filterMap (Ov.lookupVal (Ov.mkGuards s.enc (a :: b :: t) []).2))).2).newClause
                [(((Ov.mkGuards s.enc (a :: b :: t) []).1.newExctOne
                ((a :: b :: t).filterMap (Ov.lookupVal (Ov.mkGuards s.enc (a :: b :: t) []).2))).1)]).2
            else (Ov.mkGuards s.enc (a :: b :: t) []).1
          doms := s.doms ++ [(Ov.mkGuards s.enc (a :: b :: t) []).2] }) := by
  cases enf <;> rfl

theorem two_le_cases {items : List Nat} (hl : 2 ≤ items.length) : ∃ a b t, items = a :: b :: t := by
  match items, hl with
  | a :: b :: t, _ => exact ⟨a, b, t, rfl⟩

/-- the state after the guard loop -/
abbrev addVars (e : Enc) (n : Nat) : Enc := { e with vals := e.vals ++ List.replicate n none }

theorem mkGuards_nil (e : Enc) {items : List Nat} (hn : items.Nodup) :
    Ov.mkGuards e items [] = (addVars e items.length, gl e.nvars items) := by
  rw [mkGuards_eq items e [] hn (by intro _ _ x hx; cases hx)]
  simp

theorem newVar_false_eq (s : Ov) {items : List Nat} (hn : items.Nodup) (hl : 2 ≤ items.length) :
    s.newVar items false =
      (s.doms.length, ⟨addVars s.enc items.length, s.doms ++ [gl s.enc.nvars items], s.eqs⟩) := by
  obtain ⟨a, b, t, rfl⟩ := two_le_cases hl
  rw [newVar_two, mkGuards_nil s.enc hn]
  rfl

theorem newVar_true_eq (s : Ov) {items : List Nat} (hn : items.Nodup) (hl : 2 ≤ items.length) :
    s.newVar items true =
      (s.doms.length,
        ⟨(((addVars s.enc items.length).newExctOne
              (items.filterMap (Ov.lookupVal (gl s.enc.nvars items)))).2.newClause
            [((addVars s.enc items.length).newExctOne
              (items.filterMap (Ov.lookupVal (gl s.enc.nvars items)))).1]).2,
          s.doms ++ [gl s.enc.nvars items], s.eqs⟩) := by
  obtain ⟨a, b, t, rfl⟩ := two_le_cases hl
  rw [newVar_two, mkGuards_nil s.enc hn]
  rfl

theorem gl_good (s : Ov) {items : List Nat} (hn : items.Nodup) (hl : 2 ≤ items.length) {e' : Enc}
    (hr : s.enc.nvars + items.length ≤ e'.nvars) :
    ∀ d ∈ [gl s.enc.nvars items], (d.map (·.1)).Nodup ∧ d ≠ [] ∧ ∀ e ∈ d, e.2.var < e'.nvars := by
  intro d hd
  simp only [List.mem_singleton] at hd
  subst hd
  refine ⟨by rw [gl_fst]; exact hn, ?_, fun e he => ?_⟩
  · obtain ⟨a, b, t, rfl⟩ := two_le_cases hl
    simp [gl]
  · have := (gl_mem he).2.2
    omega

theorem unenforced_aux (s : Ov) (items : List Nat) (h : Inv s) (hn : items.Nodup) (hl : 2 ≤ items.length)
    (r : Nat × Ov) (hr : s.newVar items false = r) :
    Inv r.2 ∧ (r.2.dom r.1).map (·.1) = items ∧ r.2.enc.clauses = s.enc.clauses ∧
    (∀ e ∈ r.2.dom r.1, s.enc.nvars ≤ e.2.var ∧ e.2.sign = true) ∧ ((r.2.dom r.1).map (·.2)).Nodup ∧
    Extends s.enc r.2.enc ∧ Refines s.enc r.2.enc := by
  rw [newVar_false_eq s hn hl] at hr
  subst hr
  have hdom : (Ov.mk (addVars s.enc items.length) (s.doms ++ [gl s.enc.nvars items]) s.eqs).dom s.doms.length
      = gl s.enc.nvars items := dom_push_new _ _
  simp only [hdom]
  refine ⟨?_, gl_fst _ _, trivial, fun e he => ?_, gl_snd_nodup _ _, extends_addVars _, refines_addVars _ _⟩
  · exact inv_update h (inv_addVars h.1.1 _) (refines_addVars _ _) _
      (gl_good s hn hl (by rw [nvars_addVars]; exact Nat.le_refl _))
  · have := gl_mem he
    exact ⟨this.2.1, this.1⟩

theorem unenforced (s : Ov) (items : List Nat) (h : Inv s) (hn : items.Nodup) (hl : 2 ≤ items.length) :
    let r := s.newVar items false
    Inv r.2 ∧ (r.2.dom r.1).map (·.1) = items ∧ r.2.enc.clauses = s.enc.clauses ∧
    (∀ e ∈ r.2.dom r.1, s.enc.nvars ≤ e.2.var ∧ e.2.sign = true) ∧ ((r.2.dom r.1).map (·.2)).Nodup ∧
    Extends s.enc r.2.enc ∧ Refines s.enc r.2.enc :=
  unenforced_aux s items h hn hl _ rfl

/-! ## `newVar items true` -/

theorem exactly_one_aux (s : Ov) (items : List Nat) (h : Inv s) (hn : items.Nodup) (hl : 2 ≤ items.length)
    (r : Nat × Ov) (hr : s.newVar items true = r) :
    Inv r.2 ∧ r.1 = s.doms.length ∧ (r.2.dom r.1).map (·.1) = items ∧
    (∀ α, EncL.Sat α r.2.enc → OneValue α r.2 r.1) ∧
    Extends s.enc r.2.enc ∧ Refines s.enc r.2.enc ∧
    (∀ α k, EncL.Sat α s.enc → k ∈ items →
      ∃ α', EncL.Sat α' r.2.enc ∧ (∀ v, v < s.enc.nvars → α' v = α v) ∧ Takes α' r.2 r.1 k) := by
  rw [newVar_true_eq s hn hl] at hr
  subst hr
  have hE1 : EncL.Inv (addVars s.enc items.length) := inv_addVars h.1.1 _
  have hnv1 : (addVars s.enc items.length).nvars = s.enc.nvars + items.length := nvars_addVars _ _
  have hfst : (gl s.enc.nvars items).map (·.1) = items := gl_fst _ _
  have hnd : ((gl s.enc.nvars items).map (·.1)).Nodup := by rw [hfst]; exact hn
  have hmem : ∀ l, l ∈ items.filterMap (Ov.lookupVal (gl s.enc.nvars items)) ↔
      ∃ k, (k, l) ∈ gl s.enc.nvars items := by
    intro l
    have := @mem_guard_lits (gl s.enc.nvars items) hnd l
    rw [hfst] at this
    exact this
  have hrange : InRange (addVars s.enc items.length) (items.filterMap (Ov.lookupVal (gl s.enc.nvars items))) := by
    intro l hl'
    obtain ⟨k, hk⟩ := (hmem l).1 hl'
    have := (gl_mem hk).2.2
    rw [hnv1]; exact this
  obtain ⟨k0, hk0⟩ : ∃ k, k ∈ items := by
    obtain ⟨a, b, t, rfl⟩ := two_le_cases hl
    exact ⟨a, by simp⟩
  -- the exactly-one expression is not in the cache
  have hfresh : exoFresh (addVars s.enc items.length)
      (items.filterMap (Ov.lookupVal (gl s.enc.nvars items))) = true := by
    obtain ⟨e, he, _⟩ := List.mem_map.1 (by rw [hfst]; exact hk0 : k0 ∈ (gl s.enc.nvars items).map (·.1))
    have hg := gl_mem he
    refine exoFresh_of_fresh (e := addVars s.enc items.length) (n := s.enc.nvars) (g := e.2) (fun x hx => (h.1.1.1.2.2 x hx).2)
      ((hmem e.2).2 ⟨e.1, he⟩) ?_ hg.2.1
    rw [value_addVars]
    exact value_none_of_ge hg.2.1
  obtain ⟨x1, x2, x3, x4, x5⟩ := exo_spec hE1 hrange
  have hcomp := exo_complete hE1 hrange hfresh
  generalize (addVars s.enc items.length).newExctOne
    (items.filterMap (Ov.lookupVal (gl s.enc.nvars items))) = X at x1 x2 x3 x4 x5 hcomp ⊢
  obtain ⟨c1, c2, c3, c4, c5⟩ := newClause_full (c := [X.1]) x1 (by
    intro l hl'
    simp only [List.mem_singleton] at hl'
    rw [hl']; exact x2)
  generalize X.2.newClause [X.1] = F at c1 c2 c3 c4 c5 ⊢
  have hdom : (Ov.mk F.2 (s.doms ++ [gl s.enc.nvars items]) s.eqs).dom s.doms.length
      = gl s.enc.nvars items := dom_push_new _ _
  have href : Refines s.enc F.2 :=
    Refines.trans (refines_addVars _ _) (Refines.trans x5 ⟨by rw [c2]; exact Nat.le_refl _, c3⟩)
  -- every model of the old network extends, with any chosen value
  have hext : ∀ α k, EncL.Sat α s.enc → k ∈ items →
      F.1 = true ∧ ∃ α', EncL.Sat α' F.2 ∧ (∀ v, v < s.enc.nvars → α' v = α v) ∧
        Takes α' (Ov.mk F.2 (s.doms ++ [gl s.enc.nvars items]) s.eqs) s.doms.length k := by
    intro α k hα hk
    obtain ⟨e, he, rfl⟩ := List.mem_map.1 (by rw [hfst]; exact hk : k ∈ (gl s.enc.nvars items).map (·.1))
    let β : Asg := fun v => if v < s.enc.nvars then α v else decide (v = e.2.var)
    have hβ : EncL.Sat β (addVars s.enc items.length) :=
      sat_addVars_of_agree h.1.1.1 _ hα (fun v hv => by simp [β, hv])
    have hβg : ∀ f ∈ gl s.enc.nvars items, β.lit f.2 = decide (f.2.var = e.2.var) := by
      intro f hf
      have hg := gl_mem hf
      have h1 : β.lit f.2 = β f.2.var := by simp [Asg.lit, hg.1]
      rw [h1]
      have : ¬ f.2.var < s.enc.nvars := by omega
      simp [β, this]
    have hge : ∀ f ∈ gl s.enc.nvars items, β.lit f.2 = true → f = e := by
      intro f hf hft
      rw [hβg f hf] at hft
      have hv : f.2.var = e.2.var := by simpa using hft
      exact eq_of_nodup_map (gl_snd_nodup _ _) hf he
        (lit_ext_pos (gl_mem hf).1 (gl_mem he).1 hv)
    have hEx : ExactlyOne β (items.filterMap (Ov.lookupVal (gl s.enc.nvars items))) := by
      refine ⟨fun a ha b hb hta htb => ?_, e.2, (hmem e.2).2 ⟨e.1, he⟩, ?_⟩
      · obtain ⟨ka, hka⟩ := (hmem a).1 ha
        obtain ⟨kb, hkb⟩ := (hmem b).1 hb
        have h1 := hge _ hka hta
        have h2 := hge _ hkb htb
        rw [← h1] at h2
        exact (congrArg Prod.snd h2).symm
      · rw [hβg e he]; simp
    obtain ⟨α', ha', hag, hx⟩ := hcomp β hβ hEx
    obtain ⟨d1, d2⟩ := c4 α' ha' (by simp [Asg.clause, hx])
    refine ⟨d2, α', d1, fun v hv => ?_, ?_⟩
    · rw [hag v (by rw [hnv1]; omega)]; simp [β, hv]
    · have hα'g : ∀ f ∈ gl s.enc.nvars items, α'.lit f.2 = β.lit f.2 := fun f hf =>
        lit_congr (hag _ (by rw [hnv1]; exact (gl_mem hf).2.2))
      unfold Takes
      rw [hdom]
      refine ⟨⟨e.2, lookupVal_of_mem hnd he, ?_⟩, fun f hf hne => ?_⟩
      · rw [hα'g e he, hβg e he]; simp
      · cases hv : α'.lit f.2 with
        | false => rfl
        | true =>
          rw [hα'g f hf] at hv
          exact absurd (congrArg Prod.fst (hge f hf hv)) hne
  simp only [hdom]
  refine ⟨?_, trivial, hfst, fun α hα => ?_, fun α hα => ?_, href, fun α k hα hk => (hext α k hα hk).2⟩
  · refine inv_update h c1 href _ (gl_good s hn hl ?_)
    rw [c2]; have := x5.1; rw [hnv1] at this; exact this
  · have hF := (hext α k0 (href.2 α hα) hk0).1
    have hx : α.lit X.1 = true := by simpa [Asg.clause] using c5 hF α hα
    have hE := x3 α (c3 α hα) hx
    refine takes_of_exactlyOne ?_ ?_ ?_
    · rw [hdom]; exact hnd
    · rw [hdom]; exact gl_snd_nodup _ _
    · rw [hdom, hfst]; exact hE
  · obtain ⟨_, α', h1, h2, _⟩ := hext α k0 hα hk0
    exact ⟨α', h1, h2⟩

theorem exactly_one (s : Ov) (items : List Nat) (h : Inv s) (hn : items.Nodup) (hl : 2 ≤ items.length) :
    let r := s.newVar items true
    Inv r.2 ∧ r.1 = s.doms.length ∧ (r.2.dom r.1).map (·.1) = items ∧
    (∀ α, EncL.Sat α r.2.enc → OneValue α r.2 r.1) ∧
    Extends s.enc r.2.enc ∧ Refines s.enc r.2.enc ∧
    (∀ α k, EncL.Sat α s.enc → k ∈ items →
      ∃ α', EncL.Sat α' r.2.enc ∧ (∀ v, v < s.enc.nvars → α' v = α v) ∧ Takes α' r.2 r.1 k) :=
  exactly_one_aux s items h hn hl _ rfl

/-! ## singleton domains -/

theorem singleton (s : Ov) (i : Nat) (h : Inv s) :
    let r := s.newVar [i] true
    Inv r.2 ∧ r.2.enc = s.enc ∧ r.2.dom r.1 = [(i, Lit.trueLit)] ∧
      ∀ α, EncL.Sat α r.2.enc → Takes α r.2 r.1 i := by
  intro r
  have hdom : r.2.dom r.1 = [(i, Lit.trueLit)] := dom_push_new _ _
  refine ⟨?_, rfl, hdom, fun α hα => ?_⟩
  · refine inv_update h h.1.1 (Refines.refl _) [[(i, Lit.trueLit)]] fun d hd => ?_
    simp only [List.mem_singleton] at hd
    subst hd
    refine ⟨by simp, by simp, fun e he => ?_⟩
    simp only [List.mem_singleton] at he
    subst he
    exact nvars_pos h.1.1.1
  · unfold Takes
    rw [hdom]
    refine ⟨⟨Lit.trueLit, by simp [Ov.lookupVal], lit_trueLit hα.1⟩, fun e he hne => ?_⟩
    simp only [List.mem_singleton] at he
    subst he
    exact absurd rfl hne

/-! ## `newVarLits` -/

theorem emplace_nodup {d : List (Nat × Lit)} (v : Nat) (l : Lit) (h : (d.map (·.1)).Nodup) :
    ((Ov.emplace d v l).map (·.1)).Nodup := by
  unfold Ov.emplace
  split
  · exact h
  · next hc =>
    simp only [List.any_eq_true, not_exists, not_and, beq_iff_eq] at hc
    simp only [List.map_append, List.map_cons, List.map_nil]
    refine List.nodup_append.2 ⟨h, by simp, fun a ha b hb => ?_⟩
    simp only [List.mem_singleton] at hb
    subst hb
    obtain ⟨e, he, rfl⟩ := List.mem_map.1 ha
    exact hc e he

theorem emplace_mem {d : List (Nat × Lit)} {v : Nat} {l : Lit} {e : Nat × Lit}
    (h : e ∈ Ov.emplace d v l) : e ∈ d ∨ e = (v, l) := by
  unfold Ov.emplace at h
  split at h
  · exact Or.inl h
  · simpa using h

theorem emplace_ne_nil (d : List (Nat × Lit)) (v : Nat) (l : Lit) : Ov.emplace d v l ≠ [] := by
  unfold Ov.emplace
  split
  · next hc =>
    intro hd; rw [hd] at hc; simp at hc
  · simp

theorem emplace_fold : ∀ (ps : List (Nat × Lit)) (d0 : List (Nat × Lit)), (d0.map (·.1)).Nodup →
    ((ps.foldl (fun d p => Ov.emplace d p.1 p.2) d0).map (·.1)).Nodup ∧
    (∀ e ∈ ps.foldl (fun d p => Ov.emplace d p.1 p.2) d0, e ∈ d0 ∨ e ∈ ps) ∧
    (d0 ≠ [] ∨ ps ≠ [] → ps.foldl (fun d p => Ov.emplace d p.1 p.2) d0 ≠ [])
  | [], d0, h => ⟨h, fun e he => Or.inl he, fun hne => by
      rcases hne with hne | hne
      · exact hne
      · exact absurd rfl hne⟩
  | p :: ps, d0, h => by
    obtain ⟨i1, i2, i3⟩ := emplace_fold ps (Ov.emplace d0 p.1 p.2) (emplace_nodup _ _ h)
    simp only [List.foldl_cons]
    refine ⟨i1, fun e he => ?_, fun _ => i3 (Or.inl (emplace_ne_nil _ _ _))⟩
    rcases i2 e he with h1 | h1
    · rcases emplace_mem h1 with h2 | h2
      · exact Or.inl h2
      · exact Or.inr (by rw [h2]; simp)
    · exact Or.inr (by simp [h1])

theorem newVarLits_spec (s : Ov) (lits : List Lit) (vals : List Nat) (h : Inv s)
    (hl : lits.length = vals.length) (hne : lits ≠ []) (hr : ∀ l ∈ lits, l.var < s.enc.nvars) :
    let r := s.newVarLits lits vals
    Inv r.2 ∧ r.2.enc = s.enc ∧
      ∀ k l, Ov.lookupVal (r.2.dom r.1) k = some l → (k, l) ∈ vals.zip lits := by
  intro r
  obtain ⟨f1, f2, f3⟩ := emplace_fold (vals.zip lits) [] (by simp)
  have hdom : r.2.dom r.1 = (vals.zip lits).foldl (fun d p => Ov.emplace d p.1 p.2) [] :=
    dom_push_new _ _
  have hmem : ∀ e ∈ (vals.zip lits).foldl (fun d p => Ov.emplace d p.1 p.2) [], e ∈ vals.zip lits := by
    intro e he
    rcases f2 e he with h1 | h1
    · cases h1
    · exact h1
  refine ⟨?_, rfl, fun k l hk => ?_⟩
  · refine inv_update h h.1.1 (Refines.refl _) [_] fun d hd => ?_
    simp only [List.mem_singleton] at hd
    subst hd
    refine ⟨f1, f3 (Or.inr ?_), fun e he => hr _ (List.of_mem_zip (hmem e he)).2⟩
    cases lits with
    | nil => exact absurd rfl hne
    | cons a t =>
      cases vals with
      | nil => simp at hl
      | cons b u => simp
  · rw [hdom] at hk
    exact hmem _ (lookupVal_some_mem hk)

/-! ## `value`, `allows` -/

theorem value_spec (s : Ov) (v : Nat) :
    (∀ k, k ∈ s.value v ↔ ∃ l, (k, l) ∈ s.dom v ∧ s.enc.value l ≠ some false) ∧
    (∀ α k, EncL.Sat α s.enc → Takes α s v k → k ∈ s.value v) := by
  have h1 : ∀ k, k ∈ s.value v ↔ ∃ l, (k, l) ∈ s.dom v ∧ s.enc.value l ≠ some false := by
    intro k
    simp only [Ov.value, List.mem_map, List.mem_filter, decide_eq_true_eq]
    constructor
    · rintro ⟨e, ⟨he, hv⟩, rfl⟩; exact ⟨e.2, he, hv⟩
    · rintro ⟨l, hl, hv⟩; exact ⟨(k, l), ⟨hl, hv⟩, rfl⟩
  refine ⟨h1, fun α k hα ht => (h1 k).2 ?_⟩
  obtain ⟨l, hl, hlt⟩ := takes_mem ht
  refine ⟨l, hl, fun hv => ?_⟩
  have := value_sound hα.2 hv
  rw [hlt] at this; cases this

theorem allows_spec (s : Ov) (v k : Nat) :
    (∀ l, Ov.lookupVal (s.dom v) k = some l → s.allows v k = l) ∧
    (Ov.lookupVal (s.dom v) k = none → s.allows v k = Lit.falseLit) := by
  unfold Ov.allows
  exact ⟨fun l hl => by rw [hl]; rfl, fun hl => by rw [hl]; rfl⟩

end OvL
end Oratio
