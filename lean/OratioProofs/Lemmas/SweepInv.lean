/-
Lemmas on the pulse sweep, part 2: the sweep invariant.
After the pulses up to `p` have been processed the current set is the set of (ids of) atoms
covering `p`; between two consecutive pulses nothing starts or ends.
-/
import OratioProofs.Lemmas.Sweep

namespace Oratio.Sweep

/-- the states `(p, current set after p)` visited by the sweep over `ps` started with `cur` -/
def states (as : List TAtom) : List Nat → List Time → List (Time × List Nat)
  | _, [] => []
  | cur, p :: ps => (p, stepSet as cur p) :: states as (stepSet as cur p) ps

/-- the segments produced by the timeline loop (usage computed by `u`) -/
def segs (as : List TAtom) (u : List Nat → Time) : Time → List Nat → List Time → List Segment
  | _, _, [] => []
  | prev, cur, p :: ps =>
    { lo := prev, hi := p, atoms := cur, usage := u cur } :: segs as u p (stepSet as cur p) ps

theorem states_map_fst (as : List TAtom) : ∀ (ps : List Time) (cur : List Nat),
    (states as cur ps).map Prod.fst = ps := by
  intro ps
  induction ps with
  | nil => intro cur; rfl
  | cons p r ih => intro cur; simp [states, ih]

/-! ### the folds of the model in terms of `states` / `segs` -/

theorem svPeaks_fold (as : List TAtom) : ∀ (ps : List Time) (cur : List Nat) (acc : List (Nat × Nat)),
    (ps.foldl (fun (st : List Nat × List (Nat × Nat)) p =>
      let cur := stepSet as st.1 p
      (cur, if cur.length > 1 then st.2 ++ pairsOf cur else st.2)) (cur, acc)).2
      = acc ++ (states as cur ps).flatMap (fun s => pairsOf s.2) := by
  intro ps
  induction ps with
  | nil => intro cur acc; simp [states]
  | cons p r ih =>
    intro cur acc
    simp only [List.foldl_cons, states, List.flatMap_cons]
    rw [ih]
    split
    · simp
    · rename_i h
      rw [pairsOf_eq_nil_of_length_le_one _ h]; simp

theorem mem_svPeaks {as : List TAtom} {x : Nat × Nat} :
    x ∈ svPeaks as ↔ ∃ s ∈ states as [] (pulsesOf as []), x ∈ pairsOf s.2 := by
  unfold svPeaks
  simp only [svPeaks_fold, List.nil_append, List.mem_flatMap]

theorem rrPeaks_fold (as : List TAtom) (cap : Time) : ∀ (ps : List Time) (cur : List Nat) (acc : List Time),
    (ps.foldl (fun (st : List Nat × List Time) p =>
      let cur := stepSet as st.1 p
      (cur, if tlt cap (usageOf as cur) then st.2 ++ [p] else st.2)) (cur, acc)).2
      = acc ++ ((states as cur ps).filter (fun s => tlt cap (usageOf as s.2))).map Prod.fst := by
  intro ps
  induction ps with
  | nil => intro cur acc; simp [states]
  | cons p r ih =>
    intro cur acc
    simp only [List.foldl_cons, states]
    rw [ih]
    by_cases h : tlt cap (usageOf as (stepSet as cur p)) = true
    · simp [h]
    · simp [h]

theorem mem_rrPeaks {as : List TAtom} {cap p : Time} :
    p ∈ rrPeaks as cap ↔ ∃ s ∈ states as [] (pulsesOf as []), s.1 = p ∧ tlt cap (usageOf as s.2) = true := by
  unfold rrPeaks
  simp only [rrPeaks_fold, List.nil_append, List.mem_map, List.mem_filter]
  constructor
  · rintro ⟨s, ⟨h1, h2⟩, h3⟩; exact ⟨s, h1, h3, h2⟩
  · rintro ⟨s, h1, h3, h2⟩; exact ⟨s, ⟨h1, h2⟩, h3⟩

theorem svTimeline_fold (as : List TAtom) : ∀ (rest : List Time) (prev : Time) (cur : List Nat) (acc : List Segment),
    (rest.foldl (fun (st : Time × List Nat × List Segment) p =>
      let (prev, cur, segs) := st
      (p, stepSet as cur p, segs ++ [{ lo := prev, hi := p, atoms := cur }])) (prev, cur, acc)).2.2
      = acc ++ segs as (fun _ => (0, 0)) prev cur rest := by
  intro rest
  induction rest with
  | nil => intro prev cur acc; simp [segs]
  | cons p r ih =>
    intro prev cur acc
    simp only [List.foldl_cons, segs]
    rw [ih]; simp

theorem rrTimeline_fold (as : List TAtom) : ∀ (rest : List Time) (prev : Time) (cur : List Nat) (acc : List Segment),
    (rest.foldl (fun (st : Time × List Nat × List Segment) p =>
      let (prev, cur, segs) := st
      (p, stepSet as cur p, segs ++ [{ lo := prev, hi := p, atoms := cur, usage := usageOf as cur }])) (prev, cur, acc)).2.2
      = acc ++ segs as (usageOf as) prev cur rest := by
  intro rest
  induction rest with
  | nil => intro prev cur acc; simp [segs]
  | cons p r ih =>
    intro prev cur acc
    simp only [List.foldl_cons, segs]
    rw [ih]; simp

/-! ### the invariant -/

/-- after pulse `p`: the current set is the set of atoms covering `p` -/
def After (as : List TAtom) (cur : List Nat) (p : Time) : Prop :=
  ∀ i, i ∈ cur ↔ ∃ a ∈ as, a.id = i ∧ covers a p = true

/-- before pulse `p`: the current set is the set of atoms started before `p` and not ended before `p` -/
def Before (as : List TAtom) (cur : List Nat) (p : Time) : Prop :=
  ∀ i, i ∈ cur ↔ ∃ a ∈ as, a.id = i ∧ tlt a.start p = true ∧ tle p a.stop = true

/-- nothing starts or ends strictly between `q` and `p` -/
def Gap (as : List TAtom) (q p : Time) : Prop :=
  ∀ a ∈ as, (tle a.start q = true ∨ tle p a.start = true) ∧ (tle a.stop q = true ∨ tle p a.stop = true)

/-- every start and stop is in `l` or before all of `l` -/
def Known (as : List TAtom) (l : List Time) : Prop :=
  ∀ a ∈ as, (a.start ∈ l ∨ ∀ r ∈ l, tlt a.start r = true) ∧ (a.stop ∈ l ∨ ∀ r ∈ l, tlt a.stop r = true)

theorem id_inj {as : List TAtom} (hnd : (as.map (·.id)).Nodup) {a b : TAtom} (ha : a ∈ as) (hb : b ∈ as)
    (h : a.id = b.id) : a = b := by
  induction as with
  | nil => cases ha
  | cons x t ih =>
    simp only [List.map_cons, List.nodup_cons, List.mem_map, not_exists, not_and] at hnd
    rcases List.mem_cons.1 ha with rfl | ha' <;> rcases List.mem_cons.1 hb with rfl | hb'
    · rfl
    · exact absurd h.symm (hnd.1 b hb')
    · exact absurd h (hnd.1 a ha')
    · exact ih hnd.2 ha' hb'

theorem after_of_before {as : List TAtom} (hnd : (as.map (·.id)).Nodup)
    (hle : ∀ a ∈ as, tle a.start a.stop = true) {cur : List Nat} {p : Time} (h : Before as cur p) :
    After as (stepSet as cur p) p := by
  intro i
  rw [mem_stepSet, h i]
  constructor
  · rintro ⟨h1 | ⟨a, ha, hs, hi⟩, h2⟩
    · obtain ⟨a, ha, hi, h3, h4⟩ := h1
      refine ⟨a, ha, hi, covers_iff.2 ⟨by torder, ?_⟩⟩
      have : a.stop ≠ p := fun e => h2 ⟨a, ha, hi, e⟩
      torder
    · refine ⟨a, ha, hi, covers_iff.2 ⟨by torder, ?_⟩⟩
      have : a.stop ≠ p := fun e => h2 ⟨a, ha, hi, e⟩
      have := hle a ha
      torder
  · rintro ⟨a, ha, hi, hc⟩
    refine ⟨?_, ?_⟩
    · by_cases hs : a.start = p
      · exact Or.inr ⟨a, ha, hs, hi⟩
      · exact Or.inl ⟨a, ha, hi, by torder, by torder⟩
    · rintro ⟨b, hb, hbi, hbs⟩
      have : b = a := id_inj hnd hb ha (hbi.trans hi.symm)
      subst this
      torder

theorem before_of_after {as : List TAtom} {cur : List Nat} {q p : Time} (hg : Gap as q p)
    (hqp : tlt q p = true) (h : After as cur q) : Before as cur p := by
  intro i
  rw [h i]
  constructor
  · rintro ⟨a, ha, hi, hc⟩
    obtain ⟨h1, h2⟩ := hg a ha
    refine ⟨a, ha, hi, by torder, ?_⟩
    rcases h2 with h2 | h2
    · torder
    · exact h2
  · rintro ⟨a, ha, hi, h3, h4⟩
    obtain ⟨h1, h2⟩ := hg a ha
    refine ⟨a, ha, hi, covers_iff.2 ⟨?_, by torder⟩⟩
    rcases h1 with h1 | h1
    · exact h1
    · torder

theorem gap_of_known {as : List TAtom} {q p : Time} {rest : List Time} (hs : Sorted (q :: p :: rest))
    (hk : Known as (q :: p :: rest)) : Gap as q p := by
  have hs1 := List.pairwise_cons.1 hs
  have hs2 := List.pairwise_cons.1 hs1.2
  have key : ∀ x : Time, (x ∈ q :: p :: rest ∨ ∀ r ∈ q :: p :: rest, tlt x r = true) →
      (tle x q = true ∨ tle p x = true) := by
    intro x hx
    rcases hx with hx | hx
    · rcases List.mem_cons.1 hx with rfl | hx
      · left; torder
      · rcases List.mem_cons.1 hx with rfl | hx
        · right; torder
        · right; have := hs2.1 x hx; torder
    · left; have := hx q List.mem_cons_self; torder
  intro a ha
  exact ⟨key _ (hk a ha).1, key _ (hk a ha).2⟩

theorem known_tail {as : List TAtom} {q : Time} {rest : List Time} (hs : Sorted (q :: rest))
    (hk : Known as (q :: rest)) : Known as rest := by
  have hs1 := List.pairwise_cons.1 hs
  have key : ∀ x : Time, (x ∈ q :: rest ∨ ∀ r ∈ q :: rest, tlt x r = true) →
      (x ∈ rest ∨ ∀ r ∈ rest, tlt x r = true) := by
    intro x hx
    rcases hx with hx | hx
    · rcases List.mem_cons.1 hx with rfl | hx
      · exact Or.inr hs1.1
      · exact Or.inl hx
    · exact Or.inr fun r hr => hx r (List.mem_cons_of_mem _ hr)
  intro a ha
  exact ⟨key _ (hk a ha).1, key _ (hk a ha).2⟩

/-- the first pulse: nothing has started before it -/
theorem before_nil {as : List TAtom} {p : Time} {rest : List Time} (hs : Sorted (p :: rest))
    (hk : ∀ a ∈ as, a.start ∈ p :: rest) : Before as [] p := by
  have hs1 := List.pairwise_cons.1 hs
  intro i
  constructor
  · intro h; cases h
  · rintro ⟨a, ha, _, h3, _⟩
    exfalso
    rcases List.mem_cons.1 (hk a ha) with e | hx
    · torder
    · have := hs1.1 _ hx; torder

/-- main induction: all later states and all segments satisfy the invariant -/
theorem sweep_inv {as : List TAtom} (hnd : (as.map (·.id)).Nodup)
    (hle : ∀ a ∈ as, tle a.start a.stop = true) (u : List Nat → Time) :
    ∀ (rest : List Time) (q : Time) (cur : List Nat), Sorted (q :: rest) → Known as (q :: rest) →
      After as cur q → cur.Nodup →
      (∀ s ∈ states as cur rest, After as s.2 s.1 ∧ s.2.Nodup) ∧
      (∀ s ∈ segs as u q cur rest, tlt s.lo s.hi = true ∧ After as s.atoms s.lo ∧ Gap as s.lo s.hi ∧
          s.atoms.Nodup ∧ s.usage = u s.atoms) := by
  intro rest
  induction rest with
  | nil => intro q cur _ _ _ _; simp [states, segs]
  | cons p r ih =>
    intro q cur hs hk ha hn
    have hs1 := List.pairwise_cons.1 hs
    have hg := gap_of_known hs hk
    have hqp : tlt q p = true := hs1.1 p List.mem_cons_self
    have ha' : After as (stepSet as cur p) p := after_of_before hnd hle (before_of_after hg hqp ha)
    have hn' := nodup_stepSet (as := as) (p := p) hn
    obtain ⟨ih1, ih2⟩ := ih p (stepSet as cur p) hs1.2 (known_tail hs hk) ha' hn'
    constructor
    · intro s hs'
      simp only [states, List.mem_cons] at hs'
      rcases hs' with rfl | hs'
      · exact ⟨ha', hn'⟩
      · exact ih1 s hs'
    · intro s hs'
      simp only [segs, List.mem_cons] at hs'
      rcases hs' with rfl | hs'
      · exact ⟨hqp, ha, hg, hn, rfl⟩
      · exact ih2 s hs'

theorem known_pulsesOf (as : List TAtom) (extra : List Time) : Known as (pulsesOf as extra) := by
  intro a ha
  exact ⟨Or.inl (mem_pulsesOf.2 (Or.inl ⟨a, ha, Or.inl rfl⟩)), Or.inl (mem_pulsesOf.2 (Or.inl ⟨a, ha, Or.inr rfl⟩))⟩

/-- every state of the sweep over the pulses holds exactly the atoms covering its pulse -/
theorem states_spec {as : List TAtom} (hnd : (as.map (·.id)).Nodup)
    (hle : ∀ a ∈ as, tle a.start a.stop = true) (extra : List Time) :
    ∀ s ∈ states as [] (pulsesOf as extra), After as s.2 s.1 ∧ s.2.Nodup := by
  have hs := sorted_pulsesOf as extra
  have hk := known_pulsesOf as extra
  have hk0 : ∀ a ∈ as, a.start ∈ pulsesOf as extra :=
    fun a ha => mem_pulsesOf.2 (Or.inl ⟨a, ha, Or.inl rfl⟩)
  generalize pulsesOf as extra = ps at hs hk hk0
  cases ps with
  | nil => simp [states]
  | cons p0 rest =>
    have ha : After as (stepSet as [] p0) p0 := after_of_before hnd hle (before_nil hs hk0)
    have hn : (stepSet as [] p0).Nodup := nodup_stepSet List.nodup_nil
    intro s hs'
    simp only [states, List.mem_cons] at hs'
    rcases hs' with rfl | hs'
    · exact ⟨ha, hn⟩
    · exact (sweep_inv hnd hle (fun _ => (0, 0)) rest p0 _ hs hk ha hn).1 s hs'

/-- every segment of a timeline: consecutive pulses, the atoms covering the left pulse, no pulse inside -/
theorem segs_spec {as : List TAtom} (hnd : (as.map (·.id)).Nodup)
    (hle : ∀ a ∈ as, tle a.start a.stop = true) (u : List Nat → Time) (extra : List Time)
    (p0 : Time) (rest : List Time) (hp : pulsesOf as extra = p0 :: rest) :
    ∀ s ∈ segs as u p0 (stepSet as [] p0) rest, tlt s.lo s.hi = true ∧ After as s.atoms s.lo ∧
      Gap as s.lo s.hi ∧ s.atoms.Nodup ∧ s.usage = u s.atoms := by
  have hs := sorted_pulsesOf as extra
  have hk := known_pulsesOf as extra
  have hk0 : ∀ a ∈ as, a.start ∈ pulsesOf as extra :=
    fun a ha => mem_pulsesOf.2 (Or.inl ⟨a, ha, Or.inl rfl⟩)
  rw [hp] at hs hk hk0
  have ha : After as (stepSet as [] p0) p0 := after_of_before hnd hle (before_nil hs hk0)
  have hn : (stepSet as [] p0).Nodup := nodup_stepSet List.nodup_nil
  exact (sweep_inv hnd hle u rest p0 _ hs hk ha hn).2

end Oratio.Sweep
