/-
C08N, parts 2 and 3: the whole network.  A conflict-free `assume(p)` (propagation with theory calls,
recorded theory lemmas, simplex runs) keeps the network "inside the level opened on top of `B`";
`Net.pop` then gives `B` back; any conflict-free search history followed by `Net.popTo · 0` gives the
root-level network back.
-/
import OratioProofs.Lemmas.UndoNetLra
import OratioProofs.Lemmas.UndoNetTh
import OratioProofs.Lemmas.UndoDl

namespace Oratio
namespace Net
open Sat

/-- the network `c` is inside the level opened by `assume(p)` on top of `B` -/
structure InLevelN (B : Net) (p : Lit) (c : Net) : Prop where
  sat : Step (B.sat.pushLevel p) c.sat
  lra : Lra.InLevel B.lra c.lra
  idl : Undo.Lg idlOps B.idl c.idl
  rdl : Undo.Lg rdlOps B.rdl c.rdl
  bound : c.bound = B.bound

/-- what `pop` relies on -/
structure Good (n : Net) : Prop where
  clean : Clean n.sat
  tab : Lra.TabWF n.lra
  idl : Undo.SortedK n.idl.distConstr
  rdl : Undo.SortedK n.rdl.distConstr

theorem InLevelN.setSat {B c : Net} {p : Lit} (h : InLevelN B p c) {s' : Sat} (hs : Step c.sat s') :
    InLevelN B p { c with sat := s' } :=
  ⟨h.sat.trans hs, h.lra, h.idl, h.rdl, h.bound⟩

theorem InLevelN.good {B c : Net} {p : Lit} (h : InLevelN B p c) (hB : Clean B.sat) : Good c :=
  ⟨h.sat.clean (clean_of_same hB rfl rfl rfl), h.lra.sol.1, (Undo.Lg_sorted idlOps h.idl).1, (Undo.Lg_sorted rdlOps h.rdl).1⟩

/-! ### theory propagation -/

theorem InLevelN.theoryPropagate {B c : Net} {p : Lit} (h : InLevelN B p c) (q : Lit) :
    InLevelN B p (theoryPropagate c q).2 := by
  unfold Net.theoryPropagate
  cases c.theoryOf q.var with
  | none => exact h
  | some th =>
    cases th with
    | lra =>
      exact ⟨h.sat.trans (Lra.propagateLit_rec c.sat c.lra q).toStep, h.lra.propagateLit c.sat q, h.idl, h.rdl, h.bound⟩
    | idl =>
      simp only
      cases he : Dl.propagateLit idlOps c.sat c.idl q with
      | inl cl => exact h
      | inr r =>
        obtain ⟨s, t⟩ := r
        exact ⟨h.sat.trans (Dl.propagateLit_rec idlOps c.sat c.idl q he).toStep, h.lra,
          Undo.Lg_propagateLit idlOps h.idl c.sat q he, h.rdl, h.bound⟩
    | rdl =>
      simp only
      cases he : Dl.propagateLit rdlOps c.sat c.rdl q with
      | inl cl => exact h
      | inr r =>
        obtain ⟨s, t⟩ := r
        exact ⟨h.sat.trans (Dl.propagateLit_rec rdlOps c.sat c.rdl q he).toStep, h.lra, h.idl,
          Undo.Lg_propagateLit rdlOps h.rdl c.sat q he, h.bound⟩

/-! ### conflict-free propagation -/

theorem propagate_quiet {B : Net} {p : Lit} : ∀ (fuel : Nat) (c : Net) (b : Bool) (n' : Net), InLevelN B p c →
    quiet c fuel = true → propagate c fuel = some (b, n') → InLevelN B p n' ∧ b = true := by
  intro fuel
  induction fuel with
  | zero => intro c b n' _ _ he; simp [Net.propagate] at he
  | succ fuel ih =>
    intro c b n' h hq he
    rw [Net.propagate] at he
    rw [Net.quiet] at hq
    cases hqueue : c.sat.queue with
    | nil =>
      rw [hqueue] at he hq
      simp only at he hq
      cases hchk : c.lra.check fuel with
      | none => rw [hchk] at he; cases he
      | some r =>
        obtain ⟨oc, t⟩ := r
        rw [hchk] at he hq
        cases oc with
        | none =>
          simp only [Option.some.injEq, Prod.mk.injEq] at he
          obtain ⟨rfl, rfl⟩ := he
          exact ⟨⟨h.sat, h.lra.check hchk, h.idl, h.rdl, h.bound⟩, rfl⟩
        | some cnfl => simp at hq
    | cons l q =>
      rw [hqueue] at he hq
      simp only at he hq
      have hv := step_visitWatchers l (c.sat.watches.getD l.idx [])
        { c.sat with queue := q, watches := c.sat.watches.set l.idx [] }
      cases hvw : Sat.visitWatchers { c.sat with queue := q, watches := c.sat.watches.set l.idx [] } l
          (c.sat.watches.getD l.idx []) with
      | mk s oid =>
        rw [hvw] at he hq hv
        cases oid with
        | some id => simp at hq
        | none =>
          simp only at he hq
          have h1 : InLevelN B p { c with sat := s } :=
            h.setSat ((Step.of_same (s := c.sat) (t := { c.sat with queue := q, watches := c.sat.watches.set l.idx [] })
              rfl rfl rfl rfl rfl rfl rfl rfl rfl rfl).trans hv)
          have h2 := h1.theoryPropagate l
          cases htp : theoryPropagate { c with sat := s } l with
          | mk oc n'' =>
            rw [htp] at he hq h2
            cases oc with
            | some cnfl => simp at hq
            | none =>
              simp only at he hq
              exact ih n'' b n' h2 hq he

/-! ### `assume` -/

theorem pushed_inLevel {n : Net} (hg : Good n) (p : Lit) : InLevelN n p (pushed n p) :=
  ⟨Step.refl _, Lra.inLevel_push hg.tab, Undo.Lg_push idlOps n.idl hg.idl, Undo.Lg_push rdlOps n.rdl hg.rdl, rfl⟩

theorem assume_unfold (n : Net) (p : Lit) (fuel : Nat) :
    n.assume p fuel = (match (pushed n p).sat.enqueue p none with
      | (false, s) => some (false, { pushed n p with sat := s })
      | (true, s) => propagate { pushed n p with sat := s } fuel) := rfl

theorem assume_quiet {n : Net} (hg : Good n) {p : Lit} {fuel : Nat} {b : Bool} {n' : Net}
    (hq : quietAssume n p fuel = true) (he : n.assume p fuel = some (b, n')) : InLevelN n p n' := by
  rw [assume_unfold] at he
  unfold quietAssume at hq
  have h0 : InLevelN n p { pushed n p with sat := ((pushed n p).sat.enqueue p none).2 } :=
    (pushed_inLevel hg p).setSat (step_enqueue _ p none)
  cases henq : (pushed n p).sat.enqueue p none with
  | mk ok s =>
    rw [henq] at he hq h0
    cases ok with
    | false =>
      simp only [Option.some.injEq, Prod.mk.injEq] at he
      obtain ⟨_, rfl⟩ := he
      exact h0
    | true =>
      simp only at he hq
      exact (propagate_quiet fuel _ b n' h0 hq he).1

/-! ### `pop` -/

/-- `u` shows what `B` shows: assignment, levels, reasons, trail, marks, decisions, `exprs`, `dead`
    literally; clause database grown / permuted; LRA bounds, registries, solution set; the IDL and RDL
    theories literally; the theory bindings -/
structure RestoredN (B u : Net) : Prop where
  sat : SameAssignment B.sat u.sat
  dead : u.sat.dead = B.sat.dead
  cls : IdsOK B.sat → IdsOK u.sat ∧ ClsKept B.sat u.sat
  lra : Lra.Restored B.lra u.lra
  idl : u.idl = B.idl
  rdl : u.rdl = B.rdl
  bound : u.bound = B.bound

theorem RestoredN.refl {B : Net} (hB : Lra.TabWF B.lra) : RestoredN B B :=
  ⟨⟨rfl, rfl, rfl, rfl, rfl, rfl, rfl⟩, rfl, fun h => ⟨h, ClsKept.refl _⟩, Lra.Restored.refl hB, rfl, rfl, rfl⟩

theorem RestoredN.step {B u : Net} (h : RestoredN B u) : Step B.sat u.sat :=
  ⟨Grow.of_same h.sat.vals h.sat.level h.sat.reason h.sat.trail h.sat.trailLim h.sat.decisions h.sat.exprs h.dead,
    h.cls, fun hc => clean_of_same hc h.sat.vals h.sat.level h.sat.reason⟩

theorem RestoredN.trans {A B C : Net} (h1 : RestoredN A B) (h2 : RestoredN B C) : RestoredN A C :=
  ⟨⟨h2.sat.vals.trans h1.sat.vals, h2.sat.level.trans h1.sat.level, h2.sat.reason.trans h1.sat.reason,
    h2.sat.trail.trans h1.sat.trail, h2.sat.trailLim.trans h1.sat.trailLim, h2.sat.decisions.trans h1.sat.decisions,
    h2.sat.exprs.trans h1.sat.exprs⟩, h2.dead.trans h1.dead,
    fun h => ⟨(h2.cls (h1.cls h).1).1, (h1.cls h).2.trans (h2.cls (h1.cls h).1).2⟩,
    h1.lra.trans h2.lra, h2.idl.trans h1.idl, h2.rdl.trans h1.rdl, h2.bound.trans h1.bound⟩

theorem RestoredN.good {B u : Net} (h : RestoredN B u) (hB : Good B) : Good u :=
  ⟨clean_of_same hB.clean h.sat.vals h.sat.level h.sat.reason, h.lra.sol.1, by rw [h.idl]; exact hB.idl,
    by rw [h.rdl]; exact hB.rdl⟩

theorem InLevelN.pop {B c : Net} {p : Lit} (hB : Clean B.sat) (h : InLevelN B p c) : RestoredN B c.pop := by
  obtain ⟨f1, f2, _, _, _, _, f7, _⟩ := pop_frame c.sat
  refine ⟨pop_of_grow hB p h.sat.grow, f7.trans h.sat.grow.dead, fun hi => ?_, h.lra.pop,
    Undo.pop_of_Lg idlOps h.idl, Undo.pop_of_Lg rdlOps h.rdl, h.bound⟩
  have hc := h.sat.cls hi
  refine ⟨?_, ?_⟩
  · show IdsOK c.sat.pop
    unfold IdsOK; rw [f1, f2]; exact hc.1
  · exact hc.2.trans (ClsKept.of_eq f1)

theorem InLevelN.congr {B' B u : Net} {p : Lit} (h : InLevelN B' p B) (r : RestoredN B u) : InLevelN B' p u :=
  ⟨h.sat.trans r.step, h.lra.congr r.lra, by rw [r.idl]; exact h.idl, by rw [r.rdl]; exact h.rdl, r.bound.trans h.bound⟩

/-- target 2 -/
theorem assume_pop {n : Net} (hg : Good n) {p : Lit} {fuel : Nat} {b : Bool} {n' : Net}
    (hq : quietAssume n p fuel = true) (he : n.assume p fuel = some (b, n')) : RestoredN n n'.pop :=
  (assume_quiet hg hq he).pop hg.clean

theorem inLevelN_level {B c : Net} {p : Lit} (h : InLevelN B p c) :
    c.sat.decisionLevel = B.sat.decisionLevel + 1 := by
  show c.sat.trailLim.length = B.sat.trailLim.length + 1
  rw [h.sat.grow.trailLim]; rfl

/-! ### search histories and `popTo` -/

/-- the open levels, innermost first, down to the root-level network -/
def NChain (root : Net) : List (Net × Lit) → Net → Prop
  | [], cur => RestoredN root cur
  | (B, p) :: bs, cur => InLevelN B p cur ∧ Good B ∧ NChain root bs B

theorem NChain.congr {root : Net} : ∀ {bs : List (Net × Lit)} {B u : Net}, NChain root bs B → RestoredN B u → NChain root bs u
  | [], _, _, h, r => RestoredN.trans h r
  | (_, _) :: _, _, _, h, r => ⟨h.1.congr r, h.2.1, h.2.2⟩

theorem NChain.good {root : Net} (hr : Good root) : ∀ {bs : List (Net × Lit)} {cur : Net}, NChain root bs cur → Good cur
  | [], _, h => RestoredN.good h hr
  | (_, _) :: _, _, h => h.1.good h.2.1.clean

theorem NChain.level {root : Net} (hroot : root.sat.trailLim = []) : ∀ {bs : List (Net × Lit)} {cur : Net},
    NChain root bs cur → cur.sat.decisionLevel = bs.length
  | [], cur, h => by
    show cur.sat.trailLim.length = 0
    rw [h.sat.trailLim, hroot]; rfl
  | (B, p) :: bs, cur, h => by
    rw [inLevelN_level h.1, NChain.level hroot h.2.2]; rfl

theorem popTo_go_chain {root : Net} (hroot : root.sat.trailLim = []) : ∀ (bs : List (Net × Lit)) (cur : Net),
    NChain root bs cur → RestoredN root (popTo.go 0 bs.length cur)
  | [], cur, h => h
  | (B, p) :: bs, cur, h => by
    have hl := NChain.level hroot h
    show RestoredN root (if cur.sat.decisionLevel > 0 then popTo.go 0 bs.length cur.pop else cur)
    rw [if_pos (by rw [hl]; simp)]
    exact popTo_go_chain hroot bs cur.pop (h.2.2.congr (h.1.pop h.2.1.clean))

theorem popTo_chain {root : Net} (hroot : root.sat.trailLim = []) {bs : List (Net × Lit)} {cur : Net}
    (h : NChain root bs cur) : RestoredN root (popTo cur 0) := by
  unfold Net.popTo
  rw [NChain.level hroot h]
  exact popTo_go_chain hroot bs cur h

theorem runQuiet_chain {root : Net} (hr : Good root) (hroot : root.sat.trailLim = []) (fuel : Nat) :
    ∀ (ops : List SOp) (bs : List (Net × Lit)) (cur n : Net), NChain root bs cur → runQuiet fuel cur ops = some n →
    ∃ bs', NChain root bs' n := by
  intro ops
  induction ops with
  | nil =>
    intro bs cur n h he
    simp only [runQuiet, Option.some.injEq] at he
    subst he
    exact ⟨bs, h⟩
  | cons op rest ih =>
    intro bs cur n h he
    have hg := NChain.good hr h
    cases op with
    | assume p =>
      simp only [runQuiet] at he
      split at he
      · next hq =>
        cases ha : cur.assume p fuel with
        | none => rw [ha] at he; cases he
        | some r =>
          obtain ⟨b, n1⟩ := r
          rw [ha] at he
          exact ih ((cur, p) :: bs) n1 n ⟨assume_quiet hg hq ha, hg, h⟩ he
      · cases he
    | propagate =>
      simp only [runQuiet] at he
      split at he
      · next hq =>
        simp only [Bool.and_eq_true, Bool.not_eq_true'] at hq
        cases bs with
        | nil =>
          exfalso
          have hl := NChain.level hroot h
          have : cur.sat.rootLevel = true := by
            unfold Sat.rootLevel
            have : cur.sat.trailLim.length = 0 := hl
            cases hc : cur.sat.trailLim with
            | nil => rfl
            | cons a b => rw [hc] at this; cases this
          rw [this] at hq; cases hq.1
        | cons Bp bs =>
          obtain ⟨B, p⟩ := Bp
          cases ha : cur.propagate fuel with
          | none => rw [ha] at he; cases he
          | some r =>
            obtain ⟨b, n1⟩ := r
            rw [ha] at he
            exact ih ((B, p) :: bs) n1 n ⟨(propagate_quiet fuel cur b n1 h.1 hq.2 ha).1, h.2.1, h.2.2⟩ he
      · cases he

/-- target 3 -/
theorem popTo_root {r : Net} (hr : Good r) (hroot : r.sat.trailLim = []) (fuel : Nat) (ops : List SOp) {n : Net}
    (he : runQuiet fuel r ops = some n) : RestoredN r (popTo n 0) := by
  obtain ⟨bs, h⟩ := runQuiet_chain hr hroot fuel ops [] r n (RestoredN.refl hr.tab) he
  exact popTo_chain hroot h

end Net
end Oratio
