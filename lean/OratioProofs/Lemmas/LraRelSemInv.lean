/-
Lemmas for property C11 (semantic version), part 2: the semantic invariant `Lra.SemInv` of the caches
`exprs` / `s_asrts` holds initially and is kept by `new_var()`, `new_var(lin)`, `new_lt … new_gt`, and by
every operation that keeps the caches and does not enlarge the set of solutions of the tableau (`pivot`,
`check`).  The only facts about printing that are used are the injectivity of `Lin.toStr` on canonical
expressions and of `relKey` (Lemmas/LraRelSemPrint.lean); they are hypotheses `LinInj`, `KeyInj` here.
-/
import OratioModel
import OratioProofs.Lemmas.LraRelSemMain

namespace Oratio
namespace Lra
open Lin

/-- printing canonical linear expressions is injective -/
def LinInj : Prop := ∀ a b : Lin, a.WF → b.WF → Lin.toStr a = Lin.toStr b → a = b
/-- printing assertion keys is injective -/
def KeyInj : Prop := ∀ (up up' : Bool) (x x' : Nat) (c c' : IR), SimpleC c → SimpleC c' →
  relKey up x c = relKey up' x' c' → up = up' ∧ x = x' ∧ c = c'
/-- the name `new_var()` gives to a variable is the print-out of `1·x` -/
def VarName : Prop := ∀ v : Nat, Lin.toStr ⟨[(v, R.one)], R.zero⟩ = "x" ++ toString v

theorem varLin_wf (v : Nat) : (⟨[(v, R.one)], R.zero⟩ : Lin).WF := by
  have h1 : R.one.WF ∧ R.one.den ≠ 0 := ⟨by decide, by decide⟩
  have h0 : R.zero.WF ∧ R.zero.den ≠ 0 := ⟨by decide, by decide⟩
  refine ⟨trivial, ?_, h0.1, h0.2⟩
  intro p hp
  rw [List.mem_singleton] at hp
  subst hp
  exact h1

theorem varLin_eval (v : Nat) (σ : Nat → Rat) : Lin.evalS ⟨[(v, R.one)], R.zero⟩ σ = σ v := by
  simp [Lin.evalS, R.toRat_one, R.toRat_zero]

theorem SemInv.init : SemInv Lra.init :=
  ⟨fun _ he => absurd he List.not_mem_nil, fun _ he => absurd he List.not_mem_nil⟩

/-- the caches are kept and no solution is gained -/
theorem SemInv.of_sols {t u : Lra} (si : SemInv t) (h1 : u.exprs = t.exprs) (h2 : u.sAsrts = t.sAsrts)
    (h3 : u.vAsrts = t.vAsrts) (h4 : ∀ σ, RowsS u σ → RowsS t σ) : SemInv u := by
  refine ⟨?_, ?_⟩
  · intro e he l hl hk σ hσ
    exact si.exprs_sem e (h1 ▸ he) l hl hk σ (h4 σ hσ)
  · intro e he up x c hc hk
    have := si.sAsrts_sem e (h2 ▸ he) up x c hc hk
    unfold asrtOf at this ⊢
    rw [h3]; exact this

theorem SemInv.newVar (hL : LinInj) (hN : VarName) {t : Lra} (si : SemInv t) : SemInv t.newVar.2 := by
  refine ⟨?_, ?_⟩
  · intro e he l hl hk σ hσ
    rcases mem_emplaceKey (show e ∈ emplaceKey t.exprs _ _ from he) with he | he
    · exact si.exprs_sem e he l hl hk σ hσ
    · subst he
      have : l = ⟨[(t.vals.length, R.one)], R.zero⟩ := hL _ _ hl (varLin_wf _) (hk.trans (hN _).symm)
      rw [this, varLin_eval]
  · intro e he up x c hc hk
    exact si.sAsrts_sem e he up x c hc hk

/-- the names `newVarLin` adds to `exprs` -/
theorem newVarLin_exprs_mem {s : Sat} {t : Lra} {l : Lin} {slack : Nat} {t1 : Lra}
    (h : newVarLin s t l = some (slack, t1)) :
    ∀ e ∈ t1.exprs, e ∈ t.exprs ∨ (e.2 = slack ∧
      (e.1 = Lin.toStr l ∨ e.1 = Lin.toStr (substBasic t l) ∨ e.1 = "x" ++ toString slack)) := by
  unfold newVarLin at h
  split at h
  · cases h
  · simp only [] at h
    split at h
    · cases h
      exact fun e he => Or.inl he
    · split at h
      · cases h
        intro e he
        rcases mem_emplaceKey he with he | he
        · exact Or.inl he
        · exact Or.inr (by rw [he]; exact ⟨rfl, Or.inl rfl⟩)
      · split at h
        · cases h
        · cases h
          rw [newRow_exprs]
          intro e he
          rcases mem_emplaceKey he with he | he
          · rcases mem_emplaceKey he with he | he
            · rcases mem_emplaceKey (show e ∈ emplaceKey t.exprs _ _ from he) with he | he
              · exact Or.inl he
              · exact Or.inr (by rw [he]; exact ⟨rfl, Or.inr (Or.inr rfl)⟩)
            · exact Or.inr (by rw [he]; exact ⟨rfl, Or.inl rfl⟩)
          · exact Or.inr (by rw [he]; exact ⟨rfl, Or.inr (Or.inl rfl)⟩)

theorem SemInv.newVarLin (hL : LinInj) (hN : VarName) {s : Sat} {t : Lra} (ht : TabWF t) (si : SemInv t)
    {l : Lin} (hl : l.WF) (hlv : ∀ p ∈ l.vars, p.1 < t.vals.length) {slack : Nat} {t1 : Lra}
    (h : newVarLin s t l = some (slack, t1)) : SemInv t1 := by
  obtain ⟨n1, -⟩ := newVarLin_sem ht si hl hlv h
  obtain ⟨s1, s2⟩ := substBasic_holds (t := t) ht.rows hl
  obtain ⟨hsa, hva, -⟩ := newVarLin_spec h
  refine ⟨?_, ?_⟩
  · intro e he l' hl' hk σ hσ
    obtain ⟨hσt, hsl⟩ := n1 σ hσ
    rcases newVarLin_exprs_mem h e he with he | ⟨h2, h1 | h1 | h1⟩
    · exact si.exprs_sem e he l' hl' hk σ hσt
    · rw [hL _ _ hl' hl (hk.trans h1), h2]; exact hsl
    · rw [hL _ _ hl' s1 (hk.trans h1), h2, s2 σ hσt]; exact hsl
    · rw [hL _ _ hl' (varLin_wf slack) ((hk.trans h1).trans (hN _).symm), varLin_eval, h2]
  · intro e he up x c hc hk
    have := si.sAsrts_sem e (hsa ▸ he) up x c hc hk
    unfold asrtOf at this ⊢
    rw [hva]; exact this

theorem SemInv.relReg (hK : KeyInj) {t : Lra} (si : SemInv t) (up : Bool) (slack : Nat) {c : IR}
    (hc : SimpleC c) {ctr : Nat} (hlt : ∀ e ∈ t.vAsrts, e.1 < ctr) : SemInv (relReg t up slack c ctr) := by
  refine ⟨?_, ?_⟩
  · intro e he l hl hk σ hσ
    exact si.exprs_sem e he l hl hk σ hσ
  · intro e he up' x' c' hc' hk
    rcases mem_emplaceKey (show e ∈ emplaceKey t.sAsrts _ _ from he) with he | he
    · exact asrtOf_append_old (si.sAsrts_sem e he up' x' c' hc' hk)
    · subst he
      obtain ⟨rfl, rfl, rfl⟩ := hK _ _ _ _ _ _ hc' hc hk
      exact find_append_new hlt

theorem SemInv.newRel (hL : LinInj) (hK : KeyInj) (hN : VarName) {s : Sat} {t : Lra} {r : LRel}
    {left right : Lin} {l : Lit} {s' : Sat} {t' : Lra} {b : Option Nat} (ht : TabWF t) (ri : RelInv s t)
    (si : SemInv t) (hl : left.WF) (hr : right.WF)
    (hlv : ∀ p ∈ left.vars, p.1 < t.vals.length) (hrv : ∀ p ∈ right.vars, p.1 < t.vals.length)
    (h : newRel s t r left right = some (l, s', t', b)) : SemInv t' := by
  obtain ⟨e1, e2, e3, -⟩ := relE_spec ht hl hr hlv hrv
  cases newRel_outcome h with
  | decidedExpr h0 hs' ht' hb => subst ht'; exact si
  | decidedSlack slack h0 hv h1 hs' hb => exact si.newVarLin hL hN ht e1 e2 hv
  | cached slack h0 hv h1 hf hs' hb => exact si.newVarLin hL hN ht e1 e2 hv
  | fresh slack t1 h0 hv h1 hf hl' hs' ht' hb =>
    subst ht'
    exact (si.newVarLin hL hN ht e1 e2 hv).relReg hK _ _ (relC_simple r e3)
      (fun e he => ri.vAsrts_lt e ((newVarLin_spec hv).2.1 ▸ he))

end Lra
end Oratio
