/-
Lemmas for property C13, part 1: vocabulary (copies of the definitions of
`OratioProofs/Properties/C13.lean`, which imports this file – the copies are definitionally
equal to the originals), assignments, models of a state, `newVar`, `enqueue`, `sortByVar`.
Core Lean only.
-/
import OratioModel.Sat.Enc

namespace Oratio
namespace EncL
open Enc

/-! ## vocabulary (same text as in Properties/C13.lean) -/

def Sat (α : Asg) (s : Enc) : Prop := α 0 = false ∧ Enc.Models α s
def AtMostOne (α : Asg) (ls : List Lit) : Prop := ∀ a ∈ ls, ∀ b ∈ ls, α.lit a = true → α.lit b = true → a = b
def ExactlyOne (α : Asg) (ls : List Lit) : Prop := AtMostOne α ls ∧ ∃ a ∈ ls, α.lit a = true
def KeySem (α : Asg) : Key → Lit → Prop
  | .eq a b, l => α.lit l = (α.lit a == α.lit b)
  | .conj ls, l => α.lit l = ls.all α.lit
  | .disj ls, l => α.lit l = ls.any α.lit
  | .amo ls, l => α.lit l = true → AtMostOne α ls
  | .exo ls, l => α.lit l = true → ExactlyOne α ls
def keyLits : Key → List Lit
  | .eq a b => [a, b]
  | .conj ls => ls
  | .disj ls => ls
  | .amo ls => ls
  | .exo ls => ls
def WF (s : Enc) : Prop :=
  s.vals.head? = some (some false) ∧
  (∀ c ∈ s.clauses, ∀ l ∈ c, l.var < s.nvars) ∧
  (∀ e ∈ s.exprs, e.2.var < s.nvars ∧ ∀ l ∈ keyLits e.1, l.var < s.nvars)
def Inv (s : Enc) : Prop := WF s ∧ ∀ e ∈ s.exprs, ∀ α, Sat α s → KeySem α e.1 e.2
def Extends (s s' : Enc) : Prop :=
  ∀ α, Sat α s → ∃ α', Sat α' s' ∧ ∀ v, v < s.nvars → α' v = α v
def Refines (s s' : Enc) : Prop := s.nvars ≤ s'.nvars ∧ ∀ α, Sat α s' → Sat α s
def InRange (s : Enc) (ls : List Lit) : Prop := ∀ l ∈ ls, l.var < s.nvars

/-! ## assignments -/

theorem lit_neg (α : Asg) (l : Lit) : α.lit l.neg = !α.lit l := by
  cases l with | mk v sg => cases sg <;> simp [Asg.lit, Lit.neg]

theorem neg_neg (l : Lit) : l.neg.neg = l := by
  cases l with | mk v sg => cases sg <;> simp [Lit.neg]

theorem neg_ne (l : Lit) : l.neg ≠ l := by
  cases l with | mk v sg => cases sg <;> simp [Lit.neg]

@[simp] theorem neg_var (l : Lit) : l.neg.var = l.var := rfl

theorem lit_pos (α : Asg) (v : Nat) : α.lit ⟨v, true⟩ = α v := by simp [Asg.lit]
theorem lit_negv (α : Asg) (v : Nat) : α.lit ⟨v, false⟩ = !α v := by simp [Asg.lit]

theorem lit_falseLit {α : Asg} (h : α 0 = false) : α.lit Lit.falseLit = false := by
  simp [Asg.lit, Lit.falseLit, h]
theorem lit_trueLit {α : Asg} (h : α 0 = false) : α.lit Lit.trueLit = true := by
  simp [Asg.lit, Lit.trueLit, h]

theorem lit_mk_eq_true (α : Asg) (v : Nat) (b : Bool) : α.lit ⟨v, b⟩ = true ↔ α v = b := by
  cases b <;> simp [Asg.lit]

theorem lit_eq_true_iff (α : Asg) (l : Lit) : α.lit l = true ↔ α l.var = l.sign := by
  cases l with | mk v b => exact lit_mk_eq_true α v b

theorem clause_eq_true (α : Asg) (c : Clause) : α.clause c = true ↔ ∃ l ∈ c, α.lit l = true := by
  simp [Asg.clause]

theorem clause_eq_false (α : Asg) (c : Clause) : α.clause c = false ↔ ∀ l ∈ c, α.lit l = false := by
  simp [Asg.clause]

theorem cnf_eq_true (α : Asg) (f : Cnf) : α.cnf f = true ↔ ∀ c ∈ f, α.clause c = true := by
  simp [Asg.cnf]

/-- literals over variables on which two assignments agree have the same value -/
theorem lit_congr {α β : Asg} {l : Lit} (h : β l.var = α l.var) : β.lit l = α.lit l := by
  simp [Asg.lit, h]

theorem clause_congr {α β : Asg} {c : Clause} (h : ∀ l ∈ c, β l.var = α l.var) :
    β.clause c = α.clause c := by
  simp only [Asg.clause]
  induction c with
  | nil => rfl
  | cons a t ih =>
    simp only [List.any_cons]
    rw [lit_congr (h a (by simp)), ih (fun l hl => h l (by simp [hl]))]

/-- pointwise update of an assignment -/
def upd (α : Asg) (v : Nat) (b : Bool) : Asg := fun x => if x = v then b else α x

@[simp] theorem upd_same (α : Asg) (v : Nat) (b : Bool) : upd α v b v = b := by simp [upd]
theorem upd_other (α : Asg) {v x : Nat} (b : Bool) (h : x ≠ v) : upd α v b x = α x := by simp [upd, h]
theorem upd_lt (α : Asg) {v x : Nat} (b : Bool) (h : x < v) : upd α v b x = α x :=
  upd_other α b (Nat.ne_of_lt h)

/-! ## models of a state -/

theorem getD_lt {vals : List (Option Bool)} {v : Nat} {b : Bool} (h : vals.getD v none = some b) :
    v < vals.length := by
  by_cases hv : v < vals.length
  · exact hv
  · simp [List.getD, List.getElem?_eq_none (Nat.le_of_not_lt hv)] at h

theorem cnf_units_iff (α : Asg) (s : Enc) :
    α.cnf s.units = true ↔ ∀ v b, s.vals.getD v none = some b → α v = b := by
  rw [cnf_eq_true]
  constructor
  · intro h v b hv
    have hlt := getD_lt hv
    have := h [⟨v, b⟩] (by
      simp only [units, List.mem_filterMap, List.mem_range]
      exact ⟨v, hlt, by rw [hv]⟩)
    simpa [Asg.clause, lit_mk_eq_true] using this
  · intro h c hc
    simp only [units, List.mem_filterMap, List.mem_range] at hc
    obtain ⟨v, _, hc⟩ := hc
    split at hc
    · next b hb =>
      cases hc
      simpa [Asg.clause, lit_mk_eq_true] using h v b hb
    · cases hc

theorem models_iff (α : Asg) (s : Enc) :
    Models α s ↔ (∀ c ∈ s.clauses, α.clause c = true) ∧ ∀ v b, s.vals.getD v none = some b → α v = b := by
  unfold Models Enc.cnf
  rw [← cnf_units_iff]
  simp [Asg.cnf, List.all_append]

theorem value_sound {α : Asg} {s : Enc} (h : Models α s) {l : Lit} {b : Bool} (hv : s.value l = some b) :
    α.lit l = b := by
  have h2 := ((models_iff α s).1 h).2
  unfold Enc.value litValue at hv
  split at hv
  · cases hv
  · next c hc =>
    have := h2 _ _ hc
    cases l with | mk v sg =>
    cases sg <;> simp_all [Asg.lit]

theorem value_none_iff (s : Enc) (l : Lit) : s.value l = none ↔ s.vals.getD l.var none = none := by
  unfold Enc.value litValue
  split <;> simp_all

theorem value_neg (s : Enc) (l : Lit) : s.value l.neg = (s.value l).map (!·) := by
  unfold Enc.value litValue
  cases l with | mk v sg =>
  simp only [Lit.neg]
  split <;> cases sg <;> simp

/-- a state only constrains its own variables -/
theorem sat_congr {s : Enc} (hw : WF s) {α β : Asg} (hab : ∀ v, v < s.nvars → β v = α v)
    (h : Sat α s) : Sat β s := by
  obtain ⟨h0, hm⟩ := h
  have hpos : 0 < s.nvars := by
    have := hw.1
    unfold Enc.nvars
    cases hv : s.vals with
    | nil => simp [hv] at this
    | cons a t => simp
  refine ⟨by rw [hab 0 hpos]; exact h0, ?_⟩
  rw [models_iff] at hm ⊢
  refine ⟨fun c hc => ?_, fun v b hv => ?_⟩
  · rw [clause_congr (fun l hl => hab l.var (hw.2.1 c hc l hl))]
    exact hm.1 c hc
  · rw [hab v (getD_lt hv)]
    exact hm.2 v b hv

theorem nvars_pos {s : Enc} (hw : WF s) : 0 < s.nvars := by
  have := hw.1
  unfold Enc.nvars
  cases hv : s.vals with
  | nil => simp [hv] at this
  | cons a t => simp

theorem getD_zero {s : Enc} (hw : WF s) : s.vals.getD 0 none = some false := by
  have := hw.1
  cases hv : s.vals with
  | nil => simp [hv] at this
  | cons a t => simp [hv] at this; simp [this]

/-- an undecided literal is not over variable 0 -/
theorem var_ne_zero_of_none {s : Enc} (hw : WF s) {l : Lit} (h : s.value l = none) : l.var ≠ 0 := by
  intro h0
  rw [value_none_iff, h0, getD_zero hw] at h
  cases h

/-! ## `Refines`, `Extends` -/

theorem Refines.refl (s : Enc) : Refines s s := ⟨Nat.le_refl _, fun _ h => h⟩
theorem Refines.trans {a b c : Enc} (h1 : Refines a b) (h2 : Refines b c) : Refines a c :=
  ⟨Nat.le_trans h1.1 h2.1, fun α h => h1.2 α (h2.2 α h)⟩
theorem Extends.refl (s : Enc) : Extends s s := fun α h => ⟨α, h, fun _ _ => rfl⟩
theorem Extends.trans {a b c : Enc} (hn : a.nvars ≤ b.nvars) (h1 : Extends a b) (h2 : Extends b c) :
    Extends a c := by
  intro α h
  obtain ⟨β, hβ, hβα⟩ := h1 α h
  obtain ⟨γ, hγ, hγβ⟩ := h2 β hβ
  exact ⟨γ, hγ, fun v hv => by rw [hγβ v (Nat.lt_of_lt_of_le hv hn), hβα v hv]⟩

/-- `exprs` do not matter for satisfaction -/
theorem sat_exprs (α : Asg) (s : Enc) (ex : List (Key × Lit)) : Sat α { s with exprs := ex } ↔ Sat α s := Iff.rfl

theorem sat_remember (α : Asg) (s : Enc) (k : Key) (l : Lit) : Sat α (s.remember k l) ↔ Sat α s := Iff.rfl

/-- the invariant moves along a refinement that keeps the cache -/
theorem inv_of_refines {s s' : Enc} (h : Inv s) (hw : WF s') (he : s'.exprs = s.exprs)
    (hr : ∀ α, Sat α s' → Sat α s) : Inv s' := by
  refine ⟨hw, fun e he' α hα => ?_⟩
  rw [he] at he'
  exact h.2 e he' α (hr α hα)

/-- adding a sound cache entry -/
theorem inv_remember {s : Enc} (h : Inv s) {k : Key} {l : Lit} (hl : l.var < s.nvars)
    (hk : ∀ x ∈ keyLits k, x.var < s.nvars) (hs : ∀ α, Sat α s → KeySem α k l) :
    Inv (s.remember k l) := by
  refine ⟨⟨h.1.1, h.1.2.1, fun e he => ?_⟩, fun e he α hα => ?_⟩
  · simp only [Enc.remember, List.mem_append, List.mem_singleton] at he
    rcases he with he | rfl
    · exact h.1.2.2 e he
    · exact ⟨hl, hk⟩
  · simp only [Enc.remember, List.mem_append, List.mem_singleton] at he
    rcases he with he | rfl
    · exact h.2 e he α hα
    · exact hs α hα

/-! ## `newVar`, `newVars` -/

theorem getD_append_none (vals : List (Option Bool)) (n v : Nat) :
    (vals ++ List.replicate n none).getD v none = vals.getD v none := by
  simp only [List.getD_eq_getElem?_getD]
  by_cases hv : v < vals.length
  · rw [List.getElem?_append_left hv]
  · have hv' := Nat.le_of_not_lt hv
    rw [List.getElem?_append_right hv', List.getElem?_eq_none hv']
    simp [List.getElem?_replicate]
    split <;> rfl

/-- appending undecided variables: the models are the same -/
theorem models_addVars (α : Asg) (s : Enc) (n : Nat) :
    Models α { s with vals := s.vals ++ List.replicate n none } ↔ Models α s := by
  simp only [models_iff, getD_append_none]

theorem wf_addVars {s : Enc} (hw : WF s) (n : Nat) : WF { s with vals := s.vals ++ List.replicate n none } := by
  obtain ⟨h1, h2, h3⟩ := hw
  refine ⟨?_, fun c hc l hl => ?_, fun e he => ⟨?_, fun l hl => ?_⟩⟩
  · cases hv : s.vals with
    | nil => simp [hv] at h1
    | cons a t => simp [hv] at h1; simp [h1]
  · have := h2 c hc l hl; simp only [Enc.nvars, List.length_append, List.length_replicate] at *; omega
  · have := (h3 e he).1; simp only [Enc.nvars, List.length_append, List.length_replicate] at *; omega
  · have := (h3 e he).2 l hl; simp only [Enc.nvars, List.length_append, List.length_replicate] at *; omega

theorem newVar_eq (s : Enc) : s.newVar = (s.nvars, { s with vals := s.vals ++ List.replicate 1 none }) := rfl

theorem newVars_eq (s : Enc) (n : Nat) :
    s.newVars n = ((List.range n).map (fun i => (⟨s.nvars + i, true⟩ : Lit)),
                   { s with vals := s.vals ++ List.replicate n none }) := by
  induction n generalizing s with
  | zero => simp [Enc.newVars]
  | succ n ih =>
    simp only [Enc.newVars, newVar_eq, ih]
    refine Prod.ext ?_ ?_
    · simp only [List.range_succ_eq_map, List.map_cons, List.map_map, Enc.nvars, List.length_append,
        List.length_replicate]
      congr 1
      refine List.map_congr_left fun i _ => ?_
      simp only [Function.comp, Lit.mk.injEq, and_true]; omega
    · simp only [List.append_assoc, List.replicate_append_replicate]
      rw [Nat.add_comm 1 n]

theorem inv_addVars {s : Enc} (h : Inv s) (n : Nat) : Inv { s with vals := s.vals ++ List.replicate n none } :=
  inv_of_refines h (wf_addVars h.1 n) rfl (fun α hα => ⟨hα.1, (models_addVars α s n).1 hα.2⟩)

theorem sat_addVars (α : Asg) (s : Enc) (n : Nat) :
    Sat α { s with vals := s.vals ++ List.replicate n none } ↔ Sat α s :=
  and_congr Iff.rfl (models_addVars α s n)

theorem nvars_addVars (s : Enc) (n : Nat) :
    ({ s with vals := s.vals ++ List.replicate n none } : Enc).nvars = s.nvars + n := by
  simp [Enc.nvars]

theorem refines_addVars (s : Enc) (n : Nat) : Refines s { s with vals := s.vals ++ List.replicate n none } :=
  ⟨by rw [nvars_addVars]; omega, fun α hα => (sat_addVars α s n).1 hα⟩

/-- any assignment that agrees with a model on the old variables is a model after `newVars` -/
theorem sat_addVars_of_agree {s : Enc} (hw : WF s) (n : Nat) {α β : Asg} (h : Sat α s)
    (hab : ∀ v, v < s.nvars → β v = α v) : Sat β { s with vals := s.vals ++ List.replicate n none } :=
  (sat_addVars β s n).2 (sat_congr hw hab h)

theorem extends_addVars {s : Enc} (n : Nat) : Extends s { s with vals := s.vals ++ List.replicate n none } :=
  fun α h => ⟨α, (sat_addVars α s n).2 h, fun _ _ => rfl⟩

/-- the value of an old literal does not change when variables are added -/
theorem value_addVars (s : Enc) (n : Nat) (l : Lit) :
    ({ s with vals := s.vals ++ List.replicate n none } : Enc).value l = s.value l := by
  simp only [Enc.value, litValue, getD_append_none]

/-! ## setting an undecided variable -/

theorem getD_set (vals : List (Option Bool)) {p : Nat} (hp : p < vals.length) (x : Option Bool) (v : Nat) :
    (vals.set p x).getD v none = if v = p then x else vals.getD v none := by
  simp only [List.getD_eq_getElem?_getD, List.getElem?_set]
  by_cases h : p = v
  · subst h; simp [hp]
  · simp [h, Ne.symm h]

theorem models_set {α : Asg} {s : Enc} {p : Lit} (hp : p.var < s.nvars) (hn : s.value p = none) :
    Models α { s with vals := s.vals.set p.var (some p.sign) } ↔ (Models α s ∧ α.lit p = true) := by
  rw [value_none_iff] at hn
  simp only [models_iff, getD_set s.vals hp, lit_eq_true_iff]
  constructor
  · rintro ⟨h1, h2⟩
    refine ⟨⟨h1, fun v b hv => ?_⟩, ?_⟩
    · have := h2 v b
      by_cases hvp : v = p.var
      · subst hvp; rw [hn] at hv; cases hv
      · simp only [hvp, if_false] at this; exact this hv
    · have := h2 p.var p.sign; simpa using this
  · rintro ⟨⟨h1, h2⟩, h3⟩
    refine ⟨h1, fun v b hv => ?_⟩
    by_cases hvp : v = p.var
    · subst hvp; simp at hv; rw [← hv]; exact h3
    · simp only [hvp, if_false] at hv; exact h2 v b hv

theorem wf_set {s : Enc} (hw : WF s) {p : Lit} (hn : s.value p = none) :
    WF { s with vals := s.vals.set p.var (some p.sign) } := by
  have hne := var_ne_zero_of_none hw hn
  obtain ⟨h1, h2, h3⟩ := hw
  refine ⟨?_, ?_, ?_⟩
  · cases hv : s.vals with
    | nil => simp [hv] at h1
    | cons a t =>
      simp [hv] at h1
      cases hpv : p.var with
      | zero => exact absurd hpv hne
      | succ k => simp [h1]
  · simpa [Enc.nvars] using h2
  · simpa [Enc.nvars] using h3

/-! ## `sortByVar` is a permutation -/

theorem insertByVar_perm (x : Lit) (t : List Lit) : (insertByVar x t).Perm (x :: t) := by
  induction t with
  | nil => exact List.Perm.refl _
  | cons y t ih =>
    simp only [insertByVar]
    split
    · exact List.Perm.refl _
    · exact ((List.Perm.cons y ih).trans (List.Perm.swap x y t))

theorem sortByVar_perm (ls : List Lit) : (sortByVar ls).Perm ls := by
  induction ls with
  | nil => exact List.Perm.refl _
  | cons x t ih =>
    show (insertByVar x (sortByVar t)).Perm (x :: t)
    exact (insertByVar_perm x _).trans (List.Perm.cons x ih)

theorem mem_sortByVar {l : Lit} {ls : List Lit} : l ∈ sortByVar ls ↔ l ∈ ls :=
  (sortByVar_perm ls).mem_iff

end EncL
end Oratio
