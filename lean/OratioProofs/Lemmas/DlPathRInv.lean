/-
C10X, real-valued instance: preservation of `DlR.PathInvR` — reasoning on the denoted matrix
(`WithTop QV`) from the closed forms `DlW.upd` and `propagateEdge_pred_specR`.
-/
import OratioProofs.Lemmas.DlPathR
import OratioProofs.Lemmas.DlPathInv

set_option linter.unusedSectionVars false
set_option linter.unusedVariables false

namespace Oratio
namespace DlR
open Dl

/-! ### justified entries -/

theorem JustR.unique {s : Sat} {t : Dl IR} {k j bb bb' : Nat} {w w' : QV}
    (h1 : JustR s t k j bb w) (h2 : JustR s t k j bb' w') : bb = bb' ∧ w = w' := by
  obtain ⟨l1, c1, hc1, r1⟩ := h1
  obtain ⟨l2, c2, hc2, r2⟩ := h2
  rw [l1] at l2
  have hb : bb = bb' := Option.some.inj l2
  subst hb
  rw [hc1] at hc2
  have hc : c1 = c2 := Option.some.inj hc2
  subst hc
  refine ⟨rfl, ?_⟩
  rcases r1 with ⟨v1, _, _, e1⟩ | ⟨v1, _, _, e1⟩ <;> rcases r2 with ⟨v2, _, _, e2⟩ | ⟨v2, _, _, e2⟩
  · rw [e1, e2]
  · rw [v1] at v2; cases v2
  · rw [v1] at v2; cases v2
  · rw [e1, e2]

theorem JustR.transfer {s s' : Sat} {t t' : Dl IR} {k j bb : Nat} {w : QV}
    (hl : lookupPair t'.distConstr (k, j) = lookupPair t.distConstr (k, j))
    (hc : ∀ b c, constrOf t b = some c → constrOf t' b = some c) (hs : SatLe s s')
    (h : JustR s t k j bb w) : JustR s' t' k j bb w := by
  obtain ⟨l1, c1, hc1, r1⟩ := h
  refine ⟨by rw [hl]; exact l1, c1, hc _ _ hc1, ?_⟩
  rcases r1 with ⟨v1, a1, a2, a3⟩ | ⟨v1, a1, a2, a3⟩
  · left; exact ⟨value_mono hs _ _ v1, a1, a2, a3⟩
  · right; exact ⟨value_mono hs _ _ v1, a1, a2, a3⟩

theorem dn_congr {t1 t2 : Dl IR} (h : t1.dists = t2.dists) (a b : Nat) : dn t1 a b = dn t2 a b := by
  unfold dn; rw [d_congr rdlOps h]

/-! ### monotonicity -/

theorem PathInvR.mono {s s' : Sat} {t t' : Dl IR} (h : PathInvR s t) (hs : SatLe s s')
    (hn : t'.nVars = t.nVars) (hd : t'.dists = t.dists) (hp : t'.preds = t.preds) (hdc : t'.distConstr = t.distConstr)
    (hc : ∀ b c, constrOf t b = some c → constrOf t' b = some c) : PathInvR s' t' := by
  have hdd : ∀ a b, dn t' a b = dn t a b := fun a b => dn_congr hd a b
  have hpp : ∀ a b, p t' a b = p t a b := fun a b => pG_congr hp a b
  have hj : ∀ k j bb w, JustR s t k j bb w → JustR s' t' k j bb w :=
    fun k j bb w hh => hh.transfer (by rw [hdc]) hc hs
  refine ⟨?_, ?_, ?_⟩
  · intro k j bb hl
    rw [hdc] at hl
    obtain ⟨h1, h2, h3, w, h4, h5⟩ := h.dc k j bb hl
    rw [hn, hdd]
    exact ⟨h1, h2, h3, w, hj _ _ _ _ h4, h5⟩
  · intro i j hi hjn hij hf
    rw [hn] at hi hjn
    rw [hdd] at hf
    obtain ⟨h1, h2, h3, bb, w, h4, h5⟩ := h.tree i j hi hjn hij hf
    rw [hn, hpp, hdd, hdd]
    exact ⟨h1, h2, h3, bb, w, hj _ _ _ _ h4, h5⟩
  · intro i j hi hjn hf
    rw [hn] at hi hjn
    rw [hdd] at hf
    obtain ⟨m, hm, hch⟩ := h.chain i j hi hjn hf
    rw [hn]
    refine ⟨m, hm, ?_⟩
    exact ChainN.transfer (fun _ => True) (fun x _ _ => ⟨trivial, hpp i x⟩) hch trivial

/-! ### the update -/

section Update
variable {s : Sat} {t t' : Dl IR} {f g : Nat} {w : IR} {cb : Nat}
  (hy : UHyp t.nVars (dn t) f g w)
include hy

theorem ru_not_imp_diag (i : Nat) (hi : i < t.nVars) : ¬ ImpR (dn t) f g (IR.val w) i i := by
  intro h
  unfold ImpR at h
  rw [hy.diag i hi] at h
  have h0 : (0 : WithTop QV) ≤ dn t i f + ((IR.val w : QV) : WithTop QV) + dn t g i :=
    calc (0 : WithTop QV) ≤ dn t g f + ((IR.val w : QV) : WithTop QV) := hy.cyc
      _ ≤ (dn t g i + dn t i f) + ((IR.val w : QV) : WithTop QV) := add_le_add (hy.closed g f i hy.hg hy.hf hi) le_rfl
      _ = dn t i f + ((IR.val w : QV) : WithTop QV) + dn t g i := by ac_rfl
  exact absurd (lt_of_le_of_lt h0 h) (lt_irrefl _)

theorem ru_not_imp_f (i : Nat) : ¬ ImpR (dn t) f g (IR.val w) i f := by
  intro h
  unfold ImpR at h
  have h0 : dn t i f + 0 ≤ dn t i f + (dn t g f + ((IR.val w : QV) : WithTop QV)) := add_le_add le_rfl hy.cyc
  rw [add_zero] at h0
  have h1 : dn t i f + (dn t g f + ((IR.val w : QV) : WithTop QV)) = dn t i f + ((IR.val w : QV) : WithTop QV) + dn t g f := by
    ac_rfl
  rw [h1] at h0
  exact absurd (lt_of_le_of_lt h0 h) (lt_irrefl _)

theorem ru_imp_back (i j k : Nat) (w0 : QV) (hi : i < t.nVars) (hj : j < t.nVars) (hk : k < t.nVars)
    (hkj : dn t k j ≤ (w0 : WithTop QV)) (hgkj : dn t g k + (w0 : WithTop QV) ≤ dn t g j)
    (himp : ImpR (dn t) f g (IR.val w) i j) : ImpR (dn t) f g (IR.val w) i k := by
  by_contra hn
  have hle : dn t i k ≤ dn t i f + ((IR.val w : QV) : WithTop QV) + dn t g k := not_lt.mp hn
  have h0 : dn t i j ≤ dn t i f + ((IR.val w : QV) : WithTop QV) + dn t g j :=
    calc dn t i j ≤ dn t i k + dn t k j := hy.closed i j k hi hj hk
      _ ≤ (dn t i f + ((IR.val w : QV) : WithTop QV) + dn t g k) + (w0 : WithTop QV) := add_le_add hle hkj
      _ = dn t i f + ((IR.val w : QV) : WithTop QV) + (dn t g k + (w0 : WithTop QV)) := by ac_rfl
      _ ≤ dn t i f + ((IR.val w : QV) : WithTop QV) + dn t g j := add_le_add le_rfl hgkj
  exact absurd (lt_of_le_of_lt h0 himp) (lt_irrefl _)

theorem ru_nimp_back (i j k : Nat) (w0 : QV) (hi : i < t.nVars) (hj : j < t.nVars) (hk : k < t.nVars)
    (hkj : dn t k j ≤ (w0 : WithTop QV)) (hikj : dn t i k + (w0 : WithTop QV) ≤ dn t i j)
    (hn : ¬ ImpR (dn t) f g (IR.val w) i j) : ¬ ImpR (dn t) f g (IR.val w) i k := by
  intro h
  apply hn
  unfold ImpR at h ⊢
  calc dn t i f + ((IR.val w : QV) : WithTop QV) + dn t g j
      ≤ dn t i f + ((IR.val w : QV) : WithTop QV) + (dn t g k + dn t k j) :=
        add_le_add le_rfl (hy.closed g j k hy.hg hj hk)
    _ ≤ dn t i f + ((IR.val w : QV) : WithTop QV) + (dn t g k + (w0 : WithTop QV)) :=
        add_le_add le_rfl (add_le_add le_rfl hkj)
    _ = (dn t i f + ((IR.val w : QV) : WithTop QV) + dn t g k) + (w0 : WithTop QV) := by ac_rfl
    _ < dn t i k + (w0 : WithTop QV) := WithTop.add_lt_add_right WithTop.coe_ne_top h
    _ ≤ dn t i j := hikj

theorem imp_fin {i j : Nat} (himp : ImpR (dn t) f g (IR.val w) i j) : dn t i f ≠ ⊤ ∧ dn t g j ≠ ⊤ := by
  have hc := ne_top_of_lt himp
  have h1 := WithTop.add_ne_top.mp hc
  exact ⟨(WithTop.add_ne_top.mp h1.1).1, h1.2⟩

theorem pathInvR_update (hP : PathInvR s t)
    (hnv : t'.nVars = t.nVars)
    (hd : ∀ a b, a < t.nVars → b < t.nVars → dn t' a b = DlW.upd (dn t) f g (IR.val w) a b)
    (hp : ∀ a b, a < t.nVars → b < t.nVars →
      (ImpR (dn t) f g (IR.val w) a b → p t' a b = Dl.newp (p t) f g b) ∧
      (¬ ImpR (dn t) f g (IR.val w) a b → dn t a b ≠ ⊤ → p t' a b = p t a b))
    (hdc : t'.distConstr = assignPair t.distConstr (f, g) cb) (hvd : t'.varDists = t.varDists)
    (hj : ∃ c, constrOf t cb = some c ∧
      ((s.value ⟨cb, true⟩ = some true ∧ c.src = f ∧ c.dst = g ∧ IR.val w = IR.val c.dist) ∨
       (s.value ⟨cb, true⟩ = some false ∧ c.dst = f ∧ c.src = g ∧ IR.val w = -IR.val c.dist - QV.eps))) :
    PathInvR s t' := by
  have hf := hy.hf; have hg := hy.hg; have hfg := hy.hfg
  have hdf := hy.diag f hf
  have hdg := hy.diag g hg
  have hco : ∀ b, constrOf t' b = constrOf t b := by
    intro b; unfold constrOf; rw [hvd]
  have just_old : ∀ k j bb w0, JustR s t k j bb w0 → (k, j) ≠ (f, g) → JustR s t' k j bb w0 := by
    intro k j bb w0 hh hne
    refine hh.transfer ?_ (fun b c h => by rw [hco]; exact h) (SatLe.refl s)
    rw [hdc, Undo.lookup_assign, if_neg (Ne.symm hne)]
  have just_new : JustR s t' f g cb (IR.val w) := by
    obtain ⟨c, hc, hr⟩ := hj
    exact ⟨by rw [hdc, Undo.lookup_assign, if_pos rfl], c, by rw [hco]; exact hc, hr⟩
  have hfg' : dn t' f g ≤ ((IR.val w : QV) : WithTop QV) := by
    rw [hd f g hf hg]
    have := DlW.upd_le_cand (dn t) f g (IR.val w) f g
    rw [hdf, hdg, zero_add, add_zero] at this
    exact this
  have old_ne : ∀ a b, a < t.nVars → b < t.nVars → dn t a b ≠ ⊤ → DlW.upd (dn t) f g (IR.val w) a b ≠ ⊤ :=
    fun a b _ _ h => ne_top_of_le_ne_top h (DlW.upd_le_old _ _ _ _ _ _)
  have htree : ∀ i j, i < t'.nVars → j < t'.nVars → i ≠ j → dn t' i j ≠ ⊤ →
      p t' i j < t'.nVars ∧ p t' i j ≠ j ∧ dn t' i (p t' i j) ≠ ⊤ ∧
      ∃ (bb : Nat) (w0 : QV), JustR s t' (p t' i j) j bb w0 ∧ dn t' i (p t' i j) + (w0 : WithTop QV) ≤ dn t' i j := by
    intro i j hi hjn hij hfin
    rw [hnv] at hi hjn ⊢
    rw [hd i j hi hjn] at hfin ⊢
    by_cases himp : ImpR (dn t) f g (IR.val w) i j
    · rw [(hp i j hi hjn).1 himp]
      obtain ⟨m1, m2⟩ := imp_fin hy himp
      rw [upd_of_imp himp]
      by_cases hjg : j = g
      · subst hjg
        have hnp : Dl.newp (p t) f j j = f := by simp [Dl.newp]
        rw [hnp, hd i f hi hf]
        refine ⟨hf, hfg, old_ne i f hi hf m1, cb, IR.val w, just_new, ?_⟩
        rw [hdg, add_zero]
        exact add_le_add (DlW.upd_le_old _ _ _ _ _ _) le_rfl
      · have hnp : Dl.newp (p t) f g j = p t g j := by simp [Dl.newp, hjg]
        rw [hnp]
        obtain ⟨t1, t2, t3, bb, w0, t4, t5⟩ := hP.tree g j hg hjn (Ne.symm hjg) m2
        rw [hd i _ hi t1]
        have hcand := DlW.upd_le_cand (dn t) f g (IR.val w) i (p t g j)
        have hcfin : dn t i f + ((IR.val w : QV) : WithTop QV) + dn t g (p t g j) ≠ ⊤ :=
          WithTop.add_ne_top.mpr ⟨WithTop.add_ne_top.mpr ⟨m1, WithTop.coe_ne_top⟩, t3⟩
        refine ⟨t1, t2, ne_top_of_le_ne_top hcfin hcand, bb, w0, just_old _ _ _ _ t4 ?_, ?_⟩
        · intro he
          exact hjg (congrArg Prod.snd he)
        · calc DlW.upd (dn t) f g (IR.val w) i (p t g j) + (w0 : WithTop QV)
              ≤ (dn t i f + ((IR.val w : QV) : WithTop QV) + dn t g (p t g j)) + (w0 : WithTop QV) := add_le_add hcand le_rfl
            _ = dn t i f + ((IR.val w : QV) : WithTop QV) + (dn t g (p t g j) + (w0 : WithTop QV)) := by ac_rfl
            _ ≤ dn t i f + ((IR.val w : QV) : WithTop QV) + dn t g j := add_le_add le_rfl t5
    · rw [upd_of_nimp himp] at hfin ⊢
      rw [(hp i j hi hjn).2 himp hfin]
      obtain ⟨t1, t2, t3, bb, w0, t4, t5⟩ := hP.tree i j hi hjn hij hfin
      rw [hd i _ hi t1]
      have hle := DlW.upd_le_old (dn t) f g (IR.val w) i (p t i j)
      by_cases he : (p t i j, j) = (f, g)
      · exfalso
        have e1 : p t i j = f := congrArg Prod.fst he
        have e2 : j = g := congrArg Prod.snd he
        rw [e1] at t3 t4 t5
        subst e2
        obtain ⟨_, _, _, w1, q1, q3⟩ := hP.dc f j bb t4.1
        have hw01 := (t4.unique q1).2
        rw [← hw01] at q3
        have hlt : ((IR.val w : QV) : WithTop QV) < (w0 : WithTop QV) := lt_of_lt_of_le hy.imp q3
        apply himp
        show dn t i f + _ + dn t j j < dn t i j
        rw [hdg, add_zero]
        exact lt_of_lt_of_le (WithTop.add_lt_add_left t3 hlt) t5
      · exact ⟨t1, t2, ne_top_of_le_ne_top t3 hle, bb, w0, just_old _ _ _ _ t4 he,
          le_trans (add_le_add hle le_rfl) t5⟩
  refine ⟨?_, htree, ?_⟩
  · intro k j bb hl
    rw [hdc, Undo.lookup_assign] at hl
    rw [hnv]
    by_cases he : (f, g) = (k, j)
    · rw [if_pos he] at hl
      have e1 : f = k := congrArg Prod.fst he
      have e2 : g = j := congrArg Prod.snd he
      have e3 : cb = bb := Option.some.inj hl
      subst e1 e2 e3
      exact ⟨hf, hg, hfg, IR.val w, just_new, hfg'⟩
    · rw [if_neg he] at hl
      obtain ⟨h1, h2, h3, w0, h4, h5⟩ := hP.dc k j bb hl
      rw [hd k j h1 h2]
      exact ⟨h1, h2, h3, w0, just_old _ _ _ _ h4 (Ne.symm he), le_trans (DlW.upd_le_old _ _ _ _ _ _) h5⟩
  · have L1 : ∀ i, i < t.nVars → ∀ {m j : Nat}, ChainN t i m j →
        (j < t.nVars ∧ dn t i j ≠ ⊤ ∧ ¬ ImpR (dn t) f g (IR.val w) i j) → ChainN t' i m j := by
      intro i hi m j hch hq
      refine ChainN.transfer (fun x => x < t.nVars ∧ dn t i x ≠ ⊤ ∧ ¬ ImpR (dn t) f g (IR.val w) i x) ?_ hch hq
      intro x ⟨x1, x2, x3⟩ hxi
      obtain ⟨t1, t2, t3, bb, w0, t4, t5⟩ := hP.tree i x hi x1 (Ne.symm hxi) x2
      obtain ⟨_, _, _, w1, q1, q3⟩ := hP.dc _ _ bb t4.1
      have hw01 := (t4.unique q1).2
      rw [← hw01] at q3
      exact ⟨⟨t1, t3, ru_nimp_back hy i x (p t i x) w0 hi x1 t1 q3 t5 x3⟩, (hp i x hi x1).2 x3 x2⟩
    have L2 : ∀ i, i < t.nVars → ∀ {m j : Nat}, ChainN t g m j →
        j < t.nVars → dn t g j ≠ ⊤ → ImpR (dn t) f g (IR.val w) i j → ∃ m', ChainN t' i m' j := by
      intro i hi m j hch
      induction hch with
      | root =>
        intro _ _ himp
        have hgi : g ≠ i := by
          intro e; subst e; exact ru_not_imp_diag hy g hg himp
        obtain ⟨m1, _, hc1⟩ := hP.chain i f hi hf (imp_fin hy himp).1
        have hc2 := L1 i hi hc1 ⟨hf, (imp_fin hy himp).1, ru_not_imp_f hy i⟩
        refine ⟨m1 + 1, ChainN.step hgi ?_⟩
        rw [(hp i g hi hg).1 himp]
        simpa [Dl.newp] using hc2
      | step hne hch ih =>
        rename_i m0 j0
        intro hjn hfin himp
        obtain ⟨t1, t2, t3, bb, w0, t4, t5⟩ := hP.tree g j0 hg hjn (Ne.symm hne) hfin
        obtain ⟨_, _, _, w1, q1, q3⟩ := hP.dc _ _ bb t4.1
        have hw01 := (t4.unique q1).2
        rw [← hw01] at q3
        have himpk := ru_imp_back hy i j0 (p t g j0) w0 hi hjn t1 q3 t5 himp
        obtain ⟨m', hm'⟩ := ih t1 t3 himpk
        have hji : j0 ≠ i := by
          intro e; subst e; exact ru_not_imp_diag hy j0 hi himp
        refine ⟨m' + 1, ChainN.step hji ?_⟩
        rw [(hp i j0 hi hjn).1 himp]
        have : Dl.newp (p t) f g j0 = p t g j0 := by simp [Dl.newp, hne]
        rw [this]; exact hm'
    intro i j hi hjn hfin
    rw [hnv] at hi hjn
    have hex : ∃ m, ChainN t' i m j := by
      rw [hd i j hi hjn] at hfin
      by_cases himp : ImpR (dn t) f g (IR.val w) i j
      · obtain ⟨m, _, hc⟩ := hP.chain g j hg hjn (imp_fin hy himp).2
        exact L2 i hi hc hjn (imp_fin hy himp).2 himp
      · rw [upd_of_nimp himp] at hfin
        obtain ⟨m, _, hc⟩ := hP.chain i j hi hjn hfin
        exact ⟨m, L1 i hi hc ⟨hjn, hfin, himp⟩⟩
    obtain ⟨m, hm⟩ := hex
    refine ⟨m, ?_, hm⟩
    refine ChainN.lt_of_nodes (fun x => x < t'.nVars ∧ dn t' i x ≠ ⊤) ?_ (fun x hx => hx.1) hm
      ⟨by rw [hnv]; exact hjn, hfin⟩
    intro x hx hxi
    obtain ⟨r1, _, r3, _⟩ := htree i x (by rw [hnv]; exact hi) hx.1 (Ne.symm hxi) hx.2
    exact ⟨r1, r3⟩
end Update

/-! ### growth -/

/-- adding an isolated time point -/
theorem pathInvR_extend {s : Sat} {t t' : Dl IR} (hP : PathInvR s t) (hn : t'.nVars = t.nVars + 1)
    (hold : ∀ a b, a < t.nVars → b < t.nVars → dn t' a b = dn t a b ∧ p t' a b = p t a b)
    (hnew : ∀ a b, a < t.nVars + 1 → b < t.nVars + 1 → (a = t.nVars ∨ b = t.nVars) → a ≠ b → dn t' a b = ⊤)
    (hdc : t'.distConstr = t.distConstr) (hvd : t'.varDists = t.varDists) : PathInvR s t' := by
  have hco : ∀ b, constrOf t' b = constrOf t b := by
    intro b; unfold constrOf; rw [hvd]
  have hj : ∀ k j bb w, JustR s t k j bb w → JustR s t' k j bb w :=
    fun k j bb w hh => hh.transfer (by rw [hdc]) (fun b c h => by rw [hco]; exact h) (SatLe.refl s)
  have hboth : ∀ i j, i < t.nVars + 1 → j < t.nVars + 1 → i ≠ j → dn t' i j ≠ ⊤ → i < t.nVars ∧ j < t.nVars := by
    intro i j hi hj hij hfin
    by_contra hcon
    exact hfin (hnew i j hi hj (by omega) hij)
  refine ⟨?_, ?_, ?_⟩
  · intro k j bb hl
    rw [hdc] at hl
    obtain ⟨h1, h2, h3, w, h4, h5⟩ := hP.dc k j bb hl
    rw [hn, (hold k j h1 h2).1]
    exact ⟨by omega, by omega, h3, w, hj _ _ _ _ h4, h5⟩
  · intro i j hi hjn hij hfin
    rw [hn] at hi hjn
    obtain ⟨hi', hj'⟩ := hboth i j hi hjn hij hfin
    rw [(hold i j hi' hj').1] at hfin
    obtain ⟨h1, h2, h3, bb, w, h4, h5⟩ := hP.tree i j hi' hj' hij hfin
    rw [hn, (hold i j hi' hj').2, (hold i j hi' hj').1, (hold i _ hi' h1).1]
    exact ⟨by omega, h2, h3, bb, w, hj _ _ _ _ h4, h5⟩
  · intro i j hi hjn hfin
    rw [hn] at hi hjn ⊢
    by_cases hij : i = j
    · subst hij
      exact ⟨0, by omega, ChainN.root⟩
    · obtain ⟨hi', hj'⟩ := hboth i j hi hjn hij hfin
      rw [(hold i j hi' hj').1] at hfin
      obtain ⟨m, hm, hch⟩ := hP.chain i j hi' hj' hfin
      refine ⟨m, by omega, ?_⟩
      refine ChainN.transfer (fun x => x < t.nVars ∧ dn t i x ≠ ⊤) ?_ hch ⟨hj', hfin⟩
      intro x ⟨x1, x2⟩ hxi
      obtain ⟨h1, _, h3, _⟩ := hP.tree i x hi' x1 (Ne.symm hxi) x2
      exact ⟨⟨h1, h3⟩, (hold i x hi' x1).2⟩

end DlR
end Oratio
