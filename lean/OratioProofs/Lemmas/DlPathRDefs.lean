/-
C10X, real-valued instance (`rdlOps : DOps IR`): the vocabulary.  Values are ε-rationals
`QV = Lex (ℚ × ℚ)`; the denoted matrix is `DlR.dn t i j : WithTop QV` (`⊤` = +∞).
-/
import OratioProofs.Lemmas.DlPathDefs
import OratioProofs.Lemmas.DlRdl

namespace Oratio
namespace DlR

/-- entry `(k, j) ↦ bb` of `dist_constr` denotes, under `s`, the asserted edge `k → j` of weight `w`:
    a true literal stands for `src → dst` with weight `dist`, a false literal for the reversed
    strict edge `dst → src` with weight `-dist - ε` -/
def JustR (s : Sat) (t : Dl IR) (k j bb : Nat) (w : QV) : Prop :=
  Dl.lookupPair t.distConstr (k, j) = some bb ∧
  ∃ c, Dl.constrOf t bb = some c ∧
    ((s.value ⟨bb, true⟩ = some true ∧ c.src = k ∧ c.dst = j ∧ w = IR.val c.dist) ∨
     (s.value ⟨bb, true⟩ = some false ∧ c.dst = k ∧ c.src = j ∧ w = -IR.val c.dist - QV.eps))

/-- the path invariant, real-valued instance -/
structure PathInvR (s : Sat) (t : Dl IR) : Prop where
  dc : ∀ k j bb, Dl.lookupPair t.distConstr (k, j) = some bb →
    k < t.nVars ∧ j < t.nVars ∧ k ≠ j ∧
    ∃ w : QV, JustR s t k j bb w ∧ dn t k j ≤ (w : WithTop QV)
  tree : ∀ i j, i < t.nVars → j < t.nVars → i ≠ j → dn t i j ≠ ⊤ →
    Dl.p t i j < t.nVars ∧ Dl.p t i j ≠ j ∧ dn t i (Dl.p t i j) ≠ ⊤ ∧
    ∃ (bb : Nat) (w : QV), JustR s t (Dl.p t i j) j bb w ∧ dn t i (Dl.p t i j) + (w : WithTop QV) ≤ dn t i j
  chain : ∀ i j, i < t.nVars → j < t.nVars → dn t i j ≠ ⊤ → ∃ n, n < t.nVars ∧ Dl.ChainN t i n j

/-- `σ` and `α` agree on the meaning of the constraint literals -/
def AgreesR (t : Dl IR) (σ : Nat → QV) (α : Asg) : Prop :=
  ∀ c ∈ t.varDists, (α c.b = true → σ c.dst - σ c.src ≤ IR.val c.dist) ∧
                     (α c.b = false → σ c.src - σ c.dst ≤ -IR.val c.dist - QV.eps)

/-- all constraints are between distinct time points and have finite well-formed weights -/
def ConstrsOkR (t : Dl IR) : Prop :=
  ∀ c ∈ t.varDists, c.src < t.nVars ∧ c.dst < t.nVars ∧ c.src ≠ c.dst ∧ IR.Fin c.dist

end DlR
end Oratio
