/-
C10X, real-valued instance: the effect of `propagate(from, to, dist)` on the predecessor matrix,
next to `DlW.upd` (the closed form of the DENOTED distances proved in `Lemmas/DlRdl.lean`).

Because `finiteGuard` is constantly true for RDL, the algorithm also rewrites entries that are
(and stay) infinite, with a junk predecessor; the closed form therefore speaks about finite
entries only:

  improved (a, b)                →  preds' a b = (if b = to then from else preds to b)
  not improved, d a b finite     →  preds' a b = preds a b
-/
import OratioProofs.Lemmas.DlRdlExact
import OratioProofs.Lemmas.UndoDl
import OratioProofs.Lemmas.DlPath
import OratioProofs.Lemmas.DlPathRDefs

set_option linter.unusedSectionVars false
set_option linter.unusedVariables false

namespace Oratio
namespace DlR
open Dl

/-! ### access to `_preds` (generic in the number type) -/
section generic
variable {α : Type} (O : DOps α)

theorem pG_eq (t : Dl α) (a b : Nat) : p t a b = (t.preds.getD a []).getD b noPred := rfl

theorem pG_congr {t1 t2 : Dl α} (h : t1.preds = t2.preds) (a b : Nat) : p t1 a b = p t2 a b := by
  simp only [pG_eq, h]

theorem fitsPG_range {t : Dl α} {n : Nat} (h : Dl.FitsP n (shape t)) {i j : Nat} (hi : i < n) (hj : j < n) :
    i < t.preds.length ∧ j < (t.preds.getD i []).length := by
  obtain ⟨h1, h2⟩ := h
  have hi' : i < t.preds.length := by simp [shape] at h1; omega
  refine ⟨hi', ?_⟩
  have : (t.preds.getD i []).length ∈ (shape t).2 := by
    simp only [shape, List.mem_map]
    refine ⟨t.preds[i], List.getElem_mem hi', ?_⟩
    simp [List.getD_eq_getElem?_getD, hi']
  have := h2 _ this
  omega

theorem pG_setP (t : Dl α) (i j : Nat) (x : Nat) (a b : Nat)
    (hi : i < t.preds.length) (hj : j < (t.preds.getD i []).length) :
    p (setP t i j x) a b = if a = i ∧ b = j then x else p t a b := by
  simp only [pG_eq, setP, List.getD_eq_getElem?_getD, List.getElem?_set]
  by_cases hai : i = a
  · subst hai
    by_cases hbj : j = b
    · subst hbj
      simp [hi, List.getD_eq_getElem?_getD] at hj ⊢
      simp [hj]
    · have : ¬ (b = j) := fun h => hbj h.symm
      simp [hi, hbj, this]
  · have : ¬ (a = i) := fun h => hai h.symm
    simp [hai, this]

theorem predsG_setDist (t : Dl α) (i j : Nat) (x : α) : (setDist O t i j x).preds = t.preds := by
  unfold setDist
  cases t.layers with
  | nil => rfl
  | cons l ls => dsimp only; split <;> rfl

theorem predsG_setPred (t : Dl α) (i j : Nat) (x : Nat) : (setPred t i j x).preds = (setP t i j x).preds := by
  unfold setPred
  cases t.layers with
  | nil => rfl
  | cons l ls => dsimp only; split <;> rfl

theorem pG_wr {t : Dl α} {n : Nat} (h : Dl.FitsP n (shape t)) {i j : Nat} (hi : i < n) (hj : j < n) (x : α) (y : Nat)
    (a b : Nat) : p (wr O t i j x y) a b = if a = i ∧ b = j then y else p t a b := by
  obtain ⟨h1, h2⟩ := fitsPG_range h hi hj
  have e : (wr O t i j x y).preds = (setP t i j y).preds := by
    rw [wr, predsG_setPred]
    simp only [setP, predsG_setDist]
  rw [pG_congr e, pG_setP _ _ _ _ _ _ h1 h2]

end generic

/-! ### the link between the denoted distances and `_preds` during the update -/

/-- the entry `(a, b)` is strictly improved by the new edge `(f, g, wv)` -/
def ImpR (M : WM) (f g : Nat) (wv : QV) (a b : Nat) : Prop :=
  M a f + (wv : WithTop QV) + M g b < M a b

/-- every entry is either untouched in value (and, when finite, in its predecessor) or improved
    and carries the new predecessor -/
def LinkR (M : WM) (P0 : Nat → Nat → Nat) (f g : Nat) (wv : QV) (t : Dl IR) : Prop :=
  ∀ a b, (dn t a b = M a b ∧ (M a b ≠ ⊤ → p t a b = P0 a b)) ∨ (ImpR M f g wv a b ∧ p t a b = Dl.newp P0 f g b)

theorem upd_of_imp {M : WM} {f g : Nat} {wv : QV} {a b : Nat} (h : ImpR M f g wv a b) :
    DlW.upd M f g wv a b = M a f + (wv : WithTop QV) + M g b := min_eq_right (le_of_lt h)

theorem upd_of_nimp {M : WM} {f g : Nat} {wv : QV} {a b : Nat} (h : ¬ ImpR M f g wv a b) :
    DlW.upd M f g wv a b = M a b := min_eq_left (not_lt.mp h)

section
variable {t0 : Dl IR} {M : WM} {P0 : Nat → Nat → Nat} {f g : Nat} {w : IR} {n : Nat} {shp : List Nat × List Nat}
  (hy : UHyp n M f g w) (hfit : Fits n shp) (hfitP : Dl.FitsP n shp)
include hy hfit hfitP

theorem LinkR_wr {t : Dl IR} (hL : LinkR M P0 f g (IR.val w) t) (hs : shape t = shp) {i j : Nat} (hi : i < n) (hj : j < n)
    (x : IR) (y : Nat)
    (hcase : (ImpR M f g (IR.val w) i j ∧ y = Dl.newp P0 f g j) ∨ (IR.den x = ⊤ ∧ M i j = ⊤)) :
    LinkR M P0 f g (IR.val w) (wr rdlOps t i j x y) := by
  have hfitt : Fits n (shape t) := by rw [hs]; exact hfit
  have hfittP : Dl.FitsP n (shape t) := by rw [hs]; exact hfitP
  intro a b
  rw [dn_wr hfitt hi hj, pG_wr rdlOps hfittP hi hj]
  by_cases hab : a = i ∧ b = j
  · rw [if_pos hab, if_pos hab, hab.1, hab.2]
    rcases hcase with ⟨h1, h2⟩ | ⟨h1, h2⟩
    · right; exact ⟨h1, h2⟩
    · left; exact ⟨by rw [h1, h2], fun hne => absurd h2 hne⟩
  · rw [if_neg hab, if_neg hab]
    exact hL a b

theorem not_impR_row_g (u : Nat) : ¬ ImpR M f g (IR.val w) g u := by
  intro h
  have h1 : (0 : WithTop QV) + M g u ≤ M g f + ((IR.val w : QV) : WithTop QV) + M g u := add_le_add hy.cyc le_rfl
  rw [zero_add] at h1
  exact absurd (lt_of_le_of_lt h1 h) (lt_irrefl _)

theorem LinkR_pg {t : Dl IR} (hL : LinkR M P0 f g (IR.val w) t) (u : Nat) (hu : M g u ≠ ⊤) : p t g u = P0 g u := by
  rcases hL g u with ⟨_, h2⟩ | ⟨h1, _⟩
  · exact h2 hu
  · exact absurd h1 (not_impR_row_g hy hfit hfitP u)

theorem ne_top_of_add_lt {a b c : WithTop QV} (h : a + b < c) : a ≠ ⊤ ∧ b ≠ ⊤ :=
  WithTop.add_ne_top.mp (ne_top_of_lt h)

theorem phase1_linkR : ∀ (fuel : Nat) (tz : Dl IR) (u : Nat) (t : Dl IR) (si sj : List Nat) (ups : List (Nat × Nat)),
    u + fuel = n → PP t0 M f g (IR.val w) n shp u u t si sj → LinkR M P0 f g (IR.val w) t →
    LinkR M P0 f g (IR.val w) (phase1 rdlOps tz f g w fuel u (t, si, sj, ups)).1 := by
  intro fuel
  induction fuel with
  | zero =>
    intro tz u t si sj ups hu hP hL
    simpa [phase1] using hL
  | succ m ih =>
    intro tz u t si sj ups hu hP hL
    have hf := hy.hf; have hg := hy.hg; have hfg := hy.hfg
    have hun : u < n := by omega
    rw [phase1]
    split
    rename_i t1 si1 ups1 heq1
    have q1 := step1 hy hfit hP hun ups f heq1
    have hL1 : LinkR M P0 f g (IR.val w) t1 := by
      split at heq1
      · cases heq1
        have hc := (q1.si_sub u (by simp)).2
        have rf : dn t u f = M u f := by
          rw [hP.mat]; rw [if_neg (by omega)]
        refine LinkR_wr hy hfit hfitP hL hP.shp hun hg _ _ ?_
        rcases hc with hc | hc
        · left
          refine ⟨?_, by simp [Dl.newp]⟩
          show M u f + _ + M g g < M u g
          rw [hy.diag g hg, add_zero]; exact hc.2
        · right
          refine ⟨?_, hc.2⟩
          rw [(IR.good_add (hP.good u f hun hf) hy.hw.good).2]
          change dn t u f + _ = ⊤
          rw [rf, hc.1, WithTop.top_add]
      · cases heq1
        exact hL
    have q2 := step2 hy hfit q1 hun (p (setDist rdlOps t1 f u (rdlOps.add (d rdlOps t1 g u) w)) g u)
    dsimp only
    split
    · rename_i hc
      have q3 := q2.1 hc
      refine ih _ _ _ _ _ _ (by omega) q3 ?_
      have hcj := (q3.sj_sub u (by simp)).2
      have rg : dn t1 g u = M g u := by
        rw [q1.mat]
        by_cases hug : u = g
        · rw [if_pos (by omega), hug, D1_gg hy hfit, hy.diag g hg]
        · rw [if_neg (by omega)]
      refine LinkR_wr hy hfit hfitP hL1 q1.shp hf hun _ _ ?_
      rcases hcj with hcj | hcj
      · left
        have hne := (ne_top_of_add_lt hy hfit hfitP hcj.2).1
        refine ⟨?_, ?_⟩
        · show M f f + _ + M g u < M f u
          rw [hy.diag f hf, zero_add, add_comm]; exact hcj.2
        · rw [pG_congr (predsG_setDist rdlOps _ _ _ _), LinkR_pg hy hfit hfitP hL1 u hne]
          simp [Dl.newp, hcj.1]
      · right
        refine ⟨?_, hcj.2⟩
        rw [(IR.good_add (q1.good g u hg hun) hy.hw.good).2]
        change dn t1 g u + _ = ⊤
        rw [rg, hcj.1, WithTop.top_add]
    · rename_i hc
      exact ih _ _ _ _ _ _ (by omega) (q2.2 hc) hL1

theorem inner_linkR {G : WM} (hG : ∀ a b, a < n → b < n → G a b = D1 M f g (IR.val w) a b)
    {S : Nat → Nat → Prop} {i j : Nat} (hi : i < n) (hj : j < n)
    (ci : Ci M f g (IR.val w) i ∨ Si M f g i) (cj : Cj M f g (IR.val w) j ∨ Sj M f g j)
    (acc : Dl IR × List (Nat × Nat)) (hQ : Q2 t0 M f g (IR.val w) n shp G S acc.1)
    (hL : LinkR M P0 f g (IR.val w) acc.1) :
    LinkR M P0 f g (IR.val w) (innerF g i acc j).1 := by
  obtain ⟨t, ups⟩ := acc
  unfold innerF
  have hf := hy.hf; have hg := hy.hg; have hfg := hy.hfg
  have hdg := hy.diag g hg
  have hdf := hy.diag f hf
  have hif : i ≠ f := by
    rcases ci with c | c
    · exact c.1
    · intro h; subst h
      have c1 : M i i = ⊤ := c.1
      rw [hdf] at c1; exact zero_ne_top' hy hfit c1
  have hjg : j ≠ g := by
    rcases cj with c | c
    · exact c.1
    · intro h; subst h
      have c1 : M j j = ⊤ := c.1
      rw [hdg] at c1; exact zero_ne_top' hy hfit c1
  have r1 : dn t i g = M i f + ((IR.val w : QV) : WithTop QV) := by
    rw [hQ.colg, hG i g hi hg]; simp only [D1, if_true]
    rcases ci with c | c
    · exact min_eq_right (le_of_lt c.2)
    · rw [c.1, c.2, WithTop.top_add, min_self]
  have r2 : dn t g j = M g j := by
    rw [hQ.rowg, hG g j hg hj]; simp only [D1, if_neg hjg, if_neg (Ne.symm hfg)]
  have r3 : G i j = M i j := by
    rw [hG i j hi hj]; simp only [D1, if_neg hjg, if_neg hif]
  have hF : DlW.upd M f g (IR.val w) i j = min (M i j) (M i f + ((IR.val w : QV) : WithTop QV) + M g j) := rfl
  have hcur := hQ.mat i j
  have gx := hQ.good i g hi hg
  have gy := hQ.good g j hg hj
  have gz := hQ.good i j hi hj
  dsimp only
  by_cases hc : (i != j && rdlOps.lt (rdlOps.add (d rdlOps t i g) (d rdlOps t g j)) (d rdlOps t i j)) = true
  · rw [if_pos hc]
    have hc' := test2_true gx gy gz hc
    change i ≠ j ∧ (dn t i g + dn t g j < dn t i j ∨ (dn t i g + dn t g j = ⊤ ∧ dn t i j = ⊤)) at hc'
    rw [r1, r2] at hc'
    obtain ⟨gnew, dnew⟩ := IR.good_add gx gy
    change _ = dn t i g + dn t g j at dnew
    rw [r1, r2] at dnew
    show LinkR M P0 f g (IR.val w) (wr rdlOps t i j (rdlOps.add (d rdlOps t i g) (d rdlOps t g j)) (p _ g j))
    refine LinkR_wr hy hfit hfitP hL hQ.shp hi hj _ _ ?_
    have hle : dn t i j ≤ M i j := by
      rcases hcur with h1 | ⟨_, _, h1⟩
      · rw [h1, r3]
      · rw [h1]; exact DlW.upd_le_old M f g (IR.val w) i j
    rcases hc'.2 with h2 | ⟨h2, h3⟩
    · left
      have himp : ImpR M f g (IR.val w) i j := lt_of_lt_of_le h2 hle
      have hne := (ne_top_of_add_lt hy hfit hfitP h2).2
      refine ⟨himp, ?_⟩
      rw [pG_congr (predsG_setDist rdlOps _ _ _ _), LinkR_pg hy hfit hfitP hL j hne]
      simp [Dl.newp, hjg]
    · right
      refine ⟨by rw [dnew]; exact h2, ?_⟩
      rcases hcur with h1 | ⟨_, _, h1⟩
      · rw [← r3, ← h1]; exact h3
      · rw [h1, hF] at h3
        exact (min_eq_top.mp h3).1
  · rw [if_neg hc]
    exact hL

theorem inner_fold_linkR {G : WM} (hG : ∀ a b, a < n → b < n → G a b = D1 M f g (IR.val w) a b)
    {i : Nat} (hi : i < n) (ci : Ci M f g (IR.val w) i ∨ Si M f g i) :
    ∀ (l : List Nat), (∀ j ∈ l, j < n ∧ (Cj M f g (IR.val w) j ∨ Sj M f g j)) →
      ∀ (S : Nat → Nat → Prop) (acc : Dl IR × List (Nat × Nat)),
      Q2 t0 M f g (IR.val w) n shp G S acc.1 → LinkR M P0 f g (IR.val w) acc.1 →
      LinkR M P0 f g (IR.val w) (l.foldl (innerF g i) acc).1 := by
  intro l
  induction l with
  | nil =>
    intro _ S acc _ hL
    exact hL
  | cons j l ih =>
    intro hl S acc hQ hL
    rw [List.foldl_cons]
    have h1 := inner_step hy hfit hG hi (hl j List.mem_cons_self).1 ci (hl j List.mem_cons_self).2 acc hQ
    have h1L := inner_linkR hy hfit hfitP hG hi (hl j List.mem_cons_self).1 ci (hl j List.mem_cons_self).2 acc hQ hL
    exact ih (fun j' hj' => hl j' (List.mem_cons_of_mem _ hj')) _ _ h1 h1L

theorem outer_fold_linkR {G : WM} (hG : ∀ a b, a < n → b < n → G a b = D1 M f g (IR.val w) a b)
    (sj : List Nat) (hsj : ∀ j ∈ sj, j < n ∧ (Cj M f g (IR.val w) j ∨ Sj M f g j)) :
    ∀ (l : List Nat), (∀ i ∈ l, i < n ∧ (Ci M f g (IR.val w) i ∨ Si M f g i)) →
      ∀ (S : Nat → Nat → Prop) (acc : Dl IR × List (Nat × Nat)),
      Q2 t0 M f g (IR.val w) n shp G S acc.1 → LinkR M P0 f g (IR.val w) acc.1 →
      LinkR M P0 f g (IR.val w) (l.foldl (fun acc i => sj.foldl (innerF g i) acc) acc).1 := by
  intro l
  induction l with
  | nil =>
    intro _ S acc _ hL
    exact hL
  | cons i l ih =>
    intro hl S acc hQ hL
    rw [List.foldl_cons]
    have h1 := inner_fold hy hfit hG (hl i List.mem_cons_self).1 (hl i List.mem_cons_self).2 sj hsj S acc hQ
    have h1L := inner_fold_linkR hy hfit hfitP hG (hl i List.mem_cons_self).1 (hl i List.mem_cons_self).2 sj hsj S acc hQ hL
    exact ih (fun i' hi' => hl i' (List.mem_cons_of_mem _ hi')) _ _ h1 h1L
end

section
variable {M : WM} {P0 : Nat → Nat → Nat} {f g : Nat} {w : IR} {n : Nat} {shp : List Nat × List Nat}
  (hy : UHyp n M f g w) (hfit : Fits n shp) (hfitP : Dl.FitsP n shp)
include hy hfit hfitP

/-- `propagate(from, to, dist)` keeps the link -/
theorem propagateEdge_linkR (s : Sat) (t : Dl IR) (hM : M = dn t) (hP0 : P0 = p t) (hn : t.nVars = n)
    (hshp : shape t = shp) (hgood : ∀ a b, a < n → b < n → IR.Good (d rdlOps t a b)) :
    LinkR M P0 f g (IR.val w) (propagateEdge rdlOps s t f g w).2 := by
  have hf := hy.hf; have hg := hy.hg; have hfg := hy.hfg
  have hfitt : Fits n (shape t) := by rw [hshp]; exact hfit
  have hL00 : LinkR M P0 f g (IR.val w) t := by
    intro a b; left; rw [hM, hP0]; exact ⟨rfl, fun _ => rfl⟩
  have hL0 : LinkR M P0 f g (IR.val w) (wr rdlOps t f g w f) := by
    refine LinkR_wr hy hfit hfitP hL00 hshp hf hg _ _ (Or.inl ⟨?_, by simp [Dl.newp]⟩)
    show M f f + _ + M g g < M f g
    rw [hy.diag f hf, hy.diag g hg, zero_add, add_zero]; exact hy.imp
  have hP0' : PP t M f g (IR.val w) n shp 0 0 (wr rdlOps t f g w f) [] [] := by
    refine ⟨by rw [nVars_wr, hn], by rw [shape_wr, hshp], ?_, ?_, ?_, by simp, by simp, by simp, by simp⟩
    · intro a b ha hb
      rw [d_wr rdlOps hfitt hf hg]
      split
      · exact hy.hw.good
      · exact hgood a b ha hb
    · intro a b hab
      rw [d_wr rdlOps hfitt hf hg, if_neg (by omega)]
    · intro a b
      rw [dn_wr hfitt hf hg]
      by_cases hab : a = f ∧ b = g
      · rw [if_pos hab, hab.1, hab.2, if_pos (by omega), D1_fg hy hfit, hy.hw.den]
      · rw [if_neg hab, if_neg (by omega), hM]
  have hnv0 : (wr rdlOps t f g w f).nVars = n := by rw [nVars_wr, hn]
  have hP1 := phase1_spec hy hfit n (wr rdlOps t f g w f) 0 (wr rdlOps t f g w f) [] [] [(f, g), (g, f)] (by omega) hP0'
  have hL1 := phase1_linkR hy hfit hfitP n (wr rdlOps t f g w f) 0 (wr rdlOps t f g w f) [] [] [(f, g), (g, f)] (by omega) hP0' hL0
  have e : ∀ m, m = (wr rdlOps t f g w f).nVars → (propagateEdge rdlOps s t f g w).2 =
      (phase2 rdlOps (phase1 rdlOps (wr rdlOps t f g w f) f g w m 0 (wr rdlOps t f g w f, [], [], [(f, g), (g, f)])).1 g
        (phase1 rdlOps (wr rdlOps t f g w f) f g w m 0 (wr rdlOps t f g w f, [], [], [(f, g), (g, f)])).2.1
        (phase1 rdlOps (wr rdlOps t f g w f) f g w m 0 (wr rdlOps t f g w f, [], [], [(f, g), (g, f)])).2.2.1
        (phase1 rdlOps (wr rdlOps t f g w f) f g w m 0 (wr rdlOps t f g w f, [], [], [(f, g), (g, f)])).2.2.2).1 := by
    intro m hm; subst hm; rfl
  have e' := e n hnv0.symm
  generalize phase1 rdlOps (wr rdlOps t f g w f) f g w n 0 (wr rdlOps t f g w f, [], [], [(f, g), (g, f)]) = r at hP1 hL1 e'
  obtain ⟨t1, si, sj, ups⟩ := r
  simp only at hP1 hL1 e'
  have hG : ∀ a b, a < n → b < n → dn t1 a b = D1 M f g (IR.val w) a b := by
    intro a b ha hb
    rw [hP1.mat]
    by_cases hcond : (b = g ∧ (a < n ∨ a = f)) ∨ (a = f ∧ b < n)
    · rw [if_pos hcond]
    · rw [if_neg hcond]
      unfold D1
      rw [if_neg (by omega), if_neg (by omega)]
  have hQ0 : Q2 t M f g (IR.val w) n shp (dn t1) (fun _ _ => False) (t1, ups).1 :=
    ⟨hP1.nv, hP1.shp, hP1.good, hP1.out, fun a b => Or.inl rfl, fun a => rfl, fun b => rfl, fun a b h => h.elim⟩
  have hQ := outer_fold_linkR hy hfit hfitP hG sj (fun j hj => hP1.sj_sub j hj)
    si (fun i hi => hP1.si_sub i hi) _ _ hQ0 hL1
  rw [← phase2_eq, ← e'] at hQ
  exact hQ

/-- the effect of `propagate(from, to, dist)` on the predecessors of finite entries -/
theorem propagateEdge_pred_specR (s : Sat) (t : Dl IR) (hM : M = dn t) (hP0 : P0 = p t) (hn : t.nVars = n)
    (hshp : shape t = shp) (hgood : ∀ a b, a < n → b < n → IR.Good (d rdlOps t a b))
    (a b : Nat) (ha : a < n) (hb : b < n) :
    (ImpR M f g (IR.val w) a b → p (propagateEdge rdlOps s t f g w).2 a b = Dl.newp P0 f g b) ∧
    (¬ ImpR M f g (IR.val w) a b → M a b ≠ ⊤ → p (propagateEdge rdlOps s t f g w).2 a b = P0 a b) := by
  have hL := propagateEdge_linkR hy hfit hfitP s t hM hP0 hn hshp hgood
  obtain ⟨_, _, _, _, hmat⟩ := propagateEdge_spec hy hfit s t hM hn hshp hgood
  have hd := hmat a b ha hb
  constructor
  · intro hi
    rcases hL a b with ⟨h1, _⟩ | ⟨_, h2⟩
    · exfalso
      rw [hd, upd_of_imp hi] at h1
      exact absurd hi (by unfold ImpR; rw [h1]; exact lt_irrefl _)
    · exact h2
  · intro hi hne
    rcases hL a b with ⟨_, h2⟩ | ⟨h1, _⟩
    · exact h2 hne
    · exact absurd h1 hi
end

/-- `propagate(from, to, dist)` does not touch `dist_constr`, `var_dists` -/
theorem propagateEdge_frameR (s : Sat) (t : Dl IR) (f g : Nat) (w : IR) :
    (propagateEdge rdlOps s t f g w).2.distConstr = t.distConstr ∧
    (propagateEdge rdlOps s t f g w).2.varDists = t.varDists := by
  refine Undo.propagateEdge_pres rdlOps (fun t' => t'.distConstr = t.distConstr ∧ t'.varDists = t.varDists)
    ?_ ?_ s t f g w ⟨rfl, rfl⟩
  · intro t' i j x h
    unfold setDist
    cases t'.layers with
    | nil => exact h
    | cons l ls => dsimp only; split <;> exact h
  · intro t' i j x h
    unfold setPred
    cases t'.layers with
    | nil => exact h
    | cons l ls => dsimp only; split <;> exact h

end DlR
end Oratio
