/-
C07N, target 3: `Net.propagate` keeps `NetInv` (the record shapes of the theory calls and the current-level
literal of theory-propagation conflicts are derived; only `lra.check` conflicts are guarded).
-/
import OratioProofs.Lemmas.NetInvA

set_option linter.unusedSimpArgs false
set_option linter.unusedVariables false

namespace Oratio
namespace Net
open Sat

/-- "a literal of the current decision level occurs in the clause" -/
def HasCurrent (s : Sat) (c : Clause) : Prop := ∃ l ∈ c, l.neg ∈ s.trail ∧ s.lvl l = s.decisionLevel

/-- along the run of `propagate n fuel`, every conflict of `lra.check` found above root level cites a
    literal of the current decision level (same recursion as `Net.propagate`) -/
def ConflictsCurrent (n : Net) : Nat → Prop
  | 0 => True
  | fuel + 1 =>
    match n.sat.queue with
    | [] =>
      match n.lra.check fuel with
      | none => True
      | some (none, _) => True
      | some (some cnfl, t) =>
        if n.sat.rootLevel then True
        else HasCurrent n.sat cnfl ∧
          match learnFrom { n with lra := t } cnfl with
          | none => True
          | some n' => ConflictsCurrent n' fuel
    | p :: q =>
      match Sat.visitWatchers { n.sat with queue := q, watches := n.sat.watches.set p.idx [] } p (n.sat.watches.getD p.idx []) with
      | (s, some id) =>
        if s.rootLevel then True
        else match learnFrom { n with sat := s } (s.clauseOf id) with
          | none => True
          | some n' => ConflictsCurrent n' fuel
      | (s, none) =>
        match theoryPropagate { n with sat := s } p with
        | (none, n') => ConflictsCurrent n' fuel
        | (some cnfl, n') =>
          if n'.sat.rootLevel then True
          else
            match learnFrom { n' with sat := { n'.sat with queue := [] } } cnfl with
            | none => True
            | some n'' => ConflictsCurrent n'' fuel

theorem NetInv.setSat {n : Net} {orig L : Cnf} {fr : List Frame} (h : NetInv n orig L fr) (s' : Sat)
    (hs : SInv (orig ++ L) orig s') (hk : AssignedKeep n.sat s') (hl : s'.trailLim = n.sat.trailLim)
    (hlen : s'.vals.length = n.sat.vals.length) :
    NetInv { n with sat := s' } orig L fr :=
  ⟨hs, h.lemmas, h.th.assign s' hk.le, FramesLv.keep hk fr h.flv, by
    show fr.length = s'.trailLim.length
    rw [hl]; exact h.flen, by
    show ThReg s'.vals.length n.lra n.idl n.rdl
    rw [hlen]; exact h.reg⟩

theorem rootLevel_iff (s : Sat) : s.rootLevel = true ↔ s.trailLim = [] := by simp [rootLevel]

theorem dl_pos_of_not_root {s : Sat} (h : ¬ s.rootLevel = true) : 0 < s.decisionLevel := by
  simp only [rootLevel, List.isEmpty_iff] at h
  exact List.length_pos_iff.2 h

/-- what `propagate` guarantees -/
structure PropOut (n n' : Net) (orig : Cnf) (b : Bool) : Prop where
  inv : ∃ L' fr', NetInv n' orig L' fr'
  queue : n'.sat.queue = []
  dead : n'.sat.dead = !b
  root : b = false → n'.sat.trailLim = []
  tm : ∀ α, TModel n' α ↔ TModel n α

theorem PropOut.trans {n n1 n' : Net} {orig : Cnf} {b : Bool} (h : PropOut n1 n' orig b) (ht : ∀ α, TModel n1 α ↔ TModel n α) :
    PropOut n n' orig b := ⟨h.inv, h.queue, h.dead, h.root, fun α => (h.tm α).trans (ht α)⟩

theorem propagate_inv {orig : Cnf} : ∀ (fuel : Nat) (n : Net) (L : Cnf) (fr : List Frame),
    NetInv n orig L fr → n.sat.dead = false → ConflictsCurrent n fuel → ∀ b n', propagate n fuel = some (b, n') →
    PropOut n n' orig b
  | 0, n, L, fr, _, _, _, b, n', he => by simp [propagate] at he
  | fuel + 1, n, L, fr, h, hd, hg, b, n', he => by
    unfold propagate at he
    unfold ConflictsCurrent at hg
    cases hq : n.sat.queue with
    | nil =>
      rw [hq] at he hg
      simp only at he hg
      cases hchk : n.lra.check fuel with
      | none => rw [hchk] at he; simp at he
      | some res =>
        obtain ⟨c, t⟩ := res
        rw [hchk] at he hg
        obtain ⟨k1, k2, k3⟩ := lraCheck_spec h.th hchk
        have hinv1 : NetInv { n with lra := t } orig L fr :=
          ⟨h.sat, fun d hd' => TEntails.congr (fun α hm => (k2 α).1 hm) (h.lemmas d hd'), k1, h.flv, h.flen,
            ⟨by
              show ∀ e ∈ t.vAsrts, e.1 < n.sat.vals.length
              rw [((Lra.C09_core_iff n.lra t).1 (Lra.C09_core_check fuel n.lra t c hchk)).2.1]; exact h.reg.lra,
             h.reg.idl, h.reg.rdl, Lra.check_good fuel n.lra t c h.reg.good hchk,
             by rw [Lra.check_aWatches h.th.base.lra.inv.tab hchk]; exact h.reg.aw,
             by rw [((Lra.C09_core_iff n.lra t).1 (Lra.C09_core_check fuel n.lra t c hchk)).2.2.2.2]; exact h.reg.sa⟩⟩
        cases c with
        | none =>
          simp only [Option.some.injEq, Prod.mk.injEq] at he
          obtain ⟨rfl, rfl⟩ := he
          exact ⟨⟨L, fr, hinv1⟩, hq, by simpa using hd, (fun e => by cases e), k2⟩
        | some cnfl =>
          simp only at he hg
          obtain ⟨c1, c2⟩ := k3 cnfl rfl
          by_cases hroot : n.sat.rootLevel = true
          · rw [if_pos hroot] at he
            simp only [Option.some.injEq, Prod.mk.injEq] at he
            obtain ⟨rfl, rfl⟩ := he
            have := hinv1.rootConflict (TEntails.cut hinv1.lemmas c1) c2 ((rootLevel_iff _).1 hroot)
            exact ⟨⟨_, _, this⟩, hq, rfl, fun _ => (rootLevel_iff _).1 hroot, k2⟩
          · rw [if_neg hroot] at he hg
            obtain ⟨g1, g2⟩ := hg
            cases hlf : learnFrom { n with lra := t } cnfl with
            | none => rw [hlf] at he; simp at he
            | some n1 =>
              rw [hlf] at he g2
              simp only at he g2
              obtain ⟨fr', l1, l2, l3, _⟩ := hinv1.learn hq (dl_pos_of_not_root hroot) (TEntails.cut hinv1.lemmas c1) c2 g1 hlf
              exact (propagate_inv fuel n1 _ fr' l1 (by rw [l2]; exact hd) g2 b n' he).trans
                (fun α => (l3 α).trans (k2 α))
    | cons p q =>
      rw [hq] at he hg
      simp only at he hg
      have hpq := h.sat.wf.a.queueOK p (by rw [hq]; exact List.mem_cons_self ..)
      -- the state with the watch list of `p` detached
      have hs0 : SInv (orig ++ L) orig { n.sat with queue := q, watches := n.sat.watches.set p.idx [] } := by
        refine ⟨h.sat.wf.setWatchesQ _ q (fun x hx => by rw [hq]; exact List.mem_cons_of_mem _ hx) ?_,
          h.sat.ent.of_eq rfl rfl rfl rfl rfl rfl, h.sat.dec⟩
        intro i id hid
        rw [getD_set] at hid
        split at hid
        · cases hid
        · exact h.sat.wf.w i id hid
      have htmp : ∀ id ∈ n.sat.watches.getD p.idx [], ∃ c, (id, c) ∈ n.sat.cls ∧ p.neg ∈ c := by
        intro id hid
        obtain ⟨c, hc, l, hl, hi⟩ := h.sat.wf.w _ id hid
        have : l.neg = p := Lit.idx_inj hi
        exact ⟨c, hc, by rw [← this, Lit.neg_neg]; exact hl⟩
      obtain ⟨v1, v2, v3, v4⟩ := visit_sound (orig := orig ++ L) (K := orig) (p := p) _ _ hs0.wf hs0.ent hpq.1 htmp
      rcases hvw : Sat.visitWatchers { n.sat with queue := q, watches := n.sat.watches.set p.idx [] } p
        (n.sat.watches.getD p.idx []) with ⟨s1, oid⟩
      rw [hvw] at he hg v1 v2 v3 v4
      simp only at v1 v2 v3 v4
      have hs1 : SInv (orig ++ L) orig s1 := ⟨v1, v2, fun m => (hs0.dec m).step v3⟩
      have hk1 : AssignedKeep n.sat s1 := assignedKeep_of_trail h.sat.wf v1.lvl0 v3.le v3.lvl
      have hinv1 : NetInv { n with sat := s1 } orig L fr := h.setSat s1 hs1 hk1 v3.frame.trailLim v3.frame.lenVals
      have hd1 : s1.dead = false := by rw [v3.frame.dead]; exact hd
      have hp1 : p ∈ s1.trail := v3.trail.subset hpq.1
      have hpl1 : s1.lvl p = s1.decisionLevel := by
        have e1 : s1.lvl p = n.sat.lvl p := v3.lvl p hpq.1
        rw [e1, hpq.2]
        show n.sat.trailLim.length = s1.trailLim.length
        rw [v3.frame.trailLim]
      cases oid with
      | some id =>
        simp only at he hg
        obtain ⟨w1, c, w2, w3, w4⟩ := v4 id rfl
        have hcl : s1.clauseOf id = c := clauseOf_of_mem' v1.ids w2
        have hT : TEntails { n with sat := s1 } orig c := tentails_of_ents' hinv1.lemmas (v2.clauses _ w2)
        by_cases hroot : s1.rootLevel = true
        · rw [if_pos hroot] at he
          simp only [Option.some.injEq, Prod.mk.injEq] at he
          obtain ⟨rfl, rfl⟩ := he
          have := hinv1.rootConflict hT w4 ((rootLevel_iff _).1 hroot)
          exact ⟨⟨_, _, this⟩, w1, rfl, fun _ => (rootLevel_iff _).1 hroot, fun _ => Iff.rfl⟩
        · rw [if_neg hroot, hcl] at he hg
          cases hlf : learnFrom { n with sat := s1 } c with
          | none => rw [hlf] at he; simp at he
          | some n1 =>
            rw [hlf] at he hg
            simp only at he hg
            obtain ⟨fr', l1, l2, l3, _⟩ := hinv1.learn w1 (dl_pos_of_not_root hroot) hT w4
              ⟨p.neg, w3, by rw [Lit.neg_neg]; exact hp1, hpl1⟩ hlf
            exact (propagate_inv fuel n1 _ fr' l1 (by rw [l2]; exact hd1) hg b n' he).trans (fun α => l3 α)
      | none =>
        simp only at he hg
        have hpv : ({ n with sat := s1 } : Net).sat.value p = some true := v1.a.value_true.2 (Or.inl hp1)
        obtain ⟨t1, t2, t3, t4, t5⟩ := theoryPropagate_spec hinv1.th p hpv
        obtain ⟨⟨new, hrecs⟩, hpc, hreg2⟩ := theoryPropagate_recs hinv1.th hinv1.reg p hpv
        rcases htp : theoryPropagate { n with sat := s1 } p with ⟨oc, n2⟩
        rw [htp] at he hg t1 t2 t3 t4 t5 hrecs hpc hreg2
        simp only at t1 t2 t3 t4 t5 hrecs hpc hreg2
        -- the SAT core after the records
        have hs1' : SInv (orig ++ (L ++ new)) orig s1 := hs1.mono_orig (fun d hd' => by
          rcases List.mem_append.1 hd' with hd' | hd'
          · exact List.mem_append_left _ hd'
          · exact List.mem_append_right _ (List.mem_append_left _ hd'))
        obtain ⟨r1, r2⟩ := hs1'.recs hrecs (fun c hc =>
          Ents.of_mem (List.mem_append_right _ (List.mem_append_right _ hc)))
        have hlemL : ∀ c ∈ L, TEntails n2 orig c := fun c hc =>
          TEntails.congr (fun α hm => (t3 α).1 hm) (hinv1.lemmas c hc)
        have hlem2 : ∀ c ∈ L ++ new, TEntails n2 orig c := by
          intro c hc
          rcases List.mem_append.1 hc with hc | hc
          · exact hlemL c hc
          · rcases t4 c (by rw [r2.log]; exact List.mem_append_right _ hc) with h' | h'
            · exact TEntails.congr (fun α hm => (t3 α).1 hm) (tentails_of_ents' hinv1.lemmas (v2.log c h'))
            · exact TEntails.cut hlemL h'
        have hinv2 : NetInv n2 orig (L ++ new) fr :=
          ⟨r1, hlem2, t1.mono_origN (fun d hd' => by
              rcases List.mem_append.1 hd' with hd' | hd'
              · exact List.mem_append_left _ hd'
              · exact List.mem_append_right _ (List.mem_append_left _ hd')), FramesLv.keep r2.keep fr hinv1.flv, by
            show fr.length = n2.sat.trailLim.length
            rw [r2.trailLim]; exact hinv1.flen, hreg2⟩
        have hd2 : n2.sat.dead = false := by rw [r2.dead]; exact hd1
        cases oc with
        | none =>
          simp only at he hg
          exact (propagate_inv fuel n2 _ fr hinv2 hd2 hg b n' he).trans (fun α => t3 α)
        | some cnfl =>
          simp only at he hg
          obtain ⟨u1, u2⟩ := t5 cnfl rfl
          have hs3 : SInv (orig ++ (L ++ new)) orig { n2.sat with queue := [] } :=
            ⟨r1.wf.queue_sub [] (fun x hx => by cases hx), r1.ent.of_eq rfl rfl rfl rfl rfl rfl, r1.dec⟩
          have hinv3 : NetInv { n2 with sat := { n2.sat with queue := [] } } orig (L ++ new) fr :=
            hinv2.setSat _ hs3 (fun v b hv => ⟨hv, rfl⟩) rfl rfl
          split at he
          · rename_i hroot'
            have hroot : n2.sat.rootLevel = true := hroot'
            simp only [Option.some.injEq, Prod.mk.injEq] at he
            obtain ⟨rfl, rfl⟩ := he
            have := hinv3.rootConflict (c := cnfl) (TEntails.cut hlemL u1) u2 ((rootLevel_iff _).1 hroot)
            exact ⟨⟨_, _, this⟩, rfl, rfl, fun _ => (rootLevel_iff _).1 hroot, fun α => t3 α⟩
          · rename_i hroot'
            have hroot : ¬ n2.sat.rootLevel = true := hroot'
            rw [if_neg hroot] at hg
            have g2 := hg
            have g1 : HasCurrent ({ n2 with sat := { n2.sat with queue := [] } } : Net).sat cnfl := by
              refine ⟨p.neg, hpc cnfl rfl, ?_, ?_⟩
              · rw [Lit.neg_neg]; exact r2.trail.subset hp1
              · have hpa : s1.vals.getD p.var none = some p.sign := value_eq_true.1 hpv
                have hk := (r2.keep p.var p.sign hpa).2
                show n2.sat.level.getD p.neg.var 0 = n2.sat.trailLim.length
                rw [show p.neg.var = p.var from rfl, hk, r2.trailLim]
                exact hpl1
            cases hlf : learnFrom { n2 with sat := { n2.sat with queue := [] } } cnfl with
            | none => rw [hlf] at he; simp at he
            | some n3 =>
              rw [hlf] at he g2
              simp only at he g2
              obtain ⟨fr', l1, l2, l3, _⟩ := hinv3.learn rfl (dl_pos_of_not_root hroot) (TEntails.cut hlemL u1) u2 g1 hlf
              exact (propagate_inv fuel n3 _ fr' l1 (by rw [l2]; exact hd2) g2 b n' he).trans
                (fun α => (l3 α).trans (t3 α))

end Net
end Oratio
