/-
C07N, target 1: the theory calls of `Net.propagate` (`theoryPropagate`, `lra.check`) return conflict
clauses and record clauses that are T-entailed by the added clauses, and keep `ThInv`; `ThInv` is
kept by `push` (inside `assume`), `pop`, `popTo` and by further SAT assignments.
-/
import OratioProofs.Lemmas.NetSoundDl
import OratioProofs.Lemmas.NetSoundLra

namespace Oratio
namespace Net
open Lra

/-! ### `TModel` only depends on the registries and on the solution set of the tableau -/

theorem TModel.congr {n n' : Net} (hl : LraSame n.lra n'.lra) (hi : n'.idl.varDists = n.idl.varDists)
    (hr : n'.rdl.varDists = n.rdl.varDists) (α : Asg) : TModel n' α ↔ TModel n α := by
  unfold TModel Dl.Agrees DlR.AgreesR
  rw [hi, hr]
  constructor
  · rintro ⟨σr, σi, σz, σq, a, b, c, d⟩
    exact ⟨σr, σi, σz, σq, (hl.1 σr σi).2 a, (asrtAgrees_congr hl.2.1 α σr σi).1 b, c, d⟩
  · rintro ⟨σr, σi, σz, σq, a, b, c, d⟩
    exact ⟨σr, σi, σz, σq, (hl.1 σr σi).1 a, (asrtAgrees_congr hl.2.1 α σr σi).2 b, c, d⟩

theorem TEntails.congr {n n' : Net} (h : ∀ α, TModel n' α → TModel n α) {F : Cnf} {c : Clause} (he : TEntails n F c) :
    TEntails n' F c := fun α h0 hF hm => he α h0 hF (h α hm)

/-! ### more SAT values -/

theorem LraBase.mono {orig : Cnf} {s s' : Sat} {t : Lra} (h : LraBase orig s t) (hs : Dl.SatLe s s') : LraBase orig s' t :=
  ⟨h.inv, h.vals, h.key, h.vars, h.just, h.reasons.mono hs⟩

theorem IdlBase.mono {s s' : Sat} {t : Dl Int} (h : IdlBase s t) (hs : Dl.SatLe s s') : IdlBase s' t :=
  ⟨h.exact, C10X_assign_pathinv s s' t h.path hs, h.sorted⟩

theorem RdlBase.mono {s s' : Sat} {t : Dl IR} (h : RdlBase s t) (hs : Dl.SatLe s s') : RdlBase s' t :=
  ⟨h.exact, h.ok, C10XR_assign_pathinv s s' t h.path hs, h.sorted, h.eps, h.epsC⟩

theorem ThBase.mono {orig : Cnf} {s s' : Sat} {l : Lra} {i : Dl Int} {r : Dl IR} (h : ThBase orig s l i r)
    (hs : Dl.SatLe s s') : ThBase orig s' l i r := ⟨h.lra.mono hs, h.idl.mono hs, h.rdl.mono hs⟩

theorem ThChain.base {orig : Cnf} {s : Sat} {l : Lra} {i : Dl Int} {r : Dl IR} {fr : List Frame}
    (h : ThChain orig s l i r fr) : ThBase orig s l i r := by
  cases fr with
  | nil => exact h
  | cons f fs => exact h.1

/-- the current states are replaced by states reached from them inside the current level -/
theorem ThChain.update {orig : Cnf} {s s' : Sat} {l l' : Lra} {i i' : Dl Int} {r r' : Dl IR} {fr : List Frame}
    (h : ThChain orig s l i r fr) (hb : ThBase orig s' l' i' r') (hs : Dl.SatLe s s')
    (hl : ∀ B, C09PopInv B l → C09PopInv B l') (hsame : LraSame l l')
    (hi : ∀ B, Undo.Lg idlOps B i → Undo.Lg idlOps B i') (hr : ∀ B, Undo.Lg rdlOps B r → Undo.Lg rdlOps B r') :
    ThChain orig s' l' i' r' fr := by
  cases fr with
  | nil => exact hb
  | cons f fs =>
    obtain ⟨_, h2, h3, h4, h5, h6, h7⟩ := h
    exact ⟨hb, hl _ h2, h3.trans hsame, hi _ h4, hr _ h5, Dl.SatLe.trans h6 hs, h7⟩

/-- the SAT core assigning more variables keeps the theory invariants -/
theorem ThInv.assign {n : Net} {orig : Cnf} {fr : List Frame} (h : ThInv n orig fr) (s' : Sat)
    (hs : Dl.SatLe n.sat s') : ThInv { n with sat := s' } orig fr :=
  ThChain.update h (h.base.mono hs) hs (fun _ hB => hB) (LraSame.refl _) (fun _ hB => hB) (fun _ hB => hB)

/-! ### `theoryPropagate` -/

theorem theoryPropagate_spec {n : Net} {orig : Cnf} {fr : List Frame} (h : ThInv n orig fr) (p : Lit)
    (hp : n.sat.value p = some true) :
    ThInv (theoryPropagate n p).2 orig fr ∧ Dl.SatLe n.sat (theoryPropagate n p).2.sat ∧
    (∀ α, TModel (theoryPropagate n p).2 α ↔ TModel n α) ∧
    (∀ c ∈ (theoryPropagate n p).2.sat.log, c ∈ n.sat.log ∨ TEntails (theoryPropagate n p).2 orig c) ∧
    (∀ cnfl, (theoryPropagate n p).1 = some cnfl →
      TEntails (theoryPropagate n p).2 orig cnfl ∧ ∀ l ∈ cnfl, (theoryPropagate n p).2.sat.value l = some false) := by
  have hb := h.base
  unfold theoryPropagate
  split
  · exact ⟨h, Dl.SatLe.refl _, fun _ => Iff.rfl, fun c hc => Or.inl hc, fun c hc => by cases hc⟩
  · -- LRA
    obtain ⟨a1, a2, a3, a4, a5, a6⟩ := lra_propagate hb.lra p hp
    have hcongr : ∀ α, TModel { n with sat := (propagateLit n.sat n.lra p).sat, lra := (propagateLit n.sat n.lra p).th } α ↔
        TModel n α := fun α => TModel.congr (n := n) (n' := { n with sat := (propagateLit n.sat n.lra p).sat, lra := (propagateLit n.sat n.lra p).th }) a3 rfl rfl α
    refine ⟨?_, a2, hcongr, ?_, ?_⟩
    · exact ThChain.update h ⟨a1, hb.idl.mono a2, hb.rdl.mono a2⟩ a2 a4 a3 (fun _ hB => hB) (fun _ hB => hB)
    · intro c hc
      by_cases hcl : c ∈ n.sat.log
      · exact Or.inl hcl
      · right
        intro α h0 ho hm
        obtain ⟨σr, σi, _, _, m1, m2, _, _⟩ := (hcongr α).1 hm
        exact ((a6 α σr σi h0 ho m1 m2).2 c hc).resolve_left hcl
    · intro cnfl hc
      refine ⟨?_, a5 cnfl hc⟩
      intro α h0 ho hm
      obtain ⟨σr, σi, _, _, m1, m2, _, _⟩ := (hcongr α).1 hm
      exact (a6 α σr σi h0 ho m1 m2).1 cnfl hc
  · -- IDL
    have hi := idl_propagate hb.idl p hp
    cases hres : Dl.propagateLit idlOps n.sat n.idl p with
    | inl cl =>
      rw [hres] at hi
      simp only at hi ⊢
      refine ⟨h, Dl.SatLe.refl _, fun _ => trivial, fun c hc => Or.inl hc, fun cnfl hc => ?_⟩
      simp only [Option.some.injEq] at hc
      subst hc
      refine ⟨?_, hi.1⟩
      intro α _ _ hm
      obtain ⟨_, _, σz, _, _, _, m3, _⟩ := hm
      exact hi.2 σz α m3
    | inr res =>
      obtain ⟨s', t'⟩ := res
      rw [hres] at hi
      simp only at hi ⊢
      obtain ⟨b1, b2, b3, b4, new, b5, b6⟩ := hi
      have hcongr : ∀ α, TModel { n with sat := s', idl := t' } α ↔ TModel n α :=
        fun α => TModel.congr (n := n) (n' := { n with sat := s', idl := t' }) (LraSame.refl _) b3 rfl α
      refine ⟨?_, b2, hcongr, ?_, fun c hc => by cases hc⟩
      · exact ThChain.update h ⟨hb.lra.mono b2, b1, hb.rdl.mono b2⟩ b2 (fun _ hB => hB) (LraSame.refl _) b4
          (fun _ hB => hB)
      · intro c hc
        rw [b5] at hc
        rcases List.mem_append.1 hc with hc | hc
        · exact Or.inl hc
        · right
          intro α _ _ hm
          obtain ⟨_, _, σz, _, _, _, m3, _⟩ := (hcongr α).1 hm
          exact b6 c hc σz α m3
  · -- RDL
    have hi := rdl_propagate hb.rdl p hp
    cases hres : Dl.propagateLit rdlOps n.sat n.rdl p with
    | inl cl =>
      rw [hres] at hi
      simp only at hi ⊢
      refine ⟨h, Dl.SatLe.refl _, fun _ => trivial, fun c hc => Or.inl hc, fun cnfl hc => ?_⟩
      simp only [Option.some.injEq] at hc
      subst hc
      refine ⟨?_, hi.1⟩
      intro α _ _ hm
      obtain ⟨_, _, _, σq, _, _, _, m4⟩ := hm
      exact hi.2 σq α m4
    | inr res =>
      obtain ⟨s', t'⟩ := res
      rw [hres] at hi
      simp only at hi ⊢
      obtain ⟨b1, b2, b3, b4, new, b5, b6⟩ := hi
      have hcongr : ∀ α, TModel { n with sat := s', rdl := t' } α ↔ TModel n α :=
        fun α => TModel.congr (n := n) (n' := { n with sat := s', rdl := t' }) (LraSame.refl _) rfl b3 α
      refine ⟨?_, b2, hcongr, ?_, fun c hc => by cases hc⟩
      · exact ThChain.update h ⟨hb.lra.mono b2, hb.idl.mono b2, b1⟩ b2 (fun _ hB => hB) (LraSame.refl _)
          (fun _ hB => hB) b4
      · intro c hc
        rw [b5] at hc
        rcases List.mem_append.1 hc with hc | hc
        · exact Or.inl hc
        · right
          intro α _ _ hm
          obtain ⟨_, _, _, σq, _, _, _, m4⟩ := (hcongr α).1 hm
          exact b6 c hc σq α m4

/-! ### `lra.check` -/

theorem lraCheck_spec {n : Net} {orig : Cnf} {fr : List Frame} (h : ThInv n orig fr) {fuel : Nat}
    {c : Option (List Lit)} {t' : Lra} (hc : n.lra.check fuel = some (c, t')) :
    ThInv { n with lra := t' } orig fr ∧ (∀ α, TModel { n with lra := t' } α ↔ TModel n α) ∧
    ∀ cnfl, c = some cnfl → TEntails { n with lra := t' } orig cnfl ∧ ∀ l ∈ cnfl, n.sat.value l = some false := by
  have hb := h.base
  obtain ⟨a1, a2, a3, a4⟩ := lra_check hb.lra hc
  have hcongr : ∀ α, TModel { n with lra := t' } α ↔ TModel n α := fun α => TModel.congr (n := n) (n' := { n with lra := t' }) a2 rfl rfl α
  refine ⟨ThChain.update h ⟨a1, hb.idl, hb.rdl⟩ (Dl.SatLe.refl _) a3 a2 (fun _ hB => hB) (fun _ hB => hB), hcongr, ?_⟩
  intro cnfl hcn
  refine ⟨?_, (a4 cnfl hcn).1⟩
  intro α h0 ho hm
  obtain ⟨σr, σi, _, _, m1, m2, _, _⟩ := (hcongr α).1 hm
  exact (a4 cnfl hcn).2 α σr σi h0 ho m1 m2

end Net
end Oratio
