/-
Helper lemmas about the model `IR` of `smt::inf_rational` (property C15).
-/
import OratioModel
import OratioProofs.Lemmas.Rational

namespace Oratio
namespace R

theorem le_zero (x : R) : R.le x zero = x.isNegativeOrZero := by
  unfold R.le zero isNegativeOrZero
  by_cases h : x.den = 1 <;> simp [h]

theorem lt_zero (x : R) : R.lt x zero = x.isNegative := by
  unfold R.lt zero isNegative
  by_cases h : x.den = 1 <;> simp [h]

theorem ge_zero (x : R) : R.ge x zero = x.isPositiveOrZero := by
  unfold R.ge zero isPositiveOrZero
  by_cases h : x.den = 1 <;> simp [h]

theorem gt_zero (x : R) : R.gt x zero = x.isPositive := by
  unfold R.gt zero isPositive
  by_cases h : x.den = 1 <;> simp [h]

theorem eq_zero {x : R} (hx : x.WF) : R.eq x zero = x.isZero := by
  rw [eq_eq_decide, Bool.eq_iff_iff]
  simp only [decide_eq_true_iff, isZero, beq_iff_eq]
  exact ⟨fun h => by rw [h]; rfl, wf_num_zero hx⟩

theorem ne_zero {x : R} (hx : x.WF) : R.ne x zero = !x.isZero := by
  rw [ne_eq_not_eq, eq_zero hx]

end R

namespace IR
open R

theorem lex_spec (a b : IR) (ha : a.WF) (hb : b.WF) :
    IR.le a b = (ERat.lt a.rat.toE b.rat.toE || (decide (a.rat.toE = b.rat.toE) && ERat.le a.inf.toE b.inf.toE)) ∧
    IR.lt a b = (ERat.lt a.rat.toE b.rat.toE || (decide (a.rat.toE = b.rat.toE) && ERat.lt a.inf.toE b.inf.toE)) ∧
    IR.ge a b = (ERat.lt b.rat.toE a.rat.toE || (decide (b.rat.toE = a.rat.toE) && ERat.le b.inf.toE a.inf.toE)) ∧
    IR.gt a b = (ERat.lt b.rat.toE a.rat.toE || (decide (b.rat.toE = a.rat.toE) && ERat.lt b.inf.toE a.inf.toE)) ∧
    IR.eq a b = decide ((a.rat.toE, a.inf.toE) = (b.rat.toE, b.inf.toE)) ∧
    IR.ne a b = !decide ((a.rat.toE, a.inf.toE) = (b.rat.toE, b.inf.toE)) := by
  obtain ⟨ha1, ha2⟩ := ha
  obtain ⟨hb1, hb2⟩ := hb
  have hcomm : decide (b.rat.toE = a.rat.toE) = decide (a.rat.toE = b.rat.toE) := by
    rw [Bool.eq_iff_iff]; simp only [decide_eq_true_iff]; exact eq_comm
  have heq : IR.eq a b = decide ((a.rat.toE, a.inf.toE) = (b.rat.toE, b.inf.toE)) := by
    unfold IR.eq
    rw [eq_spec ha1 hb1, eq_spec ha2 hb2, Bool.eq_iff_iff]
    simp [Prod.ext_iff]
  refine ⟨?_, ?_, ?_, ?_, heq, ?_⟩
  · unfold IR.le; rw [lt_spec ha1 hb1, eq_spec ha1 hb1, le_spec ha2 hb2]
  · unfold IR.lt; rw [lt_spec ha1 hb1, eq_spec ha1 hb1, lt_spec ha2 hb2]
  · unfold IR.ge; rw [gt_spec ha1 hb1, eq_spec ha1 hb1, ge_spec ha2 hb2, hcomm]
  · unfold IR.gt; rw [gt_spec ha1 hb1, eq_spec ha1 hb1, gt_spec ha2 hb2, hcomm]
  · rw [← heq]; unfold IR.ne IR.eq
    rw [ne_eq_not_eq, ne_eq_not_eq, Bool.not_and]

theorem cmp_scalar (a : IR) (r : R) (i : Int) (ha : a.WF) :
    IR.leR a r = IR.le a (IR.ofR r) ∧ IR.ltR a r = IR.lt a (IR.ofR r) ∧ IR.geR a r = IR.ge a (IR.ofR r) ∧
    IR.gtR a r = IR.gt a (IR.ofR r) ∧ IR.eqR a r = IR.eq a (IR.ofR r) ∧ IR.neR a r = IR.ne a (IR.ofR r) ∧
    IR.leI a i = IR.le a (IR.ofInt i) ∧ IR.ltI a i = IR.lt a (IR.ofInt i) ∧ IR.geI a i = IR.ge a (IR.ofInt i) ∧
    IR.gtI a i = IR.gt a (IR.ofInt i) ∧ IR.eqI a i = IR.eq a (IR.ofInt i) ∧ IR.neI a i = IR.ne a (IR.ofInt i) := by
  have h2 := ha.2
  refine ⟨?_, ?_, ?_, ?_, ?_, ?_, ?_, ?_, ?_, ?_, ?_, ?_⟩
  · simp only [IR.leR, IR.le, IR.ofR, le_zero]
  · simp only [IR.ltR, IR.lt, IR.ofR, lt_zero]
  · simp only [IR.geR, IR.ge, IR.ofR, ge_zero]
  · simp only [IR.gtR, IR.gt, IR.ofR, gt_zero]
  · simp only [IR.eqR, IR.eq, IR.ofR, eq_zero h2]
  · simp only [IR.neR, IR.ne, IR.ofR, ne_zero h2]
  · simp only [IR.leI, IR.le, IR.ofInt, le_zero, ltI_eq, eqI_eq]
  · simp only [IR.ltI, IR.lt, IR.ofInt, lt_zero, ltI_eq, eqI_eq]
  · simp only [IR.geI, IR.ge, IR.ofInt, ge_zero, gtI_eq, eqI_eq]
  · simp only [IR.gtI, IR.gt, IR.ofInt, gt_zero, gtI_eq, eqI_eq]
  · simp only [IR.eqI, IR.eq, IR.ofInt, eq_zero h2, eqI_eq]
  · simp only [IR.neI, IR.ne, IR.ofInt, ne_zero h2, neI_eq]

end IR
end Oratio
