/-
Mirror of the vocabulary of `OratioProofs/Properties/C10Rdl.lean` (which imports this file), and
the proofs of the C10R theorems in that mirrored vocabulary.  Every definition here is literally
the body of the corresponding definition of C10Rdl.lean.
-/
import OratioProofs.Lemmas.DlRdl

set_option linter.unusedSectionVars false
set_option linter.unusedVariables false

namespace Oratio
namespace DlR
open Dl

abbrev QEdge := Nat × Nat × IR

/-- mirror of `QEdge.holds` -/
def qholds (σ : Nat → QV) (e : QEdge) : Prop := σ e.2.1 - σ e.1 ≤ IR.val e.2.2
/-- mirror of `RFeasible` -/
def QFeasible (E : List QEdge) : Prop := ∃ σ : Nat → QV, ∀ e ∈ E, qholds σ e

/-- mirror of `Dl.rdist?` -/
def distOpt (t : Dl IR) (i j : Nat) : Option QV :=
  let x := Dl.d rdlOps t i j; if x.rat.den = 0 then none else some (IR.val x)

/-- mirror of `Dl.ExactR` -/
structure ExactM (E : List QEdge) (t : Dl IR) : Prop where
  size_ok : 1 ≤ t.nVars ∧ t.nVars ≤ t.dists.length ∧ (∀ r ∈ t.dists, r.length = t.dists.length) ∧
    t.preds.length = t.dists.length ∧ (∀ r ∈ t.preds, r.length = t.dists.length)
  fresh : ∀ i j, i < t.dists.length → j < t.dists.length → (t.nVars ≤ i ∨ t.nVars ≤ j) →
    Dl.d rdlOps t i j = if i = j then rdlOps.zero else rdlOps.inf
  wf : ∀ i j, i < t.nVars → j < t.nVars → IR.Good (Dl.d rdlOps t i j)
  edges_in : ∀ e ∈ E, e.1 < t.nVars ∧ e.2.1 < t.nVars ∧ IR.Fin e.2.2
  diag : ∀ i, i < t.nVars → distOpt t i i = some 0
  respects : ∀ e ∈ E, ∃ x, distOpt t e.1 e.2.1 = some x ∧ x ≤ IR.val e.2.2
  closed : ∀ i j k, i < t.nVars → j < t.nVars → k < t.nVars →
    ∀ a b, distOpt t i k = some a → distOpt t k j = some b → ∃ c, distOpt t i j = some c ∧ c ≤ a + b
  implied : ∀ i j, i < t.nVars → j < t.nVars → ∀ x, distOpt t i j = some x →
    ∀ σ : Nat → QV, (∀ e ∈ E, qholds σ e) → σ j - σ i ≤ x

/-! ### `distOpt` versus `dn` -/

theorem distOpt_some {t : Dl IR} {i j : Nat} {x : QV} : distOpt t i j = some x ↔ dn t i j = (x : WithTop QV) := by
  unfold distOpt dn IR.den
  dsimp only
  split
  · constructor
    · intro h; cases h
    · intro h; exact absurd h.symm WithTop.coe_ne_top
  · constructor
    · intro h; cases h; rfl
    · intro h; rw [WithTop.coe_eq_coe.mp h]

theorem distOpt_none {t : Dl IR} {i j : Nat} : distOpt t i j = none ↔ dn t i j = ⊤ := by
  unfold distOpt dn IR.den
  dsimp only
  split
  · exact ⟨fun _ => rfl, fun _ => rfl⟩
  · constructor
    · intro h; cases h
    · intro h; exact absurd h WithTop.coe_ne_top

/-- the ghost edges as value edges -/
def vE (E : List QEdge) : List (DlW.Edge QV) := E.map (fun e => (e.1, e.2.1, IR.val e.2.2))

theorem sat_iff (σ : Nat → QV) (E : List QEdge) : (∀ e ∈ E, qholds σ e) ↔ DlW.Sat σ (vE E) := by
  unfold DlW.Sat vE
  constructor
  · intro h e he
    obtain ⟨e0, he0, rfl⟩ := List.mem_map.mp he
    exact h e0 he0
  · intro h e he
    exact h (e.1, e.2.1, IR.val e.2.2) (List.mem_map.mpr ⟨e, he, rfl⟩)

theorem vE_cons (a b : Nat) (w : IR) (E : List QEdge) : vE ((a, b, w) :: E) = (a, b, IR.val w) :: vE E := rfl

/-- size condition in terms of the shape -/
def SizeOk (nv : Nat) (shp : List Nat × List Nat) : Prop :=
  1 ≤ nv ∧ nv ≤ shp.1.length ∧ (∀ l ∈ shp.1, l = shp.1.length) ∧ shp.2.length = shp.1.length ∧ (∀ l ∈ shp.2, l = shp.1.length)

theorem sizeOk_iff (t : Dl IR) :
    (1 ≤ t.nVars ∧ t.nVars ≤ t.dists.length ∧ (∀ r ∈ t.dists, r.length = t.dists.length) ∧
      t.preds.length = t.dists.length ∧ (∀ r ∈ t.preds, r.length = t.dists.length)) ↔ SizeOk t.nVars (shape t) := by
  simp [SizeOk, shape]

theorem SizeOk.fits {nv : Nat} {shp : List Nat × List Nat} (h : SizeOk nv shp) : Fits nv shp := by
  obtain ⟨_, h2, h3, _, _⟩ := h
  exact ⟨h2, fun l hl => by rw [h3 l hl]; exact h2⟩

theorem ExactM.weak {E : List QEdge} {t : Dl IR} (h : ExactM E t) : DlW.Weak t.nVars (vE E) (dn t) := by
  refine ⟨?_, ?_, ?_, ?_, ?_⟩
  · intro e he
    obtain ⟨e0, he0, rfl⟩ := List.mem_map.mp he
    exact ⟨(h.edges_in e0 he0).1, (h.edges_in e0 he0).2.1⟩
  · intro i hi
    exact distOpt_some.mp (h.diag i hi)
  · intro e he
    obtain ⟨e0, he0, rfl⟩ := List.mem_map.mp he
    obtain ⟨x, hx, hle⟩ := h.respects e0 he0
    show dn t e0.1 e0.2.1 ≤ _
    rw [distOpt_some.mp hx]; exact_mod_cast hle
  · intro i j k hi hj hk
    cases h1 : dn t i k with
    | top => rw [WithTop.top_add]; exact le_top
    | coe a =>
      cases h2 : dn t k j with
      | top => rw [WithTop.add_top]; exact le_top
      | coe b =>
        obtain ⟨c, hc, hle⟩ := h.closed i j k hi hj hk a b (distOpt_some.mpr h1) (distOpt_some.mpr h2)
        rw [distOpt_some.mp hc, ← WithTop.coe_add]; exact_mod_cast hle
  · intro i j hi hj σ hσ
    cases h1 : dn t i j with
    | top => exact le_top
    | coe x =>
      have := h.implied i j hi hj x (distOpt_some.mpr h1) σ ((sat_iff σ E).mpr hσ)
      exact_mod_cast this

/-- rebuild `ExactM` from the matrix-level facts -/
theorem ExactM.of_weak {E : List QEdge} {t : Dl IR}
    (hs : SizeOk t.nVars (shape t))
    (hfresh : ∀ i j, i < t.dists.length → j < t.dists.length → (t.nVars ≤ i ∨ t.nVars ≤ j) →
      Dl.d rdlOps t i j = if i = j then rdlOps.zero else rdlOps.inf)
    (hgood : ∀ i j, i < t.nVars → j < t.nVars → IR.Good (Dl.d rdlOps t i j))
    (hE : ∀ e ∈ E, IR.Fin e.2.2)
    (h : DlW.Weak t.nVars (vE E) (dn t)) : ExactM E t := by
  have hin : ∀ e ∈ E, e.1 < t.nVars ∧ e.2.1 < t.nVars := by
    intro e he
    exact h.edges_in (e.1, e.2.1, IR.val e.2.2) (List.mem_map.mpr ⟨e, he, rfl⟩)
  refine ⟨(sizeOk_iff t).mpr hs, hfresh, hgood, ?_, ?_, ?_, ?_, ?_⟩
  · intro e he; exact ⟨(hin e he).1, (hin e he).2, hE e he⟩
  · intro i hi
    exact distOpt_some.mpr (h.diag i hi)
  · intro e he
    have hr := h.respects (e.1, e.2.1, IR.val e.2.2) (List.mem_map.mpr ⟨e, he, rfl⟩)
    change dn t e.1 e.2.1 ≤ _ at hr
    cases h1 : dn t e.1 e.2.1 with
    | top => rw [h1] at hr; exact absurd (top_le_iff.mp hr) WithTop.coe_ne_top
    | coe x => rw [h1] at hr; exact ⟨x, distOpt_some.mpr h1, by exact_mod_cast hr⟩
  · intro i j k hi hj hk a b ha hb
    have hc := h.closed i j k hi hj hk
    rw [distOpt_some.mp ha, distOpt_some.mp hb, ← WithTop.coe_add] at hc
    cases h1 : dn t i j with
    | top => rw [h1] at hc; exact absurd (top_le_iff.mp hc) WithTop.coe_ne_top
    | coe c => rw [h1] at hc; exact ⟨c, distOpt_some.mpr h1, by exact_mod_cast hc⟩
  · intro i j hi hj x hx σ hσ
    have := h.implied i j hi hj σ ((sat_iff σ E).mp hσ)
    rw [distOpt_some.mp hx] at this
    exact_mod_cast this

/-! ## what exactness means -/

theorem tight_witness (E : List QEdge) (t : Dl IR) (h : ExactM E t) (i j : Nat)
    (hi : i < t.nVars) (hj : j < t.nVars) (x : QV) (hx : distOpt t i j = some x)
    (_hreach : ∀ k, k < t.nVars → distOpt t i k ≠ none) :
    ∃ σ : Nat → QV, (∀ e ∈ E, qholds σ e) ∧ σ j - σ i = x := by
  have hw := h.weak
  obtain ⟨L, _, hL⟩ := DlW.exists_L t.nVars (dn t) i 0
  obtain ⟨σ, hσ, hσf, _⟩ := DlW.witness hw i hi L hL
  refine ⟨σ, (sat_iff σ E).mpr hσ, ?_⟩
  rw [hσf j hj x (distOpt_some.mp hx), hσf i hi 0 (by rw [hw.diag i hi]; rfl), sub_zero]

theorem infinite_means_unbounded (E : List QEdge) (t : Dl IR) (h : ExactM E t) (i j : Nat)
    (hi : i < t.nVars) (hj : j < t.nVars) (hx : distOpt t i j = none) (B : QV) :
    ∃ σ : Nat → QV, (∀ e ∈ E, qholds σ e) ∧ σ j - σ i > B := by
  have hw := h.weak
  obtain ⟨L, hL0, hL⟩ := DlW.exists_L t.nVars (dn t) i (B - DlW.potv (dn t) j t.nVars + QV.eps)
  obtain ⟨σ, hσ, hσf, hσi⟩ := DlW.witness hw i hi L hL
  refine ⟨σ, (sat_iff σ E).mpr hσ, ?_⟩
  rw [hσi j hj (distOpt_none.mp hx), hσf i hi 0 (by rw [hw.diag i hi]; rfl), sub_zero]
  have he := QV.eps_pos
  show B < L + DlW.potv (dn t) j t.nVars
  calc B < B + QV.eps := lt_add_of_pos_right B he
    _ = (B - DlW.potv (dn t) j t.nVars + QV.eps) + DlW.potv (dn t) j t.nVars := by abel
    _ ≤ L + DlW.potv (dn t) j t.nVars := add_le_add hL0 le_rfl

theorem exact_feasible (E : List QEdge) (t : Dl IR) (h : ExactM E t) : QFeasible E :=
  ⟨fun k => DlW.potv (dn t) k t.nVars, (sat_iff _ E).mpr (DlW.feasible0 h.weak)⟩

/-! ## construction and growth -/

theorem d_init (n i j : Nat) (hi : i < n) (hj : j < n) :
    d rdlOps (init rdlOps n) i j = if i = j then rdlOps.zero else rdlOps.inf := by
  rw [d_eq]
  simp [init, initDists, List.getD_eq_getElem?_getD, hi, hj]

theorem d_resize (t : Dl IR) (N a b : Nat) (ha : a < N) (hb : b < N) :
    d rdlOps (resize rdlOps t N) a b =
      if a < t.dists.length ∧ b < t.dists.length then d rdlOps t a b else if a = b then rdlOps.zero else rdlOps.inf := by
  rw [d_eq]
  simp [resize, List.getD_eq_getElem?_getD, ha, hb]

theorem sizeOk_resize (t : Dl IR) (N nv : Nat) (h1 : 1 ≤ nv) (h2 : nv ≤ N) :
    SizeOk nv (shape (resize rdlOps t N)) := by
  simp [SizeOk, shape, resize, h1, h2]

theorem sizeOk_init : SizeOk 1 (shape (init rdlOps 16 : Dl IR)) := by
  simp [SizeOk, shape, init, initDists, initPreds]

theorem good_fresh (i j : Nat) : IR.Good (if i = j then rdlOps.zero else rdlOps.inf) := by
  split
  · exact IR.fin_zero.good
  · exact IR.good_inf

theorem den_fresh (i j : Nat) : IR.den (if i = j then rdlOps.zero else rdlOps.inf) = if i = j then 0 else ⊤ := by
  split
  · exact IR.den_zero
  · exact IR.den_inf

theorem init_exact : ExactM [] (init rdlOps 16 : Dl IR) := by
  have hlen : (init rdlOps 16 : Dl IR).dists.length = 16 := by simp [init, initDists]
  have h00 : dn (init rdlOps 16) 0 0 = 0 := by
    unfold dn; rw [d_init 16 0 0 (by omega) (by omega), if_pos rfl]; exact IR.den_zero
  apply ExactM.of_weak
  · exact sizeOk_init
  · intro i j hi hj _
    rw [hlen] at hi hj
    exact d_init 16 i j hi hj
  · intro i j hi hj
    have hi' : i < 1 := hi
    have hj' : j < 1 := hj
    rw [d_init 16 i j (by omega) (by omega)]
    exact good_fresh i j
  · intro e he; cases he
  · show DlW.Weak 1 (vE []) (dn (init rdlOps 16))
    refine ⟨?_, ?_, ?_, ?_, ?_⟩
    · intro e he; cases he
    · intro i hi
      have : i = 0 := by omega
      subst this; exact h00
    · intro e he; cases he
    · intro i j k hi hj hk
      have : i = 0 := by omega
      have : j = 0 := by omega
      have : k = 0 := by omega
      subst_vars; rw [h00]; simp
    · intro i j hi hj σ _
      have : i = 0 := by omega
      have : j = 0 := by omega
      subst_vars; rw [h00]; simp

theorem newVar_exact (E : List QEdge) (t : Dl IR) (h : ExactM E t) :
    ExactM E (newVar rdlOps t).2 ∧ (newVar rdlOps t).1 = t.nVars := by
  have hs : SizeOk t.nVars (shape t) := (sizeOk_iff t).mp h.size_ok
  obtain ⟨s1, s2, s3, s4, s5⟩ := h.size_ok
  have hw0 := h.weak
  have hEf : ∀ e ∈ E, IR.Fin e.2.2 := fun e he => (h.edges_in e he).2.2
  unfold newVar
  dsimp only
  split
  · rename_i hlen
    refine ⟨?_, rfl⟩
    have hlen' : t.dists.length = t.nVars := hlen
    have hN : t.nVars + 1 ≤ t.dists.length * 3 / 2 + 1 := by omega
    have hres : ∀ a b, a < t.nVars + 1 → b < t.nVars + 1 →
        d rdlOps (resize rdlOps { t with nVars := t.nVars + 1 } (t.dists.length * 3 / 2 + 1)) a b =
          if a < t.nVars ∧ b < t.nVars then d rdlOps t a b else if a = b then rdlOps.zero else rdlOps.inf := by
      intro a b ha hb
      rw [d_resize _ _ a b (by omega) (by omega)]
      show (if a < t.dists.length ∧ b < t.dists.length then d rdlOps t a b else _) = _
      rw [hlen']
    apply ExactM.of_weak
    · exact sizeOk_resize _ _ (t.nVars + 1) (by omega) hN
    · intro i j hi hj hout
      have hl : (resize rdlOps { t with nVars := t.nVars + 1 } (t.dists.length * 3 / 2 + 1)).dists.length
          = t.dists.length * 3 / 2 + 1 := by simp [resize]
      rw [hl] at hi hj
      rw [d_resize _ _ i j hi hj]
      have hout' : t.nVars + 1 ≤ i ∨ t.nVars + 1 ≤ j := hout
      rw [if_neg (by show ¬ (i < t.dists.length ∧ j < t.dists.length); omega)]
    · intro i j hi hj
      have hi' : i < t.nVars + 1 := hi
      have hj' : j < t.nVars + 1 := hj
      rw [hres i j hi' hj']
      split
      · rename_i hc; exact h.wf i j hc.1 hc.2
      · exact good_fresh i j
    · exact hEf
    · show DlW.Weak (t.nVars + 1) _ _
      apply hw0.extend
      · intro a b ha hb
        unfold dn
        rw [hres a b (by omega) (by omega), if_pos ⟨ha, hb⟩]
      · intro a b ha hb hab
        unfold dn
        rw [hres a b ha hb, if_neg (by omega)]
        exact den_fresh a b
  · rename_i hlen
    have hlen' : t.dists.length ≠ t.nVars := hlen
    refine ⟨?_, rfl⟩
    apply ExactM.of_weak
    · show SizeOk (t.nVars + 1) (shape t)
      obtain ⟨a1, a2, a3, a4, a5⟩ := hs
      refine ⟨by omega, ?_, a3, a4, a5⟩
      have : (shape t).1.length = t.dists.length := by simp [shape]
      omega
    · intro i j hi hj hout
      have hout' : t.nVars + 1 ≤ i ∨ t.nVars + 1 ≤ j := hout
      exact h.fresh i j hi hj (by omega)
    · intro i j hi hj
      have hi' : i < t.nVars + 1 := hi
      have hj' : j < t.nVars + 1 := hj
      show IR.Good (d rdlOps t i j)
      by_cases hc : i < t.nVars ∧ j < t.nVars
      · exact h.wf i j hc.1 hc.2
      · rw [h.fresh i j (by omega) (by omega) (by omega)]
        exact good_fresh i j
    · exact hEf
    · show DlW.Weak (t.nVars + 1) _ (dn t)
      apply hw0.extend
      · intro a b _ _; rfl
      · intro a b ha hb hab
        unfold dn
        rw [h.fresh a b (by omega) (by omega) (by omega)]
        exact den_fresh a b

/-! ## helpers on values -/

theorem wt_lt_neg_iff (a : WithTop QV) (w : QV) : a < ((-w : QV) : WithTop QV) ↔ a + (w : WithTop QV) < 0 := by
  have := wt_lt_add_neg_iff a 0 w
  rwa [zero_add] at this

theorem distOpt_congr {t t' : Dl IR} {i j i' j' : Nat} (h : dn t' i' j' = dn t i j) : distOpt t' i' j' = distOpt t i j := by
  cases h1 : dn t i j with
  | top => rw [distOpt_none.mpr h1, distOpt_none.mpr (h.trans h1)]
  | coe x => rw [distOpt_some.mpr h1, distOpt_some.mpr (h.trans h1)]

/-- values whose ε parts differ by an integer: `≤ v` is `< v + ε` -/
theorem QV.int_step (u v : QV) (k : ℤ) (h : (ofLex u).2 - (ofLex v).2 = (k : ℚ)) : u ≤ v ↔ u < v + QV.eps := by
  obtain ⟨a, m⟩ := u
  obtain ⟨b, n⟩ := v
  show (toLex (a, m) : QV) ≤ toLex (b, n) ↔ (toLex (a, m) : QV) < toLex (b + 0, n + 1)
  rw [QV.le_iff, QV.lt_iff]
  change m - n = (k : ℚ) at h
  have : m ≤ n ↔ m < n + 1 := by
    have hm : m = n + k := by linarith
    subst hm
    constructor
    · intro h; linarith
    · intro h
      have : (k : ℚ) < 1 := by linarith
      have : k < 1 := by exact_mod_cast this
      have : k ≤ 0 := by omega
      have : (k : ℚ) ≤ 0 := by exact_mod_cast this
      linarith
  rw [add_zero, this]

theorem toRat_den_one {r : R} (h : R.FinWF r) (hd : r.den = 1) : r.toRat = (r.num : ℚ) := by
  rw [R.toRat_eq h.1.1, hd]; simp

theorem val_int_diff {x y : IR} (hx : R.FinWF x.inf) (hy : R.FinWF y.inf) (h1 : x.inf.den = 1) (h2 : y.inf.den = 1) :
    (ofLex (IR.val x)).2 - (ofLex (IR.val y)).2 = ((x.inf.num - y.inf.num : ℤ) : ℚ) := by
  show x.inf.toRat - y.inf.toRat = _
  rw [toRat_den_one hx h1, toRat_den_one hy h2]; push_cast; rfl

/-! ## `new_distance` -/

theorem new_distance_shortcut_valid (E : List QEdge) (s : Sat) (t : Dl IR) (h : ExactM E t)
    (f g : Nat) (w : IR) (hf : f < t.nVars) (hg : g < t.nVars) (hw : IR.Fin w) (hs : 0 < s.vals.length) :
    ((newDistance rdlOps s t f g w).1 = Lit.trueLit → ∀ σ : Nat → QV, (∀ e ∈ E, qholds σ e) → qholds σ (f, g, w)) ∧
    ((newDistance rdlOps s t f g w).1 = Lit.falseLit → ∀ σ : Nat → QV, (∀ e ∈ E, qholds σ e) → ¬ qholds σ (f, g, w)) := by
  have hw0 := h.weak
  have hn := IR.fin_neg hw
  have e1 : (rdlOps.lt (d rdlOps t g f) (rdlOps.neg w) = true) ↔ dn t g f + ((IR.val w : QV) : WithTop QV) < 0 := by
    rw [IR.lt_den (h.wf g f hg hf) hn.1.good (Or.inr (by rw [hn.1.den]; exact WithTop.coe_ne_top)), hn.1.den, hn.2,
      wt_lt_neg_iff]; rfl
  have e2 : (rdlOps.le (d rdlOps t f g) w = true) ↔ dn t f g ≤ ((IR.val w : QV) : WithTop QV) := by
    rw [IR.le_den (h.wf f g hf hg) hw.good (Or.inr (by rw [hw.den]; exact WithTop.coe_ne_top)), hw.den]; rfl
  unfold newDistance
  by_cases c1 : rdlOps.lt (d rdlOps t g f) (rdlOps.neg w) = true
  · rw [if_pos c1]
    constructor
    · intro hh; exact absurd (show Lit.falseLit = Lit.trueLit from hh) (by decide)
    · intro _ σ hσ hcon
      have c1' := e1.mp c1
      cases hx : dn t g f with
      | top => rw [hx, WithTop.top_add] at c1'; exact absurd c1' (not_lt.mpr le_top)
      | coe x =>
        rw [hx, ← WithTop.coe_add] at c1'
        have c2 : x + IR.val w < 0 := by exact_mod_cast c1'
        have h1 := hw0.implied g f hg hf σ ((sat_iff σ E).mp hσ)
        rw [hx] at h1
        have h1' : σ f - σ g ≤ x := by exact_mod_cast h1
        have hcon' : σ g - σ f ≤ IR.val w := hcon
        grind
  · rw [if_neg c1]
    by_cases c2 : rdlOps.le (d rdlOps t f g) w = true
    · rw [if_pos c2]
      constructor
      · intro _ σ hσ
        have c2' := e2.mp c2
        have h1 := hw0.implied f g hf hg σ ((sat_iff σ E).mp hσ)
        have h2 := le_trans h1 c2'
        show σ g - σ f ≤ IR.val w
        exact_mod_cast h2
      · intro hh; exact absurd (show Lit.trueLit = Lit.falseLit from hh) (by decide)
    · rw [if_neg c2]
      constructor
      · intro hh
        have : true = false := congrArg Lit.sign hh
        cases this
      · intro hh
        have := congrArg Lit.var hh
        have hv : s.vals.length = 0 := this
        omega

/-! ## the incremental update -/

theorem ExactM.uhyp {E : List QEdge} {t : Dl IR} (h : ExactM E t)
    {f g : Nat} {w : IR} (hf : f < t.nVars) (hg : g < t.nVars) (hfg : f ≠ g) (hw : IR.Fin w)
    (hnocycle : ∀ x, distOpt t g f = some x → 0 ≤ x + IR.val w)
    (himproves : ∀ x, distOpt t f g = some x → IR.val w < x) :
    UHyp t.nVars (dn t) f g w := by
  have hw0 := h.weak
  refine ⟨hf, hg, hfg, hw, hw0.diag, hw0.closed, ?_, ?_⟩
  · cases hc : dn t g f with
    | top => rw [WithTop.top_add]; exact le_top
    | coe x =>
      have := hnocycle x (distOpt_some.mpr hc)
      rw [← WithTop.coe_add]; exact_mod_cast this
  · cases hc : dn t f g with
    | top => exact WithTop.coe_lt_top _
    | coe x =>
      have := himproves x (distOpt_some.mpr hc)
      exact_mod_cast this

theorem update_closed_form (E : List QEdge) (s : Sat) (t : Dl IR) (h : ExactM E t)
    (f g : Nat) (w : IR) (hf : f < t.nVars) (hg : g < t.nVars) (hfg : f ≠ g) (hw : IR.Fin w)
    (hnocycle : ∀ x, distOpt t g f = some x → 0 ≤ x + IR.val w)
    (himproves : ∀ x, distOpt t f g = some x → IR.val w < x) :
    let t' := (Dl.propagateEdge rdlOps s t f g w).2
    ExactM ((f, g, w) :: E) t' ∧ t'.nVars = t.nVars ∧
    ∀ i j, i < t.nVars → j < t.nVars →
      distOpt t' i j =
        (match distOpt t i f, distOpt t g j with
         | some a, some b => match distOpt t i j with
           | some c => some (min c (a + IR.val w + b))
           | none => some (a + IR.val w + b)
         | _, _ => distOpt t i j) := by
  intro t'
  have hy := h.uhyp hf hg hfg hw hnocycle himproves
  have hs : SizeOk t.nVars (shape t) := (sizeOk_iff t).mp h.size_ok
  obtain ⟨hnv, hshp, hgood, hout, hmat⟩ := propagateEdge_spec hy hs.fits s t rfl rfl rfl h.wf
  have hw0 := h.weak
  have hwk : DlW.Weak t.nVars (vE ((f, g, w) :: E)) (DlW.upd (dn t) f g (IR.val w)) := by
    rw [vE_cons]; exact DlW.update_weak hw0 hf hg hy.cyc
  have hwk' : DlW.Weak t'.nVars (vE ((f, g, w) :: E)) (dn t') := by
    show DlW.Weak (propagateEdge rdlOps s t f g w).2.nVars _ _
    rw [hnv]
    exact hwk.congr (fun a b ha hb => hmat a b ha hb)
  have hlen : t'.dists.length = t.dists.length := by
    have := congrArg (fun p => p.1.length) hshp
    simpa [shape] using this
  refine ⟨?_, hnv, ?_⟩
  · apply ExactM.of_weak
    · show SizeOk (propagateEdge rdlOps s t f g w).2.nVars (shape (propagateEdge rdlOps s t f g w).2)
      rw [hnv, hshp]; exact hs
    · intro i j hi hj hout'
      rw [hlen] at hi hj
      show d rdlOps (propagateEdge rdlOps s t f g w).2 i j = _
      have hout'' : t.nVars ≤ i ∨ t.nVars ≤ j := by
        have : (propagateEdge rdlOps s t f g w).2.nVars = t.nVars := hnv
        rw [← this]; exact hout'
      rw [hout i j (by omega)]
      exact h.fresh i j hi hj hout''
    · intro i j hi hj
      have hi' : i < t.nVars := by rw [← hnv]; exact hi
      have hj' : j < t.nVars := by rw [← hnv]; exact hj
      exact hgood i j hi' hj'
    · intro e he
      rcases List.mem_cons.mp he with rfl | he
      · exact hw
      · exact (h.edges_in e he).2.2
    · exact hwk'
  · intro i j hi hj
    have hd : dn t' i j = min (dn t i j) (dn t i f + ((IR.val w : QV) : WithTop QV) + dn t g j) := hmat i j hi hj
    cases h1 : dn t i f with
    | top =>
      rw [distOpt_none.mpr h1]
      rw [h1, WithTop.top_add, WithTop.top_add, min_eq_left le_top] at hd
      exact distOpt_congr hd
    | coe a =>
      cases h2 : dn t g j with
      | top =>
        rw [distOpt_none.mpr h2, distOpt_some.mpr h1]
        rw [h2, WithTop.add_top, min_eq_left le_top] at hd
        exact distOpt_congr hd
      | coe b =>
        rw [distOpt_some.mpr h1, distOpt_some.mpr h2]
        rw [h1, h2, ← WithTop.coe_add, ← WithTop.coe_add] at hd
        cases h3 : dn t i j with
        | top =>
          rw [distOpt_none.mpr h3]
          rw [h3, min_eq_right le_top] at hd
          exact distOpt_some.mpr hd
        | coe c =>
          rw [distOpt_some.mpr h3]
          rw [h3, ← WithTop.coe_min] at hd
          exact distOpt_some.mpr hd
/-! ## conflicts -/

/-- the state on which `propagate(lit)` runs the matrix update -/
def armed (t : Dl IR) (k : Nat × Nat) (b : Nat) : Dl IR :=
  { saveConstr t k with distConstr := assignPair (saveConstr t k).distConstr k b }

theorem saveConstr_same (t : Dl IR) (k : Nat × Nat) :
    (saveConstr t k).nVars = t.nVars ∧ (saveConstr t k).dists = t.dists ∧ (saveConstr t k).preds = t.preds := by
  unfold saveConstr
  cases t.layers with
  | nil => exact ⟨rfl, rfl, rfl⟩
  | cons l ls => dsimp only; split <;> exact ⟨rfl, rfl, rfl⟩

theorem armed_same (t : Dl IR) (k : Nat × Nat) (b : Nat) :
    (armed t k b).nVars = t.nVars ∧ (armed t k b).dists = t.dists ∧ (armed t k b).preds = t.preds :=
  saveConstr_same t k

theorem propagateLit_true (s : Sat) (t : Dl IR) (c : DConstr IR) (hc : t.constrOf c.b = some c)
    (hv : s.value ⟨c.b, true⟩ = some true) :
    propagateLit rdlOps s t ⟨c.b, true⟩ =
      if rdlOps.lt (d rdlOps t c.dst c.src) (rdlOps.neg c.dist) = true then
        .inl (walk s t c.dst t.nVars c.src [] ++ [(⟨c.b, true⟩ : Lit).neg])
      else if rdlOps.lt c.dist (d rdlOps t c.src c.dst) = true then
        .inr (propagateEdge rdlOps s (armed t (c.src, c.dst) c.b) c.src c.dst c.dist)
      else .inr (s, t) := by
  simp only [propagateLit, hc, hv]
  rfl

theorem propagateLit_false (s : Sat) (t : Dl IR) (c : DConstr IR) (hc : t.constrOf c.b = some c)
    (hv : s.value ⟨c.b, true⟩ = some false) :
    propagateLit rdlOps s t ⟨c.b, false⟩ =
      if rdlOps.le (d rdlOps t c.src c.dst) c.dist = true then
        .inl (walk s t c.src t.nVars c.dst [] ++ [(⟨c.b, false⟩ : Lit).neg])
      else if rdlOps.le (rdlOps.neg c.dist) (d rdlOps t c.dst c.src) = true then
        .inr (propagateEdge rdlOps s (armed t (c.dst, c.src) c.b) c.dst c.src (rdlOps.negStrict c.dist))
      else .inr (s, t) := by
  simp only [propagateLit, hc, hv]
  rfl

/-- the four tests of `propagate(lit)` on denoted values -/
theorem lt_neg_iff {x w : IR} (hx : IR.Good x) (hw : IR.Fin w) :
    rdlOps.lt x (rdlOps.neg w) = true ↔ IR.den x + ((IR.val w : QV) : WithTop QV) < 0 := by
  have hn := IR.fin_neg hw
  rw [IR.lt_den hx hn.1.good (Or.inr (by rw [hn.1.den]; exact WithTop.coe_ne_top)), hn.1.den, hn.2, wt_lt_neg_iff]

theorem lt_w_iff {x w : IR} (hx : IR.Good x) (hw : IR.Fin w) :
    rdlOps.lt w x = true ↔ ((IR.val w : QV) : WithTop QV) < IR.den x := by
  rw [IR.lt_den hw.good hx (Or.inl (by rw [hw.den]; exact WithTop.coe_ne_top)), hw.den]

theorem le_w_iff {x w : IR} (hx : IR.Good x) (hw : IR.Fin w) :
    rdlOps.le x w = true ↔ IR.den x ≤ ((IR.val w : QV) : WithTop QV) := by
  rw [IR.le_den hx hw.good (Or.inr (by rw [hw.den]; exact WithTop.coe_ne_top)), hw.den]

theorem le_neg_iff {x w : IR} (hx : IR.Good x) (hw : IR.Fin w) :
    rdlOps.le (rdlOps.neg w) x = true ↔ ((-IR.val w : QV) : WithTop QV) ≤ IR.den x := by
  have hn := IR.fin_neg hw
  rw [IR.le_den hn.1.good hx (Or.inl (by rw [hn.1.den]; exact WithTop.coe_ne_top)), hn.1.den, hn.2]

/-- `ExactM` only looks at `nVars`, `dists`, `preds` -/
theorem ExactM.congr_state {E : List QEdge} {t t2 : Dl IR} (h : ExactM E t)
    (h1 : t2.nVars = t.nVars) (h2 : t2.dists = t.dists) (h3 : t2.preds = t.preds) : ExactM E t2 := by
  have hd : d rdlOps t2 = d rdlOps t := by funext a b; exact d_congr rdlOps h2 a b
  have hdn : dn t2 = dn t := by funext a b; unfold dn; rw [hd]
  have hshape : shape t2 = shape t := by simp only [shape, h2, h3]
  apply ExactM.of_weak
  · rw [h1, hshape]; exact (sizeOk_iff t).mp h.size_ok
  · rw [h1, h2, hd]; exact h.fresh
  · rw [h1, hd]; exact h.wf
  · exact fun e he => (h.edges_in e he).2.2
  · rw [h1, hdn]; exact h.weak

/-- a redundant edge can be added to the ghost edge set -/
theorem ExactM.add_redundant {E : List QEdge} {t : Dl IR} (h : ExactM E t)
    {a b : Nat} {w : IR} (ha : a < t.nVars) (hb : b < t.nVars) (hw : IR.Fin w)
    (hle : dn t a b ≤ ((IR.val w : QV) : WithTop QV)) : ExactM ((a, b, w) :: E) t := by
  refine ⟨h.size_ok, h.fresh, h.wf, ?_, h.diag, ?_, h.closed, ?_⟩
  · intro e he
    rcases List.mem_cons.mp he with rfl | he
    · exact ⟨ha, hb, hw⟩
    · exact h.edges_in e he
  · intro e he
    rcases List.mem_cons.mp he with rfl | he
    · show ∃ x, distOpt t a b = some x ∧ x ≤ IR.val w
      cases h1 : dn t a b with
      | top => rw [h1] at hle; exact absurd (top_le_iff.mp hle) WithTop.coe_ne_top
      | coe x => rw [h1] at hle; exact ⟨x, distOpt_some.mpr h1, by exact_mod_cast hle⟩
    · exact h.respects e he
  · intro i j hi hj x hx σ hσ
    exact h.implied i j hi hj x hx σ (fun e he => hσ e (List.mem_cons_of_mem _ he))

theorem infeasible_iff (E : List QEdge) (t : Dl IR) (h : ExactM E t)
    {a b : Nat} {w : IR} (ha : a < t.nVars) (hb : b < t.nVars) (hab : a ≠ b) (hw : IR.Fin w) :
    ¬ QFeasible ((a, b, w) :: E) ↔ dn t b a + ((IR.val w : QV) : WithTop QV) < 0 := by
  have hw0 := h.weak
  constructor
  · intro hinf
    by_contra hcon
    apply hinf
    have hcyc : 0 ≤ dn t b a + ((IR.val w : QV) : WithTop QV) := not_lt.mp hcon
    by_cases himp : ((IR.val w : QV) : WithTop QV) < dn t a b
    · have r := update_closed_form E Sat.init t h a b w ha hb hab hw
        (by
          intro x hx
          rw [distOpt_some.mp hx, ← WithTop.coe_add] at hcyc
          exact_mod_cast hcyc)
        (by
          intro x hx
          rw [distOpt_some.mp hx] at himp
          exact_mod_cast himp)
      exact exact_feasible _ _ r.1
    · exact exact_feasible _ _ (h.add_redundant ha hb hw (not_lt.mp himp))
  · rintro hlt ⟨σ, hσ⟩
    cases hx : dn t b a with
    | top => rw [hx, WithTop.top_add] at hlt; exact absurd hlt (not_lt.mpr le_top)
    | coe x =>
      rw [hx, ← WithTop.coe_add] at hlt
      have c2 : x + IR.val w < 0 := by exact_mod_cast hlt
      have h1 := hw0.implied b a hb ha σ ((sat_iff σ E).mp (fun e he => hσ e (List.mem_cons_of_mem _ he)))
      rw [hx] at h1
      have h1' : σ a - σ b ≤ x := by exact_mod_cast h1
      have h2 : σ b - σ a ≤ IR.val w := hσ (a, b, w) List.mem_cons_self
      grind

theorem conflict_iff_infeasible (E : List QEdge) (s : Sat) (t : Dl IR) (h : ExactM E t)
    (c : DConstr IR) (hc : t.constrOf c.b = some c) (hv : s.value ⟨c.b, true⟩ = some true)
    (hr : c.src < t.nVars ∧ c.dst < t.nVars ∧ c.src ≠ c.dst ∧ IR.Fin c.dist) :
    (∃ cl, Dl.propagateLit rdlOps s t ⟨c.b, true⟩ = .inl cl) ↔ ¬ QFeasible ((c.src, c.dst, c.dist) :: E) := by
  obtain ⟨h1, h2, h3, h4⟩ := hr
  have e1 : (rdlOps.lt (d rdlOps t c.dst c.src) (rdlOps.neg c.dist) = true) ↔
      dn t c.dst c.src + ((IR.val c.dist : QV) : WithTop QV) < 0 := lt_neg_iff (h.wf _ _ h2 h1) h4
  rw [infeasible_iff E t h h1 h2 h3 h4, propagateLit_true s t c hc hv, ← e1]
  constructor
  · rintro ⟨cl, hcl⟩
    by_contra hlt
    rw [if_neg hlt] at hcl
    split at hcl <;> cases hcl
  · intro hlt
    rw [if_pos hlt]
    exact ⟨_, rfl⟩
theorem snd_neg_sub_eps (v : QV) : (ofLex (-v - QV.eps)).2 = -(ofLex v).2 - 1 := rfl

/-- strictness via ε: for values whose ε parts differ by an integer, `¬ (u ≤ v)` is `-u ≤ -v - ε` -/
theorem QV.not_le_iff (u v : QV) (k : ℤ) (h : (ofLex u).2 - (ofLex v).2 = (k : ℚ)) :
    ¬ (u ≤ v) ↔ -u ≤ -v - QV.eps := by
  have := QV.int_step u v k h
  rw [this]
  constructor <;> intro h' <;> grind

theorem QV.of_rev (u v : QV) (h : -u ≤ -v - QV.eps) : ¬ (u ≤ v) := by
  have := QV.eps_pos
  grind

/-- entry values with integer ε parts: `x ≤ v ↔ x < v + ε` for the entry `x` and the weight `v` -/
theorem entry_step {x w : IR} (hx : IR.Good x) (hw : IR.Fin w) (h1 : x.inf.den = 1) (h2 : w.inf.den = 1) :
    IR.den x ≤ ((IR.val w : QV) : WithTop QV) ↔ IR.den x + ((-IR.val w - QV.eps : QV) : WithTop QV) < 0 := by
  by_cases hd : x.rat.den = 0
  · rw [IR.den_of_inf hd, WithTop.top_add]
    constructor
    · intro h; exact absurd (top_le_iff.mp h) WithTop.coe_ne_top
    · intro h; exact absurd h (not_lt.mpr le_top)
  · rw [IR.den_of_fin hd, ← WithTop.coe_add]
    have hi := val_int_diff hx.2.2 hw.2 h1 h2
    have := QV.int_step (IR.val x) (IR.val w) _ hi
    constructor
    · intro h
      have h' : IR.val x ≤ IR.val w := by exact_mod_cast h
      have h'' := this.mp h'
      have : IR.val x + (-IR.val w - QV.eps) < 0 := by grind
      exact_mod_cast this
    · intro h
      have h' : IR.val x + (-IR.val w - QV.eps) < 0 := by exact_mod_cast h
      have : IR.val x < IR.val w + QV.eps := by grind
      have h'' := ‹IR.val x ≤ IR.val w ↔ _›.mpr this
      exact_mod_cast h''

theorem negation_is_reverse_edge (E : List QEdge) (s : Sat) (t : Dl IR) (h : ExactM E t)
    (c : DConstr IR) (hc : t.constrOf c.b = some c) (hv : s.value ⟨c.b, true⟩ = some false)
    (hr : c.src < t.nVars ∧ c.dst < t.nVars ∧ c.src ≠ c.dst ∧ IR.Fin c.dist)
    (hint : c.dist.inf.den = 1 ∧ (d rdlOps t c.src c.dst).inf.den = 1) :
    (IR.Fin (rdlOps.negStrict c.dist) ∧ IR.val (rdlOps.negStrict c.dist) = - IR.val c.dist - QV.eps) ∧
    (∀ σ : Nat → QV, qholds σ (c.dst, c.src, rdlOps.negStrict c.dist) → ¬ qholds σ (c.src, c.dst, c.dist)) ∧
    (∀ σ : Nat → QV, (∃ k : ℤ, (ofLex (σ c.dst - σ c.src)).2 - (ofLex (IR.val c.dist)).2 = (k : ℚ)) →
      (¬ qholds σ (c.src, c.dst, c.dist) ↔ qholds σ (c.dst, c.src, rdlOps.negStrict c.dist))) ∧
    ((∃ cl, Dl.propagateLit rdlOps s t ⟨c.b, false⟩ = .inl cl) ↔
      ¬ QFeasible ((c.dst, c.src, rdlOps.negStrict c.dist) :: E)) := by
  obtain ⟨h1, h2, h3, h4⟩ := hr
  have hns := IR.fin_negStrict h4
  have hneg : ∀ σ : Nat → QV, σ c.src - σ c.dst = -(σ c.dst - σ c.src) := fun σ => by abel
  refine ⟨hns, ?_, ?_, ?_⟩
  · intro σ hrev
    have hrev' : σ c.src - σ c.dst ≤ IR.val (rdlOps.negStrict c.dist) := hrev
    rw [hns.2, hneg] at hrev'
    exact QV.of_rev _ _ hrev'
  · intro σ ⟨k, hk⟩
    show ¬ (σ c.dst - σ c.src ≤ IR.val c.dist) ↔ σ c.src - σ c.dst ≤ IR.val (rdlOps.negStrict c.dist)
    rw [hns.2, hneg]
    exact QV.not_le_iff _ _ k hk
  · have e1 : (rdlOps.le (d rdlOps t c.src c.dst) c.dist = true) ↔
        dn t c.src c.dst + ((IR.val (rdlOps.negStrict c.dist) : QV) : WithTop QV) < 0 := by
      rw [le_w_iff (h.wf _ _ h1 h2) h4, hns.2]
      exact entry_step (h.wf _ _ h1 h2) h4 hint.2 hint.1
    rw [infeasible_iff E t h h2 h1 (Ne.symm h3) hns.1, propagateLit_false s t c hc hv, ← e1]
    constructor
    · rintro ⟨cl, hcl⟩
      by_contra hle
      rw [if_neg hle] at hcl
      split at hcl <;> cases hcl
    · intro hle
      rw [if_pos hle]
      exact ⟨_, rfl⟩

theorem propagate_exact (E : List QEdge) (s s' : Sat) (t t' : Dl IR) (h : ExactM E t)
    (c : DConstr IR) (hc : t.constrOf c.b = some c) (b : Bool) (hv : s.value ⟨c.b, true⟩ = some b)
    (hr : c.src < t.nVars ∧ c.dst < t.nVars ∧ c.src ≠ c.dst ∧ IR.Fin c.dist)
    (hint : b = false → c.dist.inf.den = 1 ∧ (d rdlOps t c.src c.dst).inf.den = 1 ∧ (d rdlOps t c.dst c.src).inf.den = 1)
    (hp : Dl.propagateLit rdlOps s t ⟨c.b, b⟩ = .inr (s', t')) :
    ExactM ((if b then (c.src, c.dst, c.dist) else (c.dst, c.src, rdlOps.negStrict c.dist)) :: E) t' := by
  obtain ⟨h1, h2, h3, h4⟩ := hr
  have hw0 := h.weak
  cases b with
  | true =>
    rw [propagateLit_true s t c hc hv] at hp
    simp only [if_true]
    by_cases hlt : rdlOps.lt (d rdlOps t c.dst c.src) (rdlOps.neg c.dist) = true
    · rw [if_pos hlt] at hp; cases hp
    · rw [if_neg hlt] at hp
      have hcyc : 0 ≤ dn t c.dst c.src + ((IR.val c.dist : QV) : WithTop QV) :=
        not_lt.mp (fun hh => hlt ((lt_neg_iff (h.wf _ _ h2 h1) h4).mpr hh))
      by_cases himp : rdlOps.lt c.dist (d rdlOps t c.src c.dst) = true
      · rw [if_pos himp] at hp
        have himp' : ((IR.val c.dist : QV) : WithTop QV) < dn t c.src c.dst := (lt_w_iff (h.wf _ _ h1 h2) h4).mp himp
        obtain ⟨a1, a2, a3⟩ := armed_same t (c.src, c.dst) c.b
        have h' := h.congr_state a1 a2 a3
        have hd : ∀ i j, dn (armed t (c.src, c.dst) c.b) i j = dn t i j := fun i j => by
          unfold dn; rw [d_congr rdlOps a2 i j]
        have r := update_closed_form E s _ h' c.src c.dst c.dist (by rw [a1]; exact h1) (by rw [a1]; exact h2) h3 h4
          (by
            intro x hx
            have e1 := distOpt_some.mp hx
            rw [hd] at e1
            rw [e1, ← WithTop.coe_add] at hcyc
            exact_mod_cast hcyc)
          (by
            intro x hx
            have e1 := distOpt_some.mp hx
            rw [hd] at e1
            rw [e1] at himp'
            exact_mod_cast himp')
        have : t' = (propagateEdge rdlOps s (armed t (c.src, c.dst) c.b) c.src c.dst c.dist).2 := by
          have := congrArg (fun x => match x with | .inr p => p.2 | .inl _ => t) hp
          exact this.symm
        rw [this]; exact r.1
      · rw [if_neg himp] at hp
        have : t' = t := by cases hp; rfl
        rw [this]
        exact h.add_redundant h1 h2 h4 (not_lt.mp (fun hh => himp ((lt_w_iff (h.wf _ _ h1 h2) h4).mpr hh)))
  | false =>
    obtain ⟨i1, i2, i3⟩ := hint rfl
    have hns := IR.fin_negStrict h4
    have heps := QV.eps_pos
    rw [propagateLit_false s t c hc hv] at hp
    simp only [Bool.false_eq_true, if_false]
    by_cases hle : rdlOps.le (d rdlOps t c.src c.dst) c.dist = true
    · rw [if_pos hle] at hp; cases hp
    · rw [if_neg hle] at hp
      have hcyc : 0 ≤ dn t c.src c.dst + ((IR.val (rdlOps.negStrict c.dist) : QV) : WithTop QV) := by
        rw [hns.2]
        apply not_lt.mp
        intro hh
        exact hle ((le_w_iff (h.wf _ _ h1 h2) h4).mpr ((entry_step (h.wf _ _ h1 h2) h4 i2 i1).mpr hh))
      by_cases himp : rdlOps.le (rdlOps.neg c.dist) (d rdlOps t c.dst c.src) = true
      · rw [if_pos himp] at hp
        have himp' : ((-IR.val c.dist : QV) : WithTop QV) ≤ dn t c.dst c.src := (le_neg_iff (h.wf _ _ h2 h1) h4).mp himp
        obtain ⟨a1, a2, a3⟩ := armed_same t (c.dst, c.src) c.b
        have h' := h.congr_state a1 a2 a3
        have hd : ∀ i j, dn (armed t (c.dst, c.src) c.b) i j = dn t i j := fun i j => by
          unfold dn; rw [d_congr rdlOps a2 i j]
        have r := update_closed_form E s _ h' c.dst c.src (rdlOps.negStrict c.dist) (by rw [a1]; exact h2) (by rw [a1]; exact h1)
          (Ne.symm h3) hns.1
          (by
            intro x hx
            have e1 := distOpt_some.mp hx
            rw [hd] at e1
            rw [e1, ← WithTop.coe_add] at hcyc
            exact_mod_cast hcyc)
          (by
            intro x hx
            have e1 := distOpt_some.mp hx
            rw [hd] at e1
            rw [e1] at himp'
            have h5 : -IR.val c.dist ≤ x := by exact_mod_cast himp'
            rw [hns.2]
            grind)
        have : t' = (propagateEdge rdlOps s (armed t (c.dst, c.src) c.b) c.dst c.src (rdlOps.negStrict c.dist)).2 := by
          have := congrArg (fun x => match x with | .inr p => p.2 | .inl _ => t) hp
          exact this.symm
        rw [this]; exact r.1
      · rw [if_neg himp] at hp
        have : t' = t := by cases hp; rfl
        rw [this]
        apply h.add_redundant h2 h1 hns.1
        have hlt : dn t c.dst c.src < ((-IR.val c.dist : QV) : WithTop QV) :=
          not_le.mp (fun hh => himp ((le_neg_iff (h.wf _ _ h2 h1) h4).mpr hh))
        have gy := h.wf _ _ h2 h1
        have hd0 : (d rdlOps t c.dst c.src).rat.den ≠ 0 := by
          intro hd0
          have : dn t c.dst c.src = ⊤ := IR.den_of_inf hd0
          rw [this] at hlt; exact absurd hlt (not_lt.mpr le_top)
        have hval : dn t c.dst c.src = ((IR.val (d rdlOps t c.dst c.src) : QV) : WithTop QV) := IR.den_of_fin hd0
        rw [hval] at hlt ⊢
        have hlt' : IR.val (d rdlOps t c.dst c.src) < -IR.val c.dist := by exact_mod_cast hlt
        rw [hns.2]
        -- integrality of the ε parts
        have hk : (ofLex (IR.val (d rdlOps t c.dst c.src))).2 - (ofLex (-IR.val c.dist - QV.eps)).2 =
            (((d rdlOps t c.dst c.src).inf.num + c.dist.inf.num + 1 : ℤ) : ℚ) := by
          rw [snd_neg_sub_eps]
          show (d rdlOps t c.dst c.src).inf.toRat - (-(c.dist.inf.toRat) - 1) = _
          rw [toRat_den_one gy.2.2 i3, toRat_den_one h4.2 i1]; push_cast; ring
        have := (QV.int_step _ _ _ hk).mpr (by grind)
        exact_mod_cast this

end DlR
end Oratio
