/-
C10X: the effect of `propagate(from, to, dist)` on the predecessor matrix `_preds`, in closed
form next to `DlM.upd` (the closed form of `_dists` proved in `Lemmas/Dl.lean`):

  preds' a b = if the entry (a, b) improved then (if b = to then from else preds to b) else preds a b
-/
import OratioProofs.Lemmas.DlExact
import OratioProofs.Lemmas.UndoDl
import OratioProofs.Lemmas.DlPathDefs

set_option linter.unusedSectionVars false
set_option linter.unusedVariables false

namespace Oratio
namespace Dl

/-- `n` time points fit into the predecessor matrix of this shape -/
def FitsP (n : Nat) (shp : List Nat × List Nat) : Prop := n ≤ shp.2.length ∧ ∀ l ∈ shp.2, n ≤ l

theorem p_eq (t : Dl Int) (a b : Nat) : p t a b = (t.preds.getD a []).getD b noPred := rfl

theorem p_congr {t1 t2 : Dl Int} (h : t1.preds = t2.preds) (a b : Nat) : p t1 a b = p t2 a b := by
  simp only [p_eq, h]

theorem fitsP_range {t : Dl Int} {n : Nat} (h : FitsP n (shape t)) {i j : Nat} (hi : i < n) (hj : j < n) :
    i < t.preds.length ∧ j < (t.preds.getD i []).length := by
  obtain ⟨h1, h2⟩ := h
  have hi' : i < t.preds.length := by simp [shape] at h1; omega
  refine ⟨hi', ?_⟩
  have : (t.preds.getD i []).length ∈ (shape t).2 := by
    simp only [shape, List.mem_map]
    refine ⟨t.preds[i], List.getElem_mem hi', ?_⟩
    simp [List.getD_eq_getElem?_getD, hi']
  have := h2 _ this
  omega

theorem p_setP (t : Dl Int) (i j : Nat) (x : Nat) (a b : Nat)
    (hi : i < t.preds.length) (hj : j < (t.preds.getD i []).length) :
    p (setP t i j x) a b = if a = i ∧ b = j then x else p t a b := by
  simp only [p_eq, setP, List.getD_eq_getElem?_getD, List.getElem?_set]
  by_cases hai : i = a
  · subst hai
    by_cases hbj : j = b
    · subst hbj
      simp [hi, List.getD_eq_getElem?_getD] at hj ⊢
      simp [hj]
    · have : ¬ (b = j) := fun h => hbj h.symm
      simp [hi, hbj, this]
  · have : ¬ (a = i) := fun h => hai h.symm
    simp [hai, this]

theorem preds_setDist (t : Dl Int) (i j : Nat) (x : Int) : (setDist idlOps t i j x).preds = t.preds := by
  unfold setDist
  cases t.layers with
  | nil => rfl
  | cons l ls => dsimp only; split <;> rfl

theorem preds_setPred (t : Dl Int) (i j : Nat) (x : Nat) : (setPred t i j x).preds = (setP t i j x).preds := by
  unfold setPred
  cases t.layers with
  | nil => rfl
  | cons l ls => dsimp only; split <;> rfl

theorem p_wr {t : Dl Int} {n : Nat} (h : FitsP n (shape t)) {i j : Nat} (hi : i < n) (hj : j < n) (x : Int) (y : Nat)
    (a b : Nat) : p (wr t i j x y) a b = if a = i ∧ b = j then y else p t a b := by
  obtain ⟨h1, h2⟩ := fitsP_range h hi hj
  have e : (wr t i j x y).preds = (setP t i j y).preds := by
    rw [wr, preds_setPred]
    simp only [setP, preds_setDist]
  rw [p_congr e, p_setP _ _ _ _ _ _ h1 h2]

/-! ### the link between `_dists` and `_preds` during the update -/

/-- the entry `(a, b)` is strictly improved by the new edge `(f, g, w)` -/
def Imp (M : DlM.Mat) (f g : Nat) (w : Int) (a b : Nat) : Prop :=
  M a f ≠ idlInf ∧ M g b ≠ idlInf ∧ M a f + w + M g b < M a b

instance (M : DlM.Mat) (f g : Nat) (w : Int) (a b : Nat) : Decidable (Imp M f g w a b) :=
  inferInstanceAs (Decidable (M a f ≠ idlInf ∧ M g b ≠ idlInf ∧ M a f + w + M g b < M a b))

/-- the predecessor written for an improved entry with column `b` -/
def newp (P0 : Nat → Nat → Nat) (f g b : Nat) : Nat := if b = g then f else P0 g b

/-- every entry is either untouched (old distance, old predecessor) or improved and carries the
    new predecessor -/
def Link (M : DlM.Mat) (P0 : Nat → Nat → Nat) (f g : Nat) (w : Int) (t : Dl Int) : Prop :=
  ∀ a b, (d idlOps t a b = M a b ∧ p t a b = P0 a b) ∨ (Imp M f g w a b ∧ p t a b = newp P0 f g b)

theorem upd_eq_imp (M : DlM.Mat) (f g : Nat) (w : Int) (a b : Nat) :
    DlM.upd M f g w a b = if Imp M f g w a b then M a f + w + M g b else M a b := by
  unfold DlM.upd
  by_cases h : Imp M f g w a b
  · rw [if_pos h]; exact if_pos h
  · rw [if_neg h]; exact if_neg h

section
variable {M : DlM.Mat} {P0 : Nat → Nat → Nat} {f g : Nat} {w : Int} {n : Nat} {K B : Int} {shp : List Nat × List Nat}
  (hy : UHyp n K B M f g w) (hfit : Fits n shp) (hfitP : FitsP n shp)
include hy hfit hfitP

theorem Link_wr {t : Dl Int} (hL : Link M P0 f g w t) (hs : shape t = shp) {i j : Nat} (hi : i < n) (hj : j < n)
    (himp : Imp M f g w i j) (x : Int) (y : Nat) (hyy : y = newp P0 f g j) : Link M P0 f g w (wr t i j x y) := by
  have hfitt : Fits n (shape t) := by rw [hs]; exact hfit
  have hfittP : FitsP n (shape t) := by rw [hs]; exact hfitP
  intro a b
  rw [d_wr hfitt hi hj, p_wr hfittP hi hj]
  by_cases hab : a = i ∧ b = j
  · right
    rw [if_pos hab, hab.1, hab.2]
    exact ⟨himp, hyy⟩
  · rw [if_neg hab, if_neg hab]
    exact hL a b

theorem Link_pg {t : Dl Int} (hL : Link M P0 f g w t) (u : Nat) : p t g u = P0 g u := by
  rcases hL g u with ⟨_, h2⟩ | ⟨⟨h1, h2, h3⟩, _⟩
  · exact h2
  · exfalso
    rcases hy.cyc with hh | hh
    · exact h1 hh
    · omega

theorem phase1_link : ∀ (fuel : Nat) (t0 : Dl Int) (u : Nat) (t : Dl Int) (si sj : List Nat) (ups : List (Nat × Nat)),
    u + fuel = n → PP M f g w n shp u u t si sj → Link M P0 f g w t →
    Link M P0 f g w (phase1 idlOps t0 f g w fuel u (t, si, sj, ups)).1 := by
  intro fuel
  induction fuel with
  | zero =>
    intro t0 u t si sj ups hu hP hL
    simpa [phase1] using hL
  | succ m ih =>
    intro t0 u t si sj ups hu hP hL
    have hf := hy.hf; have hg := hy.hg; have hfg := hy.hfg
    have hun : u < n := by omega
    rw [phase1]
    split
    rename_i t1 si1 ups1 heq1
    have q1 := step1 hy hfit hP hun ups f heq1
    have hL1 : Link M P0 f g w t1 := by
      split at heq1
      · cases heq1
        have hc : Ci M f g w u := ((q1.si u).mp (by simp)).2
        refine Link_wr hy hfit hfitP hL hP.shp hun hg ?_ _ _ ?_
        · have hd := hy.diag g hg
          exact ⟨hc.2.1, by rw [hd]; decide, by rw [hd]; have := hc.2.2; omega⟩
        · simp [newp]
      · cases heq1
        exact hL
    have q2 := step2 hy hfit q1 hun (p (setDist idlOps t1 f u (idlOps.add (d idlOps t1 g u) w)) g u)
    dsimp only
    split
    · rename_i hc
      have q3 := q2.1 hc
      refine ih _ _ _ _ _ _ (by omega) q3 ?_
      have hcj : Cj M f g w u := ((q3.sj u).mp (by simp)).2
      refine Link_wr hy hfit hfitP hL1 q1.shp hf hun ?_ _ _ ?_
      · have hd := hy.diag f hf
        exact ⟨by rw [hd]; decide, hcj.2.1, by rw [hd]; have := hcj.2.2; omega⟩
      · rw [p_congr (preds_setDist _ _ _ _), Link_pg hy hfit hfitP hL1]
        simp [newp, hcj.1]
    · rename_i hc
      exact ih _ _ _ _ _ _ (by omega) (q2.2 hc) hL1

theorem inner_link {G : DlM.Mat} (hG : ∀ a b, a < n → b < n → G a b = D1 M f g w a b)
    {S : Nat → Nat → Prop} {i j : Nat} (hi : i < n) (hj : j < n) (ci : Ci M f g w i) (cj : Cj M f g w j)
    (acc : Dl Int × List (Nat × Nat)) (hQ : Q2 M f g w n shp G S acc.1) (hL : Link M P0 f g w acc.1) :
    Link M P0 f g w (innerF g i acc j).1 := by
  obtain ⟨t, ups⟩ := acc
  unfold innerF
  have hf := hy.hf; have hg := hy.hg; have hfg := hy.hfg
  obtain ⟨ci1, ci2, ci3⟩ := ci
  obtain ⟨cj1, cj2, cj3⟩ := cj
  have r1 : d idlOps t i g = M i f + w := by
    rw [hQ.colg, hG i g hi hg]; simp only [D1, if_true]; rw [if_pos ⟨ci2, ci3⟩]
  have r2 : d idlOps t g j = M g j := by
    rw [hQ.rowg, hG g j hg hj]; simp only [D1, if_neg cj1, if_neg (Ne.symm hfg)]
  have r3 : G i j = M i j := by
    rw [hG i j hi hj]; simp only [D1, if_neg cj1, if_neg ci1]
  have hcur : d idlOps t i j ≤ M i j := by
    rcases hQ.mat i j with h1 | ⟨_, _, h1⟩
    · rw [h1, r3]
    · rw [h1]; exact DlM.upd_le_old M f g w i j
  dsimp only
  by_cases hc : (i != j && idlOps.lt (idlOps.add (d idlOps t i g) (d idlOps t g j)) (d idlOps t i j)) = true
  · rw [if_pos hc]
    rw [test2_iff, r1, r2] at hc
    show Link M P0 f g w (wr t i j (idlOps.add (d idlOps t i g) (d idlOps t g j)) (p _ g j))
    refine Link_wr hy hfit hfitP hL hQ.shp hi hj ⟨ci2, cj2, by omega⟩ _ _ ?_
    rw [p_congr (preds_setDist _ _ _ _), Link_pg hy hfit hfitP hL]
    simp [newp, cj1]
  · rw [if_neg hc]
    exact hL

theorem inner_fold_link {G : DlM.Mat} (hG : ∀ a b, a < n → b < n → G a b = D1 M f g w a b)
    {i : Nat} (hi : i < n) (ci : Ci M f g w i) :
    ∀ (l : List Nat), (∀ j ∈ l, j < n ∧ Cj M f g w j) → ∀ (S : Nat → Nat → Prop) (acc : Dl Int × List (Nat × Nat)),
      Q2 M f g w n shp G S acc.1 → Link M P0 f g w acc.1 →
      Link M P0 f g w (l.foldl (innerF g i) acc).1 := by
  intro l
  induction l with
  | nil =>
    intro _ S acc _ hL
    exact hL
  | cons j l ih =>
    intro hl S acc hQ hL
    rw [List.foldl_cons]
    have h1 := inner_step hy hfit hG hi (hl j List.mem_cons_self).1 ci (hl j List.mem_cons_self).2 acc hQ
    have h1L := inner_link hy hfit hfitP hG hi (hl j List.mem_cons_self).1 ci (hl j List.mem_cons_self).2 acc hQ hL
    exact ih (fun j' hj' => hl j' (List.mem_cons_of_mem _ hj')) _ _ h1 h1L

theorem outer_fold_link {G : DlM.Mat} (hG : ∀ a b, a < n → b < n → G a b = D1 M f g w a b)
    (sj : List Nat) (hsj : ∀ j ∈ sj, j < n ∧ Cj M f g w j) :
    ∀ (l : List Nat), (∀ i ∈ l, i < n ∧ Ci M f g w i) → ∀ (S : Nat → Nat → Prop) (acc : Dl Int × List (Nat × Nat)),
      Q2 M f g w n shp G S acc.1 → Link M P0 f g w acc.1 →
      Link M P0 f g w (l.foldl (fun acc i => sj.foldl (innerF g i) acc) acc).1 := by
  intro l
  induction l with
  | nil =>
    intro _ S acc _ hL
    exact hL
  | cons i l ih =>
    intro hl S acc hQ hL
    rw [List.foldl_cons]
    have h1 := inner_fold hy hfit hG (hl i List.mem_cons_self).1 (hl i List.mem_cons_self).2 sj hsj S acc hQ
    have h1L := inner_fold_link hy hfit hfitP hG (hl i List.mem_cons_self).1 (hl i List.mem_cons_self).2 sj hsj S acc hQ hL
    exact ih (fun i' hi' => hl i' (List.mem_cons_of_mem _ hi')) _ _ h1 h1L

/-- `propagate(from, to, dist)` keeps the link -/
theorem propagateEdge_link (s : Sat) (t : Dl Int) (hM : M = d idlOps t) (hP0 : P0 = p t) (hn : t.nVars = n)
    (hshp : shape t = shp) : Link M P0 f g w (propagateEdge idlOps s t f g w).2 := by
  have hf := hy.hf; have hg := hy.hg; have hfg := hy.hfg
  have hfitt : Fits n (shape t) := by rw [hshp]; exact hfit
  have hL00 : Link M P0 f g w t := by
    intro a b; left; rw [hM, hP0]; exact ⟨rfl, rfl⟩
  have hL0 : Link M P0 f g w (wr t f g w f) := by
    refine Link_wr hy hfit hfitP hL00 hshp hf hg ?_ _ _ ?_
    · have h1 := hy.diag f hf
      have h2 := hy.diag g hg
      have h3 := hy.imp
      exact ⟨by rw [h1]; decide, by rw [h2]; decide, by rw [h1, h2]; omega⟩
    · simp [newp]
  have hP0' : PP M f g w n shp 0 0 (wr t f g w f) [] [] := by
    refine ⟨by rw [nVars_wr, hn], by rw [shape_wr, hshp], ?_, by simp, by simp⟩
    intro a b
    rw [d_wr hfitt hf hg]
    by_cases hab : a = f ∧ b = g
    · rw [if_pos hab, hab.1, hab.2, if_pos (by omega), D1_fg hy hfit]
    · rw [if_neg hab, if_neg (by omega), hM]
  have hnv0 : (wr t f g w f).nVars = n := by rw [nVars_wr, hn]
  have hP1 := phase1_spec hy hfit n (wr t f g w f) 0 (wr t f g w f) [] [] [(f, g), (g, f)] (by omega) hP0'
  have hL1 := phase1_link hy hfit hfitP n (wr t f g w f) 0 (wr t f g w f) [] [] [(f, g), (g, f)] (by omega) hP0' hL0
  have e : ∀ m, m = (wr t f g w f).nVars → (propagateEdge idlOps s t f g w).2 =
      (phase2 idlOps (phase1 idlOps (wr t f g w f) f g w m 0 (wr t f g w f, [], [], [(f, g), (g, f)])).1 g
        (phase1 idlOps (wr t f g w f) f g w m 0 (wr t f g w f, [], [], [(f, g), (g, f)])).2.1
        (phase1 idlOps (wr t f g w f) f g w m 0 (wr t f g w f, [], [], [(f, g), (g, f)])).2.2.1
        (phase1 idlOps (wr t f g w f) f g w m 0 (wr t f g w f, [], [], [(f, g), (g, f)])).2.2.2).1 := by
    intro m hm; subst hm; rfl
  have e' := e n hnv0.symm
  generalize phase1 idlOps (wr t f g w f) f g w n 0 (wr t f g w f, [], [], [(f, g), (g, f)]) = r at hP1 hL1 e'
  obtain ⟨t1, si, sj, ups⟩ := r
  simp only at hP1 hL1 e'
  have hG : ∀ a b, a < n → b < n → d idlOps t1 a b = D1 M f g w a b := by
    intro a b ha hb
    rw [hP1.mat]
    by_cases hcond : (b = g ∧ (a < n ∨ a = f)) ∨ (a = f ∧ b < n)
    · rw [if_pos hcond]
    · rw [if_neg hcond]
      unfold D1
      rw [if_neg (by omega), if_neg (by omega)]
  have hQ0 : Q2 M f g w n shp (d idlOps t1) (fun _ _ => False) (t1, ups).1 :=
    ⟨hP1.nv, hP1.shp, fun a b => Or.inl rfl, fun a => rfl, fun b => rfl, fun a b h => h.elim⟩
  have hQ := outer_fold_link hy hfit hfitP hG sj (fun j hj => ⟨((hP1.sj j).mp hj).1, ((hP1.sj j).mp hj).2⟩)
    si (fun i hi => ⟨((hP1.si i).mp hi).1, ((hP1.si i).mp hi).2⟩) _ _ hQ0 hL1
  rw [← phase2_eq, ← e'] at hQ
  exact hQ

/-- the effect of `propagate(from, to, dist)` on the predecessor matrix -/
theorem propagateEdge_pred_spec (s : Sat) (t : Dl Int) (hM : M = d idlOps t) (hP0 : P0 = p t) (hn : t.nVars = n)
    (hshp : shape t = shp) (a b : Nat) (ha : a < n) (hb : b < n) :
    p (propagateEdge idlOps s t f g w).2 a b = if Imp M f g w a b then newp P0 f g b else P0 a b := by
  have hL := propagateEdge_link hy hfit hfitP s t hM hP0 hn hshp
  obtain ⟨_, _, hmat⟩ := propagateEdge_spec hy hfit s t hM hn hshp
  have hd := hmat a b
  rw [if_pos ⟨ha, hb⟩, upd_eq_imp] at hd
  by_cases hi : Imp M f g w a b
  · rw [if_pos hi]
    rw [if_pos hi] at hd
    rcases hL a b with ⟨h1, _⟩ | ⟨_, h2⟩
    · exfalso
      have := hi.2.2
      omega
    · exact h2
  · rw [if_neg hi]
    rcases hL a b with ⟨_, h2⟩ | ⟨h1, _⟩
    · exact h2
    · exact absurd h1 hi
end

/-- `propagate(from, to, dist)` does not touch `dist_constr`, `var_dists` -/
theorem propagateEdge_frame (s : Sat) (t : Dl Int) (f g : Nat) (w : Int) :
    (propagateEdge idlOps s t f g w).2.distConstr = t.distConstr ∧
    (propagateEdge idlOps s t f g w).2.varDists = t.varDists := by
  refine Undo.propagateEdge_pres idlOps (fun t' => t'.distConstr = t.distConstr ∧ t'.varDists = t.varDists)
    ?_ ?_ s t f g w ⟨rfl, rfl⟩
  · intro t' i j x h
    unfold setDist
    cases t'.layers with
    | nil => exact h
    | cons l ls => dsimp only; split <;> exact h
  · intro t' i j x h
    unfold setPred
    cases t'.layers with
    | nil => exact h
    | cons l ls => dsimp only; split <;> exact h

end Dl
end Oratio
