/-
C07N, target 4: the LRA requests `new_var(lin)` and `new_lt / new_leq / new_geq / new_gt` when the expression
names an existing variable (no slack variable and no tableau row is created): the invariant `NetInv` is
kept and every T-model of the new network is a T-model of the old one.
-/
import OratioProofs.Lemmas.NetBj
import OratioProofs.Lemmas.LraReachMain

set_option linter.unusedSimpArgs false
set_option linter.unusedVariables false

namespace Oratio
namespace Net
open Sat

/-- the LRA theory after a request that creates no slack variable: tableau, bounds and values are kept,
    assertions controlled by their own positive literal are appended -/
structure LraExt (s' : Sat) (t t' : Lra) : Prop where
  tab : t'.tableau = t.tableau
  bnd : t'.bounds = t.bounds
  vals : t'.vals = t.vals
  asr : ∃ ex, t'.vAsrts = t.vAsrts ++ ex ∧ ∀ e ∈ ex, e.2.b = ⟨e.1, true⟩
  reg : ∀ e ∈ t'.vAsrts, e.1 < s'.vals.length
  aw : ∀ x, ∀ b ∈ t'.aWatches.getD x [], b < s'.vals.length
  awok : Lra.AWatchOK t'
  good : Lra.GoodState t'
  sa : ∀ e ∈ t'.sAsrts, e.2.var < s'.vals.length

theorem NetInv.lraExt {n : Net} {orig L : Cnf} {fr : List Frame} (h : NetInv n orig L fr) (hroot : n.sat.trailLim = [])
    {s' : Sat} {t' : Lra} (bd : List (Nat × Th)) (hs : SInv (orig ++ L) orig s') (hle : Dl.SatLe n.sat s')
    (hroot' : s'.trailLim = []) (hlen : n.sat.vals.length ≤ s'.vals.length) (hx : LraExt s' n.lra t') :
    NetInv { n with sat := s', lra := t', bound := bd } orig L [] ∧
      ∀ α, TModel { n with sat := s', lra := t', bound := bd } α → TModel n α := by
  have hfr := h.root_frames hroot
  subst hfr
  have hb : ThBase (orig ++ L) n.sat n.lra n.idl n.rdl := h.th
  obtain ⟨ex, hex, hkey⟩ := hx.asr
  have hmono : ∀ α, TModel { n with sat := s', lra := t', bound := bd } α → TModel n α := by
    intro α ⟨σr, σi, σz, σq, a, b, c, d⟩
    refine ⟨σr, σi, σz, σq, ?_, ?_, c, d⟩
    · have a' : Lra.Solves t' σr σi := a
      unfold Lra.Solves at a' ⊢
      rw [hx.tab] at a'; exact a'
    · intro e he
      exact b e (by show e ∈ t'.vAsrts; rw [hex]; exact List.mem_append_left _ he)
  refine ⟨NetInv.ofRoot (n := { n with sat := s', lra := t', bound := bd }) hs
    (fun c hc => TEntails.congr (fun α hm => hmono α hm) (h.lemmas c hc)) ?_ ?_ hroot', hmono⟩
  · refine ⟨⟨⟨hx.good.tab, Lra.boundsOK_congr hx.bnd hb.lra.inv.bok, ?_, ?_, hx.awok⟩,
      Lra.valsOK_congr hx.vals hx.tab hb.lra.vals, ?_, ?_, ?_, ?_⟩, hb.idl.mono hle, hb.rdl.mono hle⟩
    · have := hb.lra.inv.blen
      unfold Lra.BoundsLen at this ⊢
      rw [hx.bnd, hx.vals]; exact this
    · intro e he
      exact (hx.good.asrts e he).2
    · intro e he
      rw [hex] at he
      rcases List.mem_append.1 he with he | he
      · exact hb.lra.key e he
      · exact hkey e he
    · intro e he
      exact (hx.good.asrts e he).1
    · intro α σr σi h0 ho hsol hag
      have hsol' : Lra.Solves n.lra σr σi := by
        unfold Lra.Solves at hsol ⊢
        rw [hx.tab] at hsol; exact hsol
      have hag' : Lra.AsrtAgrees α σr σi n.lra := fun e he => hag e (by rw [hex]; exact List.mem_append_left _ he)
      have hj := hb.lra.just α σr σi h0 ho hsol' hag'
      intro x hxl
      rw [hx.bnd] at hxl
      have := hj x hxl
      unfold Lra.lbReason Lra.ubReason Lra.lb Lra.ub Lra.bnd at this ⊢
      rw [hx.bnd]; exact this
    · intro x
      have := (hb.lra.reasons.mono hle) x
      unfold Lra.lbReason Lra.ubReason Lra.bnd at this ⊢
      rw [hx.bnd]; exact this
  · exact ⟨hx.reg, fun c hc => Nat.lt_of_lt_of_le (h.reg.idl c hc) hlen,
      fun c hc => Nat.lt_of_lt_of_le (h.reg.rdl c hc) hlen, hx.good, hx.aw, hx.sa⟩

/-- only `exprs` changes -/
theorem LraExt.exprs {n : Net} {orig L : Cnf} {fr : List Frame} (h : NetInv n orig L fr) (ex : List (String × Nat))
    (hg : Lra.GoodState { n.lra with exprs := ex }) : LraExt n.sat n.lra { n.lra with exprs := ex } :=
  ⟨rfl, rfl, rfl, ⟨[], by simp, fun e he => by cases he⟩, h.reg.lra, h.reg.aw, h.th.base.lra.inv.awatch, hg, h.reg.sa⟩

theorem mkSlack_vals_length (t : Lra) (expr : Lin) (ex : List (String × Nat)) :
    (Lra.mkSlack t expr ex).vals.length = t.vals.length + 1 := by
  simp [Lra.mkSlack, Lra.newRow_vals, Lra.slackD, Lra.setVal, Lra.slackC, Lra.slackB, Lra.setBound, Lra.slackA, Lra.newVar]

/-- a `newVarLin` that creates no slack variable only changes `exprs` -/
theorem newVarLin_noSlack {s : Sat} {t : Lra} {l : Lin} {slack : Nat} {t1 : Lra}
    (h : Lra.newVarLin s t l = some (slack, t1)) (hlen : t1.vals.length = t.vals.length) :
    ∃ ex, t1 = { t with exprs := ex } := by
  rcases Lra.newVarLin_outcome h with ⟨⟨ex, e, _⟩, _⟩ | ⟨_, ex, e, _⟩
  · exact ⟨ex, e⟩
  · rw [e, mkSlack_vals_length] at hlen; omega

/-- the registration of a new assertion -/
theorem LraExt.relReg {n : Net} {orig L : Cnf} {fr : List Frame} (h : NetInv n orig L fr) (ex : List (String × Nat))
    (up : Bool) (slack : Nat) (c : IR)
    (hg : Lra.GoodState (Lra.relReg { n.lra with exprs := ex } up slack c n.sat.nvars)) :
    LraExt n.sat.newVar.2 n.lra (Lra.relReg { n.lra with exprs := ex } up slack c n.sat.nvars) := by
  have hN : n.sat.newVar.2.vals.length = n.sat.vals.length + 1 := by
    show (n.sat.vals ++ [none]).length = _
    simp
  have hold : ∀ b, b ≠ n.sat.nvars →
      (Lra.relReg { n.lra with exprs := ex } up slack c n.sat.nvars).asrtOf b = n.lra.asrtOf b := by
    intro b hb
    unfold Lra.asrtOf Lra.relReg
    simp only
    rw [List.find?_append]
    cases hf : n.lra.vAsrts.find? (fun a => a.1 == b) with
    | some e => simp
    | none =>
      have : (n.sat.nvars == b) = false := by simpa using fun e => hb e.symm
      simp [List.find?, this]
  refine ⟨rfl, rfl, rfl, ⟨[(n.sat.nvars, ⟨if up then .leq else .geq, ⟨n.sat.nvars, true⟩, slack, c⟩)], rfl, ?_⟩, ?_, ?_, ?_, hg, ?_⟩
  rotate_right
  · intro e he
    rw [hN]
    have he' : e ∈ Lra.emplaceKey n.lra.sAsrts (Lra.relKey up slack c) ⟨n.sat.nvars, true⟩ := he
    rcases Lra.mem_emplaceKey he' with he' | he'
    · exact Nat.lt_succ_of_lt (h.reg.sa e he')
    · rw [he']; exact Nat.lt_succ_self _
  · intro e he
    rw [List.mem_singleton.1 he]
  · intro e he
    rw [hN]
    have he' : e ∈ n.lra.vAsrts ++ [(n.sat.nvars, _)] := he
    rcases List.mem_append.1 he' with he' | he'
    · exact Nat.lt_succ_of_lt (h.reg.lra e he')
    · rw [List.mem_singleton.1 he']; exact Nat.lt_succ_self _
  · intro x b hb
    rw [hN]
    have hb' : b ∈ (n.lra.aWatches.set slack (n.lra.aWatches.getD slack [] ++ [n.sat.nvars])).getD x [] := hb
    by_cases hx : slack = x
    · subst hx
      by_cases hl : slack < n.lra.aWatches.length
      · rw [Lra.getD_set_self _ _ _ _ hl] at hb'
        rcases List.mem_append.1 hb' with hb' | hb'
        · exact Nat.lt_succ_of_lt (h.reg.aw _ b hb')
        · rw [List.mem_singleton.1 hb']; exact Nat.lt_succ_self _
      · rw [List.set_eq_of_length_le (by omega)] at hb'
        exact Nat.lt_succ_of_lt (h.reg.aw _ b hb')
    · rw [Lra.getD_set_ne _ _ _ _ _ hx] at hb'
      exact Nat.lt_succ_of_lt (h.reg.aw _ b hb')
  · intro x b hb a ha
    have hb' : b ∈ (n.lra.aWatches.set slack (n.lra.aWatches.getD slack [] ++ [n.sat.nvars])).getD x [] := hb
    have hnone : n.lra.asrtOf n.sat.nvars = none := by
      unfold Lra.asrtOf
      rw [Option.map_eq_none_iff, List.find?_eq_none]
      intro e he hk
      have := h.reg.lra e he
      have hk' : e.1 = n.sat.nvars := by simpa using hk
      unfold Sat.nvars at hk'; omega
    have holdcase : b ∈ n.lra.aWatches.getD x [] → a.x = x := by
      intro hbo
      have hlt := h.reg.aw x b hbo
      have hne : b ≠ n.sat.nvars := by unfold Sat.nvars; omega
      rw [hold b hne] at ha
      exact h.th.base.lra.inv.awatch x b hbo a ha
    by_cases hx : slack = x
    · subst hx
      by_cases hl : slack < n.lra.aWatches.length
      · rw [Lra.getD_set_self _ _ _ _ hl] at hb'
        rcases List.mem_append.1 hb' with hb' | hb'
        · exact holdcase hb'
        · rw [List.mem_singleton.1 hb'] at ha
          unfold Lra.asrtOf Lra.relReg at ha
          simp only at ha
          unfold Lra.asrtOf at hnone
          rw [Option.map_eq_none_iff] at hnone
          rw [List.find?_append, hnone] at ha
          simp [List.find?] at ha
          rw [← ha]
      · rw [List.set_eq_of_length_le (by omega)] at hb'
        exact holdcase hb'
    · rw [Lra.getD_set_ne _ _ _ _ _ hx] at hb'
      exact holdcase hb'

theorem satLe_newVar (s : Sat) : Dl.SatLe s s.newVar.2 := fun v b hv => (newVar_keep s v b hv).1

/-- **`lra.new_var(lin)`** that finds its variable (no slack variable is created) keeps the invariant -/
theorem NetInv.at_lraNewVarLin {n : Net} {orig L : Cnf} {fr : List Frame} (h : NetInv n orig L fr) (hroot : n.sat.trailLim = [])
    {l : Lin} (hl : Lra.LinOK n.lra l) {v : Nat} {n' : Net} (he : lraNewVarLin n l = some (v, n'))
    (hns : n'.lra.vals.length = n.lra.vals.length) :
    NetInv n' orig L [] ∧ (∀ α, TModel n' α → TModel n α) ∧ n'.sat = n.sat := by
  unfold lraNewVarLin at he
  cases hv : Lra.newVarLin n.sat n.lra l with
  | none => rw [hv] at he; simp at he
  | some res =>
    obtain ⟨slack, t1⟩ := res
    rw [hv] at he
    simp only [Option.map_some, Option.some.injEq, Prod.mk.injEq] at he
    obtain ⟨rfl, rfl⟩ := he
    obtain ⟨ex, rfl⟩ := newVarLin_noSlack hv hns
    have hg := (Lra.newVarLin_good h.reg.good hl hv).1
    obtain ⟨k1, k2⟩ := h.lraExt hroot n.bound h.sat (fun _ _ hh => hh) hroot (Nat.le_refl _) (LraExt.exprs h ex hg)
    exact ⟨k1, k2, rfl⟩

/-- **`lra.new_lt / new_leq / new_geq / new_gt`** on an expression that needs no new slack variable keeps the
    invariant; every T-model of the new network is one of the old -/
theorem NetInv.at_lraNewRel {n : Net} {orig L : Cnf} {fr : List Frame} (h : NetInv n orig L fr) (hroot : n.sat.trailLim = [])
    {r : LRel} {a b : Lin} (ha : Lra.LinOK n.lra a) (hb : Lra.LinOK n.lra b) {l : Lit} {n' : Net}
    (he : lraNewRel n r a b = some (l, n')) (hns : n'.lra.vals.length = n.lra.vals.length) :
    NetInv n' orig L [] ∧ (∀ α, TModel n' α → TModel n α) ∧ n'.sat.trailLim = [] ∧ n'.sat.dead = n.sat.dead ∧
      n'.sat.queue = n.sat.queue := by
  unfold lraNewRel at he
  cases hv : Lra.newRel n.sat n.lra r a b with
  | none => rw [hv] at he; simp at he
  | some res =>
    obtain ⟨l1, s', t', bs⟩ := res
    rw [hv] at he
    simp only [Option.map_some, Option.some.injEq, Prod.mk.injEq] at he
    obtain ⟨rfl, rfl⟩ := he
    have hg := (Lra.newRel_good h.reg.good ha hb hv).1
    have hns' : t'.vals.length = n.lra.vals.length := hns
    cases Lra.newRel_outcome hv with
    | decidedExpr h0 hs ht hb' =>
      subst hs; subst ht
      obtain ⟨k1, k2⟩ := h.lraExt hroot (n.bound ++ bs.toList.map (fun v => (v, Th.lra))) h.sat (fun _ _ hh => hh) hroot
        (Nat.le_refl _) (LraExt.exprs h n.lra.exprs hg)
      exact ⟨k1, k2, hroot, rfl, rfl⟩
    | decidedSlack slack h0 hvl h1 hs hb' =>
      subst hs
      obtain ⟨ex, rfl⟩ := newVarLin_noSlack hvl hns'
      obtain ⟨k1, k2⟩ := h.lraExt hroot (n.bound ++ bs.toList.map (fun v => (v, Th.lra))) h.sat (fun _ _ hh => hh) hroot
        (Nat.le_refl _) (LraExt.exprs h ex hg)
      exact ⟨k1, k2, hroot, rfl, rfl⟩
    | cached slack h0 hvl h1 hf hs hb' =>
      subst hs
      obtain ⟨ex, rfl⟩ := newVarLin_noSlack hvl hns'
      obtain ⟨k1, k2⟩ := h.lraExt hroot (n.bound ++ bs.toList.map (fun v => (v, Th.lra))) h.sat (fun _ _ hh => hh) hroot
        (Nat.le_refl _) (LraExt.exprs h ex hg)
      exact ⟨k1, k2, hroot, rfl, rfl⟩
    | fresh slack t1 h0 hvl h1 hf hl hs ht hb' =>
      subst hs; subst ht
      have hns1 : t1.vals.length = n.lra.vals.length := hns'
      obtain ⟨ex, rfl⟩ := newVarLin_noSlack hvl hns1
      obtain ⟨k1, k2⟩ := h.lraExt hroot (n.bound ++ bs.toList.map (fun v => (v, Th.lra))) h.sat.newVar (satLe_newVar _)
        (show n.sat.newVar.2.trailLim = [] from hroot) (by show n.sat.vals.length ≤ (n.sat.vals ++ [none]).length; simp)
        (LraExt.relReg h ex _ slack _ hg)
      exact ⟨k1, k2, hroot, rfl, rfl⟩

/-- a relation request that creates no slack variable keeps the tableau -/
theorem lraNewRel_tableau {n : Net} {r : LRel} {a b : Lin} {l : Lit} {n' : Net}
    (he : lraNewRel n r a b = some (l, n')) (hns : n'.lra.vals.length = n.lra.vals.length) :
    n'.lra.tableau = n.lra.tableau := by
  unfold lraNewRel at he
  cases hv : Lra.newRel n.sat n.lra r a b with
  | none => rw [hv] at he; simp at he
  | some res =>
    obtain ⟨l1, s', t', bs⟩ := res
    rw [hv] at he
    simp only [Option.map_some, Option.some.injEq, Prod.mk.injEq] at he
    obtain ⟨rfl, rfl⟩ := he
    have hns' : t'.vals.length = n.lra.vals.length := hns
    show t'.tableau = n.lra.tableau
    cases Lra.newRel_outcome hv with
    | decidedExpr h0 hs ht hb' => rw [ht]
    | decidedSlack slack h0 hvl h1 hs hb' =>
      obtain ⟨ex, rfl⟩ := newVarLin_noSlack hvl hns'
      rfl
    | cached slack h0 hvl h1 hf hs hb' =>
      obtain ⟨ex, rfl⟩ := newVarLin_noSlack hvl hns'
      rfl
    | fresh slack t1 h0 hvl h1 hf hl hs ht hb' =>
      subst ht
      have hns1 : t1.vals.length = n.lra.vals.length := hns'
      obtain ⟨ex, rfl⟩ := newVarLin_noSlack hvl hns1
      rfl

theorem lraNewVarLin_tableau {n : Net} {l : Lin} {v : Nat} {n' : Net}
    (he : lraNewVarLin n l = some (v, n')) (hns : n'.lra.vals.length = n.lra.vals.length) :
    n'.lra.tableau = n.lra.tableau := by
  unfold lraNewVarLin at he
  cases hv : Lra.newVarLin n.sat n.lra l with
  | none => rw [hv] at he; simp at he
  | some res =>
    obtain ⟨slack, t1⟩ := res
    rw [hv] at he
    simp only [Option.map_some, Option.some.injEq, Prod.mk.injEq] at he
    obtain ⟨rfl, rfl⟩ := he
    obtain ⟨ex, rfl⟩ := newVarLin_noSlack hv hns
    rfl

end Net
end Oratio
