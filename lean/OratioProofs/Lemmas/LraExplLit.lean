/-
C09X, part 7: `propagate(lit)`: the caller's obligation of `assert_lower / assert_upper` is
discharged by the meaning of the assertion literals.
-/
import OratioProofs.Lemmas.LraExplAssert

namespace Oratio
namespace Lra
open IR Lin

theorem value_of_var {s : Sat} {p : Lit} (hp : s.value p = some true) : s.value ⟨p.var, true⟩ = some p.sign := by
  unfold Sat.value litValue at hp ⊢
  cases hv : s.vals.getD p.var none with
  | none => simp only [hv] at hp; cases hp
  | some b =>
    simp only [hv] at hp ⊢
    cases hsg : p.sign <;> simp [hsg] at hp ⊢ <;> exact hp

theorem alpha_of_var {α : Asg} {p : Lit} (hp : α.lit p = true) : α.lit ⟨p.var, true⟩ = p.sign := by
  unfold Asg.lit at hp ⊢
  cases hsg : p.sign <;> simp [hsg] at hp ⊢ <;> exact hp

theorem propagateLit_valid {t : Lra} (inv : ExplInv t) (hkey : AsrtKey t) (hvars : AsrtVars t) (s : Sat) (p : Lit)
    (hsp : s.value p = some true) {α : Asg} {σr σi : Nat → Rat}
    (hs : Solves t σr σi) (hj : BoundsJust α σr σi t) (ha : AsrtAgrees α σr σi t) (hαp : α.lit p = true) :
    OutOK (Tr α) s ((propagateLit s t p).cnfl, (propagateLit s t p).sat) ∧
    BoundsJust α σr σi (propagateLit s t p).th ∧ Solves (propagateLit s t p).th σr σi ∧
    AsrtAgrees α σr σi (propagateLit s t p).th ∧ ExplInv (propagateLit s t p).th := by
  unfold propagateLit
  cases hab : t.asrtOf p.var with
  | none => exact ⟨okN α s, hj, hs, ha, inv⟩
  | some a =>
    have hm := asrtOf_mem hab
    have hb : a.b = ⟨p.var, true⟩ := hkey _ hm
    have hfin : IR.Fin a.v := inv.aok _ hm
    have hxi : ubIdx a.x < t.bounds.length := by
      have := hvars _ hm
      have hl := inv.blen
      unfold BoundsLen at hl
      unfold ubIdx
      simp only at this
      omega
    have hsv : s.value a.b = some p.sign := by rw [hb]; exact value_of_var hsp
    have hαb : α.lit a.b = p.sign := by rw [hb]; exact alpha_of_var hαp
    have hag := ha _ hm
    simp only [hsv]
    cases hsg : p.sign
    · rw [hsg] at hαb
      simp only
      cases ho : a.o
      · simp only [ho] at hag
        rw [if_pos rfl]
        obtain ⟨f1, f2⟩ := fin_add_eps hfin
        exact assertLower_valid inv s p f1 hxi hs hj ha (fun _ => by rw [f2]; exact hag.2 hαb)
      · simp only [ho] at hag
        rw [if_neg (by intro h; cases h)]
        obtain ⟨f1, f2⟩ := fin_sub_eps hfin
        exact assertUpper_valid inv s p f1 hxi hs hj ha (fun _ => by rw [f2]; exact hag.2 hαb)
    · rw [hsg] at hαb
      simp only
      cases ho : a.o
      · simp only [ho] at hag
        rw [if_pos rfl]
        exact assertUpper_valid inv s p hfin hxi hs hj ha (fun _ => hag.1 hαb)
      · simp only [ho] at hag
        rw [if_neg (by intro h; cases h)]
        exact assertLower_valid inv s p hfin hxi hs hj ha (fun _ => hag.1 hαb)

end Lra
end Oratio
