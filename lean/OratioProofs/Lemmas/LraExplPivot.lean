/-
C09X, part 3: the invariant `ValsOK` (the current assignment is finite and solves the tableau) is
kept by `pivot_and_update`, hence by `check`; transfer of `Solves` along `SameSol`.
-/
import OratioProofs.Lemmas.LraExplArith

namespace Oratio
namespace Lra
open Lin

/-! ### `Solves` in terms of the inhomogeneous rows only -/

theorem sumS_add (σ τ : Nat → Rat) (m : List (Nat × R)) :
    sumS (fun x => σ x + τ x) m = sumS σ m + sumS τ m := by
  induction m with
  | nil => simp
  | cons a m ih =>
    obtain ⟨k, c⟩ := a
    rw [sumS_cons, sumS_cons, sumS_cons, ih]
    ring

theorem evalS_add_homog (l : Lin) (σ τ : Nat → Rat) :
    evalS l (fun x => σ x + τ x) = evalS l σ + evalS { l with known := R.zero } τ := by
  rw [evalS_eq, evalS_eq, evalS_eq, sumS_add]
  show _ = _ + (_ + R.zero.toRat)
  rw [R.toRat_zero]
  ring

/-- the rows hold (with their known terms) -/
def Rows (t : Lra) (σ : Nat → Rat) : Prop := ∀ e ∈ t.tableau, σ e.1 = Lin.evalS e.2 σ

theorem solves_iff_rows (t : Lra) (σr σi : Nat → Rat) :
    Solves t σr σi ↔ Rows t σr ∧ Rows t (fun x => σr x + σi x) := by
  constructor
  · rintro ⟨h1, h2⟩
    refine ⟨h1, fun e he => ?_⟩
    rw [evalS_add_homog, ← h1 e he, ← h2 e he]
  · rintro ⟨h1, h2⟩
    refine ⟨h1, fun e he => ?_⟩
    have a := h1 e he
    have b := h2 e he
    rw [evalS_add_homog] at b
    simp only at b
    linarith

/-- states with the same solutions of the rows have the same ε-solutions -/
theorem SameSol.solves {t t' : Lra} (h : SameSol t t') (σr σi : Nat → Rat) :
    Solves t σr σi ↔ Solves t' σr σi := by
  rw [solves_iff_rows, solves_iff_rows]
  exact and_congr (h.2 σr) (h.2 (fun x => σr x + σi x))

/-! ### the loop of `pivot_and_update` on `vals` -/

/-- the loop body of `pivot_and_update` on `vals` -/
def pauStep (t : Lra) (xi xj : Nat) (θ : IR) (vals : List IR) (x : Nat) : List IR :=
  if x != xi then
    vals.set x (IR.addAssign (vals.getD x (IR.ofR R.zero)) (IR.rMul (updCoef t xj x) θ))
  else vals

theorem pau_fold (t : Lra) (xi xj : Nat) (θ : IR) : ∀ (W : List Nat) (u : Lra), u.tableau = t.tableau →
    W.foldl (fun t x =>
      if x != xi then
        let a := (Lin.find ((t.rowOf x).getD Lin.empty).vars xj).getD R.zero
        t.setVal x (IR.addAssign (t.value x) (IR.rMul a θ))
      else t) u =
      { u with vals := W.foldl (pauStep t xi xj θ) u.vals } := by
  intro W
  induction W with
  | nil => intro u _; rfl
  | cons x W ih =>
    intro u hu
    rw [List.foldl_cons, List.foldl_cons]
    have hrow : u.rowOf x = t.rowOf x := by rw [rowOf_eq, rowOf_eq, hu]
    have hstep : (if x != xi then
        let a := (Lin.find ((u.rowOf x).getD Lin.empty).vars xj).getD R.zero
        u.setVal x (IR.addAssign (u.value x) (IR.rMul a θ))
      else u) = { u with vals := pauStep t xi xj θ u.vals x } := by
      unfold pauStep
      split
      · simp only [hrow]
        rfl
      · rfl
    rw [hstep, ih { u with vals := pauStep t xi xj θ u.vals x } hu]

theorem pauFold_spec (t : Lra) (xi xj : Nat) (θ : IR) : ∀ (W : List Nat) (vals : List IR),
    W.Nodup → (∀ x ∈ W, x < vals.length) →
    (W.foldl (pauStep t xi xj θ) vals).length = vals.length ∧
    ∀ y, (W.foldl (pauStep t xi xj θ) vals).getD y (IR.ofR R.zero) =
      if y ∈ W ∧ y ≠ xi then IR.addAssign (vals.getD y (IR.ofR R.zero)) (IR.rMul (updCoef t xj y) θ)
      else vals.getD y (IR.ofR R.zero) := by
  intro W
  induction W with
  | nil => intro vals _ _; exact ⟨rfl, fun y => by simp⟩
  | cons x W ih =>
    intro vals hnd hb
    rw [List.nodup_cons] at hnd
    have hlen1 : (pauStep t xi xj θ vals x).length = vals.length := by
      unfold pauStep; split <;> simp
    have hxlt : x < vals.length := hb x List.mem_cons_self
    obtain ⟨i1, i2⟩ := ih (pauStep t xi xj θ vals x) hnd.2
      (fun y hy => by rw [hlen1]; exact hb y (List.mem_cons_of_mem _ hy))
    rw [List.foldl_cons]
    refine ⟨i1.trans hlen1, ?_⟩
    intro y
    rw [i2 y]
    have hother : ∀ z, z ≠ x → (pauStep t xi xj θ vals x).getD z (IR.ofR R.zero) = vals.getD z (IR.ofR R.zero) := by
      intro z hz
      unfold pauStep
      split
      · rw [getD_set_ne _ _ _ _ _ (fun h => hz h.symm)]
      · rfl
    by_cases hyW : y ∈ W
    · have hyx : y ≠ x := fun h => hnd.1 (h ▸ hyW)
      by_cases hyi : y = xi
      · rw [if_neg (fun h => h.2 hyi), if_neg (fun h => h.2 hyi), hother y hyx]
      · rw [if_pos ⟨hyW, hyi⟩, if_pos ⟨List.mem_cons_of_mem _ hyW, hyi⟩, hother y hyx]
    · rw [if_neg (fun h => hyW h.1)]
      by_cases hyx : y = x
      · subst hyx
        by_cases hyi : y = xi
        · rw [if_neg (fun h => h.2 hyi)]
          unfold pauStep
          rw [if_neg (by simp [hyi])]
        · rw [if_pos ⟨List.mem_cons_self, hyi⟩]
          unfold pauStep
          rw [if_pos (by simp [hyi]), getD_set_self _ _ _ _ hxlt]
      · rw [if_neg (by simp [hyx, hyW]), hother y hyx]

theorem pauPre_eq (t : Lra) (xi xj : Nat) (v : IR) :
    pauPre t xi xj v =
      { t with vals :=
          let θ := IR.divR (IR.sub v (t.value xi)) ((Lin.find ((t.rowOf xi).getD Lin.empty).vars xj).getD R.zero)
          let v1 := t.vals.set xi v
          let v2 := v1.set xj (IR.addAssign (v1.getD xj (IR.ofR R.zero)) θ)
          (t.tWatches.getD xj []).foldl (pauStep t xi xj θ) v2 } := by
  unfold pauPre
  exact pau_fold t xi xj _ _ _ rfl

/-- bounds-only predicates move along equal `bounds` -/
theorem lb_congr {t u : Lra} (h : u.bounds = t.bounds) (x : Nat) : u.lb x = t.lb x := by
  unfold Lra.lb Lra.bnd; rw [h]
theorem ub_congr {t u : Lra} (h : u.bounds = t.bounds) (x : Nat) : u.ub x = t.ub x := by
  unfold Lra.ub Lra.bnd; rw [h]
theorem lbReason_congr {t u : Lra} (h : u.bounds = t.bounds) (x : Nat) : u.lbReason x = t.lbReason x := by
  unfold Lra.lbReason Lra.bnd; rw [h]
theorem ubReason_congr {t u : Lra} (h : u.bounds = t.bounds) (x : Nat) : u.ubReason x = t.ubReason x := by
  unfold Lra.ubReason Lra.bnd; rw [h]

theorem boundsOK_congr {t u : Lra} (h : u.bounds = t.bounds) (hb : BoundsOK t) : BoundsOK u := by
  intro x
  rw [lb_congr h, ub_congr h]
  exact hb x

/-! ### `pivot_and_update` keeps the rows satisfied by the current assignment -/

/-- `π` is one of the two components of `inf_rational` (with division) -/
structure IsCompD (π : IR → R) : Prop extends IsComp π where
  div : ∀ a c, π (IR.divR a c) = R.div (π a) c

theorem isCompD_rat : IsCompD IR.rat := ⟨isComp_rat, fun _ _ => rfl⟩
theorem isCompD_inf : IsCompD IR.inf := ⟨isComp_inf, fun _ _ => rfl⟩

theorem pauPre_holds {π : IR → R} (hπ : IsCompD π) {t : Lra} (ht : TabWF t) {xi xj : Nat} {l : Lin}
    (hl : t.rowOf xi = some l) {cf : R} (hcf : Lin.find l.vars xj = some cf) (hn : cf.num ≠ 0)
    (hfin : ∀ x, R.FinWF (π (t.value x))) {v : IR} (hv : R.FinWF (π v)) (c : Lin → Rat)
    (h : ∀ e ∈ t.tableau, (π (t.value e.1)).toRat = Lin.evalS e.2 (fun x => (π (t.value x)).toRat) - c e.2) :
    (∀ x, R.FinWF (π ((pauPre t xi xj v).value x))) ∧
    (∀ e ∈ t.tableau,
      (π ((pauPre t xi xj v).value e.1)).toRat =
        Lin.evalS e.2 (fun x => (π ((pauPre t xi xj v).value x)).toRat) - c e.2) := by
  obtain ⟨hi, hlen⟩ := (tabWF_iff t).1 ht
  have hxjnb : t.rowOf xj = none := hi.nonbasic xi l xj hl (by rw [hcf]; rfl)
  have hne : xi ≠ xj := fun e => by rw [e, hxjnb] at hl; cases hl
  have hxilt : xi < t.vals.length := by rw [← hlen]; exact (hi.bound xi l hl).1
  have hxjlt : xj < t.vals.length := by rw [← hlen]; exact (hi.bound xi l hl).2 xj (by rw [hcf]; rfl)
  have hWnd : (t.tWatches.getD xj []).Nodup :=
    List.Pairwise.imp (fun h => Nat.ne_of_lt h) (getD_sorted hi.wsorted xj)
  have hWbasic : ∀ x ∈ t.tWatches.getD xj [], ∃ l, t.rowOf x = some l ∧ (Lin.find l.vars xj).isSome = true :=
    fun x hx => (hi.watch xj x).1 hx
  have hxjW : xj ∉ t.tWatches.getD xj [] := by
    intro hx
    obtain ⟨l', hl', -⟩ := hWbasic xj hx
    rw [hxjnb] at hl'
    cases hl'
  -- the step
  have haij : (Lin.find ((t.rowOf xi).getD Lin.empty).vars xj).getD R.zero = cf := by
    rw [hl]; show (Lin.find l.vars xj).getD R.zero = cf; rw [hcf]; rfl
  have hcfw : R.FinWF cf := coefWF_find ((wf_iff l).1 (hi.rows xi l hl)).2.1 hcf
  set θ := IR.divR (IR.sub v (t.value xi)) cf with hθ
  have hv2len : ((t.vals.set xi v).set xj (IR.addAssign ((t.vals.set xi v).getD xj (IR.ofR R.zero)) θ)).length
      = t.vals.length := by rw [List.length_set, List.length_set]
  have hWb : ∀ x ∈ t.tWatches.getD xj [],
      x < ((t.vals.set xi v).set xj (IR.addAssign ((t.vals.set xi v).getD xj (IR.ofR R.zero)) θ)).length := by
    intro x hx
    obtain ⟨l', hl', -⟩ := hWbasic x hx
    rw [hv2len, ← hlen]
    exact (hi.bound x l' hl').1
  obtain ⟨-, f2⟩ := pauFold_spec t xi xj θ _ _ hWnd hWb
  have hval : ∀ y, (pauPre t xi xj v).value y =
      if y = xi then v
      else if y = xj then IR.addAssign (t.value xj) θ
      else if y ∈ t.tWatches.getD xj [] then IR.addAssign (t.value y) (IR.rMul (updCoef t xj y) θ)
      else t.value y := by
    intro y
    have e0 : (pauPre t xi xj v).value y =
        (List.foldl (pauStep t xi xj θ) ((t.vals.set xi v).set xj
          (IR.addAssign ((t.vals.set xi v).getD xj (IR.ofR R.zero)) θ)) (t.tWatches.getD xj [])).getD y
          (IR.ofR R.zero) := by
      rw [pauPre_eq, hθ, ← haij]
      rfl
    rw [e0, f2 y]
    have hxjv : (t.vals.set xi v).getD xj (IR.ofR R.zero) = t.value xj := by
      rw [getD_set_ne _ _ _ _ _ hne]; rfl
    by_cases hyi : y = xi
    · subst hyi
      rw [if_neg (fun h => h.2 rfl), if_pos rfl, getD_set_ne _ _ _ _ _ (fun e => hne e.symm),
        getD_set_self _ _ _ _ hxilt]
    · rw [if_neg hyi]
      by_cases hyj : y = xj
      · subst hyj
        rw [if_neg (fun h => hxjW h.1), if_pos rfl,
          getD_set_self _ _ _ _ (by rw [List.length_set]; exact hxjlt), hxjv]
      · rw [if_neg hyj]
        have hbase : ((t.vals.set xi v).set xj (IR.addAssign ((t.vals.set xi v).getD xj (IR.ofR R.zero)) θ)).getD y
            (IR.ofR R.zero) = t.value y := by
          rw [getD_set_ne _ _ _ _ _ (fun e => hyj e.symm), getD_set_ne _ _ _ _ _ (fun e => hyi e.symm)]
          rfl
        by_cases hyW : y ∈ t.tWatches.getD xj []
        · rw [if_pos ⟨hyW, hyi⟩, if_pos hyW, hbase]
        · rw [if_neg (fun h => hyW h.1), if_neg hyW, hbase]
  have hcoef : ∀ y, R.FinWF (updCoef t xj y) := by
    intro y
    unfold updCoef
    cases hr : t.rowOf y with
    | none => exact R.finWF_zero
    | some l' => exact getD_finWF ((wf_iff l').1 (hi.rows y l' hr)).2.1 xj
  have hdelta := toRat_sub hv (hfin xi)
  have hθπ : R.FinWF (π θ) ∧ (π θ).toRat = ((π v).toRat - (π (t.value xi)).toRat) / cf.toRat := by
    rw [hθ, hπ.div, hπ.sub]
    obtain ⟨d1, d2⟩ := R.div_fin hdelta.1 hcfw hn
    exact ⟨d1, by rw [d2, hdelta.2]⟩
  have hnew : ∀ (a : R) (y : Nat), R.FinWF a →
      R.FinWF (π (IR.addAssign (t.value y) (IR.rMul a θ))) ∧
      (π (IR.addAssign (t.value y) (IR.rMul a θ))).toRat = (π (t.value y)).toRat + a.toRat * (π θ).toRat := by
    intro a y ha
    rw [hπ.add, hπ.mul]
    have hm := R.mul_fin ha hθπ.1
    refine ⟨R.finWF_addAssign (hfin y) hm.1, ?_⟩
    rw [R.toRat_addAssign (hfin y) hm.1, hm.2]
  have hxjnew : R.FinWF (π (IR.addAssign (t.value xj) θ)) ∧
      (π (IR.addAssign (t.value xj) θ)).toRat = (π (t.value xj)).toRat + (π θ).toRat := by
    rw [hπ.add]
    exact ⟨R.finWF_addAssign (hfin xj) hθπ.1, R.toRat_addAssign (hfin xj) hθπ.1⟩
  constructor
  · intro x
    rw [hval]
    split
    · exact hv
    · split
      · exact hxjnew.1
      · split
        · exact (hnew _ x (hcoef x)).1
        · exact hfin x
  · intro e he
    have hr : t.rowOf e.1 = some e.2 := tabFind_of_mem hi.keys he
    -- the variables of the row other than `xj` keep their values
    have hkeep : ∀ k, (Lin.find e.2.vars k).isSome = true → k ≠ xj →
        (π ((pauPre t xi xj v).value k)).toRat = (π (t.value k)).toRat := by
      intro k hk hkx
      have hknb : t.rowOf k = none := hi.nonbasic e.1 e.2 k hr hk
      rw [hval, if_neg (fun e' => by rw [e', hl] at hknb; cases hknb), if_neg hkx, if_neg]
      intro hkW
      obtain ⟨l', hl', -⟩ := hWbasic k hkW
      rw [hknb] at hl'
      cases hl'
    have hold := h e he
    rw [evalS_change_one (hi.rows e.1 e.2 hr) xj hkeep]
    have hxjv : (π ((pauPre t xi xj v).value xj)).toRat = (π (t.value xj)).toRat + (π θ).toRat := by
      rw [hval, if_neg (fun e' => hne e'.symm), if_pos rfl]; exact hxjnew.2
    rw [hxjv]
    have hcfne : cf.toRat ≠ 0 := toRat_ne_zero hcfw hn
    by_cases hei : e.1 = xi
    · have he2 : e.2 = l := by rw [hei, hl] at hr; cases hr; rfl
      rw [hval, if_pos hei, he2, hcf]
      rw [hei, he2] at hold
      show (π v).toRat = _ + cf.toRat * _ - _
      rw [hθπ.2]
      field_simp
      linarith
    · have hej : e.1 ≠ xj := fun e' => by rw [e', hxjnb] at hr; cases hr
      rw [hval, if_neg hei, if_neg hej]
      by_cases hW : e.1 ∈ t.tWatches.getD xj []
      · rw [if_pos hW, (hnew _ e.1 (hcoef e.1)).2, hold]
        have hc : updCoef t xj e.1 = (Lin.find e.2.vars xj).getD R.zero := by
          unfold updCoef
          rw [hr]
          rfl
        rw [hc]
        ring
      · rw [if_neg hW]
        have : Lin.find e.2.vars xj = none := by
          cases hf : Lin.find e.2.vars xj with
          | none => rfl
          | some c => exact absurd ((hi.watch xj e.1).2 ⟨e.2, hr, by rw [hf]; rfl⟩) hW
        rw [this, hold]
        show _ = _ + R.zero.toRat * _ - _
        rw [R.toRat_zero]
        ring

/-- `pivot_and_update(x_i, x_j, v)` keeps the current assignment finite and a solution of the
    tableau: `x_i` basic with row `l`, `x_j` with a non-zero coefficient in `l`, `v` finite -/
theorem valsOK_pivotAndUpdate {t : Lra} (ht : TabWF t) (hv : ValsOK t) {xi xj : Nat} {l : Lin}
    (hl : t.rowOf xi = some l) (hxj : (l.coeff xj).num ≠ 0) {v : IR} (hvf : IR.Fin v) :
    ValsOK (t.pivotAndUpdate xi xj v) := by
  obtain ⟨cf, hcf, hn⟩ := coeff_num_ne_zero hxj
  obtain ⟨r1, r2⟩ := pauPre_holds isCompD_rat ht hl hcf hn (fun x => (hv.1 x).1) hvf.1 (fun _ => 0)
    (fun e he => by rw [sub_zero]; exact hv.2.1 e he)
  obtain ⟨i1, i2⟩ := pauPre_holds isCompD_inf ht hl hcf hn (fun x => (hv.1 x).2) hvf.2 (fun l => l.known.toRat)
    (fun e he => by rw [← evalS_homog]; exact hv.2.2 e he)
  -- the state that is pivoted
  have hu : (pauPre t xi xj v).tableau = t.tableau ∧ (pauPre t xi xj v).tWatches = t.tWatches ∧
      (pauPre t xi xj v).vals.length = t.vals.length := by
    obtain ⟨u, u1, u2, u3, u4⟩ := pivotAndUpdate_eq t xi xj v
    rw [pauPre_eq]
    refine ⟨rfl, rfl, ?_⟩
    have := pauPre_eq t xi xj v
    have hlen : (pauPre t xi xj v).vals.length = t.vals.length := by
      unfold pauPre
      refine (C09_foldl_inv (fun (u : Lra) => u.vals.length = t.vals.length) _ ?_ _ _ ?_)
      · intro u x hu
        dsimp only
        split
        · show (u.vals.set _ _).length = _
          rw [List.length_set]; exact hu
        · exact hu
      · show ((t.vals.set _ _).set _ _).length = _
        rw [List.length_set, List.length_set]
    rw [this] at hlen
    exact hlen
  have hwfu : TabWF (pauPre t xi xj v) := tabWF_congr hu.1 hu.2.1 hu.2.2 ht
  have hlu : (pauPre t xi xj v).rowOf xi = some l := by rw [rowOf_eq, hu.1, ← rowOf_eq]; exact hl
  have hsu : Solves (pauPre t xi xj v) (pauPre t xi xj v).ratAssign (pauPre t xi xj v).infAssign := by
    rw [Solves, hu.1]
    refine ⟨fun e he => ?_, fun e he => ?_⟩
    · have := r2 e he
      rw [sub_zero] at this
      exact this
    · rw [evalS_homog]
      exact i2 e he
  have hss : SameSol (pauPre t xi xj v) ((pauPre t xi xj v).pivot xi xj) :=
    ⟨tabWF_pivot hwfu hlu hxj, fun σ => pivot_holds hwfu hlu hxj σ⟩
  rw [pivotAndUpdate_def]
  have hvals := (pivot_vals_bounds (pauPre t xi xj v) xi xj).1
  have hvalue : ∀ x, ((pauPre t xi xj v).pivot xi xj).value x = (pauPre t xi xj v).value x := by
    intro x; unfold Lra.value; rw [hvals]
  have hra : ((pauPre t xi xj v).pivot xi xj).ratAssign = (pauPre t xi xj v).ratAssign := by
    funext x; unfold ratAssign; rw [hvalue]
  have hia : ((pauPre t xi xj v).pivot xi xj).infAssign = (pauPre t xi xj v).infAssign := by
    funext x; unfold infAssign; rw [hvalue]
  refine ⟨fun x => ?_, ?_⟩
  · rw [hvalue]; exact ⟨r1 x, i1 x⟩
  · rw [hra, hia]
    exact (hss.solves _ _).1 hsu

/-! ### `check` -/

/-- `check()` keeps `ValsOK` (given the tableau invariant and well-formed bounds) -/
theorem valsOK_check (fuel : Nat) : ∀ (t t' : Lra) (c : Option (List Lit)), TabWF t → BoundsOK t → ValsOK t →
    t.check fuel = some (c, t') → ValsOK t' := by
  induction fuel with
  | zero => intro t t' c _ _ _ h; simp [check] at h
  | succ n ih =>
    intro t t' c ht hb hv h
    simp only [check] at h
    split at h
    · simp only [Option.some.injEq, Prod.mk.injEq] at h
      rw [← h.2]; exact hv
    · next xi fl hf =>
      split at h
      · next hlt =>
        split at h
        · next xj cj hq =>
          obtain ⟨hrow, hne⟩ := check_pivot_hyps ht hf hq (by
            intro e he
            simp only [Bool.or_eq_true, Bool.and_eq_true] at he
            rcases he with he | he
            · exact Or.inl he.1
            · exact Or.inr he.1)
          have hs := sameSol_pivotAndUpdate ht hrow hne (t.lb xi)
          have hbf := (lb_of_lt (hv.1 xi) (hb xi).1 hlt).1
          have hb' : BoundsOK (t.pivotAndUpdate xi xj (t.lb xi)) :=
            boundsOK_congr ((C09_core_iff _ _).1 (C09_core_pivotAndUpdate t xi xj (t.lb xi))).1 hb
          exact ih _ _ _ hs.1 hb' (valsOK_pivotAndUpdate ht hv hrow hne hbf) h
        · simp only [Option.some.injEq, Prod.mk.injEq] at h
          rw [← h.2]; exact hv
      · split at h
        · next hgt =>
          split at h
          · next xj cj hq =>
            obtain ⟨hrow, hne⟩ := check_pivot_hyps ht hf hq (by
              intro e he
              simp only [Bool.or_eq_true, Bool.and_eq_true] at he
              rcases he with he | he
              · exact Or.inr he.1
              · exact Or.inl he.1)
            have hs := sameSol_pivotAndUpdate ht hrow hne (t.ub xi)
            have hbf := (ub_of_gt (hv.1 xi) (hb xi).2 hgt).1
            have hb' : BoundsOK (t.pivotAndUpdate xi xj (t.ub xi)) :=
              boundsOK_congr ((C09_core_iff _ _).1 (C09_core_pivotAndUpdate t xi xj (t.ub xi))).1 hb
            exact ih _ _ _ hs.1 hb' (valsOK_pivotAndUpdate ht hv hrow hne hbf) h
          · simp only [Option.some.injEq, Prod.mk.injEq] at h
            rw [← h.2]; exact hv
        · exact ih _ _ _ ht hb hv h

/-- induction along the pivots of `check`: a property kept by every `pivot_and_update(x_i, x_j, v)`
    that `check` can perform (row of `x_i` has a non-zero coefficient for `x_j`; `v` is the violated
    bound of `x_i`) holds of the final state -/
theorem check_induct (P : Lra → Prop)
    (hstep : ∀ (t : Lra) (xi xj : Nat) (l : Lin) (v : IR), TabWF t → P t → t.rowOf xi = some l →
      (l.coeff xj).num ≠ 0 →
      ((v = t.lb xi ∧ IR.lt (t.value xi) (t.lb xi) = true) ∨ (v = t.ub xi ∧ IR.gt (t.value xi) (t.ub xi) = true)) →
      P (t.pivotAndUpdate xi xj v))
    (fuel : Nat) : ∀ (t t' : Lra) (c : Option (List Lit)), TabWF t → P t →
    t.check fuel = some (c, t') → P t' := by
  induction fuel with
  | zero => intro t t' c _ _ h; simp [check] at h
  | succ n ih =>
    intro t t' c ht hP h
    simp only [check] at h
    split at h
    · simp only [Option.some.injEq, Prod.mk.injEq] at h
      rw [← h.2]; exact hP
    · next xi fl hf =>
      split at h
      · next hlt =>
        split at h
        · next xj cj hq =>
          obtain ⟨hrow, hne⟩ := check_pivot_hyps ht hf hq (by
            intro e he
            simp only [Bool.or_eq_true, Bool.and_eq_true] at he
            rcases he with he | he
            · exact Or.inl he.1
            · exact Or.inr he.1)
          have hs := sameSol_pivotAndUpdate ht hrow hne (t.lb xi)
          exact ih _ _ _ hs.1 (hstep t xi xj fl _ ht hP hrow hne (Or.inl ⟨rfl, hlt⟩)) h
        · simp only [Option.some.injEq, Prod.mk.injEq] at h
          rw [← h.2]; exact hP
      · split at h
        · next hgt =>
          split at h
          · next xj cj hq =>
            obtain ⟨hrow, hne⟩ := check_pivot_hyps ht hf hq (by
              intro e he
              simp only [Bool.or_eq_true, Bool.and_eq_true] at he
              rcases he with he | he
              · exact Or.inr he.1
              · exact Or.inl he.1)
            have hs := sameSol_pivotAndUpdate ht hrow hne (t.ub xi)
            exact ih _ _ _ hs.1 (hstep t xi xj fl _ ht hP hrow hne (Or.inr ⟨rfl, hgt⟩)) h
          · simp only [Option.some.injEq, Prod.mk.injEq] at h
            rw [← h.2]; exact hP
        · exact ih _ _ _ ht hP h

theorem pivotAndUpdate_vals_length (t : Lra) (xi xj : Nat) (v : IR) :
    (t.pivotAndUpdate xi xj v).vals.length = t.vals.length := by
  obtain ⟨u, _, _, u3, u4⟩ := pivotAndUpdate_eq t xi xj v
  rw [u4, (pivot_vals_bounds u xi xj).1, u3]

theorem check_vals_length {t t' : Lra} {fuel : Nat} {c : Option (List Lit)} (ht : TabWF t)
    (h : t.check fuel = some (c, t')) : t'.vals.length = t.vals.length :=
  check_induct (fun u => u.vals.length = t.vals.length)
    (fun u xi xj l v _ hP _ _ _ => by rw [pivotAndUpdate_vals_length]; exact hP) fuel t t' c ht rfl h

end Lra
end Oratio
