/-
C07: the root-level operations `new_clause`, `new_var` and the invariants.
-/
import OratioModel
import OratioProofs.Lemmas.SatCoreOps
import OratioProofs.Lemmas.SatCoreQuiet

set_option linter.unusedSimpArgs false
set_option linter.unusedVariables false

namespace Oratio

/-! ### more about `scanClause` and `sortByVar` -/

theorem Enc.insertByVar_sorted (x : Lit) : ∀ l : List Lit, l.Pairwise (fun a b => a.var ≤ b.var) →
    (Enc.insertByVar x l).Pairwise (fun a b => a.var ≤ b.var)
  | [], _ => by simp [Enc.insertByVar]
  | y :: t, h => by
    unfold Enc.insertByVar
    rw [List.pairwise_cons] at h
    split
    · rename_i hle
      rw [List.pairwise_cons]
      refine ⟨?_, List.pairwise_cons.2 h⟩
      intro z hz
      rcases List.mem_cons.1 hz with rfl | hz
      · exact hle
      · exact Nat.le_trans hle (h.1 z hz)
    · rename_i hlt
      rw [List.pairwise_cons]
      refine ⟨?_, Enc.insertByVar_sorted x t h.2⟩
      intro z hz
      rcases (Enc.mem_insertByVar).1 hz with rfl | hz
      · omega
      · exact h.1 z hz

theorem Enc.sortByVar_sorted (l : List Lit) : (Enc.sortByVar l).Pairwise (fun a b => a.var ≤ b.var) := by
  induction l with
  | nil => simp [Enc.sortByVar]
  | cons x t ih => exact Enc.insertByVar_sorted x _ ih

theorem Enc.scanClause_nodup (s : Enc) : ∀ (c : List Lit) (p : Option Lit) (acc r : List Lit),
    c.Pairwise (fun a b => a.var ≤ b.var) → acc.Pairwise (fun a b => b.var < a.var) → p = acc.head? →
    (∀ a ∈ acc, ∀ l ∈ c, a.var ≤ l.var) → Enc.scanClause s c p acc = some r → (r.map Lit.var).Nodup
  | [], p, acc, r, _, hacc, _, _, h => by
    simp only [Enc.scanClause, Option.some.injEq] at h
    subst h
    rw [List.map_reverse, (List.reverse_perm _).nodup_iff]
    rw [List.Nodup, List.pairwise_map]
    exact hacc.imp (fun hlt => by omega)
  | l :: rest, p, acc, r, hc, hacc, hp, hle, h => by
    rw [List.pairwise_cons] at hc
    simp only [Enc.scanClause] at h
    split at h
    · cases h
    · rename_i hnot
      have hle' : ∀ a ∈ acc, ∀ x ∈ rest, a.var ≤ x.var := fun a ha x hx => hle a ha x (List.mem_cons_of_mem _ hx)
      split at h
      · rename_i hkeep
        simp only [Bool.or_eq_true, decide_eq_true_eq, not_or, Bool.and_eq_true] at hnot hkeep
        refine Enc.scanClause_nodup s rest (some l) (l :: acc) r hc.2 ?_ rfl ?_ h
        · rw [List.pairwise_cons]
          refine ⟨?_, hacc⟩
          intro a ha
          have h1 := hle a ha l (List.mem_cons_self ..)
          rcases Nat.lt_or_eq_of_le h1 with hlt | heq
          · exact hlt
          · exfalso
            -- `a` must be the head `p`
            cases acc with
            | nil => cases ha
            | cons q acc' =>
              simp only [List.head?_cons] at hp
              rw [List.pairwise_cons] at hacc
              have hq : a = q := by
                rcases List.mem_cons.1 ha with rfl | ha'
                · rfl
                · have h2 := hacc.1 a ha'
                  have h3 := hle q (List.mem_cons_self ..) l (List.mem_cons_self ..)
                  omega
              subst hq
              subst hp
              rcases Lit.eq_or_neg heq with e | e
              · exact hkeep.2 (by rw [e])
              · apply hnot.2
                simp only [Option.map_some, Option.some.injEq]
                rw [e]; simp
        · intro a ha x hx
          rcases List.mem_cons.1 ha with rfl | ha
          · exact hc.1 x hx
          · exact hle' a ha x hx
      · exact Enc.scanClause_nodup s rest p acc r hc.2 hacc hp hle' h

theorem Enc.scanClause_none (s : Enc) : ∀ (c : List Lit) (p : Option Lit) (acc : List Lit),
    Enc.scanClause s c p acc = none →
      (∃ l ∈ c, s.value l = some true) ∨ (∃ l ∈ c, p = some l.neg ∨ l.neg ∈ c)
  | [], p, acc, h => by simp [Enc.scanClause] at h
  | l :: rest, p, acc, h => by
    simp only [Enc.scanClause] at h
    split at h
    · rename_i hc
      simp only [Bool.or_eq_true, decide_eq_true_eq] at hc
      rcases hc with hc | hc
      · exact Or.inl ⟨l, List.mem_cons_self .., hc⟩
      · right
        refine ⟨l, List.mem_cons_self .., Or.inl ?_⟩
        cases p with
        | none => simp at hc
        | some q =>
          simp only [Option.map_some, Option.some.injEq] at hc
          rw [← hc]; simp
    · split at h
      · rcases Enc.scanClause_none s rest (some l) (l :: acc) h with ⟨x, hx, hv⟩ | ⟨x, hx, hh⟩
        · exact Or.inl ⟨x, List.mem_cons_of_mem _ hx, hv⟩
        · right
          refine ⟨x, List.mem_cons_of_mem _ hx, Or.inr ?_⟩
          rcases hh with hh | hh
          · simp only [Option.some.injEq] at hh
            rw [← hh]; exact List.mem_cons_self ..
          · exact List.mem_cons_of_mem _ hh
      · rcases Enc.scanClause_none s rest p acc h with ⟨x, hx, hv⟩ | ⟨x, hx, hh⟩
        · exact Or.inl ⟨x, List.mem_cons_of_mem _ hx, hv⟩
        · right
          refine ⟨x, List.mem_cons_of_mem _ hx, ?_⟩
          rcases hh with hh | hh
          · exact Or.inl hh
          · exact Or.inr (List.mem_cons_of_mem _ hh)

end Oratio

namespace Oratio
namespace Sat

/-- at root level a false literal can be dropped from an entailed clause -/
theorem ents_drop_false {F K : Cnf} {s : Sat} (ha : s.WfA) (he : s.Ent F K) (hroot : s.trailLim = [])
    {c r : Clause} (hc : Ents F c) (h : ∀ l ∈ c, l ∈ r ∨ s.value l = some false) : Ents F r := by
  intro α h0 hF
  have h1 := hc α h0 hF
  simp only [Asg.clause, List.any_eq_true] at h1 ⊢
  obtain ⟨l, hl, hv⟩ := h1
  rcases h l hl with hr | hf
  · exact ⟨l, hr, hv⟩
  · exfalso
    rcases (ha.value_false).1 hf with h2 | h2
    · have := he.trail _ h2 α h0 (by
        rw [ha.root_lvl hroot h2, decsUpTo_zero]
        simpa [units, Asg.cnf_append, Asg.cnf] using hF)
      simp only [Asg.clause, List.any_cons, List.any_nil, Bool.or_false] at this
      rw [Asg.lit_neg] at this
      simp [hv] at this
    · subst h2
      simp [Asg.lit, Lit.falseLit, h0] at hv

/-- a literal that is true at root level is true in every assignment that satisfies the root literals -/
theorem root_true {s : Sat} (ha : s.WfA) (hroot : s.trailLim = []) {α : Asg} (h0 : α 0 = false)
    (hr : ∀ l ∈ s.trail, s.lvl l = 0 → α.lit l = true) {l : Lit} (hv : s.value l = some true) : α.lit l = true := by
  rcases (ha.value_true).1 hv with h1 | h1
  · exact hr l h1 (ha.root_lvl hroot h1)
  · subst h1; simp [Asg.lit, Lit.trueLit, h0]

theorem root_false {s : Sat} (ha : s.WfA) (hroot : s.trailLim = []) {α : Asg} (h0 : α 0 = false)
    (hr : ∀ l ∈ s.trail, s.lvl l = 0 → α.lit l = true) {l : Lit} (hv : s.value l = some false) : α.lit l = false := by
  have := root_true ha hroot h0 hr (value_neg_true.2 hv)
  rw [Asg.lit_neg] at this
  simpa using this

theorem newClause_spec {orig : Cnf} {m : Nat} {s : Sat} (h : InvC orig m (fun _ x => x ∈ s.queue) s)
    (hroot : s.trailLim = []) (c : List Lit) (hr : ∀ l ∈ c, l.var < s.vals.length) :
    InvC (orig ++ [c]) m (fun _ x => x ∈ (s.newClause c).2.queue) (s.newClause c).2 ∧
      (s.newClause c).2.trailLim = [] ∧ ((s.newClause c).1 = false → (s.newClause c).2.dead = true) ∧
      ((s.newClause c).1 = true → (s.newClause c).2.dead = s.dead) ∧ (s.newClause c).2.log = s.log ∧
      (s.newClause c).2.exprs = s.exprs ∧ (s.newClause c).2.vals.length = s.vals.length ∧
      (s.newClause c).2.decisions = s.decisions := by
  have hsub : ∀ d ∈ orig, d ∈ orig ++ [c] := fun d hd => List.mem_append_left _ hd
  have hmono := h.mono_orig hsub
  have ha := h.wf.a
  have hcE : Ents (orig ++ [c]) c := Ents.of_mem (List.mem_append_right _ (List.mem_singleton.2 rfl))
  have hsortmem : ∀ l, l ∈ Enc.sortByVar c ↔ l ∈ c := fun l => Enc.mem_sortByVar
  have hdec0 : s.decisionLevel = 0 := by simp [decisionLevel, hroot]
  unfold newClause
  generalize hscan : Enc.scanClause s.toEnc (Enc.sortByVar c) none [] = res
  -- facts about a successful scan
  have hscanfacts : ∀ r, res = some r → (∀ l ∈ r, l ∈ c ∧ s.value l = none) ∧
      (∀ l ∈ c, l ∈ r ∨ s.value l = some false) ∧ (r.map Lit.var).Nodup := by
    intro r hr'
    rw [hr'] at hscan
    have h1 := Enc.scanClause_sub s.toEnc _ _ _ _ hscan
    have h2 := (Enc.scanClause_sup s.toEnc _ _ _ _ hscan (by simp)).2
    refine ⟨fun l hl => ?_, fun l hl => ?_, ?_⟩
    · rcases h1 l hl with h3 | h3
      · cases h3
      · exact ⟨(hsortmem l).1 h3.1, h3.2⟩
    · cases hv : s.value l with
      | none => exact Or.inl (h2 l ((hsortmem l).2 hl) hv)
      | some b =>
        cases b with
        | false => exact Or.inr rfl
        | true =>
          exfalso
          have := Enc.scanClause_true s.toEnc (Enc.sortByVar c) none [] ⟨l, (hsortmem l).2 hl, hv⟩
          rw [this] at hscan; cases hscan
    · exact Enc.scanClause_nodup s.toEnc _ _ _ _ (Enc.sortByVar_sorted c) List.Pairwise.nil rfl (by simp) hscan
  match res, hscanfacts with
  | none, _ =>
    dsimp only
    refine ⟨⟨hmono.wf, ?_, hmono.dec, hmono.w2⟩, hroot, (fun e => by cases e), fun _ => rfl, rfl, rfl, rfl, rfl⟩
    apply hmono.ent.keeps_add
    intro _ α h0 _ hroots
    rcases Enc.scanClause_none s.toEnc _ _ _ hscan with ⟨l, hl, hv⟩ | ⟨l, hl, hh⟩
    · simp only [Asg.clause, List.any_eq_true]
      exact ⟨l, (hsortmem l).1 hl, root_true ha hroot h0 hroots hv⟩
    · rcases hh with hh | hh
      · cases hh
      · simp only [Asg.clause, List.any_eq_true]
        have h1 := (hsortmem l).1 hl
        have h2 := (hsortmem _).1 hh
        cases hv : α.lit l with
        | true => exact ⟨l, h1, hv⟩
        | false => exact ⟨l.neg, h2, by rw [Asg.lit_neg, hv]; rfl⟩
  | some [], hf =>
    dsimp only
    obtain ⟨_, h2, _⟩ := hf [] rfl
    have hU : Uns (orig ++ [c]) := by
      have := ents_drop_false ha hmono.ent hroot hcE h2
      intro α h0
      cases hF : α.cnf (orig ++ [c]) with
      | false => rfl
      | true => have := this α h0 hF; simp [Asg.clause] at this
    exact ⟨hmono.setDead hU, hroot, fun _ => rfl, (fun e => by cases e), rfl, rfl, rfl, rfl⟩
  | some [l], hf =>
    dsimp only
    obtain ⟨h1, h2, _⟩ := hf [l] rfl
    have hv := (h1 l (List.mem_singleton.2 rfl)).2
    have hlt := hr l (h1 l (List.mem_singleton.2 rfl)).1
    have hEl : Ents (orig ++ [c]) [l] := ents_drop_false ha hmono.ent hroot hcE h2
    rw [enqueue_none _ hv]
    refine ⟨⟨hmono.wf.enq hv hlt (fun _ => Or.inl hdec0) (fun id e => by cases e), ?_, hmono.dec.enq ha hv,
      fun hd => (hmono.w2 hd).enq ha hv hlt (fun _ x hx => List.mem_append_left _ hx)
        (fun _ => List.mem_append_right _ (List.mem_singleton.2 rfl))⟩, hroot, (fun e => by cases e), fun _ => rfl,
      rfl, rfl, by simp [enq], rfl⟩
    apply (hmono.ent.enq ha hv hlt (hEl.mono (fun d hd => List.mem_append_left _ hd))).keeps_add
    intro _ α _ _ hroots
    have := hroots l (List.mem_cons_self ..) (by rw [enq_lvl_self ha hlt]; exact hdec0)
    simp only [Asg.clause, List.any_eq_true]
    exact ⟨l, (h1 l (List.mem_singleton.2 rfl)).1, this⟩
  | some (l0 :: l1 :: rest), hf =>
    dsimp only
    obtain ⟨h1, h2, h3⟩ := hf _ rfl
    have hrange : ∀ l ∈ l0 :: l1 :: rest, l.var < s.vals.length := fun l hl => hr l (h1 l hl).1
    have hvar0 : ∀ l ∈ l0 :: l1 :: rest, l.var ≠ 0 := fun l hl => ha.var_ne_zero_of_none (h1 l hl).2
    have hEls : Ents (orig ++ [c]) (l0 :: l1 :: rest) := ents_drop_false ha hmono.ent hroot hcE h2
    refine ⟨⟨hmono.wf.addClause h3 hrange hvar0, ?_, hmono.dec, fun hd => ?_⟩, hroot, (fun e => by cases e),
      fun _ => rfl, rfl, rfl, rfl, rfl⟩
    · refine ⟨?_, hmono.ent.trail, hmono.ent.log, hmono.ent.dead, ?_⟩
      · intro e he
        rw [addClause_cls] at he
        rcases List.mem_append.1 he with he | he
        · exact hmono.ent.clauses e he
        · simp only [List.mem_singleton] at he; subst he; exact hEls
      · intro hd α h0 hcl hroots
        rw [addClause_cls, List.map_append, Asg.cnf_append] at hcl
        simp only [Bool.and_eq_true] at hcl
        have hK := hmono.ent.keeps hd α h0 hcl.1 hroots
        have hnew : α.clause (l0 :: l1 :: rest) = true := by simpa [Asg.cnf] using hcl.2
        rw [Asg.cnf_append, hK]
        simp only [Asg.cnf, List.all_cons, List.all_nil, Bool.and_true, Bool.true_and]
        simp only [Asg.clause, List.any_eq_true] at hnew ⊢
        obtain ⟨l, hl, hv⟩ := hnew
        exact ⟨l, (h1 l hl).1, hv⟩
    · apply (hmono.w2 hd).addClause
      have e0 := (h1 l0 (by simp)).2
      have e1 := (h1 l1 (by simp)).2
      exact ⟨(fun hv => by rw [e0] at hv; cases hv), (fun hv => by rw [e1] at hv; cases hv)⟩

end Sat
end Oratio
